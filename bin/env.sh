# sourced by the scripts: resolves the Go toolchain the repository needs (1.25.9,
# from the module cache) and sets the offline build environment.
export VERIF_ROOT="${VERIF_ROOT:-/verif}"
export VERIF_REPO="${VERIF_REPO:-/repo}"
if [ -z "${VERIF_GOROOT:-}" ]; then
  VERIF_GOROOT="$(cd "$VERIF_REPO" && GOFLAGS=-mod=mod GOPROXY=off go env GOROOT 2>/dev/null)"
  if [ ! -x "$VERIF_GOROOT/bin/go" ]; then
    VERIF_GOROOT="$(ls -d /root/go/pkg/mod/golang.org/toolchain@v0.0.1-go1.25.9.linux-amd64 2>/dev/null)"
  fi
  export VERIF_GOROOT
fi
export PATH="$VERIF_GOROOT/bin:$PATH"
export GOROOT="$VERIF_GOROOT"
export GOFLAGS=-mod=mod GOPROXY=off GOSUMDB=off GOTOOLCHAIN=local CGO_ENABLED=1
export GNOROOT="$VERIF_REPO"
