package main

import (
	"os"
	"runtime/pprof"

	_ "verifharness/checks/c54"
	"verifharness/internal/vf"
)

func main() {
	if p := os.Getenv("DEV_PROF"); p != "" {
		f, _ := os.Create(p)
		pprof.StartCPUProfile(f)
		defer pprof.StopCPUProfile()
	}
	vf.Main()
}
