// verif: add-only file (not part of upstream). Entry points that install the
// observation hook added by ../verif_hook.patch; otherwise they are verbatim
// copies of ParseFile / ParseExprFrom from interface.go.

package goparser124

import (
	_ "embed"
	"go/ast"
	"go/token"
)

// MaxNestLev exposes upstream's recursion limit to the workload generator.
const MaxNestLev = maxNestLev

// ParseFileHook is ParseFile with the observation hook installed.
func ParseFileHook(fset *token.FileSet, filename string, src any, mode Mode, hook func(tok token.Token, nestLev int)) (f *ast.File, err error) {
	if fset == nil {
		panic("parser.ParseFile: no token.FileSet provided (fset == nil)")
	}

	// get source
	text, err := readSource(filename, src)
	if err != nil {
		return nil, err
	}

	file := fset.AddFile(filename, -1, len(text))

	var p parser
	defer func() {
		if e := recover(); e != nil {
			// resume same panic if it's not a bailout
			bail, ok := e.(bailout)
			if !ok {
				panic(e)
			} else if bail.msg != "" {
				p.errors.Add(p.file.Position(bail.pos), bail.msg)
			}
		}

		// set result values
		if f == nil {
			// source is not a valid Go source file - satisfy
			// ParseFile API and return a valid (but) empty
			// *ast.File
			f = &ast.File{
				Name:  new(ast.Ident),
				Scope: ast.NewScope(nil),
			}
		}

		// Ensure the start/end are consistent,
		// whether parsing succeeded or not.
		f.FileStart = token.Pos(file.Base())
		f.FileEnd = token.Pos(file.Base() + file.Size())

		p.errors.Sort()
		err = p.errors.Err()
	}()

	// parse source
	p.init(file, text, mode)
	p.hook = hook
	f = p.parseFile()

	return
}

// ParseExprFromHook is ParseExprFrom with the observation hook installed.
func ParseExprFromHook(fset *token.FileSet, filename string, src any, mode Mode, hook func(tok token.Token, nestLev int)) (expr ast.Expr, err error) {
	if fset == nil {
		panic("parser.ParseExprFrom: no token.FileSet provided (fset == nil)")
	}

	// get source
	text, err := readSource(filename, src)
	if err != nil {
		return nil, err
	}

	var p parser
	defer func() {
		if e := recover(); e != nil {
			// resume same panic if it's not a bailout
			bail, ok := e.(bailout)
			if !ok {
				panic(e)
			} else if bail.msg != "" {
				p.errors.Add(p.file.Position(bail.pos), bail.msg)
			}
		}
		p.errors.Sort()
		err = p.errors.Err()
	}()

	// parse expr
	file := fset.AddFile(filename, -1, len(text))
	p.init(file, text, mode)
	p.hook = hook
	expr = p.parseRhs()

	// If a semicolon was inserted, consume it;
	// report an error if there's more tokens.
	if p.tok == token.SEMICOLON && p.lit == "\n" {
		p.next()
	}
	p.expect(token.EOF)

	return
}

// SourceJSON is SOURCE.json (written by ../regen.sh): the sha256 of the fork
// files the reference was generated from.
//
//go:embed SOURCE.json
var SourceJSON []byte
