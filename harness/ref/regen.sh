#!/bin/bash
# Regenerates /verif/harness/ref/goparser124 — the reference model of check C21.
#
# The reference is the upstream Go parser the Gno fork (gnovm/pkg/parser) was
# taken from. It is obtained from the pinned tree itself: a copy of the fork
# with gnovm/pkg/parser/gno.patch applied in REVERSE (the patch is the complete
# fork delta, see the package Makefile: `genpatch` = diff upstream -> fork).
# On the pinned tree the reverse patch applies cleanly and yields go/parser of
# Go 1.24 (the toolchain's own go/parser is 1.25 and differs: not the reference).
#
# Two mechanical edits are then made, nothing else:
#   1. `package parser` -> `package goparser124`
#   2. verif_hook.patch: an observation hook in next0 (a nil-by-default func
#      field called with (p.tok, p.nestLev) after each Scan) so the check can
#      compare the fork's ParserCallback stream with upstream's own
#      (token, nesting level) sequence. With hook == nil the code path is
#      upstream's. hook.go (add-only file, kept by hand) exposes ParseFileHook.
#
# SOURCE.json records the sha256 of the fork inputs used, so the check can
# tell (informationally) whether /repo's fork files changed since generation.
#
# usage: ref/regen.sh [repo]      (default /repo). Never run by the checks.
set -euo pipefail
REPO="${1:-/repo}"
HERE="$(cd "$(dirname "$0")" && pwd)"
OUT="$HERE/goparser124"
TMP="$(mktemp -d /verif/.work/regen.XXXXXX)"
trap 'rm -rf "$TMP"' EXIT
cp -a "$REPO/gnovm/pkg/parser" "$TMP/p"
( cd "$TMP/p" && patch -R -p1 -f < gno.patch )            # must apply without rejects
mkdir -p "$OUT"
for f in parser.go interface.go resolver.go; do
  sed 's/^package parser$/package goparser124/' "$TMP/p/$f" > "$OUT/$f"
done
cp "$OUT/parser.go" "$TMP/parser.pristine.go"
( cd "$OUT" && patch -p1 -f < "$HERE/verif_hook.patch" )
rm -f "$OUT"/*.orig
{
  echo '{'
  echo ' "generated_from": "gnovm/pkg/parser of the pinned tree, gno.patch reversed (patch -R -p1 -f)",'
  echo ' "repo_head": "'"$(git -C "$REPO" rev-parse HEAD)"'",'
  for f in gno.patch parser.go interface.go resolver.go; do
    echo ' "sha256_'"$f"'": "'"$(sha256sum "$REPO/gnovm/pkg/parser/$f" | cut -d' ' -f1)"'",'
  done
  echo ' "sha256_reference_parser.go_before_hook": "'"$(sha256sum "$TMP/parser.pristine.go" | cut -d' ' -f1)"'"'
  echo '}'
} > "$OUT/SOURCE.json"
echo "regenerated $OUT"
