// dev-only engine for the C15/C16 author (not registered anywhere).
package main

import (
	_ "verifharness/checks/c15"
	_ "verifharness/checks/c16"
	"verifharness/internal/vf"
)

func main() { vf.Main() }
