// Package c07: a realm's persisted state changes only under that realm's
// authority.
//
// Closed-world victims (realms with data, read-only getters and read-only
// hooks, no mutator) are attacked by generated programs: access path × write
// form × execution vector × attacker kind (MsgRun script, attacker realm
// deployed by the attacker, /p/ and /r/ helper libraries that get victim values
// passed in, references stored in attacker state and used in a later tx). After
// every attacker transaction — succeeded or failed — every victim's Dump()
// (vm/qeval) and the value payload of every persisted object stamped with the
// victim's PkgID must equal the genesis baseline (ObjectInfo and recorded child
// hashes masked). Constructions of victim-declared types that the interrealm
// specification forbids, and every attempt to persist a realm value, must end
// in a transaction error. Positive controls (the control realm's own crossing
// functions, a non-crossing function and a method declared in it, a closure it
// minted, a /p/ method on a receiver it owns) must succeed and change state.
package c07

import (
	"fmt"
	"math/rand/v2"
	"sort"
	"strings"

	"verifharness/internal/audit"
	"verifharness/internal/chainsim"
	"verifharness/internal/hist"
	"verifharness/internal/vf"
)

func init() {
	vf.Register(&vf.Check{
		ID:    "C07",
		Level: "exploration",
		Rule: "case = one generated attacker transaction: (victim access path up to 3 hops) × (write form: assign, op-assign, inc/dec, index/map write, delete, append through alias, pointer store, struct store, slice-of-slice, copy, range-assign, swap, helper call) × " +
			"(vector: plain, closure, defer, recover, func/method declarations, method values, callbacks run by /p/ and /r/ helpers and by the victim's own read-only hooks, package init, reference stored in attacker state) × (agent: MsgRun script | attacker realm); " +
			"plus forbidden constructions of victim-declared types, attempts to persist realm values, and positive controls; oracle = victim Dump() and masked oid: payloads equal the genesis baseline after the tx; " +
			"non-trivial = the program compiled and its write statement was reached (no type-check error, no unrelated runtime error); distinct by (class, agent, vector, path, form)",
		Run: run,
	})
}

const (
	gasTx  = 120_000_000
	feeTx  = 1_000_000
	signer = "mallory"
)

// obs is what the monitor sees of the watched realms.
type obs struct {
	dump map[string]string
	snap map[string]*ObjSnap
}

var watched = append(append([]string{}, victimNames...), "ctla")

// observe reads the persisted objects of every watched realm (raw committed
// DB) and evaluates Dump() through the application for the realms in dumpOf
// (nil = all).
func observe(ch *chainsim.Chain, dumpOf map[string]bool) *obs {
	o := &obs{dump: map[string]string{}, snap: map[string]*ObjSnap{}}
	v, err := audit.Open(ch.DB, 0)
	if err != nil {
		panic(err)
	}
	for _, w := range watched {
		if dumpOf == nil || dumpOf[w] {
			d, err := ch.Eval(basePath+w, "Dump()")
			if err != nil {
				d = "EVAL-ERROR " + clip(err.Error(), 300)
			}
			o.dump[w] = d
		}
		s, err := SnapObjects(v, basePath+w)
		if err != nil {
			panic(err)
		}
		o.snap[w] = s
	}
	return o
}

// outcome classes of an attacker tx
func classify(tr *chainsim.TxResult) string {
	if tr.OK {
		return "ok"
	}
	e := tr.ErrString + " " + tr.Log
	switch {
	case strings.Contains(e, "TypeCheckError") || strings.Contains(e, "declared and not used") || strings.Contains(e, "imported and not used"):
		return "compile-error"
	case strings.Contains(e, "invariant violation: DidUpdate"):
		return "rejected-backstop"
	case strings.Contains(e, "cannot directly mutate"):
		return "rejected-static"
	case strings.Contains(e, "readonly tainted") || strings.Contains(e, "cannot directly modify"):
		return "rejected-readonly"
	case strings.Contains(e, "cannot allocate") || strings.Contains(e, "illegal conversion"):
		return "rejected-construction"
	case strings.Contains(e, "cannot persist realm value"):
		return "rejected-persist-realm"
	case strings.Contains(e, "immutable post-init"):
		return "rejected-p-immutable"
	case strings.Contains(e, "index out of range") || strings.Contains(e, "nil pointer dereference") || strings.Contains(e, "slice bounds out of range") || strings.Contains(e, "interface conversion") || strings.Contains(e, "nil map") || strings.Contains(e, "nil slice index") || strings.Contains(e, "TypeAssertionError") || strings.Contains(e, "unexpected type for len()"):
		return "inapplicable-runtime"
	case strings.Contains(e, "out of gas") || strings.Contains(e, "OutOfGas"):
		return "out-of-gas"
	case !chainsim.AntePassed(tr):
		return "ante"
	}
	return "other-error"
}

type chainRun struct {
	c     *vf.Ctx
	idx   int
	ch    *chainsim.Chain
	base  *obs // victims: baseline (re-set after a reported change); ctla: last state
	pkgNo int
	txNo  int
}

func (r *chainRun) tx(t hist.TxSpec) *chainsim.TxResult {
	t.Signer, t.Gas, t.Fee = signer, gasTx, feeTx
	r.txNo++
	return OneTx(r.ch, t)
}

func runTx(body string) hist.TxSpec {
	return hist.TxSpec{Msgs: []hist.MsgSpec{{Kind: "run", Body: body}}}
}
func callTx(pkg, fn string, args ...string) hist.TxSpec {
	return hist.TxSpec{Msgs: []hist.MsgSpec{{Kind: "call", Pkg: pkg, Func: fn, Args: args}}}
}
func addpkgTx(path, body string) hist.TxSpec {
	return hist.TxSpec{Msgs: []hist.MsgSpec{{Kind: "addpkg", Pkg: path, Body: body}}}
}

// check compares the watched realms with the baseline after an attacker tx.
// expectCtl: the tx is a positive control (ctla must change), otherwise ctla
// must not change either. Returns whether any victim changed.
func (r *chainRun) check(a *Attack, tr *chainsim.TxResult, txs []hist.TxSpec, expectCtl bool) (victimChanged bool, ctlChanged bool) {
	var dumpOf map[string]bool
	if r.txNo%10 != 0 && a.Class != "final" {
		dumpOf = map[string]bool{"ctla": expectCtl}
		if a.Victim != "" {
			dumpOf[a.Victim] = true
		} else if !expectCtl {
			dumpOf = nil
		}
	}
	now := observe(r.ch, dumpOf)
	c := r.c
	for _, w := range watched {
		if _, ok := now.dump[w]; !ok {
			now.dump[w] = r.base.dump[w] // not evaluated this time
		} else {
			c.Count("dump_evaluations", 1)
		}
		ch, rm, added, meta := DiffObjects(r.base.snap[w], now.snap[w])
		c.Count("objects_compared", len(r.base.snap[w].Payload))
		if meta > 0 {
			c.Count("metadata_only_object_changes", meta)
		}
		if len(added) > 0 {
			c.Count("objects_added_under_watched_pkgid", len(added))
		}
		dumpDiff := r.base.dump[w] != now.dump[w]
		if w == "ctla" {
			if dumpDiff || len(ch)+len(rm) > 0 {
				ctlChanged = true
				if !expectCtl {
					c.Violation("control-realm-changed-by-attack:"+a.Agent+"/"+a.Vector, witness(a, tr, txs),
						"chain %d: attack %s changed the control realm: dump %q -> %q, objects changed %v removed %v", r.idx, a.Key(), r.base.dump[w], now.dump[w], ch, rm)
				}
			}
			continue
		}
		if !dumpDiff && len(ch)+len(rm) == 0 {
			continue
		}
		victimChanged = true
		key := "victim-state-changed:" + a.Agent + "/" + a.Vector + ":" + a.Kind + "/" + a.Form
		if a.Finding != "" {
			key = "victim-state-changed:victim-callback:" + a.Finding
		}
		if a.Class != "write" {
			key = "victim-state-changed:" + a.Class + ":" + a.Form
		}
		detail := ""
		for _, k := range ch {
			detail += fmt.Sprintf("\n  object %s\n    - %s\n    + %s", k, clip(r.base.snap[w].Payload[k], 400), clip(now.snap[w].Payload[k], 400))
		}
		c.Violation(key, witness(a, tr, txs),
			"chain %d: victim %s changed by attacker tx (ok=%v) %s\n  dump before: %s\n  dump after:  %s\n  objects changed %v removed %v%s",
			r.idx, w, tr.OK, a.Key(), r.base.dump[w], now.dump[w], ch, rm, detail)
	}
	// victims are re-baselined only after a reported change; the control realm always
	if victimChanged {
		for _, w := range victimNames {
			r.base.dump[w], r.base.snap[w] = now.dump[w], now.snap[w]
		}
	}
	r.base.dump["ctla"], r.base.snap["ctla"] = now.dump["ctla"], now.snap["ctla"]
	return
}

func witness(a *Attack, tr *chainsim.TxResult, txs []hist.TxSpec) map[string]any {
	return map[string]any{"world": "c07.TheWorld()", "attack": a, "txs": txs, "ok": tr.OK, "error": clip(tr.Log, 500)}
}

// record evaluates one finished attack (after check).
func (r *chainRun) record(a *Attack, tr *chainsim.TxResult, changed bool, atDeploy bool) {
	c := r.c
	cl := classify(tr)
	nontrivial := cl != "compile-error" && cl != "inapplicable-runtime" && cl != "ante" && cl != "out-of-gas" && cl != "other-error"
	c.Case(a.Key(), nontrivial)
	c.Count("attacks:"+a.Class, 1)
	c.Count("agent:"+a.Agent, 1)
	c.Count("vector:"+a.Agent+"/"+a.Vector, 1)
	c.Count("outcome:"+cl, 1)
	if a.Class == "write" {
		c.Count("kind:"+a.Kind, 1)
		c.Count("form:"+formFamily(a.Form), 1)
		if a.Helper != "" || strings.Contains(a.Vector, "p-") || strings.Contains(a.Vector, "r-run") {
			c.Count("attacks_through_helper_library", 1)
		}
		if strings.HasPrefix(a.Vector, "cb") {
			if changed {
				c.Count("victim_callback_attacks_succeeded", 1)
			} else if nontrivial {
				c.Count("victim_callback_attacks_blocked", 1)
			}
		}
	}
	if atDeploy {
		c.Count("attacks_decided_at_deploy", 1)
	}
	if tr.OK && !changed && a.Class == "write" {
		c.Count("attacker_tx_succeeded_without_effect", 1)
	}
	if cl == "other-error" {
		c.Count("other_error:"+clip(firstLine(tr.Log), 90), 1)
		c.Logf("C07 other error for %s [%s]: %s", a.Key(), a.Stmt, clip(firstLine(tr.Log), 200))
	}
	if cl == "compile-error" {
		c.Logf("C07 generator: compile error for %s: %s", a.Key(), clip(compileMsg(tr.Log), 300))
	}
	if a.MustErr && tr.OK {
		switch a.Class {
		case "construct":
			c.Violation("foreign-type-constructed:"+a.Form, witness(a, tr, nil), "chain %d: construction of a victim-declared type outside the victim succeeded: %s", r.idx, a.Stmt)
		case "persist-realm":
			key := "realm-value-persisted:" + a.Form
			if a.Form == "previous-of-user-caller" {
				key = "realm-value-persisted:origin-previous"
			}
			c.Violation(key, witness(a, tr, nil), "chain %d: transaction that stores a realm value in realm state succeeded: %s", r.idx, a.Stmt)
		}
	}
}

func firstLine(log string) string {
	for _, l := range strings.Split(log, "\n") {
		if strings.Contains(l, "VM panic") || strings.Contains(l, "Data:") {
			return strings.TrimSpace(l)
		}
	}
	return log
}

func compileMsg(log string) string {
	i := strings.Index(log, "Msg Traces:")
	if i < 0 {
		return log
	}
	return strings.ReplaceAll(log[i:], "\n", " | ")
}

func formFamily(name string) string {
	if i := strings.IndexByte(name, ':'); i > 0 && strings.Contains(name[:i], "-") {
		return "helper:" + name[i+1:]
	}
	if strings.HasPrefix(name, "op") {
		return "op-assign"
	}
	return name
}

// ---- plan ----

type plan struct {
	runs     []*Attack   // MsgRun attacks (one tx each)
	packs    [][]*Attack // attacker realm packages (deploy + one call per attack)
	findings []*Attack   // known-finding classes, run last
}

func isStatic(p Path, fm Form) bool { return fm.DirectLHS && p.Hops == 0 && p.LV }

func buildPlan(rng *rand.Rand, nWrite int, maxHops int) *plan {
	uni := Universe(maxHops)
	// stratify by (kind, form): every stratum gets a turn before any gets a second one
	strata := map[string][]int{}
	var keys []string
	for i, cd := range uni {
		k := cd.P.Kind + "/" + cd.F.Name
		if _, ok := strata[k]; !ok {
			keys = append(keys, k)
		}
		strata[k] = append(strata[k], i)
	}
	sort.Strings(keys)
	// rounds: every stratum gets a turn before any gets a second one; when the
	// universe is exhausted another round starts (the vector rotation below
	// makes repeated pairs distinct attacks; exact duplicates are dropped)
	var order []int
	for round := 0; len(order) < nWrite && round < 4; round++ {
		left := map[string][]int{}
		for k, v := range strata {
			left[k] = append([]int{}, v...)
		}
		for len(order) < nWrite {
			rng.Shuffle(len(keys), func(i, j int) { keys[i], keys[j] = keys[j], keys[i] })
			progressed := false
			for _, k := range keys {
				if len(left[k]) == 0 {
					continue
				}
				j := rng.IntN(len(left[k]))
				order = append(order, left[k][j])
				left[k] = append(left[k][:j], left[k][j+1:]...)
				progressed = true
				if len(order) == nWrite {
					break
				}
			}
			if !progressed {
				break
			}
		}
	}
	pl := &plan{}
	id := 0
	var realmNormal []*Attack
	rv, mv := 0, 0
	rvs := append([]string{}, runVectors...)
	mvs := append([]string{}, realmVectors...)
	rng.Shuffle(len(rvs), func(i, j int) { rvs[i], rvs[j] = rvs[j], rvs[i] })
	rng.Shuffle(len(mvs), func(i, j int) { mvs[i], mvs[j] = mvs[j], mvs[i] })
	seenKey := map[string]bool{}
	for _, ci := range order {
		cd := uni[ci]
		id++
		a := &Attack{ID: id, Class: "write", Victim: cd.P.Victim, Path: cd.P.Expr, Kind: cd.P.Kind, Form: cd.F.Name, Stmt: subst(cd.F.Stmt, cd.P.Expr), Helper: cd.F.Helper, Static: isStatic(cd.P, cd.F)}
		if rng.IntN(100) < 58 {
			a.Agent = "run"
			for try := 0; try < len(rvs); try++ {
				a.Vector = rvs[rv%len(rvs)]
				rv++
				src, finding, ok := BuildRun(cd.P, cd.F, a.Vector)
				if ok {
					a.Source, a.Finding = src, finding
					break
				}
			}
			if seenKey[a.Key()] {
				continue
			}
			seenKey[a.Key()] = true
			if a.Finding != "" {
				pl.findings = append(pl.findings, a)
			} else {
				pl.runs = append(pl.runs, a)
			}
			continue
		}
		a.Agent = "realm"
		for try := 0; try < len(mvs); try++ {
			a.Vector = mvs[mv%len(mvs)]
			mv++
			if _, _, _, _, ok := RealmFunc(cd.P, cd.F, a.Vector, 0); ok {
				break
			}
		}
		if seenKey[a.Key()] {
			continue
		}
		seenKey[a.Key()] = true
		if a.Static || a.Vector == "init" {
			pl.packs = append(pl.packs, []*Attack{a})
		} else {
			realmNormal = append(realmNormal, a)
		}
	}
	for len(realmNormal) > 0 {
		n := 8
		if n > len(realmNormal) {
			n = len(realmNormal)
		}
		pl.packs = append(pl.packs, realmNormal[:n])
		realmNormal = realmNormal[n:]
	}
	// keep the share of known-finding attacks small and bounded
	maxF := 6 + nWrite/150
	if len(pl.findings) > maxF {
		pl.findings = pl.findings[:maxF]
	}
	return pl
}

// packSource renders an attacker realm holding the given attacks.
func packSource(name string, as []*Attack, paths map[int]Candidate) (string, map[int]string) {
	impSet := map[string]bool{}
	var decls strings.Builder
	entries := map[int]string{}
	for _, a := range as {
		cd := paths[a.ID]
		d, entry, imps, _, ok := RealmFunc(cd.P, cd.F, a.Vector, a.ID)
		if !ok {
			continue
		}
		for _, i := range imps {
			impSet[i] = true
		}
		decls.WriteString(d)
		decls.WriteString("\n")
		entries[a.ID] = entry
		a.Source = d
	}
	var imps []string
	for i := range impSet {
		imps = append(imps, i)
	}
	sort.Strings(imps)
	s := "package " + name + "\n\nimport (\n"
	for _, i := range imps {
		s += "\t\"" + i + "\"\n"
	}
	return s + ")\n\n" + decls.String(), entries
}

// ---- positive controls ----

type control struct {
	name string
	tx   func(n int) hist.TxSpec
}

func ctlRun(stmt string) func(n int) hist.TxSpec {
	return func(n int) hist.TxSpec {
		return runTx("package main\n\nimport \"" + basePath + "ctla\"\n\nfunc main(cur realm) {\n\t" + strings.ReplaceAll(stmt, "N", fmt.Sprint(n)) + "\n}\n")
	}
}

var controls = []control{
	{"crossing-call-msgcall", func(n int) hist.TxSpec { return callTx(basePath+"ctla", "SetCounter", fmt.Sprint(1000+n)) }},
	{"crossing-call-from-run", ctlRun("ctla.SetPt(cross(cur), 2000+N)")},
	{"crossing-append-from-run", ctlRun("ctla.Push(cross(cur), N)")},
	{"crossing-map-put-from-run", ctlRun(`ctla.Put(cross(cur), "k", 3000+N)`)},
	{"noncrossing-func-declared-in-realm", ctlRun("ctla.BumpPlain()")},
	{"method-declared-in-realm-on-owned-receiver", ctlRun("ctla.GetPP().Inc()")},
	{"closure-minted-by-realm", ctlRun("ctla.Bumper()()")},
	{"borrow-rule-2-p-method-on-owned-receiver", ctlRun("ctla.GetBox().Add(N + 1)")},
	{"borrow-rule-2-bound-method-value", ctlRun("f := ctla.GetBox().Add; f(N + 1)")},
}

// ---- chain driver ----

func (r *chainRun) control(k int, n int) {
	ct := controls[k%len(controls)]
	t := ct.tx(n)
	a := &Attack{Class: "control", Agent: "run", Vector: ct.name, Form: ct.name}
	tr := r.tx(t)
	_, ctlChanged := r.check(a, tr, []hist.TxSpec{t}, true)
	r.c.Count("positive_controls_run", 1)
	switch {
	case !tr.OK:
		r.c.Violation("positive-control-failed:"+ct.name, witness(a, tr, []hist.TxSpec{t}), "chain %d: legitimate write %s was rejected: %s", r.idx, ct.name, clip(tr.Log, 400))
	case !ctlChanged:
		r.c.Violation("positive-control-no-effect:"+ct.name, witness(a, tr, []hist.TxSpec{t}), "chain %d: legitimate write %s succeeded but the monitor saw no change of the control realm", r.idx, ct.name)
	default:
		r.c.Count("positive_controls_ok", 1)
		r.c.Count("control_ok:"+ct.name, 1)
	}
}

func (r *chainRun) runAttack(a *Attack) {
	t := runTx(a.Source)
	tr := r.tx(t)
	changed, _ := r.check(a, tr, []hist.TxSpec{t}, false)
	r.record(a, tr, changed, false)
}

func (r *chainRun) runPack(as []*Attack, cands map[int]Candidate) {
	r.pkgNo++
	name := fmt.Sprintf("m%dk%d", r.idx, r.pkgNo)
	src, entries := packSource(name, as, cands)
	path := basePath + name
	dep := addpkgTx(path, src)
	tr := r.tx(dep)
	depAttack := &Attack{Class: "write", Agent: "realm", Vector: "deploy", Form: "deploy", Kind: "pkg", Source: src}
	if len(as) == 1 {
		depAttack = as[0]
	}
	changed, _ := r.check(depAttack, tr, []hist.TxSpec{dep}, false)
	if !tr.OK {
		if len(as) == 1 {
			r.record(as[0], tr, changed, true)
			return
		}
		r.c.Count("attack_packages_split_after_failed_deploy", 1)
		for _, a := range as {
			r.runPack([]*Attack{a}, cands)
		}
		return
	}
	r.c.Count("attack_packages_deployed", 1)
	for _, a := range as {
		fn, ok := entries[a.ID]
		if !ok {
			continue
		}
		var txs []hist.TxSpec
		if a.Vector == "init" {
			// the write ran at deploy and the deploy succeeded
			r.record(a, tr, changed, true)
			continue
		}
		if a.Vector == "stored" {
			s := callTx(path, "S"+fmt.Sprint(a.ID))
			txs = append(txs, s)
			trS := r.tx(s)
			ch2, _ := r.check(a, trS, txs, false)
			r.c.Count("references_stored_in_attacker_state", 1)
			if !trS.OK {
				r.c.Count("store_reference_tx_failed", 1)
			}
			_ = ch2
		}
		t := callTx(path, fn)
		txs = append(txs, t)
		tr2 := r.tx(t)
		ch, _ := r.check(a, tr2, txs, false)
		r.record(a, tr2, ch, false)
	}
}

// special attacks: constructions and realm-value persistence
func (r *chainRun) runSpecials(rng *rand.Rand) {
	// constructions from a MsgRun script
	for i, s := range constructions() {
		a := &Attack{ID: 100000 + i, Class: "construct", Agent: "run", Vector: "plain", Victim: s.victim, Form: s.name, Stmt: s.stmt, MustErr: s.mustErr}
		a.Source = "package main\n\nimport \"" + basePath + s.victim + "\"\n\nfunc main(cur realm) {\n\t" + s.stmt + "\n}\n"
		t := runTx(a.Source)
		tr := r.tx(t)
		ch, _ := r.check(a, tr, []hist.TxSpec{t}, false)
		r.record(a, tr, ch, false)
		if !s.mustErr {
			r.c.Count("unforbidden_construction:"+s.name+":ok="+fmt.Sprint(tr.OK), 1)
		}
	}
	// constructions inside an attacker realm (one package, one function each) + package-level initialisers
	r.pkgNo++
	name := fmt.Sprintf("m%dc%d", r.idx, r.pkgNo)
	src := "package " + name + "\n\nimport (\n"
	for _, v := range victimNames {
		src += "\t\"" + basePath + v + "\"\n"
	}
	src += ")\n\n"
	cs := constructions()
	for i, s := range cs {
		src += fmt.Sprintf("func C%d(cur realm) {\n\t%s\n}\n\n", i, s.stmt)
	}
	dep := addpkgTx(basePath+name, src)
	tr := r.tx(dep)
	da := &Attack{Class: "construct", Agent: "realm", Vector: "deploy", Form: "deploy"}
	r.check(da, tr, []hist.TxSpec{dep}, false)
	if !tr.OK {
		r.c.Inconclusive("construction attack package did not deploy: " + clip(tr.Log, 400))
		return
	}
	for i, s := range cs {
		a := &Attack{ID: 110000 + i, Class: "construct", Agent: "realm", Vector: "plain", Victim: s.victim, Form: s.name, Stmt: s.stmt, MustErr: s.mustErr, Source: src}
		t := callTx(basePath+name, fmt.Sprintf("C%d", i))
		tr := r.tx(t)
		ch, _ := r.check(a, tr, []hist.TxSpec{dep, t}, false)
		r.record(a, tr, ch, false)
	}
	for i, s := range []snippet{
		{"pkg-var-initialiser-struct-lit", "var X = vica.Pt{1, 2}", true, "vica"},
		{"pkg-var-initialiser-new", "var X = new(vica.Rec)", true, "vica"},
		{"init-func-make-named-map", "var X any\n\nfunc init() { X = make(vicc.StrMap) }", true, "vicc"},
	} {
		r.pkgNo++
		n2 := fmt.Sprintf("m%dc%d", r.idx, r.pkgNo)
		body := "package " + n2 + "\n\nimport \"" + basePath + s.victim + "\"\n\n" + s.stmt + "\n"
		a := &Attack{ID: 120000 + i, Class: "construct", Agent: "realm", Vector: "init", Victim: s.victim, Form: s.name, Stmt: s.stmt, MustErr: true, Source: body}
		t := addpkgTx(basePath+n2, body)
		tr := r.tx(t)
		ch, _ := r.check(a, tr, []hist.TxSpec{t}, false)
		r.record(a, tr, ch, true)
	}
	// realm-value persistence
	r.pkgNo++
	pname := fmt.Sprintf("m%dp%d", r.idx, r.pkgNo)
	ps := persistForms()
	psrc := "package " + pname + "\n\n"
	for i, s := range ps {
		parts := strings.SplitN(s.stmt, "\x00", 2)
		decl := strings.ReplaceAll(parts[0], "%d", fmt.Sprint(i))
		stmt := strings.ReplaceAll(parts[1], "%d", fmt.Sprint(i))
		psrc += decl + "\n\nfunc A" + fmt.Sprint(i) + "(cur realm) {\n\t" + stmt + "\n}\n\nfunc R" + fmt.Sprint(i) + "(cur realm) { A" + fmt.Sprint(i) + "(cross(cur)) }\n\n"
	}
	pdep := addpkgTx(basePath+pname, psrc)
	trp := r.tx(pdep)
	r.check(&Attack{Class: "persist-realm", Agent: "realm", Vector: "deploy", Form: "deploy"}, trp, []hist.TxSpec{pdep}, false)
	if !trp.OK {
		r.c.Inconclusive("realm-persistence attack package did not deploy: " + clip(trp.Log, 400))
		return
	}
	for i, s := range ps {
		parts := strings.SplitN(s.stmt, "\x00", 2)
		a := &Attack{ID: 130000 + i, Class: "persist-realm", Agent: "realm", Vector: "via-call", Form: s.name, Stmt: strings.ReplaceAll(parts[1], "%d", fmt.Sprint(i)), MustErr: true, Source: psrc}
		var t hist.TxSpec
		switch s.victim {
		case "via-realm":
			a.Vector = "via-realm"
			t = callTx(basePath+pname, fmt.Sprintf("R%d", i))
		case "via-run":
			a.Vector = "via-run"
			t = runTx("package main\n\nimport \"" + basePath + pname + "\"\n\nfunc main(cur realm) {\n\t" + pname + fmt.Sprintf(".A%d(cross(cur))\n}\n", i))
		default:
			t = callTx(basePath+pname, fmt.Sprintf("A%d", i))
		}
		tr := r.tx(t)
		ch, _ := r.check(a, tr, []hist.TxSpec{pdep, t}, false)
		r.record(a, tr, ch, false)
	}
}

func run(c *vf.Ctx) {
	nWrite := c.N(300, 5000)
	nChains := c.N(4, 16)
	maxHops := 3
	rng := c.Rng(1)
	pl := buildPlan(rng, nWrite, maxHops)
	// candidate lookup for realm packs
	cands := map[int]Candidate{}
	{
		uni := Universe(maxHops)
		byKey := map[string]Candidate{}
		for _, cd := range uni {
			byKey[cd.P.Expr+"|"+cd.F.Name] = cd
		}
		for _, pk := range pl.packs {
			for _, a := range pk {
				cands[a.ID] = byKey[a.Path+"|"+a.Form]
			}
		}
	}
	c.Set("universe_path_form_pairs", len(Universe(maxHops)))
	c.Set("planned_run_attacks", len(pl.runs))
	c.Set("planned_realm_packages", len(pl.packs))
	c.Set("planned_known_finding_attacks", len(pl.findings))
	sampled := 0
	// units of work: runs and packs, dealt round-robin to the chains; specials on chain 0 (and every 8th chain in thorough)
	type unit struct {
		run  *Attack
		pack []*Attack
	}
	per := make([][]unit, nChains)
	k := 0
	for _, a := range pl.runs {
		per[k%nChains] = append(per[k%nChains], unit{run: a})
		k++
	}
	for _, p := range pl.packs {
		per[k%nChains] = append(per[k%nChains], unit{pack: p})
		k++
	}
	fper := make([][]*Attack, nChains)
	for i, a := range pl.findings {
		fper[i%nChains] = append(fper[i%nChains], a)
	}
	world := TheWorld()
	c.Parallel(nChains, 8, 100, func(i int, rng *rand.Rand) {
		ch, err := Start(world, Users, nil)
		if err != nil {
			panic(err)
		}
		defer ch.Close()
		r := &chainRun{c: c, idx: i, ch: ch}
		r.base = observe(ch, nil)
		for _, w := range victimNames {
			if strings.HasPrefix(r.base.dump[w], "EVAL-ERROR") || len(r.base.snap[w].Payload) == 0 {
				panic("victim " + w + " not observable: " + r.base.dump[w])
			}
		}
		units := per[i]
		rng.Shuffle(len(units), func(a, b int) { units[a], units[b] = units[b], units[a] })
		ctl := i
		every := len(units)/len(controls) + 1
		if every > 7 {
			every = 7
		}
		for j, u := range units {
			if j%every == 0 {
				r.control(ctl, j+1)
				ctl++
			}
			if u.run != nil {
				r.runAttack(u.run)
			} else {
				r.runPack(u.pack, cands)
			}
		}
		// every control kind at least once per chain 0; others continue the rotation
		if i == 0 {
			for k := range controls {
				r.control(k, 500+k)
			}
		}
		if i%4 == 1 || nChains == 1 {
			r.runSpecials(rng)
		}
		for _, a := range fper[i] {
			r.runAttack(a)
		}
		// final full observation (every Dump evaluated)
		r.check(&Attack{Class: "final", Agent: "any", Vector: "end-of-chain", Form: "end-of-chain"}, &chainsim.TxResult{OK: true}, nil, false)
		c.Count("chains", 1)
		c.Count("transactions", r.txNo)
	})
	for _, a := range pl.runs {
		if sampled < 3 {
			c.Sample(map[string]any{"agent": a.Agent, "vector": a.Vector, "path": a.Path, "form": a.Form, "program": a.Source})
			sampled++
		}
	}
	for _, p := range pl.packs {
		if len(p) > 1 && sampled < 5 {
			c.Sample(map[string]any{"agent": "realm", "vector": p[0].Vector, "path": p[0].Path, "form": p[0].Form, "declarations": p[0].Source})
			sampled++
			break
		}
	}
	c.Assume("victims are closed-world: their code contains no statement that writes package state after init, so every observed change is caused by foreign code")
	c.Assume("ObjectInfo (ids, owner, ref-count, escaped flag, mod-time, hash) and the child hash / escaped flag recorded in references are metadata: they may change when an attacker stores a reference; everything else of a persisted object is payload")
	c.Assume("only constructions that interrealm-v2 §3.2/§8.2 forbids are asserted (composite literal / new / make of a realm-declared named type, conversion to a non-primitive realm-declared type); zero values via var and primitive conversions are observed only")
	c.RequireCounter("attacks:write", int64(c.N(250, 4000)))
	c.RequireCounter("agent:run", int64(c.N(100, 2000)))
	c.RequireCounter("agent:realm", int64(c.N(80, 1500)))
	c.Require("attacks rejected by the VM", c.Counter("outcome:rejected-readonly")+c.Counter("outcome:rejected-static")+c.Counter("outcome:rejected-backstop"), int64(c.N(180, 3000)))
	c.RequireCounter("outcome:rejected-construction", 20)
	c.RequireCounter("outcome:rejected-persist-realm", 8)
	c.RequireCounter("positive_controls_ok", int64(c.N(20, 100)))
	for _, ct := range controls {
		c.RequireCounter("control_ok:"+ct.name, 1)
	}
	c.RequireCounter("attacks_through_helper_library", int64(c.N(25, 400)))
	c.RequireCounter("victim_callback_attacks_blocked", int64(c.N(10, 150)))
	c.RequireCounter("references_stored_in_attacker_state", int64(c.N(1, 10)))
	c.RequireCounter("metadata_only_object_changes", 1)
	for _, v := range runVectors {
		if _, _, _, f, _ := wrap(v, "vica", "x := 1; _ = x"); f != "" {
			continue
		}
		c.RequireCounter("vector:run/"+v, 1)
	}
	for _, v := range realmVectors {
		c.RequireCounter("vector:realm/"+v, 1)
	}
}
