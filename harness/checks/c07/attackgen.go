package c07

import (
	"fmt"
	"math/rand/v2"
	"regexp"
	"sort"
	"strings"
)

// ---------------------------------------------------------------------------
// access paths

// Path is one expression that reaches victim-owned state from outside.
type Path struct {
	Victim string `json:"victim"`
	Expr   string `json:"expr"`
	Kind   string `json:"kind"`
	LV     bool   `json:"lv"`   // assignable
	Addr   bool   `json:"addr"` // addressable
	Hops   int    `json:"hops"`
}

type step struct {
	suffix   string // appended to the expression ("%s" wraps instead when it contains one)
	kind     string
	lv, addr int // 1 = yes, 0 = no, -1 = inherit
}

// derivations: how to go one hop deeper from a value of a kind.
func derive(kind, alias string) []step {
	switch kind {
	case "pt":
		return []step{{".X", "int", -1, -1}, {".Y", "int", -1, -1}}
	case "rec":
		return []step{{".N", "int", -1, -1}, {".S", "string", -1, -1}, {".P", "pt", -1, -1}, {".A", "arr3", -1, -1}, {".Q", "*pt", -1, -1}, {".B", "bool", -1, -1}}
	case "*pt":
		return []step{{".X", "int", 1, 1}, {".Y", "int", 1, 1}}
	case "*rec":
		return []step{{".N", "int", 1, 1}, {".S", "string", 1, 1}, {".P", "pt", 1, 1}, {".A", "arr3", 1, 1}, {".Q", "*pt", 1, 1}}
	case "*int":
		return []step{{"(*%s)", "int", 1, 1}}
	case "arr4", "arr3":
		return []step{{"[1]", "int", -1, -1}}
	case "*arr4":
		return []step{{"[1]", "int", 1, 1}, {"(*%s)", "arr4", 1, 1}}
	case "ints", "il":
		return []step{{"[1]", "int", 1, 1}, {"[0]", "int", 1, 1}}
	case "bytes":
		return []step{{"[1]", "u8", 1, 1}}
	case "pts":
		return []step{{"[0]", "pt", 1, 1}}
	case "ptrs":
		return []step{{"[0]", "*pt", 1, 1}}
	case "ll":
		return []step{{"[1]", "ints", 1, 1}}
	case "as":
		return []step{{"[1]", "ints", -1, -1}}
	case "strs":
		return []step{{"[0]", "string", 1, 1}}
	case "m_si", "sm":
		return []step{{`["a"]`, "int", 1, 0}}
	case "m_sp":
		return []step{{`["a"]`, "*pt", 1, 0}}
	case "m_mm":
		return []step{{`["a"]`, "m_si", 1, 0}}
	case "m_ml":
		return []step{{`["a"]`, "ints", 1, 0}}
	case "m_is":
		return []step{{`[1]`, "string", 1, 0}}
	case "any_ptr":
		return []step{{".(*" + alias + ".Pt)", "*pt", 0, 0}}
	case "anys":
		return []step{{"[0]", "any_ptr", 1, 1}, {"[3].([]int)", "ints", 0, 0}}
	case "node":
		return []step{{".Val", "int", 1, 1}, {".Tag", "string", 1, 1}, {".Next", "node", 1, 1}, {".Kids", "nodes", 1, 1}, {".Meta", "m_si", 1, 1}}
	case "nodes":
		return []step{{"[0]", "node", 1, 1}}
	}
	return nil
}

// AllPaths enumerates the base paths of a victim and everything reachable in
// up to maxHops further selector/index/deref/assert steps.
func AllPaths(victim string, maxHops int) []Path {
	var out []Path
	var walk func(p Path)
	walk = func(p Path) {
		out = append(out, p)
		if p.Hops >= maxHops {
			return
		}
		for _, s := range derive(p.Kind, victim) {
			q := Path{Victim: victim, Kind: s.kind, Hops: p.Hops + 1}
			if strings.Contains(s.suffix, "%s") {
				q.Expr = fmt.Sprintf(s.suffix, p.Expr)
			} else {
				q.Expr = p.Expr + s.suffix
			}
			q.LV, q.Addr = p.LV, p.Addr
			if s.lv >= 0 {
				q.LV = s.lv == 1
			}
			if s.addr >= 0 {
				q.Addr = s.addr == 1
			}
			walk(q)
		}
	}
	for _, b := range victimBase[victim] {
		walk(Path{Victim: victim, Expr: b.Expr, Kind: b.Kind, LV: b.LV, Addr: b.Addr})
	}
	return out
}

// goType is the Go spelling of a kind as seen by an importer.
func goType(kind, alias string) string {
	switch kind {
	case "int":
		return "int"
	case "string":
		return "string"
	case "*pt":
		return "*" + alias + ".Pt"
	case "*rec":
		return "*" + alias + ".Rec"
	case "*int":
		return "*int"
	case "*arr4":
		return "*[4]int"
	case "ints":
		return "[]int"
	case "il":
		return alias + ".IntList"
	case "bytes":
		return "[]byte"
	case "pts":
		return "[]" + alias + ".Pt"
	case "ptrs":
		return "[]*" + alias + ".Pt"
	case "ll":
		return "[][]int"
	case "strs":
		return "[]string"
	case "m_si":
		return "map[string]int"
	case "sm":
		return alias + ".StrMap"
	case "m_sp":
		return "map[string]*" + alias + ".Pt"
	case "m_mm":
		return "map[string]map[string]int"
	case "m_ml":
		return "map[string][]int"
	case "m_is":
		return "map[int]string"
	case "any_ptr", "any":
		return "any"
	case "node":
		return "*" + alias + ".Node"
	case "nodes":
		return "[]*" + alias + ".Node"
	}
	return ""
}

// ---------------------------------------------------------------------------
// write forms

// Form is one way of writing through a path. Stmt uses E for the path
// expression; Pre are declarations the statement needs.
type Form struct {
	Name string
	Stmt string
	// Imports beyond the victim: "plib", "rlib".
	Helper string
	// DirectLHS: the assignment target is the path expression itself.
	DirectLHS bool
}

func f(name, stmt string) Form           { return Form{Name: name, Stmt: stmt} }
func fl(name, stmt string) Form          { return Form{Name: name, Stmt: stmt, DirectLHS: true} }
func fh(name, helper, stmt string) Form  { return Form{Name: name, Stmt: stmt, Helper: helper} }
func helpers(kind string, mk func(h, recv string) []Form) []Form {
	var out []Form
	out = append(out, mk("plib", "plib")...)
	out = append(out, mk("plib", "plib.G")...)
	out = append(out, mk("plib", "plib.Prim(0)")...)
	out = append(out, mk("rlib", "rlib")...)
	return out
}

func hname(recv string) string {
	switch recv {
	case "plib":
		return "p-func"
	case "plib.G":
		return "p-anchored-method"
	case "plib.Prim(0)":
		return "p-noanchor-method"
	}
	return "r-func"
}

// FormsFor lists the write forms applicable to a path.
func FormsFor(p Path) []Form {
	var fs []Form
	alias := p.Victim
	switch p.Kind {
	case "int", "u8", "id":
		if p.LV {
			fs = append(fs, fl("assign", "E = 99"), fl("inc", "E++"), fl("dec", "E--"))
			for _, op := range []string{"+=", "-=", "*=", "/=", "%=", "&=", "|=", "^=", "<<=", ">>=", "&^="} {
				fs = append(fs, fl("op"+op, "E "+op+" 3"))
			}
			if p.Kind == "int" {
				fs = append(fs,
					fl("multi-assign-first", "var x int; E, x = 5, 6; _ = x"),
					fl("multi-assign-second", "var x int; x, E = 5, 6; _ = x"),
					fl("swap-local", "x := 5; E, x = x, E; _ = x"),
					fl("range-key-assign", "for E = range []int{7, 8, 9} {\n\t}"),
					fl("range-value-assign", "for _, E = range []int{7, 8} {\n\t}"),
					fl("range-map-assign", "for _, E = range map[int]int{1: 55} {\n\t}"),
					fl("range-string-assign", "for E = range \"abc\" {\n\t}"),
				)
			}
		}
		if p.Addr && p.Kind == "int" {
			fs = append(fs, f("ptr-store", "q := &E; *q = 98"), f("ptr-inc", "q := &E; (*q)++"), f("ptr-opassign", "q := &E; *q += 4"),
				f("ptr-in-struct", "h := struct{ q *int }{&E}; *h.q = 97"), f("ptr-in-slice", "qs := []*int{&E}; *qs[0] = 96"),
				f("ptr-via-any", "var a any = &E; *(a.(*int)) = 95"))
			fs = append(fs, helpers("int", func(h, recv string) []Form {
				return []Form{fh(hname(recv)+":SetInt", h, recv+".SetInt(&E, 94)")}
			})...)
			fs = append(fs, fh("p-func:IncInt", "plib", "plib.IncInt(&E)"), fh("p-func:AddInt", "plib", "plib.AddInt(&E, 2)"))
		}
	case "float":
		if p.LV {
			fs = append(fs, fl("assign", "E = 9.5"), fl("op+=", "E += 1"), fl("op*=", "E *= 2"), fl("op/=", "E /= 2"), fl("op-=", "E -= 1"), fl("inc", "E++"))
		}
	case "string":
		if p.LV {
			fs = append(fs, fl("assign", `E = "pwn"`), fl("op+=", `E += "x"`))
		}
		if p.Addr {
			fs = append(fs, f("ptr-store", `q := &E; *q = "pwn"`), fh("p-func:SetStr", "plib", `plib.SetStr(&E, "pwn")`))
		}
	case "bool":
		if p.LV {
			fs = append(fs, fl("assign", "E = !E"))
		}
		if p.Addr {
			fs = append(fs, f("ptr-store", "q := &E; *q = !*q"))
		}
	case "pt":
		if p.LV {
			fs = append(fs, fl("struct-assign-zero", "var z "+alias+".Pt; E = z"))
			if alias == "vica" {
				fs = append(fs, fl("struct-assign-copy", "E = *"+alias+"pp"))
			}
		}
		if p.Addr {
			fs = append(fs, f("ptr-struct-store", "var z "+alias+".Pt; q := &E; *q = z"), f("ptr-field-store", "q := &E; q.X = 93"))
		}
	case "rec":
		if p.LV {
			fs = append(fs, fl("struct-assign-zero", "var z "+alias+".Rec; E = z"))
		}
	case "*pt":
		fs = append(fs, f("deref-struct-store", "var z "+alias+".Pt; *E = z"), f("deref-field-store", "(*E).X = 92"), f("alias-field-store", "q := E; q.X = 91"),
			f("alias-field-inc", "q := E; q.Y++"), f("ptr-to-field", "q := &E.X; *q = 90"), f("ptr-via-any", "var a any = E; a.(*"+alias+".Pt).X = 89"))
		if p.LV {
			fs = append(fs, fl("assign-nil", "E = nil"), fl("assign-typed-nil", "var q *"+alias+".Pt; E = q"))
		}
	case "*rec":
		fs = append(fs, f("deref-struct-store", "var z "+alias+".Rec; *E = z"), f("nested-field-store", "E.P.X = 88"), f("nested-array-store", "E.A[2] = 87"), f("nested-ptr-store", "E.Q.Y = 86"))
		if p.LV {
			fs = append(fs, fl("assign-nil", "E = nil"))
		}
	case "*int":
		fs = append(fs, f("deref-store", "*E = 85"), f("deref-inc", "(*E)++"), f("deref-opassign", "*E -= 2"), f("alias-deref-store", "q := E; *q = 84"))
		fs = append(fs, helpers("*int", func(h, recv string) []Form {
			return []Form{fh(hname(recv)+":SetInt", h, recv+".SetInt(E, 83)")}
		})...)
		if p.LV {
			fs = append(fs, fl("assign-nil", "E = nil"), fl("assign-local-ptr", "x := 5; E = &x"))
		}
	case "arr4":
		if p.LV {
			fs = append(fs, fl("array-assign", "E = [4]int{9, 9, 9, 9}"), fl("array-assign-zero", "var z [4]int; E = z"))
		}
		if p.Addr {
			fs = append(fs, f("array-slice-store", "s := E[:]; s[0] = 82"), f("array-ptr-store", "q := &E; q[3] = 81"), f("array-copy", "copy(E[:], []int{7, 7})"))
		}
	case "arr3":
		if p.LV {
			fs = append(fs, fl("array-assign", "E = [3]int{9, 9, 9}"))
		}
		if p.Addr {
			fs = append(fs, f("array-slice-store", "s := E[:]; s[0] = 82"))
		}
	case "*arr4":
		fs = append(fs, f("ptr-index-store", "E[0] = 80"), f("deref-index-store", "(*E)[1] = 79"), f("ptr-slice-store", "s := E[:]; s[2] = 78"), f("deref-array-assign", "*E = [4]int{}"),
			f("ptr-slice-copy", "copy(E[1:], []int{6})"), f("range-index-assign", "for i := range E {\n\t\tE[i] = 0\n\t}"))
		if p.LV {
			fs = append(fs, fl("assign-nil", "E = nil"))
		}
	case "ints", "il":
		conv := "E"
		if p.Kind == "il" {
			conv = "[]int(E)"
		}
		fs = append(fs,
			f("alias-index-store", "s := E; s[0] = 77"),
			f("reslice-store", "s := E[1:3]; s[0] = 76"),
			f("reslice3-store", "s := E[0:1:2]; s[0] = 75"),
			f("append-alias-within-cap", "s := E[:1]; s = append(s, 74); _ = s"),
			f("append-beyond-len-within-cap", "s := E; s = append(s, 73); _ = s"),
			f("append-multi", "_ = append(E[:0], 72, 71)"),
			f("append-spread", "_ = append(E[:0], []int{70, 69}...)"),
			f("copy-into", "copy(E, []int{68, 67})"),
			f("copy-into-tail", "copy(E[1:], []int{66})"),
			f("copy-self-overlap", "copy(E[1:], E)"),
			f("range-index-assign", "for i := range E {\n\t\tE[i] = 0\n\t}"),
			f("range-into-elem", "for _, E[0] = range []int{65, 64} {\n\t}"),
			f("swap-elems", "E[0], E[1] = E[1], E[0]"),
			f("extend-write", "s := E[:cap(E)]; s[len(s)-1] = 63"),
			f("ptr-elem-store", "q := &E[1]; *q = 62"),
			f("via-any", "var a any = E; a.("+goType(p.Kind, alias)+")[0] = 61"),
		)
		fs = append(fs, helpers("ints", func(h, recv string) []Form {
			out := []Form{fh(hname(recv)+":SetIdx", h, recv+".SetIdx("+conv+", 0, 60)"), fh(hname(recv)+":Append", h, "_ = "+recv+".Append("+conv+"[:1], 59)")}
			return out
		})...)
		fs = append(fs, fh("p-func:Copy", "plib", "plib.Copy("+conv+", []int{58, 57})"), fh("p-func:IncIdx", "plib", "plib.IncIdx("+conv+", 1)"))
		fs = append(fs, fh("p-retype-method:Ints.Poke", "plib", "plib.Ints("+conv+").Poke(0, 57)"), fh("p-retype-method:Ints.Poke-subslice", "plib", "plib.Ints("+conv+"[1:]).Poke(0, 57)"))
		if p.LV {
			fs = append(fs, fl("assign-nil", "E = nil"), fl("assign-append", "E = append(E, 56)"), fl("assign-reslice", "E = E[:1]"))
			if p.Kind == "ints" {
				fs = append(fs, fl("assign-lit", "E = []int{55}"))
			}
		}
	case "bytes":
		fs = append(fs, f("alias-index-store", "s := E; s[0] = 'z'"), f("copy-from-string", `copy(E, "zz")`), f("copy-from-bytes", "copy(E[1:], []byte{1, 2})"),
			f("append-alias-within-cap", "s := E[:1]; s = append(s, 'y'); _ = s"), f("append-beyond-len-within-cap", "s := E; s = append(s, 'x'); _ = s"),
			f("append-string-spread", `_ = append(E[:0], "pwn"...)`), f("swap-elems", "E[0], E[1] = E[1], E[0]"),
			fh("p-func:CopyBytes", "plib", `plib.CopyBytes(E, "qq")`), fh("p-func:SetByte", "plib", "plib.SetByte(E, 0, 'w')"),
			fh("p-retype-method:Buf.Poke", "plib", "plib.Buf(E).Poke(0, 'v')"), fh("p-retype-method:Buf.Poke-subslice", "plib", "plib.Buf(E[1:]).Poke(0, 'v')"))
		if p.LV {
			fs = append(fs, fl("assign-nil", "E = nil"), fl("assign-conv", `E = []byte("pwn")`))
		}
	case "pts":
		fs = append(fs, f("alias-elem-store", "var z "+alias+".Pt; s := E; s[0] = z"), f("alias-elem-field-store", "s := E; s[1].X = 54"),
			f("append-alias-within-cap", "var z "+alias+".Pt; s := E[:1]; s = append(s, z); _ = s"), f("append-beyond-len-within-cap", "var z "+alias+".Pt; s := E; s = append(s, z); _ = s"),
			f("copy-into", "var zs [1]"+alias+".Pt; copy(E, zs[:])"), f("swap-elems", "E[0], E[1] = E[1], E[0]"), f("ptr-elem-field-store", "q := &E[1]; q.Y = 53"))
		if p.LV {
			fs = append(fs, fl("assign-nil", "E = nil"))
		}
	case "ptrs":
		fs = append(fs, f("alias-elem-store", "s := E; s[0] = nil"), f("alias-elem-field-store", "s := E; s[1].X = 52"), f("append-alias-within-cap", "s := E[:1]; s = append(s, nil); _ = s"),
			f("append-beyond-len-within-cap", "s := E; s = append(s, E[0]); _ = s"), f("swap-elems", "E[0], E[1] = E[1], E[0]"), f("range-elem-field-store", "for _, q := range E {\n\t\tq.X = 51\n\t}"))
		if p.LV {
			fs = append(fs, fl("assign-nil", "E = nil"))
		}
	case "ll":
		fs = append(fs, f("alias-elem-store", "s := E; s[0] = nil"), f("nested-index-store", "E[1][2] = 50"), f("nested-append-alias", "_ = append(E[1][:1], 49)"), f("swap-elems", "E[0], E[1] = E[1], E[0]"),
			f("copy-inner", "copy(E[0], E[1])"))
		if p.LV {
			fs = append(fs, fl("assign-nil", "E = nil"))
		}
	case "as":
		if p.LV {
			fs = append(fs, fl("array-elem-assign", "E[0] = nil"))
		}
		fs = append(fs, f("nested-index-store", "E[1][0] = 48"))
	case "strs":
		fs = append(fs, f("alias-index-store", `s := E; s[0] = "pwn"`), f("append-beyond-len-within-cap", `s := E; s = append(s, "pwn"); _ = s`), f("copy-into", `copy(E, []string{"p"})`))
		if p.LV {
			fs = append(fs, fl("assign-nil", "E = nil"))
		}
	case "m_si", "sm":
		conv := "E"
		if p.Kind == "sm" {
			conv = "map[string]int(E)"
		}
		fs = append(fs, f("map-insert", `E["new"] = 47`), f("map-overwrite", `E["a"] = 46`), f("map-delete", `delete(E, "a")`), f("map-delete-missing", `delete(E, "zz")`),
			f("alias-insert", `m := E; m["new"] = 45`), f("alias-delete", `m := E; delete(m, "a")`), f("range-delete", "for k := range E {\n\t\tdelete(E, k)\n\t}"),
			f("range-overwrite", "for k := range E {\n\t\tE[k] = 0\n\t}"), f("map-multi-assign", `E["a"], E["b"] = 1, 2`), f("map-range-key-into", "for E[\"k\"] = range []int{1, 2} {\n\t}"),
			f("via-any", "var a any = E; a.("+goType(p.Kind, alias)+")[\"new\"] = 44"))
		fs = append(fs, helpers("m_si", func(h, recv string) []Form {
			return []Form{fh(hname(recv)+":SetMap", h, recv+".SetMap("+conv+`, "new", 43)`), fh(hname(recv)+":DelMap", h, recv+".DelMap("+conv+`, "a")`)}
		})...)
		fs = append(fs, fh("p-retype-method:SMap.Put", "plib", "plib.SMap("+conv+`).Put("new", 42)`))
		if p.LV {
			fs = append(fs, fl("assign-nil", "E = nil"))
			if p.Kind == "m_si" {
				fs = append(fs, fl("assign-lit", "E = map[string]int{}"))
			}
		}
	case "m_sp":
		fs = append(fs, f("map-insert", `E["new"] = E["a"]`), f("map-overwrite-nil", `E["a"] = nil`), f("map-delete", `delete(E, "a")`), f("elem-field-store", `E["a"].X = 42`), f("elem-alias-field-store", `q := E["b"]; q.Y = 41`))
		if p.LV {
			fs = append(fs, fl("assign-nil", "E = nil"))
		}
	case "m_spt":
		fs = append(fs, f("map-insert-zero", "var z "+alias+`.Pt; E["new"] = z`), f("map-overwrite", "var z "+alias+`.Pt; E["a"] = z`), f("map-delete", `delete(E, "a")`))
		if p.LV {
			fs = append(fs, fl("assign-nil", "E = nil"))
		}
	case "m_mm":
		fs = append(fs, f("map-insert", `E["new"] = map[string]int{"x": 1}`), f("nested-insert", `E["a"]["new"] = 40`), f("nested-delete", `delete(E["a"], "a")`), f("map-delete", `delete(E, "a")`))
		if p.LV {
			fs = append(fs, fl("assign-nil", "E = nil"))
		}
	case "m_ml":
		fs = append(fs, f("map-insert", `E["new"] = []int{1}`), f("nested-index-store", `E["a"][0] = 39`), f("nested-append-alias", `_ = append(E["a"][:1], 38)`), f("map-elem-append", `E["a"] = append(E["a"], 37)`), f("map-delete", `delete(E, "a")`))
	case "m_is":
		fs = append(fs, f("map-insert", `E[3] = "three"`), f("map-overwrite", `E[1] = "pwn"`), f("map-delete", `delete(E, 1)`), f("map-opassign", `E[2] += "x"`))
	case "any_ptr":
		if p.LV {
			fs = append(fs, fl("assign-nil", "E = nil"), fl("assign-int", "E = 5"), fl("assign-closure", "E = func() {}"))
		}
	case "any":
		if p.LV {
			fs = append(fs, fl("assign-nil", "E = nil"), fl("assign-int", "E = 5"))
		}
	case "anys":
		fs = append(fs, f("alias-elem-store", "s := E; s[1] = 36"), f("elem-assert-field-store", "E[0].(*"+alias+".Pt).X = 35"), f("elem-assert-index-store", "E[3].([]int)[0] = 34"), f("swap-elems", "E[1], E[2] = E[2], E[1]"))
		if p.LV {
			fs = append(fs, fl("assign-nil", "E = nil"))
		}
	case "fn":
		if p.LV {
			fs = append(fs, fl("assign-nil", "E = nil"), fl("assign-closure", "E = func() int { return 666 }"))
		}
	case "node":
		fs = append(fs, f("deref-struct-store", "var z "+alias+".Node; *E = z"), f("next-field-store", "E.Next = nil"), f("kids-append-assign", "E.Kids = append(E.Kids, nil)"), f("kids-elem-store", "E.Kids[0] = nil"),
			f("meta-insert", `E.Meta["new"] = 33`), f("meta-delete", `delete(E.Meta, "a")`), f("relink-cycle", "E.Next.Next.Next = E"), f("next-val-store", "E.Next.Val = 32"), f("kids-elem-val-inc", "E.Kids[1].Val++"),
			f("walk-write", "for n := E; n != nil; n = n.Next {\n\t\tn.Val = 0\n\t}"))
		if p.LV {
			fs = append(fs, fl("assign-nil", "E = nil"), fl("assign-next", "E = E.Next"))
		}
	case "nodes":
		fs = append(fs, f("alias-elem-store", "s := E; s[0] = nil"), f("swap-elems", "E[0], E[1] = E[1], E[0]"), f("elem-val-store", "E[0].Val = 31"))
		if p.LV {
			fs = append(fs, fl("assign-nil", "E = nil"))
		}
	}
	return fs
}

// ---------------------------------------------------------------------------
// vectors: how the write statement gets executed

// Vectors available to MsgRun scripts.
var runVectors = []string{"plain", "closure", "defer", "recover", "funcdecl", "method-struct", "method-prim", "method-value", "method-expr", "goto-loop",
	"p-run-closure", "p-anchored-run-closure", "r-run-closure", "r-runx-closure",
	"cb-closure", "cbx-closure", "cb-method-struct", "cb-funcdecl", "cbx-funcdecl", "cb-method-prim", "cb-method-nilptr"}

// Vectors available inside an attacker realm function.
var realmVectors = []string{"plain", "closure", "defer", "recover", "funcdecl", "method-struct", "method-prim", "method-value",
	"p-run-closure", "p-anchored-run-closure", "cb-closure", "cbx-closure", "cb-funcdecl", "cb-method-prim", "init", "stored"}

// Attack is one generated attacker transaction (or two for "stored").
type Attack struct {
	ID      int    `json:"id"`
	Class   string `json:"class"` // write | construct | persist-realm | control
	Agent   string `json:"agent"` // run | realm
	Vector  string `json:"vector"`
	Victim  string `json:"victim"`
	Path    string `json:"path"`
	Kind    string `json:"kind"`
	Form    string `json:"form"`
	Stmt    string `json:"stmt"`
	Helper  string `json:"helper,omitempty"`
	Static  bool   `json:"static,omitempty"` // assignment directly to a foreign package variable (rejected before execution)
	MustErr bool   `json:"must_err,omitempty"`
	// Source is the complete program: main.gno of a MsgRun, or the attacker realm function body.
	Source string `json:"source"`
	// Finding names the known-finding class the attack belongs to ("" = none).
	Finding string `json:"finding,omitempty"`
}

func (a *Attack) Key() string {
	return a.Class + "|" + a.Agent + "|" + a.Vector + "|" + a.Path + "|" + a.Form
}

func imports(victim, helper string, extra ...string) string {
	set := map[string]bool{basePath + victim: true}
	switch helper {
	case "plib":
		set["gno.land/p/c07/plib"] = true
	case "rlib":
		set[basePath+"rlib"] = true
	}
	for _, e := range extra {
		set[e] = true
	}
	var ps []string
	for p := range set {
		ps = append(ps, p)
	}
	sort.Strings(ps)
	s := "import (\n"
	for _, p := range ps {
		s += "\t\"" + p + "\"\n"
	}
	return s + ")\n"
}

// prelude declares what some forms reference (a victim-typed pointer to copy from).
func prelude(p Path, stmt string) string {
	if strings.Contains(stmt, p.Victim+"pp") {
		return "\t" + p.Victim + "pp := " + p.Victim + ".GetPP()\n"
	}
	return ""
}

var reE = regexp.MustCompile(`\bE\b`)

// subst replaces the placeholder E of a form by the path expression.
func subst(stmt, expr string) string {
	return reE.ReplaceAllLiteralString(stmt, expr)
}

func indent(s string) string { return "\t" + strings.ReplaceAll(s, "\n", "\n\t") }

// wrap renders decls (top-level) and body (statements of the entry function)
// for a vector. cur is in scope in the body.
func wrap(vector, victim, stmt string) (decls, body string, helper string, finding string, ok bool) {
	S := indent(stmt)
	switch vector {
	case "plain":
		return "", S + "\n", "", "", true
	case "closure":
		return "", "\tf := func() {\n" + indent(S) + "\n\t}\n\tf()\n", "", "", true
	case "defer":
		return "", "\tdefer func() {\n" + indent(S) + "\n\t}()\n", "", "", true
	case "recover":
		return "", "\tdefer func() { recover() }()\n" + S + "\n", "", "", true
	case "funcdecl":
		return "func attack() {\n" + S + "\n}\n", "\tattack()\n", "", "", true
	case "method-struct":
		return "type T struct{ n int }\n\nfunc (T) Do() {\n" + S + "\n}\n", "\tT{1}.Do()\n", "", "", true
	case "method-prim":
		return "type T int\n\nfunc (T) Do() {\n" + S + "\n}\n", "\tT(1).Do()\n", "", "", true
	case "method-value":
		return "type T struct{ n int }\n\nfunc (t *T) Do() {\n" + S + "\n}\n", "\tg := (&T{1}).Do\n\tg()\n", "", "", true
	case "method-expr":
		return "type T struct{ n int }\n\nfunc (T) Do() {\n" + S + "\n}\n", "\tg := T.Do\n\tg(T{1})\n", "", "", true
	case "goto-loop":
		return "", "\tfor k := 0; k < 2; k++ {\n" + indent(S) + "\n\t}\n", "", "", true
	case "p-run-closure":
		return "", "\tplib.Run(func() {\n" + indent(S) + "\n\t})\n", "plib", "", true
	case "p-anchored-run-closure":
		return "", "\tplib.G.Run(func() {\n" + indent(S) + "\n\t})\n", "plib", "", true
	case "r-run-closure":
		return "", "\trlib.Run(func() {\n" + indent(S) + "\n\t})\n", "rlib", "", true
	case "r-runx-closure":
		return "", "\trlib.RunX(cross(cur), func() {\n" + indent(S) + "\n\t})\n", "rlib", "", true
	// the victim itself invokes the attacker-supplied function value (read-only victim code)
	case "cb-closure":
		return "", "\t" + victim + ".Apply(func() {\n" + indent(S) + "\n\t})\n", "", "", true
	case "cbx-closure":
		return "", "\t" + victim + ".ApplyX(cross(cur), func() {\n" + indent(S) + "\n\t})\n", "", "", true
	case "cb-method-struct":
		return "type T struct{ n int }\n\nfunc (T) Do() {\n" + S + "\n}\n", "\t" + victim + ".Apply(T{1}.Do)\n", "", "", true
	case "cb-funcdecl":
		return "func attack() {\n" + S + "\n}\n", "\t" + victim + ".Apply(attack)\n", "", "e-funcdecl", true
	case "cbx-funcdecl":
		return "func attack() {\n" + S + "\n}\n", "\t" + victim + ".ApplyX(cross(cur), attack)\n", "", "e-funcdecl", true
	case "cb-method-prim":
		return "type T int\n\nfunc (T) Do() {\n" + S + "\n}\n", "\t" + victim + ".Apply(T(1).Do)\n", "", "e-noanchor-method", true
	case "cb-method-nilptr":
		return "type T struct{ n int }\n\nfunc (*T) Do() {\n" + S + "\n}\n", "\tvar t *T\n\t" + victim + ".Apply(t.Do)\n", "", "e-noanchor-method", true
	}
	return "", "", "", "", false
}

// BuildRun renders a complete MsgRun program for an attack.
func BuildRun(p Path, fm Form, vector string) (src string, finding string, ok bool) {
	stmt := strings.TrimPrefix(prelude(p, fm.Stmt), "\t") + subst(fm.Stmt, p.Expr)
	decls, body, h, finding, ok := wrap(vector, p.Victim, stmt)
	if !ok {
		return "", "", false
	}
	helper := fm.Helper
	extra := []string{}
	if h == "plib" {
		extra = append(extra, "gno.land/p/c07/plib")
	} else if h == "rlib" {
		extra = append(extra, basePath+"rlib")
	}
	src = "package main\n\n" + imports(p.Victim, helper, extra...) + "\n" + decls + "\nfunc main(cur realm) {\n" + body + "}\n"
	return src, finding, true
}

// RealmFunc renders top-level declarations + a crossing entry function for an
// attack inside an attacker realm; names are suffixed with n to stay unique in
// a package that holds many attacks.
func RealmFunc(p Path, fm Form, vector string, n int) (decls string, entry string, imps []string, finding string, ok bool) {
	stmt := strings.TrimPrefix(prelude(p, fm.Stmt), "\t") + subst(fm.Stmt, p.Expr)
	sfx := fmt.Sprint(n)
	imps = []string{basePath + p.Victim}
	switch fm.Helper {
	case "plib":
		imps = append(imps, "gno.land/p/c07/plib")
	case "rlib":
		imps = append(imps, basePath+"rlib")
	}
	entry = "A" + sfx
	switch vector {
	case "init":
		return "func init() {\n" + indent(stmt) + "\n}\n\nfunc A" + sfx + "(cur realm) {}\n", entry, imps, "", true
	case "stored":
		gt := goType(p.Kind, p.Victim)
		if gt == "" || gt == "int" || gt == "string" {
			return "", "", nil, "", false
		}
		use := subst(fm.Stmt, "saved"+sfx)
		d := "var saved" + sfx + " " + gt + "\n\nfunc S" + sfx + "(cur realm) { saved" + sfx + " = " + p.Expr + " }\n\nfunc A" + sfx + "(cur realm) {\n" + indent(strings.TrimPrefix(prelude(p, fm.Stmt), "\t")+use) + "\n}\n"
		return d, entry, imps, "", true
	}
	d, body, h, finding, ok := wrap(vector, p.Victim, stmt)
	if !ok {
		return "", "", nil, "", false
	}
	if h == "plib" {
		imps = append(imps, "gno.land/p/c07/plib")
	} else if h == "rlib" {
		imps = append(imps, basePath+"rlib")
	}
	// in a realm the declared callables are /r/-declared: rule #1 applies, no finding class
	finding = ""
	d = strings.ReplaceAll(d, "attack()", "attack"+sfx+"()")
	d = strings.ReplaceAll(d, "type T ", "type T"+sfx+" ")
	d = strings.ReplaceAll(d, "(T) Do", "(T"+sfx+") Do")
	d = strings.ReplaceAll(d, "(t *T) Do", "(t *T"+sfx+") Do")
	d = strings.ReplaceAll(d, "(*T) Do", "(*T"+sfx+") Do")
	body = strings.ReplaceAll(body, "attack()", "attack"+sfx+"()")
	body = strings.ReplaceAll(body, "(attack)", "(attack"+sfx+")")
	body = strings.ReplaceAll(body, ", attack)", ", attack"+sfx+")")
	body = strings.ReplaceAll(body, "T{1}", "T"+sfx+"{1}")
	body = strings.ReplaceAll(body, "T(1)", "T"+sfx+"(1)")
	body = strings.ReplaceAll(body, "var t *T\n", "var t *T"+sfx+"\n")
	return d + "\nfunc A" + sfx + "(cur realm) {\n" + body + "}\n", entry, imps, finding, true
}

// ---------------------------------------------------------------------------
// construction attacks and realm-value persistence attacks

type snippet struct {
	name    string
	stmt    string
	mustErr bool
	victim  string
}

// constructions of victim-declared types outside the victim. mustErr marks the
// forms the specification forbids (composite literal / new / make whose type
// operand is a realm-declared named type, conversion to a non-primitive
// realm-declared type); the others are observed only.
func constructions() []snippet {
	return []snippet{
		{"struct-lit", "x := vica.Pt{X: 1}; _ = x", true, "vica"},
		{"struct-lit-empty", "x := vica.Pt{}; _ = x", true, "vica"},
		{"struct-lit-addr", "x := &vica.Pt{1, 2}; _ = x", true, "vica"},
		{"struct-lit-nested", "x := vica.Rec{N: 1}; _ = x", true, "vica"},
		{"new-struct", "x := new(vica.Pt); _ = x", true, "vica"},
		{"new-rec", "x := new(vica.Rec); _ = x", true, "vica"},
		{"new-named-int", "x := new(vica.ID); _ = x", true, "vica"},
		{"slice-lit-named", "x := vicb.IntList{1, 2}; _ = x", true, "vicb"},
		{"make-named-slice", "x := make(vicb.IntList, 2); _ = x", true, "vicb"},
		{"new-named-slice", "x := new(vicb.IntList); _ = x", true, "vicb"},
		{"map-lit-named", "x := vicc.StrMap{\"a\": 1}; _ = x", true, "vicc"},
		{"make-named-map", "x := make(vicc.StrMap); _ = x", true, "vicc"},
		{"struct-lit-in-slice", "x := []vica.Pt{{1, 2}}; _ = x", true, "vica"},
		{"struct-lit-in-map", "x := map[string]vicc.Pt{\"a\": {1, 2}}; _ = x", true, "vicc"},
		{"struct-lit-in-array", "x := [1]vica.Pt{{1, 2}}; _ = x", true, "vica"},
		{"struct-ptr-lit-in-slice", "x := []*vica.Pt{{1, 2}}; _ = x", true, "vica"},
		{"node-lit", "x := &vicd.Node{Val: 9}; _ = x", true, "vicd"},
		{"convert-struct", "x := vica.Pt(struct{ X, Y int }{1, 2}); _ = x", true, "vica"},
		{"convert-slice", "x := vicb.IntList([]int{1}); _ = x", true, "vicb"},
		{"convert-map", "x := vicc.StrMap(map[string]int{}); _ = x", true, "vicc"},
		{"convert-ptr", "x := (*vica.Pt)(&struct{ X, Y int }{1, 2}); _ = x", true, "vica"},
		// the victim itself has just built a value of the type, in the same transaction
		{"struct-lit-after-victim-built-one", "_ = vica.NewPt(1, 2); x := vica.Pt{X: 1}; _ = x", true, "vica"},
		{"struct-lit-addr-after-victim-built-zero", "_ = vica.ZeroPt(); x := &vica.Pt{1, 2}; _ = x", true, "vica"},
		{"new-struct-after-victim-built-one", "_ = vica.NewPt(1, 2); x := new(vica.Pt); _ = x", true, "vica"},
		{"new-rec-after-victim-new", "_ = vica.NewRec(); x := new(vica.Rec); _ = x", true, "vica"},
		{"slice-lit-after-victim-built-one", "_ = vicb.NewList(); x := vicb.IntList{1, 2}; _ = x", true, "vicb"},
		{"make-named-slice-after-victim-made-one", "_ = vicb.MakeList(); x := make(vicb.IntList, 2); _ = x", true, "vicb"},
		{"map-lit-after-victim-built-one", "_ = vicc.NewMap(); x := vicc.StrMap{\"a\": 1}; _ = x", true, "vicc"},
		{"struct-lit-in-map-after-victim-built-one", "_ = vicc.NewPtC(); x := map[string]vicc.Pt{\"a\": {1, 2}}; _ = x", true, "vicc"},
		// not forbidden by the specification (zero values, primitive conversions, unnamed composites): observed only
		{"var-zero-struct", "var x vica.Pt; x.X = 3; _ = x", false, "vica"},
		{"var-zero-named-slice", "var x vicb.IntList; x = append(x, 1); _ = x", false, "vicb"},
		{"convert-named-int", "x := vica.ID(3); _ = x", false, "vica"},
		{"make-unnamed-slice-of-struct", "x := make([]vica.Pt, 2); x[0].X = 1; _ = x", false, "vica"},
		{"empty-unnamed-slice-lit", "x := []vica.Pt{}; _ = x", false, "vica"},
		{"array-var-of-struct", "var x [2]vica.Pt; x[1].Y = 2; _ = x", false, "vica"},
		{"copy-of-victim-struct", "x := vica.P; x.X = 9; _ = x", false, "vica"},
		{"deref-copy-of-victim-struct", "x := *vica.GetPP(); x.X = 9; _ = x", false, "vica"},
	}
}

// persistForms: ways an attacker realm tries to keep a realm value.
// {decl, stmt}: decl is a package-level declaration, stmt runs in `func A(cur realm)`.
func persistForms() []snippet {
	return []snippet{
		{"pkg-var", "var stash%d realm\x00stash%d = cur", true, ""},
		{"struct-field", "var holder%d struct{ R realm }\x00holder%d.R = cur", true, ""},
		{"struct-ptr-field", "type H%d struct{ R realm }\n\nvar hp%d = &H%d{}\x00hp%d.R = cur", true, ""},
		{"slice-append", "var list%d []realm\x00list%d = append(list%d, cur)", true, ""},
		{"map-value", "var rm%d = map[string]realm{}\x00rm%d[\"k\"] = cur", true, ""},
		{"array-elem", "var ra%d [2]realm\x00ra%d[1] = cur", true, ""},
		{"interface-var", "var anyv%d any\x00anyv%d = cur", true, ""},
		{"interface-slice", "var anys%d []any\x00var x any = cur; anys%d = append(anys%d, 1, x)", true, ""},
		{"closure-capture", "var fn%d func() string\x00fn%d = func() string { return cur.PkgPath() }", true, ""},
		{"closure-capture-copy", "var fn%d func() string\x00r := cur; fn%d = func() string { return r.PkgPath() }", true, ""},
		{"pointer-to-local", "var rp%d *realm\x00r := cur; rp%d = &r", true, ""},
		{"previous-of-realm-caller", "var stash%d realm\x00stash%d = cur.Previous()", true, "via-realm"},
		{"previous-of-run-caller", "var stash%d realm\x00stash%d = cur.Previous()", true, "via-run"},
		{"previous-of-user-caller", "var stash%d realm\x00stash%d = cur.Previous()", true, "via-call"},
		{"nested-struct-in-map", "type N%d struct{ In struct{ R realm } }\n\nvar nm%d = map[int]*N%d{}\x00n := &N%d{}; n.In.R = cur; nm%d[1] = n", true, ""},
		{"recover-after-store", "var stash%d realm\x00defer func() { recover() }(); stash%d = cur", true, ""},
	}
}

// ---------------------------------------------------------------------------
// sampling

// Candidate is a (path, form) pair.
type Candidate struct {
	P Path
	F Form
}

// Universe enumerates every (path, form) pair of all victims.
func Universe(maxHops int) []Candidate {
	var out []Candidate
	for _, v := range victimNames {
		for _, p := range AllPaths(v, maxHops) {
			for _, fm := range FormsFor(p) {
				out = append(out, Candidate{p, fm})
			}
		}
	}
	return out
}

// sample picks n distinct indices (all when n >= total).
func sample(rng *rand.Rand, total, n int) []int {
	idx := rng.Perm(total)
	if n < total {
		idx = idx[:n]
	}
	sort.Ints(idx)
	return idx
}
