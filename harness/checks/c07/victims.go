package c07

// Closed-world victim realms: data, read-only getters, read-only visitors that
// invoke caller-supplied function values — and NO function, method or closure
// that writes package state after init. Any change of their persisted state is
// therefore illegitimate. Dump() renders the complete state (slices up to their
// capacity).

const basePath = "gno.land/r/c07/"

// common tail of every victim: read-only hooks that run a caller-supplied
// function value inside the victim's frame (non-crossing and crossing).
const hooksSrc = `
func Apply(f func())            { f() }
func ApplyX(cur realm, f func()) { f() }
`

const vicaSrc = `package vica

import "strconv"

type ID int
type Pt struct{ X, Y int }
type Rec struct {
	N int
	S string
	P Pt
	A [3]int
	Q *Pt
	B bool
}

var (
	Counter       = 7
	Name          = "vica"
	Flag          = true
	U8      uint8 = 200
	F             = 1.5
	Id      ID    = 3
	Arr           = [4]int{1, 2, 3, 4}
	P             = Pt{1, 2}
	R             = Rec{N: 5, S: "s", P: Pt{6, 7}, A: [3]int{8, 9, 10}, Q: &Pt{11, 12}}
	RP            = &Rec{N: 15, S: "t", P: Pt{16, 17}, A: [3]int{18, 19, 20}, Q: &Pt{21, 22}}
	PP            = &Pt{3, 4}
	PI            = &Arr[2]
	PA            = &Arr
	hidden        = 11
	hrec          = &Rec{N: 25, S: "u", P: Pt{26, 27}, A: [3]int{28, 29, 30}, Q: &Pt{31, 32}}
)

func GetPP() *Pt       { return PP }
func NewPt(x, y int) *Pt { return &Pt{x, y} } // fresh values built by the victim itself
func ZeroPt() Pt         { return Pt{} }
func NewRec() *Rec       { return new(Rec) }
func GetHidden() *int  { return &hidden }
func GetRec() *Rec     { return hrec }
func GetArr() *[4]int  { return &Arr }
func GetRecVal() Rec   { return R }
func (p *Pt) Sum() int { return p.X + p.Y }
` + hooksSrc + `
func i(n int) string { return strconv.Itoa(n) }

func pt(p Pt) string { return "(" + i(p.X) + "," + i(p.Y) + ")" }

func rec(r *Rec) string {
	s := "{" + i(r.N) + " " + r.S + " " + pt(r.P) + " [" + i(r.A[0]) + " " + i(r.A[1]) + " " + i(r.A[2]) + "] "
	if r.Q == nil {
		s += "nil"
	} else {
		s += pt(*r.Q)
	}
	return s + " " + strconv.FormatBool(r.B) + "}"
}

func Dump() string {
	s := "C=" + i(Counter) + " N=" + Name + " Fl=" + strconv.FormatBool(Flag) + " U8=" + i(int(U8)) + " F=" + strconv.FormatFloat(F, 'g', -1, 64) + " Id=" + i(int(Id))
	s += " Arr=[" + i(Arr[0]) + " " + i(Arr[1]) + " " + i(Arr[2]) + " " + i(Arr[3]) + "] P=" + pt(P) + " R=" + rec(&R)
	if RP == nil {
		s += " RP=nil"
	} else {
		s += " RP=" + rec(RP)
	}
	if PP == nil {
		s += " PP=nil"
	} else {
		s += " PP=" + pt(*PP)
	}
	if PI == nil {
		s += " PI=nil"
	} else {
		s += " PI=" + i(*PI)
	}
	if PA == nil {
		s += " PA=nil"
	} else {
		s += " PA=" + i(PA[0]+PA[1]*10+PA[2]*100+PA[3]*1000)
	}
	return s + " h=" + i(hidden) + " hrec=" + rec(hrec)
}
`

const vicbSrc = `package vicb

import "strconv"

type IntList []int
type Pt struct{ X, Y int }

var (
	L            = make([]int, 4, 8)
	W            = L[1:3]
	B            = make([]byte, 5, 9)
	LS           = make([]Pt, 2, 4)
	LP           = []*Pt{{5, 6}, {7, 8}, nil}[:2]
	LL           = [][]int{{1, 2}, {3, 4, 5}}
	IL   IntList = IntList{1, 2, 3}
	AS           = [2][]int{{1, 1, 1}, {2, 3, 4}}
	Strs         = []string{"a", "b", "c"}[:2]
	hl           = []int{41, 42, 43}
)

func init() {
	for i := range L {
		L[i] = 10 + i
	}
	copy(B, "hello")
	LS[0], LS[1] = Pt{1, 2}, Pt{3, 4}
}

func GetL() []int     { return L }
func GetHL() []int    { return hl }
func GetLP() []*Pt    { return LP }
func GetLL() [][]int  { return LL }
func GetW() []int     { return W }
func GetIL() IntList  { return IL }
func NewList() IntList { return IntList{1, 2} }
func MakeList() IntList { return make(IntList, 2) }
` + hooksSrc + `
func i(n int) string { return strconv.Itoa(n) }

func ints(a []int) string {
	s := "["
	for _, v := range a[:cap(a)] {
		s += i(v) + " "
	}
	return s + "]" + i(len(a))
}

func Dump() string {
	s := "L=" + ints(L) + " W=" + ints(W) + " B=["
	for _, b := range B[:cap(B)] {
		s += i(int(b)) + " "
	}
	s += "]" + i(len(B)) + " LS=["
	for _, p := range LS[:cap(LS)] {
		s += i(p.X) + "," + i(p.Y) + " "
	}
	s += "]" + i(len(LS)) + " LP=["
	for _, p := range LP[:cap(LP)] {
		if p == nil {
			s += "nil "
		} else {
			s += i(p.X) + "," + i(p.Y) + " "
		}
	}
	s += "]" + i(len(LP)) + " LL=["
	for _, l := range LL[:cap(LL)] {
		s += ints(l)
	}
	s += "]" + i(len(LL)) + " IL=" + ints([]int(IL)) + " AS=" + ints(AS[0]) + ints(AS[1]) + " Strs=["
	for _, x := range Strs[:cap(Strs)] {
		s += x + " "
	}
	return s + "]" + i(len(Strs)) + " hl=" + ints(hl)
}
`

const viccSrc = `package vicc

import "strconv"

type StrMap map[string]int
type Pt struct{ X, Y int }

var (
	M         = map[string]int{"a": 1, "b": 2}
	MS        = map[string]Pt{"a": {1, 2}}
	MP        = map[string]*Pt{"a": {3, 4}, "b": {5, 6}}
	MM        = map[string]map[string]int{"a": {"a": 7}}
	ML        = map[string][]int{"a": {8, 9, 10}}
	MI        = map[int]string{1: "one", 2: "two"}
	SM StrMap = StrMap{"a": 10}
	I  any    = &Pt{11, 12}
	IV any    = Pt{13, 14}
	IS        = []any{&Pt{15, 16}, 3, "s", []int{17, 18, 19}}
	Fn        = func() int { return 1 }
	ReadAcc   func() int
	hm        = map[string]int{"a": 18}
)

func init() {
	acc := 19
	ReadAcc = func() int { return acc }
}

func GetM() map[string]int   { return M }
func GetHM() map[string]int  { return hm }
func GetMP() map[string]*Pt  { return MP }
func GetI() any              { return I }
func GetFn() func() int      { return Fn }
func GetSM() StrMap          { return SM }
func NewMap() StrMap         { return StrMap{"n": 1} }
func NewPtC() *Pt            { return &Pt{9, 9} }
` + hooksSrc + `
func i(n int) string { return strconv.Itoa(n) }

func keys(m map[string]int) []string {
	ks := []string{}
	for k := range m {
		ks = append(ks, k)
	}
	for a := 1; a < len(ks); a++ {
		for b := a; b > 0 && ks[b] < ks[b-1]; b-- {
			ks[b], ks[b-1] = ks[b-1], ks[b]
		}
	}
	return ks
}

func msi(m map[string]int) string {
	if m == nil {
		return "nil"
	}
	s := "{"
	for _, k := range keys(m) {
		s += k + ":" + i(m[k]) + ","
	}
	return s + "}"
}

func pp(p *Pt) string {
	if p == nil {
		return "nil"
	}
	return "(" + i(p.X) + "," + i(p.Y) + ")"
}

func Dump() string {
	s := "M=" + msi(M) + " MS=" + i(len(MS)) + pp(&Pt{MS["a"].X, MS["a"].Y}) + " MP=" + i(len(MP)) + pp(MP["a"]) + pp(MP["b"]) + pp(MP["new"])
	s += " MM=" + i(len(MM)) + msi(MM["a"]) + " ML=" + i(len(ML)) + "["
	if l := ML["a"]; l != nil {
		for _, v := range l[:cap(l)] {
			s += i(v) + " "
		}
	}
	s += "] MI=" + i(len(MI)) + MI[1] + MI[2] + " SM=" + msi(map[string]int(SM)) + " I="
	if q, ok := I.(*Pt); ok {
		s += pp(q)
	} else {
		s += "?"
	}
	if q, ok := IV.(Pt); ok {
		s += " IV=" + pp(&Pt{q.X, q.Y})
	} else {
		s += " IV=?"
	}
	s += " IS=" + i(len(IS))
	if q, ok := IS[0].(*Pt); ok {
		s += pp(q)
	} else {
		s += "?"
	}
	if q, ok := IS[3].([]int); ok && len(q) == 3 {
		s += i(q[0]) + i(q[1]) + i(q[2])
	} else {
		s += "?"
	}
	if n, ok := IS[1].(int); ok {
		s += "," + i(n)
	} else {
		s += ",?"
	}
	fn := "nil"
	if Fn != nil {
		fn = i(Fn())
	}
	ra := "nil"
	if ReadAcc != nil {
		ra = i(ReadAcc())
	}
	return s + " Fn=" + fn + " RA=" + ra + " hm=" + msi(hm)
}
`

const vicdSrc = `package vicd

import "strconv"

type Node struct {
	Val  int
	Tag  string
	Next *Node
	Kids []*Node
	Meta map[string]int
}

type Visitor interface{ Visit(n *Node) }

var (
	Head   *Node
	hcount = 3
)

func init() {
	c := &Node{Val: 3, Tag: "c", Meta: map[string]int{"a": 3}}
	b := &Node{Val: 2, Tag: "b", Next: c, Meta: map[string]int{"a": 2}}
	Head = &Node{Val: 1, Tag: "a", Next: b, Kids: []*Node{b, c}, Meta: map[string]int{"a": 1, "b": 9}}
}

func GetHead() *Node                       { return Head }
func CountPtr() *int                       { return &hcount }
func Walk(f func(n *Node))                 { for n := Head; n != nil; n = n.Next { f(n) } }
func WalkX(cur realm, f func(n *Node))     { for n := Head; n != nil; n = n.Next { f(n) } }
func Accept(v Visitor)                     { v.Visit(Head) }
func AcceptX(cur realm, v Visitor)         { v.Visit(Head) }
func EachMeta(f func(m map[string]int))    { f(Head.Meta) }
func WithCount(f func(p *int))             { f(&hcount) }
` + hooksSrc + `
func i(n int) string { return strconv.Itoa(n) }

func node(n *Node, d int) string {
	if n == nil {
		return "nil"
	}
	if d > 8 {
		return "..."
	}
	s := "N" + i(n.Val) + n.Tag + "{a" + i(n.Meta["a"]) + "b" + i(n.Meta["b"]) + "new" + i(n.Meta["new"]) + "#" + i(len(n.Meta)) + "}["
	for _, k := range n.Kids {
		if k == nil {
			s += "nil,"
		} else {
			s += i(k.Val) + ","
		}
	}
	return s + "]->" + node(n.Next, d+1)
}

func Dump() string { return "H=" + node(Head, 0) + " hc=" + i(hcount) }
`

// ---- control family: same kind of data plus the realm's OWN mutators ----

const ctlaSrc = `package ctla

import (
	"strconv"

	"gno.land/p/c07/plib"
)

type Pt struct{ X, Y int }

var (
	Counter = 7
	PP      = &Pt{3, 4}
	L       = []int{1, 2, 3}
	M       = map[string]int{"a": 1}
	Box     = &plib.Box{}
	bump    func()
)

func init() { bump = func() { Counter += 100 } }

// crossing mutators (the realm's own authority)
func SetCounter(cur realm, n int)        { Counter = n }
func SetPt(cur realm, x int)             { PP.X = x }
func Push(cur realm, n int)              { L = append(L, n) }
func Put(cur realm, k string, n int)     { M[k] = n }
func Drop(cur realm, k string)           { delete(M, k) }

// non-crossing function declared in the realm (borrow rule #1)
func BumpPlain() { Counter++ }

// method declared in the realm on a realm-owned receiver
func (p *Pt) Inc() { p.X++ }
func GetPP() *Pt   { return PP }

// closure minted by the realm
func Bumper() func() { return bump }

// borrow rule #2: a /p/ method on a receiver owned by this realm
func GetBox() *plib.Box { return Box }

func Dump() string {
	s := "C=" + strconv.Itoa(Counter) + " PP=" + strconv.Itoa(PP.X) + "," + strconv.Itoa(PP.Y) + " L=["
	for _, v := range L {
		s += strconv.Itoa(v) + " "
	}
	s += "] M=" + strconv.Itoa(len(M)) + ":" + strconv.Itoa(M["a"]) + ":" + strconv.Itoa(M["k"]) + " Box=" + strconv.Itoa(Box.V) + "/" + strconv.Itoa(len(Box.Hist))
	return s
}
`

// plib: attacker-style generic helpers in a pure package (it cannot name
// victim types): top-level functions, methods on a real /p/-stamped receiver,
// methods on a no-anchor primitive receiver; plus Box (a type with a mutating
// method) for the borrow-rule-#2 positive control.
const plibSrc = `package plib

type Box struct {
	V    int
	Hist []int
}

func (b *Box) Add(d int) int {
	b.V += d
	b.Hist = append(b.Hist, b.V)
	return b.V
}

func SetInt(p *int, v int)                { *p = v }
func IncInt(p *int)                       { *p++ }
func AddInt(p *int, v int)                { *p += v }
func SetIdx(s []int, i, v int)            { s[i] = v }
func IncIdx(s []int, i int)               { s[i]++ }
func Append(s []int, v int) []int         { return append(s, v) }
func Copy(dst, src []int) int             { return copy(dst, src) }
func CopyBytes(dst []byte, src string)    { copy(dst, src) }
func SetByte(s []byte, i int, v byte)     { s[i] = v }
func SetMap(m map[string]int, k string, v int) { m[k] = v }
func DelMap(m map[string]int, k string)   { delete(m, k) }
func SetStr(p *string, v string)          { *p = v }
func Run(f func())                        { f() }

// named types with mutating methods and no storage anchor: a value converted
// to one of them carries the converted value's backing store into the method
type Buf []byte
func (b Buf) Poke(i int, v byte) { b[i] = v }
type Ints []int
func (s Ints) Poke(i, v int) { s[i] = v }
type SMap map[string]int
func (m SMap) Put(k string, v int) { m[k] = v }

type Anchor struct{ N int }

var G = &Anchor{N: 1}

func (a *Anchor) SetInt(p *int, v int)                { *p = v }
func (a *Anchor) SetIdx(s []int, i, v int)            { s[i] = v }
func (a *Anchor) Append(s []int, v int) []int         { return append(s, v) }
func (a *Anchor) SetMap(m map[string]int, k string, v int) { m[k] = v }
func (a *Anchor) DelMap(m map[string]int, k string)   { delete(m, k) }
func (a *Anchor) Run(f func())                        { f() }

type Prim int

func (p Prim) SetInt(q *int, v int)                { *q = v }
func (p Prim) SetIdx(s []int, i, v int)            { s[i] = v }
func (p Prim) Append(s []int, v int) []int         { return append(s, v) }
func (p Prim) SetMap(m map[string]int, k string, v int) { m[k] = v }
func (p Prim) DelMap(m map[string]int, k string)   { delete(m, k) }
func (p Prim) Run(f func())                        { f() }
`

// rlib: the same generic helpers declared in an attacker realm (two-hop path:
// attacker code -> another attacker realm -> victim value).
const rlibSrc = `package rlib

func SetInt(p *int, v int)                { *p = v }
func SetIdx(s []int, i, v int)            { s[i] = v }
func Append(s []int, v int) []int         { return append(s, v) }
func SetMap(m map[string]int, k string, v int) { m[k] = v }
func DelMap(m map[string]int, k string)   { delete(m, k) }
func Run(f func())                        { f() }
func RunX(cur realm, f func())            { f() }
`

// Victims in deployment order.
var victimNames = []string{"vica", "vicb", "vicc", "vicd"}

var victimSrc = map[string]string{"vica": vicaSrc, "vicb": vicbSrc, "vicc": viccSrc, "vicd": vicdSrc}

// TheWorld is the closed world of every C07 chain.
func TheWorld() World {
	w := World{}
	w.Pkgs = append(w.Pkgs, PkgSpec{"gno.land/p/c07/plib", plibSrc}, PkgSpec{basePath + "rlib", rlibSrc})
	for _, v := range victimNames {
		w.Pkgs = append(w.Pkgs, PkgSpec{basePath + v, victimSrc[v]})
	}
	w.Pkgs = append(w.Pkgs, PkgSpec{basePath + "ctla", ctlaSrc})
	return w
}

// Base access paths of each victim: expression (as written by an importer),
// kind, assignable, addressable.
type basePathSpec struct {
	Expr string
	Kind string
	LV   bool
	Addr bool
}

var victimBase = map[string][]basePathSpec{
	"vica": {
		{"vica.Counter", "int", true, true}, {"vica.Name", "string", true, true}, {"vica.Flag", "bool", true, true},
		{"vica.U8", "u8", true, true}, {"vica.F", "float", true, true}, {"vica.Id", "id", true, true},
		{"vica.Arr", "arr4", true, true}, {"vica.P", "pt", true, true}, {"vica.R", "rec", true, true},
		{"vica.RP", "*rec", true, true}, {"vica.PP", "*pt", true, true}, {"vica.PI", "*int", true, true}, {"vica.PA", "*arr4", true, true},
		{"vica.GetPP()", "*pt", false, false}, {"vica.GetHidden()", "*int", false, false}, {"vica.GetRec()", "*rec", false, false},
		{"vica.GetArr()", "*arr4", false, false}, {"vica.GetRecVal().Q", "*pt", false, false},
	},
	"vicb": {
		{"vicb.L", "ints", true, true}, {"vicb.W", "ints", true, true}, {"vicb.B", "bytes", true, true}, {"vicb.LS", "pts", true, true},
		{"vicb.LP", "ptrs", true, true}, {"vicb.LL", "ll", true, true}, {"vicb.IL", "il", true, true}, {"vicb.AS", "as", true, true},
		{"vicb.Strs", "strs", true, true},
		{"vicb.GetL()", "ints", false, false}, {"vicb.GetHL()", "ints", false, false}, {"vicb.GetLP()", "ptrs", false, false},
		{"vicb.GetLL()", "ll", false, false}, {"vicb.GetW()", "ints", false, false}, {"vicb.GetIL()", "il", false, false},
	},
	"vicc": {
		{"vicc.M", "m_si", true, true}, {"vicc.MP", "m_sp", true, true}, {"vicc.MM", "m_mm", true, true}, {"vicc.ML", "m_ml", true, true},
		{"vicc.MI", "m_is", true, true}, {"vicc.SM", "sm", true, true}, {"vicc.I", "any_ptr", true, true}, {"vicc.IV", "any", true, true},
		{"vicc.IS", "anys", true, true}, {"vicc.Fn", "fn", true, true}, {"vicc.ReadAcc", "fn", true, true}, {"vicc.MS", "m_spt", true, true},
		{"vicc.GetM()", "m_si", false, false}, {"vicc.GetHM()", "m_si", false, false}, {"vicc.GetMP()", "m_sp", false, false},
		{"vicc.GetI()", "any_ptr", false, false}, {"vicc.GetSM()", "sm", false, false},
	},
	"vicd": {
		{"vicd.Head", "node", true, true}, {"vicd.GetHead()", "node", false, false}, {"vicd.CountPtr()", "*int", false, false},
	},
}
