package c07

import (
	"fmt"
	"os"
	"sort"
	"strconv"
	"strings"
	"testing"

	"github.com/gnolang/gno/gno.land/pkg/gnoland"

	"verifharness/internal/audit"
	"verifharness/internal/chainsim"
	"verifharness/internal/hist"
	"verifharness/internal/monitors"
)

// TestProbe is a development tool: PROBE=<file> go test -run TestProbe.
func TestProbe(t *testing.T) {
	fn := os.Getenv("PROBE")
	if fn == "" {
		t.Skip("no PROBE file")
	}
	raw, err := os.ReadFile(fn)
	if err != nil {
		t.Fatal(err)
	}
	type sec struct {
		head []string
		body string
	}
	var secs []sec
	for _, part := range strings.Split("\n"+string(raw), "\n=== ")[1:] {
		nl := strings.IndexByte(part, '\n')
		if nl < 0 {
			nl = len(part)
			part += "\n"
		}
		secs = append(secs, sec{strings.Fields(part[:nl]), part[nl+1:]})
	}
	var w World
	var extra []gnoland.Balance
	var evals [][2]string
	var watch []string
	for _, s := range secs {
		switch s.head[0] {
		case "pkg":
			w.Pkgs = append(w.Pkgs, PkgSpec{s.head[1], s.body})
		case "fund":
			n, _ := strconv.ParseInt(s.head[2], 10, 64)
			extra = append(extra, realmBalance(s.head[1], n))
		case "eval":
			evals = append(evals, [2]string{s.head[1], strings.Join(s.head[2:], " ")})
		case "watch":
			watch = append(watch, s.head[1])
		}
	}
	{
		sub := map[string]string{}
		for _, u := range []string{"alice", "mallory", "bob"} {
			sub["$"+u+"$"] = chainsim.NewAccount(u).Addr.String()
		}
		for _, p := range w.Pkgs {
			sub["$"+p.Path+"$"] = hist.RealmAddr(p.Path).String()
		}
		for i := range w.Pkgs {
			for k, v := range sub {
				w.Pkgs[i].Body = strings.ReplaceAll(w.Pkgs[i].Body, k, v)
			}
		}
	}
	ch, err := Start(w, []string{"alice", "mallory", "bob"}, extra)
	if err != nil {
		t.Fatal(err)
	}
	defer ch.Close()
	names := map[string]string{}
	for _, u := range []string{"alice", "mallory", "bob"} {
		names[ch.Acc(u).Addr.String()] = u
	}
	for _, p := range w.Pkgs {
		names[hist.RealmAddr(p.Path).String()] = p.Path
	}
	show := func() (string, *monitors.Ledger, map[string]*ObjSnap) {
		var b strings.Builder
		for _, e := range evals {
			r, err := ch.Eval(e[0], e[1])
			if err != nil {
				r = "ERR " + clip(err.Error(), 200)
			}
			fmt.Fprintf(&b, "    %s.%s = %s\n", pkgName(e[0]), e[1], r)
		}
		st, v, err := audit.Snapshot(ch.DB, 0)
		if err != nil {
			t.Fatal(err)
		}
		l := monitors.ReadLedger(st.Main, map[string]bool{"ugnot": true})
		snaps := map[string]*ObjSnap{}
		for _, p := range watch {
			s, err := SnapObjects(v, p)
			if err != nil {
				t.Fatal(err)
			}
			snaps[p] = s
		}
		return b.String(), l, snaps
	}
	ev0, l0, s0 := show()
	fmt.Printf("GENESIS\n%s", ev0)
	for _, p := range watch {
		fmt.Printf("    %s: %d objects\n", p, len(s0[p].Payload))
	}
	i := 0
	for _, s := range secs {
		var tx hist.TxSpec
		opt := func(k string) int64 {
			for _, h := range s.head {
				if strings.HasPrefix(h, k+"=") {
					n, _ := strconv.ParseInt(h[len(k)+1:], 10, 64)
					return n
				}
			}
			return 0
		}
		var args []string
		for _, h := range s.head {
			if !strings.Contains(h, "=") || strings.HasPrefix(h, "@") {
				args = append(args, h)
			}
		}
		switch s.head[0] {
		case "run":
			tx = hist.TxSpec{Signer: s.head[1], Msgs: []hist.MsgSpec{{Kind: "run", Body: s.body, Send: opt("send")}}}
		case "call":
			tx = hist.TxSpec{Signer: s.head[1], Msgs: []hist.MsgSpec{{Kind: "call", Pkg: args[2], Func: args[3], Args: args[4:], Send: opt("send")}}}
		case "addpkg":
			tx = hist.TxSpec{Signer: s.head[1], Msgs: []hist.MsgSpec{{Kind: "addpkg", Pkg: s.head[2], Body: s.body}}}
		default:
			continue
		}
		tx.Gas, tx.Fee = 100_000_000, 1_000_000
		for a, n := range names {
			for mi := range tx.Msgs {
				tx.Msgs[mi].Body = strings.ReplaceAll(tx.Msgs[mi].Body, "$"+n+"$", a)
			}
		}
		i++
		tr := OneTx(ch, tx)
		res := "OK  " + clip(strings.ReplaceAll(string(tr.Res.Data), "\n", "|"), 300)
		if !tr.OK {
			res = "ERR " + clip(strings.ReplaceAll(tr.Log, "\n", "|"), 700)
		}
		fmt.Printf("TX %d %s gas=%d: %s\n", i, strings.Join(s.head, " "), tr.Res.GasUsed, res)
		ev1, l1, s1 := show()
		if ev1 != ev0 {
			fmt.Printf("  EVAL CHANGED:\n%s", ev1)
		}
		for _, p := range watch {
			ch, rm, ad, meta := DiffObjects(s0[p], s1[p])
			if len(ch)+len(rm)+len(ad)+meta > 0 || s0[p].Realm != s1[p].Realm {
				fmt.Printf("  OBJ %s: changed=%v removed=%v added=%v metaOnly=%d realmRecChanged=%v\n", p, ch, rm, ad, meta, s0[p].Realm != s1[p].Realm)
				for _, k := range ch {
					fmt.Printf("     - %s\n     + %s\n", clip(s0[p].Payload[k], 600), clip(s1[p].Payload[k], 600))
				}
			}
		}
		var addrs []string
		seen := map[string]bool{}
		for a := range l0.Balances {
			seen[a] = true
		}
		for a := range l1.Balances {
			seen[a] = true
		}
		for a := range seen {
			addrs = append(addrs, a)
		}
		sort.Strings(addrs)
		for _, a := range addrs {
			ds := map[string]bool{}
			for d := range l0.Balances[a] {
				ds[d] = true
			}
			for d := range l1.Balances[a] {
				ds[d] = true
			}
			for d := range ds {
				if l0.Balances[a][d] != l1.Balances[a][d] {
					n := names[a]
					if n == "" {
						n = a
					}
					fmt.Printf("  BAL %s %s: %+d\n", n, d, l1.Balances[a][d]-l0.Balances[a][d])
				}
			}
		}
		ev0, l0, s0 = ev1, l1, s1
	}
	_ = chainsim.ChainID
}
