package c07

import (
	"encoding/hex"
	"fmt"
	"reflect"
	"sort"
	"strconv"
	"strings"

	"github.com/gnolang/gno/gno.land/pkg/gnoland"
	gno "github.com/gnolang/gno/gnovm/pkg/gnolang"
	"github.com/gnolang/gno/tm2/pkg/amino"
	"github.com/gnolang/gno/tm2/pkg/std"

	"verifharness/internal/audit"
	"verifharness/internal/chainsim"
	"verifharness/internal/hist"
)

// PkgSpec is one package deployed at genesis (single source file).
type PkgSpec struct {
	Path string `json:"path"`
	Body string `json:"body"`
}

// World is the closed world of one chain: packages deployed at genesis.
type World struct {
	Pkgs []PkgSpec `json:"pkgs"`
}

// Users of the C07 chains. mallory signs every attack; alice deploys.
var Users = []string{"alice", "mallory"}

func pkgName(path string) string { return path[strings.LastIndex(path, "/")+1:] }

// Start boots a chain with the world deployed at genesis (block 1 persists it).
func Start(w World, funded []string, extra []gnoland.Balance) (*chainsim.Chain, error) {
	ch, err := chainsim.New(chainsim.Options{})
	if err != nil {
		return nil, err
	}
	st := ch.DefaultGenState(funded...)
	st.Balances = append(st.Balances, extra...)
	dep := ch.Acc(funded[0])
	for _, p := range w.Pkgs {
		st.Txs = append(st.Txs, chainsim.GenesisAddPkgTx(dep, p.Path, map[string]string{pkgName(p.Path) + ".gno": p.Body}))
	}
	r := ch.InitChain(st)
	if r.Error != nil {
		ch.Close()
		return nil, fmt.Errorf("initchain: %s", r.Error.Error())
	}
	for i, tr := range r.TxResponses {
		if tr.Error != nil {
			ch.Close()
			return nil, fmt.Errorf("genesis tx %d (%s) failed: %s\n%s", i, w.Pkgs[i].Path, tr.Error.Error(), tr.Log)
		}
	}
	ch.RunBlock()
	return ch, nil
}

// OneTx plays a single transaction in its own block.
func OneTx(ch *chainsim.Chain, t hist.TxSpec) *chainsim.TxResult {
	ch.BeginBlock()
	tr := hist.PlayTx(ch, t)
	ch.EndBlockCommit()
	return tr
}

// ---- victim object payloads ----

var (
	refValueType = reflect.TypeOf(gno.RefValue{})
	objInfoType  = reflect.TypeOf(gno.ObjectInfo{})
)

// renderPayload prints a decoded persisted object canonically with every
// piece of ownership metadata masked: ObjectInfo is skipped entirely and a
// RefValue is reduced to the referenced ObjectID (the recorded child hash and
// the escaped flag follow the child's ObjectInfo).
func renderPayload(v reflect.Value, b *strings.Builder, seen map[uintptr]bool, depth int) {
	if depth > 200 {
		b.WriteString("<deep>")
		return
	}
	switch v.Kind() {
	case reflect.Invalid:
		b.WriteString("<nil>")
	case reflect.Interface:
		if v.IsNil() {
			b.WriteString("<nil>")
			return
		}
		renderPayload(v.Elem(), b, seen, depth+1)
	case reflect.Ptr:
		if v.IsNil() {
			b.WriteString("<nil>")
			return
		}
		if seen[v.Pointer()] {
			b.WriteString("<cycle>")
			return
		}
		seen[v.Pointer()] = true
		b.WriteString("&")
		renderPayload(v.Elem(), b, seen, depth+1)
	case reflect.Struct:
		t := v.Type()
		if t == objInfoType {
			b.WriteString("OI{}")
			return
		}
		if t == refValueType {
			rv := v.Interface().(gno.RefValue)
			fmt.Fprintf(b, "Ref{%s %s}", rv.ObjectID.String(), rv.PkgPath)
			return
		}
		b.WriteString(t.Name())
		b.WriteString("{")
		for i := 0; i < v.NumField(); i++ {
			if !t.Field(i).IsExported() {
				continue
			}
			b.WriteString(t.Field(i).Name)
			b.WriteString(":")
			renderPayload(v.Field(i), b, seen, depth+1)
			b.WriteString(",")
		}
		b.WriteString("}")
	case reflect.Slice, reflect.Array:
		if v.Kind() == reflect.Slice && v.IsNil() {
			b.WriteString("[]")
			return
		}
		if v.Type().Elem().Kind() == reflect.Uint8 {
			fmt.Fprintf(b, "x%x", bytesOf(v))
			return
		}
		b.WriteString("[")
		for i := 0; i < v.Len(); i++ {
			renderPayload(v.Index(i), b, seen, depth+1)
			b.WriteString(",")
		}
		b.WriteString("]")
	case reflect.Map:
		keys := v.MapKeys()
		strs := make([]string, len(keys))
		for i, k := range keys {
			var kb, vb strings.Builder
			renderPayload(k, &kb, seen, depth+1)
			renderPayload(v.MapIndex(k), &vb, seen, depth+1)
			strs[i] = kb.String() + "=" + vb.String()
		}
		sort.Strings(strs)
		b.WriteString("map{" + strings.Join(strs, ",") + "}")
	case reflect.String:
		fmt.Fprintf(b, "%q", v.String())
	default:
		fmt.Fprintf(b, "%v", v.Interface())
	}
}

func bytesOf(v reflect.Value) []byte {
	out := make([]byte, v.Len())
	for i := range out {
		out[i] = byte(v.Index(i).Uint())
	}
	return out
}

// ObjSnap is the masked view of one realm's persisted objects.
type ObjSnap struct {
	Payload map[string]string // oid key -> canonical payload (metadata masked)
	Raw     map[string]string // oid key -> raw bytes
	Realm   string            // the #realm record, raw
}

// SnapObjects decodes every oid: record stamped with pkgPath's PkgID. Object
// ids of a realm are <pkgid>:1 .. <pkgid>:Time (Time is the realm's allocation
// counter in its #realm record), so the records are fetched by key.
func SnapObjects(v *audit.View, pkgPath string) (*ObjSnap, error) {
	pid := gno.PkgIDFromPkgPath(pkgPath)
	prefix := "oid:" + hex.EncodeToString(pid.Hashlet[:]) + ":"
	st := v.Base()
	s := &ObjSnap{Payload: map[string]string{}, Raw: map[string]string{}}
	rr := st.Get(nil, []byte(prefix+"1#realm"))
	if rr == nil {
		return nil, fmt.Errorf("%s: no realm record", pkgPath)
	}
	s.Realm = string(rr)
	var rlm *gno.Realm
	if err := amino.Unmarshal(rr, &rlm); err != nil || rlm == nil {
		return nil, fmt.Errorf("%s: realm record does not decode: %v", pkgPath, err)
	}
	for n := uint64(1); n <= rlm.Time+2; n++ {
		k := prefix + strconv.FormatUint(n, 10)
		val := st.Get(nil, []byte(k))
		if val == nil {
			continue
		}
		s.Raw[k] = string(val)
		if len(val) < 20 {
			return nil, fmt.Errorf("%s: value shorter than a hash", k)
		}
		var oo gno.Object
		if err := amino.Unmarshal(val[20:], &oo); err != nil {
			return nil, fmt.Errorf("%s: %v", k, err)
		}
		var b strings.Builder
		renderPayload(reflect.ValueOf(oo), &b, map[uintptr]bool{}, 0)
		s.Payload[k] = b.String()
	}
	return s, nil
}

// DiffObjects compares a snapshot with the baseline: changed and removed
// baseline objects are illegitimate; added ones are reported separately.
func DiffObjects(base, now *ObjSnap) (changed, removed, added []string, metaOnly int) {
	for k, p := range base.Payload {
		q, ok := now.Payload[k]
		switch {
		case !ok:
			removed = append(removed, k)
		case p != q:
			changed = append(changed, k)
		case base.Raw[k] != now.Raw[k]:
			metaOnly++
		}
	}
	for k := range now.Payload {
		if _, ok := base.Payload[k]; !ok {
			added = append(added, k)
		}
	}
	sort.Strings(changed)
	sort.Strings(removed)
	sort.Strings(added)
	return
}

func realmBalance(path string, amt int64) gnoland.Balance {
	return gnoland.Balance{Address: hist.RealmAddr(path), Amount: std.Coins{{Denom: "ugnot", Amount: amt}}}
}

func clip(s string, n int) string {
	if len(s) > n {
		return s[:n] + "…"
	}
	return s
}
