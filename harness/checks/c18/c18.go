// Package c18: coin-set arithmetic matches the multiset model.
//
// Oracle: a map denom -> *big.Int. For Add/Sub (and the Unsafe variants) the
// exact per-denomination sum/difference is computed in math/big; the call
// must panic exactly when an exact result amount is not representable in
// int64 (all four) or — for the validating variants Add/Sub — a result amount
// is negative, and otherwise return the sorted, zero-free list. Operands are
// deep-copied (including spare capacity) before each call and compared after.
// Comparison helpers are evaluated on valid sets (sorted, unique, positive —
// the invariant coin.go documents for them) against per-denomination
// comparison. ParseCoins(String()) must return the same valid set.
//
// Domain: operands are sorted by denomination with unique, valid denoms (the
// invariant Coins.Add documents); amounts are arbitrary int64 (zero, negative,
// extremes) for the arithmetic, strictly positive for the comparison helpers
// and the parse round trip.
package c18

import (
	"fmt"
	"math"
	"math/big"
	"math/rand/v2"
	"runtime"
	"sort"
	"strings"
	"sync"

	"github.com/gnolang/gno/tm2/pkg/std"

	"verifharness/internal/vf"
)

func init() {
	vf.Register(&vf.Check{
		ID:    "C18",
		Level: "exploration",
		Rule: "arithmetic cases = (op in Add/AddUnsafe/Sub/SubUnsafe, A, B) over all ordered pairs of coin sets on a 3-denom alphabet, each denom absent or with an amount from " +
			"{0,1,-1,2,MaxInt64-1,MaxInt64,MinInt64} (thorough adds -2, MinInt64+1, 2^62), plus seeded random sets of up to 6 coins over 11 denominations (all character classes ValidateDenom admits, one of MaxDenomLength); " +
			"comparison cases = (helper, A, B) over all ordered pairs of valid sets on 3 denoms with amounts {1,2,3,MaxInt64-1,MaxInt64} plus random valid sets; parse cases = valid sets. " +
			"non-trivial = (arithmetic) the operands share a denomination, or an operand holds a zero coin, or a panic is expected; (comparison) both sets non-empty and sharing a denomination; (parse) non-empty set; distinct by (kind, op, A, B)",
		Run: run,
	})
}

var (
	bigMin = big.NewInt(math.MinInt64)
	bigMax = big.NewInt(math.MaxInt64)
)

// ---------------------------------------------------------------------------
// model

type entry struct {
	denom string
	amt   *big.Int
}

// modelOf turns a coin list with unique denoms into a map.
func modelOf(cs std.Coins) map[string]*big.Int {
	m := make(map[string]*big.Int, len(cs))
	for _, c := range cs {
		m[c.Denom] = big.NewInt(c.Amount)
	}
	return m
}

// combine returns the exact per-denomination A+sign*B as a sorted zero-free
// list, whether any exact amount is outside int64, and whether any is negative.
func combine(a, b std.Coins, sign int64) (res []entry, overflow, negative bool) {
	ma, mb := modelOf(a), modelOf(b)
	denoms := map[string]struct{}{}
	for d := range ma {
		denoms[d] = struct{}{}
	}
	for d := range mb {
		denoms[d] = struct{}{}
	}
	ds := make([]string, 0, len(denoms))
	for d := range denoms {
		ds = append(ds, d)
	}
	sort.Strings(ds)
	for _, d := range ds {
		x := new(big.Int)
		if v, ok := ma[d]; ok {
			x.Set(v)
		}
		if v, ok := mb[d]; ok {
			if sign > 0 {
				x.Add(x, v)
			} else {
				x.Sub(x, v)
			}
		}
		if x.Cmp(bigMin) < 0 || x.Cmp(bigMax) > 0 {
			overflow = true
		}
		if x.Sign() == 0 {
			continue
		}
		if x.Sign() < 0 {
			negative = true
		}
		res = append(res, entry{d, x})
	}
	return
}

// ---------------------------------------------------------------------------
// helpers

var sentinel = std.Coin{Denom: "zzsentinel", Amount: 77}

// fresh builds an operand slice with two spare capacity slots holding a
// sentinel, so that writes beyond len are visible too. A nil template stays
// nil (the empty set is exercised both as nil and as an empty slice).
func fresh(tpl std.Coins, nilEmpty bool) std.Coins {
	if len(tpl) == 0 && nilEmpty {
		return nil
	}
	s := make(std.Coins, len(tpl), len(tpl)+2)
	copy(s, tpl)
	full := s[:cap(s)]
	full[len(tpl)] = sentinel
	full[len(tpl)+1] = sentinel
	return s
}

func snapshot(s std.Coins) []std.Coin {
	if s == nil {
		return nil
	}
	full := s[:cap(s)]
	out := make([]std.Coin, len(full))
	copy(out, full)
	return out
}

func sameSnapshot(s std.Coins, snap []std.Coin, upto int) bool {
	if s == nil {
		return snap == nil
	}
	full := s[:cap(s)]
	if len(full) != len(snap) {
		return false
	}
	for i := 0; i < upto && i < len(full); i++ {
		if full[i] != snap[i] {
			return false
		}
	}
	return true
}

func lit(cs []std.Coin) []map[string]any {
	out := make([]map[string]any, len(cs))
	for i, c := range cs {
		out[i] = map[string]any{"denom": c.Denom, "amount": fmt.Sprint(c.Amount)}
	}
	return out
}

func keyOf(cs std.Coins) string {
	var sb strings.Builder
	for _, c := range cs {
		fmt.Fprintf(&sb, "%s=%d;", c.Denom, c.Amount)
	}
	return sb.String()
}

func hasZero(cs std.Coins) bool {
	for _, c := range cs {
		if c.Amount == 0 {
			return true
		}
	}
	return false
}

func hasMinInt(cs std.Coins) bool {
	for _, c := range cs {
		if c.Amount == math.MinInt64 {
			return true
		}
	}
	return false
}

func shareDenom(a, b std.Coins) bool {
	for _, x := range a {
		for _, y := range b {
			if x.Denom == y.Denom {
				return true
			}
		}
	}
	return false
}

// ---------------------------------------------------------------------------
// arithmetic

var arithOps = []string{"Add", "AddUnsafe", "Sub", "SubUnsafe"}

func arith(c *vf.Ctx, tplA, tplB std.Coins, nilEmpty bool) {
	for opi, op := range arithOps {
		sign := int64(1)
		if opi >= 2 {
			sign = -1
		}
		want, overflow, negative := combine(tplA, tplB, sign)
		wantPanic := overflow
		if op == "Add" || op == "Sub" {
			wantPanic = overflow || negative
		}
		a, b := fresh(tplA, nilEmpty), fresh(tplB, nilEmpty)
		sa, sb := snapshot(a), snapshot(b)
		var got std.Coins
		pv := vf.Try(func() {
			switch op {
			case "Add":
				got = a.Add(b)
			case "AddUnsafe":
				got = a.AddUnsafe(b)
			case "Sub":
				got = a.Sub(b)
			case "SubUnsafe":
				got = a.SubUnsafe(b)
			}
		})
		nt := shareDenom(tplA, tplB) || hasZero(tplA) || hasZero(tplB) || wantPanic
		c.Case("arith/"+op+"/"+keyOf(tplA)+"/"+keyOf(tplB), nt)
		c.Count("op_"+op, 1)
		w := map[string]any{"op": op, "a": lit(tplA), "b": lit(tplB), "want_panic": wantPanic, "exact_overflow": overflow, "exact_negative": negative}
		// operands untouched (within len: the operand value; beyond len: spare capacity)
		if !sameSnapshot(a, sa, len(tplA)) || !sameSnapshot(b, sb, len(tplB)) || len(a) != len(tplA) || len(b) != len(tplB) {
			w["a_after"], w["b_after"] = lit(a), lit(b)
			key := "operand-modified:" + op
			if hasZero(tplA) || hasZero(tplB) {
				// input class: an operand holds a zero-amount coin
				key = "operand-modified:zero-coin"
			}
			viol(c, key, w, "%s modified an operand: a %s -> %s, b %s -> %s", op, show(tplA), show(a), show(tplB), show(b))
		} else if !sameSnapshot(a, sa, cap(a)) || !sameSnapshot(b, sb, cap(b)) {
			viol(c, "operand-capacity-modified:"+op, w, "%s wrote into the spare capacity of an operand", op)
		}
		// MinInt64 in the subtrahend is its own input class (negation wraps)
		minIntClass := sign < 0 && hasMinInt(tplB)
		if (pv != nil) != wantPanic {
			w["panic"] = fmt.Sprint(pv)
			key := "panic-mismatch:" + op
			if minIntClass {
				key = "sub-minint64-negation:" + op
			}
			viol(c, key, w, "%s(%s, %s): panicked=%v (%v), exact model wants panic=%v (overflow=%v negative=%v)", op, show(tplA), show(tplB), pv != nil, pv, wantPanic, overflow, negative)
			continue
		}
		if wantPanic {
			if overflow {
				c.Count("expected_panic_overflow", 1)
			} else {
				c.Count("expected_panic_invalid_result", 1)
			}
			continue
		}
		ok := len(got) == len(want)
		if ok {
			for i := range want {
				if got[i].Denom != want[i].denom || big.NewInt(got[i].Amount).Cmp(want[i].amt) != 0 {
					ok = false
					break
				}
			}
		}
		if !ok {
			w["got"] = lit(got)
			key := "wrong-result:" + op
			if minIntClass {
				key = "sub-minint64-negation:" + op
			}
			viol(c, key, w, "%s(%s, %s) = %s, model wants %s", op, show(tplA), show(tplB), show(got), fmtEntries(want))
			continue
		}
		if len(want) < len(modelUnion(tplA, tplB)) {
			c.Count("results_with_zero_removed", 1)
		}
		c.Count("results_checked", 1)
	}
}

func modelUnion(a, b std.Coins) map[string]struct{} {
	m := map[string]struct{}{}
	for _, x := range a {
		m[x.Denom] = struct{}{}
	}
	for _, x := range b {
		m[x.Denom] = struct{}{}
	}
	return m
}

var (
	vkMu sync.Mutex
	vk   = map[string]int{}
)

// viol reports a violation and keeps a per-key histogram for the log/evidence.
func viol(c *vf.Ctx, key string, w any, format string, args ...any) {
	vkMu.Lock()
	vk[key]++
	n := vk[key]
	vkMu.Unlock()
	// vf keeps at most 25 witnesses per run over all keys: pass on the first three per key so that
	// every key gets its replay files; the full per-key counts go to the log and the evidence counters.
	if n <= 3 {
		c.Violation(key, w, format, args...)
	}
}

func logKeys(c *vf.Ctx) {
	vkMu.Lock()
	defer vkMu.Unlock()
	keys := make([]string, 0, len(vk))
	for k := range vk {
		keys = append(keys, k)
	}
	sort.Strings(keys)
	for _, k := range keys {
		c.Logf("violation key %-45s x%d", k, vk[k])
		c.Count("reported:"+k, vk[k])
	}
}

// show prints a coin list literally (Coins.String hides zero coins).
func show(cs []std.Coin) string {
	var sb strings.Builder
	sb.WriteByte('[')
	for i, c := range cs {
		if i > 0 {
			sb.WriteByte(' ')
		}
		fmt.Fprintf(&sb, "{%s %d}", c.Denom, c.Amount)
	}
	sb.WriteByte(']')
	return sb.String()
}

func fmtEntries(es []entry) string {
	var sb strings.Builder
	for i, e := range es {
		if i > 0 {
			sb.WriteByte(',')
		}
		fmt.Fprintf(&sb, "%s%s", e.amt, e.denom)
	}
	return "[" + sb.String() + "]"
}

// ---------------------------------------------------------------------------
// comparison helpers (valid sets only)

func amountIn(cs std.Coins, d string) int64 { // linear model lookup; 0 if absent
	for _, c := range cs {
		if c.Denom == d {
			return c.Amount
		}
	}
	return 0
}

func present(cs std.Coins, d string) bool {
	for _, c := range cs {
		if c.Denom == d {
			return true
		}
	}
	return false
}

func compare(c *vf.Ctx, tplA, tplB std.Coins, nilEmpty bool) {
	// per-denomination reference
	allGT, allGTE := true, true // ∀d∈B: A(d) > / ≥ B(d)
	for _, y := range tplB {
		if !(amountIn(tplA, y.Denom) > y.Amount) {
			allGT = false
		}
		if !(amountIn(tplA, y.Denom) >= y.Amount) {
			allGTE = false
		}
	}
	allLT, allLTE := true, true // ∀d∈A: A(d) < / ≤ B(d)
	for _, x := range tplA {
		if !(x.Amount < amountIn(tplB, x.Denom)) {
			allLT = false
		}
		if !(x.Amount <= amountIn(tplB, x.Denom)) {
			allLTE = false
		}
	}
	anyGT, anyGTE := false, false // ∃d in both: A(d) > / ≥ B(d)
	for _, x := range tplA {
		if present(tplB, x.Denom) {
			if x.Amount > amountIn(tplB, x.Denom) {
				anyGT = true
			}
			if x.Amount >= amountIn(tplB, x.Denom) {
				anyGTE = true
			}
		}
	}
	subset := true // denoms(A) ⊆ denoms(B)
	for _, x := range tplA {
		if !present(tplB, x.Denom) {
			subset = false
		}
	}
	equal := len(tplA) == len(tplB)
	sameDenoms := equal
	if equal {
		for i := range tplA {
			if tplA[i].Denom != tplB[i].Denom {
				sameDenoms = false
				equal = false
			} else if tplA[i].Amount != tplB[i].Amount {
				equal = false
			}
		}
	}
	type h struct {
		name string
		want bool
		f    func(a, b std.Coins) bool
	}
	hs := []h{
		// the strict "all" forms are false for an empty receiver/argument (coin.go, TestCoinsIsAllGT)
		{"IsAllGT", len(tplA) > 0 && allGT, func(a, b std.Coins) bool { return a.IsAllGT(b) }},
		{"IsAllGTE", allGTE, func(a, b std.Coins) bool { return a.IsAllGTE(b) }},
		{"IsAllLT", len(tplB) > 0 && allLT, func(a, b std.Coins) bool { return a.IsAllLT(b) }},
		{"IsAllLTE", allLTE, func(a, b std.Coins) bool { return a.IsAllLTE(b) }},
		{"IsAnyGT", anyGT, func(a, b std.Coins) bool { return a.IsAnyGT(b) }},
		{"IsAnyGTE", anyGTE, func(a, b std.Coins) bool { return a.IsAnyGTE(b) }},
		{"DenomsSubsetOf", subset, func(a, b std.Coins) bool { return a.DenomsSubsetOf(b) }},
		{"IsEqual", equal, func(a, b std.Coins) bool { return a.IsEqual(b) }},
	}
	nt := len(tplA) > 0 && len(tplB) > 0 && shareDenom(tplA, tplB)
	for _, x := range hs {
		a, b := fresh(tplA, nilEmpty), fresh(tplB, nilEmpty)
		sa, sb := snapshot(a), snapshot(b)
		var got bool
		pv := vf.Try(func() { got = x.f(a, b) })
		c.Case("cmp/"+x.name+"/"+keyOf(tplA)+"/"+keyOf(tplB), nt)
		w := map[string]any{"helper": x.name, "a": lit(tplA), "b": lit(tplB), "want": x.want}
		if !sameSnapshot(a, sa, cap(a)) || !sameSnapshot(b, sb, cap(b)) {
			viol(c, "operand-modified:"+x.name, w, "%s modified an operand", x.name)
		}
		if pv != nil {
			// Coins.IsEqual is documented (TestEqualCoins) to panic when equally long sets differ in a denomination.
			if x.name == "IsEqual" && len(tplA) == len(tplB) && !sameDenoms {
				c.Count("isequal_documented_panic", 1)
				continue
			}
			w["panic"] = fmt.Sprint(pv)
			viol(c, "panic:"+x.name, w, "%s(%s, %s) panicked: %v", x.name, show(tplA), show(tplB), pv)
			continue
		}
		if got != x.want {
			viol(c, "compare-mismatch:"+x.name, w, "%s(%s, %s) = %v, per-denomination comparison gives %v", x.name, show(tplA), show(tplB), got, x.want)
			continue
		}
		if got {
			c.Count("cmp_true_"+x.name, 1)
		} else {
			c.Count("cmp_false_"+x.name, 1)
		}
	}
	// AmountOf on a sorted set is the per-denomination lookup
	for _, y := range tplB {
		var got int64
		if pv := vf.Try(func() { got = tplA.AmountOf(y.Denom) }); pv != nil || got != amountIn(tplA, y.Denom) {
			viol(c, "compare-mismatch:AmountOf", map[string]any{"a": lit(tplA), "denom": y.Denom}, "AmountOf(%s, %s) = %d (panic %v), want %d", show(tplA), y.Denom, got, pv, amountIn(tplA, y.Denom))
		}
		c.Eval(1)
	}
}

func unary(c *vf.Ctx, tpl std.Coins) {
	zero, allPos, anyNeg := true, len(tpl) > 0, false
	for _, x := range tpl {
		if x.Amount != 0 {
			zero = false
		}
		if x.Amount <= 0 {
			allPos = false
		}
		if x.Amount < 0 {
			anyNeg = true
		}
	}
	a := fresh(tpl, false)
	chk := func(name string, got, want bool) {
		c.Eval(1)
		if got != want {
			viol(c, "compare-mismatch:"+name, map[string]any{"helper": name, "a": lit(tpl), "want": want}, "%s(%s) = %v, want %v", name, show(tpl), got, want)
		}
	}
	chk("IsZero", a.IsZero(), zero)
	chk("IsAllPositive", a.IsAllPositive(), allPos)
	chk("IsAnyNegative", a.IsAnyNegative(), anyNeg)
	chk("Empty", a.Empty(), len(tpl) == 0)
}

// ---------------------------------------------------------------------------
// parse round trip (valid sets only)

func parseRT(c *vf.Ctx, tpl std.Coins) {
	a := fresh(tpl, false)
	if !a.IsValid() {
		c.Count("generator_invalid_sets", 1) // generator bug guard; never expected
		return
	}
	s := a.String()
	var got std.Coins
	var err error
	pv := vf.Try(func() { got, err = std.ParseCoins(s) })
	c.Case("parse/"+keyOf(tpl), len(tpl) > 0)
	w := map[string]any{"set": lit(tpl), "string": s}
	if pv != nil || err != nil {
		viol(c, "parse-roundtrip:rejected", w, "ParseCoins(%q) failed for a valid set: err=%v panic=%v", s, err, pv)
		return
	}
	ok := len(got) == len(tpl)
	for i := 0; ok && i < len(tpl); i++ {
		ok = got[i] == tpl[i]
	}
	if !ok {
		w["got"] = lit(got)
		viol(c, "parse-roundtrip:different", w, "ParseCoins(%q) = %s, want %s", s, show(got), show(tpl))
		return
	}
	c.Count("parse_roundtrips", 1)
}

// ---------------------------------------------------------------------------
// generators

// enumerate returns all sets over denoms where each denom is absent or holds one of amts.
func enumerate(denoms []string, amts []int64) []std.Coins {
	var out []std.Coins
	var rec func(i int, cur std.Coins)
	rec = func(i int, cur std.Coins) {
		if i == len(denoms) {
			cp := make(std.Coins, len(cur))
			copy(cp, cur)
			out = append(out, cp)
			return
		}
		rec(i+1, cur)
		for _, a := range amts {
			rec(i+1, append(cur[:len(cur):len(cur)], std.Coin{Denom: denoms[i], Amount: a}))
		}
	}
	rec(0, nil)
	return out
}

// denomPool is sorted and exercises every character class ValidateDenom admits.
var denomPool = func() []string {
	p := []string{
		"aaa", "bbb", "ccc", "ugnot", "a-b", "x.y_z", "/gno.land/r/demo/foo:bar", "/gno.land/r/my-org/token:tok9",
		"a00", "ibc/27394fb092d2eccd56123c74f36e4c1f926001ceada9ca97ea622b25f41e5eb2",
		"/" + strings.Repeat("p", 256) + ":" + strings.Repeat("b", 16), // MaxDenomLength
	}
	sort.Strings(p)
	return p
}()

func randAmount(r *rand.Rand, positive bool) int64 {
	var v int64
	switch r.IntN(6) {
	case 0:
		v = int64(r.IntN(5)) - 2
	case 1:
		v = math.MaxInt64 - int64(r.IntN(3))
	case 2:
		v = math.MinInt64 + int64(r.IntN(3))
	case 3:
		v = int64(r.Uint64())
	case 4:
		v = int64(r.Uint64()) >> r.UintN(63)
	default:
		v = int64(1) << r.UintN(63)
		if r.IntN(2) == 0 {
			v = -v
		}
		v += int64(r.IntN(3)) - 1
	}
	if positive {
		if v == math.MinInt64 {
			v = math.MaxInt64
		}
		if v < 0 {
			v = -v
		}
		if v == 0 {
			v = 1
		}
	}
	return v
}

func randSet(r *rand.Rand, positive bool) std.Coins {
	n := r.IntN(7)
	idx := r.Perm(len(denomPool))[:n]
	sort.Ints(idx)
	out := make(std.Coins, 0, n)
	for _, i := range idx {
		out = append(out, std.Coin{Denom: denomPool[i], Amount: randAmount(r, positive)})
	}
	return out
}

// ---------------------------------------------------------------------------

func run(c *vf.Ctx) {
	workers := runtime.GOMAXPROCS(0)
	denoms := []string{"aaa", "bbb", "ccc"}
	amts := []int64{0, 1, -1, 2, math.MaxInt64 - 1, math.MaxInt64, math.MinInt64}
	if !c.Quick() {
		amts = append(amts, -2, math.MinInt64+1, 1<<62)
	}
	sets := enumerate(denoms, amts)
	c.Set("arith_alphabet", map[string]any{"denoms": denoms, "amounts": fmt.Sprint(amts), "sets": len(sets), "ordered_pairs": len(sets) * len(sets)})
	c.Logf("arithmetic: %d sets, %d ordered pairs x 4 ops", len(sets), len(sets)*len(sets))
	c.Parallel(len(sets), workers, 1000, func(i int, _ *rand.Rand) {
		for j := range sets {
			arith(c, sets[i], sets[j], (i+j)%2 == 0)
		}
		unary(c, sets[i])
	})

	vamts := []int64{1, 2, 3, math.MaxInt64 - 1, math.MaxInt64}
	vsets := enumerate(denoms, vamts)
	c.Set("compare_alphabet", map[string]any{"denoms": denoms, "amounts": fmt.Sprint(vamts), "sets": len(vsets), "ordered_pairs": len(vsets) * len(vsets)})
	c.Logf("comparison: %d valid sets, %d ordered pairs", len(vsets), len(vsets)*len(vsets))
	c.Parallel(len(vsets), workers, 100000, func(i int, _ *rand.Rand) {
		for j := range vsets {
			compare(c, vsets[i], vsets[j], (i+j)%2 == 1)
		}
		parseRT(c, vsets[i])
	})
	c.SetExhaustive(true) // both small alphabets above are enumerated completely

	nr := c.N(60000, 400000)
	const chunk = 500
	c.Parallel(nr/chunk, workers, 200000, func(_ int, r *rand.Rand) {
		for k := 0; k < chunk; k++ {
			a, b := randSet(r, false), randSet(r, false)
			if r.IntN(4) == 0 && len(a) > 0 { // correlated operand: same denoms, related amounts
				b = make(std.Coins, len(a))
				for i := range a {
					b[i] = std.Coin{Denom: a[i].Denom, Amount: a[i].Amount}
					switch r.IntN(4) {
					case 0:
						b[i].Amount = randAmount(r, false)
					case 1:
						if a[i].Amount != math.MinInt64 {
							b[i].Amount = -a[i].Amount
						}
					}
				}
			}
			arith(c, a, b, r.IntN(2) == 0)
			unary(c, a)
			va, vb := randSet(r, true), randSet(r, true)
			if r.IntN(3) == 0 && len(va) > 0 { // same denoms, nearby amounts
				vb = make(std.Coins, len(va))
				for i := range va {
					vb[i] = va[i]
					if d := int64(r.IntN(3)) - 1; (d > 0 && va[i].Amount < math.MaxInt64) || (d < 0 && va[i].Amount > 1) {
						vb[i].Amount += d
					}
				}
				if r.IntN(3) == 0 {
					vb = vb[:r.IntN(len(vb)+1)]
				}
			}
			compare(c, va, vb, r.IntN(2) == 0)
			parseRT(c, va)
		}
	})

	logKeys(c)
	c.Sample(map[string]any{"op": "Add", "a": lit(std.Coins{{Denom: "aaa", Amount: math.MaxInt64}}), "b": lit(std.Coins{{Denom: "aaa", Amount: 1}}), "want_panic": true})
	c.Sample(map[string]any{"op": "Sub", "a": lit(std.Coins{{Denom: "aaa", Amount: 1}, {Denom: "bbb", Amount: 2}}), "b": lit(std.Coins{{Denom: "aaa", Amount: 1}}), "want": "2bbb"})
	c.Sample(map[string]any{"op": "AddUnsafe", "a": lit(std.Coins{}), "b": lit(std.Coins{{Denom: "aaa", Amount: 0}, {Denom: "bbb", Amount: 1}}), "want": "1bbb, operands untouched"})
	c.Sample(map[string]any{"helper": "IsAllGT", "a": lit(std.Coins{{Denom: "aaa", Amount: 2}, {Denom: "bbb", Amount: 3}}), "b": lit(std.Coins{{Denom: "bbb", Amount: 2}}), "want": true})
	c.Sample(map[string]any{"parse": "9223372036854775807aaa,1bbb"})
	c.Assume("math/big is the arithmetic reference")
	c.Assume("operands are sorted by denomination with unique valid denominations (invariant documented on Coins.Add); behaviour on unsorted/duplicate/invalid-denom input is out of scope")
	c.Assume("comparison helpers and the parse round trip are asserted on valid sets only (sorted, unique, strictly positive), the invariant coin.go states for them; Coins.IsEqual may panic on equally long sets with different denominations (TestEqualCoins)")

	for _, op := range arithOps {
		c.RequireCounter("op_"+op, 1000)
	}
	c.RequireCounter("expected_panic_overflow", 100)
	c.RequireCounter("expected_panic_invalid_result", 100)
	c.RequireCounter("results_with_zero_removed", 100)
	c.RequireCounter("results_checked", 1000)
	c.RequireCounter("parse_roundtrips", 200)
	for _, n := range []string{"IsAllGT", "IsAllGTE", "IsAllLT", "IsAllLTE", "IsAnyGT", "IsAnyGTE", "DenomsSubsetOf", "IsEqual"} {
		c.RequireCounter("cmp_true_"+n, 10)
		c.RequireCounter("cmp_false_"+n, 10)
	}
	c.Require("generator_invalid_sets==0", 1-c.Counter("generator_invalid_sets"), 1)
}
