//go:build !cgo

package c29

import (
	"errors"

	dbm "github.com/gnolang/gno/tm2/pkg/db"
)

var cgoBackends = []string{}

func openCgo(name, dir string) (dbm.DB, error) { return nil, errors.New("cgo backends not built") }
