//go:build cgo

package c29

import (
	"github.com/bmatsuo/lmdb-go/lmdb"
	"github.com/erigontech/mdbx-go/mdbx"

	dbm "github.com/gnolang/gno/tm2/pkg/db"
	"github.com/gnolang/gno/tm2/pkg/db/lmdbdb"
	"github.com/gnolang/gno/tm2/pkg/db/mdbxdb"
)

// cgoBackends are registered by /repo only in cgo builds (see tm2/pkg/db/_all/all_cgo.go).
var cgoBackends = []string{"lmdbdb", "mdbxdb"}

// openCgo opens a cgo backend through its exported options constructor with a
// small map and without fsync-per-commit (durability is not part of the
// property; with the 1 TB / sync defaults a commit costs milliseconds). The
// wrapper code under test is the same as with the defaults.
func openCgo(name, dir string) (dbm.DB, error) {
	switch name {
	case "lmdbdb":
		return lmdbdb.NewLMDBWithOptions("c29", dir, 256<<20, lmdb.NoSync)
	case "mdbxdb":
		return mdbxdb.NewMDBXWithOptions("c29", dir, 256<<20, mdbx.UtterlyNoSync)
	}
	panic("unknown cgo backend " + name)
}
