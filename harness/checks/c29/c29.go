// Package c29: all database backends implement the same key-value semantics.
//
// Oracle: an in-memory ordered map (Go map + sorted keys). One seeded history
// of sets, deletes, batches (written or discarded), point reads, iterators
// (both directions, all bound shapes) and snapshots is applied in lock-step to
// every backend (memdb, goleveldb, pebbledb, boltdb and - when the engine is
// built with cgo - lmdbdb, mdbxdb), raw and through PrefixDB / SnapshotDB
// wrappers. Every result of every backend is compared with the model, so all
// backends agree with each other exactly when they agree with the model.
//
// Contract used (tm2/pkg/db/types.go): nil key == empty key; nil value ==
// empty value; Get returns nil iff the key does not exist; start inclusive,
// end exclusive, nil end = unbounded, start >= end = invalid (empty) iterator;
// iterator Key()/Value() are copies safe for modification; batch Close
// without Write discards; no writes while an iterator is open (the harness
// closes every iterator before the next operation); inputs are never mutated
// by the harness after a call (each backend receives private copies).
package c29

import (
	"bytes"
	"fmt"
	"math/rand/v2"
	"os"
	"path/filepath"
	"sort"
	"strings"
	"sync"

	dbm "github.com/gnolang/gno/tm2/pkg/db"
	"github.com/gnolang/gno/tm2/pkg/db/boltdb"
	_ "github.com/gnolang/gno/tm2/pkg/db/goleveldb"
	"github.com/gnolang/gno/tm2/pkg/db/memdb"
	_ "github.com/gnolang/gno/tm2/pkg/db/pebbledb"

	"go.etcd.io/bbolt"

	"verifharness/internal/vf"
)

func init() {
	vf.Register(&vf.Check{
		ID:    "C29",
		Level: "exploration",
		Rule: "case = (history, backend): one seeded history (quick 40, thorough 80 operations: set/setsync/delete/deletesync/get/has/iterator/reverse-iterator/" +
			"batch written or discarded/snapshot+later writes/full verification; through the raw DB, two PrefixDB views and SnapshotDB) applied to one backend and compared " +
			"with the ordered-map model; keys built from {00,01,'a','b',FE,FF}, the PrefixDB prefixes and their neighbours, empty and nil keys/values; bounds nil, empty, " +
			"equal to a key, key+00, key-1+FF, start>=end. non-trivial = the history compared on that backend at least one non-empty iterator in each direction with a " +
			"bound equal to an existing key, one written and one discarded batch; distinct by (backend, operation log)",
		Run: run,
	})
}

// ---------------------------------------------------------------------------
// backend sets (opened once per worker slot, wiped between histories)

type target struct {
	name string
	db   dbm.DB
	dead bool // stop comparing this backend in the current history
	seen map[string]bool // violation keys already reported in the current history
	// per-history coverage flags
	fwdEq, revEq, batchW, batchD bool
}

type bset struct {
	slot    int
	targets []*target
}

var diskBackends = []string{"goleveldb", "pebbledb", "boltdb"}

func openSet(c *vf.Ctx, slot int) *bset {
	bs := &bset{slot: slot}
	bs.targets = append(bs.targets, &target{name: "memdb", db: memdb.NewMemDB()})
	dir := filepath.Join(c.WorkDir, fmt.Sprintf("slot%d", slot))
	if err := os.MkdirAll(dir, 0o755); err != nil {
		panic(err)
	}
	for _, name := range append(append([]string{}, diskBackends...), cgoBackends...) {
		if only := os.Getenv("C29_DEBUG_BACKENDS"); only != "" && !strings.Contains(only, name) {
			continue // debugging aid only; the coverage requirements below then fail (inconclusive)
		}
		var db dbm.DB
		var err error
		switch name {
		case "boltdb":
			// default options except NoSync (an fsync per Set is not part of the property)
			o := *bbolt.DefaultOptions
			o.NoSync = true
			db, err = boltdb.NewWithOptions("c29", filepath.Join(dir, name), &o)
		case "lmdbdb", "mdbxdb":
			db, err = openCgo(name, filepath.Join(dir, name))
		default:
			db, err = dbm.NewDB("c29", dbm.BackendType(name), filepath.Join(dir, name))
		}
		if err != nil {
			c.Count("backend_open_failed_"+name, 1)
			c.Logf("cannot open backend %s: %v", name, err)
			continue
		}
		bs.targets = append(bs.targets, &target{name: name, db: db})
	}
	return bs
}

func (bs *bset) close() {
	for _, t := range bs.targets {
		vf.Try(func() { t.db.Close() })
	}
}

// ---------------------------------------------------------------------------

type kv struct{ k, v string }

func cp(b []byte) []byte {
	if b == nil {
		return nil
	}
	return append([]byte{}, b...)
}

func showB(b []byte) string {
	if b == nil {
		return "nil"
	}
	return fmt.Sprintf("%x", b)
}

func inDomain(k string, start, end []byte) bool {
	if start != nil && bytes.Compare([]byte(k), start) < 0 {
		return false
	}
	if end != nil && bytes.Compare([]byte(k), end) >= 0 {
		return false
	}
	return true
}

func expectRange(m map[string]string, start, end []byte, rev bool) []kv {
	ks := make([]string, 0, len(m))
	for k := range m {
		if inDomain(k, start, end) {
			ks = append(ks, k)
		}
	}
	sort.Strings(ks)
	out := make([]kv, len(ks))
	for i, k := range ks {
		if rev {
			out[len(ks)-1-i] = kv{k, m[k]}
		} else {
			out[i] = kv{k, m[k]}
		}
	}
	return out
}

func flip(b []byte) {
	for i := range b {
		b[i] ^= 0xFF
	}
}

// reader is what DB, Snapshot and the wrappers have in common.
type reader interface {
	Get([]byte) ([]byte, error)
	Has([]byte) (bool, error)
	Iterator(start, end []byte) (dbm.Iterator, error)
	ReverseIterator(start, end []byte) (dbm.Iterator, error)
}

type hist struct {
	c        *vf.Ctx
	rng      *rand.Rand
	id       string
	bs       *bset
	model    map[string]string // raw keys
	pfx      [3][]byte         // pfx[0] = nil (raw view)
	rawEmpty bool              // this history uses the empty/nil raw key in point operations
	universe map[string]struct{}
	log      []string
	cnt      map[string]int
	valCtr   int
}

func (h *hist) logf(f string, a ...any) { h.log = append(h.log, fmt.Sprintf(f, a...)) }
func (h *hist) count(n string, d int)   { h.cnt[n] += d }

func (h *hist) viewName(v int) string {
	if v == 0 {
		return "raw"
	}
	return "prefixdb"
}

// classification suffixes that make a violation key specific to its input class
func (h *hist) class(v int, start, end []byte, bounds bool) string {
	s := ""
	if v != 0 && h.pfx[v][len(h.pfx[v])-1] == 0xFF {
		s += ":prefix-ends-ff"
		if bounds && end == nil {
			s += ":nil-end" // PrefixDB computes the end of the prefix range itself
		}
	}
	if bounds {
		if start != nil && len(start) == 0 {
			s += ":empty-start"
		}
		if end != nil && len(end) == 0 {
			s += ":empty-end"
		}
		if start != nil && end != nil && bytes.Compare(start, end) > 0 {
			s += ":start-gt-end"
		}
	}
	return s
}

// violation keys seen in this run (all of them; vf caps what it prints)
var (
	vkMu   sync.Mutex
	vkSeen = map[string]int{}
)

func noteKey(key string) {
	vkMu.Lock()
	vkSeen[key]++
	vkMu.Unlock()
}

func (h *hist) witness(t *target) map[string]any {
	ops := h.log
	if len(ops) > 300 {
		ops = ops[len(ops)-300:]
	}
	return map[string]any{"case": h.id, "backend": t.name, "prefix1": showB(h.pfx[1]), "prefix2": showB(h.pfx[2]), "ops": ops}
}

// fail: a write failed or panicked - the backend's state can no longer be
// compared in this history.
func (h *hist) fail(t *target, key string, f string, a ...any) {
	h.report(t, true, key, fmt.Sprintf(f, a...))
}

// mism: a read disagreed with the model. The backend stays in the comparison
// (a read-path defect does not corrupt state) for up to 4 distinct keys.
func (h *hist) mism(t *target, key string, f string, a ...any) {
	h.report(t, false, key, fmt.Sprintf(f, a...))
}

func (h *hist) report(t *target, hard bool, key, msg string) {
	if t.dead {
		return
	}
	if h.rawEmpty {
		// Once the empty raw key has been used the state itself may have
		// diverged, so finer classification is meaningless: one key per backend.
		key = "raw-empty-key-history:" + t.name
		hard = true
	}
	if t.seen[key] {
		return
	}
	t.seen[key] = true
	if hard || len(t.seen) >= 4 {
		t.dead = true
	}
	noteKey(key)
	h.c.Violation(key, h.witness(t), "%s backend=%s: %s", h.id, t.name, msg)
}

// soft reports an aliasing violation: independent of the state (the harness
// undoes its scribbling), never stops the comparison.
func (h *hist) soft(t *target, key string, f string, a ...any) {
	if t.seen[key] {
		return
	}
	t.seen[key] = true
	noteKey(key)
	h.c.Violation(key, h.witness(t), "%s backend=%s: %s", h.id, t.name, fmt.Sprintf(f, a...))
}

func (h *hist) view(t *target, v int) dbm.DB {
	if v == 0 {
		return t.db
	}
	return dbm.NewPrefixDB(t.db, cp(h.pfx[v]))
}

// model access through a view
func viewOf(m map[string]string, pfx []byte) map[string]string {
	if pfx == nil {
		return m
	}
	o := map[string]string{}
	p := string(pfx)
	for k, v := range m {
		if strings.HasPrefix(k, p) {
			o[k[len(p):]] = v
		}
	}
	return o
}

func rawKey(pfx, key []byte) string { return string(pfx) + string(key) }

// ---------------------------------------------------------------------------
// generators

var tokens = [][]byte{{0x00}, {0x01}, {'a'}, {'b'}, {0xFE}, {0xFF}, []byte("nil")}

func randTokens(r *rand.Rand, n int) []byte {
	b := []byte{}
	for i := 0; i < n; i++ {
		b = append(b, tokens[r.IntN(len(tokens))]...)
	}
	return b
}

func perturb(r *rand.Rand, p []byte) []byte {
	q := append([]byte{}, p...)
	switch r.IntN(6) {
	case 0:
		q[len(q)-1]++
	case 1:
		q[len(q)-1]--
	case 2:
		q = q[:len(q)-1]
	case 3: // first key after the prefix range
		for len(q) > 0 && q[len(q)-1] == 0xFF {
			q = q[:len(q)-1]
		}
		if len(q) > 0 {
			q[len(q)-1]++
		}
	case 4: // same-length big-endian increment (what db.cpIncr computes)
		for i := len(q) - 1; i >= 0; i-- {
			q[i]++
			if q[i] != 0 {
				break
			}
		}
	case 5:
		q = append(q, 0xFF)
	}
	return q
}

// genKey: key for view v; may be nil or empty (see rawEmpty).
func (h *hist) genKey(v int) []byte {
	r := h.rng
	var k []byte
	if v == 0 {
		switch x := r.IntN(100); {
		case x < 30:
			k = append(cp(h.pfx[1+r.IntN(2)]), randTokens(r, r.IntN(3))...)
		case x < 50:
			k = append(perturb(r, h.pfx[1+r.IntN(2)]), randTokens(r, r.IntN(2))...)
		default:
			k = randTokens(r, r.IntN(4))
		}
		if len(k) == 0 {
			if !h.rawEmpty {
				k = randTokens(r, 1)
			} else if r.IntN(2) == 0 {
				k = nil
			}
		}
		return k
	}
	k = randTokens(r, r.IntN(3))
	if len(k) == 0 && r.IntN(2) == 0 {
		k = nil
	}
	return k
}

func (h *hist) existing(v int) []string {
	m := viewOf(h.model, h.pfx[v])
	ks := make([]string, 0, len(m))
	for k := range m {
		ks = append(ks, k)
	}
	sort.Strings(ks)
	return ks
}

func (h *hist) genBound(v int) []byte {
	b := h.genBound0(v)
	if h.rawEmpty && len(b) == 0 {
		return nil // see runHistory: no empty non-nil bounds in these histories
	}
	return b
}

func (h *hist) genBound0(v int) []byte {
	r := h.rng
	switch x := r.IntN(100); {
	case x < 20:
		return nil
	case x < 27:
		if h.rawEmpty {
			return nil
		}
		return []byte{}
	case x < 68:
		ks := h.existing(v)
		if len(ks) == 0 {
			break
		}
		k := []byte(ks[r.IntN(len(ks))])
		switch r.IntN(6) {
		case 0, 1, 2:
			return k
		case 3:
			return append(cp(k), 0x00)
		case 4:
			if len(k) > 0 {
				q := cp(k)
				q[len(q)-1]--
				return append(q, 0xFF)
			}
		case 5:
			if len(k) > 0 {
				q := cp(k)
				q[len(q)-1]++
				return q
			}
		}
		return k
	}
	k := h.genKey(v)
	if len(k) == 0 {
		if h.rawEmpty {
			return nil
		}
		k = []byte{}
	}
	return k
}

func (h *hist) genVal() []byte {
	switch h.rng.IntN(12) {
	case 0:
		return nil
	case 1:
		return []byte{}
	}
	h.valCtr++
	return []byte(fmt.Sprintf("v%d", h.valCtr))
}

// ---------------------------------------------------------------------------
// comparisons (one backend)

// cmpGet reads key through rd and compares with want; probes aliasing.
func (h *hist) cmpGet(t *target, rd reader, site string, cls string, key []byte, want string, present bool) {
	if t.dead {
		return
	}
	var got []byte
	var has bool
	var e1, e2 error
	pv := vf.Try(func() {
		got, e1 = rd.Get(cp(key))
		has, e2 = rd.Has(cp(key))
	})
	h.count("cmp_get", 1)
	if pv != nil {
		h.mism(t, "panic:get:"+site+":"+t.name+cls, "Get/Has(%s) panicked: %v", showB(key), pv)
		return
	}
	if e1 != nil || e2 != nil {
		h.mism(t, "error:get:"+site+":"+t.name+cls, "Get/Has(%s) error: %v %v", showB(key), e1, e2)
		return
	}
	ev := ""
	if present && want == "" {
		ev = ":empty-value"
	}
	if present != (got != nil) || (present && string(got) != want) {
		h.mism(t, "get-mismatch:"+site+":"+t.name+ev+cls, "Get(%s) = %s, model %s", showB(key), showGot(got), showWant(want, present))
		return
	}
	if has != present {
		h.mism(t, "has-mismatch:"+site+":"+t.name+ev+cls, "Has(%s) = %v, model %v", showB(key), has, present)
		return
	}
	// aliasing probe: scribble over the returned slice, read again
	if len(got) > 0 {
		flip(got)
		var again []byte
		var againS string
		pv := vf.Try(func() { again, e1 = rd.Get(cp(key)); againS = string(again) })
		flip(got) // undo (restores the DB if the slice was aliased)
		h.count("alias_probe_get", 1)
		if pv != nil || e1 != nil {
			h.mism(t, "error:get:"+site+":"+t.name+cls, "second Get(%s): %v %v", showB(key), pv, e1)
			return
		}
		if againS != want {
			h.soft(t, "alias:get:"+aliasSite(site)+t.name, "Get(%s) returned a slice aliased to internal state: after the caller modified it a second Get returns %x, model %x", showB(key), againS, want)
		}
	}
}

// aliasSite: aliasing is a property of the backend's DB or Snapshot type, not
// of the wrapper it was reached through.
func aliasSite(site string) string {
	if strings.Contains(site, "snapshot") {
		return "snapshot:"
	}
	return ""
}

func showGot(b []byte) string {
	if b == nil {
		return "<absent>"
	}
	return fmt.Sprintf("%x", b)
}

func showWant(v string, present bool) string {
	if !present {
		return "<absent>"
	}
	return fmt.Sprintf("%x", v)
}

// cmpIter opens an iterator on rd and compares it with the model view m.
func (h *hist) cmpIter(t *target, rd reader, site string, cls string, m map[string]string, start, end []byte, rev bool, stopAfter int) {
	if t.dead {
		return
	}
	exp := expectRange(m, start, end, rev)
	dname := "fwd"
	if rev {
		dname = "rev"
	}
	dom := fmt.Sprintf("%s[%s,%s)", dname, showB(start), showB(end))
	ks := ":" + dname + ":" + site + ":" + t.name + cls
	var failKey, failMsg string
	var softs [][2]string
	pv := vf.Try(func() {
		var it dbm.Iterator
		var err error
		if rev {
			it, err = rd.ReverseIterator(cp(start), cp(end))
		} else {
			it, err = rd.Iterator(cp(start), cp(end))
		}
		if err != nil {
			failKey, failMsg = "iter-open-error"+ks, fmt.Sprintf("opening iterator %s: %v", dom, err)
			return
		}
		defer it.Close()
		ds, de := it.Domain()
		if !bytes.Equal(ds, start) || !bytes.Equal(de, end) {
			failKey, failMsg = "iter-domain"+ks, fmt.Sprintf("iterator %s Domain() = [%s,%s)", dom, showB(ds), showB(de))
			return
		}
		i := 0
		for ; it.Valid(); i++ {
			if stopAfter >= 0 && i >= stopAfter {
				return
			}
			k, v := it.Key(), it.Value()
			if i >= len(exp) {
				failKey, failMsg = "iter-extra"+ks, fmt.Sprintf("iterator %s yields extra element #%d %x=%x; model has %d", dom, i, k, v, len(exp))
				return
			}
			e := exp[i]
			if string(k) != e.k {
				failKey, failMsg = "iter-key"+ks, fmt.Sprintf("iterator %s element #%d key %x, model %x", dom, i, k, e.k)
				return
			}
			if v == nil && e.v == "" {
				// The contract promises non-nil only for Get ("nil iff the key
				// does not exist"); an iterator yielding nil for an empty value
				// is the same ordered-map content. Counted, not a violation.
				h.count("iter_value_nil_for_empty_value_"+t.name, 1)
			}
			if string(v) != e.v {
				ev := ""
				if e.v == "" {
					ev = ":empty-value"
				}
				failKey, failMsg = "iter-value"+ev+ks, fmt.Sprintf("iterator %s element #%d key %x value %s, model %x", dom, i, k, showB(v), e.v)
				return
			}
			// aliasing probe: Key()/Value() are documented as copies safe for modification
			flip(k)
			flip(v)
			k2, v2 := string(it.Key()), string(it.Value())
			flip(k)
			flip(v)
			h.count("alias_probe_iter", 1)
			if k2 != e.k {
				softs = append(softs, [2]string{"alias:iter-key:" + aliasSite(site) + t.name, fmt.Sprintf("iterator %s: after modifying the slice returned by Key() the iterator reports key %x, model %x", dom, k2, e.k)})
			}
			if v2 != e.v {
				softs = append(softs, [2]string{"alias:iter-value:" + aliasSite(site) + t.name, fmt.Sprintf("iterator %s: after modifying the slice returned by Value() for key %x the iterator reports value %x, model %x", dom, e.k, v2, e.v)})
			}
			h.count("cmp_iter_elements", 1)
			it.Next()
		}
		if i < len(exp) {
			failKey, failMsg = "iter-missing"+ks, fmt.Sprintf("iterator %s ended after %d elements; model has %d, next %x", dom, i, len(exp), exp[i].k)
			return
		}
		if it.Valid() {
			failKey, failMsg = "iter-valid-again"+ks, fmt.Sprintf("iterator %s became valid again after being invalid", dom)
			return
		}
		if err := it.Error(); err != nil {
			failKey, failMsg = "iter-error"+ks, fmt.Sprintf("iterator %s Error() = %v", dom, err)
		}
	})
	if rev {
		h.count("cmp_iter_rev", 1)
	} else {
		h.count("cmp_iter_fwd", 1)
	}
	for _, s := range softs[:min(len(softs), 1)] {
		h.soft(t, s[0], "%s", s[1])
	}
	if pv != nil {
		h.mism(t, "panic:iter"+ks, "iterator %s panicked: %v", dom, pv)
		return
	}
	if failKey != "" {
		// Two input classes get one backend-independent / bound-independent key
		// each, because the cause is (PrefixDB) or is not (an error on opening)
		// a function of the finer classification.
		emptyBound := (start != nil && len(start) == 0) || (end != nil && len(end) == 0)
		switch {
		case strings.HasPrefix(failKey, "iter-open-error") && emptyBound:
			failKey = "iter-open-error:" + t.name + ":empty-non-nil-bound"
		case strings.HasPrefix(failKey, "iter-missing:rev:prefixdb") && strings.Contains(cls, ":prefix-ends-ff:nil-end"):
			failKey = "iter-missing:rev:prefixdb:prefix-ends-ff:nil-end"
		}
		h.mism(t, failKey, "%s", failMsg)
		return
	}
	if len(exp) > 0 && stopAfter < 0 {
		eq := false
		if start != nil {
			if _, ok := m[string(start)]; ok {
				eq = true
			}
		}
		if end != nil {
			if _, ok := m[string(end)]; ok {
				eq = true
			}
		}
		if eq && rev {
			t.revEq = true
		} else if eq {
			t.fwdEq = true
		}
	}
}

// verifyAll: full content of the backend equals the model (raw and both prefix views).
func (h *hist) verifyAll(t *target, full bool) {
	for v := 0; v < 3 && !t.dead; v++ {
		if v > 0 && h.rng.IntN(2) == 0 {
			continue
		}
		db := h.view(t, v)
		m := viewOf(h.model, h.pfx[v])
		cls := h.class(v, nil, nil, true)
		h.cmpIter(t, db, h.viewName(v), cls, m, nil, nil, false, -1)
		h.cmpIter(t, db, h.viewName(v), cls, m, nil, nil, true, -1)
	}
	ks := make([]string, 0, len(h.universe))
	for k := range h.universe {
		ks = append(ks, k)
	}
	sort.Strings(ks)
	for _, k := range ks {
		if k == "" && !h.rawEmpty {
			continue
		}
		if !full && len(ks) > 12 && h.rng.IntN(len(ks)) >= 12 {
			continue // intermediate verifications sample the point reads
		}
		want, ok := h.model[k]
		h.cmpGet(t, t.db, "raw", h.class(0, nil, nil, false), []byte(k), want, ok)
	}
}

// ---------------------------------------------------------------------------
// operations (applied to every backend)

func (h *hist) live() []*target {
	var out []*target
	for _, t := range h.bs.targets {
		if !t.dead {
			out = append(out, t)
		}
	}
	return out
}

func nn(b []byte) string { return string(b) } // nil and empty are the same key/value

func (h *hist) opSet(v int, key, val []byte, sync bool) {
	h.logf("%s set%s %s=%s", h.viewTag(v), syncTag(sync), showB(key), showB(val))
	rk := rawKey(h.pfx[v], key)
	h.universe[rk] = struct{}{}
	for _, t := range h.live() {
		var err error
		pv := vf.Try(func() {
			if sync {
				err = h.view(t, v).SetSync(cp(key), cp(val))
			} else {
				err = h.view(t, v).Set(cp(key), cp(val))
			}
		})
		if pv != nil || err != nil {
			h.fail(t, "error:set:"+h.viewName(v)+":"+t.name+h.class(v, nil, nil, false), "Set(%s,%s): panic=%v err=%v", showB(key), showB(val), pv, err)
		}
	}
	h.model[rk] = nn(val)
	h.count("op_set", 1)
	if key == nil {
		h.count("op_set_nil_key", 1)
	} else if len(key) == 0 {
		h.count("op_set_empty_key", 1)
	}
	if val == nil {
		h.count("op_set_nil_value", 1)
	} else if len(val) == 0 {
		h.count("op_set_empty_value", 1)
	}
}

func syncTag(s bool) string {
	if s {
		return "sync"
	}
	return ""
}

func (h *hist) viewTag(v int) string {
	if v == 0 {
		return "raw"
	}
	return fmt.Sprintf("prefix%d(%x)", v, h.pfx[v])
}

func (h *hist) opDelete(v int, key []byte, sync bool) {
	h.logf("%s delete%s %s", h.viewTag(v), syncTag(sync), showB(key))
	rk := rawKey(h.pfx[v], key)
	h.universe[rk] = struct{}{}
	for _, t := range h.live() {
		var err error
		pv := vf.Try(func() {
			if sync {
				err = h.view(t, v).DeleteSync(cp(key))
			} else {
				err = h.view(t, v).Delete(cp(key))
			}
		})
		if pv != nil || err != nil {
			h.fail(t, "error:delete:"+h.viewName(v)+":"+t.name+h.class(v, nil, nil, false), "Delete(%s): panic=%v err=%v", showB(key), pv, err)
		}
	}
	if _, ok := h.model[rk]; ok {
		h.count("op_delete_existing", 1)
	}
	delete(h.model, rk)
	h.count("op_delete", 1)
}

func (h *hist) pickKey(v int, pExisting int) []byte {
	if ks := h.existing(v); len(ks) > 0 && h.rng.IntN(100) < pExisting {
		k := ks[h.rng.IntN(len(ks))]
		if k == "" && v == 0 && !h.rawEmpty {
			return h.genKey(v)
		}
		return []byte(k)
	}
	return h.genKey(v)
}

func (h *hist) opGet(v int, key []byte) {
	h.logf("%s get %s", h.viewTag(v), showB(key))
	rk := rawKey(h.pfx[v], key)
	h.universe[rk] = struct{}{}
	want, ok := h.model[rk]
	for _, t := range h.live() {
		h.cmpGet(t, h.view(t, v), h.viewName(v), h.class(v, nil, nil, false), key, want, ok)
	}
}

func (h *hist) opIter(v int, start, end []byte, rev bool, stop int) {
	h.logf("%s iter rev=%v [%s,%s) stop=%d", h.viewTag(v), rev, showB(start), showB(end), stop)
	m := viewOf(h.model, h.pfx[v])
	if start == nil {
		h.count("bound_start_nil", 1)
	} else if len(start) == 0 {
		h.count("bound_start_empty", 1)
	} else if _, ok := m[string(start)]; ok {
		h.count("bound_start_eq_key", 1)
	}
	if end == nil {
		h.count("bound_end_nil", 1)
	} else if len(end) == 0 {
		h.count("bound_end_empty", 1)
	} else if _, ok := m[string(end)]; ok {
		h.count("bound_end_eq_key", 1)
	}
	if start != nil && end != nil && bytes.Compare(start, end) >= 0 {
		h.count("bound_start_ge_end", 1)
	}
	cls := h.class(v, start, end, true)
	for _, t := range h.live() {
		h.cmpIter(t, h.view(t, v), h.viewName(v), cls, m, start, end, rev, stop)
	}
}

type bop struct {
	del bool
	k   []byte
	v   []byte
}

func (h *hist) opBatch(v int) {
	r := h.rng
	n := r.IntN(6)
	var ops []bop
	for i := 0; i < n; i++ {
		if r.IntN(3) == 0 {
			ops = append(ops, bop{del: true, k: h.pickKey(v, 60)})
		} else {
			ops = append(ops, bop{k: h.pickKey(v, 30), v: h.genVal()})
		}
	}
	mode := r.IntN(4) // 0 Write, 1 WriteSync, 2,3 discard
	if r.IntN(3) == 0 {
		mode = 2
	}
	sized := r.IntN(2) == 0
	var sb strings.Builder
	for _, o := range ops {
		if o.del {
			fmt.Fprintf(&sb, " del %s;", showB(o.k))
		} else {
			fmt.Fprintf(&sb, " set %s=%s;", showB(o.k), showB(o.v))
		}
		h.universe[rawKey(h.pfx[v], o.k)] = struct{}{}
	}
	h.logf("%s batch(sized=%v mode=%d):%s", h.viewTag(v), sized, mode, sb.String())
	cls := h.class(v, nil, nil, false)
	for _, t := range h.live() {
		var err error
		stage := ""
		pv := vf.Try(func() {
			db := h.view(t, v)
			var b dbm.Batch
			if sized {
				// >= pebble's 12-byte batch header: pebble v1.1.5 panics in
				// Batch.Reset (on Close) for a never-used batch pre-sized below
				// that when the batch did not come from its sync.Pool, which
				// would make this check's outcome depend on pool/GC state.
				b = db.NewBatchWithSize(64)
			} else {
				b = db.NewBatch()
			}
			for _, o := range ops {
				if o.del {
					err = b.Delete(cp(o.k))
				} else {
					err = b.Set(cp(o.k), cp(o.v))
				}
				if err != nil {
					stage = "stage"
					return
				}
			}
			// staged operations must not be visible before Write
			if len(ops) > 0 {
				o := ops[len(ops)-1]
				want, ok := h.model[rawKey(h.pfx[v], o.k)]
				if !(v == 0 && len(o.k) == 0 && !h.rawEmpty) {
					h.cmpGet(t, db, h.viewName(v)+"-staged-batch", cls, o.k, want, ok)
				}
			}
			switch mode {
			case 0:
				stage = "write"
				err = b.Write()
			case 1:
				stage = "writesync"
				err = b.WriteSync()
			}
			if err != nil {
				return
			}
			if err = b.Close(); err != nil {
				stage = "close"
				return
			}
			if err = b.Close(); err != nil { // documented idempotent
				stage = "close-again"
			}
		})
		if pv != nil || err != nil {
			k := "error:batch:" + h.viewName(v) + ":" + t.name + cls
			h.fail(t, k, "batch (%d ops, presized=%v) %s: panic=%v err=%v", len(ops), sized, stage, pv, err)
		}
		if mode < 2 && len(ops) > 0 {
			t.batchW = true
		} else if len(ops) > 0 {
			t.batchD = true
		}
	}
	if mode < 2 {
		for _, o := range ops {
			rk := rawKey(h.pfx[v], o.k)
			if o.del {
				delete(h.model, rk)
			} else {
				h.model[rk] = nn(o.v)
			}
		}
		h.count("op_batch_written", 1)
	} else {
		h.count("op_batch_discarded", 1)
	}
	// every touched key now has the model's value (written) or its old one (discarded)
	for _, t := range h.live() {
		for _, o := range ops {
			if v == 0 && len(o.k) == 0 && !h.rawEmpty {
				continue
			}
			want, ok := h.model[rawKey(h.pfx[v], o.k)]
			h.cmpGet(t, h.view(t, v), h.viewName(v)+"-after-batch", cls, o.k, want, ok)
		}
	}
}

// opSnapshot: snapshot, later writes, the snapshot keeps the old state.
func (h *hist) opSnapshot() {
	type snapT struct {
		t    *target
		snap dbm.Snapshot
	}
	var snaps []snapT
	h.logf("snapshot")
	for _, t := range h.live() {
		var s dbm.Snapshot
		var err error
		pv := vf.Try(func() { s, err = t.db.NewSnapshot() })
		if pv != nil {
			h.fail(t, "panic:new-snapshot:"+t.name, "NewSnapshot panicked: %v", pv)
			continue
		}
		if err != nil {
			h.count("snapshot_unsupported_"+t.name, 1)
			continue
		}
		h.count("snapshot_taken_"+t.name, 1)
		snaps = append(snaps, snapT{t, s})
	}
	// PrefixDB reports snapshots as unsupported
	if ts := h.live(); len(ts) > 0 {
		if _, err := h.view(ts[0], 1).NewSnapshot(); err != nil {
			h.count("snapshot_unsupported_prefixdb", 1)
		}
	}
	frozen := make(map[string]string, len(h.model))
	for k, v := range h.model {
		frozen[k] = v
	}
	// later writes
	for n := 1 + h.rng.IntN(4); n > 0; n-- {
		v := h.rng.IntN(3)
		switch h.rng.IntN(3) {
		case 0:
			h.opSet(v, h.pickKey(v, 50), h.genVal(), false)
		case 1:
			h.opDelete(v, h.pickKey(v, 80), false)
		case 2:
			h.opBatch(v)
		}
	}
	changed := len(frozen) != len(h.model)
	for k, v := range h.model {
		if fv, ok := frozen[k]; !ok || fv != v {
			changed = true
		}
	}
	h.logf("read snapshot (changed since=%v)", changed)
	for _, sn := range snaps {
		t := sn.t
		if changed {
			h.count("snapshot_read_after_changes", 1)
		}
		sdb := dbm.NewSnapshotDB(sn.snap)
		readers := []struct {
			site string
			rd   reader
			v    int
		}{{"snapshot", sn.snap, 0}, {"snapshotdb", sdb, 0}, {"prefixdb-over-snapshotdb", dbm.NewPrefixDB(sdb, cp(h.pfx[1])), 1}}
		for _, rr := range readers {
			m := viewOf(frozen, h.pfx[rr.v])
			cls := h.class(rr.v, nil, nil, false)
			icls := h.class(rr.v, nil, nil, true)
			h.cmpIter(t, rr.rd, rr.site, icls, m, nil, nil, false, -1)
			h.cmpIter(t, rr.rd, rr.site, icls, m, nil, nil, true, -1)
			s, e := h.genBound(rr.v), h.genBound(rr.v)
			h.cmpIter(t, rr.rd, rr.site, h.class(rr.v, s, e, true), m, s, e, h.rng.IntN(2) == 0, -1)
			ks := make([]string, 0, len(h.universe))
			for k := range h.universe {
				ks = append(ks, k)
			}
			sort.Strings(ks)
			for _, k := range ks {
				if !strings.HasPrefix(k, string(h.pfx[rr.v])) {
					continue
				}
				rel := k[len(h.pfx[rr.v]):]
				if rr.v == 0 && rel == "" && !h.rawEmpty {
					continue
				}
				if len(ks) > 8 && h.rng.IntN(len(ks)) >= 8 {
					continue
				}
				want, ok := frozen[k]
				h.cmpGet(t, rr.rd, rr.site, cls, []byte(rel), want, ok)
			}
		}
		// SnapshotDB is read-only: writes panic (documented)
		if pv := vf.Try(func() { sdb.Set([]byte("x"), []byte("y")) }); pv == nil {
			h.mism(t, "nopanic:snapshotdb-set:"+t.name, "SnapshotDB.Set did not panic")
		}
		if pv := vf.Try(func() { sdb.Delete([]byte("x")) }); pv == nil {
			h.mism(t, "nopanic:snapshotdb-delete:"+t.name, "SnapshotDB.Delete did not panic")
		}
		h.count("expected_panic_snapshotdb_write", 2)
		if err := sn.snap.Close(); err != nil {
			h.fail(t, "error:snapshot-close:"+t.name, "snapshot Close: %v", err)
		}
	}
	h.count("op_snapshot", 1)
}

func (h *hist) wipe() {
	for _, t := range h.bs.targets {
		t.dead, t.fwdEq, t.revEq, t.batchW, t.batchD = false, false, false, false, false
		t.seen = map[string]bool{}
		if t.name == "memdb" {
			t.db = memdb.NewMemDB()
			continue
		}
		var keys [][]byte
		it, err := t.db.Iterator(nil, nil)
		if err != nil {
			panic(fmt.Sprintf("wipe %s: %v", t.name, err))
		}
		for ; it.Valid(); it.Next() {
			keys = append(keys, it.Key())
		}
		it.Close()
		if len(keys) == 0 {
			continue
		}
		b := t.db.NewBatch()
		for _, k := range keys {
			b.Delete(k)
		}
		if err := b.Write(); err != nil {
			panic(fmt.Sprintf("wipe %s: %v", t.name, err))
		}
		b.Close()
	}
}

func (h *hist) step() {
	r := h.rng
	v := 0
	if r.IntN(100) < 45 {
		v = 1 + r.IntN(2)
	}
	switch x := r.IntN(100); {
	case x < 22:
		h.opSet(v, h.pickKey(v, 25), h.genVal(), r.IntN(8) == 0)
	case x < 32:
		h.opDelete(v, h.pickKey(v, 70), r.IntN(8) == 0)
	case x < 44:
		h.opGet(v, h.pickKey(v, 55))
	case x < 74:
		stop := -1
		if r.IntN(8) == 0 {
			stop = r.IntN(3)
		}
		h.opIter(v, h.genBound(v), h.genBound(v), r.IntN(2) == 0, stop)
	case x < 86:
		h.opBatch(v)
	case x < 93:
		h.opSnapshot()
	default:
		h.logf("verify all")
		for _, t := range h.live() {
			h.verifyAll(t, false)
		}
	}
}

var prefixChoices = [][]byte{{'a'}, {'a', 0xFF}, {0xFF}, {0xFF, 0xFF}, {'b'}, {'a', 0x00}, {0x00}, {0xFE, 0xFF}, {0x01, 'a'}, []byte("nil")}

func runHistory(c *vf.Ctx, bs *bset, i int, rng *rand.Rand, nops int) {
	h := &hist{c: c, rng: rng, id: fmt.Sprintf("history/%d", i), bs: bs, model: map[string]string{},
		universe: map[string]struct{}{}, cnt: map[string]int{}}
	h.pfx[1] = prefixChoices[rng.IntN(len(prefixChoices))]
	switch rng.IntN(3) {
	case 0:
		h.pfx[2] = append(cp(h.pfx[1]), 0xFF) // nested, ends in FF
	case 1:
		h.pfx[2] = perturb(rng, h.pfx[1])
		if len(h.pfx[2]) == 0 {
			h.pfx[2] = []byte{0xFF}
		}
	default:
		h.pfx[2] = prefixChoices[rng.IntN(len(prefixChoices))]
	}
	h.rawEmpty = i%4 == 3
	if h.rawEmpty {
		// Histories that use the empty raw key stay clear of the other special
		// input classes (prefixes ending in FF, empty non-nil bounds) so that a
		// violation there is attributable to the empty key alone.
		plain := [][]byte{{'a'}, {'b'}, {'a', 0x00}, {0x00}, {0x01, 'a'}, []byte("nil")}
		h.pfx[1] = plain[rng.IntN(len(plain))]
		h.pfx[2] = plain[rng.IntN(len(plain))]
	}
	h.logf("prefix1=%x prefix2=%x rawEmptyKey=%v", h.pfx[1], h.pfx[2], h.rawEmpty)
	h.wipe()
	for _, t := range h.live() { // the wiped backend must be empty
		h.cmpIter(t, t.db, "raw-after-wipe", "", h.model, nil, nil, false, -1)
	}
	for k := 0; k < nops && len(h.live()) > 0; k++ {
		h.step()
	}
	h.logf("final verify")
	for _, t := range h.live() {
		h.verifyAll(t, true)
	}
	for k, v := range h.cnt {
		c.Count(k, v)
	}
	if h.rawEmpty {
		c.Count("histories_using_raw_empty_key", 1)
	}
	opsKey := strings.Join(h.log, "\n")
	for _, t := range bs.targets {
		c.Case(t.name+"\n"+opsKey, t.fwdEq && t.revEq && t.batchW && t.batchD)
		c.Count("histories_"+t.name, 1)
		if !t.dead {
			c.Count("histories_completed_"+t.name, 1)
		}
	}
	if i < 2 {
		ops := h.log
		if len(ops) > 20 {
			ops = ops[:20]
		}
		c.Sample(map[string]any{"case": h.id, "first_ops": ops})
	}
}

func run(c *vf.Ctx) {
	nhist := c.N(600, 7000)
	nops := c.N(40, 80)
	workers := 8
	c.Set("histories", nhist)
	c.Set("ops_per_history", nops)
	c.Set("cgo_backends", cgoBackends)
	pool := make(chan *bset, workers)
	var sets []*bset
	for s := 0; s < workers; s++ {
		bs := openSet(c, s)
		sets = append(sets, bs)
		pool <- bs
	}
	var names []string
	for _, t := range sets[0].targets {
		names = append(names, t.name)
	}
	c.Set("backends", names)
	c.Parallel(nhist, workers, 1000, func(i int, rng *rand.Rand) {
		bs := <-pool
		defer func() { pool <- bs }()
		runHistory(c, bs, i, rng, nops)
	})
	for _, bs := range sets {
		bs.close()
	}
	if len(vkSeen) > 0 {
		c.Set("reported_keys_incl_known", vkSeen)
	}
	c.Assume("a Go map with sorted keys is the reference ordered map")
	c.Assume("backends are re-used between histories after deleting every key; a history's outcome is assumed independent of the deleted residue")
	for _, n := range append([]string{"memdb"}, append(append([]string{}, diskBackends...), cgoBackends...)...) {
		c.RequireCounter("histories_"+n, int64(nhist))
	}
	for _, n := range []string{"op_set", "op_set_nil_key", "op_set_empty_key", "op_set_nil_value", "op_set_empty_value", "op_delete_existing",
		"op_batch_written", "op_batch_discarded", "op_snapshot", "snapshot_taken_memdb", "snapshot_taken_pebbledb", "snapshot_read_after_changes",
		"snapshot_unsupported_prefixdb", "cmp_get", "cmp_iter_fwd", "cmp_iter_rev", "alias_probe_get", "alias_probe_iter",
		"bound_start_nil", "bound_start_empty", "bound_start_eq_key", "bound_end_nil", "bound_end_empty", "bound_end_eq_key", "bound_start_ge_end",
		"histories_using_raw_empty_key"} {
		c.RequireCounter(n, 1)
	}
	c.RequireCounter("cmp_iter_elements", int64(c.N(100000, 1000000)))
}
