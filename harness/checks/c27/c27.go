// Package c27: a crash during commit never leaves a torn state.
//
// Fault enumeration: the app runs on a recording DB; after EVERY physical write
// unit performed during InitChain and the block commits of a generated history
// the durable image is snapshotted. For every image (= every prefix of the
// write sequence) the app is reopened on a copy of it and must come up at
// exactly the previous or the new committed version, with the reference app
// hash and the reference committed contents for that height, and re-executing
// the remaining blocks must reproduce the reference hashes and results.
package c27

import (
	"bytes"
	"fmt"
	"math/rand/v2"
	"time"

	abci "github.com/gnolang/gno/tm2/pkg/bft/abci/types"
	bft "github.com/gnolang/gno/tm2/pkg/bft/types"
	dbm "github.com/gnolang/gno/tm2/pkg/db"
	"github.com/gnolang/gno/tm2/pkg/db/memdb"
	storetypes "github.com/gnolang/gno/tm2/pkg/store/types"

	"verifharness/internal/audit"
	"verifharness/internal/chainsim"
	"verifharness/internal/dbx"
	"verifharness/internal/hist"
	"verifharness/internal/vf"
)

func init() {
	vf.Register(&vf.Check{
		ID:    "C27",
		Level: "fault_enumeration",
		Rule: "case = (scenario, crash point k) where k ranges over ALL physical write units (single writes; a batch Write/WriteSync is one unit) observed during InitChain and every block commit of a generated history " +
			"under a pruning strategy; each case reopens the app on the image after unit k; non-trivial = the image differs from the previous one; distinct by (scenario seed, strategy, k)",
		Run: run,
	})
}

type refBlock struct {
	height int64
	time   time.Time
	txs    [][]byte
	hash   []byte
	res    string
}

type image struct {
	unit   dbx.Unit
	db     dbm.DB
	during string // "initchain" | "block <h>" | "construct"
}

func run(c *vf.Ctx) {
	type scen struct {
		seed  uint64
		prune storetypes.PruneStrategy
	}
	var scens []scen
	n := c.N(1, 4)
	for i := 0; i < n; i++ {
		scens = append(scens, scen{uint64(c.Seed)*100 + uint64(i), storetypes.PruneEverythingStrategy})
		scens = append(scens, scen{uint64(c.Seed)*100 + uint64(i) + 50, storetypes.PruneSyncableStrategy})
	}
	c.Parallel(len(scens), 4, 1200, func(i int, rng *rand.Rand) {
		runScenario(c, scens[i].seed, scens[i].prune, rng)
	})
	c.Assume("crash model: the process stops between two physical write units; a batch is applied atomically by the backend (intra-batch tearing is the backend's contract, see C29)")
	c.Assume("images are memdb copies taken right after each unit; no OS/page-cache reordering is modelled")
	c.RequireCounter("crash_points", 8)
	c.RequireCounter("reopen_at_previous_version", 0)
	c.RequireCounter("reopen_at_new_version", 5)
	c.RequireCounter("blocks_reexecuted_after_crash", 10)
}

func runScenario(c *vf.Ctx, seed uint64, prune storetypes.PruneStrategy, rng *rand.Rand) {
	blocks := c.N(6, 30)
	h := hist.GenP(rng, seed, blocks, 4, hist.Profile{})
	rec := dbx.NewRecorder(emptyDB())
	var images []image
	phase := "construct"
	rec.OnUnit = func(u dbx.Unit) {
		images = append(images, image{unit: u, db: dbx.CloneMem(rec.DB), during: phase})
	}
	images = append(images, image{unit: dbx.Unit{Index: -1, Kind: "none"}, db: dbx.CloneMem(rec.DB), during: "before-anything"})
	ch, err := chainsim.New(chainsim.Options{DB: rec, Prune: prune})
	if err != nil {
		panic(err)
	}
	phase = "initchain"
	gst := hist.Genesis(ch)
	r := ch.InitChain(gst)
	if r.Error != nil {
		panic(r.Error)
	}
	refInit := chainsim.InitKey(r)
	var ref []refBlock
	states := map[int64]*audit.State{}
	play := func(txs []hist.TxSpec) {
		ch.BeginBlock()
		phase = fmt.Sprintf("block %d", ch.Height)
		var raw [][]byte
		for _, t := range txs {
			tr := hist.PlayTx(ch, t)
			if chainsim.AntePassed(tr) {
				ch.Acc(t.Signer).Seq++
			}
			raw = append(raw, tr.TxBytes)
		}
		bt := ch.EndBlockCommit()
		ref = append(ref, refBlock{height: bt.Height, time: ch.Time, txs: raw, hash: bt.AppHash, res: chainsim.TraceKey([]*chainsim.BlockTrace{bt})})
		st, _, err := audit.Snapshot(rec.DB, 0)
		if err != nil {
			panic(err)
		}
		states[bt.Height] = st
	}
	play(nil)
	for _, blk := range h.Blocks {
		play(blk)
	}
	ch.App.Close()
	units := rec.Units()
	kinds := map[string]int{}
	for _, u := range units {
		kinds[u.Kind]++
	}
	for k, n := range kinds {
		c.Count("write_units:"+k, n)
	}
	c.Count("reference_blocks", len(ref))
	if seed%100 == 0 {
		c.Sample(map[string]any{"scenario_seed": seed, "prune": string(prune), "write_units": units, "blocks": len(ref)})
	}
	// ---- every prefix
	var prev dbm.DB
	for _, im := range images {
		changed := prev == nil || !sameDB(prev, im.db)
		prev = im.db
		c.Case(fmt.Sprintf("%d/%s/%d", seed, prune, im.unit.Index), changed)
		c.Count("crash_points", 1)
		checkImage(c, seed, prune, im, gst, refInit, ref, states)
	}
}

func emptyDB() dbm.DB { return memdb.NewMemDB() }

func checkImage(c *vf.Ctx, seed uint64, prune storetypes.PruneStrategy, im image, gst any, refInit string, ref []refBlock, states map[int64]*audit.State) {
	w := map[string]any{"scenario_seed": seed, "prune": string(prune), "crash_after_unit": im.unit, "during": im.during}
	db := dbx.CloneMem(im.db)
	var ch *chainsim.Chain
	if pv := vf.Try(func() {
		var err error
		ch, err = chainsim.New(chainsim.Options{DB: db, Prune: prune})
		if err != nil {
			panic(err)
		}
	}); pv != nil {
		c.Violation("reopen-fails", w, "seed %d %s: app cannot be reopened on the image after unit %d (%s, during %s): %v", seed, prune, im.unit.Index, im.unit.Kind, im.during, pv)
		return
	}
	defer ch.App.Close()
	hgt := ch.App.LastBlockHeight()
	if hgt == 0 {
		c.Count("reopen_before_genesis_persisted", 1)
		r := ch.InitChain(gst)
		if r.Error != nil || chainsim.InitKey(r) != refInit {
			c.Violation("initchain-after-crash-differs", w, "seed %d %s: InitChain on the image after unit %d gives different genesis results", seed, prune, im.unit.Index)
			return
		}
	} else {
		// committed version must be one the reference run produced, with the same hash and contents
		var rb *refBlock
		for i := range ref {
			if ref[i].height == hgt {
				rb = &ref[i]
			}
		}
		if rb == nil {
			c.Violation("unknown-version-after-crash", w, "seed %d %s: reopened at height %d which the reference run never committed", seed, prune, hgt)
			return
		}
		if !bytes.Equal(ch.App.LastCommitID().Hash, rb.hash) {
			c.Violation("app-hash-after-crash-differs", w, "seed %d %s unit %d: reopened at height %d with app hash %x, reference %x", seed, prune, im.unit.Index, hgt, ch.App.LastCommitID().Hash, rb.hash)
			return
		}
		st, _, err := audit.Snapshot(db, 0)
		if err != nil {
			c.Violation("audit-fails-after-crash", w, "seed %d %s unit %d: committed state at height %d cannot be read: %v", seed, prune, im.unit.Index, hgt, err)
			return
		}
		want := states[hgt]
		if d := audit.DiffKV(want.Main, st.Main); !d.Empty() {
			c.Violation("torn-main-store", w, "seed %d %s unit %d (during %s): main store at height %d differs from the reference in %d keys, e.g. %q", seed, prune, im.unit.Index, im.during, hgt, len(d.All()), first(d.All()))
			return
		}
		if d := audit.DiffKV(want.Base, st.Base); !d.Empty() {
			c.Violation("torn-base-store", w, "seed %d %s unit %d (during %s): GnoVM base store at height %d differs from the reference in %d keys, e.g. %q — base-store writes of a later block became durable without its commit, or were lost",
				seed, prune, im.unit.Index, im.during, hgt, len(d.All()), first(d.All()))
			return
		}
		c.Count("reopen_at_new_version", 1)
	}
	// continue the chain: remaining reference blocks must reproduce hashes and results
	ch.Height = hgt
	for _, rb := range ref {
		if rb.height <= hgt {
			continue
		}
		ch.App.BeginBlock(abci.RequestBeginBlock{Header: &bft.Header{ChainID: chainsim.ChainID, Height: rb.height, Time: rb.time}})
		bt := &chainsim.BlockTrace{Height: rb.height}
		for i, tx := range rb.txs {
			res := ch.App.DeliverTx(abci.RequestDeliverTx{Tx: tx})
			bt.Txs = append(bt.Txs, &chainsim.TxResult{Height: rb.height, Index: i, Res: res})
		}
		ch.App.EndBlock(abci.RequestEndBlock{Height: rb.height})
		cr := ch.App.Commit()
		bt.AppHash = cr.Data
		c.Count("blocks_reexecuted_after_crash", 1)
		if got := chainsim.TraceKey([]*chainsim.BlockTrace{bt}); got != rb.res {
			c.Violation("continuation-after-crash-differs", w, "seed %d %s: after a crash at unit %d (during %s, reopened at height %d) block %d gives a different app hash or results than the run that did not crash",
				seed, prune, im.unit.Index, im.during, hgt, rb.height)
			return
		}
	}
}

func first(a []string) string {
	if len(a) == 0 {
		return ""
	}
	return a[0]
}

func sameDB(a, b dbm.DB) bool {
	ia, _ := a.Iterator(nil, nil)
	ib, _ := b.Iterator(nil, nil)
	defer ia.Close()
	defer ib.Close()
	for ia.Valid() && ib.Valid() {
		if !bytes.Equal(ia.Key(), ib.Key()) || !bytes.Equal(ia.Value(), ib.Value()) {
			return false
		}
		ia.Next()
		ib.Next()
	}
	return !ia.Valid() && !ib.Valid()
}
