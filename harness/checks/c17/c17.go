// Package c17: the block gas price follows its adjustment rule.
//
// The real GasPriceKeeper is driven through its exported entry point
// UpdateGasPrice (what auth.EndBlocker calls) on an in-memory multistore, with a
// context carrying the chosen block gas meter reading, consensus params
// (Block.MaxGas) and auth params — exactly what gnoland's EndBlocker wires.
//
// Oracle (math/big restatement of the property statement, nothing from the
// formula's magnitude): with target = floor(MaxGas*TargetGasRatio/100),
//   - pricing disabled (no/zero stored price, or ratio 0): price unchanged;
//   - used == target: unchanged;
//   - used >  target: new >= old+1;
//   - used <  target: init <= new <= max(old-1, init)   (down by >= 1, floored at the initial price);
//   - never a panic.
//
// Domain: exactly the values the validators accept — auth.Params.Validate()
// and bft/types.ValidateConsensusParams() must both return nil for the case,
// the stored price is a non-negative int64 amount, the gas reading is a
// non-negative int64 a block gas meter can report.
package c17

import (
	"fmt"
	"math"
	"math/big"
	"math/rand/v2"
	"runtime"
	"sort"
	"strings"
	"sync"

	abci "github.com/gnolang/gno/tm2/pkg/bft/abci/types"
	bft "github.com/gnolang/gno/tm2/pkg/bft/types"
	"github.com/gnolang/gno/tm2/pkg/db/memdb"
	"github.com/gnolang/gno/tm2/pkg/log"
	"github.com/gnolang/gno/tm2/pkg/sdk"
	"github.com/gnolang/gno/tm2/pkg/sdk/auth"
	"github.com/gnolang/gno/tm2/pkg/std"
	"github.com/gnolang/gno/tm2/pkg/store"
	"github.com/gnolang/gno/tm2/pkg/store/dbadapter"

	"verifharness/internal/vf"
)

func init() {
	vf.Register(&vf.Check{
		ID:    "C17",
		Level: "exploration",
		Rule: "cases = (stored last price, initial price, gas used, Block.MaxGas, TargetGasRatio, GasPricesChangeCompressor) accepted by auth.Params.Validate and ValidateConsensusParams: " +
			"full cross product of a boundary grid (prices 0,1,2,9..11,100,2^31,2^62,MaxInt64-1,MaxInt64; MaxGas -1,0,1,2,99..101,10^7,3*10^9,2^62,MaxInt64; ratio 0,1,50,70,99,100; compressor 1,2,10,MaxInt64; " +
			"gas used 0,1,target-1,target,target+1,MaxGas/2,MaxGas-1,MaxGas and past-limit readings) plus seeded random points; " +
			"non-trivial = pricing enabled and gas used differs from the target (a move is mandated); distinct by the full parameter tuple",
		Run: run,
	})
}

type tcase struct {
	stored bool  // a price record exists in the store
	last   int64 // stored price amount
	init   int64 // params.InitialGasPrice.Price.Amount
	used   int64 // block gas meter reading
	maxGas int64 // consensus Block.MaxGas
	ratio  int64 // params.TargetGasRatio
	comp   int64 // params.GasPricesChangeCompressor
}

func (t tcase) key() string {
	return fmt.Sprintf("%v/%d/%d/%d/%d/%d/%d", t.stored, t.last, t.init, t.used, t.maxGas, t.ratio, t.comp)
}

func (t tcase) lit() map[string]any {
	return map[string]any{
		"stored_price": t.stored, "last_price": fmt.Sprint(t.last), "initial_price": fmt.Sprint(t.init), "gas_used": fmt.Sprint(t.used),
		"block_max_gas": fmt.Sprint(t.maxGas), "target_gas_ratio": t.ratio, "gas_price_change_compressor": fmt.Sprint(t.comp),
		"price_denom": priceDenom, "price_gas_units": priceGas,
	}
}

const (
	priceDenom = "ugnot"
	priceGas   = int64(1000)
)

// ---------------------------------------------------------------------------
// environment: one in-memory store + keeper per worker

type env struct {
	ctx sdk.Context
	gk  auth.GasPriceKeeper
	key store.StoreKey
}

var envPool = sync.Pool{New: func() any {
	db := memdb.NewMemDB()
	key := store.NewStoreKey("authCapKey")
	ms := store.NewCommitMultiStore(db)
	ms.MountStoreWithDB(key, dbadapter.StoreConstructor, db)
	if err := ms.LoadLatestVersion(); err != nil {
		panic(err)
	}
	ctx := sdk.NewContext(sdk.RunTxModeDeliver, ms, &bft.Header{Height: 1, ChainID: "c17"}, log.NewNoopLogger())
	return &env{ctx: ctx, gk: auth.NewGasPriceKeeper(key), key: key}
}}

func baseParams() auth.Params {
	p := auth.DefaultParams()
	return p
}

func consensus(maxGas int64) abci.ConsensusParams {
	cp := bft.DefaultConsensusParams()
	cp.Block.MaxGas = maxGas
	return cp
}

// ---------------------------------------------------------------------------
// oracle

var big100 = big.NewInt(100)

// target = floor(maxGas*ratio/100); maxGas >= -1, 0 <= ratio <= 100.
func target(maxGas, ratio int64) *big.Int {
	if maxGas < 0 { // -1: floor(-ratio/100) = -1 for ratio in 1..100, 0 for ratio 0
		if ratio == 0 {
			return big.NewInt(0)
		}
		return big.NewInt(-1)
	}
	t := new(big.Int).Mul(big.NewInt(maxGas), big.NewInt(ratio))
	return t.Quo(t, big100) // non-negative: truncation is floor
}

type verdict struct {
	kind   string   // disabled | at-target | above | below
	lo, hi *big.Int // inclusive bounds on the new amount; hi nil = unbounded
}

func expect(t tcase) verdict {
	old := big.NewInt(t.last)
	if !t.stored || t.last == 0 || t.ratio == 0 {
		if !t.stored {
			old = big.NewInt(0)
		}
		return verdict{"disabled", old, old}
	}
	tg := target(t.maxGas, t.ratio)
	used := big.NewInt(t.used)
	switch used.Cmp(tg) {
	case 0:
		return verdict{"at-target", old, old}
	case 1:
		return verdict{"above", new(big.Int).Add(old, big.NewInt(1)), nil}
	}
	ini := big.NewInt(t.init)
	hi := new(big.Int).Sub(old, big.NewInt(1))
	if hi.Cmp(ini) < 0 {
		hi = ini
	}
	return verdict{"below", ini, hi}
}

// ---------------------------------------------------------------------------

var (
	vkMu sync.Mutex
	vk   = map[string]int{}
)

func viol(c *vf.Ctx, key string, w any, format string, args ...any) {
	vkMu.Lock()
	vk[key]++
	n := vk[key]
	vkMu.Unlock()
	// vf keeps at most 25 witnesses per run over all keys: pass on the first three per key so that
	// every key gets its replay files; the full per-key counts go to the log and the evidence counters.
	if n <= 3 {
		c.Violation(key, w, format, args...)
	}
}

func evalCase(c *vf.Ctx, t tcase) {
	params := baseParams()
	params.TargetGasRatio = t.ratio
	params.GasPricesChangeCompressor = t.comp
	params.InitialGasPrice = std.GasPrice{Gas: priceGas, Price: std.Coin{Denom: priceDenom, Amount: t.init}}
	cp := consensus(t.maxGas)
	if params.Validate() != nil || bft.ValidateConsensusParams(cp) != nil || t.last < 0 || t.used < 0 {
		c.Count("inputs_rejected_by_validators", 1)
		return
	}
	c.Count("inputs_accepted_by_validators", 1)

	e := envPool.Get().(*env)
	defer envPool.Put(e)
	ctx := e.ctx
	// state before the block ends
	ctx.Store(e.key).Delete(nil, []byte(auth.GasPriceKey))
	if t.stored {
		e.gk.SetGasPrice(ctx, std.GasPrice{Gas: priceGas, Price: std.Coin{Denom: priceDenom, Amount: t.last}})
	}
	var meter store.GasMeter
	if t.maxGas > 0 { // what BaseApp.BeginBlock installs
		m := store.NewGasMeter(t.maxGas)
		vf.Try(func() { m.ConsumeGas(t.used, "c17") }) // past-limit readings: the meter records the charge, then panics
		meter = m
	} else {
		m := store.NewInfiniteGasMeter()
		m.ConsumeGas(t.used, "c17")
		meter = m
	}
	if meter.GasConsumed() != t.used {
		panic(fmt.Sprintf("harness: meter reads %d, wanted %d", meter.GasConsumed(), t.used))
	}
	ctx = ctx.WithBlockGasMeter(meter).WithConsensusParams(&cp).WithValue(auth.AuthParamsContextKey{}, params)

	before := e.gk.LastGasPrice(ctx)
	v := expect(t)
	pv := vf.Try(func() { auth.EndBlocker(ctx, e.gk) })
	c.Case(t.key(), v.kind == "above" || v.kind == "below")
	c.Count("kind_"+v.kind, 1)
	w := t.lit()
	w["target_gas"] = target(t.maxGas, t.ratio).String()
	w["expected"] = v.kind
	if pv != nil {
		msg := fmt.Sprint(pv)
		w["panic"] = msg
		key := "panic:other"
		switch {
		case strings.Contains(msg, "out of int64 range"):
			key = "panic:price-overflow"
		case strings.Contains(msg, "division by zero"):
			key = "panic:zero-target-div"
		}
		viol(c, key, w, "UpdateGasPrice panicked (%v): last=%d init=%d used=%d maxGas=%d ratio=%d compressor=%d target=%s", pv, t.last, t.init, t.used, t.maxGas, t.ratio, t.comp, w["target_gas"])
		return
	}
	after := e.gk.LastGasPrice(ctx)
	w["new_price"] = fmt.Sprint(after.Price.Amount)
	got := big.NewInt(after.Price.Amount)
	if got.Cmp(v.lo) < 0 || (v.hi != nil && got.Cmp(v.hi) > 0) {
		his := "+inf"
		if v.hi != nil {
			his = v.hi.String()
		}
		viol(c, "rule:"+v.kind, w, "%s: price %d -> %d, rule requires [%s, %s] (init=%d used=%d maxGas=%d ratio=%d compressor=%d target=%s)",
			v.kind, t.last, after.Price.Amount, v.lo, his, t.init, t.used, t.maxGas, t.ratio, t.comp, w["target_gas"])
		return
	}
	switch v.kind {
	case "disabled", "at-target":
		if after != before {
			viol(c, "rule:"+v.kind+"-record-changed", w, "%s: price record changed %+v -> %+v", v.kind, before, after)
		}
	default:
		// (a zero amount is stored as the empty coin string, which drops the denom: representation, not price)
		if after.Gas != priceGas || (after.Price.Amount != 0 && after.Price.Denom != priceDenom) {
			viol(c, "rule:unit-changed", w, "%s: price unit changed %+v -> %+v", v.kind, before, after)
		}
		if v.kind == "below" && v.lo.Cmp(v.hi) == 0 {
			c.Count("below_floor_binding", 1)
		}
		d := new(big.Int).Sub(got, big.NewInt(t.last))
		if d.CmpAbs(big.NewInt(1)) > 0 {
			c.Count("moved_more_than_one_unit", 1)
		}
	}
}

// ---------------------------------------------------------------------------
// workload

func uniq(vs []int64) []int64 {
	sort.Slice(vs, func(i, j int) bool { return vs[i] < vs[j] })
	out := vs[:0]
	for i, v := range vs {
		if i == 0 || v != vs[i-1] {
			out = append(out, v)
		}
	}
	return out
}

func usedCandidates(maxGas, ratio int64) []int64 {
	tg := target(maxGas, ratio)
	var out []int64
	add := func(b *big.Int) {
		if b.Sign() >= 0 && b.IsInt64() {
			out = append(out, b.Int64())
		}
	}
	add(big.NewInt(0))
	add(big.NewInt(1))
	for d := int64(-1); d <= 1; d++ {
		add(new(big.Int).Add(tg, big.NewInt(d)))
	}
	if maxGas > 0 {
		add(big.NewInt(maxGas / 2))
		add(big.NewInt(maxGas - 1))
		add(big.NewInt(maxGas))
		// past-limit readings (the meter keeps the charge that crossed the limit)
		add(new(big.Int).Add(big.NewInt(maxGas), big.NewInt(1)))
		add(new(big.Int).Mul(big.NewInt(maxGas), big.NewInt(2)))
	} else {
		add(big.NewInt(1 << 31))
		add(big.NewInt(1 << 62))
		add(big.NewInt(math.MaxInt64))
	}
	return uniq(out)
}

func grid(quick bool) []tcase {
	prices := []int64{0, 1, 2, 9, 10, 11, 100, 1 << 31, 1 << 62, math.MaxInt64 - 1, math.MaxInt64}
	inits := []int64{0, 1, 10, 1 << 31, math.MaxInt64}
	maxGases := []int64{-1, 0, 1, 2, 99, 100, 101, 10_000_000, 3_000_000_000, 1 << 62, math.MaxInt64}
	ratios := []int64{0, 1, 50, 70, 99, 100}
	comps := []int64{1, 2, 10, math.MaxInt64}
	if !quick {
		prices = append(prices, 3, 99, 101, 1000, 1<<32, 1<<53, math.MaxInt64/100, math.MaxInt64/100+1, math.MaxInt64/2, math.MaxInt64/2+1)
		inits = append(inits, 2, 9, 11, 100, 1<<62, math.MaxInt64-1)
		maxGases = append(maxGases, 3, 50, 199, 200, 1000, 1<<31, 1<<32, math.MaxInt64/100, math.MaxInt64/100+1, math.MaxInt64-1)
		ratios = append(ratios, 2, 33, 69, 71)
		comps = append(comps, 3, 100, 1<<31, 1<<62)
	}
	var out []tcase
	for _, mg := range maxGases {
		for _, r := range ratios {
			us := usedCandidates(mg, r)
			for _, p := range prices {
				for _, in := range inits {
					for _, cmp := range comps {
						for _, u := range us {
							out = append(out, tcase{true, p, in, u, mg, r, cmp})
						}
					}
				}
			}
			for _, u := range us { // no price record at all
				out = append(out, tcase{false, 0, 1, u, mg, r, 10})
			}
		}
	}
	// inputs the validators must refuse (kept out of the oracle; evidence that the domain filter is live)
	out = append(out,
		tcase{true, 10, 1, 5, 100, 101, 10}, tcase{true, 10, 1, 5, 100, -1, 10}, tcase{true, 10, 1, 5, 100, 50, 0},
		tcase{true, 10, 1, 5, 100, 50, -3}, tcase{true, 10, 1, 5, -2, 50, 10}, tcase{true, 10, -1, 5, 100, 50, 10})
	return out
}

func pick(r *rand.Rand, vs ...int64) int64 { return vs[r.IntN(len(vs))] }

func randCase(r *rand.Rand) tcase {
	var t tcase
	t.stored = r.IntN(50) != 0
	switch r.IntN(6) {
	case 0:
		t.last = int64(r.IntN(20))
	case 1:
		t.last = int64(r.IntN(100000))
	case 2:
		t.last = int64(r.Uint64() >> 1)
	case 3:
		t.last = math.MaxInt64 - int64(r.IntN(1000))
	case 4:
		t.last = int64(r.Uint64()>>1) >> r.UintN(62)
	default:
		t.last = math.MaxInt64/100 + int64(r.IntN(2001)) - 1000
	}
	switch r.IntN(5) {
	case 0:
		t.init = 0
	case 1:
		t.init = t.last
	case 2:
		t.init = int64(r.Uint64()>>1) >> r.UintN(62)
	case 3:
		if t.last > 0 {
			t.init = r.Int64N(t.last)
		}
	default:
		t.init = t.last - int64(r.IntN(5)) + 2
		if t.init < 0 {
			t.init = 0
		}
	}
	switch r.IntN(8) {
	case 0:
		t.maxGas = pick(r, -1, 0)
	case 1:
		t.maxGas = int64(r.IntN(300))
	case 2:
		t.maxGas = int64(r.Uint64()>>1) >> r.UintN(62)
	case 3:
		t.maxGas = math.MaxInt64 - int64(r.IntN(100))
	default:
		t.maxGas = 1_000_000 + r.Int64N(10_000_000_000)
	}
	switch r.IntN(4) {
	case 0:
		t.ratio = pick(r, 0, 1, 99, 100, 70)
	default:
		t.ratio = int64(r.IntN(101))
	}
	switch r.IntN(4) {
	case 0:
		t.comp = 1
	case 1:
		t.comp = int64(1 + r.IntN(20))
	case 2:
		t.comp = 1 + int64(r.Uint64()>>1)>>r.UintN(62)
	default:
		t.comp = 10
	}
	tg := target(t.maxGas, t.ratio)
	limit := int64(math.MaxInt64)
	if t.maxGas > 0 {
		limit = t.maxGas
	}
	switch r.IntN(5) {
	case 0: // around the target
		u := new(big.Int).Add(tg, big.NewInt(int64(r.IntN(7))-3))
		if u.Sign() >= 0 && u.IsInt64() {
			t.used = u.Int64()
		}
	case 1:
		t.used = 0
	case 2:
		t.used = limit - int64(r.IntN(3))
		if t.used < 0 {
			t.used = 0
		}
	default:
		t.used = r.Int64N(limit) + r.Int64N(2)
	}
	return t
}

func run(c *vf.Ctx) {
	workers := runtime.GOMAXPROCS(0)
	g := grid(c.Quick())
	c.Logf("grid: %d cases", len(g))
	c.Set("grid_cases", len(g))
	const chunk = 2000
	c.Parallel((len(g)+chunk-1)/chunk, workers, 1000, func(i int, _ *rand.Rand) {
		for k := i * chunk; k < (i+1)*chunk && k < len(g); k++ {
			evalCase(c, g[k])
		}
	})
	nr := c.N(200000, 2500000)
	c.Parallel(nr/chunk, workers, 100000, func(_ int, r *rand.Rand) {
		for k := 0; k < chunk; k++ {
			evalCase(c, randCase(r))
		}
	})

	vkMu.Lock()
	keys := make([]string, 0, len(vk))
	for k := range vk {
		keys = append(keys, k)
	}
	sort.Strings(keys)
	for _, k := range keys {
		c.Logf("violation key %-30s x%d", k, vk[k])
		c.Count("reported:"+k, vk[k])
	}
	vkMu.Unlock()

	c.Sample(tcase{true, 100, 1, 7500, 10000, 50, 1}.lit())
	c.Sample(tcase{true, 100, 1, 2500, 10000, 50, 1}.lit())
	c.Sample(tcase{true, 10, 10, 0, 3_000_000_000, 70, 10}.lit())
	c.Sample(tcase{true, math.MaxInt64 - 1, 1, 51, 100, 50, math.MaxInt64}.lit())
	c.Sample(tcase{false, 0, 1, 5, 100, 50, 10}.lit())
	c.Assume("math/big is the arithmetic reference; the target is the integer floor(MaxGas*TargetGasRatio/100) as documented on calcBlockGasPrice")
	c.Assume("the domain is what auth.Params.Validate and bft/types.ValidateConsensusParams accept; a block gas meter may read past its limit (the charge that crosses the limit is recorded before the out-of-gas panic)")
	c.Assume("the keeper is driven through auth.EndBlocker/UpdateGasPrice with the context gnoland's EndBlocker builds (auth params under AuthParamsContextKey, consensus params, block gas meter); the store is an in-memory dbadapter store")

	c.RequireCounter("kind_above", 1000)
	c.RequireCounter("kind_below", 1000)
	c.RequireCounter("kind_at-target", 100)
	c.RequireCounter("kind_disabled", 100)
	c.RequireCounter("below_floor_binding", 100)
	c.RequireCounter("moved_more_than_one_unit", 100)
	c.RequireCounter("inputs_rejected_by_validators", 6)
}
