package c26

import (
	"errors"
	"sync/atomic"

	dbm "github.com/gnolang/gno/tm2/pkg/db"
)

// hookDB is a thin DB wrapper used on the READER side and, for the
// op-ordered batch emulation, on the WRITER side.
//
//   - onGet (reader side) fires before a point Get; the concurrency workload
//     uses it to let a commit land exactly between two reads of one load (the
//     load–stamp window of the ADR).
//   - writes counts every physical write attempted through this handle: a
//     read-only (query-path) handle must end with writes == 0.
//   - slow (writer side): batches are applied op by op, in staging order, with
//     onOp called before each op. dbm.Batch documents that a batch "may or may
//     not be written atomically depending on the backend"; the tree stages
//     values and index entries first, then nodes, root, orphan list and the
//     stamp last, so a live reader may observe any prefix of that order.
//   - noSnap: NewSnapshot fails, which is what goleveldb/boltdb/lmdb/mdbx do;
//     rootmulti then falls back to an ImmutableDB over the live DB.
type hookDB struct {
	dbm.DB
	onGet func(key []byte)
	// onBatch(phase, key): phase "before" / "after" around a whole batch write,
	// and (slow only) "op" before each single op with its key.
	onBatch func(phase string, key []byte)
	slow    bool
	noSnap  bool
	writes  atomic.Int64
}

func (h *hookDB) Get(k []byte) ([]byte, error) {
	if h.onGet != nil {
		h.onGet(k)
	}
	return h.DB.Get(k)
}

func (h *hookDB) Set(k, v []byte) error     { h.writes.Add(1); return h.DB.Set(k, v) }
func (h *hookDB) SetSync(k, v []byte) error { h.writes.Add(1); return h.DB.SetSync(k, v) }
func (h *hookDB) Delete(k []byte) error     { h.writes.Add(1); return h.DB.Delete(k) }
func (h *hookDB) DeleteSync(k []byte) error { h.writes.Add(1); return h.DB.DeleteSync(k) }
func (h *hookDB) Close() error              { return nil }

func (h *hookDB) NewSnapshot() (dbm.Snapshot, error) {
	if h.noSnap {
		return nil, errors.New("snapshots not supported")
	}
	return h.DB.NewSnapshot()
}

func (h *hookDB) NewBatch() dbm.Batch            { return &hookBatch{h: h, b: h.DB.NewBatch()} }
func (h *hookDB) NewBatchWithSize(int) dbm.Batch { return h.NewBatch() }

type bop struct {
	k, v []byte
	del  bool
}

type hookBatch struct {
	h   *hookDB
	b   dbm.Batch
	ops []bop
}

func (b *hookBatch) Set(k, v []byte) error {
	if b.h.slow {
		b.ops = append(b.ops, bop{k: k, v: v})
		return nil
	}
	return b.b.Set(k, v)
}

func (b *hookBatch) Delete(k []byte) error {
	if b.h.slow {
		b.ops = append(b.ops, bop{k: k, del: true})
		return nil
	}
	return b.b.Delete(k)
}

func (b *hookBatch) write(sync bool) error {
	b.h.writes.Add(1)
	hook := b.h.onBatch
	if hook != nil {
		hook("before", nil)
		defer hook("after", nil)
	}
	if !b.h.slow {
		if sync {
			return b.b.WriteSync()
		}
		return b.b.Write()
	}
	ops := b.ops
	b.ops = nil
	for _, o := range ops {
		if hook != nil {
			hook("op", o.k)
		}
		var err error
		if o.del {
			err = b.h.DB.Delete(o.k)
		} else {
			err = b.h.DB.Set(o.k, o.v)
		}
		if err != nil {
			return err
		}
	}
	return nil
}

func (b *hookBatch) Write() error     { return b.write(false) }
func (b *hookBatch) WriteSync() error { return b.write(true) }
func (b *hookBatch) Close() error     { b.ops = nil; return b.b.Close() }
func (b *hookBatch) GetByteSize() (int, error) {
	if b.h.slow {
		n := 0
		for _, o := range b.ops {
			n += len(o.k) + len(o.v)
		}
		return n, nil
	}
	return b.b.GetByteSize()
}
