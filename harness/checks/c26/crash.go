package c26

import (
	"bytes"
	"math/rand/v2"

	dbm "github.com/gnolang/gno/tm2/pkg/db"
	"github.com/gnolang/gno/tm2/pkg/db/memdb"

	"verifharness/internal/dbx"
	"verifharness/internal/vf"
)

type image struct {
	unit      dbx.Unit
	step      int
	committed int64 // versions committed (SaveVersion returned) before the op of this unit finished
	liveFast  bool
	db        *memdb.MemDB
}

// runCrash: workload 2. The history runs once over a recording DB; the durable
// image after EVERY physical write unit (each SaveVersion commit, each chunk of
// a prune, both commits of an index rebuild) is kept. Each image is what a kill
// right after that unit leaves on disk. Every image is then opened with the
// fast index enabled (query path, restart, restart + one more commit) and all
// reads are compared with the model of the versions that image holds and with
// the fast-index-off walk of the same image.
func runCrash(c *vf.Ctx, st *stats, id int, rng *rand.Rand, p genParams) {
	h := genHistory(rng, id, p)
	vm := h.model()
	base := memdb.NewMemDB()
	rec := dbx.NewRecorder(base)
	e := &exec{c: c, st: st, h: h, vm: vm, rng: rng, tag: "crash", base: base, db: rec, noSweep: true}
	var images []image
	rec.OnUnit = func(u dbx.Unit) {
		images = append(images, image{unit: u, step: e.step, committed: e.latest, liveFast: e.fast, db: dbx.CloneMem(base)})
	}
	if !e.run() {
		return
	}
	st.counts["histories:crash"]++
	st.counts["crash_units"] += int64(len(images))
	for i := range images {
		im := &images[i]
		st.counts["crash_unit_kind:"+im.unit.Kind]++
		if im.unit.Ops > 1 {
			st.counts["crash_units_multi_op"]++
		}
		where := func() map[string]any {
			return map[string]any{
				"history": h.ID, "params": h.Params, "cache": h.Cache, "flush_threshold": h.Flush, "start_fast": h.StartFast,
				"crash_after_unit": im.unit.Index, "unit_kind": im.unit.Kind, "unit_ops": im.unit.Ops, "units_total": len(images),
				"during_step": im.step, "during_op": h.opString(h.Ops[min(im.step, len(h.Ops)-1)]), "live_fast": im.liveFast,
				"committed_before_op": im.committed, "ops": h.log(im.step), "keys": keyList(h.Keys),
			}
		}
		sw := &sweeper{c: c, st: st, h: h, vm: vm, tag: "crash", where: where, rng: rng, db: im.db}
		if !sw.buildAuth(im.committed, im.committed+1, false) {
			continue
		}
		st.counts["crash_images_checked"]++
		if sw.latest == im.committed+1 {
			st.counts["crash_images_new_version_durable"]++
		}
		sw.readonlySurfaces()
		sw.restartSurfaces(true)
	}
	// cross-check of the recorder itself: a real Kill() after unit k leaves
	// exactly image k behind.
	if len(images) > 0 {
		k := rng.IntN(len(images))
		base2 := memdb.NewMemDB()
		rec2 := dbx.NewRecorder(base2)
		e2 := &exec{c: c, st: newStats(), h: h, vm: vm, rng: rand.New(rand.NewPCG(1, 2)), tag: "crash-kill", base: base2, db: rec2, noSweep: true, quiet: true}
		killed := false
		rec2.OnUnit = func(u dbx.Unit) {
			if u.Index == k {
				rec2.Kill()
				killed = true
			}
		}
		e2.onStep = func() {
			if killed {
				e2.failed = true // stop quietly: the process is dead
			}
		}
		vf.Try(func() { e2.run() })
		if !killed || !sameDB(base2, images[k].db) {
			c.Violation("harness:kill-image-differs", map[string]any{"history": h.ID, "k": k}, "history %d: the DB after Kill() at unit %d differs from image %d", h.ID, k, k)
		}
		st.counts["kill_crosschecks"]++
	}
}

func sameDB(a, b dbm.DB) bool {
	ia, _ := a.Iterator(nil, nil)
	ib, _ := b.Iterator(nil, nil)
	defer ia.Close()
	defer ib.Close()
	for ; ia.Valid() && ib.Valid(); ia.Next() {
		if !bytes.Equal(ia.Key(), ib.Key()) || !bytes.Equal(ia.Value(), ib.Value()) {
			return false
		}
		ib.Next()
	}
	return !ia.Valid() && !ib.Valid()
}
