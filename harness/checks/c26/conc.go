package c26

import (
	"bytes"
	"errors"
	"fmt"
	"math/rand/v2"
	"runtime"
	"sync"
	"sync/atomic"
	"time"

	abci "github.com/gnolang/gno/tm2/pkg/bft/abci/types"
	"github.com/gnolang/gno/tm2/pkg/bptree"
	dbm "github.com/gnolang/gno/tm2/pkg/db"
	"github.com/gnolang/gno/tm2/pkg/db/memdb"
	storebp "github.com/gnolang/gno/tm2/pkg/store/bptree"
	"github.com/gnolang/gno/tm2/pkg/store/rootmulti"
	stypes "github.com/gnolang/gno/tm2/pkg/store/types"

	"verifharness/internal/vf"
)

// Workload 3: a committing writer against query-path readers, under -race.
//
// The writer's history (sets / removes / saves, periodic prunes) is fixed by
// the seed; the per-version model is computed up front and shared read-only.
// Commits come in three kinds, drawn from the seed:
//   free    the writer just commits; readers free-run (natural interleavings)
//   parked  the writer stops at each point of the commit the ADR calls out
//           (session staged, before the batch lands, — with op-ordered batch
//           visibility — after the index entries / before the root record /
//           before the stamp, after the batch landed but before the in-memory
//           version bump, after SaveVersion returned) and waits there until
//           every reader has completed two further rounds
//   window  the writer waits with the session staged; a reader performs a
//           query-path load and, at its first DB read of a chosen class (stamp,
//           root record, node, index entry), lets the commit land and waits for
//           it, then goes on with that load: the commit falls exactly between
//           two reads of one load (the load–stamp window).
// A reader records (surface, version asked, key, value) and is judged against
// the model of the version asked.

const watchdog = 90 * time.Second

type concEnv struct {
	c   *vf.Ctx
	h   *history
	vm  *vmodel
	tag string
	cfg string

	committed atomic.Int64
	floor     atomic.Int64 // versions <= floor may be pruned at any moment
	stop      atomic.Bool
	dead      atomic.Bool // watchdog fired

	rounds []atomic.Int64

	win struct {
		armed atomic.Bool
		class byte
		goCh  chan struct{}
		done  chan struct{}
	}

	failed atomic.Bool
}

func (env *concEnv) where(extra map[string]any) map[string]any {
	w := map[string]any{"history": env.h.ID, "params": env.h.Params, "config": env.cfg, "committed_now": env.committed.Load(), "floor_now": env.floor.Load(),
		"keys": keyList(env.h.Keys), "ops": env.h.log(len(env.h.Ops))}
	for k, v := range extra {
		w[k] = v
	}
	return w
}

func (env *concEnv) violation(key string, extra map[string]any, format string, args ...any) {
	env.failed.Store(true)
	env.c.Violation(key, env.where(extra), "[%s] history %d (%s; %s): %s", env.tag, env.h.ID, env.h.Params, env.cfg, fmt.Sprintf(format, args...))
}

// park blocks the writer until every reader finished two more rounds (so at
// least one full round ran entirely inside the parked window).
func (env *concEnv) park(st *stats, point string) {
	if env.dead.Load() || env.failed.Load() {
		return
	}
	start := make([]int64, len(env.rounds))
	for i := range env.rounds {
		start[i] = env.rounds[i].Load()
	}
	t0 := time.Now()
	for i := range env.rounds {
		for env.rounds[i].Load() < start[i]+2 {
			if env.failed.Load() {
				return // readers stop after a violation
			}
			if time.Since(t0) > watchdog {
				env.dead.Store(true)
				env.c.Inconclusive(fmt.Sprintf("watchdog: readers made no progress while the writer was parked at %s (history %d)", point, env.h.ID))
				return
			}
			runtime.Gosched()
			time.Sleep(20 * time.Microsecond)
		}
	}
	st.counts["parks"]++
	st.counts["park:"+point]++
}

// reader-side result of one versioned read op
type readCtx struct {
	env  *concEnv
	st   *stats
	rng  *rand.Rand
	id   int
	l0   int64 // committed at op start
	note string
}

func (rc *readCtx) nontrivial(v int64, key []byte) (bool, string, int64) {
	a, aok := lookup(rc.env.vm.snaps[v], key)
	now := rc.env.committed.Load()
	if v < now {
		b, bok := lookup(rc.env.vm.snaps[now], key)
		if aok != bok || (aok && !bytes.Equal(a, b)) {
			return true, "old-version-read-differs-from-latest", now
		}
		return false, "", now
	}
	b, bok := lookup(rc.env.vm.snaps[v-1], key)
	if aok != bok || (aok && !bytes.Equal(a, b)) {
		return true, "newest-version-read-of-key-changed-in-that-commit", now
	}
	return false, "", now
}

func (rc *readCtx) check(surface string, v int64, key, got []byte) {
	env := rc.env
	rc.st.reads++
	rc.st.bySurf[surface]++
	if nt, why, now := rc.nontrivial(v, key); nt {
		rc.st.nt++
		rc.st.ntBySurf[surface]++
		rc.st.ntClass[why]++
		rc.st.distinct[fmt.Sprintf("%s|h%d|v%d|L%d|%x", env.tag, env.h.ID, v, now, key)] = struct{}{}
	}
	snap, known := env.vm.snaps[v]
	if !known {
		env.violation("phantom-version:"+surface, map[string]any{"surface": surface, "version": v}, "%s served version %d, which the writer never commits", surface, v)
		return
	}
	want, wantOK := lookup(snap, key)
	gotOK := got != nil
	if gotOK == wantOK && (!gotOK || bytes.Equal(got, want)) {
		return
	}
	sw := &sweeper{vm: env.vm}
	class := sw.classify(v, key, got, gotOK, wantOK)
	env.violation("stale-read:"+class+":"+surface,
		map[string]any{"surface": surface, "version": v, "committed_at_start": rc.l0, "key": vf.Hex(key), "got": valStr(got, gotOK), "model": valStr(want, wantOK), "class": class, "note": rc.note},
		"reader %d: %s served %s for key %x at version %d (committed at op start %d); model %s [%s] %s", rc.id, surface, valStr(got, gotOK), key, v, rc.l0, valStr(want, wantOK), class, rc.note)
}

// acceptable reports whether a failed / discarded read op is within contract:
// the version was not yet committed when the op started, or it may have been
// pruned while the op ran.
func (rc *readCtx) acceptable(v int64) bool {
	return v > rc.l0 || v <= rc.env.floor.Load()
}

func (rc *readCtx) opError(surface string, v int64, err any) {
	if rc.acceptable(v) {
		rc.st.counts["conc_tolerated_errors"]++
		return
	}
	rc.env.violation("conc-read-error:"+surface, map[string]any{"surface": surface, "version": v, "committed_at_start": rc.l0, "error": fmt.Sprint(err), "note": rc.note},
		"reader %d: %s at committed, unpruned version %d failed: %v %s", rc.id, surface, v, err, rc.note)
}

func (rc *readCtx) pickVersion() int64 {
	l0 := rc.l0
	fl := rc.env.floor.Load()
	var v int64
	switch r := rc.rng.IntN(10); {
	case r < 4:
		v = l0
	case r < 6:
		v = l0 - 1
	case r < 7:
		v = l0 + 1 // in flight (or about to be)
	default:
		if l0 > fl+1 {
			v = fl + 1 + rc.rng.Int64N(l0-fl)
		} else {
			v = l0
		}
	}
	if v <= fl {
		v = l0
	}
	if v < 1 {
		v = 1
	}
	return v
}

// armWindow installs the one-shot hook that lets the pending commit land at
// the first Get of the claimed key class. Returns a func that fires the window
// if the load never read such a key (so the writer is never left waiting).
func (rc *readCtx) armWindow(rdb *hookDB) (fin func()) {
	env := rc.env
	if !env.win.armed.CompareAndSwap(true, false) {
		return func() {}
	}
	class := env.win.class
	fired := false
	fire := func(how string) {
		if fired {
			return
		}
		fired = true
		env.win.goCh <- struct{}{}
		select {
		case <-env.win.done:
		case <-time.After(watchdog):
			env.dead.Store(true)
		}
		rc.st.counts["windows:"+how+":"+string(class)]++
	}
	rc.note = fmt.Sprintf("(window: a commit landed at this load's first read of a %q key)", string(class))
	rdb.onGet = func(key []byte) {
		if len(key) > 0 && key[0] == class {
			fire("hit")
		}
	}
	return func() { rdb.onGet = nil; fire("missed") }
}

// ---- tree-level scenario ----

type treeConc struct {
	env  *concEnv
	base *memdb.MemDB
	w    *bptree.MutableTree
}

func (tc *treeConc) readerOp(rc *readCtx) {
	env := tc.env
	rc.l0 = env.committed.Load()
	rc.note = ""
	if rc.l0 == 0 {
		return
	}
	v := rc.pickVersion()
	keys := env.h.Keys
	kind := rc.rng.IntN(6)
	switch kind {
	case 0, 1: // the documented concurrent surface of the SHARED live tree
		surf := "conc.shared.GetImmutable"
		var imm *bptree.ImmutableTree
		var err error
		if kind == 0 {
			imm, err = tc.w.GetImmutable(v)
		} else {
			surf = "conc.shared.GetImmutableUnregistered"
			imm, err = tc.w.GetImmutableUnregistered(v)
		}
		if err != nil {
			rc.opError(surf, v, err)
			return
		}
		type kv struct{ k, v []byte }
		var got []kv
		var rerr error
		for _, k := range keys {
			val, err := imm.Get(k)
			if err != nil {
				rerr = err
				break
			}
			got = append(got, kv{k, val})
		}
		imm.Close()
		if rerr != nil {
			rc.opError(surf, v, rerr)
			return
		}
		if kind == 1 && v <= env.floor.Load() {
			rc.st.counts["conc_discarded_pruned_under_reader"]++
			return
		}
		for _, g := range got {
			rc.check(surf, v, g.k, g.v)
		}
	case 2: // GetVersioned on the shared tree (nil for a missing version: only judged if v stayed retained)
		if v > rc.l0 {
			v = rc.l0
		}
		type kv struct{ k, v []byte }
		var got []kv
		for _, k := range keys {
			val, err := tc.w.GetVersioned(k, v)
			if err != nil {
				rc.opError("conc.shared.GetVersioned", v, err)
				return
			}
			got = append(got, kv{k, val})
		}
		if v <= env.floor.Load() {
			rc.st.counts["conc_discarded_pruned_under_reader"]++
			return
		}
		for _, g := range got {
			rc.check("conc.shared.GetVersioned", v, g.k, g.v)
		}
	case 3: // query path: fresh tree, LoadReadonly, GetImmutable
		rdb := &hookDB{DB: tc.base}
		fin := rc.armWindow(rdb)
		func() {
			defer fin()
			t := bptree.NewMutableTreeWithDB(rdb, 64, nop(), bptree.FastIndexOption(true))
			lv, err := t.LoadReadonly()
			if err != nil {
				rc.opError("conc.ro.LoadReadonly", rc.l0, err) // see the latest-view case below: tolerated only if l0 may have been pruned
				return
			}
			if lv < rc.l0 {
				rc.env.violation("readonly-load-failed:conc.ro.LoadReadonly", map[string]any{"loaded": lv, "committed": rc.l0}, "LoadReadonly loaded %d after %d was committed", lv, rc.l0)
				return
			}
			if v > lv {
				v = lv
			}
			imm, err := t.GetImmutable(v)
			if err != nil {
				rc.opError("conc.ro.GetImmutable", v, err)
				return
			}
			defer imm.Close()
			type kv struct{ k, v []byte }
			var got []kv
			for _, k := range keys {
				val, err := imm.Get(k)
				if err != nil {
					rc.opError("conc.ro.GetImmutable", v, err)
					return
				}
				got = append(got, kv{k, val})
			}
			if v <= env.floor.Load() {
				rc.st.counts["conc_discarded_pruned_under_reader"]++
				return
			}
			for _, g := range got {
				rc.check("conc.ro.GetImmutable", v, g.k, g.v)
			}
		}()
		if n := rdb.writes.Load(); n != 0 {
			env.violation("readonly-load-wrote", map[string]any{"writes": n, "surface": "conc.ro"}, "a LoadReadonly query-path load wrote %d times to the live DB", n)
		}
	default: // store layer immutable view (loadImmutableView)
		rdb := &hookDB{DB: tc.base}
		fin := rc.armWindow(rdb)
		latestView := kind == 5
		surf := "conc.store.imm.LoadVersion"
		if latestView {
			surf = "conc.store.imm.LoadLatestVersion"
		}
		p := vf.Try(func() {
			defer fin()
			st := storebp.FastStoreConstructor(rdb, stypes.StoreOptions{Immutable: true}).(*storebp.Store)
			var err error
			if latestView {
				err = st.LoadLatestVersion()
			} else {
				if v > rc.l0 {
					v = rc.l0
				}
				err = st.LoadVersion(v)
			}
			if err != nil {
				if latestView {
					// The load is not atomic: the latest version it discovered is >= l0. Only if
					// l0 itself may have been pruned meanwhile (a reader descheduled across
					// several commits) can the discovered version have vanished under it.
					rc.opError(surf, rc.l0, err)
				} else {
					rc.opError(surf, v, err)
				}
				return
			}
			rv := st.LastCommitID().Version
			if latestView {
				if rv < rc.l0 {
					env.violation("readonly-load-failed:"+surf, map[string]any{"loaded": rv, "committed": rc.l0}, "latest view is at %d after %d was committed", rv, rc.l0)
					return
				}
				v = rv
			} else if rv != v {
				env.violation("readonly-load-failed:"+surf, map[string]any{"loaded": rv, "asked": v}, "view reports version %d, asked %d", rv, v)
				return
			}
			type kv struct{ k, v []byte }
			var got []kv
			for _, k := range keys {
				got = append(got, kv{k, st.Get(nil, k)})
			}
			if v <= env.floor.Load() {
				rc.st.counts["conc_discarded_pruned_under_reader"]++
				return
			}
			for _, g := range got {
				rc.check(surf, v, g.k, g.v)
			}
		})
		if p != nil {
			rc.opError(surf, v, p)
		}
		if n := rdb.writes.Load(); n != 0 {
			env.violation("readonly-load-wrote", map[string]any{"writes": n, "surface": surf}, "an immutable store view load wrote %d times to the live DB", n)
		}
	}
}

type commitKind uint8

const (
	ckFree commitKind = iota
	ckParked
	ckWindow
)

func runReaders(env *concEnv, n int, baseRng func(i int) *rand.Rand, op func(rc *readCtx)) (*sync.WaitGroup, []*stats) {
	var wg sync.WaitGroup
	sts := make([]*stats, n)
	env.rounds = make([]atomic.Int64, n)
	for i := 0; i < n; i++ {
		sts[i] = newStats()
		rc := &readCtx{env: env, st: sts[i], rng: baseRng(i), id: i}
		wg.Add(1)
		go func(i int) {
			defer wg.Done()
			for !env.stop.Load() && !env.failed.Load() {
				op(rc)
				env.rounds[i].Add(1)
			}
			// keep counting rounds so a late park can never hang
			env.rounds[i].Add(1 << 40)
		}(i)
	}
	return &wg, sts
}

func windowWait(env *concEnv, st *stats, class byte, commit func()) {
	env.win.class = class
	env.win.armed.Store(true)
	t0 := time.Now()
	for {
		select {
		case <-env.win.goCh:
			commit()
			env.win.done <- struct{}{}
			st.counts["window_commits"]++
			return
		case <-time.After(50 * time.Millisecond):
		}
		if env.failed.Load() { // readers stop after a violation
			env.win.armed.Store(false)
			commit()
			return
		}
		if time.Since(t0) > watchdog {
			env.win.armed.Store(false)
			env.dead.Store(true)
			env.c.Inconclusive(fmt.Sprintf("watchdog: no reader took the window commit (history %d)", env.h.ID))
			commit()
			return
		}
	}
}

// runConcTree: tree-level concurrency scenario.
func runConcTree(c *vf.Ctx, st *stats, id int, rng *rand.Rand, slow bool, nReaders int, p genParams) {
	h := genHistory(rng, id, p)
	vm := h.model()
	env := &concEnv{c: c, h: h, vm: vm, tag: "conc-tree", cfg: fmt.Sprintf("slowbatch=%v readers=%d cache=%d", slow, nReaders, h.Cache)}
	env.win.goCh = make(chan struct{})
	env.win.done = make(chan struct{}, 1)
	base := memdb.NewMemDB()
	wdb := &hookDB{DB: base, slow: slow}
	w := bptree.NewMutableTreeWithDB(wdb, h.Cache, nop(), bptree.FastIndexOption(true), bptree.FlushThresholdOption(h.Flush))
	if _, err := w.Load(); err != nil {
		panic(err)
	}
	tc := &treeConc{env: env, base: base, w: w}

	// batch hook: only while a SaveVersion of a parked commit is in progress
	var inSave bool
	var lastClass byte
	wdb.onBatch = func(phase string, key []byte) {
		if !inSave {
			return
		}
		switch phase {
		case "before":
			lastClass = 0
			env.park(st, "batch-staged-nothing-durable")
		case "op":
			cl := key[0]
			if cl != lastClass {
				switch {
				case cl == bptree.PrefixNode && lastClass != 0:
					env.park(st, "index-entries-visible-nodes-not-yet")
				case cl == bptree.PrefixRoot:
					env.park(st, "nodes-visible-root-not-yet")
				case cl == bptree.PrefixMeta:
					env.park(st, "root-visible-stamp-not-yet")
				}
				lastClass = cl
			}
		case "after":
			env.park(st, "batch-durable-memory-not-bumped")
		}
	}

	wg, rsts := runReaders(env, nReaders, func(i int) *rand.Rand { return rand.New(rand.NewPCG(uint64(c.Seed)*1000003+uint64(id), uint64(i)+11)) }, tc.readerOp)

	wrng := rand.New(rand.NewPCG(uint64(c.Seed)*7919+uint64(id), 5))
	classes := []byte{bptree.PrefixMeta, bptree.PrefixRoot, bptree.PrefixNode, bptree.PrefixFast}
	var latest int64
	failed := false
	perr := vf.Try(func() {
		for i, o := range h.Ops {
			if env.failed.Load() || env.dead.Load() {
				break
			}
			k := h.Keys[o.Key]
			switch o.K {
			case oSet:
				if _, err := w.Set(k, o.Val); err != nil {
					panic(err)
				}
			case oRemove:
				if _, _, err := w.Remove(k); err != nil {
					panic(err)
				}
			case oSave:
				kind := ckFree
				switch r := wrng.IntN(10); {
				case r < 3:
					kind = ckParked
				case r < 6 && latest >= 1: // a window needs a reader op, and readers wait for the first version
					kind = ckWindow
				}
				commit := func() {
					_, v, err := w.SaveVersion()
					if err != nil || v != latest+1 {
						panic(fmt.Sprintf("writer SaveVersion -> %d, %v", v, err))
					}
					latest = v
					env.committed.Store(v)
				}
				switch kind {
				case ckFree:
					commit()
					st.counts["free_commits"]++
				case ckParked:
					env.park(st, "session-staged")
					inSave = true
					commit()
					inSave = false
					env.park(st, "commit-returned")
					st.counts["parked_commits"]++
				case ckWindow:
					windowWait(env, st, classes[wrng.IntN(len(classes))], commit)
				}
				// pruning: announce the floor first, then prune; a registered reader may block it
				if latest >= 8 && latest%3 == 0 {
					to := latest - 5
					env.floor.Store(to)
					if err := w.PruneVersionsTo(to); err != nil {
						if errors.Is(err, bptree.ErrActiveReaders) {
							st.counts["conc_prune_blocked_by_reader"]++
						} else {
							panic(fmt.Sprintf("writer PruneVersionsTo(%d): %v", to, err))
						}
					} else {
						st.counts["conc_prunes"]++
					}
				}
			default:
				panic(fmt.Sprintf("unexpected op %d in a plain history at %d", o.K, i))
			}
		}
	})
	env.stop.Store(true)
	// drain a reader possibly blocked in a window handshake
	go func() {
		for {
			select {
			case <-env.win.goCh:
				env.win.done <- struct{}{}
			case <-time.After(200 * time.Millisecond):
				return
			}
		}
	}()
	wg.Wait()
	if perr != nil {
		failed = true
		env.violation("panic:conc-writer", map[string]any{"panic": fmt.Sprint(perr)}, "writer failed: %v", perr)
	}
	for _, s := range rsts {
		s.flush(c)
	}
	st.counts["histories:conc-tree"]++
	if failed || env.failed.Load() || env.dead.Load() {
		return
	}
	// final audit of what the run left on disk (persisted poisoning shows here)
	sw := &sweeper{c: c, st: st, h: h, vm: vm, tag: "conc-tree-final", rng: rng, db: base,
		where: func() map[string]any { return env.where(nil) }}
	if sw.buildAuth(latest, latest, true) {
		sw.readonlySurfaces()
		sw.restartSurfaces(false)
	}
}

// ---- rootmulti scenario ----

type multiConc struct {
	env *concEnv
	ms  stypes.CommitMultiStore
	key stypes.StoreKey
	// keepRecent < 0: nothing is pruned
	keepRecent int64
}

func (mc *multiConc) readerOp(rc *readCtx) {
	env := mc.env
	rc.l0 = env.committed.Load()
	rc.note = ""
	if rc.l0 == 0 {
		return
	}
	v := rc.pickVersion()
	if v > rc.l0 && rc.rng.IntN(2) == 0 {
		v = rc.l0
	}
	keys := env.h.Keys
	if rc.rng.IntN(4) == 0 {
		surf := "conc.multi.QueryImmutable"
		q, ok := mc.ms.(stypes.ImmutableQueryer)
		if !ok {
			return
		}
		type kv struct{ k, v []byte }
		var got []kv
		p := vf.Try(func() {
			for _, k := range keys[:min(len(keys), 8)] {
				res, err := q.QueryImmutable(abci.RequestQuery{Path: "/main/key", Data: k, Height: v})
				if err != nil {
					panic(err)
				}
				if res.Error != nil || res.Log != "" {
					panic(fmt.Sprintf("error=%v log=%q", res.Error, res.Log))
				}
				if res.Height != v {
					panic(fmt.Sprintf("answered height %d", res.Height))
				}
				got = append(got, kv{k, res.Value})
			}
		})
		if p != nil {
			rc.opError(surf, v, p)
			return
		}
		if v <= env.floor.Load() {
			rc.st.counts["conc_discarded_pruned_under_reader"]++
			return
		}
		for _, g := range got {
			rc.check(surf, v, g.k, g.v)
		}
		return
	}
	surf := "conc.multi.ImmutableCacheWrap"
	type kv struct{ k, v []byte }
	var got []kv
	p := vf.Try(func() {
		cms, release, err := mc.ms.MultiImmutableCacheWrapWithVersion(v)
		if err != nil {
			panic(err)
		}
		defer release()
		s := cms.GetStore(mc.key)
		for _, k := range keys {
			got = append(got, kv{k, s.Get(nil, k)})
		}
	})
	if p != nil {
		rc.opError(surf, v, p)
		return
	}
	if v <= env.floor.Load() {
		rc.st.counts["conc_discarded_pruned_under_reader"]++
		return
	}
	for _, g := range got {
		rc.check(surf, v, g.k, g.v)
	}
}

// runConcMulti: the same through rootmulti (CollectingDB, one WriteSync per
// commit, query views over the frozen snapshot — or, when the backend has no
// snapshots, over an ImmutableDB on the live DB).
func runConcMulti(c *vf.Ctx, st *stats, id int, rng *rand.Rand, snap, slow, mountDB bool, keepRecent int64, nReaders int, p genParams) {
	h := genHistory(rng, id, p)
	vm := h.model()
	env := &concEnv{c: c, h: h, vm: vm, tag: "conc-multi", cfg: fmt.Sprintf("snapshots=%v slowbatch=%v mountdb=%v keeprecent=%d readers=%d", snap, slow, mountDB, keepRecent, nReaders)}
	env.win.goCh = make(chan struct{})
	env.win.done = make(chan struct{}, 1)
	base := memdb.NewMemDB()
	db := &hookDB{DB: base, noSnap: !snap, slow: slow}
	key := stypes.NewStoreKey("main")
	opts := stypes.StoreOptions{PruningOptions: stypes.PruneNothing}
	if keepRecent >= 0 {
		opts.PruningOptions = stypes.NewPruningOptions(keepRecent, 0)
	}
	open := func(cons stypes.CommitStoreConstructor) stypes.CommitMultiStore {
		ms := rootmulti.NewMultiStore(db)
		ms.SetStoreOptions(opts)
		var mdb dbm.DB
		if mountDB {
			mdb = db
		}
		ms.MountStoreWithDB(key, cons, mdb)
		if err := ms.LoadLatestVersion(); err != nil {
			panic(err)
		}
		return ms
	}
	prefix := []byte("s/k:main/")
	if mountDB {
		prefix = []byte("s/_/")
	}
	ms := open(storebp.FastStoreConstructor)
	mc := &multiConc{env: env, ms: ms, key: key, keepRecent: keepRecent}

	var inCommit bool
	db.onBatch = func(phase string, key []byte) {
		if !inCommit {
			return
		}
		switch phase {
		case "before":
			env.park(st, "multi:drained-batch-not-written")
		case "after":
			env.park(st, "multi:written-snapshot-not-refreshed")
		case "op":
			// s/k:main/<class>... or s/_/<class>...: park at the stamp and root records
			if bytes.HasPrefix(key, prefix) {
				rest := key[len(prefix):]
				if bytes.Equal(rest, append([]byte{bptree.PrefixMeta}, "fastidx"...)) {
					env.park(st, "multi:before-stamp-op")
				} else if len(rest) == 9 && rest[0] == bptree.PrefixRoot {
					env.park(st, "multi:before-root-op")
				}
			}
		}
	}

	wg, rsts := runReaders(env, nReaders, func(i int) *rand.Rand { return rand.New(rand.NewPCG(uint64(c.Seed)*1000033+uint64(id), uint64(i)+17)) }, mc.readerOp)
	wrng := rand.New(rand.NewPCG(uint64(c.Seed)*104729+uint64(id), 9))
	var latest int64
	perr := vf.Try(func() {
		cms := ms.MultiCacheWrap()
		s := cms.GetStore(key)
		for _, o := range h.Ops {
			if env.failed.Load() || env.dead.Load() {
				break
			}
			switch o.K {
			case oSet:
				s.Set(nil, h.Keys[o.Key], o.Val)
			case oRemove:
				s.Delete(nil, h.Keys[o.Key])
			case oSave:
				cms.MultiWrite()
				parked := wrng.IntN(10) < 4
				if keepRecent >= 0 {
					// this commit prunes everything <= latest - keepRecent (announce first)
					if to := latest - keepRecent; to > env.floor.Load() {
						env.floor.Store(to)
					}
				}
				if parked {
					env.park(st, "multi:cache-written-not-committed")
					inCommit = true
				}
				cid := ms.Commit()
				inCommit = false
				if cid.Version != latest+1 {
					panic(fmt.Sprintf("Commit -> version %d, want %d", cid.Version, latest+1))
				}
				latest = cid.Version
				env.committed.Store(latest)
				if parked {
					env.park(st, "multi:commit-returned")
					st.counts["parked_commits"]++
				} else {
					st.counts["free_commits"]++
				}
				cms = ms.MultiCacheWrap()
				s = cms.GetStore(key)
			default:
				panic("unexpected op in a plain history")
			}
		}
	})
	env.stop.Store(true)
	wg.Wait()
	if perr != nil {
		env.violation("panic:conc-writer", map[string]any{"panic": fmt.Sprint(perr)}, "multistore writer failed: %v", perr)
	}
	for _, s := range rsts {
		s.flush(c)
	}
	if cl, ok := ms.(interface{ Close() error }); ok {
		cl.Close()
	}
	st.counts["histories:conc-multi"]++
	if perr != nil || env.failed.Load() || env.dead.Load() {
		return
	}
	// final audit of the persisted store through tree-level surfaces on the prefixed DB
	sw := &sweeper{c: c, st: st, h: h, vm: vm, tag: "conc-multi-final", rng: rng, db: dbm.NewPrefixDB(base, prefix),
		where: func() map[string]any { return env.where(nil) }}
	if sw.buildAuth(latest, latest, true) {
		sw.readonlySurfaces()
		sw.restartSurfaces(false)
	}
}
