package c26

import (
	"fmt"
	"math/rand/v2"

	"github.com/gnolang/gno/tm2/pkg/bptree"
	dbm "github.com/gnolang/gno/tm2/pkg/db"
	"github.com/gnolang/gno/tm2/pkg/db/memdb"
	storebp "github.com/gnolang/gno/tm2/pkg/store/bptree"
	stypes "github.com/gnolang/gno/tm2/pkg/store/types"

	"verifharness/checks/c23/bpgen"
	"verifharness/internal/vf"
)

// exec runs one history against the real tree (tree level) over db.
type exec struct {
	c    *vf.Ctx
	st   *stats
	h    *history
	vm   *vmodel
	rng  *rand.Rand
	tag  string
	base dbm.DB // what sweeps read (the durable image)
	db   dbm.DB // what the live handle writes through (base, or a recorder around it)

	w      *bptree.MutableTree
	fast   bool
	latest int64 // committed versions so far
	dirty  bool
	work   bpgen.Model
	step   int
	failed bool

	// afterOp, when set, runs after every executed op (crash workload bookkeeping)
	onStep func()
	// noSweep disables sweeps (the crash workload sweeps images instead)
	noSweep bool
	// quiet: failures stop the run without being reported (the killed twin of the crash cross-check)
	quiet bool
	drng  *rand.Rand // execution-shape decisions; a function of the history only

	// long-lived views taken earlier in this process lifetime (the store layer's
	// immutable views have no Close and live for a whole query): re-read at every
	// later sweep, across the commits that happened since they were taken.
	held []heldView
}

type heldView struct {
	ver  int64
	imm  *bptree.ImmutableTree // w.GetImmutableUnregistered(ver)
	view *storebp.Store        // separate handle: immutable store view loaded at ver
}

func (e *exec) where() map[string]any {
	return map[string]any{
		"history": e.h.ID, "params": e.h.Params, "cache": e.h.Cache, "flush_threshold": e.h.Flush, "start_fast": e.h.StartFast,
		"step": e.step, "live_fast": e.fast, "committed": e.latest, "dirty": e.dirty, "ops": e.h.log(e.step),
		"keys": keyList(e.h.Keys),
	}
}

func keyList(keys [][]byte) []string {
	if len(keys) > 80 {
		return []string{fmt.Sprintf("%d keys (regenerate from seed)", len(keys))}
	}
	out := make([]string, len(keys))
	for i, k := range keys {
		out[i] = vf.Hex(k)
	}
	return out
}

func (e *exec) fail(key string, format string, args ...any) {
	e.failed = true
	if e.quiet {
		return
	}
	e.c.Violation(key, e.where(), "[%s] history %d (%s) step %d %s: %s", e.tag, e.h.ID, e.h.Params, e.step, e.h.opString(e.h.Ops[min(e.step, len(e.h.Ops)-1)]), fmt.Sprintf(format, args...))
}

func (e *exec) open(fast bool) {
	opts := []bptree.Option{bptree.FlushThresholdOption(e.h.Flush)}
	if fast {
		opts = append(opts, bptree.FastIndexOption(true))
	}
	e.fast = fast
	e.w = bptree.NewMutableTreeWithDB(e.db, e.h.Cache, nop(), opts...)
	lv, err := e.w.Load()
	if err != nil {
		e.fail("live-load-failed", "Load (fast=%v): %v", fast, err)
		return
	}
	if lv != e.latest {
		e.fail("live-load-failed", "Load (fast=%v) -> version %d, want %d", fast, lv, e.latest)
	}
}

func (e *exec) sweeper() *sweeper {
	return &sweeper{c: e.c, st: e.st, h: e.h, vm: e.vm, tag: e.tag, where: e.where, rng: e.rng, db: e.base}
}

// liveSurfaces reads through the live handle (only meaningful with the feature on).
func (e *exec) liveSurfaces(sw *sweeper) {
	if !e.fast || sw.latest == 0 {
		return
	}
	sw.guard("live", func() {
		if !e.dirty {
			for _, k := range sw.keys {
				got, err := e.w.Get(k)
				sw.check("live.Get", e.latest, k, got, err)
			}
		}
		for _, v := range sw.versions {
			imm, err := e.w.GetImmutable(v)
			if err != nil {
				sw.violation("read-error:live.GetImmutable", map[string]any{"version": v, "error": err.Error()}, "GetImmutable(%d): %v", v, err)
				continue
			}
			for _, k := range sw.keys {
				got, err := imm.Get(k)
				sw.check("live.GetImmutable", v, k, got, err)
			}
			imm.Close()
			if e.rng.IntN(3) == 0 {
				for _, k := range sw.keys {
					got, err := e.w.GetVersioned(k, v)
					sw.check("live.GetVersioned", v, k, got, err)
				}
			}
		}
	})
}

// heldSurfaces re-reads the long-lived views and sometimes takes a new one.
func (e *exec) heldSurfaces(sw *sweeper) {
	if !e.fast || sw.latest == 0 {
		return
	}
	avail := map[int64]bool{}
	for _, v := range sw.allVersions {
		avail[v] = true
	}
	keep := e.held[:0]
	for _, hv := range e.held {
		if avail[hv.ver] { // unregistered views of a pruned version fail loudly by contract: dropped
			keep = append(keep, hv)
		}
	}
	e.held = keep
	sw.guard("held", func() {
		for _, hv := range e.held {
			for _, k := range sw.keys {
				got, err := hv.imm.Get(k)
				sw.check("held.GetImmutableUnregistered", hv.ver, k, got, err)
				sw.check("held.store.imm", hv.ver, k, hv.view.Get(nil, k), nil)
			}
		}
	})
	if len(e.held) < 3 && len(sw.versions) > 0 && e.rng.IntN(2) == 0 {
		v := sw.versions[e.rng.IntN(len(sw.versions))]
		imm, err := e.w.GetImmutableUnregistered(v)
		if err != nil {
			return
		}
		st := storebp.FastStoreConstructor(&hookDB{DB: e.base}, stypes.StoreOptions{Immutable: true}).(*storebp.Store)
		if err := st.LoadVersion(v); err != nil {
			return
		}
		e.held = append(e.held, heldView{ver: v, imm: imm, view: st})
	}
}

func (e *exec) sweep(full bool) {
	if e.noSweep || e.failed {
		return
	}
	sw := e.sweeper()
	if !sw.buildAuth(e.latest, e.latest, full) {
		e.failed = true
		return
	}
	e.liveSurfaces(sw)
	e.heldSurfaces(sw)
	sw.readonlySurfaces()
	if full || e.rng.IntN(3) == 0 {
		sw.restartSurfaces(e.rng.IntN(3) == 0)
	}
	if sw.failed {
		e.failed = true
	}
}

func (e *exec) applyData(o op, m *bpgen.Model) {
	k := e.h.Keys[o.Key]
	switch o.K {
	case oSet:
		if _, err := e.w.Set(k, o.Val); err != nil {
			e.fail("live-op-error", "Set: %v", err)
		}
		m.Set(k, o.Val)
		e.st.counts["op:set"]++
	case oRemove:
		_, wasPresent := m.Get(k)
		_, found, err := e.w.Remove(k)
		if err != nil {
			e.fail("live-op-error", "Remove: %v", err)
		}
		if found != wasPresent {
			e.fail("live-op-error", "Remove(%x) found=%v, model present=%v", k, found, wasPresent)
		}
		m.Remove(k)
		if wasPresent {
			e.st.counts["op:remove-present"]++
		} else {
			e.st.counts["op:remove-absent"]++
		}
	}
}

func (e *exec) restoreWork() {
	if e.latest == 0 {
		e.work.Load(nil)
	} else {
		e.work.Load(e.vm.snaps[e.latest])
	}
	e.dirty = false
}

// run executes the whole history. Returns false on a failure.
func (e *exec) run() bool {
	e.drng = rand.New(rand.NewPCG(uint64(e.h.ID), 0xc26))
	e.open(e.h.StartFast)
	for e.step = 0; e.step < len(e.h.Ops) && !e.failed; e.step++ {
		o := e.h.Ops[e.step]
		p := vf.Try(func() { e.do(o) })
		if p != nil {
			e.fail("panic:live", "%v", p)
		}
		if e.failed {
			break
		}
		if e.onStep != nil {
			e.onStep()
		}
	}
	e.step = len(e.h.Ops) - 1
	if !e.failed {
		e.sweep(true)
	}
	return !e.failed
}

func (e *exec) do(o op) {
	switch o.K {
	case oSet, oRemove:
		e.applyData(o, &e.work)
		e.dirty = true
		if e.rng.IntN(40) == 0 {
			e.sweep(false) // mid-session: committed state must be unaffected by staged writes
		}
	case oSave:
		_, v, err := e.w.SaveVersion()
		if err != nil || v != e.latest+1 {
			e.fail("live-op-error", "SaveVersion -> %d, %v (want %d)", v, err, e.latest+1)
			return
		}
		e.latest = v
		e.dirty = false
		e.st.counts["op:save"]++
		if e.fast {
			e.st.counts["op:save-fast-on"]++
		} else {
			e.st.counts["op:save-fast-off"]++
		}
		if len(e.h.Keys) <= 60 || e.rng.IntN(2) == 0 {
			e.sweep(e.rng.IntN(4) == 0)
		}
	case oRollback:
		e.w.Rollback()
		e.restoreWork()
		e.st.counts["op:rollback"]++
		e.sweep(false)
	case oReopen:
		if e.dirty {
			e.st.counts["op:reopen-dirty"]++
		} else {
			e.st.counts["op:reopen-clean"]++
		}
		if o.Fast != e.fast {
			if o.Fast {
				e.st.counts["op:toggle-on"]++
			} else {
				e.st.counts["op:toggle-off"]++
			}
		}
		e.restoreWork()
		e.held = nil // views do not outlive the process
		// BEFORE the new live handle loads (which may rebuild): the query path on
		// the image the old process left behind
		if o.Fast != e.fast && !e.noSweep {
			sw := e.sweeper()
			if sw.buildAuth(e.latest, e.latest, false) {
				sw.readonlySurfaces()
			}
			if sw.failed {
				e.failed = true
				return
			}
		}
		e.open(o.Fast)
		e.sweep(false)
	case oPrune:
		err := e.w.PruneVersionsTo(o.Ver)
		if err != nil {
			e.fail("live-op-error", "PruneVersionsTo(%d): %v", o.Ver, err)
			return
		}
		e.st.counts["op:prune"]++
		e.sweep(false)
	case oExcursion:
		if _, err := e.w.LoadVersion(o.Ver); err != nil {
			e.fail("live-op-error", "LoadVersion(%d): %v", o.Ver, err)
			return
		}
		e.st.counts["op:excursion"]++
		// working-tree reads at the old version (the non-immutable Store.LoadVersion path)
		if e.fast && !e.noSweep {
			sw := e.sweeper()
			if sw.buildAuth(e.latest, e.latest, false) {
				sw.guard("live.LoadVersion", func() {
					for _, k := range sw.keys {
						got, err := e.w.Get(k)
						sw.check("live.LoadVersion.Get", o.Ver, k, got, err)
					}
				})
			}
			if sw.failed {
				e.failed = true
				return
			}
		}
		var em bpgen.Model
		em.Load(e.vm.snaps[o.Ver])
		for _, s := range o.Sub {
			e.applyData(s, &em)
		}
		if len(o.Sub) > 0 && e.drng.IntN(3) == 0 {
			// SaveVersion on top of an old version: refused (the next version exists
			// with other contents) or, if the writes happen to reproduce it,
			// idempotent. Either way nothing staged may reach the DB.
			if _, _, err := e.w.SaveVersion(); err != nil {
				e.st.counts["op:refused-save"]++
				e.w.Rollback() // clears the poisoned session
			}
		}
		if len(o.Sub) > 0 && e.drng.IntN(2) == 0 {
			e.w.Rollback()
		}
		// back to latest; staged writes of the excursion must vanish
		var err error
		if e.drng.IntN(2) == 0 {
			_, err = e.w.LoadVersion(e.latest)
		} else {
			_, err = e.w.Load()
		}
		if err != nil {
			e.fail("live-op-error", "back to latest: %v", err)
			return
		}
		e.sweep(false)
	case oReplay:
		if _, err := e.w.LoadVersion(o.Ver); err != nil {
			e.fail("live-op-error", "LoadVersion(%d): %v", o.Ver, err)
			return
		}
		var em bpgen.Model
		em.Load(e.vm.snaps[o.Ver])
		for _, s := range o.Sub {
			e.applyData(s, &em)
		}
		_, v, err := e.w.SaveVersion()
		if err != nil {
			// the replayed graph is allowed to be refused ("already exists with a
			// different hash") only if the contents differ; they do not
			e.fail("live-op-error", "idempotent SaveVersion of replayed version %d: %v", o.Ver+1, err)
			return
		}
		if v != o.Ver+1 {
			e.fail("live-op-error", "replayed SaveVersion -> %d, want %d", v, o.Ver+1)
			return
		}
		e.st.counts["op:replay"]++
		if e.fast && !e.noSweep {
			sw := e.sweeper()
			if sw.buildAuth(e.latest, e.latest, false) {
				sw.guard("live.Replay", func() {
					for _, k := range sw.keys {
						got, err := e.w.Get(k)
						sw.check("live.Replay.Get", v, k, got, err)
					}
				})
			}
			if sw.failed {
				e.failed = true
				return
			}
		}
		if _, err := e.w.Load(); err != nil {
			e.fail("live-op-error", "back to latest: %v", err)
			return
		}
		e.sweep(false)
	}
}

// runSeq: workload 1.
func runSeq(c *vf.Ctx, st *stats, id int, rng *rand.Rand, p genParams) {
	h := genHistory(rng, id, p)
	base := memdb.NewMemDB()
	e := &exec{c: c, st: st, h: h, vm: h.model(), rng: rng, tag: "seq", base: base, db: base}
	e.run()
	st.counts["histories:seq"]++
}
