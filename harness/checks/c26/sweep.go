package c26

import (
	"bytes"
	"fmt"
	"math/rand/v2"
	"sort"

	abci "github.com/gnolang/gno/tm2/pkg/bft/abci/types"
	"github.com/gnolang/gno/tm2/pkg/bptree"
	dbm "github.com/gnolang/gno/tm2/pkg/db"
	storebp "github.com/gnolang/gno/tm2/pkg/store/bptree"
	stypes "github.com/gnolang/gno/tm2/pkg/store/types"

	"verifharness/checks/c23/bpgen"
	"verifharness/internal/dbx"
	"verifharness/internal/vf"
)

// stats are per-worker monitor counters, merged into the vf counters at the end.
type stats struct {
	reads    int64
	nt       int64
	bySurf   map[string]int64
	ntBySurf map[string]int64
	ntClass  map[string]int64 // why a read is non-trivial
	counts   map[string]int64
	distinct map[string]struct{}
}

func newStats() *stats {
	return &stats{bySurf: map[string]int64{}, ntBySurf: map[string]int64{}, ntClass: map[string]int64{}, counts: map[string]int64{}, distinct: map[string]struct{}{}}
}

func (s *stats) flush(c *vf.Ctx) {
	c.Eval(int(s.reads))
	c.Count("reads", int(s.reads))
	c.Count("nontrivial_reads", int(s.nt))
	for k, v := range s.bySurf {
		c.Count("reads:"+k, int(v))
	}
	for k, v := range s.ntBySurf {
		c.Count("nontrivial_reads:"+k, int(v))
	}
	for k, v := range s.ntClass {
		c.Count("nontrivial:"+k, int(v))
	}
	for k, v := range s.counts {
		c.Count(k, int(v))
	}
	for k := range s.distinct {
		c.Distinct(k)
	}
}

// sweeper compares, for one durable DB state, every fast-index read surface
// with the per-version model and with the authoritative walk.
type sweeper struct {
	c     *vf.Ctx
	st    *stats
	h     *history
	vm    *vmodel
	tag   string // workload tag: seq | crash | cont
	where func() map[string]any
	rng   *rand.Rand

	db          dbm.DB
	latest      int64   // latest committed version in db (from the authoritative twin)
	versions    []int64 // versions read in this sweep
	allVersions []int64 // every version the image holds
	keys        [][]byte
	auth        map[int64]map[string][]byte // authoritative walk per (version, key); missing key => absent
	failed      bool
}

func valStr(v []byte, ok bool) string {
	if !ok {
		return "<absent>"
	}
	if len(v) > 24 {
		return fmt.Sprintf("%x..(%d bytes)", v[:24], len(v))
	}
	return fmt.Sprintf("%x", v)
}

// classify names the way a wrong read is wrong, by looking the served value up
// in the other versions of the model.
func (sw *sweeper) classify(v int64, key, got []byte, gotOK, wantOK bool) string {
	switch {
	case gotOK && !wantOK:
		return "resurrected" // an absent key was served
	case !gotOK && wantOK:
		return "lost"
	}
	older, newer := false, false
	for ver, s := range sw.vm.snaps {
		if val, ok := lookup(s, key); ok && bytes.Equal(val, got) {
			if ver < v {
				older = true
			} else if ver > v {
				newer = true
			}
		}
	}
	switch {
	case older:
		return "stale"
	case newer:
		return "too-new"
	}
	return "wrong"
}

func (sw *sweeper) violation(key string, extra map[string]any, format string, args ...any) {
	sw.failed = true
	w := sw.where()
	for k, v := range extra {
		w[k] = v
	}
	sw.c.Violation(key, w, "[%s] history %d (%s): %s", sw.tag, sw.h.ID, sw.h.Params, fmt.Sprintf(format, args...))
}

// nontrivial: the key's value at the version read differs from its value at the
// latest committed version (a stale or too-new entry would be visible), or the
// read is of the latest version and the key changed in that very commit.
func (sw *sweeper) nontrivial(v int64, key []byte) (bool, string) {
	a, aok := lookup(sw.vm.snaps[v], key)
	if v != sw.latest {
		b, bok := lookup(sw.vm.snaps[sw.latest], key)
		if aok != bok {
			if aok {
				return true, "old-version-read-of-key-removed-later"
			}
			return true, "old-version-read-of-key-added-later"
		}
		if aok && !bytes.Equal(a, b) {
			return true, "old-version-read-of-key-overwritten-later"
		}
		return false, ""
	}
	p, ok := sw.vm.snaps[v-1]
	if !ok && v > 1 {
		return false, ""
	}
	b, bok := lookup(p, key)
	if aok != bok {
		if aok {
			return true, "latest-read-of-key-added-in-last-commit"
		}
		return true, "latest-read-of-key-removed-in-last-commit"
	}
	if aok && !bytes.Equal(a, b) {
		return true, "latest-read-of-key-overwritten-in-last-commit"
	}
	return false, ""
}

// check evaluates one read. got == nil means "absent" (every API under test
// returns nil for a missing key and a non-nil slice for a present one).
func (sw *sweeper) check(surface string, v int64, key, got []byte, err error) {
	sw.st.reads++
	sw.st.bySurf[surface]++
	if nt, why := sw.nontrivial(v, key); nt {
		sw.st.nt++
		sw.st.ntBySurf[surface]++
		sw.st.ntClass[why]++
		sw.st.distinct[fmt.Sprintf("%s|h%d|v%d|L%d|%x", sw.tag, sw.h.ID, v, sw.latest, key)] = struct{}{}
	}
	if err != nil {
		sw.violation("read-error:"+surface, map[string]any{"surface": surface, "version": v, "key": vf.Hex(key), "error": err.Error()},
			"%s at version %d key %x failed: %v (the authoritative walk succeeded)", surface, v, key, err)
		return
	}
	want, wantOK := lookup(sw.vm.snaps[v], key)
	gotOK := got != nil
	if gotOK == wantOK && (!gotOK || bytes.Equal(got, want)) {
		// model agrees; the twin agreed with the model in buildAuth
		return
	}
	class := sw.classify(v, key, got, gotOK, wantOK)
	tw, twOK := sw.auth[v][string(key)]
	sw.violation("stale-read:"+class+":"+surface,
		map[string]any{"surface": surface, "version": v, "latest": sw.latest, "key": vf.Hex(key), "got": valStr(got, gotOK),
			"model": valStr(want, wantOK), "authoritative_walk": valStr(tw, twOK), "class": class},
		"%s served %s for key %x at version %d (latest %d); model %s, authoritative walk (fast index off) %s [%s]",
		surface, valStr(got, gotOK), key, v, sw.latest, valStr(want, wantOK), valStr(tw, twOK), class)
}

func nop() bptree.Logger { return bptree.NewNopLogger() }

// buildAuth opens the DB with the fast index DISABLED (never writes), picks the
// versions and keys of this sweep and records the authoritative walk for them.
// Returns false if the image is not usable (reported).
func (sw *sweeper) buildAuth(wantLatestLo, wantLatestHi int64, full bool) bool {
	off := bptree.NewMutableTreeWithDB(sw.db, 64, nop())
	lv, err := off.Load()
	if err != nil {
		sw.violation("authoritative-load-error", map[string]any{"error": err.Error()}, "fast-index-off tree cannot load the DB: %v", err)
		return false
	}
	sw.latest = lv
	if lv < wantLatestLo || lv > wantLatestHi {
		sw.violation("latest-version-mismatch", map[string]any{"loaded": lv, "want_lo": wantLatestLo, "want_hi": wantLatestHi},
			"DB loads version %d, expected %d..%d", lv, wantLatestLo, wantLatestHi)
		return false
	}
	sw.versions = sw.versions[:0]
	for _, v := range off.AvailableVersions() {
		sw.versions = append(sw.versions, int64(v))
	}
	sort.Slice(sw.versions, func(i, j int) bool { return sw.versions[i] < sw.versions[j] })
	sw.allVersions = append([]int64(nil), sw.versions...)
	if lv == 0 {
		return true
	}
	// version subset
	maxV := 4
	if full {
		maxV = 8
	}
	if len(sw.versions) > maxV {
		pick := map[int64]bool{lv: true, sw.versions[0]: true, sw.versions[len(sw.versions)-2]: true}
		for len(pick) < maxV {
			pick[sw.versions[sw.rng.IntN(len(sw.versions))]] = true
		}
		vs := sw.versions[:0:0]
		for _, v := range sw.versions {
			if pick[v] {
				vs = append(vs, v)
			}
		}
		sw.versions = vs
	}
	// key subset: keys whose value differs between two swept versions (or changed
	// in the last commit) first, plus a sample of the others
	sw.keys = sw.keys[:0]
	if len(sw.h.Keys) <= 40 {
		sw.keys = append(sw.keys, sw.h.Keys...)
	} else {
		var hot, cold [][]byte
		for _, k := range sw.h.Keys {
			isHot := false
			a, aok := lookup(sw.vm.snaps[lv], k)
			for _, v := range sw.versions {
				b, bok := lookup(sw.vm.snaps[v], k)
				if aok != bok || !bytes.Equal(a, b) {
					isHot = true
					break
				}
			}
			if !isHot {
				if p, ok := sw.vm.snaps[lv-1]; ok {
					b, bok := lookup(p, k)
					isHot = aok != bok || !bytes.Equal(a, b)
				}
			}
			if isHot {
				hot = append(hot, k)
			} else {
				cold = append(cold, k)
			}
		}
		sw.rng.Shuffle(len(hot), func(i, j int) { hot[i], hot[j] = hot[j], hot[i] })
		sw.rng.Shuffle(len(cold), func(i, j int) { cold[i], cold[j] = cold[j], cold[i] })
		nh, nc := 36, 10
		if full {
			nh, nc = 96, 24
		}
		sw.keys = append(sw.keys, hot[:min(len(hot), nh)]...)
		sw.keys = append(sw.keys, cold[:min(len(cold), nc)]...)
	}
	sw.auth = map[int64]map[string][]byte{}
	for _, v := range sw.versions {
		if _, ok := sw.vm.snaps[v]; !ok {
			sw.violation("unknown-version", map[string]any{"version": v}, "DB holds version %d the model never saved", v)
			return false
		}
		imm, err := off.GetImmutable(v)
		if err != nil {
			sw.violation("authoritative-load-error", map[string]any{"version": v, "error": err.Error()}, "fast-index-off GetImmutable(%d): %v", v, err)
			return false
		}
		m := map[string][]byte{}
		for _, k := range sw.keys {
			val, err := imm.Get(k)
			if err != nil {
				imm.Close()
				sw.violation("authoritative-read-error", map[string]any{"version": v, "key": vf.Hex(k), "error": err.Error()}, "fast-index-off Get(%x)@%d: %v", k, v, err)
				return false
			}
			want, wantOK := lookup(sw.vm.snaps[v], k)
			if (val != nil) != wantOK || (wantOK && !bytes.Equal(val, want)) {
				imm.Close()
				sw.violation("authoritative-walk-vs-model", map[string]any{"version": v, "key": vf.Hex(k), "got": valStr(val, val != nil), "model": valStr(want, wantOK)},
					"the authoritative tree walk (fast index off) disagrees with the model: key %x at version %d = %s, model %s", k, v, valStr(val, val != nil), valStr(want, wantOK))
				return false
			}
			if val != nil {
				m[string(k)] = val
			}
		}
		imm.Close()
		sw.auth[v] = m
	}
	sw.st.counts["sweeps"]++
	sw.st.counts["swept_versions"] += int64(len(sw.versions))
	return true
}

// guard runs f, converting a panic of the code under test into a violation.
func (sw *sweeper) guard(surface string, f func()) {
	if p := vf.Try(f); p != nil {
		sw.violation("panic:"+surface, map[string]any{"surface": surface, "panic": fmt.Sprint(p)}, "%s panicked: %v", surface, p)
	}
}

// readonlySurfaces: the query path. Trees / stores opened on the LIVE db image
// with the fast index enabled through the documented read-only entry points.
// They must not write.
func (sw *sweeper) readonlySurfaces() {
	if sw.latest == 0 {
		return
	}
	ro := &hookDB{DB: sw.db}
	sw.guard("ro.LoadReadonly", func() {
		t := bptree.NewMutableTreeWithDB(ro, sw.h.Cache, nop(), bptree.FastIndexOption(true))
		lv, err := t.LoadReadonly()
		if err != nil || lv != sw.latest {
			sw.violation("readonly-load-failed:ro.LoadReadonly", map[string]any{"error": fmt.Sprint(err), "loaded": lv}, "LoadReadonly -> %d, %v (latest %d)", lv, err, sw.latest)
			return
		}
		for _, v := range sw.versions {
			imm, err := t.GetImmutable(v)
			if err != nil {
				sw.violation("readonly-load-failed:ro.GetImmutable", map[string]any{"version": v, "error": err.Error()}, "GetImmutable(%d): %v", v, err)
				continue
			}
			for _, k := range sw.keys {
				got, err := imm.Get(k)
				sw.check("ro.GetImmutable", v, k, got, err)
			}
			imm.Close()
			if sw.rng.IntN(3) == 0 {
				for _, k := range sw.keys {
					got, err := t.GetVersioned(k, v)
					sw.check("ro.GetVersioned", v, k, got, err)
				}
			}
		}
	})
	// store layer, immutable views (what rootmulti builds for queries)
	sw.guard("store.imm", func() {
		for _, v := range append([]int64{0}, sw.versions...) {
			st := storebp.FastStoreConstructor(ro, stypes.StoreOptions{Immutable: true}).(*storebp.Store)
			var err error
			rv := v
			if v == 0 {
				err = st.LoadLatestVersion()
				rv = sw.latest
			} else {
				err = st.LoadVersion(v)
			}
			if err != nil {
				sw.violation("readonly-load-failed:store.imm", map[string]any{"version": v, "error": err.Error()}, "immutable store view at version %d (0 = latest) failed to load: %v", v, err)
				continue
			}
			if got := st.LastCommitID().Version; got != rv {
				sw.violation("readonly-load-failed:store.imm", map[string]any{"version": v, "got": got}, "immutable store view reports version %d, want %d", got, rv)
				continue
			}
			surf := "store.imm.LoadVersion"
			if v == 0 {
				surf = "store.imm.LoadLatestVersion"
			}
			for _, k := range sw.keys {
				got := st.Get(nil, k)
				sw.check(surf, rv, k, got, nil)
			}
			if sw.rng.IntN(3) == 0 {
				for _, k := range sw.keys {
					res := st.Query(abci.RequestQuery{Path: "/key", Data: k, Height: rv})
					var qerr error
					if res.Error != nil || res.Log != "" {
						qerr = fmt.Errorf("error=%v log=%q", res.Error, res.Log)
					}
					sw.check("store.imm.Query", rv, k, res.Value, qerr)
				}
			}
		}
	})
	if n := ro.writes.Load(); n != 0 {
		sw.violation("readonly-load-wrote", map[string]any{"writes": n}, "read-only (query path) loads performed %d physical writes on the live DB", n)
	}
}

// restartSurfaces: what a node restarted on this exact image WITH the fast
// index enabled would serve (Load may rebuild the index, so it works on a copy).
func (sw *sweeper) restartSurfaces(cont bool) {
	if sw.latest == 0 {
		return
	}
	cl := dbx.CloneMem(sw.db)
	var t *bptree.MutableTree
	sw.guard("restart.Load", func() {
		t = bptree.NewMutableTreeWithDB(cl, sw.h.Cache, nop(), bptree.FastIndexOption(true), bptree.FlushThresholdOption(sw.h.Flush))
		lv, err := t.Load()
		if err != nil || lv != sw.latest {
			sw.violation("restart-load-failed", map[string]any{"error": fmt.Sprint(err), "loaded": lv, "latest": sw.latest},
				"a tree with the fast index enabled cannot Load an image the fast-index-off tree loads at %d: got %d, %v", sw.latest, lv, err)
			t = nil
			return
		}
		for _, k := range sw.keys {
			got, err := t.Get(k)
			sw.check("restart.Get", sw.latest, k, got, err)
		}
		for _, v := range sw.versions {
			imm, err := t.GetImmutable(v)
			if err != nil {
				sw.violation("read-error:restart.GetImmutable", map[string]any{"version": v, "error": err.Error()}, "GetImmutable(%d): %v", v, err)
				continue
			}
			for _, k := range sw.keys {
				got, err := imm.Get(k)
				sw.check("restart.GetImmutable", v, k, got, err)
			}
			imm.Close()
		}
		// the non-immutable Store.LoadVersion(ver) path: Load(), then LoadVersion(ver), working-tree Get
		for _, v := range sw.versions {
			if v == sw.latest || sw.rng.IntN(2) == 0 {
				continue
			}
			if _, err := t.LoadVersion(v); err != nil {
				sw.violation("read-error:restart.LoadVersion", map[string]any{"version": v, "error": err.Error()}, "LoadVersion(%d): %v", v, err)
				continue
			}
			for _, k := range sw.keys {
				got, err := t.Get(k)
				sw.check("restart.LoadVersion.Get", v, k, got, err)
			}
		}
		if _, err := t.LoadVersion(sw.latest); err != nil {
			sw.violation("read-error:restart.LoadVersion", map[string]any{"version": sw.latest, "error": err.Error()}, "LoadVersion(latest %d): %v", sw.latest, err)
			t = nil
		}
	})
	// store layer, live (non-immutable) store on a second copy
	if sw.rng.IntN(2) == 0 {
		cl2 := dbx.CloneMem(sw.db)
		sw.guard("store.live", func() {
			st := storebp.FastStoreConstructor(cl2, stypes.StoreOptions{PruningOptions: stypes.PruneNothing}).(*storebp.Store)
			if err := st.LoadLatestVersion(); err != nil {
				sw.violation("restart-load-failed", map[string]any{"error": err.Error(), "surface": "store.live"}, "live store LoadLatestVersion: %v", err)
				return
			}
			for _, k := range sw.keys {
				sw.check("store.live.Get", sw.latest, k, st.Get(nil, k), nil)
			}
			for _, v := range sw.versions {
				ist, err := st.GetImmutable(v)
				if err != nil {
					sw.violation("read-error:store.live.GetImmutable", map[string]any{"version": v, "error": err.Error()}, "store GetImmutable(%d): %v", v, err)
					continue
				}
				for _, k := range sw.keys {
					sw.check("store.live.GetImmutable", v, k, ist.Get(nil, k), nil)
				}
				if sw.rng.IntN(2) == 0 {
					for _, k := range sw.keys {
						res := st.Query(abci.RequestQuery{Path: "/key", Data: k, Height: v})
						var qerr error
						if res.Error != nil || res.Log != "" {
							qerr = fmt.Errorf("error=%v log=%q", res.Error, res.Log)
						}
						sw.check("store.live.Query", v, k, res.Value, qerr)
					}
				}
			}
			// LoadVersion(old) on the live store: Load() + LoadVersion(ver)
			for _, v := range sw.versions {
				if v == sw.latest || sw.rng.IntN(3) != 0 {
					continue
				}
				if err := st.LoadVersion(v); err != nil {
					sw.violation("read-error:store.live.LoadVersion", map[string]any{"version": v, "error": err.Error()}, "store LoadVersion(%d): %v", v, err)
					continue
				}
				for _, k := range sw.keys {
					sw.check("store.live.LoadVersion.Get", v, k, st.Get(nil, k), nil)
				}
			}
		})
	}
	if cont && t != nil {
		sw.continuation(cl, t)
	}
}

// continuation: the restarted node (fast index on, image copy) goes on: it
// commits one more version that touches OTHER keys than the interrupted session
// would have, then everything is read again. Entries an interrupted commit left
// behind would now sit at a version number the chain re-passes.
func (sw *sweeper) continuation(cl dbm.DB, t *bptree.MutableTree) {
	next := sw.latest + 1
	var m bpgen.Model
	m.Load(sw.vm.snaps[sw.latest])
	nops := 1 + sw.rng.IntN(5)
	var desc []string
	sw.guard("cont.session", func() {
		for i := 0; i < nops; i++ {
			k := sw.h.Keys[sw.rng.IntN(len(sw.h.Keys))]
			if _, present := m.Get(k); present && sw.rng.IntN(3) == 0 {
				m.Remove(k)
				if _, _, err := t.Remove(k); err != nil {
					panic(err)
				}
				desc = append(desc, fmt.Sprintf("remove(%x)", k))
				continue
			}
			v := []byte(fmt.Sprintf("cont.%d.%d", next, i))
			m.Set(k, v)
			if _, err := t.Set(k, v); err != nil {
				panic(err)
			}
			desc = append(desc, fmt.Sprintf("set(%x=%x)", k, v))
		}
		if _, sv, err := t.SaveVersion(); err != nil || sv != next {
			panic(fmt.Sprintf("continuation SaveVersion -> %d, %v (want %d)", sv, err, next))
		}
	})
	if sw.failed {
		return
	}
	// an extended model for this branch only
	ext := &vmodel{snaps: map[int64]bpgen.Snapshot{}, latest: next}
	for v, s := range sw.vm.snaps {
		if v <= sw.latest {
			ext.snaps[v] = s
		}
	}
	ext.snaps[next] = m.Snapshot()
	oldWhere := sw.where
	sub := &sweeper{c: sw.c, st: sw.st, h: sw.h, vm: ext, tag: sw.tag + "+cont", rng: sw.rng, db: cl,
		where: func() map[string]any { w := oldWhere(); w["continuation"] = desc; return w }}
	if !sub.buildAuth(next, next, false) {
		sw.failed = true
		return
	}
	sub.guard("cont.reads", func() {
		for _, k := range sub.keys {
			got, err := t.Get(k)
			sub.check("cont.Get", next, k, got, err)
		}
		for _, v := range sub.versions {
			imm, err := t.GetImmutable(v)
			if err != nil {
				sub.violation("read-error:cont.GetImmutable", map[string]any{"version": v, "error": err.Error()}, "GetImmutable(%d): %v", v, err)
				continue
			}
			for _, k := range sub.keys {
				got, err := imm.Get(k)
				sub.check("cont.GetImmutable", v, k, got, err)
			}
			imm.Close()
		}
	})
	sub.readonlySurfaces()
	if sub.failed {
		sw.failed = true
	}
	sw.st.counts["continuations"]++
}
