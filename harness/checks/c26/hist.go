package c26

import (
	"bytes"
	"fmt"
	"math/rand/v2"
	"strings"

	"verifharness/checks/c23/bpgen"
)

type opKind uint8

const (
	oSet opKind = iota
	oRemove
	oSave
	oRollback
	oReopen    // abandon the handle (a dirty session is lost = crash of the process), reopen with Fast
	oPrune     // PruneVersionsTo(Ver)
	oExcursion // LoadVersion(Ver) on the live handle, reads, Sub writes, Rollback, back to latest
	oReplay    // LoadVersion(Ver), re-apply the session that produced Ver+1 (Sub), SaveVersion (idempotent), back to latest
	numOpKinds
)

var opNames = []string{"set", "remove", "save", "rollback", "reopen", "prune", "excursion", "replay"}

type op struct {
	K    opKind
	Key  int // index into history.Keys
	Val  []byte
	Fast bool
	Ver  int64
	Sub  []op
}

type history struct {
	ID        int
	Keys      [][]byte
	Ops       []op
	StartFast bool
	Cache     int
	Flush     int // FlushThreshold (small => a prune is several physical write units)
	Params    string
}

func (h *history) opString(o op) string {
	switch o.K {
	case oSet:
		if len(o.Val) > 20 {
			return fmt.Sprintf("set(%x=%x..[%d bytes])", h.Keys[o.Key], o.Val[:12], len(o.Val))
		}
		return fmt.Sprintf("set(%x=%x)", h.Keys[o.Key], o.Val)
	case oRemove:
		return fmt.Sprintf("remove(%x)", h.Keys[o.Key])
	case oReopen:
		return fmt.Sprintf("reopen(fast=%v)", o.Fast)
	case oPrune:
		return fmt.Sprintf("prune(to=%d)", o.Ver)
	case oExcursion, oReplay:
		var sb strings.Builder
		fmt.Fprintf(&sb, "%s(v=%d", opNames[o.K], o.Ver)
		for _, s := range o.Sub {
			sb.WriteString(" " + h.opString(s))
		}
		sb.WriteString(")")
		return sb.String()
	}
	return opNames[o.K]
}

// log renders ops[from:to] (bounded) for witnesses.
func (h *history) log(to int) []string {
	var out []string
	for i := 0; i <= to && i < len(h.Ops); i++ {
		out = append(out, fmt.Sprintf("%d:%s", i, h.opString(h.Ops[i])))
	}
	return out
}

type genParams struct {
	NKeys     int
	NVersions int
	MaxSess   int  // max data ops per session
	Toggle    bool // feature toggled between restarts
	Admin     bool // prune / excursion / replay
	StartFast bool
	Plain     bool // only set / remove / save (concurrency workloads)
	KeyMode   bpgen.KeyMode
}

func (p genParams) String() string {
	return fmt.Sprintf("keys=%d versions=%d sess<=%d toggle=%v admin=%v startfast=%v keymode=%s",
		p.NKeys, p.NVersions, p.MaxSess, p.Toggle, p.Admin, p.StartFast, bpgen.ModeNames[p.KeyMode])
}

// vmodel is the per-version reference: what every version must read as.
type vmodel struct {
	snaps  map[int64]bpgen.Snapshot
	latest int64
}

func lookup(s bpgen.Snapshot, key []byte) ([]byte, bool) {
	i, found := s.Search(key)
	if !found {
		return nil, false
	}
	return s[i].V, true
}

func genKeys(rng *rand.Rand, mode bpgen.KeyMode, n int) [][]byte {
	g := bpgen.NewKeyGen(mode, rng)
	var m bpgen.Model
	for tries := 0; m.Len() < n && tries < n*50; tries++ {
		k := g.Next(&m)
		if len(k) == 0 {
			continue
		}
		m.Set(k, []byte{1})
	}
	for i := 0; m.Len() < n; i++ { // fallback, never expected
		m.Set([]byte(fmt.Sprintf("fallback-%d", i)), []byte{1})
	}
	keys := make([][]byte, m.Len())
	for i := range keys {
		keys[i] = m.At(i).K
	}
	rng.Shuffle(len(keys), func(i, j int) { keys[i], keys[j] = keys[j], keys[i] })
	return keys
}

func genVal(rng *rand.Rand, id, step int, prev []byte, havePrev bool) []byte {
	switch r := rng.IntN(100); {
	case r < 4:
		return []byte{}
	case r < 10 && havePrev:
		return append([]byte{}, prev...) // overwrite with the identical value
	case r < 12:
		v := make([]byte, 600+rng.IntN(2500))
		for i := range v {
			v[i] = byte(rng.IntN(256))
		}
		copy(v, fmt.Sprintf("%d.%d.", id, step))
		return v
	}
	v := []byte(fmt.Sprintf("%d.%d.", id, step))
	for n := rng.IntN(12); n > 0; n-- {
		v = append(v, byte(rng.IntN(256)))
	}
	return v
}

// genHistory is a pure function of (rng, p). It tracks its own model so
// removes hit present keys, prunes name retained versions and so on.
func genHistory(rng *rand.Rand, id int, p genParams) *history {
	h := &history{ID: id, StartFast: p.StartFast, Params: p.String()}
	h.Keys = genKeys(rng, p.KeyMode, p.NKeys)
	h.Cache = []int{0, 1, 64, 10000}[rng.IntN(4)]
	h.Flush = []int{1, 1, 400, 100 * 1024}[rng.IntN(4)]

	var m bpgen.Model
	snaps := map[int64]bpgen.Snapshot{}
	sessions := map[int64][]op{} // version -> effective data ops of the session that produced it
	var retained []int64
	var latest int64
	dirty := false
	fast := p.StartFast
	var sess []op
	step := 0
	emit := func(o op) { h.Ops = append(h.Ops, o); step++ }

	dataOp := func() op {
		present := m.Len()
		wantRemove := present > 0 && rng.IntN(100) < 38
		if wantRemove {
			var ki int
			if rng.IntN(10) == 0 { // a (probably) absent key
				ki = rng.IntN(len(h.Keys))
			} else {
				k := m.At(rng.IntN(present)).K
				for i := range h.Keys {
					if bytes.Equal(h.Keys[i], k) {
						ki = i
						break
					}
				}
			}
			m.Remove(h.Keys[ki])
			return op{K: oRemove, Key: ki}
		}
		ki := rng.IntN(len(h.Keys))
		prev, have := m.Get(h.Keys[ki])
		v := genVal(rng, id, step, prev, have)
		m.Set(h.Keys[ki], v)
		return op{K: oSet, Key: ki, Val: v}
	}
	restore := func() {
		if latest == 0 {
			m.Load(nil)
		} else {
			m.Load(snaps[latest])
		}
		dirty = false
		sess = nil
	}

	// initial growth so that larger universes actually build a multi-leaf tree
	grow := 0
	if p.NKeys > 40 {
		grow = p.NKeys * 2 / 3
	}

	for latest < int64(p.NVersions) {
		n := 1 + rng.IntN(p.MaxSess)
		if grow > 0 {
			n, grow = grow, 0
		}
		if rng.IntN(25) == 0 {
			n = 0 // empty session: a version identical to its predecessor
		}
		for i := 0; i < n; i++ {
			o := dataOp()
			emit(o)
			sess = append(sess, o)
			dirty = true
			// in-session events
			switch r := rng.IntN(1000); {
			case p.Plain:
			case r < 25 && dirty:
				emit(op{K: oRollback})
				restore()
			case r < 40 && dirty && latest > 0:
				if p.Toggle && rng.IntN(3) == 0 {
					fast = !fast
				}
				emit(op{K: oReopen, Fast: fast}) // the dirty session is lost
				restore()
			}
		}
		latest++
		snaps[latest] = m.Snapshot()
		sessions[latest] = sess
		retained = append(retained, latest)
		sess, dirty = nil, false
		emit(op{K: oSave})

		// between-session events (clean session, at latest)
		if !p.Plain && rng.IntN(100) < 28 {
			if p.Toggle && rng.IntN(100) < 55 {
				fast = !fast
			}
			emit(op{K: oReopen, Fast: fast})
		}
		if p.Admin {
			if len(retained) >= 3 && rng.IntN(100) < 22 {
				idx := rng.IntN(len(retained) - 1)
				if rng.IntN(4) == 0 {
					idx = len(retained) - 2
				}
				to := retained[idx]
				emit(op{K: oPrune, Ver: to})
				keep := retained[:0:0]
				for _, v := range retained {
					if v > to {
						keep = append(keep, v)
					}
				}
				retained = keep
			}
			if len(retained) >= 2 && rng.IntN(100) < 18 {
				v := retained[rng.IntN(len(retained)-1)]
				o := op{K: oExcursion, Ver: v}
				var em bpgen.Model
				em.Load(snaps[v])
				for k := rng.IntN(6); k > 0; k-- {
					ki := rng.IntN(len(h.Keys))
					if rng.IntN(3) == 0 {
						o.Sub = append(o.Sub, op{K: oRemove, Key: ki})
					} else {
						prev, have := em.Get(h.Keys[ki])
						o.Sub = append(o.Sub, op{K: oSet, Key: ki, Val: genVal(rng, id, step, prev, have)})
					}
				}
				emit(o)
			}
			if len(retained) >= 2 && rng.IntN(100) < 12 {
				// replay the session of a retained version whose predecessor is retained too
				var cands []int64
				for i := 0; i+1 < len(retained); i++ {
					if retained[i]+1 == retained[i+1] {
						cands = append(cands, retained[i])
					}
				}
				if len(cands) > 0 {
					v := cands[rng.IntN(len(cands))]
					emit(op{K: oReplay, Ver: v, Sub: sessions[v+1]})
				}
			}
		}
	}
	return h
}

// model replays the history on the reference model alone (no tree): every
// version's contents. Independent of the generator's bookkeeping.
func (h *history) model() *vmodel {
	vm := &vmodel{snaps: map[int64]bpgen.Snapshot{}}
	var m bpgen.Model
	for _, o := range h.Ops {
		switch o.K {
		case oSet:
			m.Set(h.Keys[o.Key], o.Val)
		case oRemove:
			m.Remove(h.Keys[o.Key])
		case oSave:
			vm.latest++
			vm.snaps[vm.latest] = m.Snapshot()
		case oRollback, oReopen:
			if vm.latest == 0 {
				m.Load(nil)
			} else {
				m.Load(vm.snaps[vm.latest])
			}
		}
	}
	return vm
}
