package c26

import (
	"fmt"
	"math/rand/v2"

	abci "github.com/gnolang/gno/tm2/pkg/bft/abci/types"
	dbm "github.com/gnolang/gno/tm2/pkg/db"
	"github.com/gnolang/gno/tm2/pkg/db/memdb"
	storebp "github.com/gnolang/gno/tm2/pkg/store/bptree"
	"github.com/gnolang/gno/tm2/pkg/store/rootmulti"
	stypes "github.com/gnolang/gno/tm2/pkg/store/types"

	"verifharness/internal/vf"
)

// runSeqMulti: workload 1 at the store level. The history is driven through a
// rootmulti store (CollectingDB; every Commit is one WriteSync) whose bptree
// mount is FastStoreConstructor or, after a restart with the feature toggled
// off, StoreConstructor. After every restart — BEFORE the first commit, the
// window in which a rebuild only sits in the collector while the query snapshot
// still holds the old on-disk stamp — and after every commit, the query views
// (MultiImmutableCacheWrapWithVersion, QueryImmutable) of all retained versions
// are compared with the model and the fast-index-off walk of the durable image.
func runSeqMulti(c *vf.Ctx, st *stats, id int, rng *rand.Rand, snap, mountDB bool, keepRecent int64, p genParams) {
	h := genHistory(rng, id, p)
	vm := h.model()
	base := memdb.NewMemDB()
	db := &hookDB{DB: base, noSnap: !snap}
	key := stypes.NewStoreKey("main")
	opts := stypes.StoreOptions{PruningOptions: stypes.PruneNothing}
	if keepRecent >= 0 {
		opts.PruningOptions = stypes.NewPruningOptions(keepRecent, 0)
	}
	prefix := []byte("s/k:main/")
	if mountDB {
		prefix = []byte("s/_/")
	}
	cfg := fmt.Sprintf("snapshots=%v mountdb=%v keeprecent=%d", snap, mountDB, keepRecent)
	var ms stypes.CommitMultiStore
	fast := h.StartFast
	var latest int64
	step := 0
	where := func() map[string]any {
		return map[string]any{"history": h.ID, "params": h.Params, "config": cfg, "start_fast": h.StartFast, "step": step, "live_fast": fast,
			"committed": latest, "ops": h.log(step), "keys": keyList(h.Keys)}
	}
	failed := false
	fail := func(k string, format string, args ...any) {
		failed = true
		c.Violation(k, where(), "[seq-multi] history %d (%s; %s) step %d: %s", h.ID, h.Params, cfg, step, fmt.Sprintf(format, args...))
	}
	open := func(f bool) {
		if ms != nil {
			if cl, ok := ms.(interface{ Close() error }); ok {
				cl.Close()
			}
		}
		fast = f
		cons := storebp.StoreConstructor
		if f {
			cons = storebp.FastStoreConstructor
		}
		m := rootmulti.NewMultiStore(db)
		m.SetStoreOptions(opts)
		var mdb dbm.DB
		if mountDB {
			mdb = db
		}
		m.MountStoreWithDB(key, cons, mdb)
		if err := m.LoadLatestVersion(); err != nil {
			fail("live-load-failed", "rootmulti LoadLatestVersion (fast=%v): %v", f, err)
			return
		}
		if got := m.LastCommitID().Version; got != latest {
			fail("live-load-failed", "rootmulti loaded version %d, want %d", got, latest)
		}
		ms = m
	}
	views := func(when string) {
		if failed || latest == 0 {
			return
		}
		sw := &sweeper{c: c, st: st, h: h, vm: vm, tag: "seq-multi", rng: rng, db: dbm.NewPrefixDB(base, prefix),
			where: func() map[string]any { w := where(); w["when"] = when; return w }}
		if !sw.buildAuth(latest, latest, false) {
			failed = true
			return
		}
		suffix := ""
		if !fast {
			suffix = "[feature-off]"
		}
		for _, v := range sw.versions {
			p := vf.Try(func() {
				cms, release, err := ms.MultiImmutableCacheWrapWithVersion(v)
				if err != nil {
					sw.violation("readonly-load-failed:multi.ImmutableCacheWrap", map[string]any{"version": v, "error": err.Error()}, "query view at retained version %d: %v", v, err)
					return
				}
				defer release()
				s := cms.GetStore(key)
				for _, k := range sw.keys {
					sw.check("multi.ImmutableCacheWrap"+suffix, v, k, s.Get(nil, k), nil)
				}
			})
			if p != nil {
				sw.violation("panic:multi.ImmutableCacheWrap", map[string]any{"version": v, "panic": fmt.Sprint(p)}, "query view at version %d panicked: %v", v, p)
			}
			if q, ok := ms.(stypes.ImmutableQueryer); ok && rng.IntN(3) == 0 {
				p := vf.Try(func() {
					for _, k := range sw.keys {
						res, err := q.QueryImmutable(abci.RequestQuery{Path: "/main/key", Data: k, Height: v})
						if err == nil && (res.Error != nil || res.Log != "") {
							err = fmt.Errorf("error=%v log=%q", res.Error, res.Log)
						}
						sw.check("multi.QueryImmutable"+suffix, v, k, res.Value, err)
					}
				})
				if p != nil {
					sw.violation("panic:multi.QueryImmutable", map[string]any{"version": v, "panic": fmt.Sprint(p)}, "QueryImmutable at version %d panicked: %v", v, p)
				}
			}
		}
		// the live store itself (consensus-path reads of the clean working tree)
		if p := vf.Try(func() {
			s := ms.GetCommitStore(key)
			for _, k := range sw.keys {
				sw.check("multi.live.Get"+suffix, latest, k, s.Get(nil, k), nil)
			}
		}); p != nil {
			sw.violation("panic:multi.live.Get", map[string]any{"panic": fmt.Sprint(p)}, "live store Get panicked: %v", p)
		}
		// and the tree-level query path straight on the durable image
		sw.readonlySurfaces()
		if sw.failed {
			failed = true
		}
	}

	open(h.StartFast)
	if failed {
		return
	}
	cms := ms.MultiCacheWrap()
	s := cms.GetStore(key)
	perr := vf.Try(func() {
		for step = 0; step < len(h.Ops) && !failed; step++ {
			o := h.Ops[step]
			switch o.K {
			case oSet:
				s.Set(nil, h.Keys[o.Key], o.Val)
			case oRemove:
				s.Delete(nil, h.Keys[o.Key])
			case oRollback:
				cms = ms.MultiCacheWrap()
				s = cms.GetStore(key)
			case oSave:
				cms.MultiWrite()
				cid := ms.Commit()
				if cid.Version != latest+1 {
					fail("live-op-error", "Commit -> version %d, want %d", cid.Version, latest+1)
					return
				}
				latest = cid.Version
				st.counts["multi:commits"]++
				if rng.IntN(3) == 0 {
					views("after-commit")
				}
				cms = ms.MultiCacheWrap()
				s = cms.GetStore(key)
			case oReopen:
				if o.Fast != fast {
					st.counts["multi:toggles"]++
				}
				st.counts["multi:restarts"]++
				open(o.Fast)
				if failed {
					return
				}
				views("after-restart-before-first-commit")
				cms = ms.MultiCacheWrap()
				s = cms.GetStore(key)
			}
		}
	})
	if perr != nil {
		fail("panic:multi-live", "%v", perr)
	}
	step = len(h.Ops) - 1
	views("end")
	if ms != nil {
		if cl, ok := ms.(interface{ Close() error }); ok {
			cl.Close()
		}
	}
	st.counts["histories:seq-multi"]++
}
