// Package c26: the B+ tree fast index never serves a stale value.
//
// Oracle: (a) a per-version reference model (sorted slice per saved version,
// computed from the operation list alone) and (b) a twin read through a tree
// opened on the same DB with the fast index DISABLED — the authoritative tree
// walk. Every point read served by a tree / store opened WITH the fast index
// must equal both for the version being read.
//
// Workloads:
//  1. sequential histories (tree level and through rootmulti): sets,
//     overwrites, removes, saves, rollbacks, restarts (clean and with a lost
//     dirty session) with the feature toggled between restarts (documented as
//     supported: fast_index.go "a node may toggle it without forking",
//     ensureFastIndex rebuilds a stamp that is missing or behind), pruning,
//     excursions to old versions, idempotent replays; after each step all
//     retained versions are read through every fast surface.
//  2. crash points: the image after every physical write unit is reopened with
//     the fast index enabled (query path, restart, restart + one more commit).
//  3. concurrency under -race: a committing writer against query-path readers,
//     with the writer parked at each point of the commit and with commits
//     landed between two reads of one reader load.
package c26

import (
	"math/rand/v2"
	"os"
	"sort"
	"strconv"
	"strings"
	"sync"
	"sync/atomic"
	"time"

	"verifharness/checks/c23/bpgen"
	"verifharness/internal/vf"
)

func init() {
	vf.Register(&vf.Check{
		ID:    "C26",
		Level: "exploration",
		Rule: "evaluation = one point read (surface, version read, key) served by a tree or store opened with the fast index enabled, compared with the per-version model " +
			"and with the fast-index-off walk of the same DB image; surfaces: live tree Get / GetImmutable / GetVersioned / LoadVersion+Get, fresh LoadReadonly+GetImmutable (query path), " +
			"bptree store immutable views and live store (Get, GetImmutable, Query), long-lived views held across later commits, rootmulti MultiImmutableCacheWrapWithVersion / QueryImmutable, " +
			"restart on a copy of the image (Load, may rebuild; then one more commit). " +
			"Histories are seeded (5-320 keys, 8-30 versions; sets, overwrites incl. identical and empty values, removes, re-adds, rollbacks, clean and dirty restarts, feature toggled between restarts, " +
			"prunes, old-version excursions with discarded or refused writes, idempotent replays); crash points = EVERY physical write unit of a history (enumerated exhaustively per history); schedules = writer parked at each commit point " +
			"and commits landed inside a reader's load, plus free-running readers. " +
			"non-trivial = the key's value (or presence) at the version read differs from its value at the latest committed version of that DB image, or the read is of the latest version and the key " +
			"changed in that very commit — i.e. a stale or too-new index entry would be visible; distinct by (workload, history, version read, latest version, key)",
		Run: run,
	})
}

type job struct {
	kind string
	id   int
	p    genParams
	// conc / multi configuration
	slow, snap, mountDB bool
	keepRecent          int64
	readers             int
}

func pickParams(rng *rand.Rand, sizes []int, vLo, vHi int) genParams {
	nk := sizes[rng.IntN(len(sizes))]
	p := genParams{
		NKeys:     nk,
		NVersions: vLo + rng.IntN(vHi-vLo+1),
		MaxSess:   3 + rng.IntN(6),
		Toggle:    rng.IntN(10) < 7,
		Admin:     rng.IntN(10) < 7,
		StartFast: rng.IntN(10) < 7,
		KeyMode:   bpgen.KeyMode(rng.IntN(int(bpgen.NumModes))),
	}
	if nk > 40 {
		p.MaxSess = 6 + rng.IntN(nk/6)
	}
	return p
}

func run(c *vf.Ctx) {
	jr := c.Rng(1)
	var jobs []job
	id := 0
	add := func(j job) { id++; j.id = id; jobs = append(jobs, j) }
	nSeq, nCrash, nMulti := c.N(108, 1400), c.N(72, 900), c.N(36, 500)
	for i := 0; i < nSeq; i++ {
		add(job{kind: "seq", p: pickParams(jr, []int{5, 5, 12, 12, 30, 30, 60, 140, 320}, 10, 30)})
	}
	for i := 0; i < nCrash; i++ {
		p := pickParams(jr, []int{5, 12, 30, 80}, 8, 14)
		p.Toggle, p.Admin = jr.IntN(10) < 8, jr.IntN(10) < 8
		add(job{kind: "crash", p: p})
	}
	for i := 0; i < nMulti; i++ {
		p := pickParams(jr, []int{5, 12, 30, 80}, 10, 24)
		p.Admin = false
		p.Toggle = jr.IntN(10) < 8
		kr := []int64{-1, -1, 2, 5}[jr.IntN(4)]
		add(job{kind: "seq-multi", p: p, snap: jr.IntN(2) == 0, mountDB: jr.IntN(2) == 0, keepRecent: kr})
	}
	var kindNS sync.Map
	addNS := func(kind string, t0 time.Time) {
		v, _ := kindNS.LoadOrStore(kind, new(atomic.Int64))
		v.(*atomic.Int64).Add(int64(time.Since(t0)))
	}
	defer func() {
		kindNS.Range(func(k, v any) bool {
			c.Logf("job wall-seconds (sum over jobs) %s: %.1f", k, float64(v.(*atomic.Int64).Load())/1e9)
			return true
		})
	}()
	// debugging aid: C26_ONLY=<history id>[,<id>...] runs only those histories (the run is then never a pass)
	only := map[int]bool{}
	for _, f := range strings.Split(os.Getenv("C26_ONLY"), ",") {
		if n, err := strconv.Atoi(strings.TrimSpace(f)); err == nil {
			only[n] = true
		}
	}
	if len(only) > 0 {
		c.Inconclusive("C26_ONLY debug filter active")
	}
	c.Parallel(len(jobs), 16, 100, func(i int, rng *rand.Rand) {
		j := jobs[i]
		if len(only) > 0 && !only[j.id] {
			return
		}
		st := newStats()
		defer addNS(j.kind, time.Now())
		switch j.kind {
		case "seq":
			runSeq(c, st, j.id, rng, j.p)
		case "crash":
			runCrash(c, st, j.id, rng, j.p)
		case "seq-multi":
			runSeqMulti(c, st, j.id, rng, j.snap, j.mountDB, j.keepRecent, j.p)
		}
		st.flush(c)
	})
	c.Logf("sequential + crash workloads done: %d reads", c.Counter("reads"))

	// concurrency scenarios (each is a writer plus several reader goroutines)
	var cj []job
	nCT, nCM := c.N(18, 200), c.N(12, 120)
	for i := 0; i < nCT; i++ {
		p := genParams{NKeys: []int{6, 16, 40}[jr.IntN(3)], NVersions: c.N(22, 40), MaxSess: 2 + jr.IntN(6), StartFast: true, Plain: true, KeyMode: bpgen.KeyMode(jr.IntN(int(bpgen.NumModes)))}
		id++
		cj = append(cj, job{kind: "conc-tree", id: id, p: p, slow: i%2 == 1, readers: 3 + jr.IntN(3)})
	}
	for i := 0; i < nCM; i++ {
		p := genParams{NKeys: []int{6, 16, 40}[jr.IntN(3)], NVersions: c.N(20, 36), MaxSess: 2 + jr.IntN(6), StartFast: true, Plain: true, KeyMode: bpgen.KeyMode(jr.IntN(int(bpgen.NumModes)))}
		id++
		snap := i%2 == 0
		cj = append(cj, job{kind: "conc-multi", id: id, p: p, snap: snap, slow: !snap && i%4 == 1, mountDB: jr.IntN(2) == 0,
			keepRecent: []int64{-1, 4}[jr.IntN(2)], readers: 3 + jr.IntN(3)})
	}
	c.Parallel(len(cj), 5, 5000, func(i int, rng *rand.Rand) {
		j := cj[i]
		if len(only) > 0 && !only[j.id] {
			return
		}
		st := newStats()
		defer addNS(j.kind, time.Now())
		switch j.kind {
		case "conc-tree":
			runConcTree(c, st, j.id, rng, j.slow, j.readers, j.p)
		case "conc-multi":
			runConcMulti(c, st, j.id, rng, j.snap, j.slow, j.mountDB, j.keepRecent, j.readers, j.p)
		}
		st.flush(c)
	})

	c.Assume("batches are crash-atomic (memdb / LevelDB / Pebble semantics): a crash image is the state after a whole physical write unit, never a torn batch")
	c.Assume("for live readers, batch VISIBILITY is additionally exercised op by op in staging order (dbm.Batch: 'may or may not be written atomically depending on the backend'); a violation seen only there carries slowbatch=true in its witness")
	c.Assume("the reference model is a sorted slice per saved version, computed from the operation list without touching the tree")
	c.Assume("reader rounds beyond the parked minimum depend on scheduling; writer histories, park points and window classes are functions of (seed, tier)")
	c.Assume("feature toggling between restarts is exercised because fast_index.go documents it as supported; a bare working-tree Get after LoadReadonly/LoadVersion without a prior Load is documented as outside the trust contract and is not asserted")
	sampleCases(c)

	// ---- minimum coverage ----
	for _, n := range []string{
		"nontrivial:old-version-read-of-key-removed-later",
		"nontrivial:old-version-read-of-key-added-later",
		"nontrivial:old-version-read-of-key-overwritten-later",
		"nontrivial:latest-read-of-key-removed-in-last-commit",
		"nontrivial:latest-read-of-key-overwritten-in-last-commit",
		"nontrivial:old-version-read-differs-from-latest",
		"nontrivial:newest-version-read-of-key-changed-in-that-commit",
	} {
		c.RequireCounter(n, int64(c.N(2000, 20000)))
	}
	for _, n := range []string{"op:set", "op:remove-present", "op:remove-absent", "op:save-fast-on", "op:save-fast-off", "op:rollback", "op:reopen-dirty",
		"op:reopen-clean", "op:toggle-on", "op:toggle-off", "op:prune", "op:excursion", "op:replay", "op:refused-save", "multi:toggles", "multi:restarts"} {
		c.RequireCounter(n, int64(c.N(10, 100)))
	}
	for _, s := range []string{"live.Get", "live.GetImmutable", "live.GetVersioned", "live.LoadVersion.Get", "live.Replay.Get", "ro.GetImmutable", "ro.GetVersioned",
		"store.imm.LoadVersion", "store.imm.LoadLatestVersion", "store.imm.Query", "restart.Get", "restart.GetImmutable", "restart.LoadVersion.Get",
		"store.live.Get", "store.live.GetImmutable", "store.live.Query", "store.live.LoadVersion.Get", "cont.Get", "cont.GetImmutable",
		"held.GetImmutableUnregistered", "held.store.imm",
		"multi.ImmutableCacheWrap", "multi.QueryImmutable", "multi.live.Get",
		"conc.shared.GetImmutable", "conc.shared.GetImmutableUnregistered", "conc.shared.GetVersioned", "conc.ro.GetImmutable",
		"conc.store.imm.LoadVersion", "conc.store.imm.LoadLatestVersion", "conc.multi.ImmutableCacheWrap", "conc.multi.QueryImmutable"} {
		c.RequireCounter("nontrivial_reads:"+s, int64(c.N(100, 1000)))
	}
	c.RequireCounter("crash_images_checked", int64(c.N(450, 4500)))
	c.RequireCounter("crash_images_new_version_durable", int64(c.N(150, 1500)))
	c.RequireCounter("crash_units_multi_op", int64(c.N(300, 3000)))
	c.RequireCounter("continuations", int64(c.N(450, 4500)))
	c.RequireCounter("kill_crosschecks", int64(c.N(20, 200)))
	c.RequireCounter("parks", int64(c.N(150, 1500)))
	for _, p := range []string{"session-staged", "batch-staged-nothing-durable", "index-entries-visible-nodes-not-yet", "nodes-visible-root-not-yet", "root-visible-stamp-not-yet",
		"batch-durable-memory-not-bumped", "commit-returned", "multi:drained-batch-not-written", "multi:written-snapshot-not-refreshed", "multi:commit-returned"} {
		c.RequireCounter("park:"+p, int64(c.N(8, 80)))
	}
	for _, cl := range []string{"M", "R", "B", "F"} {
		c.RequireCounter("windows:hit:"+cl, int64(c.N(3, 30)))
	}
}

// sampleCases records a few literal evaluated cases (recomputed from the seed:
// the first sequential history, its first versions).
func sampleCases(c *vf.Ctx) {
	jr := c.Rng(1)
	p := pickParams(jr, []int{5, 12, 30, 60, 140, 320}, 10, 30)
	h := genHistory(c.Rng(100), 1, p)
	vm := h.model()
	n := 0
	var vs []int64
	for v := range vm.snaps {
		vs = append(vs, v)
	}
	sort.Slice(vs, func(i, j int) bool { return vs[i] < vs[j] })
	for _, v := range vs {
		if v == vm.latest || n >= 4 {
			continue
		}
		for _, k := range h.Keys {
			a, aok := lookup(vm.snaps[v], k)
			b, bok := lookup(vm.snaps[vm.latest], k)
			if aok != bok || string(a) != string(b) {
				c.Sample(map[string]any{"workload": "seq", "history": h.ID, "params": h.Params, "surface": "ro.GetImmutable", "version_read": v, "latest": vm.latest,
					"key": vf.Hex(k), "value_at_version_read": valStr(a, aok), "value_at_latest": valStr(b, bok)})
				n++
				break
			}
		}
	}
	c.Set("ops_of_first_history", strings.Join(h.log(min(len(h.Ops)-1, 40)), " "))
}
