package c13

import "strconv"

const (
	PaPath      = "gno.land/r/verif/pa"
	PbPath      = "gno.land/r/verif/pb"
	PlibPath    = "gno.land/p/verif/plib"
	SysUserPath = "gno.land/r/verif/sysuser"
	GovImplPath = "gno.land/r/verif/govimpl"
	SysParams   = "gno.land/r/sys/params"
	LookalikeP  = "gno.land/r/sys/params2"
)

// SetterKinds are the chain/params entry points.
var SetterKinds = []string{"string", "bool", "int64", "uint64", "bytes", "strings", "update+", "update-"}

func setterSrc(pkg string, extraImport string, extra string) string {
	return `package ` + pkg + `

import (
	"chain/params"
	"strconv"
	"strings"
` + extraImport + `
)

var Writes int

func do(kind, key, val string) {
	switch kind {
	case "string":
		params.SetString(key, val)
	case "bool":
		params.SetBool(key, val == "true")
	case "int64":
		n, _ := strconv.Atoi(val)
		params.SetInt64(key, int64(n))
	case "uint64":
		n, _ := strconv.Atoi(val)
		params.SetUint64(key, uint64(n))
	case "bytes":
		if val == "" {
			params.SetBytes(key, nil)
		} else {
			params.SetBytes(key, []byte(val))
		}
	case "strings":
		params.SetStrings(key, strings.Split(val, ","))
	case "update+":
		params.UpdateParamStrings(key, strings.Split(val, ","), true)
	case "update-":
		params.UpdateParamStrings(key, strings.Split(val, ","), false)
	default:
		panic("unknown kind " + kind)
	}
}
` + extra
}

const realmExtra = `
func Set(cur realm, kind, key, val string) string {
	Writes++
	do(kind, key, val)
	return "ok"
}

// Try swallows the panic of a rejected write and lets the transaction commit.
func Try(cur realm, kind, key, val string) (out string) {
	Writes++
	defer func() {
		if r := recover(); r != nil {
			out = "recovered"
		}
	}()
	do(kind, key, val)
	return "ok"
}
`

const paExtra = realmExtra + `
func ViaLib(cur realm, kind, key, val string) string {
	Writes++
	plib.Do(kind, key, val)
	return "ok"
}

func ViaPeer(cur realm, kind, key, val string) string {
	Writes++
	return pb.Set(cross(cur), kind, key, val)
}

// a /p/ method whose receiver object is stored in the peer realm
func ViaPeerObj(cur realm, kind, key, val string) string {
	Writes++
	pb.Cfg.Do(kind, key, val)
	return "ok"
}

// a /p/ closure stored in the peer realm
func ViaPeerClosure(cur realm, kind, key, val string) string {
	Writes++
	pb.Doer(kind, key, val)
	return "ok"
}

func ViaSub(cur realm, kind, key, val string) string {
	Writes++
	sub := cur.Sub("s1")
	return pb.Set(cross(sub), kind, key, val)
}

// Both writes in this realm and then in the peer.
func Both(cur realm, kind, key, val string) string {
	Writes++
	do(kind, key, val)
	return pb.Set(cross(cur), kind, key, val)
}
`

const plibExtra = `
func Do(kind, key, val string) { do(kind, key, val) }

// Pub is a helper object: whoever stores it lends its storage realm to Do
// (the writing realm is still the one that called).
type Pub struct{ Name string }

func NewPub(name string) *Pub { return &Pub{Name: name} }

func (p *Pub) Do(kind, key, val string) { do(kind, key, val) }

// MakeDoer returns a closure declared here; it may be stored in any realm.
func MakeDoer() func(kind, key, val string) {
	return func(kind, key, val string) { do(kind, key, val) }
}
`

const pbExtra = realmExtra + `
// helper objects of the pure package, stored in THIS realm and reachable by others
var (
	Cfg  = plib.NewPub("pb")
	Doer = plib.MakeDoer()
)
`

// PaSrc, PbSrc, PlibSrc are the generated parameter writers.
func PaSrc() string {
	return setterSrc("pa", "\t\"gno.land/p/verif/plib\"\n\t\"gno.land/r/verif/pb\"\n", paExtra)
}
func PbSrc() string   { return setterSrc("pb", "\t\"gno.land/p/verif/plib\"\n", pbExtra) }
func PlibSrc() string { return setterSrc("plib", "", plibExtra) }

// SysUserSrc imports the restricted sys/params standard library from an ordinary realm.
const SysUserSrc = `package sysuser

import prms "sys/params"

func SetString(cur realm, module, sub, name, val string) {
	prms.SetSysParamString(module, sub, name, val)
}

func SetInt64(cur realm, module, sub, name string, val int64) {
	prms.SetSysParamInt64(module, sub, name, val)
}

func SetStrings(cur realm, module, sub, name, val string) {
	prms.SetSysParamStrings(module, sub, name, []string{val})
}

func SetBytes(cur realm, module, sub, name, val string) {
	prms.SetSysParamBytes(module, sub, name, []byte(val))
}

func SetBool(cur realm, module, sub, name string, val bool) {
	prms.SetSysParamBool(module, sub, name, val)
}

func Update(cur realm, module, sub, name, val string) {
	prms.UpdateSysParamStrings(module, sub, name, []string{val}, true)
}

func Get(cur realm, module, sub, name string) string {
	v, _ := prms.GetSysParamString(module, sub, name)
	return v
}

// TrySetString swallows the guard's panic.
func TrySetString(cur realm, module, sub, name, val string) (out string) {
	defer func() {
		if r := recover(); r != nil {
			out = "recovered"
		}
	}()
	prms.SetSysParamString(module, sub, name, val)
	return "ok"
}
`

// LookalikeSrc is SysUserSrc's core at a path that only resembles the system realm.
const LookalikeSrc = `package params2

import prms "sys/params"

func SetString(cur realm, module, sub, name, val string) {
	prms.SetSysParamString(module, sub, name, val)
}
`

// GovImplSrc is a minimal GovDAO implementation for the real r/gov/dao proxy:
// every proposal is immediately executable (the voting rule is not under test,
// the path proposal -> executor -> r/sys/params -> sys/params natives is).
const GovImplSrc = `package govimpl

import "gno.land/r/gov/dao"

type impl struct{}

func (impl) PreCreateProposal(_ int, rlm realm, r dao.ProposalRequest) (address, error) {
	return rlm.Previous().Address(), nil
}
func (impl) PostCreateProposal(_ int, rlm realm, r dao.ProposalRequest, pid dao.ProposalID) {}
func (impl) VoteOnProposal(_ int, rlm realm, r dao.VoteRequest) error                  { return nil }
func (impl) PreExecuteProposal(_ int, rlm realm, pid dao.ProposalID) (bool, error)      { return true, nil }
func (impl) ExecuteProposal(_ int, rlm realm, pid dao.ProposalID, e dao.Executor) error {
	return e.Execute(cross(rlm))
}
func (impl) Render(cur realm, pkgpath string, path string) string { return "verif dao" }

func Install(cur realm) {
	dao.UpdateImpl(cross(cur), dao.NewUpdateRequest(impl{}, []string{"gno.land/r/verif/govimpl"}))
}
`

// runDirect is a MsgRun body whose main calls the chain/params setter itself.
func runDirect(kind, key, val string, crossing bool) string {
	sig := "func main(cur realm) {"
	if !crossing {
		sig = "func main() {"
	}
	return "package main\n\nimport (\n\t\"chain/params\"\n\t\"strings\"\n)\n\n" + sig + "\n\t" + directCall(kind, key, val) + "\n\t_ = strings.Split\n}\n"
}

func directCall(kind, key, val string) string {
	k := strconv.Quote(key)
	switch kind {
	case "string":
		return "params.SetString(" + k + ", " + strconv.Quote(val) + ")"
	case "bool":
		return "params.SetBool(" + k + ", true)"
	case "int64":
		return "params.SetInt64(" + k + ", 7)"
	case "uint64":
		return "params.SetUint64(" + k + ", 7)"
	case "bytes":
		return "params.SetBytes(" + k + ", []byte(" + strconv.Quote(val+"x") + "))"
	case "strings":
		return "params.SetStrings(" + k + ", strings.Split(" + strconv.Quote(val) + ", \",\"))"
	case "update+":
		return "params.UpdateParamStrings(" + k + ", []string{" + strconv.Quote(val) + "}, true)"
	default:
		return "params.UpdateParamStrings(" + k + ", []string{" + strconv.Quote(val) + "}, false)"
	}
}

// runViaRealm is a MsgRun body that calls realm pa.
func runViaRealm(kind, key, val string) string {
	return "package main\n\nimport \"gno.land/r/verif/pa\"\n\nfunc main(cur realm) {\n\tprintln(pa.Set(cross(cur), " + strconv.Quote(kind) + ", " + strconv.Quote(key) + ", " + strconv.Quote(val) + "))\n}\n"
}

// runViaLib is a MsgRun body that calls the /p/ helper directly.
func runViaLib(kind, key, val string) string {
	return "package main\n\nimport \"gno.land/p/verif/plib\"\n\nfunc main(cur realm) {\n\tplib.Do(" + strconv.Quote(kind) + ", " + strconv.Quote(key) + ", " + strconv.Quote(val) + ")\n}\n"
}

// initWriter is a package whose init() writes a parameter.
func initWriter(name, kind, key, val string) string {
	return "package " + name + "\n\nimport (\n\t\"chain/params\"\n\t\"strings\"\n)\n\nvar Done bool\n\nfunc init() {\n\t" + directCall(kind, key, val) + "\n\t_ = strings.Split\n\tDone = true\n}\n"
}

// runSys is a MsgRun body that calls the restricted natives itself.
func runSys(module, sub, name, val string) string {
	return "package main\n\nimport prms \"sys/params\"\n\nfunc main(cur realm) {\n\tprms.SetSysParamString(" + strconv.Quote(module) + ", " + strconv.Quote(sub) + ", " + strconv.Quote(name) + ", " + strconv.Quote(val) + ")\n}\n"
}

// runGov is a MsgRun body that creates a proposal from a r/sys/params request constructor and executes it.
func runGov(expr string, execute bool) string {
	s := "package main\n\nimport (\n\t\"gno.land/r/gov/dao\"\n\t\"gno.land/r/sys/params\"\n)\n\nfunc main(cur realm) {\n\tpid := dao.MustCreateProposal(cross(cur), params." + expr + ")\n"
	if execute {
		s += "\tprintln(dao.ExecuteProposal(cross(cur), pid))\n"
	} else {
		s += "\tprintln(int64(pid))\n"
	}
	return s + "}\n"
}
