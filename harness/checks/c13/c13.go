// Package c13: chain parameters are written only by their owners.
//
// One transaction per block on the real gno.land application; before and after
// every transaction all parameter keys of the main store ("/pv/...") are read
// through an independent read-only view and diffed.
//
//   - Generated realms (pa, pb), a /p/ helper invoked by a realm, a cross-call
//     chain pa -> pb (also under a sub-realm identity), MsgRun scripts (direct,
//     through a realm, through the /p/ helper), init() of freshly deployed
//     packages and panic-swallowing callers call every chain/params setter with a
//     dictionary of keys. A successful transaction whose parameter activity comes
//     from realm R may change only "/pv/vm:<R>:<key>" (key non-empty, without ':')
//     and R's byte meter "/pv/_realmmeta_<R>"; a failed transaction changes nothing;
//     keys outside the key grammar must be rejected by the API itself.
//   - The restricted sys/params natives are called from ordinary realms, from a
//     realm at a look-alike path and from MsgRun: must fail, nothing changes.
//   - Module parameters are driven the way governance does: the repository's real
//     r/gov/dao proxy and r/sys/params realm are deployed at genesis, proposals are
//     created from the r/sys/params request constructors and executed; a valid
//     value changes exactly the named key, an invalid value (or unknown key /
//     module / wrong type / reserved valset family) is rejected and changes nothing.
//   - After every block the auth, bank and vm parameter structs decoded from the
//     committed store pass their Validate().
package c13

import (
	"fmt"
	"math/rand/v2"
	"os"
	"sort"
	"strings"

	"github.com/gnolang/gno/gno.land/pkg/sdk/vm"
	"github.com/gnolang/gno/tm2/pkg/sdk"
	"github.com/gnolang/gno/tm2/pkg/sdk/auth"
	"github.com/gnolang/gno/tm2/pkg/sdk/bank"
	"github.com/gnolang/gno/tm2/pkg/std"

	"verifharness/checks/c12/exload"
	"verifharness/internal/audit"
	"verifharness/internal/chainsim"
	"verifharness/internal/vf"
)

func init() {
	vf.Register(&vf.Check{
		ID:    "C13",
		Level: "exploration",
		Rule: "case = one transaction with parameter activity: (caller kind: realm, panic-swallowing realm, /p/ helper invoked by a realm, cross-call pa->pb, cross-call under a sub-realm identity, write in both realms, MsgRun direct / through a realm / through the /p/ helper, init() of a new realm or /p/ package, two-message txs) " +
			"x (setter: SetString, SetBool, SetInt64, SetUint64, SetBytes incl. delete, SetStrings, UpdateParamStrings add/remove) x (key dictionary: plain keys, ':' forms, empty, module names and full module keys, another realm's path and full key, _realmmeta_ keys, NUL, 5000-byte key, unicode, '/', '#', '/pv/' prefix); " +
			"sys/params natives from non-system realms; governance proposals through the real r/gov/dao + r/sys/params with valid and invalid values; " +
			"oracle = per-transaction diff of all /pv/ keys against the caller's own namespace; non-trivial = anything but a plain key written by a plain realm call; distinct by (history seed, op index)",
		Run: run,
	})
}

// Op is one generated transaction.
type Op struct {
	Kind   string   `json:"kind"`             // set | set2 | sys | gov | valset | realgov
	Caller string   `json:"caller,omitempty"` // realm | try | plib | peer | sub | both | run-direct | run-direct-nc | run-realm | run-plib | init-realm | init-pure
	Setter string   `json:"setter,omitempty"`
	Key    string   `json:"key"`
	Val    string   `json:"val,omitempty"`
	Signer string   `json:"signer"`
	Fail2  bool     `json:"second_msg_fails,omitempty"`
	Sys    []string `json:"sys,omitempty"` // sys: how, module, sub, name, val
	Gov    *govCase `json:"gov,omitempty"`
	OK     bool     `json:"ok"`
	Data   string   `json:"data,omitempty"`
	Err    string   `json:"err,omitempty"`
	Diff   []string `json:"changed_keys,omitempty"`
}

type govCase struct {
	Label  string `json:"label"`
	Expr   string `json:"expr"`
	Module string `json:"module"`
	Sub    string `json:"sub"`
	Name   string `json:"name"`
	Valid  bool   `json:"valid"`
}

type scenario struct {
	name string
	gov  string // "" | mini | real
	n    int
}

type runner struct {
	c       *vf.Ctx
	sc      scenario
	seed    uint64
	rng     *rand.Rand
	ch      *chainsim.Chain
	ops     []*Op
	prev    map[string]string
	nInit   int
	nPid    int
	stop    bool
	sampled map[string]bool
}

var users = []string{"alice", "bob", "carol"}

const govName = "gov"

var fee = chainsim.Fee(300_000_000, 1_000_000)

var dbg = os.Getenv("VERIF_C13_DEBUG") != ""

func run(c *vf.Ctx) {
	var scen []scenario
	if c.Quick() {
		scen = []scenario{{"realms", "", 240}, {"realms", "", 240}, {"gov", "mini", 220}}
	} else {
		for i := 0; i < 6; i++ {
			scen = append(scen, scenario{"realms", "", 2500})
		}
		scen = append(scen, scenario{"gov", "mini", 1800}, scenario{"gov", "mini", 1800}, scenario{"realgov", "real", 150})
	}
	c.Parallel(len(scen), 6, 1300, func(i int, rng *rand.Rand) {
		r := &runner{c: c, sc: scen[i], seed: uint64(c.Seed)*100 + uint64(i), rng: rng}
		r.play()
	})
	c.Assume("one transaction per block, so the diff of the committed parameter keys is a per-transaction diff (EndBlocker writes only the chain-managed node:valset keys when a valset proposal is pending, which the histories never create)")
	c.Assume("the GovDAO implementation loaded into the real r/gov/dao proxy in the quick tier is a minimal always-executable one (the voting rule is not under test); the thorough tier adds a chain with the repository's GovDAO v3 (create, vote, execute as separate transactions)")
	c.Assume("a governance proposal may name any <module>:<submodule>:<name> key, including a realm-scoped vm:<realm>:<key>; that is the designated path and is checked to change exactly the named key")
	for _, k := range SetterKinds {
		c.RequireCounter("setter_ok:"+k, 2)
	}
	for _, k := range []string{"realm", "try", "plib", "peer", "sub", "both", "run-realm", "init-realm"} {
		c.RequireCounter("caller_ok:"+k, 1)
	}
	for _, k := range []string{"run-direct", "run-plib"} {
		c.RequireCounter("caller_seen:"+k, 1)
	}
	c.RequireCounter("keys_rejected_by_api", 10)
	c.RequireCounter("hostile_keys_confined_to_own_namespace", 15)
	c.RequireCounter("sys_native_calls_rejected", 5)
	c.RequireCounter("gov_valid_applied", 3)
	c.RequireCounter("gov_invalid_rejected", 8)
	c.RequireCounter("module_param_validations", 100)
	c.RequireCounter("failed_txs_with_unchanged_params", 20)
	c.RequireCounter("param_key_changes_observed", 80)
}

// ---------------------------------------------------------------------------------

func (r *runner) addr(n string) string { return r.ch.Acc(n).Addr.String() }

func (r *runner) start() {
	ch, err := chainsim.New(chainsim.Options{})
	if err != nil {
		panic(err)
	}
	r.ch = ch
	st := ch.DefaultGenState(append(append([]string{}, users...), govName)...)
	dep := ch.Acc(govName)
	switch r.sc.gov {
	case "mini":
		pkgs, err := exload.Load(vf.RepoRoot()+"/examples", SysParams)
		if err != nil {
			panic(err)
		}
		for _, p := range pkgs {
			tx := chainsim.GenesisAddPkgTx(dep, p.Path, nil)
			tx.Tx.Msgs[0] = vm.NewMsgAddPackage(dep.Addr, p.Path, p.MemFiles())
			st.Txs = append(st.Txs, tx)
		}
		st.Txs = append(st.Txs, chainsim.GenesisAddPkgTx(dep, GovImplPath, map[string]string{"govimpl.gno": GovImplSrc}))
	case "real":
		pkgs, err := exload.Load(vf.RepoRoot()+"/examples", SysParams, "gno.land/r/gov/dao/v3/init")
		if err != nil {
			panic(err)
		}
		for _, p := range pkgs {
			tx := chainsim.GenesisAddPkgTx(dep, p.Path, nil)
			tx.Tx.Msgs[0] = vm.NewMsgAddPackage(dep.Addr, p.Path, p.MemFiles())
			st.Txs = append(st.Txs, tx)
		}
	}
	st.Txs = append(st.Txs,
		chainsim.GenesisAddPkgTx(dep, PlibPath, map[string]string{"plib.gno": PlibSrc()}),
		chainsim.GenesisAddPkgTx(dep, PbPath, map[string]string{"pb.gno": PbSrc()}),
		chainsim.GenesisAddPkgTx(dep, PaPath, map[string]string{"pa.gno": PaSrc()}),
		chainsim.GenesisAddPkgTx(dep, SysUserPath, map[string]string{"sysuser.gno": SysUserSrc}),
		chainsim.GenesisAddPkgTx(dep, LookalikeP, map[string]string{"params2.gno": LookalikeSrc}),
	)
	resp := ch.InitChain(st)
	if resp.Error != nil {
		panic("initchain: " + resp.Error.Error())
	}
	for i, tr := range resp.TxResponses {
		if tr.Error != nil {
			panic(fmt.Sprintf("genesis tx %d failed: %s\n%s", i, tr.Error.Error(), clip(tr.Log, 1500)))
		}
	}
	ch.RunBlock()
	r.prev = r.readParams()
	switch r.sc.gov {
	case "mini":
		r.must("install dao implementation", chainsim.MsgCall(dep, GovImplPath, "Install"))
	case "real":
		r.must("init govdao v3", chainsim.MsgRun(dep, "package main\n\nimport dao \"gno.land/r/gov/dao/v3/init\"\n\nfunc main(cur realm) {\n\tdao.InitWithUsers(cross(cur), \""+dep.Addr.String()+"\")\n}\n"))
	}
}

func (r *runner) must(label string, msg std.Msg) {
	tr := r.ch.OneTx([]std.Msg{msg}, fee, r.ch.Acc(govName))
	if !tr.OK {
		panic(fmt.Sprintf("%s: preamble %q failed: %s %s", r.sc.name, label, tr.ErrString, clip(tr.Log, 1500)))
	}
	now := r.readParams()
	if d := diff(r.prev, now); len(d) > 0 {
		r.c.Violation("governance-setup-changed-params", map[string]any{"label": label, "changed": d}, "%s: preamble %q changed parameter keys %q", r.sc.name, label, d)
	}
	r.prev = now
}

// readParams reads every "/pv/" key of the committed main store and, on the
// same view, validates the module parameter structs.
func (r *runner) readParams() map[string]string {
	v, err := audit.Open(r.ch.DB, 0)
	if err != nil {
		panic(err)
	}
	out := map[string]string{}
	it := v.Main().Iterator(nil, []byte("/pv/"), []byte("/pv0"))
	for ; it.Valid(); it.Next() {
		k := string(it.Key())
		if audit.KeyClass(k) != "param" {
			panic("non-param key in /pv/ range: " + k)
		}
		out[k] = string(it.Value())
	}
	it.Close()
	r.validateModules(v)
	return out
}

type nopKeeper struct{}

func (nopKeeper) WillSetParam(ctx sdk.Context, key string, value any) {}

// validateModules decodes the auth, bank and vm parameter structs from the
// committed store with the production struct codec (ParamsKeeper.GetStruct on
// the auditor's own keeper) and runs the modules' Validate().
func (r *runner) validateModules(v *audit.View) {
	c := r.c
	for _, m := range []string{auth.ModuleName, bank.ModuleName, vm.ModuleName, "node"} {
		if !v.Prmk.IsRegistered(m) {
			v.Prmk.Register(m, nopKeeper{})
		}
	}
	w := func() map[string]any { return r.witness(nil) }
	var ap auth.Params
	var bp bank.Params
	var vp vm.Params
	if pv := vf.Try(func() { v.Prmk.GetStruct(v.Ctx, "auth:p", &ap) }); pv != nil {
		c.Violation("module-param-undecodable:auth", w(), "%s seed %d height %d: auth params do not decode: %v", r.sc.name, r.seed, v.Height, pv)
	} else if err := ap.Validate(); err != nil {
		c.Violation("module-param-invalid-after-block:auth", w(), "%s seed %d height %d: committed auth params fail Validate(): %v (%+v)", r.sc.name, r.seed, v.Height, err, ap)
	}
	if pv := vf.Try(func() { v.Prmk.GetStruct(v.Ctx, "bank:p", &bp) }); pv != nil {
		c.Violation("module-param-undecodable:bank", w(), "%s seed %d height %d: bank params do not decode: %v", r.sc.name, r.seed, v.Height, pv)
	} else if err := bp.Validate(); err != nil {
		c.Violation("module-param-invalid-after-block:bank", w(), "%s seed %d height %d: committed bank params fail Validate(): %v (%+v)", r.sc.name, r.seed, v.Height, err, bp)
	}
	if pv := vf.Try(func() { v.Prmk.GetStruct(v.Ctx, "vm:p", &vp) }); pv != nil {
		c.Violation("module-param-undecodable:vm", w(), "%s seed %d height %d: vm params do not decode: %v", r.sc.name, r.seed, v.Height, pv)
	} else if err := vp.Validate(); err != nil {
		c.Violation("module-param-invalid-after-block:vm", w(), "%s seed %d height %d: committed vm params fail Validate(): %v (%+v)", r.sc.name, r.seed, v.Height, err, vp)
	}
	c.Count("module_param_validations", 3)
}

func diff(a, b map[string]string) []string {
	var out []string
	for k, v := range b {
		if av, ok := a[k]; !ok || av != v {
			out = append(out, k)
		}
	}
	for k := range a {
		if _, ok := b[k]; !ok {
			out = append(out, k)
		}
	}
	sort.Strings(out)
	return out
}

func (r *runner) witness(extra map[string]any) map[string]any {
	w := map[string]any{"scenario": r.sc.name, "history_seed": r.seed, "ops": tail(r.ops, 40), "ops_total": len(r.ops)}
	for k, v := range extra {
		w[k] = v
	}
	return w
}

func tail(ops []*Op, n int) []*Op {
	if len(ops) > n {
		return ops[len(ops)-n:]
	}
	return ops
}

// ---------------------------------------------------------------------------------
// dictionaries

var plainKeys = []string{"alpha", "beta", "k_1", "g.h", "x-y", "Mixed9"}

func hostileKeys() []string {
	return []string{
		"a:b", ":", "::", "a:", ":a", "",
		"vm", "p", "vm:p", "auth", "bank", "node", "params",
		"auth:p:max_memo_bytes", "bank:p:restricted_denoms", "vm:p:chain_domain", "p:chain_domain", "node:valset:proposed",
		PbPath, PbPath + ":beta", PaPath, "vm:" + PbPath + ":beta", "/pv/vm:" + PbPath + ":beta",
		"_realmmeta_" + PbPath, "_realmmeta_" + PaPath, "_realmmeta_",
		"a\x00b", "\x00", "\x00:", strings.Repeat("k", 5000), "κλειδί", "ключ:значение", "a/b", "a b", "/pv/x", "#", "a#b", "s1", PaPath + "#s1",
		"..", "../x", "%3A", "a\nb", "a\tb", "'", "\"", "\\",
	}
}

var callers = []string{"realm", "realm", "realm", "try", "try", "plib", "peer", "sub", "both", "peer-obj", "peer-obj", "peer-closure", "run-direct", "run-direct-nc", "run-realm", "run-plib", "init-realm", "init-pure"}

func (r *runner) runPath(signer string) string {
	return "gno.land/e/" + r.addr(signer) + "/run"
}

// ---------------------------------------------------------------------------------
// generation

func pick[T any](r *rand.Rand, xs []T) T { return xs[r.IntN(len(xs))] }

func (r *runner) genSet() *Op {
	rng := r.rng
	op := &Op{Kind: "set", Signer: pick(rng, users), Caller: pick(rng, callers), Setter: pick(rng, SetterKinds)}
	if rng.IntN(100) < 45 {
		op.Key = pick(rng, plainKeys)
	} else {
		op.Key = pick(rng, hostileKeys())
	}
	switch op.Setter {
	case "bool":
		op.Val = pick(rng, []string{"true", "false"})
	case "int64", "uint64":
		op.Val = fmt.Sprint(rng.IntN(1 << 20))
	case "bytes":
		op.Val = pick(rng, []string{"", "b", strings.Repeat("b", 1+rng.IntN(60))})
	case "strings", "update+", "update-":
		op.Val = pick(rng, []string{"a", "a,b", "b", "c,a"})
	default:
		op.Val = strings.Repeat("v", rng.IntN(40))
	}
	if rng.IntN(14) == 0 && (op.Caller == "realm" || op.Caller == "peer") {
		op.Kind = "set2"
		op.Fail2 = rng.IntN(2) == 0
	}
	return op
}

var sysTargets = [][]string{
	{"bank", "p", "restricted_denoms", "ugnot"},
	{"vm", "p", "chain_domain", "evil.land"},
	{"vm", "p", "sysnames_pkgpath", "gno.land/r/verif/pa"},
	{"vm", "p", "storage_price", "1ugnot"},
	{"auth", "p", "fee_collector", "g1jg8mtutu9khhfwc4nxmuhcpftf0pajdhfvsqf5"},
	{"auth", "p", "max_memo_bytes", "1"},
	{"node", "p", "halt_height", "5"},
	{"node", "valset", "proposed", "x"},
	{"vm", PbPath, "beta", "hijack"},
	{"nomod", "p", "x", "y"},
}

func (r *runner) genSys() *Op {
	rng := r.rng
	how := pick(rng, []string{"sysuser.SetString", "sysuser.SetString", "sysuser.SetStrings", "sysuser.SetBytes", "sysuser.Update", "sysuser.SetInt64", "sysuser.SetBool", "sysuser.Get", "sysuser.TrySetString", "lookalike", "run", "redeploy-sys-realm"})
	if r.sc.gov == "" && how == "redeploy-sys-realm" {
		how = "run" // without the real realm at genesis the path would be free (namespace protection is C12's subject)
	}
	t := pick(rng, sysTargets)
	return &Op{Kind: "sys", Signer: pick(rng, users), Sys: append([]string{how}, t...)}
}

func govCases(pa, pb string) []govCase {
	g := func(label, expr, m, s, n string, valid bool) govCase { return govCase{label, expr, m, s, n, valid} }
	return []govCase{
		g("bank restricted_denoms [foo]", `NewSysParamStringsPropRequest(cross(cur), "bank", "p", "restricted_denoms", []string{"foo"})`, "bank", "p", "restricted_denoms", true),
		g("bank restricted_denoms [foo bar]", `NewSysParamStringsPropRequest(cross(cur), "bank", "p", "restricted_denoms", []string{"foo", "bar"})`, "bank", "p", "restricted_denoms", true),
		g("bank restricted_denoms []", `NewSysParamStringsPropRequest(cross(cur), "bank", "p", "restricted_denoms", []string{})`, "bank", "p", "restricted_denoms", true),
		g("vm storage_price 200", `NewSysParamStringPropRequest(cross(cur), "vm", "p", "storage_price", "200ugnot")`, "vm", "p", "storage_price", true),
		g("vm storage_price 100", `NewSysParamStringPropRequest(cross(cur), "vm", "p", "storage_price", "100ugnot")`, "vm", "p", "storage_price", true),
		g("vm default_deposit", `NewSysParamStringPropRequest(cross(cur), "vm", "p", "default_deposit", "700000000ugnot")`, "vm", "p", "default_deposit", true),
		g("vm iter_next_cost_flat 2000", `NewSysParamInt64PropRequest(cross(cur), "vm", "p", "iter_next_cost_flat", 2000)`, "vm", "p", "iter_next_cost_flat", true),
		g("vm syscla_pkgpath", `NewSysParamStringPropRequest(cross(cur), "vm", "p", "syscla_pkgpath", "gno.land/r/sys/cla2")`, "vm", "p", "syscla_pkgpath", true),
		g("auth max_memo_bytes 70000", `NewSysParamInt64PropRequest(cross(cur), "auth", "p", "max_memo_bytes", 70000)`, "auth", "p", "max_memo_bytes", true),
		g("auth tx_sig_limit 8", `NewSysParamInt64PropRequest(cross(cur), "auth", "p", "tx_sig_limit", 8)`, "auth", "p", "tx_sig_limit", true),
		g("auth target_gas_ratio 60", `NewSysParamInt64PropRequest(cross(cur), "auth", "p", "target_gas_ratio", 60)`, "auth", "p", "target_gas_ratio", true),
		g("node halt_min_version", `NewSysParamStringPropRequest(cross(cur), "node", "p", "halt_min_version", "v1")`, "node", "p", "halt_min_version", true),
		g("node halt_height 0", `NewSysParamInt64PropRequest(cross(cur), "node", "p", "halt_height", 0)`, "node", "p", "halt_height", true),
		g("realm-scoped key through governance", `NewSysParamStringPropRequest(cross(cur), "vm", "`+pb+`", "beta", "set-by-governance")`, "vm", pb, "beta", true),

		g("bank bad denom", `NewSysParamStringsPropRequest(cross(cur), "bank", "p", "restricted_denoms", []string{"Bad Denom"})`, "bank", "p", "restricted_denoms", false),
		g("bank bad denom among good", `NewSysParamStringsPropRequest(cross(cur), "bank", "p", "restricted_denoms", []string{"foo", ""})`, "bank", "p", "restricted_denoms", false),
		g("bank unknown key", `NewSysParamStringPropRequest(cross(cur), "bank", "p", "nonexistent", "x")`, "bank", "p", "nonexistent", false),
		g("bank wrong type", `NewSysParamStringPropRequest(cross(cur), "bank", "p", "restricted_denoms", "foo")`, "bank", "p", "restricted_denoms", false),
		g("vm chain_domain invalid", `NewSysParamStringPropRequest(cross(cur), "vm", "p", "chain_domain", "not a domain")`, "vm", "p", "chain_domain", false),
		g("vm chain_domain with slash", `NewSysParamStringPropRequest(cross(cur), "vm", "p", "chain_domain", "gno.land/r")`, "vm", "p", "chain_domain", false),
		g("vm iter_next_cost_flat 0", `NewSysParamInt64PropRequest(cross(cur), "vm", "p", "iter_next_cost_flat", 0)`, "vm", "p", "iter_next_cost_flat", false),
		g("vm iter_next_cost_flat -1", `NewSysParamInt64PropRequest(cross(cur), "vm", "p", "iter_next_cost_flat", -1)`, "vm", "p", "iter_next_cost_flat", false),
		g("vm iter_next_cost_flat too big", `NewSysParamInt64PropRequest(cross(cur), "vm", "p", "iter_next_cost_flat", 100001)`, "vm", "p", "iter_next_cost_flat", false),
		g("vm storage_price garbage", `NewSysParamStringPropRequest(cross(cur), "vm", "p", "storage_price", "abc")`, "vm", "p", "storage_price", false),
		g("vm default_deposit empty", `NewSysParamStringPropRequest(cross(cur), "vm", "p", "default_deposit", "")`, "vm", "p", "default_deposit", false),
		g("vm storage_fee_collector bad", `NewSysParamStringPropRequest(cross(cur), "vm", "p", "storage_fee_collector", "notanaddress")`, "vm", "p", "storage_fee_collector", false),
		g("vm min_write_depth_100 -1", `NewSysParamInt64PropRequest(cross(cur), "vm", "p", "min_write_depth_100", -1)`, "vm", "p", "min_write_depth_100", false),
		g("vm fixed_write_depth_100 10001", `NewSysParamInt64PropRequest(cross(cur), "vm", "p", "fixed_write_depth_100", 10001)`, "vm", "p", "fixed_write_depth_100", false),
		g("vm preprocess_gas_per_byte 0", `NewSysParamInt64PropRequest(cross(cur), "vm", "p", "preprocess_gas_per_byte", 0)`, "vm", "p", "preprocess_gas_per_byte", false),
		g("vm sysnames_pkgpath invalid", `NewSysParamStringPropRequest(cross(cur), "vm", "p", "sysnames_pkgpath", "Not/A/Path!")`, "vm", "p", "sysnames_pkgpath", false),
		g("vm unknown key", `NewSysParamStringPropRequest(cross(cur), "vm", "p", "nonexistent", "x")`, "vm", "p", "nonexistent", false),
		g("vm wrong type int for string", `NewSysParamInt64PropRequest(cross(cur), "vm", "p", "storage_price", 5)`, "vm", "p", "storage_price", false),
		g("vm wrong type string for int", `NewSysParamStringPropRequest(cross(cur), "vm", "p", "iter_next_cost_flat", "5")`, "vm", "p", "iter_next_cost_flat", false),
		g("vm wrong type bytes", `NewSysParamBytesPropRequest(cross(cur), "vm", "p", "chain_domain", []byte("evil.land"))`, "vm", "p", "chain_domain", false),
		g("vm nil bytes (delete form) on an int key", `NewSysParamBytesPropRequest(cross(cur), "vm", "p", "iter_next_cost_flat", nil)`, "vm", "p", "iter_next_cost_flat", false),
		g("vm nil bytes on chain_domain", `NewSysParamBytesPropRequest(cross(cur), "vm", "p", "chain_domain", nil)`, "vm", "p", "chain_domain", false),
		g("vm empty bytes on chain_domain", `NewSysParamBytesPropRequest(cross(cur), "vm", "p", "chain_domain", []byte{})`, "vm", "p", "chain_domain", false),
		g("auth nil bytes on fee_collector", `NewSysParamBytesPropRequest(cross(cur), "auth", "p", "fee_collector", nil)`, "auth", "p", "fee_collector", false),
		g("bank nil bytes on restricted_denoms", `NewSysParamBytesPropRequest(cross(cur), "bank", "p", "restricted_denoms", nil)`, "bank", "p", "restricted_denoms", false),
		g("node nil bytes on valset current", `NewSysParamBytesPropRequest(cross(cur), "node", "valset", "current", nil)`, "node", "valset", "current", false),
		g("vm wrong type uint64", `NewSysParamUint64PropRequest(cross(cur), "vm", "p", "iter_next_cost_flat", 5)`, "vm", "p", "iter_next_cost_flat", false),
		g("vm wrong type bool", `NewSysParamBoolPropRequest(cross(cur), "vm", "p", "chain_domain", true)`, "vm", "p", "chain_domain", false),
		g("unknown module", `NewSysParamStringPropRequest(cross(cur), "nomod", "p", "x", "y")`, "nomod", "p", "x", false),
		g("params pseudo module", `NewSysParamStringPropRequest(cross(cur), "params", "p", "x", "y")`, "params", "p", "x", false),
		g("empty module", `NewSysParamStringPropRequest(cross(cur), "", "p", "x", "y")`, "", "p", "x", false),
		g("empty submodule", `NewSysParamStringPropRequest(cross(cur), "vm", "", "chain_domain", "evil.land")`, "vm", "", "chain_domain", false),
		g("name with colon", `NewSysParamStringPropRequest(cross(cur), "vm", "p", "a:b", "x")`, "vm", "p", "a:b", false),
		g("auth max_memo_bytes 0", `NewSysParamInt64PropRequest(cross(cur), "auth", "p", "max_memo_bytes", 0)`, "auth", "p", "max_memo_bytes", false),
		g("auth tx_sig_limit -3", `NewSysParamInt64PropRequest(cross(cur), "auth", "p", "tx_sig_limit", -3)`, "auth", "p", "tx_sig_limit", false),
		g("auth target_gas_ratio 101", `NewSysParamInt64PropRequest(cross(cur), "auth", "p", "target_gas_ratio", 101)`, "auth", "p", "target_gas_ratio", false),
		g("auth gas_price_change_compressor 0", `NewSysParamInt64PropRequest(cross(cur), "auth", "p", "gas_price_change_compressor", 0)`, "auth", "p", "gas_price_change_compressor", false),
		g("auth fee_collector bad", `NewSysParamStringPropRequest(cross(cur), "auth", "p", "fee_collector", "bad")`, "auth", "p", "fee_collector", false),
		g("auth initial_gasprice garbage", `NewSysParamStringPropRequest(cross(cur), "auth", "p", "initial_gasprice", "garbage")`, "auth", "p", "initial_gasprice", false),
		g("auth unknown key", `NewSysParamInt64PropRequest(cross(cur), "auth", "p", "nonexistent", 1)`, "auth", "p", "nonexistent", false),
		g("auth wrong type", `NewSysParamStringPropRequest(cross(cur), "auth", "p", "max_memo_bytes", "70000")`, "auth", "p", "max_memo_bytes", false),
		g("node halt_height negative", `NewSysParamInt64PropRequest(cross(cur), "node", "p", "halt_height", -1)`, "node", "p", "halt_height", false),
		g("node halt_height in the past", `NewSysParamInt64PropRequest(cross(cur), "node", "p", "halt_height", 1)`, "node", "p", "halt_height", false),
		g("node halt_height wrong type", `NewSysParamStringPropRequest(cross(cur), "node", "p", "halt_height", "9")`, "node", "p", "halt_height", false),
		g("node unknown key", `NewSysParamStringPropRequest(cross(cur), "node", "p", "nonexistent", "9")`, "node", "p", "nonexistent", false),
		g("node valset proposed via generic factory", `NewSysParamStringsPropRequest(cross(cur), "node", "valset", "proposed", []string{})`, "node", "valset", "proposed", false),
		g("node valset dirty via generic factory", `NewSysParamBoolPropRequest(cross(cur), "node", "valset", "dirty", true)`, "node", "valset", "dirty", false),
		g("node valset current via generic factory", `NewSysParamStringsPropRequest(cross(cur), "node", "valset", "current", []string{})`, "node", "valset", "current", false),
	}
}

func (r *runner) genOp() *Op {
	k := r.rng.IntN(100)
	switch {
	case r.sc.gov == "mini" && k < 40:
		g := pick(r.rng, govCases(PaPath, PbPath))
		return &Op{Kind: "gov", Signer: govName, Gov: &g}
	case k >= 40 && k < 52:
		return r.genSys()
	case k >= 52 && k < 54:
		return &Op{Kind: "valset", Signer: pick(r.rng, users)}
	}
	return r.genSet()
}

// ---------------------------------------------------------------------------------
// playing

func (r *runner) play() {
	r.start()
	defer r.ch.Close()
	c := r.c
	c.Logf("%s seed %d: chain started", r.sc.name, r.seed)
	if r.sc.gov == "real" {
		r.playRealGov()
		return
	}
	for i := 0; i < r.sc.n && !r.stop; i++ {
		op := r.genOp()
		r.ops = append(r.ops, op)
		r.playOp(op, i)
	}
	c.Logf("%s seed %d: %d ops, height %d", r.sc.name, r.seed, len(r.ops), r.ch.Height)
}

func grammarOK(key string) bool { return key != "" && !strings.Contains(key, ":") }

// expectation of one "set" message: the realm whose namespace it may write.
func (r *runner) nsOf(op *Op, initPath string) []string {
	switch op.Caller {
	case "realm", "try", "plib", "run-realm", "peer-obj", "peer-closure":
		// peer-obj / peer-closure: the code is declared in /p/ and the object it hangs on is stored
		// in pb, but the realm that called (and is writing) is pa
		return []string{PaPath}
	case "peer", "sub":
		return []string{PbPath}
	case "both":
		return []string{PaPath, PbPath}
	case "run-direct", "run-direct-nc", "run-plib":
		return []string{r.runPath(op.Signer)}
	case "init-realm", "init-pure":
		return []string{initPath}
	}
	panic("caller " + op.Caller)
}

func (r *runner) buildSet(op *Op) (msgs []std.Msg, initPath string) {
	s := r.ch.Acc(op.Signer)
	call := func(fn string) std.Msg { return chainsim.MsgCall(s, PaPath, fn, op.Setter, op.Key, op.Val) }
	switch op.Caller {
	case "realm":
		msgs = []std.Msg{call("Set")}
	case "try":
		msgs = []std.Msg{call("Try")}
	case "plib":
		msgs = []std.Msg{call("ViaLib")}
	case "peer":
		msgs = []std.Msg{call("ViaPeer")}
	case "sub":
		msgs = []std.Msg{call("ViaSub")}
	case "peer-obj":
		msgs = []std.Msg{call("ViaPeerObj")}
	case "peer-closure":
		msgs = []std.Msg{call("ViaPeerClosure")}
	case "both":
		msgs = []std.Msg{call("Both")}
	case "run-direct":
		msgs = []std.Msg{chainsim.MsgRun(s, runDirect(op.Setter, op.Key, op.Val, true))}
	case "run-direct-nc":
		msgs = []std.Msg{chainsim.MsgRun(s, runDirect(op.Setter, op.Key, op.Val, false))}
	case "run-realm":
		msgs = []std.Msg{chainsim.MsgRun(s, runViaRealm(op.Setter, op.Key, op.Val))}
	case "run-plib":
		msgs = []std.Msg{chainsim.MsgRun(s, runViaLib(op.Setter, op.Key, op.Val))}
	case "init-realm", "init-pure":
		r.nInit++
		name := fmt.Sprintf("ini%d", r.nInit)
		letter := "r"
		if op.Caller == "init-pure" {
			letter = "p"
		}
		initPath = "gno.land/" + letter + "/verif/" + name
		msgs = []std.Msg{chainsim.MsgAddPkg(s, initPath, map[string]string{name + ".gno": initWriter(name, op.Setter, op.Key, op.Val)})}
	}
	if op.Kind == "set2" {
		if op.Fail2 {
			msgs = append(msgs, chainsim.MsgCall(s, PaPath, "NoSuchFunction"))
		} else {
			msgs = append(msgs, chainsim.MsgCall(s, PbPath, "Set", "string", "second", "m2"))
		}
	}
	return msgs, initPath
}

func keyClass(k string, allowedRealms []string) string {
	body := strings.TrimPrefix(k, "/pv/")
	switch {
	case strings.HasPrefix(body, "_realmmeta_"):
		return "meter-of-other-realm"
	case strings.HasPrefix(body, "auth:") || strings.HasPrefix(body, "bank:") || strings.HasPrefix(body, "node:") || strings.HasPrefix(body, "vm:p:"):
		return "module"
	case strings.HasPrefix(body, "vm:"):
		for _, a := range allowedRealms {
			if strings.HasPrefix(body, "vm:"+a+":") {
				return "key-outside-grammar"
			}
		}
		return "other-realm"
	}
	return "unprefixed"
}

func (r *runner) playOp(op *Op, idx int) {
	c := r.c
	caseKey := fmt.Sprintf("%d/%d", r.seed, idx)
	signer := r.ch.Acc(op.Signer)
	var msgs []std.Msg
	allowed := map[string]bool{}
	var allowedRealms []string
	switch op.Kind {
	case "set", "set2":
		var initPath string
		msgs, initPath = r.buildSet(op)
		allowedRealms = r.nsOf(op, initPath)
		if op.Kind == "set2" && !op.Fail2 {
			allowedRealms = append(allowedRealms, PbPath)
			allowed["/pv/vm:"+PbPath+":second"] = true
		}
		for _, rl := range allowedRealms {
			allowed["/pv/_realmmeta_"+rl] = true
			if grammarOK(op.Key) {
				allowed["/pv/vm:"+rl+":"+op.Key] = true
			}
		}
	case "sys":
		how, t := op.Sys[0], op.Sys[1:]
		switch how {
		case "lookalike":
			msgs = []std.Msg{chainsim.MsgCall(signer, LookalikeP, "SetString", t...)}
		case "run":
			msgs = []std.Msg{chainsim.MsgRun(signer, runSys(t[0], t[1], t[2], t[3]))}
		case "redeploy-sys-realm":
			msgs = []std.Msg{chainsim.MsgAddPkg(signer, SysParams, map[string]string{"params.gno": "package params\n\nimport prms \"sys/params\"\n\nfunc Set(cur realm, m, s, n, v string) { prms.SetSysParamString(m, s, n, v) }\n"})}
		case "sysuser.SetInt64":
			msgs = []std.Msg{chainsim.MsgCall(signer, SysUserPath, "SetInt64", t[0], t[1], t[2], "7")}
		case "sysuser.SetBool":
			msgs = []std.Msg{chainsim.MsgCall(signer, SysUserPath, "SetBool", t[0], t[1], t[2], "true")}
		case "sysuser.Get":
			msgs = []std.Msg{chainsim.MsgCall(signer, SysUserPath, "Get", t[0], t[1], t[2])}
		default:
			msgs = []std.Msg{chainsim.MsgCall(signer, SysUserPath, strings.TrimPrefix(how, "sysuser."), t...)}
		}
	case "valset":
		msgs = []std.Msg{chainsim.MsgRun(signer, "package main\n\nimport \"gno.land/r/sys/params\"\n\nfunc main(cur realm) {\n\tparams.SetValsetProposal(cross(cur), []string{})\n}\n")}
		if r.sc.gov == "" {
			msgs = []std.Msg{chainsim.MsgCall(signer, SysUserPath, "SetStrings", "node", "valset", "proposed", "x")}
		}
	case "gov":
		g := op.Gov
		msgs = []std.Msg{chainsim.MsgRun(signer, runGov(g.Expr, true))}
		if g.Valid {
			allowed["/pv/"+g.Module+":"+g.Sub+":"+g.Name] = true
			if strings.Contains(g.Sub, "/") {
				allowed["/pv/_realmmeta_"+g.Sub] = true
			}
		}
	}
	tr := r.ch.OneTx(msgs, fee, signer)
	now := r.readParams()
	d := diff(r.prev, now)
	op.OK, op.Data, op.Err, op.Diff = tr.OK, clip(string(tr.Res.Data), 80), clip(errLine(tr), 200), d
	c.Count("param_key_changes_observed", len(d))
	w := func() map[string]any { return r.witness(map[string]any{"op_index": idx, "op": op}) }
	// ---- universal clauses
	if !tr.OK {
		if len(d) > 0 {
			c.Violation("failed-tx-changed-params", w(), "%s seed %d op %d (%s): the transaction failed (%s) but parameter keys changed: %q", r.sc.name, r.seed, idx, opLabel(op), op.Err, d)
			r.stop = true
		} else {
			c.Count("failed_txs_with_unchanged_params", 1)
		}
	}
	for _, k := range d {
		if !allowed[k] {
			cls := keyClass(k, allowedRealms)
			key := "param-written-outside-own-namespace:" + cls
			switch op.Kind {
			case "sys", "valset":
				key = "sys-params-native-usable-outside-sys-realm:" + op.Sys0()
			case "gov":
				key = "governance-write-touched-other-key"
				if !op.Gov.Valid {
					key = "invalid-module-value-accepted:" + op.Gov.Module + ":" + op.Gov.Name
				}
			}
			c.Violation(key, w(), "%s seed %d op %d (%s): parameter key %q changed (value now %q); the transaction may only write %v", r.sc.name, r.seed, idx, opLabel(op), k, clip(now[k], 60), sortedKeys(allowed))
			r.stop = true
		}
	}
	r.prev = now
	// samples: the first transaction of each kind on this chain
	sk := op.Kind
	if op.Kind == "set" && !contains(plainKeys, op.Key) {
		sk = "set-hostile-ok=" + fmt.Sprint(tr.OK)
	}
	if r.sampled == nil {
		r.sampled = map[string]bool{}
	}
	if !r.sampled[sk] && len(op.Key) < 200 {
		r.sampled[sk] = true
		c.Sample(map[string]any{"scenario": r.sc.name, "op": op})
	}
	// ---- per-kind clauses
	switch op.Kind {
	case "set", "set2":
		plain := op.Caller == "realm" && contains(plainKeys, op.Key) && op.Kind == "set"
		c.Case(caseKey, !plain)
		c.Count("caller_seen:"+op.Caller, 1)
		if !grammarOK(op.Key) {
			// the API must reject the key itself (documented: pkey panics on empty keys and on ':')
			accepted := false
			switch {
			case op.Caller == "try":
				accepted = !(tr.OK && strings.Contains(string(tr.Res.Data), "recovered"))
			default:
				accepted = tr.OK
			}
			if accepted {
				what := "colon"
				if op.Key == "" {
					what = "empty"
				}
				c.Violation("api-accepted-key-outside-grammar:"+what, w(), "%s seed %d op %d (%s): chain/params accepted key %q (tx ok=%v data=%q err=%s); keys that are empty or contain ':' must be rejected by the setter", r.sc.name, r.seed, idx, opLabel(op), op.Key, tr.OK, op.Data, op.Err)
				r.stop = true
			} else {
				c.Count("keys_rejected_by_api", 1)
			}
			return
		}
		if tr.OK {
			c.Count("setter_ok:"+op.Setter, 1)
			c.Count("caller_ok:"+op.Caller, 1)
			if !contains(plainKeys, op.Key) {
				c.Count("hostile_keys_confined_to_own_namespace", 1)
			}
			// the write landed where it belongs (unless it was a delete)
			isDelete := op.Setter == "bytes" && op.Val == "" && !strings.HasPrefix(op.Caller, "run-direct") && !strings.HasPrefix(op.Caller, "init")
			for _, rl := range allowedRealms {
				if op.Kind == "set2" && rl == PbPath && op.Caller != "peer" {
					continue
				}
				k := "/pv/vm:" + rl + ":" + op.Key
				if _, ok := now[k]; ok == isDelete {
					c.Violation("write-did-not-land-in-own-namespace", w(), "%s seed %d op %d (%s): after a successful %s the key %q exists=%v", r.sc.name, r.seed, idx, opLabel(op), op.Setter, k, ok)
					r.stop = true
				}
			}
		} else {
			c.Count("set_failed:"+op.Caller, 1)
			if dbg {
				c.Logf("set failed: %s: %s", opLabel(op), op.Err)
			}
		}
	case "sys", "valset":
		c.Case(caseKey, true)
		if tr.OK && !(op.Kind == "sys" && op.Sys[0] == "sysuser.TrySetString" && strings.Contains(string(tr.Res.Data), "recovered")) {
			c.Violation("sys-params-native-usable-outside-sys-realm:"+op.Sys0(), w(), "%s seed %d op %d (%s): a call of the restricted sys/params natives from outside gno.land/r/sys/params succeeded (data %q)", r.sc.name, r.seed, idx, opLabel(op), op.Data)
			r.stop = true
		} else {
			c.Count("sys_native_calls_rejected", 1)
			c.Count("sys_rejected:"+op.Sys0(), 1)
		}
	case "gov":
		c.Case(caseKey, true)
		g := op.Gov
		switch {
		case g.Valid && !tr.OK:
			c.Inconclusive(fmt.Sprintf("%s seed %d op %d: valid governance proposal %q failed: %s", r.sc.name, r.seed, idx, g.Label, op.Err))
			r.stop = true
		case !g.Valid && tr.OK:
			c.Violation("invalid-module-value-accepted:"+g.Module+":"+g.Name, w(), "%s seed %d op %d: governance proposal %q (%s) executed successfully; it must be rejected", r.sc.name, r.seed, idx, g.Label, g.Expr)
			r.stop = true
		case g.Valid:
			c.Count("gov_valid_applied", 1)
			c.Count("gov_applied:"+g.Module, 1)
		default:
			c.Count("gov_invalid_rejected", 1)
			c.Count("gov_rejected:"+g.Module, 1)
		}
	}
}

func (o *Op) Sys0() string {
	if o.Kind == "valset" {
		return "valset-proposal"
	}
	return o.Sys[0]
}

func opLabel(op *Op) string {
	switch op.Kind {
	case "set", "set2":
		k := op.Key
		if len(k) > 50 {
			k = k[:50] + "…"
		}
		return fmt.Sprintf("%s %s %s key=%q", op.Kind, op.Caller, op.Setter, k)
	case "sys":
		return "sys " + strings.Join(op.Sys, " ")
	case "gov":
		return "gov " + op.Gov.Label
	}
	return op.Kind
}

// playRealGov drives module parameters through the repository's GovDAO v3:
// create, vote and execute are separate transactions.
func (r *runner) playRealGov() {
	c := r.c
	gov := r.ch.Acc(govName)
	cases := govCases(PaPath, PbPath)
	step := func(label string, g *govCase, msg std.Msg, mayChange bool, wantOK *bool) bool {
		tr := r.ch.OneTx([]std.Msg{msg}, fee, gov)
		now := r.readParams()
		d := diff(r.prev, now)
		op := &Op{Kind: "realgov", Signer: govName, Gov: g, Key: label, OK: tr.OK, Err: clip(errLine(tr), 200), Diff: d, Data: clip(string(tr.Res.Data), 60)}
		r.ops = append(r.ops, op)
		r.prev = now
		c.Count("param_key_changes_observed", len(d))
		w := r.witness(map[string]any{"op": op})
		for _, k := range d {
			ok := mayChange && g.Valid && (k == "/pv/"+g.Module+":"+g.Sub+":"+g.Name || (strings.Contains(g.Sub, "/") && k == "/pv/_realmmeta_"+g.Sub))
			if !ok {
				key := "governance-write-touched-other-key"
				if !g.Valid {
					key = "invalid-module-value-accepted:" + g.Module + ":" + g.Name
				} else if !mayChange {
					key = "module-param-changed-before-proposal-execution"
				}
				c.Violation(key, w, "real-govdao seed %d %s of %q: parameter key %q changed", r.seed, label, g.Label, k)
			}
		}
		if !tr.OK && len(d) == 0 {
			c.Count("failed_txs_with_unchanged_params", 1)
		}
		if wantOK != nil && tr.OK != *wantOK {
			if *wantOK {
				c.Inconclusive(fmt.Sprintf("real-govdao seed %d: %s of %q failed: %s", r.seed, label, g.Label, op.Err))
			} else {
				c.Violation("invalid-module-value-accepted:"+g.Module+":"+g.Name, w, "real-govdao seed %d: %s of invalid proposal %q succeeded", r.seed, label, g.Label)
			}
			return false
		}
		return tr.OK
	}
	yes, no := true, false
	for i := 0; i < r.sc.n; i++ {
		g := pick(r.rng, cases)
		c.Case(fmt.Sprintf("%d/%d", r.seed, i), true)
		// assertNotValsetKey and prmkey validation fire at request construction / execution time
		created := step("create", &g, chainsim.MsgRun(gov, runGov(g.Expr, false)), false, nil)
		if !created {
			if g.Valid {
				c.Inconclusive(fmt.Sprintf("real-govdao seed %d: creating valid proposal %q failed", r.seed, g.Label))
			} else {
				c.Count("gov_invalid_rejected", 1)
			}
			continue
		}
		pid := fmt.Sprint(r.nPid)
		r.nPid++
		if !step("vote", &g, chainsim.MsgCall(gov, "gno.land/r/gov/dao", "MustVoteOnProposalSimple", pid, "YES"), false, &yes) {
			continue
		}
		want := &yes
		if !g.Valid {
			want = &no
		}
		if step("execute", &g, chainsim.MsgCall(gov, "gno.land/r/gov/dao", "ExecuteProposal", pid), true, want) {
			c.Count("gov_valid_applied", 1)
			c.Count("real_govdao_proposals_executed", 1)
		} else if !g.Valid {
			c.Count("gov_invalid_rejected", 1)
			c.Count("real_govdao_invalid_rejected", 1)
		}
	}
	c.Logf("real-govdao seed %d: %d txs", r.seed, len(r.ops))
}

func contains(xs []string, s string) bool {
	for _, x := range xs {
		if x == s {
			return true
		}
	}
	return false
}

func sortedKeys(m map[string]bool) []string {
	var out []string
	for k := range m {
		if len(k) > 120 {
			k = k[:120] + "…"
		}
		out = append(out, k)
	}
	sort.Strings(out)
	return out
}

func errLine(tr *chainsim.TxResult) string {
	if tr.OK {
		return ""
	}
	s := tr.ErrString
	if i := strings.Index(tr.Log, " - "); i >= 0 {
		t := tr.Log[i+3:]
		if j := strings.Index(t, "\n"); j >= 0 {
			t = t[:j]
		}
		s += " | " + t
	} else if i := strings.Index(tr.Log, "recovered: "); i >= 0 {
		t := tr.Log[i:]
		if j := strings.Index(t, "\n"); j >= 0 {
			t = t[:j]
		}
		s += " | " + t
	}
	return s
}

func clip(s string, n int) string {
	if len(s) > n {
		return s[:n] + "…"
	}
	return s
}
