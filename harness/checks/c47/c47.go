// Package c47: the authenticated ciphers round-trip and detect tampering.
//
// Code under test: tm2/pkg/crypto/xchacha20poly1305 (cipher.AEAD with a
// 24-byte nonce) and tm2/pkg/crypto/xsalsa20symmetric (EncryptSymmetric /
// DecryptSymmetric, nonce ‖ secretbox).
//
// Oracles
//   - round trip: Open(Seal(pt)) == pt, inputs not modified;
//   - differential twin for xchacha20poly1305: golang.org/x/crypto's own
//     XChaCha20-Poly1305 (chacha20poly1305.NewX, an independent HChaCha20) must
//     produce the byte-identical ciphertext and must open ours;
//   - format twin for xsalsa20symmetric: ciphertext = nonce(24) ‖ secretbox, so
//     secretbox.Open on the split ciphertext must return the plaintext;
//   - tamper model: a sealed message opens only under the identical (key,
//     nonce, AD, ciphertext‖tag); every single-bit flip of any component, and
//     every truncation / extension, must make Open fail (error, no panic, no
//     plaintext).
package c47

import (
	"bytes"
	"crypto/sha256"
	"fmt"
	"math/rand/v2"
	"sync"

	"golang.org/x/crypto/chacha20poly1305"
	"golang.org/x/crypto/nacl/secretbox"

	"github.com/gnolang/gno/tm2/pkg/crypto/xchacha20poly1305"
	"github.com/gnolang/gno/tm2/pkg/crypto/xsalsa20symmetric"

	"verifharness/internal/vf"
)

func init() {
	vf.Register(&vf.Check{
		ID:    "C47",
		Level: "exploration",
		Rule: "cases = (cipher, key, nonce, plaintext, AD, mutation); plaintext sizes 0..8 KiB (all sizes 0..130 and block boundaries enumerated, rest seeded random), " +
			"AD sizes 0..1 KiB incl. nil vs empty; mutation = none (round trip + twin comparison) or one bit flip of ciphertext/tag/nonce/key/AD " +
			"(every bit when plaintext ≤ 48 bytes and AD ≤ 24 bytes, else 48 sampled bits + first/last byte per component), truncations, extensions, AD length changes; " +
			"non-trivial = every mutation case (Open must fail) and every round trip with non-empty plaintext or AD; distinct by (cipher,key,nonce,pt,ad,mutation)",
		Run: run,
	})
}

// viol reports a violation; per key only the first 3 witnesses are handed to
// vf (which stops printing after 25 violations in total), so that every
// distinct key gets its VIOLATION line and replay file. The full count per key
// is kept in the monitor counter "violation_key:<key>".
var (
	violMu   sync.Mutex
	violSeen = map[string]int{}
)

func viol(c *vf.Ctx, key string, witness any, format string, args ...any) {
	c.Count("violation_key:"+key, 1)
	violMu.Lock()
	violSeen[key]++
	n := violSeen[key]
	violMu.Unlock()
	if n > 3 {
		return
	}
	c.Violation(key, witness, format, args...)
}

func randBytes(r *rand.Rand, n int) []byte {
	b := make([]byte, n)
	for i := range b {
		b[i] = byte(r.UintN(256))
	}
	return b
}

// shortID condenses the canonical text of a base case so that the per-mutation case keys stay short.
func shortID(s string) string {
	h := sha256.Sum256([]byte(s))
	return s[:6] + "/" + vf.Hex(h[:16])
}

func clone(b []byte) []byte {
	if b == nil {
		return nil
	}
	return append([]byte{}, b...)
}

// bitPositions returns the bit indices to flip in a component of n bytes.
func bitPositions(r *rand.Rand, n int, exhaustive bool, samples int) []int {
	nb := n * 8
	if exhaustive || nb <= samples+16 {
		out := make([]int, nb)
		for i := range out {
			out[i] = i
		}
		return out
	}
	seen := map[int]bool{}
	var out []int
	add := func(i int) {
		if !seen[i] {
			seen[i] = true
			out = append(out, i)
		}
	}
	for i := 0; i < 8; i++ { // first and last byte completely
		add(i)
		add(nb - 1 - i)
	}
	for len(out) < samples+16 {
		add(r.IntN(nb))
	}
	return out
}

func flip(b []byte, bit int) []byte {
	c := clone(b)
	c[bit>>3] ^= 1 << uint(bit&7)
	return c
}

type xcase struct {
	key, nonce, pt, ad []byte
}

func (x xcase) witness(extra map[string]any) map[string]any {
	w := map[string]any{"key": vf.Hex(x.key), "nonce": vf.Hex(x.nonce), "plaintext": vf.Hex(x.pt), "ad": vf.Hex(x.ad), "ad_nil": x.ad == nil}
	for k, v := range extra {
		w[k] = v
	}
	return w
}

// ---------------------------------------------------------------- xchacha20poly1305

func xchachaCase(c *vf.Ctx, r *rand.Rand, x xcase, exhaustive bool) {
	id := shortID(fmt.Sprintf("xchacha/%x/%x/%x/%x/%v", x.key, x.nonce, x.pt, x.ad, x.ad == nil))
	aead, err := xchacha20poly1305.New(x.key)
	if err != nil {
		viol(c, "new-failed:xchacha20poly1305", x.witness(nil), "New(32-byte key) failed: %v", err)
		return
	}
	k0, n0, p0, a0 := clone(x.key), clone(x.nonce), clone(x.pt), clone(x.ad)
	var ct []byte
	if pv := vf.Try(func() { ct = aead.Seal(nil, x.nonce, x.pt, x.ad) }); pv != nil {
		viol(c, "panic:xchacha20poly1305:Seal", x.witness(nil), "Seal panicked on valid sizes: %v", pv)
		return
	}
	c.Count("xchacha_seal", 1)
	if !bytes.Equal(k0, x.key) || !bytes.Equal(n0, x.nonce) || !bytes.Equal(p0, x.pt) || !bytes.Equal(a0, x.ad) {
		viol(c, "inputs-modified:xchacha20poly1305:Seal", x.witness(nil), "Seal modified one of its inputs")
	}
	if len(ct) != len(x.pt)+xchacha20poly1305.TagSize {
		viol(c, "length:xchacha20poly1305", x.witness(map[string]any{"ct": vf.Hex(ct)}), "ciphertext length %d, want %d", len(ct), len(x.pt)+16)
		return
	}
	// differential twin
	twin, _ := chacha20poly1305.NewX(x.key)
	ref := twin.Seal(nil, x.nonce, x.pt, x.ad)
	if !bytes.Equal(ref, ct) {
		viol(c, "twin-mismatch:xchacha20poly1305:Seal", x.witness(map[string]any{"ct": vf.Hex(ct), "ref": vf.Hex(ref)}), "ciphertext differs from x/crypto XChaCha20-Poly1305")
	}
	c.Count("xchacha_twin_compared", 1)
	// round trip
	open := func(key, nonce, ctx, ad []byte) (pt []byte, err error, pv any) {
		a, e := xchacha20poly1305.New(key)
		if e != nil {
			return nil, e, nil
		}
		pv = vf.Try(func() { pt, err = a.Open(nil, nonce, ctx, ad) })
		return
	}
	pt, err, pv := open(x.key, x.nonce, ct, x.ad)
	c.Case(id+"/rt", len(x.pt) > 0 || len(x.ad) > 0)
	if pv != nil || err != nil || !bytes.Equal(pt, x.pt) {
		viol(c, "roundtrip:xchacha20poly1305", x.witness(map[string]any{"ct": vf.Hex(ct), "err": fmt.Sprint(err), "panic": fmt.Sprint(pv), "got": vf.Hex(pt)}),
			"Open(Seal(pt)) != pt (err=%v panic=%v)", err, pv)
		return
	}
	c.Count("xchacha_roundtrip_ok", 1)
	// nil AD and empty AD are the same associated data
	if len(x.ad) == 0 {
		other := []byte{}
		if x.ad != nil {
			other = nil
		}
		if pt2, err2, pv2 := open(x.key, x.nonce, ct, other); pv2 != nil || err2 != nil || !bytes.Equal(pt2, x.pt) {
			viol(c, "roundtrip:xchacha20poly1305:nil-vs-empty-ad", x.witness(nil), "nil and empty AD not interchangeable: err=%v panic=%v", err2, pv2)
		}
	}
	// tamper
	mustFail := func(kind string, pos int, key, nonce, ctx, ad []byte) {
		c.Case(fmt.Sprintf("%s/%s/%d", id, kind, pos), true)
		pt, err, pv := open(key, nonce, ctx, ad)
		c.Count("xchacha_tamper_"+kind, 1)
		if pv != nil {
			viol(c, "panic:xchacha20poly1305:Open:"+kind, x.witness(map[string]any{"ct": vf.Hex(ct), "mutation": kind, "pos": pos, "panic": fmt.Sprint(pv)}), "Open panicked on tampered input (%s @%d): %v", kind, pos, pv)
			return
		}
		if err == nil {
			viol(c, "tamper-accepted:xchacha20poly1305:"+kind, x.witness(map[string]any{"ct": vf.Hex(ct), "mutation": kind, "pos": pos, "got": vf.Hex(pt)}),
				"Open succeeded although %s was changed (position %d)", kind, pos)
			return
		}
		if len(pt) != 0 {
			viol(c, "tamper-leaks-plaintext:xchacha20poly1305:"+kind, x.witness(map[string]any{"mutation": kind, "pos": pos}), "Open returned %d plaintext bytes together with an error", len(pt))
		}
		c.Count("xchacha_tamper_rejected", 1)
	}
	body := len(ct) - 16
	if body > 0 {
		for _, b := range bitPositions(r, body, exhaustive, 48) {
			mustFail("ct-bit", b, x.key, x.nonce, flip(ct, b), x.ad)
		}
	}
	for b := 0; b < 128; b++ { // the tag is always flipped exhaustively
		mustFail("tag-bit", b, x.key, x.nonce, flip(ct, body*8+b), x.ad)
	}
	for _, b := range bitPositions(r, 24, true, 0) {
		mustFail("nonce-bit", b, x.key, flip(x.nonce, b), ct, x.ad)
	}
	for _, b := range bitPositions(r, 32, true, 0) {
		mustFail("key-bit", b, flip(x.key, b), x.nonce, ct, x.ad)
	}
	if len(x.ad) > 0 {
		for _, b := range bitPositions(r, len(x.ad), exhaustive, 48) {
			mustFail("ad-bit", b, x.key, x.nonce, ct, flip(x.ad, b))
		}
		mustFail("ad-truncate", len(x.ad)-1, x.key, x.nonce, ct, x.ad[:len(x.ad)-1])
		mustFail("ad-dropped", 0, x.key, x.nonce, ct, nil)
	}
	mustFail("ad-extend", len(x.ad), x.key, x.nonce, ct, append(clone(x.ad), 0))
	// length changes of the ciphertext
	mustFail("ct-truncate", len(ct)-1, x.key, x.nonce, ct[:len(ct)-1], x.ad)
	mustFail("ct-extend", len(ct), x.key, x.nonce, append(clone(ct), 0), x.ad)
	if body > 0 {
		mustFail("ct-drop-first", 0, x.key, x.nonce, ct[1:], x.ad)
	}
	for _, n := range []int{0, 1, 15} {
		if n < len(ct) {
			mustFail("ct-short", n, x.key, x.nonce, ct[:n], x.ad)
		}
	}
	// wrong nonce length is documented as an error from Open
	for _, n := range []int{0, 12, 23, 25} {
		nn := make([]byte, n)
		copy(nn, x.nonce)
		mustFail("nonce-len", n, x.key, nn, ct, x.ad)
	}
}

// ---------------------------------------------------------------- xsalsa20symmetric

func xsalsaCase(c *vf.Ctx, r *rand.Rand, key, pt []byte, exhaustive bool) {
	id := shortID(fmt.Sprintf("xsalsa/%x/%x", key, pt))
	w := func(extra map[string]any) map[string]any {
		m := map[string]any{"secret": vf.Hex(key), "plaintext": vf.Hex(pt)}
		for k, v := range extra {
			m[k] = v
		}
		return m
	}
	k0, p0 := clone(key), clone(pt)
	var ct []byte
	if pv := vf.Try(func() { ct = xsalsa20symmetric.EncryptSymmetric(pt, key) }); pv != nil {
		viol(c, "panic:xsalsa20symmetric:Encrypt", w(nil), "EncryptSymmetric panicked with a 32-byte secret: %v", pv)
		return
	}
	c.Count("xsalsa_encrypt", 1)
	if !bytes.Equal(k0, key) || !bytes.Equal(p0, pt) {
		viol(c, "inputs-modified:xsalsa20symmetric:Encrypt", w(nil), "EncryptSymmetric modified its inputs")
	}
	if len(ct) != len(pt)+24+secretbox.Overhead {
		viol(c, "length:xsalsa20symmetric", w(map[string]any{"ct": vf.Hex(ct)}), "ciphertext length %d, want %d (documented: plaintext + 24 + overhead)", len(ct), len(pt)+40)
		return
	}
	// format twin: nonce ‖ secretbox
	var n24 [24]byte
	var k32 [32]byte
	copy(n24[:], ct[:24])
	copy(k32[:], key)
	if ref, ok := secretbox.Open(nil, ct[24:], &n24, &k32); !ok || !bytes.Equal(ref, pt) {
		viol(c, "twin-mismatch:xsalsa20symmetric", w(map[string]any{"ct": vf.Hex(ct)}), "ciphertext is not nonce‖secretbox(plaintext)")
	}
	dec := func(ctx, key []byte) (pt []byte, err error, pv any) {
		pv = vf.Try(func() { pt, err = xsalsa20symmetric.DecryptSymmetric(ctx, key) })
		return
	}
	got, err, pv := dec(ct, key)
	c.Case(id+"/rt", true)
	if pv != nil || err != nil || !bytes.Equal(got, pt) {
		key := "roundtrip:xsalsa20symmetric"
		if len(pt) == 0 {
			key = "roundtrip:xsalsa20symmetric:empty-plaintext"
		}
		viol(c, key, w(map[string]any{"ct": vf.Hex(ct), "err": fmt.Sprint(err), "panic": fmt.Sprint(pv)}),
			"DecryptSymmetric(EncryptSymmetric(pt)) != pt for len(pt)=%d: err=%v panic=%v", len(pt), err, pv)
	} else {
		c.Count("xsalsa_roundtrip_ok", 1)
	}
	mustFail := func(kind string, pos int, ctx, key []byte) {
		c.Case(fmt.Sprintf("%s/%s/%d", id, kind, pos), true)
		got, err, pv := dec(ctx, key)
		c.Count("xsalsa_tamper_"+kind, 1)
		if pv != nil {
			viol(c, "panic:xsalsa20symmetric:Decrypt:"+kind, w(map[string]any{"ct": vf.Hex(ct), "mutation": kind, "pos": pos, "panic": fmt.Sprint(pv)}), "DecryptSymmetric panicked on tampered input (%s @%d): %v", kind, pos, pv)
			return
		}
		if err == nil {
			viol(c, "tamper-accepted:xsalsa20symmetric:"+kind, w(map[string]any{"ct": vf.Hex(ct), "mutation": kind, "pos": pos, "got": vf.Hex(got)}),
				"DecryptSymmetric succeeded although %s was changed (position %d)", kind, pos)
			return
		}
		if len(got) != 0 {
			viol(c, "tamper-leaks-plaintext:xsalsa20symmetric:"+kind, w(map[string]any{"mutation": kind, "pos": pos}), "DecryptSymmetric returned %d plaintext bytes together with an error", len(got))
		}
		c.Count("xsalsa_tamper_rejected", 1)
	}
	for b := 0; b < 24*8; b++ {
		mustFail("nonce-bit", b, flip(ct, b), key)
	}
	for b := 0; b < 128; b++ {
		mustFail("tag-bit", b, flip(ct, 24*8+b), key)
	}
	if len(pt) > 0 {
		for _, b := range bitPositions(r, len(pt), exhaustive, 48) {
			mustFail("ct-bit", b, flip(ct, 40*8+b), key)
		}
	}
	for b := 0; b < 256; b++ {
		mustFail("key-bit", b, ct, flip(key, b))
	}
	mustFail("ct-truncate", len(ct)-1, ct[:len(ct)-1], key)
	mustFail("ct-extend", len(ct), append(clone(ct), 0), key)
	for _, n := range []int{0, 1, 23, 24, 39, 40} {
		if n < len(ct) {
			mustFail("ct-short", n, ct[:n], key)
		}
	}
}

// documented: a secret that is not 32 bytes long panics in both directions.
func xsalsaSecretLen(c *vf.Ctx) {
	for _, n := range []int{0, 1, 16, 31, 33, 64} {
		key := make([]byte, n)
		pv1 := vf.Try(func() { xsalsa20symmetric.EncryptSymmetric([]byte("x"), key) })
		pv2 := vf.Try(func() { xsalsa20symmetric.DecryptSymmetric(make([]byte, 64), key) })
		c.Case(fmt.Sprintf("xsalsa/secretlen/%d", n), true)
		c.Count("xsalsa_bad_secret_len", 1)
		if pv1 == nil || pv2 == nil {
			viol(c, "bad-secret-len-accepted:xsalsa20symmetric", map[string]any{"secret_len": n}, "secret of %d bytes accepted (documented: must be 32 bytes, panics otherwise): enc panic=%v dec panic=%v", n, pv1, pv2)
		}
	}
	for _, n := range []int{0, 16, 31, 33} {
		_, err := xchacha20poly1305.New(make([]byte, n))
		c.Case(fmt.Sprintf("xchacha/keylen/%d", n), true)
		c.Count("xchacha_bad_key_len", 1)
		if err == nil {
			viol(c, "bad-key-len-accepted:xchacha20poly1305", map[string]any{"key_len": n}, "New accepted a %d-byte key", n)
		}
	}
}

func sizes(r *rand.Rand, maxLarge int) (pt, ad int) {
	switch r.IntN(6) {
	case 0:
		pt = r.IntN(17)
	case 1, 2:
		pt = r.IntN(49)
	case 3:
		pt = []int{63, 64, 65, 127, 128, 129, 255, 256, 257, 1023, 1024, 1025}[r.IntN(12)]
	case 4:
		pt = r.IntN(600)
	default:
		pt = r.IntN(maxLarge + 1)
	}
	switch r.IntN(5) {
	case 0:
		ad = 0
	case 1, 2:
		ad = r.IntN(25)
	case 3:
		ad = r.IntN(200)
	default:
		ad = r.IntN(1025)
	}
	return
}

func run(c *vf.Ctx) {
	workers := 14
	// 1. every plaintext size 0..130 with small AD sizes (enumerated)
	nEnum := 131
	c.Parallel(nEnum, workers, 1000, func(i int, r *rand.Rand) {
		for _, adn := range []int{-1, 0, 1, 13, 16, 17} {
			x := xcase{key: randBytes(r, 32), nonce: randBytes(r, 24), pt: randBytes(r, i)}
			if adn >= 0 {
				x.ad = randBytes(r, adn)
			}
			if i == 0 && adn == 0 {
				x.pt = nil
			}
			xchachaCase(c, r, x, i <= 48)
		}
		xsalsaCase(c, r, randBytes(r, 32), randBytes(r, i), i <= 48)
	})
	// 2. seeded random sizes
	n := c.N(4000, 100000)
	c.Parallel(n, workers, 100000, func(i int, r *rand.Rand) {
		ptn, adn := sizes(r, 8192)
		x := xcase{key: randBytes(r, 32), nonce: randBytes(r, 24), pt: randBytes(r, ptn), ad: randBytes(r, adn)}
		switch r.IntN(12) { // structured keys / nonces
		case 0:
			x.key = make([]byte, 32)
		case 1:
			x.nonce = make([]byte, 24)
		case 2:
			x.key = bytes.Repeat([]byte{0xff}, 32)
			x.nonce = bytes.Repeat([]byte{0xff}, 24)
		}
		exh := ptn <= 48 && adn <= 24
		xchachaCase(c, r, x, exh)
		if i%3 == 0 {
			xsalsaCase(c, r, randBytes(r, 32), randBytes(r, ptn), ptn <= 48)
		}
		if i < 3 {
			c.Sample(map[string]any{"cipher": "xchacha20poly1305", "key": vf.Hex(x.key), "nonce": vf.Hex(x.nonce), "pt_len": ptn, "ad_len": adn, "bit_flips_exhaustive": exh})
		}
	})
	// 3. one long-lived AEAD instance (the way a connection or a key store uses it): a random
	// sequence of Seal / Open / failing Open calls with few distinct nonce prefixes; every
	// result must equal what the independent x/crypto instance computes for the same call.
	nSeq := c.N(300, 6000)
	c.Parallel(nSeq, workers, 200000, func(i int, r *rand.Rand) {
		key := randBytes(r, 32)
		aead, err := xchacha20poly1305.New(key)
		if err != nil {
			viol(c, "new-failed:xchacha20poly1305", map[string]any{"key": vf.Hex(key)}, "New failed: %v", err)
			return
		}
		twin, _ := chacha20poly1305.NewX(key)
		prefixes := [][]byte{randBytes(r, 16), randBytes(r, 16), make([]byte, 16)}
		type sealed struct{ nonce, ct, ad, pt []byte }
		var hist []sealed
		var trace []string
		nonce := func() []byte {
			n := clone(prefixes[r.IntN(len(prefixes))])
			return append(n, randBytes(r, 8)...)
		}
		steps := 4 + r.IntN(12)
		for k := 0; k < steps; k++ {
			c.Case(fmt.Sprintf("xchacha-instance/%d/%d", i, k), k > 0)
			op := r.IntN(4)
			if len(hist) == 0 {
				op = 0
			}
			switch op {
			case 0, 1: // Seal
				n, pt, ad := nonce(), randBytes(r, r.IntN(80)), randBytes(r, r.IntN(20))
				var ct []byte
				if pv := vf.Try(func() { ct = aead.Seal(nil, n, pt, ad) }); pv != nil {
					viol(c, "panic:xchacha20poly1305:Seal", map[string]any{"trace": trace}, "Seal panicked on a reused instance: %v", pv)
					return
				}
				trace = append(trace, fmt.Sprintf("Seal(nonce=%x)", n))
				if ref := twin.Seal(nil, n, pt, ad); !bytes.Equal(ref, ct) {
					viol(c, "instance-state:xchacha20poly1305:Seal", map[string]any{"key": vf.Hex(key), "trace": trace, "nonce": vf.Hex(n), "plaintext": vf.Hex(pt), "ad": vf.Hex(ad), "ct": vf.Hex(ct), "ref": vf.Hex(ref)},
						"step %d: Seal on an instance that served earlier calls differs from x/crypto XChaCha20-Poly1305 for the same key, nonce, plaintext and AD", k)
					return
				}
				hist = append(hist, sealed{n, ct, ad, pt})
				c.Count("xchacha_instance_seal", 1)
			case 2: // Open of an earlier message
				h := hist[r.IntN(len(hist))]
				var pt []byte
				var err error
				if pv := vf.Try(func() { pt, err = aead.Open(nil, h.nonce, h.ct, h.ad) }); pv != nil {
					viol(c, "panic:xchacha20poly1305:Open", map[string]any{"trace": trace}, "Open panicked on a reused instance: %v", pv)
					return
				}
				trace = append(trace, fmt.Sprintf("Open(nonce=%x)", h.nonce))
				if err != nil || !bytes.Equal(pt, h.pt) {
					viol(c, "instance-state:xchacha20poly1305:Open", map[string]any{"key": vf.Hex(key), "trace": trace, "nonce": vf.Hex(h.nonce), "err": fmt.Sprint(err)},
						"step %d: Open of a message sealed earlier by the same instance failed or returned other bytes (err=%v)", k, err)
					return
				}
				c.Count("xchacha_instance_open", 1)
			default: // Open that must fail: another prefix with the same tail, or junk
				h := hist[r.IntN(len(hist))]
				n := append(clone(prefixes[r.IntN(len(prefixes))]), h.nonce[16:]...)
				ct := h.ct
				if bytes.Equal(n, h.nonce) {
					ct = flip(ct, r.IntN(len(ct)*8))
				}
				var pt []byte
				var err error
				if pv := vf.Try(func() { pt, err = aead.Open(nil, n, ct, h.ad) }); pv != nil {
					viol(c, "panic:xchacha20poly1305:Open", map[string]any{"trace": trace}, "Open panicked on a reused instance: %v", pv)
					return
				}
				trace = append(trace, fmt.Sprintf("Open!(nonce=%x)", n))
				if err == nil {
					viol(c, "instance-state:xchacha20poly1305:tamper-accepted", map[string]any{"key": vf.Hex(key), "trace": trace, "nonce": vf.Hex(n), "sealed_with": vf.Hex(h.nonce), "got": vf.Hex(pt)},
						"step %d: Open accepted a ciphertext under a nonce (or with a bit) other than the one it was sealed with", k)
					return
				}
				c.Count("xchacha_instance_open_rejected", 1)
			}
		}
	})
	xsalsaSecretLen(c)
	c.Sample(map[string]any{"cipher": "xsalsa20symmetric", "plaintext_len": 0, "note": "empty plaintext round trip is one of the enumerated cases"})
	c.Assume("golang.org/x/crypto chacha20poly1305 (inner AEAD, and NewX as the twin) and nacl/secretbox are the trusted base")
	c.Assume("EncryptSymmetric draws its nonce from the OS CSPRNG, so its ciphertext bytes are not seed-reproducible; the oracle outcome does not depend on the nonce")
	c.Assume("plaintexts up to 8 KiB; the 2^38-byte size limits are not exercised")
	c.RequireCounter("xchacha_roundtrip_ok", int64(nEnum*6+n)*9/10)
	c.RequireCounter("xchacha_twin_compared", int64(n))
	c.RequireCounter("xchacha_tamper_rejected", int64(n)*300)
	for _, k := range []string{"ct-bit", "tag-bit", "nonce-bit", "key-bit", "ad-bit", "ad-extend", "ad-truncate", "ct-truncate", "ct-extend"} {
		c.RequireCounter("xchacha_tamper_"+k, 100)
	}
	c.RequireCounter("xsalsa_encrypt", int64(nEnum))
	for _, k := range []string{"ct-bit", "tag-bit", "nonce-bit", "key-bit", "ct-truncate", "ct-short"} {
		c.RequireCounter("xsalsa_tamper_"+k, 100)
	}
	c.RequireCounter("xsalsa_bad_secret_len", 6)
}
