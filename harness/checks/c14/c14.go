// Package c14: coin supply is conserved and balance records stay well-formed.
//
// Monitor after every committed block of generated histories:
//   (a) the repository's own bank and auth invariants evaluated on an
//       independent read-only view of the committed state;
//   (b) an independent ledger decoded from raw store bytes: for every
//       denomination Σ balances (account tier + split keys) = supply record;
//       every balance positive, filed under the right tier/key, every account
//       object stored under its own address;
//   (c) supply changes between consecutive blocks only for denominations that a
//       succeeded transaction of that block explicitly issued or burned.
package c14

import (
	"fmt"
	"math/rand/v2"
	"sort"
	"strconv"

	"github.com/gnolang/gno/gno.land/pkg/gnoland"
	"github.com/gnolang/gno/tm2/pkg/std"

	"verifharness/internal/audit"
	"verifharness/internal/chainsim"
	"verifharness/internal/hist"
	"verifharness/internal/monitors"
	"verifharness/internal/vf"
)

func init() {
	vf.Register(&vf.Check{
		ID:    "C14",
		Level: "exploration",
		Rule: "case = committed state after one block of a generated history (sends, multi-sends, realm-denomination sends, fee payments incl. failed txs, storage deposits and refunds, realm coin issue/burn, realm payouts, account creation by receipt, a vesting account, panicking/out-of-gas txs); " +
			"non-trivial = at least one balance record changed in the block; distinct by (history seed, height)",
		Run: run,
	})
}

type mon struct {
	c        *vf.Ctx
	seed     uint64
	prev     *monitors.Ledger
	prevMain *audit.KV
	h        *hist.History
}

func (m *mon) OnGenesis(ch *chainsim.Chain) { m.check(ch, nil, nil) }
func (m *mon) OnBlock(ch *chainsim.Chain, bt *chainsim.BlockTrace, specs []hist.TxSpec) {
	m.check(ch, bt, specs)
}

func (m *mon) check(ch *chainsim.Chain, bt *chainsim.BlockTrace, specs []hist.TxSpec) {
	st, v, err := audit.Snapshot(ch.DB, 0)
	if err != nil {
		panic(err)
	}
	w := map[string]any{"history_seed": m.seed, "height": st.Height, "block_txs": specs, "history": m.h}
	for _, msg := range v.Invariants() {
		m.c.Violation("repo-invariant-broken", w, "history %d height %d: repository invariant broken on committed state: %s", m.seed, st.Height, msg)
	}
	m.c.Count("repo_invariant_evaluations", 4)
	l := monitors.ReadLedger(st.Main, map[string]bool{"ugnot": true})
	for _, is := range l.Issues {
		key := "ledger:" + classify(is)
		m.c.Violation(key, w, "history %d height %d: %s", m.seed, st.Height, is)
	}
	changed := 0
	if m.prevMain != nil {
		for _, k := range audit.DiffKV(m.prevMain, st.Main).All() {
			switch audit.KeyClass(k) {
			case "account", "balance", "supply":
				changed++
			}
		}
	}
	m.c.Case(fmt.Sprintf("%d/%d", m.seed, st.Height), changed > 0)
	m.c.Count("ledgers_checked", 1)
	m.c.Count("account_records_read", l.Accounts)
	m.c.Count("split_balance_keys_read", l.SplitKeys)
	m.c.Count("coin_records_changed", changed)
	// (c) supply may change only through explicit issue/burn in this block
	if m.prev != nil && bt != nil {
		allowed := map[string]bool{}
		for i, t := range bt.Txs {
			if !t.OK {
				m.c.Count("failed_txs_observed", 1)
				continue
			}
			for _, ms := range specs[i].Msgs {
				if ms.Kind == "call" && ms.Pkg == hist.PeerPath && (ms.Func == "Mint" || ms.Func == "BurnCoin") {
					allowed[hist.PeerDenom] = true
					m.c.Count("explicit_issue_or_burn_msgs", 1)
				}
			}
			m.c.Count("tx_ok:"+specs[i].Label, 1)
		}
		denoms := map[string]bool{}
		for d := range l.Supply {
			denoms[d] = true
		}
		for d := range m.prev.Supply {
			denoms[d] = true
		}
		var ds []string
		for d := range denoms {
			ds = append(ds, d)
		}
		sort.Strings(ds)
		for _, d := range ds {
			if l.Supply[d] != m.prev.Supply[d] {
				m.c.Count("supply_changes_observed", 1)
				if !allowed[d] {
					m.c.Violation("supply-changed-without-issue-or-burn", w, "history %d height %d: supply of %s went %d -> %d in a block with no succeeded issue/burn of it",
						m.seed, st.Height, d, m.prev.Supply[d], l.Supply[d])
				}
			}
		}
	}
	m.prev, m.prevMain = l, st.Main
}

func classify(s string) string {
	for _, p := range []struct{ sub, key string }{
		{"supply(", "supply-ne-sum"}, {"stored under the key", "account-under-wrong-address"}, {"non-positive", "non-positive-balance"},
		{"not positive", "non-positive-balance"}, {"not an account-tier", "denom-in-wrong-tier"}, {"filed under a split", "denom-in-wrong-tier"},
		{"invalid denom", "invalid-denom-key"}, {"does not decode", "undecodable"}, {"bytes", "malformed-value"}, {"sorted", "coins-unsorted"},
	} {
		if contains(s, p.sub) {
			return p.key
		}
	}
	return "other"
}

func contains(s, sub string) bool {
	for i := 0; i+len(sub) <= len(s); i++ {
		if s[i:i+len(sub)] == sub {
			return true
		}
	}
	return false
}

// vestingGenesis adds a continuously vesting account that also signs transactions.
func vestingGenesis(ch *chainsim.Chain, st *gnoland.GnoGenesisState) {
	v := ch.Acc("vera")
	t0 := ch.Time.Unix()
	st.Balances = append(st.Balances, gnoland.Balance{Address: v.Addr, Amount: std.Coins{{Denom: "ugnot", Amount: 9_000_000_000}},
		Vesting: &std.VestingSchedule{OriginalVesting: std.Coins{{Denom: "ugnot", Amount: 8_000_000_000}}, StartTime: t0, EndTime: t0 + 400}})
}

func run(c *vf.Ctx) {
	n := c.N(3, 24)
	blocks := c.N(14, 50)
	c.Parallel(n, 6, 700, func(i int, rng *rand.Rand) {
		seed := uint64(c.Seed)*1000 + uint64(i)
		h := hist.GenP(rng, seed, blocks, 5, hist.Profile{FailBoost: i%2 == 1})
		// bias towards coin movements: add a few vesting-account and realm-denomination txs per block
		for bi := range h.Blocks {
			if rng.IntN(2) == 0 {
				h.Blocks[bi] = append(h.Blocks[bi], hist.TxSpec{Signer: "vera", Gas: 20_000_000, Fee: 1_000_000, Label: "vesting-send",
					Msgs: []hist.MsgSpec{{Kind: "send", To: hist.Users[rng.IntN(len(hist.Users))], Amount: int64(1 + rng.IntN(3_000_000_000))}}})
			}
			if rng.IntN(2) == 0 {
				u := hist.Users[rng.IntN(len(hist.Users))]
				f := "Mint"
				if rng.IntN(3) == 0 {
					f = "BurnCoin"
				}
				h.Blocks[bi] = append(h.Blocks[bi], hist.TxSpec{Signer: u, Gas: 60_000_000, Fee: 1_000_000, Label: "peer-" + f,
					Msgs: []hist.MsgSpec{{Kind: "call", Pkg: hist.PeerPath, Func: f, Args: []string{"@" + hist.Users[rng.IntN(len(hist.Users))], "tok", strconv.Itoa(1 + rng.IntN(500))}}}})
			}
		}
		m := &mon{c: c, seed: seed, h: h}
		ch, err := hist.Play(h, hist.PlayOpts{Monitors: []hist.Monitor{m}, GenesisHook: vestingGenesis})
		if ch != nil {
			defer ch.Close()
		}
		if err != nil {
			panic(err)
		}
		if i == 0 {
			c.Sample(map[string]any{"history_seed": seed, "first_blocks": h.Blocks[:3]})
		}
	})
	keeperPhase(c)
	c.RequireCounter("keeper_op:mult", 100)
	c.Assume("bank.MsgMultiSend is not amino-registered, so it cannot travel in a transaction; multi-input transfers (incl. one address in several inputs) are driven on the bank handler/keeper directly in the keeper-level phase")
	c.Assume("the ledger is decoded from raw main-store bytes with the production amino codec for account objects; balance and supply values are fixed-width big-endian as documented in bank/balance.go")
	c.Assume("ugnot is the only account-tier denomination (compiled-in allowlist of gno.land)")
	c.RequireCounter("ledgers_checked", 20)
	c.RequireCounter("supply_changes_observed", 2)
	c.RequireCounter("split_balance_keys_read", 5)
	c.RequireCounter("failed_txs_observed", 3)
	c.RequireCounter("coin_records_changed", 50)
}
