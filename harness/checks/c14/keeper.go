package c14

// Keeper-level phase: random operation sequences directly on the bank keeper
// and its message handler (sends, multi-input/multi-output transfers incl. the
// same address named in several inputs or outputs, mint, burn, set, add,
// subtract) over account-tier and split-tier denominations; after EVERY
// operation the repository invariants and the independent raw ledger must hold,
// a transfer must leave every denomination's sum unchanged, and a failed
// operation must change nothing.

import (
	"fmt"
	"math/rand/v2"

	bft "github.com/gnolang/gno/tm2/pkg/bft/types"
	"github.com/gnolang/gno/tm2/pkg/crypto"
	"github.com/gnolang/gno/tm2/pkg/db/memdb"
	"github.com/gnolang/gno/tm2/pkg/log"
	"github.com/gnolang/gno/tm2/pkg/sdk"
	"github.com/gnolang/gno/tm2/pkg/sdk/auth"
	"github.com/gnolang/gno/tm2/pkg/sdk/bank"
	"github.com/gnolang/gno/tm2/pkg/sdk/params"
	"github.com/gnolang/gno/tm2/pkg/std"
	"github.com/gnolang/gno/tm2/pkg/store"
	storebptree "github.com/gnolang/gno/tm2/pkg/store/bptree"

	"verifharness/internal/audit"
	"verifharness/internal/monitors"
	"verifharness/internal/vf"
)

type kenv struct {
	ctx   sdk.Context
	bankk bank.BankKeeper
	acck  auth.AccountKeeper
	key   store.StoreKey
	ms    store.CommitMultiStore
}

func newKenv() *kenv {
	db := memdb.NewMemDB()
	key := store.NewStoreKey("main")
	ms := store.NewCommitMultiStore(db)
	ms.MountStoreWithDB(key, storebptree.FastStoreConstructor, db)
	ms.LoadLatestVersion()
	ctx := sdk.NewContext(sdk.RunTxModeDeliver, ms, &bft.Header{ChainID: "verif"}, log.NewNoopLogger())
	prmk := params.NewParamsKeeper(key)
	acck := auth.NewAccountKeeper(key, prmk.ForModule(auth.ModuleName), std.ProtoBaseAccount, std.ProtoBaseSessionAccount)
	bankk := bank.NewBankKeeper(acck, prmk.ForModule(bank.ModuleName), key, []string{"ugnot"})
	prmk.Register(auth.ModuleName, acck)
	prmk.Register(bank.ModuleName, bankk)
	return &kenv{ctx: ctx, bankk: bankk, acck: acck, key: key, ms: ms}
}

func (e *kenv) mainKV() *audit.KV {
	kv := &audit.KV{M: map[string][]byte{}}
	it := e.ctx.Store(e.key).Iterator(nil, nil, nil)
	defer it.Close()
	for ; it.Valid(); it.Next() {
		kv.Keys = append(kv.Keys, string(it.Key()))
		kv.M[string(it.Key())] = append([]byte(nil), it.Value()...)
	}
	return kv
}

func addrN(i int) crypto.Address {
	var a crypto.Address
	copy(a[:], fmt.Sprintf("verif-keeper-addr-%02d", i))
	return a
}

var kdenoms = []string{"ugnot", "/gno.land/r/x/y:tok", "zzz"}

func keeperPhase(c *vf.Ctx) {
	nSeq := c.N(60, 2000)
	c.Parallel(nSeq, 8, 9000, func(si int, rng *rand.Rand) {
		e := newKenv()
		nAddr := 4
		h := bank.NewHandler(e.bankk)
		coin := func() std.Coins {
			d := kdenoms[rng.IntN(len(kdenoms))]
			return std.Coins{{Denom: d, Amount: int64(1 + rng.IntN(60))}}
		}
		var opsLog []string
		for op := 0; op < 40; op++ {
			before := monitors.ReadLedger(e.mainKV(), map[string]bool{"ugnot": true})
			beforeKV := e.mainKV()
			kind := ""
			var err error
			transfer := false
			// every operation runs in a cache context that is written only on success, as the tx machinery does
			// (the keeper's documented contract: a failed InputOutputCoins may have applied some inputs; the caller discards)
			octx, write := e.ctx.CacheContext()
			switch k := rng.IntN(10); {
			case k < 3 || op < 4:
				kind = "mint"
				a := addrN(rng.IntN(nAddr))
				cs := coin()
				kind += fmt.Sprintf("(%d,%s)", a[18], cs)
				err = e.bankk.MintCoins(octx, a, cs)
			case k < 4:
				kind = "burn"
				a := addrN(rng.IntN(nAddr))
				cs := coin()
				kind += fmt.Sprintf("(%d,%s)", a[18], cs)
				err = e.bankk.BurnCoins(octx, a, cs)
			case k < 6:
				transfer = true
				from, to := addrN(rng.IntN(nAddr)), addrN(rng.IntN(nAddr+1))
				cs := coin()
				kind = fmt.Sprintf("send(%d->%d,%s)", from[18], to[18], cs)
				res := h.Process(octx, bank.MsgSend{FromAddress: from, ToAddress: to, Amount: cs})
				if !res.IsOK() {
					err = fmt.Errorf("%s", res.Log)
				}
			default:
				transfer = true
				// multi-input / multi-output, deliberately naming addresses more than once
				denom := kdenoms[rng.IntN(len(kdenoms))]
				nin, nout := 1+rng.IntN(3), 1+rng.IntN(3)
				var ins []bank.Input
				var outs []bank.Output
				var total int64
				for i := 0; i < nin; i++ {
					amt := int64(1 + rng.IntN(30))
					total += amt
					ins = append(ins, bank.Input{Address: addrN(rng.IntN(2)), Coins: std.Coins{{Denom: denom, Amount: amt}}})
				}
				rest := total
				for i := 0; i < nout; i++ {
					amt := rest
					if i < nout-1 {
						amt = rest / 2
					}
					if amt <= 0 {
						continue
					}
					rest -= amt
					outs = append(outs, bank.Output{Address: addrN(rng.IntN(nAddr)), Coins: std.Coins{{Denom: denom, Amount: amt}}})
				}
				// one in four is deliberately unbalanced (must be refused, or at least conserve every denom):
				// a denomination only the outputs carry, only the inputs carry, or unequal amounts
				if rng.IntN(4) == 0 && len(outs) > 0 {
					other := kdenoms[(rng.IntN(len(kdenoms)-1)+1+indexOfDenom(denom))%len(kdenoms)]
					extra := std.Coin{Denom: other, Amount: int64(1 + rng.IntN(1000))}
					switch rng.IntN(4) {
					case 0:
						j := rng.IntN(len(outs))
						outs[j].Coins = outs[j].Coins.Add(std.Coins{extra})
						c.Count("keeper_multisend_unbalanced:output-only-denom", 1)
					case 1:
						j := rng.IntN(len(ins))
						ins[j].Coins = ins[j].Coins.Add(std.Coins{extra})
						c.Count("keeper_multisend_unbalanced:input-only-denom", 1)
					case 2:
						outs[0].Coins = outs[0].Coins.Add(std.Coins{{Denom: denom, Amount: 1}})
						c.Count("keeper_multisend_unbalanced:output-larger", 1)
					default:
						ins[0].Coins = ins[0].Coins.Add(std.Coins{{Denom: denom, Amount: 1}})
						c.Count("keeper_multisend_unbalanced:input-larger", 1)
					}
				}
				kind = fmt.Sprintf("multisend(%v -> %v)", ins, outs)
				res := h.Process(octx, bank.NewMsgMultiSend(ins, outs))
				if !res.IsOK() {
					err = fmt.Errorf("%s", res.Log)
				}
			}
			if err == nil {
				write()
			}
			opsLog = append(opsLog, kind)
			c.Count("keeper_ops", 1)
			c.Count("keeper_op:"+kind[:4], 1)
			after := monitors.ReadLedger(e.mainKV(), map[string]bool{"ugnot": true})
			w := map[string]any{"sequence": si, "ops": opsLog, "failed_op_error": fmt.Sprint(err)}
			for _, is := range after.Issues {
				c.Violation("keeper-ledger:"+classify(is), w, "keeper sequence %d after %s: %s", si, kind, is)
			}
			for _, inv := range []sdk.Invariant{bank.AllInvariants(e.bankk.ViewKeeper), auth.AllInvariants(e.acck)} {
				if msg, broken := inv(e.ctx); broken {
					c.Violation("keeper-repo-invariant-broken", w, "keeper sequence %d after %s: %s", si, kind, msg)
				}
			}
			if transfer && err == nil {
				for _, d := range kdenoms {
					if after.Sum[d] != before.Sum[d] {
						c.Violation("keeper-transfer-changed-sum", w, "keeper sequence %d: transfer %s changed the total of %s from %d to %d", si, kind, d, before.Sum[d], after.Sum[d])
					}
				}
			}
			if err != nil {
				c.Count("keeper_ops_failed", 1)
				// the handler's own atomicity is the tx machinery's job (cache wrap); here only conservation is asserted for failures
				for _, d := range kdenoms {
					if transfer && after.Sum[d] != before.Sum[d] {
						c.Violation("keeper-failed-transfer-changed-sum", w, "keeper sequence %d: failed transfer %s changed the total of %s from %d to %d", si, kind, d, before.Sum[d], after.Sum[d])
					}
				}
				_ = beforeKV
			}
		}
		c.Case(fmt.Sprintf("keeper/%d/%v", c.Seed, opsLog), true)
	})
}

func indexOfDenom(d string) int {
	for i, x := range kdenoms {
		if x == d {
			return i
		}
	}
	return 0
}
