// Package c23: the B+ tree is a correct versioned ordered map.
//
// Oracle: a per-version ordered-map model (sorted slice). A generated history
// (sets, removes, saves, rollbacks, version loads, pruning, reopen, refused
// operations) is executed against the real tm2/pkg/bptree over a real DB; after
// every step every read API is compared with the model on the working tree and
// on a retained saved version, and at every save / prune / rollback / load /
// reopen all retained versions are re-read (immutability, pruning leaves
// retained versions intact, rollback == last saved). An independent structural
// walker (sorted keys, separator windows, occupancy, recorded child hash ==
// hash(child) recomputed with our own SHA-256 mini-merkle) runs at every save.
package c23

import (
	"bytes"
	"errors"
	"fmt"
	"math/rand/v2"
	"path/filepath"
	"runtime/debug"
	"sort"
	"sync"
	"sync/atomic"

	"github.com/gnolang/gno/tm2/pkg/bptree"
	dbm "github.com/gnolang/gno/tm2/pkg/db"
	"github.com/gnolang/gno/tm2/pkg/db/goleveldb"
	"github.com/gnolang/gno/tm2/pkg/db/memdb"

	"verifharness/checks/c23/bpgen"
	"verifharness/internal/vf"
)

func init() {
	vf.Register(&vf.Check{
		ID:    "C23",
		Level: "exploration",
		Rule: "case = one generated history (200-2000 ops over 10-60 versions, a few deep ones up to ~3000 ops to reach height 3) x tree configuration " +
			"(node cache 0/1/64/10^4, fast index on/off, memdb or on-disk goleveldb); key generators: sequential, reverse, clustered, long common prefix " +
			"with prefix/extension keys, random, mixed; ops: set(new/update/identical), remove(present/absent/contiguous range bursts), save, rollback, " +
			"load older version (+writes, rollback, back to latest), prune, reopen (clean and with a lost dirty session), refused operations. " +
			"non-trivial = the history produced at least one leaf split, one merge or redistribution, >= 3 saved versions and at least one of prune/rollback/load/reopen; " +
			"distinct by (mode, config, hash of the operation list)",
		Run: run,
	})
}

type cfg struct {
	Cache   int
	Fast    bool
	Backend string
}

func (c cfg) String() string {
	return fmt.Sprintf("cache=%d fast=%v db=%s", c.Cache, c.Fast, c.Backend)
}

type exec struct {
	c      *vf.Ctx
	id     int
	h      *bpgen.History
	cfg    cfg
	dir    string
	db     dbm.DB
	tree   *bptree.MutableTree
	m      bpgen.Model
	snaps  map[int64]bpgen.Snapshot
	hashes map[int64][]byte
	ret    []int64 // retained versions, ascending
	latest int64
	loaded int64
	dirty  bool
	rng    *rand.Rand
	st     bpgen.Stats
	step   int
	op     bpgen.Op
	failed bool
	ev     map[string]int
	shape  bptree.VerifShape
	shapeK bool // shape is current
	maxH   int
	counts [bpgen.NumOpKinds]int
	bad    [bpgen.NumBad]int
	verChk int64
	walks  int64
	wide   bool // full-breadth per-step monitors (cheap node access); reduced otherwise
}

func (e *exec) witness(target, detail string) map[string]any {
	lo := max(0, e.step-6)
	var recent []string
	for i := lo; i <= e.step && i < len(e.h.Ops); i++ {
		recent = append(recent, fmt.Sprintf("%d:%s", i, e.h.Ops[i]))
	}
	return map[string]any{
		"case": e.id, "params": e.h.Params.String(), "config": e.cfg.String(), "step": e.step, "op": e.op.String(),
		"target": target, "detail": detail, "recent_ops": recent, "retained": fmt.Sprint(e.ret), "loaded": e.loaded, "dirty": e.dirty,
		"replay": "deterministic: re-run C23 at this seed and tier; the case index selects the rng stream",
	}
}

// rep builds a Report bound to a target ("working" or "saved").
func (e *exec) rep(class, target string) bpgen.Report {
	return func(sig, detail string) {
		e.failed = true
		e.c.Violation(sig+":"+class, e.witness(target, detail), "case %d (%s; %s) step %d %s, %s: %s",
			e.id, e.h.Params, e.cfg, e.step, e.op, target, detail)
	}
}

func (e *exec) fail(key, format string, args ...any) {
	e.failed = true
	d := fmt.Sprintf(format, args...)
	e.c.Violation(key, e.witness("-", d), "case %d (%s; %s) step %d %s: %s", e.id, e.h.Params, e.cfg, e.step, e.op, d)
}

func (e *exec) open() {
	var opts []bptree.Option
	if e.cfg.Fast {
		opts = append(opts, bptree.FastIndexOption(true))
	}
	e.tree = bptree.NewMutableTreeWithDB(e.db, e.cfg.Cache, bptree.NewNopLogger(), opts...)
}

func (e *exec) openDB() {
	if e.cfg.Backend == "goleveldb" {
		db, err := goleveldb.NewGoLevelDB("t", e.dir)
		if err != nil {
			panic(err)
		}
		e.db = db
		return
	}
	e.db = memdb.NewMemDB()
}

func (e *exec) samples() int {
	if e.wide {
		return 200
	}
	return 48
}

// current view of the working tree in the model
func (e *exec) work() bpgen.View { return &e.m }

func (e *exec) base() bpgen.Snapshot {
	if e.loaded == 0 {
		return nil
	}
	return e.snaps[e.loaded]
}

// checkVersion re-reads one retained version.
func (e *exec) checkVersion(v int64, full bool, focus []byte) {
	imm, err := e.tree.GetImmutable(v)
	if err != nil {
		e.fail("GetImmutable:retained-version-unreadable", "GetImmutable(%d) of a retained version: %v", v, err)
		return
	}
	defer imm.Close()
	e.verChk++
	target := fmt.Sprintf("saved version %d", v)
	rep := e.rep("saved", target)
	if imm.Version() != v {
		rep("Version:mismatch", fmt.Sprintf("ImmutableTree.Version()=%d", imm.Version()))
	}
	if !bytes.Equal(imm.Hash(), e.hashes[v]) {
		rep("Hash:changed", fmt.Sprintf("hash of saved version %d is now %x, SaveVersion returned %x", v, imm.Hash(), e.hashes[v]))
	}
	if full {
		bpgen.CheckFull(imm, e.snaps[v], e.samples(), e.rng, rep, &e.st)
	} else {
		bpgen.CheckLight(imm, e.snaps[v], focus, e.wide, e.rng, rep, &e.st)
	}
	// GetVersioned goes through its own GetImmutable
	if n := len(e.snaps[v]); n > 0 {
		kv := e.snaps[v][e.rng.IntN(n)]
		got, err := e.tree.GetVersioned(kv.K, v)
		if err != nil || got == nil || !bytes.Equal(got, kv.V) {
			rep("GetVersioned:wrong-value", fmt.Sprintf("GetVersioned(%x,%d)=%x err=%v, model %x", kv.K, v, got, err, kv.V))
		}
	}
}

func (e *exec) walkSaved(v int64) {
	imm, err := e.tree.GetImmutable(v)
	if err != nil {
		e.fail("GetImmutable:retained-version-unreadable", "GetImmutable(%d): %v", v, err)
		return
	}
	defer imm.Close()
	view, err := imm.VerifView()
	if err != nil {
		e.fail("walker:load-error", "walking saved version %d: %v", v, err)
		return
	}
	e.walks++
	res := bpgen.Walk(view, bpgen.Lookup(e.snaps[v]), true, len(e.snaps[v]), e.rep("saved", fmt.Sprintf("saved version %d", v)))
	if !e.failed && !bytes.Equal(res.RootHash[:], e.hashes[v]) {
		e.fail("walker:root-hash", "version %d: SaveVersion hash %x != hash recomputed from the node contents %x", v, e.hashes[v], res.RootHash)
	}
	if res.Height > e.maxH {
		e.maxH = res.Height
	}
}

func (e *exec) walkWorking() {
	view, err := e.tree.VerifWorkingView()
	if err != nil {
		e.fail("walker:load-error", "walking the working tree: %v", err)
		return
	}
	e.walks++
	res := bpgen.Walk(view, bpgen.Lookup(&e.m), false, e.m.Len(), e.rep("working", "working tree"))
	if !e.failed && !bytes.Equal(res.RootHash[:], e.tree.WorkingHash()) {
		e.fail("walker:working-hash", "WorkingHash %x != hash recomputed from the node contents %x", e.tree.WorkingHash(), res.RootHash)
	}
}

// checkMeta compares version bookkeeping APIs.
func (e *exec) checkMeta() {
	if got := e.tree.Version(); got != e.loaded {
		e.fail("Version:mismatch", "Version()=%d, model %d", got, e.loaded)
	}
	if got := e.tree.WorkingVersion(); got != e.loaded+1 {
		e.fail("WorkingVersion:mismatch", "WorkingVersion()=%d, model %d", got, e.loaded+1)
	}
	av := e.tree.AvailableVersions()
	ok := len(av) == len(e.ret)
	for i := 0; ok && i < len(av); i++ {
		ok = int64(av[i]) == e.ret[i]
	}
	if !ok {
		e.fail("AvailableVersions:mismatch", "AvailableVersions()=%v, model retains %v", av, e.ret)
	}
	for _, v := range []int64{e.latest + 1, 0} {
		if e.tree.VersionExists(v) {
			e.fail("VersionExists:phantom", "VersionExists(%d) is true", v)
		}
	}
	if len(e.ret) > 0 {
		lo := e.ret[0]
		if lo > 1 && e.tree.VersionExists(lo-1) {
			e.fail("VersionExists:pruned-version-exists", "VersionExists(%d) true after pruning to %d", lo-1, lo-1)
		}
		for _, v := range e.ret {
			if !e.tree.VersionExists(v) {
				e.fail("VersionExists:retained-missing", "VersionExists(%d) false for a retained version", v)
			}
		}
	}
	wantHash := bpgen.EmptyTreeHash[:]
	if e.loaded > 0 {
		wantHash = e.hashes[e.loaded]
	}
	if !bytes.Equal(e.tree.Hash(), wantHash) {
		e.fail("Hash:mismatch", "Hash()=%x, hash of loaded version %d is %x", e.tree.Hash(), e.loaded, wantHash)
	}
}

// checkAll re-reads everything that must still hold: working tree in full and
// retained versions (all in full when allFull, else the newest and two random
// ones in full and the rest lightly).
func (e *exec) checkAll(allFull bool) {
	if e.failed {
		return
	}
	e.checkMeta()
	bpgen.CheckFull(e.tree, e.work(), e.samples(), e.rng, e.rep("working", "working tree"), &e.st)
	pick := map[int64]bool{}
	if n := len(e.ret); n > 0 {
		pick[e.ret[n-1]] = true
		pick[e.ret[e.rng.IntN(n)]] = true
		if e.wide {
			pick[e.ret[e.rng.IntN(n)]] = true
			pick[e.ret[0]] = true
		}
	}
	for i, v := range e.ret {
		if e.failed {
			return
		}
		if !allFull && !pick[v] && !e.wide && (i+e.step)%3 != 0 {
			continue // reduced breadth: a rotating third of the other versions
		}
		e.checkVersion(v, allFull || pick[v], nil)
	}
}

// afterStep: the per-step monitor.
func (e *exec) afterStep(focus []byte) {
	if e.failed {
		return
	}
	rep := e.rep("working", "working tree")
	switch {
	case e.wide && (e.m.Len() <= 48 || e.step%64 == 0), !e.wide && e.step%32 == 0:
		bpgen.CheckFull(e.tree, e.work(), e.samples(), e.rng, rep, &e.st)
	default:
		bpgen.CheckLight(e.tree, e.work(), focus, e.wide, e.rng, rep, &e.st)
	}
	if n := len(e.ret); n > 0 && !e.failed && (e.wide || e.step%3 == 0) {
		v := e.ret[e.rng.IntN(n)]
		if e.rng.IntN(3) == 0 {
			v = e.ret[n-1] // the version the working tree was cloned from shares the most nodes
		}
		e.checkVersion(v, false, focus)
	}
}

// --- structural event classification (coverage monitors) ---

type lvl1 struct{ firstLeaf, children int }

func level1(s bptree.VerifShape) []lvl1 {
	var out []lvl1
	leaf := 0
	for i, l := range s.InnerLevel {
		if l == 1 {
			nc := int(s.InnerKeys[i]) + 1
			out = append(out, lvl1{leaf, nc})
			leaf += nc
		}
	}
	return out
}

func (e *exec) classify(before, after bptree.VerifShape, isSet bool, rankBefore int) {
	if after.Height > before.Height && len(before.LeafKeys) > 0 {
		e.ev["root-split"]++
	}
	if after.Height < before.Height {
		e.ev["root-collapse"]++
	}
	nb, na := len(before.LeafKeys), len(after.LeafKeys)
	firstDiff := func() int {
		for i := 0; i < nb && i < na; i++ {
			if before.LeafKeys[i] != after.LeafKeys[i] {
				return i
			}
		}
		return min(nb, na)
	}
	if isSet {
		if na == nb+1 {
			i := firstDiff()
			if i+1 < na {
				l, r := after.LeafKeys[i], after.LeafKeys[i+1]
				switch {
				case l == bptree.B-1 && r == 2:
					e.ev["leaf-split-90-10"]++
				case l == (bptree.B+2)/2 && r == bptree.B/2:
					e.ev["leaf-split-50-50"]++
				default:
					e.ev["leaf-split-other"]++
				}
			}
			if len(after.InnerKeys) > len(before.InnerKeys) {
				if d := len(after.InnerKeys) - len(before.InnerKeys); d >= 2 || after.Height == before.Height {
					e.ev["inner-split"]++
				}
			}
		}
		return
	}
	// remove of a present key
	owner := -1 // leaf ordinal that held the key
	acc := 0
	for i, k := range before.LeafKeys {
		acc += int(k)
		if rankBefore < acc {
			owner = i
			break
		}
	}
	switch {
	case na == nb-1:
		e.ev["leaf-merge"]++
		lb, la := level1(before), level1(after)
		if len(lb) >= 2 {
			p := firstDiff()
			parent := -1
			for i, x := range lb {
				if p >= x.firstLeaf && p < x.firstLeaf+x.children {
					parent = i
				}
			}
			switch {
			case len(la) == len(lb)-1 || (len(la) == 0 && len(lb) == 2):
				e.ev["inner-merge"]++
			case len(la) == len(lb):
				for i := range lb {
					if la[i].children < lb[i].children && i != parent {
						e.ev["inner-redistribute"]++
					}
				}
			}
		}
	case na == nb && owner >= 0:
		for i := range before.LeafKeys {
			if after.LeafKeys[i] == before.LeafKeys[i]-1 && i != owner {
				if i < owner {
					e.ev["leaf-redistribute-from-left"]++
				} else {
					e.ev["leaf-redistribute-from-right"]++
				}
			}
		}
	}
}

func (e *exec) trackShape(isSet, changed bool, rankBefore int) {
	s, err := e.tree.VerifWorkingShape()
	if err != nil {
		e.fail("walker:load-error", "shape walk: %v", err)
		return
	}
	if e.shapeK && changed {
		e.classify(e.shape, s, isSet, rankBefore)
	}
	e.shape, e.shapeK = s, true
	if h := s.Height + 1; len(s.LeafKeys) > 0 && h > e.maxH {
		e.maxH = h
	}
}

// --- operations ---

func (e *exec) doSet() {
	k, v := append([]byte{}, e.op.Key...), append([]byte{}, e.op.Val...)
	_, existed := e.m.Search(k)
	updated, err := e.tree.Set(k, v)
	// the tree must have taken private copies
	for i := range k {
		k[i] ^= 0x5A
	}
	for i := range v {
		v[i] ^= 0x5A
	}
	if err != nil {
		e.fail("Set:error", "Set(%x): %v", e.op.Key, err)
		return
	}
	if updated != existed {
		e.fail("Set:updated-flag", "Set(%x) reported updated=%v, model had key=%v", e.op.Key, updated, existed)
		return
	}
	rank, _ := e.m.Search(e.op.Key)
	e.m.Set(e.op.Key, e.op.Val)
	e.dirty = true
	e.trackShape(true, !existed, rank)
}

func (e *exec) doRemove() {
	k := append([]byte(nil), e.op.Key...)
	rank, existed := e.m.Search(k)
	want, _ := e.m.Get(k)
	old, found, err := e.tree.Remove(k)
	if err != nil {
		e.fail("Remove:error", "Remove(%x): %v", e.op.Key, err)
		return
	}
	if found != existed {
		e.fail("Remove:found-flag", "Remove(%x) reported found=%v, model had key=%v", e.op.Key, found, existed)
		return
	}
	if existed && (old == nil || !bytes.Equal(old, want)) {
		e.fail("Remove:old-value", "Remove(%x) returned old value %x, model %x", e.op.Key, old, want)
		return
	}
	if !existed && old != nil {
		e.fail("Remove:old-value", "Remove(%x) of an absent key returned %x", e.op.Key, old)
		return
	}
	e.m.Remove(k)
	if existed {
		e.dirty = true
	}
	e.trackShape(false, existed, rank)
}

func (e *exec) doSave() {
	wh := e.tree.WorkingHash()
	hash, ver, err := e.tree.SaveVersion()
	if err != nil {
		e.fail("SaveVersion:error", "SaveVersion: %v", err)
		return
	}
	if ver != e.latest+1 {
		e.fail("SaveVersion:version", "SaveVersion returned version %d, want %d", ver, e.latest+1)
		return
	}
	if !bytes.Equal(hash, wh) {
		e.fail("SaveVersion:hash", "SaveVersion hash %x != WorkingHash just before %x", hash, wh)
		return
	}
	e.latest = ver
	e.loaded = ver
	e.dirty = false
	e.snaps[ver] = e.m.Snapshot()
	e.hashes[ver] = append([]byte(nil), hash...)
	e.ret = append(e.ret, ver)
	if !bytes.Equal(e.tree.WorkingHash(), hash) {
		e.fail("WorkingHash:after-save", "WorkingHash after save %x != saved hash %x", e.tree.WorkingHash(), hash)
		return
	}
	e.walkSaved(ver)
	if e.rng.IntN(4) == 0 {
		e.walkWorking()
	}
	e.checkAll(false)
}

func (e *exec) doRollback() {
	e.tree.Rollback()
	e.m.Load(e.base())
	e.dirty = false
	e.shapeK = false
	if !e.tree.VerifSessionClean() {
		e.fail("Rollback:session-not-clean", "session still has staged state after Rollback")
		return
	}
	wantHash := bpgen.EmptyTreeHash[:]
	if e.loaded > 0 {
		wantHash = e.hashes[e.loaded]
	}
	if !bytes.Equal(e.tree.WorkingHash(), wantHash) {
		e.fail("Rollback:hash", "WorkingHash after Rollback %x != hash of version %d %x", e.tree.WorkingHash(), e.loaded, wantHash)
		return
	}
	e.checkAll(false)
}

func (e *exec) doLoad() {
	v := e.op.Version
	var got int64
	var err error
	if v == 0 {
		got, err = e.tree.Load()
		v = e.latest
	} else {
		got, err = e.tree.LoadVersion(v)
	}
	if err != nil {
		e.fail("LoadVersion:error", "LoadVersion(%d): %v", e.op.Version, err)
		return
	}
	if got != e.latest {
		e.fail("LoadVersion:latest", "LoadVersion(%d) returned %d, latest is %d", e.op.Version, got, e.latest)
		return
	}
	e.loaded = v
	e.m.Load(e.snaps[v])
	e.dirty = false
	e.shapeK = false
	e.checkAll(false)
}

func (e *exec) doPrune() {
	to := e.op.Version
	if err := e.tree.DeleteVersionsTo(to); err != nil {
		e.fail("DeleteVersionsTo:error", "DeleteVersionsTo(%d) with retained %v: %v", to, e.ret, err)
		return
	}
	keep := e.ret[:0:0]
	for _, v := range e.ret {
		if v > to {
			keep = append(keep, v)
		} else {
			delete(e.snaps, v)
			delete(e.hashes, v)
		}
	}
	e.ret = keep
	// pruned versions must be gone
	if _, err := e.tree.GetImmutable(to); err == nil {
		e.fail("DeleteVersionsTo:version-still-readable", "GetImmutable(%d) succeeds after DeleteVersionsTo(%d)", to, to)
		return
	}
	e.checkAll(true)
	for _, v := range e.ret {
		if e.failed {
			return
		}
		if v == e.ret[0] || e.rng.IntN(4) == 0 {
			e.walkSaved(v) // the oldest survivor shares the most with what was deleted
		}
	}
}

func (e *exec) doReopen() {
	e.tree.Close()
	if e.cfg.Backend == "goleveldb" {
		if err := e.db.Close(); err != nil {
			panic(err)
		}
		e.openDB()
	}
	e.open()
	got, err := e.tree.Load()
	if err != nil {
		e.fail("Load:error", "Load after reopen: %v", err)
		return
	}
	if got != e.latest {
		e.fail("Load:latest", "Load after reopen returned %d, latest saved is %d", got, e.latest)
		return
	}
	e.loaded = e.latest
	e.m.Load(e.base())
	e.dirty = false
	e.shapeK = false
	e.checkAll(true)
	if e.latest > 0 && !e.failed {
		e.walkSaved(e.latest)
	}
}

func (e *exec) doBad() {
	e.bad[e.op.Sub]++
	before := e.tree.WorkingHash()
	var err error
	what := bpgen.BadNames[e.op.Sub]
	switch e.op.Sub {
	case bpgen.BadSetNilValue:
		_, err = e.tree.Set(e.op.Key, nil)
	case bpgen.BadSetEmptyKey:
		_, err = e.tree.Set([]byte{}, []byte("x"))
		if err != nil && !errors.Is(err, bptree.ErrEmptyKey) {
			e.fail("refused:wrong-error", "Set(empty key): %v, want ErrEmptyKey", err)
		}
	case bpgen.BadPruneDirty:
		err = e.tree.DeleteVersionsTo(e.op.Version)
		if err != nil && !errors.Is(err, bptree.ErrUncommittedChanges) {
			e.fail("refused:wrong-error", "DeleteVersionsTo with a dirty session: %v, want ErrUncommittedChanges", err)
		}
	case bpgen.BadPruneLatest:
		err = e.tree.DeleteVersionsTo(e.op.Version)
	case bpgen.BadPruneLoaded:
		err = e.tree.DeleteVersionsTo(e.op.Version)
		if err != nil && !errors.Is(err, bptree.ErrUncommittedChanges) && !errors.Is(err, bptree.ErrActiveReaders) {
			e.fail("refused:wrong-error", "DeleteVersionsTo(loaded version): %v", err)
		}
	case bpgen.BadLoadMissing:
		_, err = e.tree.LoadVersion(e.op.Version)
		if err != nil && !errors.Is(err, bptree.ErrVersionDoesNotExist) {
			e.fail("refused:wrong-error", "LoadVersion(%d): %v, want ErrVersionDoesNotExist", e.op.Version, err)
		}
	case bpgen.BadImmutableMissing:
		var imm *bptree.ImmutableTree
		imm, err = e.tree.GetImmutable(e.op.Version)
		if imm != nil {
			imm.Close()
		}
	}
	if err == nil {
		e.fail("refused:accepted:"+what, "%s (version %d) was accepted; the API documents it as refused", what, e.op.Version)
		return
	}
	if !bytes.Equal(before, e.tree.WorkingHash()) {
		e.fail("refused:state-changed:"+what, "%s changed the working hash", what)
		return
	}
	// a refused operation must leave everything as it was
	e.checkMeta()
}

func (e *exec) run() {
	e.openDB()
	e.open()
	defer func() {
		e.tree.Close()
		e.db.Close()
	}()
	if v, err := e.tree.Load(); err != nil || v != 0 {
		e.fail("Load:error", "Load on an empty DB: v=%d err=%v", v, err)
		return
	}
	// empty-tree reads
	bpgen.CheckFull(e.tree, e.work(), e.samples(), e.rng, e.rep("working", "working tree"), &e.st)
	for i, op := range e.h.Ops {
		if e.failed {
			return
		}
		e.step, e.op = i, op
		e.counts[op.Kind]++
		var pv any
		switch op.Kind {
		case bpgen.OpSet:
			pv = vf.Try(e.doSet)
		case bpgen.OpRemove:
			pv = vf.Try(e.doRemove)
		case bpgen.OpSave:
			pv = vf.Try(e.doSave)
		case bpgen.OpRollback:
			pv = vf.Try(e.doRollback)
		case bpgen.OpLoadVersion:
			pv = vf.Try(e.doLoad)
		case bpgen.OpPrune:
			pv = vf.Try(e.doPrune)
		case bpgen.OpReopen:
			pv = vf.Try(e.doReopen)
		case bpgen.OpBad:
			pv = vf.Try(e.doBad)
		}
		if pv == nil && !e.failed && (op.Kind == bpgen.OpSet || op.Kind == bpgen.OpRemove || op.Kind == bpgen.OpBad) {
			pv = vf.Try(func() { e.afterStep(op.Key) })
		}
		if pv != nil {
			e.fail("panic:"+bpgen.OpNames[op.Kind], "panic: %v", pv)
			return
		}
	}
	// final: everything retained, in full, plus walkers
	e.step, e.op = len(e.h.Ops), bpgen.Op{Kind: bpgen.OpSave}
	if pv := vf.Try(func() {
		e.checkAll(true)
		for _, v := range e.ret {
			if !e.failed {
				e.walkSaved(v)
			}
		}
	}); pv != nil {
		e.fail("panic:final-check", "panic: %v", pv)
	}
}

func histKey(h *bpgen.History) string {
	hh := uint64(1469598103934665603)
	mix := func(b []byte) {
		for _, x := range b {
			hh ^= uint64(x)
			hh *= 1099511628211
		}
		hh ^= 0xff
		hh *= 1099511628211
	}
	for _, o := range h.Ops {
		mix([]byte{byte(o.Kind), byte(o.Sub), byte(o.Version), byte(o.Version >> 8)})
		mix(o.Key)
		mix(o.Val)
	}
	return fmt.Sprintf("%016x", hh)
}

func run(c *vf.Ctx) {
	// the monitors allocate heavily with small node caches (every node access
	// deserialises a ~5 KB node); a lazier GC keeps 14 workers from thrashing
	defer debug.SetGCPercent(debug.SetGCPercent(400))
	n := c.N(44, 700)
	caches := []int{10000, 0, 64, 1, 10000, 64}
	var agg struct {
		ops      [bpgen.NumOpKinds]atomic.Int64
		bad      [bpgen.NumBad]atomic.Int64
		point    atomic.Int64
		items    atomic.Int64
		ranges   atomic.Int64
		full     atomic.Int64
		absent   atomic.Int64
		verChk   atomic.Int64
		walks    atomic.Int64
		versions atomic.Int64
		h3       atomic.Int64
	}
	evTotal := map[string]int{}
	modeCases := map[string]int{}
	var evMu sync.Mutex

	c.Parallel(n, 14, 1000, func(i int, rng *rand.Rand) {
		p := bpgen.GenParams{
			Mode:       bpgen.KeyMode(i % int(bpgen.NumModes)),
			Admin:      true,
			AllowEmpty: true,
			BigValues:  i%5 == 0,
		}
		p.NOps = 200 + rng.IntN(1801)
		p.NVersions = 10 + rng.IntN(51)
		if i%7 == 3 { // deep: long growth phase, root inner node splits
			p.Deep = true
			p.NOps = 2200 + rng.IntN(900)
			p.NVersions = 10 + rng.IntN(30)
		}
		if i%9 == 4 { // small trees, many versions: root-leaf and first-split edge cases
			p.NOps = 200 + rng.IntN(200)
			p.NVersions = 40 + rng.IntN(21)
		}
		h := bpgen.GenHistory(rng, p)
		if i%11 == 6 { // drain one region of a height-2 tree under frequent saves and prunes
			h = bpgen.GenDrainHistory(rng, 1100+rng.IntN(700))
			p = h.Params
			c.Count("drain_histories", 1)
		}
		cf := cfg{Cache: caches[(i/int(bpgen.NumModes))%len(caches)], Fast: (i/3)%2 == 0, Backend: "memdb"}
		if i%12 == 5 && !p.Deep { // on-disk DB with a real close/reopen; short histories (every access is a disk read)
			cf.Backend = "goleveldb"
			if len(h.Ops) > 700 {
				p.NOps = 250 + p.NOps%400
				h = bpgen.GenHistory(rng, p)
			}
		}
		e := &exec{c: c, id: i, h: h, cfg: cf, rng: rng, snaps: map[int64]bpgen.Snapshot{}, hashes: map[int64][]byte{}, ev: map[string]int{},
			wide: cf.Cache >= 64 && cf.Backend == "memdb",
			dir:  filepath.Join(c.WorkDir, fmt.Sprintf("case%d", i))}
		e.run()

		nontrivial := e.ev["leaf-split-90-10"]+e.ev["leaf-split-50-50"]+e.ev["leaf-split-other"] > 0 &&
			e.ev["leaf-merge"]+e.ev["leaf-redistribute-from-left"]+e.ev["leaf-redistribute-from-right"] > 0 &&
			e.counts[bpgen.OpSave] >= 3 &&
			e.counts[bpgen.OpPrune]+e.counts[bpgen.OpRollback]+e.counts[bpgen.OpLoadVersion]+e.counts[bpgen.OpReopen] > 0 &&
			!e.failed
		c.Case(fmt.Sprintf("%s|%s|%s", bpgen.ModeNames[p.Mode], cf, histKey(h)), nontrivial)
		if i < 5 {
			c.Sample(map[string]any{"case": i, "params": p.String(), "config": cf.String(), "ops": len(h.Ops), "versions_saved": e.latest,
				"retained_at_end": len(e.ret), "max_height": e.maxH, "events": fmt.Sprint(e.ev), "first_ops": fmt.Sprint(h.Ops[:min(6, len(h.Ops))])})
		}
		for k := range e.counts {
			agg.ops[k].Add(int64(e.counts[k]))
		}
		for k := range e.bad {
			agg.bad[k].Add(int64(e.bad[k]))
		}
		agg.point.Add(e.st.PointReads)
		agg.items.Add(e.st.IterItems)
		agg.ranges.Add(e.st.Ranges)
		agg.full.Add(e.st.FullScans)
		agg.absent.Add(e.st.AbsentProbes)
		agg.verChk.Add(e.verChk)
		agg.walks.Add(e.walks)
		agg.versions.Add(e.latest)
		if e.maxH >= 3 {
			agg.h3.Add(1)
		}
		evMu.Lock()
		for k, v := range e.ev {
			evTotal[k] += v
		}
		modeCases[bpgen.ModeNames[p.Mode]]++
		evMu.Unlock()
	})

	for k := range agg.ops {
		c.Count("op_"+bpgen.OpNames[k], int(agg.ops[k].Load()))
	}
	for k := range agg.bad {
		c.Count("refused_"+bpgen.BadNames[k], int(agg.bad[k].Load()))
	}
	c.Count("point_reads_compared", int(agg.point.Load()))
	c.Count("iterator_items_compared", int(agg.items.Load()))
	c.Count("ranged_iterations_compared", int(agg.ranges.Load()))
	c.Count("full_scans", int(agg.full.Load()))
	c.Count("absent_key_probes", int(agg.absent.Load()))
	c.Count("saved_version_rereads", int(agg.verChk.Load()))
	c.Count("structural_walks", int(agg.walks.Load()))
	c.Count("versions_saved", int(agg.versions.Load()))
	c.Count("histories_reaching_height_3", int(agg.h3.Load()))
	evNames := make([]string, 0, len(evTotal))
	for k := range evTotal {
		evNames = append(evNames, k)
	}
	sort.Strings(evNames)
	for _, k := range evNames {
		c.Count("event_"+k, evTotal[k])
	}
	c.Set("cases_per_key_mode", modeCases)
	c.Set("configurations", "node cache {0,1,64,10000} x fast index {on,off} x {memdb, goleveldb on disk}")
	c.Assume("the reference is a sorted-slice ordered map per version; byte-wise lexicographic key order")
	c.Assume("structural events are classified from before/after shape vectors obtained through the add-only verif hook tm2/pkg/bptree/verif_export.go")
	c.Assume("iterator bounds: nil = unbounded, empty non-nil slice = the empty key (documented in iterator.go)")

	// minimum coverage: every op kind, every structural event class, deep trees
	for k := range agg.ops {
		c.RequireCounter("op_"+bpgen.OpNames[k], 1)
	}
	for _, ev := range []string{"leaf-split-90-10", "leaf-split-50-50", "leaf-merge", "leaf-redistribute-from-left", "leaf-redistribute-from-right",
		"root-split", "root-collapse", "inner-split", "inner-merge", "inner-redistribute"} {
		c.RequireCounter("event_"+ev, 1)
	}
	c.RequireCounter("histories_reaching_height_3", 1)
	c.RequireCounter("drain_histories", 2)
	c.RequireCounter("saved_version_rereads", 1000)
	c.RequireCounter("absent_key_probes", 1000)
	for k := range agg.bad {
		c.RequireCounter("refused_"+bpgen.BadNames[k], 1)
	}
}
