package bpgen

import (
	"bytes"
	"crypto/sha256"
	"encoding/binary"
	"fmt"

	"github.com/gnolang/gno/tm2/pkg/bptree"
)

// Independent re-implementation of the documented hashing scheme (README
// "Mini merkle tree within each node"), used by the walker and by C24/C25:
//
//	leaf slot : SHA256(0x00 || uvarint(len(key)) || key || 0x20 || SHA256(value))
//	inner     : SHA256(0x01 || left || right), except sentinel,sentinel -> sentinel
//	sentinel  : SHA256(0x02)
//	node hash : root of a complete binary tree over B=32 slots
//	empty tree: SHA256("")

var Sentinel = sha256.Sum256([]byte{0x02})

// EmptyTreeHash is the documented hash of an empty tree.
var EmptyTreeHash = sha256.Sum256(nil)

// LeafSlotHash hashes one occupied leaf slot from the key and the value hash.
func LeafSlotHash(key []byte, valueHash [32]byte) [32]byte {
	var lb [binary.MaxVarintLen64]byte
	n := binary.PutUvarint(lb[:], uint64(len(key)))
	buf := make([]byte, 0, 1+n+len(key)+1+32)
	buf = append(buf, 0x00)
	buf = append(buf, lb[:n]...)
	buf = append(buf, key...)
	buf = append(buf, 0x20)
	buf = append(buf, valueHash[:]...)
	return sha256.Sum256(buf)
}

// MiniRoot folds the occupied slots (the rest are sentinel) of a B-slot node.
func MiniRoot(slots [][32]byte) [32]byte {
	level := make([][32]byte, bptree.B)
	for i := range level {
		if i < len(slots) {
			level[i] = slots[i]
		} else {
			level[i] = Sentinel
		}
	}
	for len(level) > 1 {
		next := make([][32]byte, len(level)/2)
		for i := range next {
			l, r := level[2*i], level[2*i+1]
			if l == Sentinel && r == Sentinel {
				next[i] = Sentinel
				continue
			}
			var buf [65]byte
			buf[0] = 0x01
			copy(buf[1:], l[:])
			copy(buf[33:], r[:])
			next[i] = sha256.Sum256(buf[:])
		}
		level = next
	}
	return level[0]
}

// WalkResult summarises one structural walk.
type WalkResult struct {
	Height   int
	Leaves   int
	Inners   int
	Keys     int
	RootHash [32]byte // recomputed bottom-up by the code above
	MinLeaf  int      // smallest non-root leaf occupancy seen (B+1 if none)
	MinInner int      // smallest non-root inner numKeys seen (B if none)
}

type walker struct {
	rep    Report
	lookup func(key []byte) ([]byte, bool)
	saved  bool
	prev   []byte // last leaf key seen in order
	res    *WalkResult
	stop   int // cap on reported problems
}

func (w *walker) problem(sig, detail string) {
	if w.stop <= 0 {
		return
	}
	w.stop--
	w.rep(sig, detail)
}

// walk returns (size, minKey, maxKey, independentHash).
func (w *walker) walk(n *bptree.VerifNodeView, isRoot bool, path string) (int64, []byte, []byte, [32]byte) {
	if n.Leaf {
		w.res.Leaves++
		nk := n.NumKeys
		if nk != len(n.Keys) || nk < 1 || nk > bptree.B {
			w.problem("walker:leaf-occupancy", fmt.Sprintf("%s: leaf numKeys=%d outside [1,%d]", path, nk, bptree.B))
			return 0, nil, nil, [32]byte{}
		}
		if !isRoot && nk < w.res.MinLeaf {
			w.res.MinLeaf = nk
		}
		if n.Height != 0 {
			w.problem("walker:height", fmt.Sprintf("%s: leaf with height %d", path, n.Height))
		}
		slots := make([][32]byte, nk)
		for i, k := range n.Keys {
			if len(k) == 0 {
				w.problem("walker:empty-key", fmt.Sprintf("%s: empty key at slot %d", path, i))
			}
			if w.prev != nil && bytes.Compare(w.prev, k) >= 0 {
				w.problem("walker:keys-unsorted", fmt.Sprintf("%s: slot %d key %x not greater than the previous key %x", path, i, k, w.prev))
			}
			w.prev = k
			if w.lookup != nil {
				val, ok := w.lookup(k)
				if !ok {
					w.problem("walker:phantom-key", fmt.Sprintf("%s: slot %d key %x is not in the model", path, i, k))
				} else if sha256.Sum256(val) != n.ValueHashes[i] {
					w.problem("walker:value-hash", fmt.Sprintf("%s: slot %d key %x valueHash %x != SHA256(model value)", path, i, k, n.ValueHashes[i][:6]))
				}
			}
			if len(n.ValueKeys[i]) != bptree.NodeKeySize {
				w.problem("walker:value-key", fmt.Sprintf("%s: slot %d valueKey length %d", path, i, len(n.ValueKeys[i])))
			}
			slots[i] = LeafSlotHash(k, n.ValueHashes[i])
		}
		h := MiniRoot(slots)
		if h != n.Hash {
			w.problem("walker:leaf-hash-stale", fmt.Sprintf("%s: cached leaf hash %x != recomputed %x", path, n.Hash[:6], h[:6]))
		}
		if w.saved && n.NodeKey == nil {
			w.problem("walker:unsaved-node", fmt.Sprintf("%s: leaf of a saved version has no NodeKey", path))
		}
		w.res.Keys += nk
		return int64(nk), n.Keys[0], n.Keys[nk-1], h
	}

	w.res.Inners++
	nk := n.NumKeys
	if nk != len(n.Keys) || nk < 1 || nk > bptree.B-1 {
		w.problem("walker:inner-occupancy", fmt.Sprintf("%s: inner numKeys=%d outside [1,%d]", path, nk, bptree.B-1))
		return 0, nil, nil, [32]byte{}
	}
	if !isRoot {
		if nk < w.res.MinInner {
			w.res.MinInner = nk
		}
		if nk < bptree.MinKeys-1 {
			w.problem("walker:inner-underfull", fmt.Sprintf("%s: non-root inner node with %d separators (< %d)", path, nk, bptree.MinKeys-1))
		}
	}
	if n.Height < 1 {
		w.problem("walker:height", fmt.Sprintf("%s: inner node with height %d", path, n.Height))
	}
	var total int64
	var minK, maxK []byte
	slots := make([][32]byte, nk+1)
	for i := 0; i <= nk; i++ {
		c := n.Children[i]
		cpath := fmt.Sprintf("%s/%d", path, i)
		if c == nil {
			w.problem("walker:nil-child", fmt.Sprintf("%s: child is nil", cpath))
			return 0, nil, nil, [32]byte{}
		}
		if c.Height != n.Height-1 {
			w.problem("walker:height", fmt.Sprintf("%s: child height %d under a node of height %d", cpath, c.Height, n.Height))
		}
		sz, cmin, cmax, ch := w.walk(c, false, cpath)
		if cmin == nil {
			return 0, nil, nil, [32]byte{}
		}
		if sz != n.ChildSizes[i] {
			w.problem("walker:child-size", fmt.Sprintf("%s: recorded child size %d, subtree holds %d keys", cpath, n.ChildSizes[i], sz))
		}
		if ch != n.ChildHashes[i] {
			w.problem("walker:child-hash", fmt.Sprintf("%s: recorded child hash %x != hash(child) %x", cpath, n.ChildHashes[i][:6], ch[:6]))
		}
		if w.saved && !bytes.Equal(n.ChildRefs[i], c.NodeKey) {
			w.problem("walker:child-ref", fmt.Sprintf("%s: child ref %x != child NodeKey %x", cpath, n.ChildRefs[i], c.NodeKey))
		}
		if i > 0 {
			sep := n.Keys[i-1]
			if len(sep) == 0 {
				w.problem("walker:empty-key", fmt.Sprintf("%s: empty separator %d", path, i-1))
			}
			// max(left subtree) < sep <= min(right subtree)
			if bytes.Compare(maxK, sep) >= 0 || bytes.Compare(sep, cmin) > 0 {
				w.problem("walker:separator-window", fmt.Sprintf("%s: separator %d = %x violates max(left)=%x < sep <= min(right)=%x", path, i-1, sep, maxK, cmin))
			}
		}
		if i == 0 {
			minK = cmin
		}
		maxK = cmax
		total += sz
		slots[i] = n.ChildHashes[i]
	}
	h := MiniRoot(slots)
	if h != n.Hash {
		w.problem("walker:inner-hash-stale", fmt.Sprintf("%s: cached inner hash %x != mini-merkle of recorded child hashes %x", path, n.Hash[:6], h[:6]))
	}
	if w.saved && n.NodeKey == nil {
		w.problem("walker:unsaved-node", fmt.Sprintf("%s: inner node of a saved version has no NodeKey", path))
	}
	return total, minK, maxK, h
}

// Walk runs the structural walker over a view (nil = empty tree). lookup, if
// not nil, binds leaf entries to the model (key present, valueHash ==
// SHA256(model value)); saved additionally requires NodeKeys and child refs.
func Walk(root *bptree.VerifNodeView, lookup func([]byte) ([]byte, bool), saved bool, wantKeys int, rep Report) WalkResult {
	res := WalkResult{MinLeaf: bptree.B + 1, MinInner: bptree.B}
	if root == nil {
		res.RootHash = EmptyTreeHash
		if wantKeys > 0 {
			rep("walker:key-count", fmt.Sprintf("empty tree, model has %d keys", wantKeys))
		}
		return res
	}
	w := &walker{rep: rep, lookup: lookup, saved: saved, res: &res, stop: 8}
	_, _, _, h := w.walk(root, true, "root")
	res.RootHash = h
	res.Height = root.Height + 1
	if wantKeys >= 0 && res.Keys != wantKeys && w.stop == 8 {
		rep("walker:key-count", fmt.Sprintf("tree holds %d keys, model %d", res.Keys, wantKeys))
	}
	return res
}
