// Package bpgen holds what the B+ tree checks (C23, C24, C25) share: the
// ordered-map reference model, hostile key generators, the history generator,
// read-API comparators and the independent structural walker. It registers no
// check itself.
package bpgen

import (
	"bytes"
	"sort"
)

// KV is one key/value pair of the reference model.
type KV struct {
	K []byte
	V []byte
}

// View is a read-only ordered map: what a tree version must behave like.
type View interface {
	Len() int
	At(i int) KV
	// Search returns the number of keys strictly smaller than key, and whether
	// key itself is present (then At(idx).K == key).
	Search(key []byte) (idx int, found bool)
}

// Snapshot is an immutable sorted slice of pairs (one saved version).
type Snapshot []KV

func (s Snapshot) Len() int    { return len(s) }
func (s Snapshot) At(i int) KV { return s[i] }
func (s Snapshot) Search(key []byte) (int, bool) {
	i := sort.Search(len(s), func(i int) bool { return bytes.Compare(s[i].K, key) >= 0 })
	return i, i < len(s) && bytes.Equal(s[i].K, key)
}

// Model is the mutable working ordered map (sorted slice; n stays small).
type Model struct {
	kvs []KV
}

func (m *Model) Len() int    { return len(m.kvs) }
func (m *Model) At(i int) KV { return m.kvs[i] }
func (m *Model) Search(key []byte) (int, bool) {
	i := sort.Search(len(m.kvs), func(i int) bool { return bytes.Compare(m.kvs[i].K, key) >= 0 })
	return i, i < len(m.kvs) && bytes.Equal(m.kvs[i].K, key)
}

func cp(b []byte) []byte {
	if b == nil {
		return nil
	}
	c := make([]byte, len(b))
	copy(c, b)
	return c
}

// Set stores a private copy of key and value; reports whether key existed.
func (m *Model) Set(key, val []byte) bool {
	i, found := m.Search(key)
	if found {
		m.kvs[i].V = cp(val)
		if m.kvs[i].V == nil {
			m.kvs[i].V = []byte{}
		}
		return true
	}
	v := cp(val)
	if v == nil {
		v = []byte{}
	}
	m.kvs = append(m.kvs, KV{})
	copy(m.kvs[i+1:], m.kvs[i:])
	m.kvs[i] = KV{K: cp(key), V: v}
	return false
}

// Remove deletes key; returns the old value and whether it existed.
func (m *Model) Remove(key []byte) ([]byte, bool) {
	i, found := m.Search(key)
	if !found {
		return nil, false
	}
	old := m.kvs[i].V
	copy(m.kvs[i:], m.kvs[i+1:])
	m.kvs[len(m.kvs)-1] = KV{}
	m.kvs = m.kvs[:len(m.kvs)-1]
	return old, true
}

// Get returns the value (nil, false when absent).
func (m *Model) Get(key []byte) ([]byte, bool) {
	i, found := m.Search(key)
	if !found {
		return nil, false
	}
	return m.kvs[i].V, true
}

// Snapshot returns an immutable copy of the current contents. Keys and values
// are shared (the model never mutates a stored slice in place).
func (m *Model) Snapshot() Snapshot {
	s := make(Snapshot, len(m.kvs))
	copy(s, m.kvs)
	return s
}

// Load replaces the working contents with a snapshot.
func (m *Model) Load(s Snapshot) {
	m.kvs = make([]KV, len(s))
	copy(m.kvs, s)
}

// Lookup adapts a View to the walker's lookup callback.
func Lookup(v View) func(key []byte) ([]byte, bool) {
	return func(key []byte) ([]byte, bool) {
		i, found := v.Search(key)
		if !found {
			return nil, false
		}
		return v.At(i).V, true
	}
}
