package bpgen

import (
	"encoding/binary"
	"fmt"
	"math/rand/v2"
)

// KeyMode selects the key generator of a history.
type KeyMode int

const (
	ModeSeq        KeyMode = iota // strictly increasing keys: every leaf split is a 90/10 append split
	ModeRev                       // strictly decreasing keys: every insert lands at slot 0 of the first leaf
	ModeClustered                 // a few dense clusters: repeated 50/50 splits of the same region
	ModeLongPrefix                // long common prefix, keys that are prefixes/extensions of each other
	ModeRandom                    // short random keys
	ModeMixed                     // a different generator per insert
	NumModes
)

var ModeNames = []string{"seq", "rev", "clustered", "longprefix", "random", "mixed"}

// KeyGen produces (mostly new) keys for one history.
type KeyGen struct {
	Mode    KeyMode
	rng     *rand.Rand
	seq     uint64
	rev     uint64
	stride  uint64
	centers [][]byte
	prefix  []byte
}

func NewKeyGen(mode KeyMode, rng *rand.Rand) *KeyGen {
	g := &KeyGen{Mode: mode, rng: rng, seq: 1 << 20, rev: 1 << 40, stride: uint64(1 + rng.IntN(4))}
	nc := 3 + rng.IntN(5)
	for i := 0; i < nc; i++ {
		c := make([]byte, 2+rng.IntN(3))
		for j := range c {
			c[j] = byte(rng.IntN(256))
		}
		g.centers = append(g.centers, c)
	}
	g.prefix = make([]byte, 30+rng.IntN(100))
	for j := range g.prefix {
		g.prefix[j] = byte(rng.IntN(256))
	}
	return g
}

// Next returns a candidate key. m is consulted by the modes that derive keys
// from existing ones (prefix-of / extension-of an existing key).
func (g *KeyGen) Next(m *Model) []byte {
	mode := g.Mode
	if mode == ModeMixed {
		mode = KeyMode(g.rng.IntN(int(ModeMixed)))
	}
	switch mode {
	case ModeSeq:
		g.seq += g.stride
		k := make([]byte, 9)
		k[0] = 'S'
		binary.BigEndian.PutUint64(k[1:], g.seq)
		return k
	case ModeRev:
		g.rev -= g.stride
		k := make([]byte, 9)
		k[0] = 'R'
		binary.BigEndian.PutUint64(k[1:], g.rev)
		return k
	case ModeClustered:
		c := g.centers[g.rng.IntN(len(g.centers))]
		k := append(cp(c), 0, 0)
		binary.BigEndian.PutUint16(k[len(c):], uint16(g.rng.IntN(2500)))
		if g.rng.IntN(8) == 0 {
			k = append(k, byte(g.rng.IntN(3)))
		}
		return k
	case ModeLongPrefix:
		switch r := g.rng.IntN(10); {
		case r < 6 || m.Len() == 0:
			k := append(cp(g.prefix), 0, 0)
			binary.BigEndian.PutUint16(k[len(g.prefix):], uint16(g.rng.IntN(20000)))
			return k
		case r < 8: // extension of an existing key
			base := m.At(g.rng.IntN(m.Len())).K
			ext := []byte{0x00, 0x00, 0x01, 0xff}[g.rng.IntN(4)]
			return append(cp(base), ext)
		default: // proper prefix of an existing key (never empty)
			base := m.At(g.rng.IntN(m.Len())).K
			if len(base) < 2 {
				return append(cp(base), 0x00)
			}
			cut := 1 + g.rng.IntN(len(base)-1)
			if g.rng.IntN(2) == 0 {
				cut = len(base) - 1
			}
			return cp(base[:cut])
		}
	default: // ModeRandom
		k := make([]byte, 1+g.rng.IntN(10))
		for j := range k {
			k[j] = byte(g.rng.IntN(256))
		}
		return k
	}
}

// OpKind enumerates history operations.
type OpKind uint8

const (
	OpSet OpKind = iota
	OpRemove
	OpSave
	OpRollback
	OpLoadVersion // Version: target (0 = latest through Load())
	OpPrune       // Version: toVersion
	OpReopen      // abandon the handle, open a new one on the same DB, Load()
	OpBad         // an operation the API documents as refused; Sub selects which
	NumOpKinds
)

var OpNames = []string{"set", "remove", "save", "rollback", "loadversion", "prune", "reopen", "bad"}

// Refused-operation kinds.
const (
	BadSetNilValue = iota
	BadSetEmptyKey
	BadPruneDirty
	BadPruneLatest
	BadLoadMissing
	BadImmutableMissing
	BadPruneLoaded // prune of the version the working tree is loaded at
	NumBad
)

var BadNames = []string{"set-nil-value", "set-empty-key", "prune-dirty", "prune-latest", "load-missing", "immutable-missing", "prune-loaded"}

// Op is one history step.
type Op struct {
	Kind    OpKind
	Key     []byte
	Val     []byte
	Version int64
	Sub     int
}

func (o Op) String() string {
	switch o.Kind {
	case OpSet:
		return fmt.Sprintf("set(%x,%d bytes)", o.Key, len(o.Val))
	case OpRemove:
		return fmt.Sprintf("remove(%x)", o.Key)
	case OpLoadVersion, OpPrune:
		return fmt.Sprintf("%s(%d)", OpNames[o.Kind], o.Version)
	case OpBad:
		return "bad:" + BadNames[o.Sub]
	}
	return OpNames[o.Kind]
}

// GenParams parameterises a history.
type GenParams struct {
	NOps       int
	NVersions  int
	Mode       KeyMode
	Deep       bool // start with a long growth phase so the root inner node splits (height 3)
	Admin      bool // include rollback / loadversion / prune / reopen / refused operations
	Rollbacks  bool // include rollbacks even when Admin is false (logical histories for C24)
	AllowEmpty bool // allow empty ([]byte{}) values
	BigValues  bool // occasionally use values of a few KiB
}

func (p GenParams) String() string {
	return fmt.Sprintf("ops=%d versions=%d mode=%s deep=%v admin=%v", p.NOps, p.NVersions, ModeNames[p.Mode], p.Deep, p.Admin)
}

// History is a generated operation sequence.
type History struct {
	Params GenParams
	Ops    []Op
}

func genValue(rng *rand.Rand, p GenParams, stamp int) []byte {
	r := rng.IntN(100)
	var n int
	switch {
	case r < 3 && p.AllowEmpty:
		return []byte{}
	case r < 6 && p.BigValues:
		n = 300 + rng.IntN(2500)
	case r < 30:
		n = 1 + rng.IntN(4)
	default:
		n = 4 + rng.IntN(40)
	}
	v := make([]byte, n)
	for i := range v {
		v[i] = byte(rng.IntN(256))
	}
	if n >= 4 {
		binary.BigEndian.PutUint32(v, uint32(stamp))
	}
	return v
}

// GenHistory generates a history against an internal model, so removes hit
// existing keys, prunes name retained versions, and so on. The result depends
// only on (rng state, p).
func GenHistory(rng *rand.Rand, p GenParams) *History {
	h := &History{Params: p}
	g := NewKeyGen(p.Mode, rng)
	var m Model
	snaps := map[int64]Snapshot{} // retained versions
	var retained []int64
	var latest int64
	loaded := int64(0) // version the working tree is based on
	dirty := false
	emit := func(o Op) { h.Ops = append(h.Ops, o) }

	saveEvery := p.NOps / max(p.NVersions, 1)
	if saveEvery < 2 {
		saveEvery = 2
	}
	sinceSave := 0

	// phases: 0 grow, 1 churn, 2 shrink
	phase, phaseLeft := 0, 0
	deepGrow := p.Deep
	if p.Deep {
		phaseLeft = 1150 + rng.IntN(500)
	} else {
		phaseLeft = 40 + rng.IntN(300)
	}
	nextPhase := func() {
		deepGrow = false
		switch r := rng.IntN(10); {
		case r < 4:
			phase = 0
		case r < 7:
			phase = 1
		default:
			phase = 2
		}
		phaseLeft = 30 + rng.IntN(350)
	}

	doSet := func(forceNew, forceExisting bool) {
		var key []byte
		if forceExisting && m.Len() > 0 {
			key = cp(m.At(rng.IntN(m.Len())).K)
		} else {
			for try := 0; try < 8; try++ {
				key = g.Next(&m)
				if _, found := m.Search(key); !found || !forceNew {
					break
				}
			}
		}
		val := genValue(rng, p, len(h.Ops))
		if forceExisting && rng.IntN(6) == 0 { // overwrite with the identical value
			if old, ok := m.Get(key); ok && (len(old) > 0 || p.AllowEmpty) {
				val = cp(old)
			}
		}
		m.Set(key, val)
		emit(Op{Kind: OpSet, Key: key, Val: val})
		dirty = true
	}
	doRemove := func() {
		if m.Len() == 0 || rng.IntN(12) == 0 { // absent key
			key := g.Next(&m)
			if _, found := m.Search(key); found {
				m.Remove(key)
				dirty = true
			}
			emit(Op{Kind: OpRemove, Key: key})
			return
		}
		key := cp(m.At(rng.IntN(m.Len())).K)
		m.Remove(key)
		emit(Op{Kind: OpRemove, Key: key})
		dirty = true
	}
	doRangeDelete := func() int {
		if m.Len() < 8 {
			return 0
		}
		n := 8 + rng.IntN(min(m.Len()/2, 260))
		start := rng.IntN(m.Len())
		// edges of the key space are the interesting places for merges
		switch rng.IntN(4) {
		case 0:
			start = 0
		case 1:
			start = max(0, m.Len()-n)
		}
		if start+n > m.Len() {
			n = m.Len() - start
		}
		keys := make([][]byte, n)
		for i := 0; i < n; i++ {
			keys[i] = cp(m.At(start + i).K)
		}
		// delete in a random direction
		if rng.IntN(2) == 0 {
			for i, j := 0, n-1; i < j; i, j = i+1, j-1 {
				keys[i], keys[j] = keys[j], keys[i]
			}
		}
		for _, k := range keys {
			m.Remove(k)
			emit(Op{Kind: OpRemove, Key: k})
		}
		dirty = true
		return n
	}
	doSave := func() {
		latest++
		snaps[latest] = m.Snapshot()
		retained = append(retained, latest)
		loaded = latest
		dirty = false
		sinceSave = 0
		emit(Op{Kind: OpSave})
	}

	for len(h.Ops) < p.NOps {
		if phaseLeft <= 0 {
			nextPhase()
		}
		atLatest := loaded == latest
		// --- version management ---
		if atLatest && sinceSave >= saveEvery && rng.IntN(3) != 0 {
			doSave()
			if p.Admin {
				if r := rng.IntN(10); r < 2 {
					emit(Op{Kind: OpReopen})
				}
				if len(retained) >= 3 && rng.IntN(3) == 0 {
					// prune a prefix of the retained versions (never the latest)
					idx := rng.IntN(len(retained) - 1)
					if rng.IntN(3) == 0 {
						idx = len(retained) - 2 // everything but the latest
					}
					to := retained[idx]
					if rng.IntN(5) == 0 && to+1 < latest {
						to++ // a toVersion that may itself be already gone is fine too
					}
					emit(Op{Kind: OpPrune, Version: to})
					keep := retained[:0:0]
					for _, v := range retained {
						if v > to {
							keep = append(keep, v)
						} else {
							delete(snaps, v)
						}
					}
					retained = keep
				}
			}
			continue
		}
		if !p.Admin && p.Rollbacks && dirty && rng.IntN(1000) < 10 && !(deepGrow && rng.IntN(8) != 0) {
			emit(Op{Kind: OpRollback})
			if loaded == 0 {
				m.Load(nil)
			} else {
				m.Load(snaps[loaded])
			}
			dirty = false
			continue
		}
		if p.Admin {
			r := rng.IntN(1000)
			if deepGrow && rng.IntN(8) != 0 {
				r = 999 // keep the growth phase mostly free of discarded sessions so the tree gets deep
			}
			switch {
			case r < 12 && dirty:
				emit(Op{Kind: OpRollback})
				if loaded == 0 {
					m.Load(nil)
				} else {
					m.Load(snaps[loaded])
				}
				dirty = false
				continue
			case r < 20 && atLatest && len(retained) >= 2:
				// excursion to an older version: reads, a few writes, rollback, back to latest
				v := retained[rng.IntN(len(retained)-1)]
				emit(Op{Kind: OpLoadVersion, Version: v})
				m.Load(snaps[v])
				loaded, dirty = v, false
				nw := rng.IntN(12)
				for i := 0; i < nw; i++ {
					if rng.IntN(3) == 0 {
						doRemove()
					} else {
						doSet(false, rng.IntN(3) == 0)
					}
				}
				if rng.IntN(4) == 0 {
					emit(Op{Kind: OpBad, Sub: BadPruneLoaded, Version: v})
				}
				if dirty && rng.IntN(2) == 0 {
					emit(Op{Kind: OpRollback})
					m.Load(snaps[v])
					dirty = false
				}
				back := int64(0)
				if rng.IntN(2) == 0 {
					back = latest
				}
				emit(Op{Kind: OpLoadVersion, Version: back})
				m.Load(snaps[latest])
				loaded, dirty = latest, false
				continue
			case r < 26 && atLatest && !dirty && latest > 0:
				emit(Op{Kind: OpReopen})
				continue
			case r < 30 && atLatest && dirty && latest > 0:
				// crash-restart: the uncommitted session is lost
				emit(Op{Kind: OpReopen})
				m.Load(snaps[latest])
				dirty = false
				continue
			case r < 42:
				sub := rng.IntN(NumBad - 1) // BadPruneLoaded only inside excursions
				switch sub {
				case BadPruneDirty:
					if !dirty || len(retained) < 2 || !atLatest {
						continue
					}
					emit(Op{Kind: OpBad, Sub: sub, Version: retained[0]})
				case BadPruneLatest:
					if dirty || latest == 0 || !atLatest {
						continue
					}
					emit(Op{Kind: OpBad, Sub: sub, Version: latest + int64(rng.IntN(2))})
				case BadLoadMissing, BadImmutableMissing:
					emit(Op{Kind: OpBad, Sub: sub, Version: latest + 1 + int64(rng.IntN(3))})
				default:
					emit(Op{Kind: OpBad, Sub: sub, Key: g.Next(&m)})
				}
				continue
			}
		}
		// --- data operations ---
		n := 1
		r := rng.IntN(100)
		switch phase {
		case 0:
			switch {
			case r < 82 || (deepGrow && r < 96):
				doSet(true, false)
			case r < 92:
				doSet(false, true)
			default:
				doRemove()
			}
		case 1:
			switch {
			case r < 35:
				doSet(true, false)
			case r < 65:
				doSet(false, true)
			default:
				doRemove()
			}
		default:
			switch {
			case r < 10:
				doSet(true, false)
			case r < 20:
				doSet(false, true)
			case r < 26:
				n = doRangeDelete()
			default:
				doRemove()
			}
		}
		phaseLeft -= n
		sinceSave += n
	}
	// end at a saved, latest state
	if loaded != latest {
		emit(Op{Kind: OpLoadVersion, Version: 0})
		m.Load(snaps[latest])
		loaded, dirty = latest, false
	}
	if dirty || latest == 0 {
		doSave()
	}
	return h
}

// GenDrainHistory: a tree of height >= 2 built from ascending keys (full leaves), then many small
// removals confined to ONE region of the key space (left edge, right edge or a middle window), a save
// after every few of them and frequent prunes of everything but the last one or two versions. The
// region's leaves thin out and merge, its inner node runs short and borrows from / merges with its
// untouched sibling — between two consecutive saved versions that share all untouched nodes.
func GenDrainHistory(rng *rand.Rand, nKeys int) *History {
	p := GenParams{Mode: ModeSeq, Admin: true, NOps: 0, NVersions: 0, Deep: true}
	h := &History{Params: p}
	var m Model
	emit := func(o Op) { h.Ops = append(h.Ops, o) }
	key := func(i int) []byte { return []byte(fmt.Sprintf("k%06d", i)) }
	for i := 0; i < nKeys; i++ {
		v := genValue(rng, p, i)
		if len(v) == 0 {
			v = []byte{1}
		}
		m.Set(key(i), v)
		emit(Op{Kind: OpSet, Key: key(i), Val: v})
	}
	var latest int64
	var retained []int64
	save := func() {
		latest++
		retained = append(retained, latest)
		emit(Op{Kind: OpSave})
	}
	save()
	// the drained window: about 40% of the key space
	w := nKeys * 2 / 5
	lo := []int{0, nKeys - w, rng.IntN(nKeys - w)}[rng.IntN(3)]
	alive := make([]int, 0, w)
	for i := lo; i < lo+w; i++ {
		alive = append(alive, i)
	}
	for len(alive) > w/8 {
		for k := 1 + rng.IntN(4); k > 0 && len(alive) > 0; k-- {
			j := rng.IntN(len(alive))
			if rng.IntN(3) == 0 { // runs of neighbours empty a leaf quickly
				j = min(j, len(alive)-1)
			}
			i := alive[j]
			alive = append(alive[:j], alive[j+1:]...)
			m.Remove(key(i))
			emit(Op{Kind: OpRemove, Key: key(i)})
		}
		if rng.IntN(8) == 0 { // an occasional update elsewhere in the window
			if len(alive) > 0 {
				i := alive[rng.IntN(len(alive))]
				v := []byte{byte(rng.IntN(255) + 1), 2}
				m.Set(key(i), v)
				emit(Op{Kind: OpSet, Key: key(i), Val: v})
			}
		}
		save()
		if len(retained) >= 3 && rng.IntN(2) == 0 {
			to := retained[len(retained)-2-rng.IntN(2)]
			emit(Op{Kind: OpPrune, Version: to})
			keep := retained[:0:0]
			for _, v := range retained {
				if v > to {
					keep = append(keep, v)
				}
			}
			retained = keep
		}
		if rng.IntN(25) == 0 {
			emit(Op{Kind: OpReopen})
		}
	}
	h.Params.NOps = len(h.Ops)
	h.Params.NVersions = int(latest)
	return h
}
