package bpgen

import (
	"bytes"
	"errors"
	"fmt"
	"math/rand/v2"

	"github.com/gnolang/gno/tm2/pkg/bptree"
)

// Reader is the read surface shared by *bptree.MutableTree (working tree) and
// *bptree.ImmutableTree (saved version).
type Reader interface {
	Get(key []byte) ([]byte, error)
	Has(key []byte) (bool, error)
	Size() int64
	IsEmpty() bool
	GetByIndex(index int64) ([]byte, []byte, error)
	GetWithIndex(key []byte) (int64, []byte, error)
	Iterate(fn func(key, value []byte) bool) (bool, error)
	Iterator(start, end []byte, ascending bool) (*bptree.Iterator, error)
	IterateRange(start, end []byte, ascending bool, fn func(key, value []byte) bool) (bool, error)
}

// Report receives a mismatch: sig is a stable signature (API + failure kind),
// detail the literal observation.
type Report func(sig, detail string)

// Stats counts what the comparators actually compared.
type Stats struct {
	PointReads   int64 // Get/Has/GetWithIndex/GetByIndex comparisons
	IterItems    int64 // items compared through iterators / Iterate / IterateRange
	Ranges       int64 // ranged iterations compared
	FullScans    int64 // full asc+desc comparisons
	AbsentProbes int64
}

func scribble(b []byte) {
	for i := range b {
		b[i] ^= 0xA5
	}
}

func valEq(got, want []byte) bool {
	// presence is signalled by non-nil: a present key never reads as nil
	return got != nil && bytes.Equal(got, want)
}

// Probes derives absent/edge probe keys around key: proper prefix, extension
// with 0x00, last byte ±1, and the key itself.
func Probes(key []byte) [][]byte {
	out := [][]byte{cp(key), append(cp(key), 0x00)}
	if len(key) > 1 {
		out = append(out, cp(key[:len(key)-1]))
	}
	if len(key) > 0 {
		up := cp(key)
		up[len(up)-1]++
		dn := cp(key)
		dn[len(dn)-1]--
		out = append(out, up, dn)
	}
	return out
}

// CheckPoint compares every point-read API for one probe key.
func CheckPoint(r Reader, v View, key []byte, rep Report, st *Stats) {
	idx, found := v.Search(key)
	var want []byte
	if found {
		want = v.At(idx).V
	} else {
		st.AbsentProbes++
	}
	st.PointReads += 3
	got, err := r.Get(cp(key))
	switch {
	case err != nil:
		rep("Get:error", fmt.Sprintf("Get(%x): %v", key, err))
	case found && !valEq(got, want):
		rep("Get:wrong-value", fmt.Sprintf("Get(%x)=%x (nil=%v), model %x", key, got, got == nil, want))
	case !found && got != nil:
		rep("Get:phantom", fmt.Sprintf("Get(%x)=%x, model has no such key", key, got))
	}
	if got != nil {
		scribble(got) // a returned slice must be a private copy
	}
	has, err := r.Has(cp(key))
	if err != nil {
		rep("Has:error", fmt.Sprintf("Has(%x): %v", key, err))
	} else if has != found {
		rep("Has:mismatch", fmt.Sprintf("Has(%x)=%v, model %v", key, has, found))
	}
	gi, gv, err := r.GetWithIndex(cp(key))
	switch {
	case err != nil:
		rep("GetWithIndex:error", fmt.Sprintf("GetWithIndex(%x): %v", key, err))
	case gi != int64(idx):
		rep("GetWithIndex:wrong-index", fmt.Sprintf("GetWithIndex(%x) index=%d, model rank %d (found=%v)", key, gi, idx, found))
	case found && !valEq(gv, want):
		rep("GetWithIndex:wrong-value", fmt.Sprintf("GetWithIndex(%x) value=%x, model %x", key, gv, want))
	case !found && gv != nil:
		rep("GetWithIndex:phantom", fmt.Sprintf("GetWithIndex(%x) value=%x for an absent key", key, gv))
	}
}

// CheckIndex compares GetByIndex(i) (including out-of-range i).
func CheckIndex(r Reader, v View, i int64, rep Report, st *Stats) {
	st.PointReads++
	k, val, err := r.GetByIndex(i)
	if i < 0 || i >= int64(v.Len()) {
		if err == nil {
			rep("GetByIndex:out-of-range-accepted", fmt.Sprintf("GetByIndex(%d) on size %d returned (%x,%x) without error", i, v.Len(), k, val))
		} else if !errors.Is(err, bptree.ErrKeyDoesNotExist) {
			rep("GetByIndex:out-of-range-error", fmt.Sprintf("GetByIndex(%d) on size %d: %v (want ErrKeyDoesNotExist)", i, v.Len(), err))
		}
		return
	}
	want := v.At(int(i))
	switch {
	case err != nil:
		rep("GetByIndex:error", fmt.Sprintf("GetByIndex(%d): %v", i, err))
	case !bytes.Equal(k, want.K):
		rep("GetByIndex:wrong-key", fmt.Sprintf("GetByIndex(%d) key=%x, model %x", i, k, want.K))
	case !valEq(val, want.V):
		rep("GetByIndex:wrong-value", fmt.Sprintf("GetByIndex(%d) value=%x, model %x", i, val, want.V))
	}
	if err == nil {
		scribble(k)
		scribble(val)
	}
}

// rangeBounds returns model indices [lo,hi) selected by [start,end).
func rangeBounds(v View, start, end []byte) (lo, hi int) {
	lo, hi = 0, v.Len()
	if start != nil {
		lo, _ = v.Search(start)
	}
	if end != nil {
		hi, _ = v.Search(end)
	}
	if hi < lo {
		hi = lo
	}
	return
}

// CheckRange compares Iterator and IterateRange over [start,end) in one
// direction. limit > 0 stops after that many items (early Close / early stop).
func CheckRange(r Reader, v View, start, end []byte, asc bool, limit int, rep Report, st *Stats) {
	st.Ranges++
	lo, hi := rangeBounds(v, start, end)
	n := hi - lo
	at := func(j int) KV {
		if asc {
			return v.At(lo + j)
		}
		return v.At(hi - 1 - j)
	}
	desc := fmt.Sprintf("[%x,%x) asc=%v", start, end, asc)
	if start == nil {
		desc = fmt.Sprintf("[nil,%x) asc=%v", end, asc)
	}
	if end == nil {
		desc = fmt.Sprintf("[%x,nil) asc=%v", start, asc)
		if start == nil {
			desc = fmt.Sprintf("[nil,nil) asc=%v", asc)
		}
	}

	// --- Iterator ---
	its, ite := cp(start), cp(end)
	itr, err := r.Iterator(its, ite, asc)
	if err != nil {
		rep("Iterator:error", fmt.Sprintf("Iterator%s: %v", desc, err))
	} else {
		// the caller may reuse its bound slices after construction
		scribble(its)
		scribble(ite)
		j := 0
		for ; itr.Valid(); itr.Next() {
			if limit > 0 && j >= limit {
				break
			}
			k, val := itr.Key(), itr.Value()
			if e := itr.Error(); e != nil {
				rep("Iterator:error", fmt.Sprintf("Iterator%s item %d: %v", desc, j, e))
				break
			}
			if j >= n {
				rep("Iterator:extra-item", fmt.Sprintf("Iterator%s yields item %d key=%x beyond the %d the model has", desc, j, k, n))
				break
			}
			w := at(j)
			if !bytes.Equal(k, w.K) {
				rep("Iterator:wrong-key", fmt.Sprintf("Iterator%s item %d key=%x, model %x", desc, j, k, w.K))
				break
			}
			if !valEq(val, w.V) {
				rep("Iterator:wrong-value", fmt.Sprintf("Iterator%s item %d key=%x value=%x, model %x", desc, j, k, val, w.V))
				break
			}
			scribble(k)
			scribble(val)
			j++
		}
		st.IterItems += int64(j)
		if e := itr.Error(); e != nil {
			rep("Iterator:error", fmt.Sprintf("Iterator%s: %v", desc, e))
		} else if (limit <= 0 || n < limit) && j < n && !itr.Valid() {
			rep("Iterator:missing-items", fmt.Sprintf("Iterator%s ended after %d items, model has %d (next %x)", desc, j, n, at(j).K))
		}
		itr.Close()
		if itr.Valid() {
			rep("Iterator:valid-after-close", fmt.Sprintf("Iterator%s still Valid after Close", desc))
		}
	}

	// --- IterateRange ---
	j := 0
	bad := false
	stopAt := -1
	if limit > 0 && limit <= n {
		stopAt = limit - 1
	}
	stopped, err := r.IterateRange(cp(start), cp(end), asc, func(k, val []byte) bool {
		if j >= n {
			rep("IterateRange:extra-item", fmt.Sprintf("IterateRange%s yields item %d key=%x beyond the %d the model has", desc, j, k, n))
			bad = true
			return true
		}
		w := at(j)
		if !bytes.Equal(k, w.K) || !valEq(val, w.V) {
			rep("IterateRange:wrong-item", fmt.Sprintf("IterateRange%s item %d = (%x,%x), model (%x,%x)", desc, j, k, val, w.K, w.V))
			bad = true
			return true
		}
		j++
		return j-1 == stopAt
	})
	st.IterItems += int64(j)
	switch {
	case err != nil:
		rep("IterateRange:error", fmt.Sprintf("IterateRange%s: %v", desc, err))
	case bad:
	case stopAt >= 0 && (!stopped || j != stopAt+1):
		rep("IterateRange:early-stop", fmt.Sprintf("IterateRange%s: callback stopped at item %d, got stopped=%v after %d items", desc, stopAt, stopped, j))
	case stopAt < 0 && (stopped || j != n):
		rep("IterateRange:missing-items", fmt.Sprintf("IterateRange%s visited %d items (stopped=%v), model has %d", desc, j, stopped, n))
	}
}

// CheckIterate compares Iterate (full ascending visit, optional early stop).
func CheckIterate(r Reader, v View, stopAt int, rep Report, st *Stats) {
	n := v.Len()
	j := 0
	bad := false
	if stopAt >= n {
		stopAt = -1
	}
	stopped, err := r.Iterate(func(k, val []byte) bool {
		if j >= n {
			rep("Iterate:extra-item", fmt.Sprintf("Iterate yields item %d key=%x beyond the %d the model has", j, k, n))
			bad = true
			return true
		}
		w := v.At(j)
		if !bytes.Equal(k, w.K) || !valEq(val, w.V) {
			rep("Iterate:wrong-item", fmt.Sprintf("Iterate item %d = (%x,%x), model (%x,%x)", j, k, val, w.K, w.V))
			bad = true
			return true
		}
		scribble(k)
		scribble(val)
		j++
		return j-1 == stopAt
	})
	st.IterItems += int64(j)
	switch {
	case err != nil:
		rep("Iterate:error", fmt.Sprintf("Iterate: %v", err))
	case bad:
	case stopAt >= 0 && (!stopped || j != stopAt+1):
		rep("Iterate:early-stop", fmt.Sprintf("Iterate: callback stopped at item %d, got stopped=%v after %d items", stopAt, stopped, j))
	case stopAt < 0 && (stopped || j != n):
		rep("Iterate:missing-items", fmt.Sprintf("Iterate visited %d items (stopped=%v), model has %d", j, stopped, n))
	}
}

// CheckSize compares Size and IsEmpty.
func CheckSize(r Reader, v View, rep Report, st *Stats) {
	st.PointReads++
	if got := r.Size(); got != int64(v.Len()) {
		rep("Size:mismatch", fmt.Sprintf("Size()=%d, model %d", got, v.Len()))
	}
	if got := r.IsEmpty(); got != (v.Len() == 0) {
		rep("IsEmpty:mismatch", fmt.Sprintf("IsEmpty()=%v, model size %d", got, v.Len()))
	}
}

// randomBound picks an iterator bound: an existing key, a probe derived from
// one, nil (unbounded) or, rarely, the empty non-nil slice.
func randomBound(v View, rng *rand.Rand) []byte {
	switch r := rng.IntN(20); {
	case r == 0:
		return nil
	case r == 1:
		return []byte{}
	case v.Len() == 0 || r == 2:
		b := make([]byte, 1+rng.IntN(4))
		for i := range b {
			b[i] = byte(rng.IntN(256))
		}
		return b
	case r < 12:
		return cp(v.At(rng.IntN(v.Len())).K)
	default:
		p := Probes(v.At(rng.IntN(v.Len())).K)
		return p[rng.IntN(len(p))]
	}
}

// CheckLight exercises every read API with arguments concentrated around
// focus (the key the last operation touched; may be nil).
//
// wide=false is the reduced variant used where every node access is a DB read
// plus a deserialization (node cache 0/1, on-disk DB): same APIs, fewer
// arguments.
func CheckLight(r Reader, v View, focus []byte, wide bool, rng *rand.Rand, rep Report, st *Stats) {
	CheckSize(r, v, rep, st)
	n := v.Len()
	if focus == nil && n > 0 {
		focus = v.At(rng.IntN(n)).K
	}
	if focus == nil {
		focus = []byte{byte(rng.IntN(256))}
	}
	idx, _ := v.Search(focus)
	for _, p := range Probes(focus) {
		CheckPoint(r, v, p, rep, st)
	}
	// neighbours in the model (across a possible leaf boundary)
	deltas := []int{-1, 1, 17, -17}
	if wide {
		deltas = []int{-2, -1, 1, 2, 17, -17, 33}
	}
	for _, d := range deltas {
		if j := idx + d; j >= 0 && j < n {
			CheckPoint(r, v, v.At(j).K, rep, st)
		}
	}
	if n > 0 {
		if wide {
			CheckPoint(r, v, v.At(0).K, rep, st)
			CheckPoint(r, v, v.At(n-1).K, rep, st)
		}
		CheckPoint(r, v, v.At(rng.IntN(n)).K, rep, st)
	}
	idxs := []int64{int64(idx) - 1, int64(idx), int64(idx) + 1, -1, int64(n)}
	if wide {
		idxs = append(idxs, 0, int64(n)-1, int64(rng.IntN(n+1)))
	}
	for _, i := range idxs {
		CheckIndex(r, v, i, rep, st)
	}
	// a window of ~70 items around the focus: crosses at least one leaf boundary
	half := 35
	if !wide {
		half = 20
	}
	lo, hi := max(0, idx-half), min(n, idx+half)
	var start, end []byte
	if lo > 0 {
		start = cp(v.At(lo).K)
	}
	if hi < n {
		end = cp(v.At(hi).K)
	}
	CheckRange(r, v, start, end, true, 0, rep, st)
	CheckRange(r, v, start, end, false, 0, rep, st)
	// the focus itself as a bound (inclusive start / exclusive end semantics)
	CheckRange(r, v, cp(focus), end, true, 0, rep, st)
	CheckRange(r, v, start, cp(focus), false, 0, rep, st)
	// one random range, sometimes cut short (always cut short in the reduced variant)
	a, b := randomBound(v, rng), randomBound(v, rng)
	limit := 0
	if rng.IntN(3) == 0 || !wide {
		limit = 1 + rng.IntN(40)
	}
	CheckRange(r, v, a, b, rng.IntN(2) == 0, limit, rep, st)
}

// CheckFull compares the complete contents through every iteration API in both
// directions, plus point reads for all keys (or a sample when large).
//
// samples caps the number of keys that get the per-key point reads (all keys
// when the tree is not larger than that).
func CheckFull(r Reader, v View, samples int, rng *rand.Rand, rep Report, st *Stats) {
	st.FullScans++
	CheckSize(r, v, rep, st)
	n := v.Len()
	CheckRange(r, v, nil, nil, true, 0, rep, st)
	CheckRange(r, v, nil, nil, false, 0, rep, st)
	CheckIterate(r, v, -1, rep, st)
	if n > 0 {
		CheckIterate(r, v, rng.IntN(n), rep, st)
	}
	nr := 6
	if samples < 100 {
		nr = 2
	}
	for i := 0; i < nr; i++ {
		a, b := randomBound(v, rng), randomBound(v, rng)
		CheckRange(r, v, a, b, i%2 == 0, 0, rep, st)
	}
	step := 1
	if n > samples {
		step = (n + samples - 1) / samples
	}
	off := 0
	if step > 1 {
		off = rng.IntN(step)
	}
	for i := off; i < n; i += step {
		k := v.At(i).K
		CheckPoint(r, v, k, rep, st)
		CheckIndex(r, v, int64(i), rep, st)
		if i%7 == 0 {
			for _, p := range Probes(k)[1:] {
				CheckPoint(r, v, p, rep, st)
			}
		}
	}
	CheckIndex(r, v, -1, rep, st)
	CheckIndex(r, v, int64(n), rep, st)
	CheckPoint(r, v, []byte{0x00}, rep, st)
	CheckPoint(r, v, bytes.Repeat([]byte{0xff}, 12), rep, st)
}
