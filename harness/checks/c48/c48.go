// Package c48: bit arrays behave like boolean vectors.
//
// Oracle: a []bool (plus an "is nil" flag). Every exported operation of
// tm2/pkg/bitarray.BitArray and tm2/pkg/crypto/multisig/bitarray.CompactBitArray
// is executed next to the same operation on the boolean vector and the result
// is compared through the public observers (Size, GetIndex for every index,
// IsEmpty, IsFull, Bytes, MarshalJSON, String, PickRandom, NumTrueBitsBefore,
// CompactMarshal). Mismatched sizes follow the rules written in the code
// comments: Or pads the shorter operand with zeroes (size = max), And truncates
// (size = min), Sub keeps the receiver's size and pads/ignores the argument,
// nil operands give nil (Or: a copy of the other operand). Results are fed back
// as operands (chained runs), so state left behind by one operation is seen by
// the next. Encodings (encoding/json, amino binary, amino JSON, CompactMarshal)
// must decode to the same vector.
package c48

import (
	"bytes"
	"encoding/binary"
	"encoding/json"
	"fmt"
	"math/rand/v2"
	"runtime"
	"sort"
	"strings"
	"sync"

	"github.com/gnolang/gno/tm2/pkg/amino"
	"github.com/gnolang/gno/tm2/pkg/bitarray"
	cba "github.com/gnolang/gno/tm2/pkg/crypto/multisig/bitarray"

	"verifharness/internal/vf"
)

func init() {
	vf.Register(&vf.Check{
		ID:    "C48",
		Level: "exploration",
		Rule: "cases = (operation, operand bit vectors): (1) every size 0..300 (thorough 0..520) x patterns {zeros, ones, alternating, first-only, last-only, 2 random} through all unary operations, observers and encodings of BitArray and CompactBitArray; " +
			"(2) Or/And/Sub on every pair from the size set {nil, 0, 1, 7, 8, 9, 63, 64, 65, 127, 128, 129, 191, 192, 193, 255, 256, 257, 299, 300} x {zeros, ones, random}^2 plus seeded random size pairs (thorough: all pairs 0..300); " +
			"(3) seeded chained runs over a pool of 8 arrays where results (Not/Or/And/Sub/Copy/Update/decoded encodings) become operands of later operations. " +
			"non-trivial = an operand is nil or empty, or its size is not a multiple of 64, or the operand sizes differ; distinct by (operation, operand vectors)",
		Run: run,
	})
}

// ---------------------------------------------------------------------------
// model

type vec struct {
	isNil bool
	b     []bool
}

func (v vec) String() string {
	if v.isNil {
		return "nil"
	}
	var sb strings.Builder
	for _, x := range v.b {
		if x {
			sb.WriteByte('x')
		} else {
			sb.WriteByte('_')
		}
	}
	return fmt.Sprintf("%d:%s", len(v.b), sb.String())
}

func (v vec) clone() vec {
	if v.isNil {
		return v
	}
	return vec{b: append([]bool{}, v.b...)}
}

func (v vec) at(i int) bool { return !v.isNil && i < len(v.b) && v.b[i] }

func (v vec) nonTrivial() bool { return v.isNil || len(v.b) == 0 || len(v.b)%64 != 0 }

func mOr(a, o vec) vec {
	switch {
	case a.isNil && o.isNil:
		return vec{isNil: true}
	case a.isNil:
		return o.clone()
	case o.isNil:
		return a.clone()
	}
	n := max(len(a.b), len(o.b))
	r := vec{b: make([]bool, n)}
	for i := range r.b {
		r.b[i] = a.at(i) || o.at(i)
	}
	return r
}

func mAnd(a, o vec) vec {
	if a.isNil || o.isNil {
		return vec{isNil: true}
	}
	n := min(len(a.b), len(o.b))
	r := vec{b: make([]bool, n)}
	for i := range r.b {
		r.b[i] = a.b[i] && o.b[i]
	}
	return r
}

func mSub(a, o vec) vec {
	if a.isNil || o.isNil {
		return vec{isNil: true}
	}
	r := vec{b: make([]bool, len(a.b))}
	for i := range r.b {
		r.b[i] = a.b[i] && !o.at(i)
	}
	return r
}

func mNot(a vec) vec {
	if a.isNil {
		return a
	}
	r := vec{b: make([]bool, len(a.b))}
	for i := range r.b {
		r.b[i] = !a.b[i]
	}
	return r
}

func (v vec) jsonText() string {
	if v.isNil {
		return "null"
	}
	s := v.String()
	return `"` + s[strings.IndexByte(s, ':')+1:] + `"`
}

// little-endian bit order inside bytes (bit i -> byte i/8, mask 1<<(i%8)): BitArray.Bytes
func (v vec) bytesLE() []byte {
	out := make([]byte, (len(v.b)+7)/8)
	for i, x := range v.b {
		if x {
			out[i/8] |= 1 << uint(i%8)
		}
	}
	return out
}

// most-significant-bit-first order: CompactBitArray.Elems
func (v vec) bytesMSB() []byte {
	out := make([]byte, (len(v.b)+7)/8)
	for i, x := range v.b {
		if x {
			out[i/8] |= 1 << uint(7-i%8)
		}
	}
	return out
}

func bitsOnly(s string) string { // keep only the x/_ characters after the first ':'
	i := strings.IndexByte(s, ':')
	if i < 0 {
		return "?"
	}
	var sb strings.Builder
	for _, ch := range s[i+1:] {
		if ch == 'x' || ch == '_' {
			sb.WriteRune(ch)
		}
	}
	return sb.String()
}

// ---------------------------------------------------------------------------
// reporting

var (
	vkMu sync.Mutex
	vk   = map[string]int{}
)

func viol(c *vf.Ctx, key string, w any, format string, args ...any) {
	vkMu.Lock()
	vk[key]++
	n := vk[key]
	vkMu.Unlock()
	// vf keeps at most 25 witnesses per run over all keys: pass on the first three per key so that
	// every key gets its replay files; the full per-key counts go to the log and the evidence counters.
	if n <= 3 {
		c.Violation(key, w, format, args...)
	}
}

// ---------------------------------------------------------------------------
// BitArray under test

// ent is a real array next to its model. tainted: some ancestor came out of
// Not() on a size that is not a multiple of 64 (provenance of padding bits).
type ent struct {
	ba      *bitarray.BitArray
	m       vec
	tainted bool
	chain   string // how it was produced (for witnesses)
}

func buildBA(m vec) *bitarray.BitArray {
	if m.isNil {
		return nil
	}
	if len(m.b) == 0 { // empty but non-nil: only reachable by decoding
		ba := new(bitarray.BitArray)
		if err := ba.UnmarshalJSON([]byte(`""`)); err != nil {
			panic(err)
		}
		return ba
	}
	ba := bitarray.NewBitArray(len(m.b))
	for i, x := range m.b {
		if x {
			ba.SetIndex(i, true) // a refusal shows up as a GetIndex mismatch when the array is observed
		}
	}
	return ba
}

// dirty: bits beyond Size() are set in the last word (inspected through the exported fields).
func dirty(ba *bitarray.BitArray) bool {
	if ba == nil || ba.Bits%64 == 0 || len(ba.Elems) != (ba.Bits+63)/64 || len(ba.Elems) == 0 {
		return false
	}
	return ba.Elems[len(ba.Elems)-1]>>uint(ba.Bits%64) != 0
}

type obsCtx struct {
	c       *vf.Ctx
	op      string // operation that produced the array being observed
	w       map[string]any
	padding bool   // known provenance: Not() left padding bits set (in the array or an operand)
	class   string // input class with its own key (overrides the generic mismatch key)
}

func (o obsCtx) fail(observer, format string, args ...any) {
	key := "mismatch:" + o.op + "/" + observer
	switch {
	case o.padding: // an operand (or the result) carries padding bits left by Not: that is the cause
		key = "Not:padding-bits"
	case o.class != "":
		key = o.class
	}
	w := map[string]any{"observer": observer}
	for k, v := range o.w {
		w[k] = v
	}
	viol(o.c, key, w, "after %s, %s: %s", o.op, observer, fmt.Sprintf(format, args...))
}

// observe compares ba with m through every public observer. Returns false on the first mismatch.
func observe(o obsCtx, ba *bitarray.BitArray, m vec) bool {
	c := o.c
	if (ba == nil) != m.isNil {
		o.fail("nil", "got nil=%v, want nil=%v (%s)", ba == nil, m.isNil, m)
		return false
	}
	if got := ba.Size(); got != len(m.b) {
		o.fail("Size", "got %d, want %d", got, len(m.b))
		return false
	}
	anyTrue, allTrue := false, true
	for i, x := range m.b {
		if got := ba.GetIndex(i); got != x {
			o.fail("GetIndex", "bit %d is %v, want %v (%s)", i, got, x, m)
			return false
		}
		anyTrue = anyTrue || x
		allTrue = allTrue && x
	}
	c.Count("obs_GetIndex", len(m.b))
	if got := ba.IsEmpty(); got != !anyTrue {
		o.fail("IsEmpty", "got %v, want %v (%s)", got, !anyTrue, m)
		return false
	}
	if got := ba.IsFull(); got != allTrue {
		o.fail("IsFull", "got %v, want %v (%s)", got, allTrue, m)
		return false
	}
	// Bytes
	var bz []byte
	if pv := vf.Try(func() { bz = ba.Bytes() }); pv != nil {
		if ba == nil {
			viol(c, "nil-panic:Bytes", map[string]any{"array": "nil", "op": "Bytes", "panic": fmt.Sprint(pv)}, "Bytes() on a nil *BitArray panicked: %v", pv)
			c.Count("obs_Bytes_nil", 1)
		} else {
			o.fail("Bytes", "panicked: %v", pv)
			return false
		}
	} else if !bytes.Equal(bz, m.bytesLE()) {
		o.fail("Bytes", "got %x, want %x (%s)", bz, m.bytesLE(), m)
		return false
	}
	// JSON text
	js, err := ba.MarshalJSON()
	if err != nil || string(js) != m.jsonText() {
		o.fail("MarshalJSON", "got %s (err %v), want %s", js, err, m.jsonText())
		return false
	}
	// String
	s := ba.String()
	if m.isNil {
		if s != "nil-BitArray" {
			o.fail("String", "got %q for nil", s)
			return false
		}
	} else if want := strings.Trim(m.jsonText(), `"`); bitsOnly(s) != want || bitsOnly(ba.StringIndented("  ")) != want {
		o.fail("String", "got %q, want bits %q", s, want)
		return false
	}
	// true-index enumeration (PickRandom draws from it)
	idx, ok := ba.PickRandom()
	if ok != anyTrue || (ok && !m.at(idx)) || (!ok && idx != 0) {
		o.fail("PickRandom", "got (%d,%v), want ok=%v and a set index (%s)", idx, ok, anyTrue, m)
		return false
	}
	if err := ba.ValidateBasic(); err != nil {
		o.fail("ValidateBasic", "error %v", err)
		return false
	}
	c.Count("obs_full", 1)
	return true
}

// enumerate: PickRandom must only ever return set indices and must be able to return each of them.
func enumerate(o obsCtx, ba *bitarray.BitArray, m vec) {
	var want []int
	for i, x := range m.b {
		if x {
			want = append(want, i)
		}
	}
	if len(want) == 0 || len(want) > 6 {
		return
	}
	seen := map[int]bool{}
	for k := 0; k < 120*len(want); k++ { // P(miss one of <=6 equiprobable indices) < 6*(5/6)^720 ~ 1e-56
		idx, ok := ba.PickRandom()
		if !ok || !m.at(idx) {
			o.fail("PickRandom", "returned (%d,%v) which is not a set index of %s", idx, ok, m)
			return
		}
		seen[idx] = true
	}
	if len(seen) != len(want) {
		o.fail("PickRandom-enumeration", "720+ draws returned only %d of the %d set indices of %s", len(seen), len(want), m)
	}
	o.c.Count("obs_true_index_enumerations", 1)
}

type wrapper struct {
	BA *bitarray.BitArray
	CB *cba.CompactBitArray
}

// encodings round-trips ba through every encoding and returns one decoded copy (for chaining).
func encodings(o obsCtx, ba *bitarray.BitArray, m vec) *bitarray.BitArray {
	c := o.c
	sub := func(name string) obsCtx { o2 := o; o2.op = o.op + "+" + name; return o2 }
	// encoding/json through a pointer (nil <-> null)
	js, err := json.Marshal(ba)
	if err != nil {
		o.fail("json.Marshal", "error %v", err)
		return nil
	}
	var p *bitarray.BitArray
	if err := json.Unmarshal(js, &p); err != nil {
		o.fail("json.Unmarshal", "error %v on %s", err, js)
		return nil
	}
	if !observe(sub("json"), p, m) {
		return nil
	}
	c.Count("enc_json_roundtrip", 1)
	// UnmarshalJSON into a pre-allocated (non-empty) array: previous content must be replaced
	pre := bitarray.NewBitArray(77)
	pre.SetIndex(5, true)
	if err := pre.UnmarshalJSON(js); err != nil {
		o.fail("UnmarshalJSON", "error %v on %s", err, js)
		return nil
	}
	mm := m
	if m.isNil {
		mm = vec{b: []bool{}} // a pre-allocated target cannot become nil: documented as Bits=0
	}
	if !observe(sub("UnmarshalJSON-prealloc"), pre, mm) {
		return nil
	}
	// inside a struct: encoding/json, amino binary, amino JSON (nil pointer fields allowed)
	w := wrapper{BA: ba}
	if js, err = json.Marshal(w); err == nil {
		var w2 wrapper
		if err = json.Unmarshal(js, &w2); err == nil {
			if !observe(sub("json-field"), w2.BA, m) {
				return nil
			}
		}
	}
	if err != nil {
		o.fail("json-field", "error %v", err)
		return nil
	}
	var bz []byte
	var w3 wrapper
	if pv := vf.Try(func() {
		if bz, err = amino.Marshal(w); err == nil {
			err = amino.Unmarshal(bz, &w3)
		}
	}); pv != nil || err != nil {
		o.fail("amino-field", "error %v panic %v", err, pv)
		return nil
	}
	wm := m
	if !m.isNil && len(m.b) == 0 {
		// amino drops empty structs: an empty array inside a struct decodes as an absent (nil) field
		wm = vec{isNil: true}
	}
	if !(len(m.b) == 0 && w3.BA != nil) && !observe(sub("amino-field"), w3.BA, wm) {
		return nil
	}
	c.Count("enc_amino_field_roundtrip", 1)
	var w4 wrapper
	if pv := vf.Try(func() {
		if bz, err = amino.MarshalJSON(w); err == nil {
			err = amino.UnmarshalJSON(bz, &w4)
		}
	}); pv != nil || err != nil {
		o.fail("aminojson-field", "error %v panic %v", err, pv)
		return nil
	}
	if !observe(sub("aminojson-field"), w4.BA, m) {
		return nil
	}
	c.Count("enc_aminojson_roundtrip", 1)
	if ba == nil {
		return p
	}
	// top-level amino binary (non-nil only: amino cannot encode a nil top-level pointer)
	dec := new(bitarray.BitArray)
	if pv := vf.Try(func() {
		if bz, err = amino.Marshal(ba); err == nil {
			err = amino.Unmarshal(bz, dec)
		}
	}); pv != nil || err != nil {
		o.fail("amino", "error %v panic %v", err, pv)
		return nil
	}
	if !observe(sub("amino"), dec, m) {
		return nil
	}
	c.Count("enc_amino_roundtrip", 1)
	return dec
}

func (e ent) lit() map[string]any {
	return map[string]any{"vector": e.m.String(), "built_by": e.chain}
}

// lightSame: operand still equals its model (Size + every bit).
func lightSame(ba *bitarray.BitArray, m vec) bool {
	if (ba == nil) != m.isNil || ba.Size() != len(m.b) {
		return false
	}
	for i, x := range m.b {
		if ba.GetIndex(i) != x {
			return false
		}
	}
	return true
}

// binop runs one of Or/And/Sub on two distinct arrays and checks result, purity and independence.
func binop(c *vf.Ctx, op string, a, b ent) ent {
	var want vec
	var got *bitarray.BitArray
	switch op {
	case "Or":
		want = mOr(a.m, b.m)
	case "And":
		want = mAnd(a.m, b.m)
	case "Sub":
		want = mSub(a.m, b.m)
	}
	dirtyIn := dirty(a.ba) || dirty(b.ba)
	w := map[string]any{"op": op, "a": a.lit(), "b": b.lit(), "want": want.String()}
	pv := vf.Try(func() {
		switch op {
		case "Or":
			got = a.ba.Or(b.ba)
		case "And":
			got = a.ba.And(b.ba)
		case "Sub":
			got = a.ba.Sub(b.ba)
		}
	})
	c.Case("ba/"+op+"/"+a.m.String()+"/"+b.m.String(), a.m.nonTrivial() || b.m.nonTrivial() || len(a.m.b) != len(b.m.b))
	c.Count("op_"+op, 1)
	if len(a.m.b) != len(b.m.b) && !a.m.isNil && !b.m.isNil {
		c.Count("op_"+op+"_mismatched_sizes", 1)
	}
	if a.m.isNil || b.m.isNil {
		c.Count("op_"+op+"_nil_operand", 1)
	}
	tainted := a.tainted || b.tainted
	res := ent{ba: got, m: want, tainted: tainted, chain: fmt.Sprintf("%s(%s, %s)", op, a.chain, b.chain)}
	o := obsCtx{c: c, op: op, w: w, padding: tainted && (dirtyIn || dirty(got))}
	if op == "Or" && !a.m.isNil && !b.m.isNil && (len(a.m.b)+63)/64 < (len(b.m.b)+63)/64 {
		// input class: the receiver occupies fewer 64-bit words than the argument
		o.class = "Or:receiver-fewer-words"
		c.Count("op_Or_receiver_fewer_words", 1)
	}
	if pv != nil {
		o.fail("panic", "%v", pv)
		return ent{m: vec{isNil: true}, chain: "nil"}
	}
	if !observe(o, got, want) {
		return ent{m: vec{isNil: true}, chain: "nil"}
	}
	if !lightSame(a.ba, a.m) || !lightSame(b.ba, b.m) {
		o.fail("operand-modified", "an operand changed")
	}
	// independence: writing to the result must not reach the operands
	if got != nil && got.Size() > 0 {
		i := got.Size() - 1
		got.SetIndex(i, !want.b[i])
		if !lightSame(a.ba, a.m) || !lightSame(b.ba, b.m) {
			o.fail("result-aliases-operand", "writing bit %d of the result changed an operand", i)
		}
		got.SetIndex(i, want.b[i])
	}
	return res
}

func unaryNot(c *vf.Ctx, a ent) ent {
	want := mNot(a.m)
	var got *bitarray.BitArray
	pv := vf.Try(func() { got = a.ba.Not() })
	c.Case("ba/Not/"+a.m.String(), a.m.nonTrivial())
	c.Count("op_Not", 1)
	tainted := a.tainted || (!a.m.isNil && len(a.m.b)%64 != 0)
	res := ent{ba: got, m: want, tainted: tainted, chain: "Not(" + a.chain + ")"}
	o := obsCtx{c: c, op: "Not", w: map[string]any{"op": "Not", "a": a.lit(), "want": want.String()}, padding: tainted && (dirty(got) || dirty(a.ba))}
	if pv != nil {
		o.fail("panic", "%v", pv)
		return ent{m: vec{isNil: true}, chain: "nil"}
	}
	if !observe(o, got, want) {
		// keep the (observably wrong) array in play only if the cause is the known padding class
		if !o.padding {
			return ent{m: vec{isNil: true}, chain: "nil"}
		}
	}
	if !lightSame(a.ba, a.m) {
		o.fail("operand-modified", "the receiver changed")
	}
	return res
}

func unaryCopy(c *vf.Ctx, a ent) ent {
	got := a.ba.Copy()
	c.Case("ba/Copy/"+a.m.String(), a.m.nonTrivial())
	c.Count("op_Copy", 1)
	o := obsCtx{c: c, op: "Copy", w: map[string]any{"op": "Copy", "a": a.lit()}, padding: a.tainted && dirty(a.ba)}
	if !observe(o, got, a.m) {
		return ent{m: vec{isNil: true}, chain: "nil"}
	}
	if got != nil && got.Size() > 0 {
		for _, i := range []int{0, got.Size() - 1} {
			got.SetIndex(i, !a.m.b[i])
			if !lightSame(a.ba, a.m) {
				o.fail("copy-aliases-original", "writing bit %d of the copy changed the original", i)
			}
			got.SetIndex(i, a.m.b[i])
		}
	}
	return ent{ba: got, m: a.m.clone(), tainted: a.tainted, chain: "Copy(" + a.chain + ")"}
}

// setIndex writes one in-range bit and checks the whole vector afterwards.
func setIndex(c *vf.Ctx, a *ent, i int, v bool) {
	if a.m.isNil {
		if a.ba.SetIndex(i, v) || a.ba.GetIndex(i) {
			viol(c, "mismatch:SetIndex/nil", map[string]any{"op": "SetIndex", "array": "nil"}, "SetIndex/GetIndex on nil returned true")
		}
		c.Count("op_SetIndex_nil", 1)
		return
	}
	ok := a.ba.SetIndex(i, v)
	a.m.b[i] = v
	c.Case(fmt.Sprintf("ba/SetIndex/%s/%d/%v", a.m.String(), i, v), a.m.nonTrivial())
	c.Count("op_SetIndex", 1)
	o := obsCtx{c: c, op: "SetIndex", w: map[string]any{"op": "SetIndex", "a": a.lit(), "index": i, "value": v}, padding: a.tainted && dirty(a.ba)}
	if !ok {
		o.fail("return", "SetIndex(%d) returned false for an in-range index", i)
	}
	if !lightSame(a.ba, a.m) {
		o.fail("GetIndex", "vector differs from the model after SetIndex(%d,%v)", i, v)
	}
}

// update: documented for equally sized arrays ("sets the bA's bits to be that of the other bit array").
func update(c *vf.Ctx, a *ent, o2 ent) {
	a.ba.Update(o2.ba)
	c.Count("op_Update", 1)
	if a.m.isNil || o2.m.isNil {
		c.Count("op_Update_nil_operand", 1)
	} else {
		a.m = o2.m.clone()
		a.tainted = a.tainted || o2.tainted
		a.chain = "Update(" + a.chain + ", " + o2.chain + ")"
	}
	c.Case("ba/Update/"+a.m.String()+"/"+o2.m.String(), a.m.nonTrivial())
	o := obsCtx{c: c, op: "Update", w: map[string]any{"op": "Update", "a": a.lit(), "b": o2.lit()}, padding: a.tainted && (dirty(a.ba) || dirty(o2.ba))}
	if observe(o, a.ba, a.m) && !lightSame(o2.ba, o2.m) {
		o.fail("operand-modified", "the argument changed")
	}
}

// ---------------------------------------------------------------------------
// generators

func pattern(n int, kind int, r *rand.Rand) vec {
	v := vec{b: make([]bool, n)}
	switch kind {
	case 0: // zeros
	case 1:
		for i := range v.b {
			v.b[i] = true
		}
	case 2:
		for i := range v.b {
			v.b[i] = i%2 == 0
		}
	case 3:
		if n > 0 {
			v.b[0] = true
		}
	case 4:
		if n > 0 {
			v.b[n-1] = true
		}
	case 5: // sparse random (<= 6 bits: exercises the enumeration check)
		for k := r.IntN(6) + 1; k > 0 && n > 0; k-- {
			v.b[r.IntN(n)] = true
		}
	case 6: // dense random
		for i := range v.b {
			v.b[i] = r.IntN(8) != 0
		}
	default:
		for i := range v.b {
			v.b[i] = r.IntN(2) == 0
		}
	}
	return v
}

var boundarySizes = []int{-1, 0, 1, 7, 8, 9, 63, 64, 65, 127, 128, 129, 191, 192, 193, 255, 256, 257, 299, 300} // -1 = nil

func randSize(r *rand.Rand) int {
	switch r.IntN(4) {
	case 0:
		return boundarySizes[r.IntN(len(boundarySizes))]
	case 1:
		return 64*r.IntN(5) + r.IntN(3) - 1
	default:
		return r.IntN(302) - 1
	}
}

func mk(n, kind int, r *rand.Rand) ent {
	if n < 0 {
		return ent{m: vec{isNil: true}, chain: "nil"}
	}
	m := pattern(n, kind, r)
	return ent{ba: buildBA(m), m: m, chain: "new(" + m.String() + ")"}
}

// ---------------------------------------------------------------------------
// phases

func unarySweep(c *vf.Ctx, n int, r *rand.Rand) {
	for kind := 0; kind <= 7; kind++ {
		e := mk(n, kind, r)
		o := obsCtx{c: c, op: "build", w: map[string]any{"op": "build", "a": e.lit()}}
		c.Case("ba/build/"+e.m.String(), e.m.nonTrivial())
		if !observe(o, e.ba, e.m) {
			continue
		}
		enumerate(o, e.ba, e.m)
		encodings(o, e.ba, e.m)
		cp := unaryCopy(c, e)
		nt := unaryNot(c, e)
		// Not is an involution on the vector
		if nt.ba != nil {
			unaryNot(c, nt)
		}
		if n > 0 && len(cp.m.b) == n {
			for _, i := range []int{0, n / 2, n - 1} {
				setIndex(c, &cp, i, !cp.m.b[i])
			}
			other := mk(n, 7, r)
			update(c, &cp, other)
		}
	}
	nilE := mk(-1, 0, r)
	if n == 0 {
		o := obsCtx{c: c, op: "build", w: map[string]any{"op": "build", "a": nilE.lit()}}
		c.Case("ba/build/nil", true)
		observe(o, nilE.ba, nilE.m)
		encodings(o, nilE.ba, nilE.m)
		unaryCopy(c, nilE)
		unaryNot(c, nilE)
		setIndex(c, &nilE, 0, true)
		x := mk(5, 1, r)
		update(c, &nilE, x)
		update(c, &x, nilE)
		if bitarray.NewBitArray(0) != nil || bitarray.NewBitArray(-3) != nil {
			viol(c, "mismatch:NewBitArray/nil", map[string]any{"op": "NewBitArray", "bits": 0}, "NewBitArray(<=0) is documented to return nil")
		}
	}
}

func binaryAll(c *vf.Ctx, a, b ent) {
	for _, op := range []string{"Or", "And", "Sub"} {
		binop(c, op, a, b)
	}
}

func chain(c *vf.Ctx, r *rand.Rand, steps int) {
	pool := make([]ent, 8)
	for i := range pool {
		pool[i] = mk(randSize(r), r.IntN(8), r)
	}
	for s := 0; s < steps; s++ {
		i, j := r.IntN(len(pool)), r.IntN(len(pool))
		if i == j { // the two operands must be distinct objects (see Assume)
			j = (j + 1) % len(pool)
		}
		dst := r.IntN(len(pool))
		switch k := r.IntN(16); {
		case k < 2:
			pool[dst] = mk(randSize(r), r.IntN(8), r)
		case k < 4:
			if n := len(pool[i].m.b); n > 0 {
				setIndex(c, &pool[i], r.IntN(n), r.IntN(2) == 0)
			}
		case k < 6:
			res := unaryNot(c, pool[i])
			if r.IntN(2) == 0 { // results of Not re-enter the pool only half of the time, to keep clean lineages around
				pool[dst] = res
			}
		case k < 8:
			pool[dst] = binop(c, "Or", pool[i], pool[j])
		case k < 10:
			pool[dst] = binop(c, "And", pool[i], pool[j])
		case k < 12:
			pool[dst] = binop(c, "Sub", pool[i], pool[j])
		case k < 13:
			pool[dst] = unaryCopy(c, pool[i])
		case k < 14:
			if !pool[i].m.isNil && len(pool[i].m.b) > 0 {
				o2 := mk(len(pool[i].m.b), r.IntN(8), r)
				if r.IntN(2) == 0 && len(pool[j].m.b) == len(pool[i].m.b) && !pool[j].m.isNil {
					o2 = pool[j]
				}
				update(c, &pool[i], o2)
			}
		default:
			e := pool[i]
			o := obsCtx{c: c, op: "chain-encode", w: map[string]any{"op": "encode", "a": e.lit()}, padding: e.tainted && dirty(e.ba)}
			if observe(o, e.ba, e.m) {
				if dec := encodings(o, e.ba, e.m); dec != nil || e.m.isNil {
					pool[dst] = ent{ba: dec, m: e.m.clone(), tainted: e.tainted, chain: "decode(" + e.chain + ")"}
				}
			}
		}
		if pool[dst].tainted {
			c.Count("chain_results_from_Not_lineage", 1)
		} else {
			c.Count("chain_results_clean_lineage", 1)
		}
	}
}

// ---------------------------------------------------------------------------
// CompactBitArray

func buildCBA(m vec) *cba.CompactBitArray {
	if m.isNil {
		return nil
	}
	if len(m.b) == 0 { // empty but non-nil: what decoding JSON null into a value yields
		a := new(cba.CompactBitArray)
		if err := json.Unmarshal([]byte("null"), a); err != nil {
			panic(err)
		}
		return a
	}
	a := cba.NewCompactBitArray(len(m.b))
	for i, x := range m.b {
		if x {
			a.SetIndex(i, true) // a refusal shows up as a Size/GetIndex mismatch when the array is observed
		}
	}
	return a
}

func observeCBA(c *vf.Ctx, op string, a *cba.CompactBitArray, m vec, r *rand.Rand) bool {
	w := map[string]any{"type": "CompactBitArray", "op": op, "vector": m.String()}
	fail := func(observer, format string, args ...any) bool {
		ww := map[string]any{"observer": observer}
		for k, v := range w {
			ww[k] = v
		}
		viol(c, "mismatch:Compact."+op+"/"+observer, ww, "CompactBitArray after %s, %s: %s", op, observer, fmt.Sprintf(format, args...))
		return false
	}
	if (a == nil) != m.isNil {
		return fail("nil", "got nil=%v want nil=%v", a == nil, m.isNil)
	}
	if a.Size() != len(m.b) {
		return fail("Size", "got %d want %d", a.Size(), len(m.b))
	}
	for i, x := range m.b {
		if a.GetIndex(i) != x {
			return fail("GetIndex", "bit %d is %v want %v (%s)", i, !x, x, m)
		}
	}
	// NumTrueBitsBefore
	prefix := make([]int, len(m.b)+1)
	for i, x := range m.b {
		prefix[i+1] = prefix[i]
		if x {
			prefix[i+1]++
		}
	}
	ks := []int{0, len(m.b)}
	if len(m.b) <= 70 {
		for k := 0; k <= len(m.b); k++ {
			ks = append(ks, k)
		}
	} else {
		for k := 0; k < 12; k++ {
			ks = append(ks, r.IntN(len(m.b)+1))
		}
		ks = append(ks, 1, 7, 8, 9, len(m.b)-1)
	}
	for _, k := range ks {
		if got := a.NumTrueBitsBefore(k); got != prefix[k] {
			return fail("NumTrueBitsBefore", "NumTrueBitsBefore(%d) = %d want %d (%s)", k, got, prefix[k], m)
		}
	}
	c.Count("cba_obs_NumTrueBitsBefore", len(ks))
	js, err := a.MarshalJSON()
	if err != nil || string(js) != m.jsonText() {
		return fail("MarshalJSON", "got %s (err %v) want %s", js, err, m.jsonText())
	}
	s := a.String()
	if m.isNil {
		if s != "nil-BitArray" {
			return fail("String", "got %q for nil", s)
		}
	} else if want := strings.Trim(m.jsonText(), `"`); bitsOnly(s) != want || bitsOnly(a.StringIndented(" ")) != want {
		return fail("String", "got %q want bits %q", s, want)
	}
	// CompactMarshal: uvarint(number of bits) followed by the MSB-first packed bits; "null" for nil/empty
	var cm []byte
	if pv := vf.Try(func() { cm = a.CompactMarshal() }); pv != nil {
		return fail("CompactMarshal", "panicked: %v", pv)
	}
	wantCM := []byte("null")
	if len(m.b) > 0 {
		wantCM = binary.AppendUvarint(nil, uint64(len(m.b)))
		wantCM = append(wantCM, m.bytesMSB()...)
	}
	if !bytes.Equal(cm, wantCM) {
		return fail("CompactMarshal", "got %x want %x (%s)", cm, wantCM, m)
	}
	c.Count("cba_obs_full", 1)
	return true
}

func compactSweep(c *vf.Ctx, n int, r *rand.Rand) {
	for kind := 0; kind <= 7; kind++ {
		var m vec
		if n < 0 {
			if kind > 0 {
				break
			}
			m = vec{isNil: true}
		} else {
			m = pattern(n, kind, r)
		}
		a := buildCBA(m)
		c.Case("cba/build/"+m.String(), len(m.b)%8 != 0 || len(m.b) == 0)
		if !observeCBA(c, "build", a, m, r) {
			continue
		}
		lit := map[string]any{"type": "CompactBitArray", "vector": m.String()}
		// Copy is independent
		cp := a.Copy()
		if observeCBA(c, "Copy", cp, m, r) && len(m.b) > 0 {
			cp.SetIndex(len(m.b)-1, !m.b[len(m.b)-1])
			if len(m.b) > 1 {
				cp.SetIndex(0, !m.b[0])
			}
			if !observeCBA(c, "Copy-then-write-copy", a, m, r) {
				continue
			}
		}
		c.Count("cba_op_Copy", 1)
		// SetIndex both ways on a few positions
		if len(m.b) > 0 {
			m2 := m.clone()
			a2 := a.Copy()
			for _, i := range []int{0, len(m.b) / 2, len(m.b) - 1, r.IntN(len(m.b))} {
				m2.b[i] = !m2.b[i]
				if !a2.SetIndex(i, m2.b[i]) {
					viol(c, "mismatch:Compact.SetIndex/return", lit, "SetIndex(%d) returned false for an in-range index of %s", i, m)
				}
				c.Case(fmt.Sprintf("cba/SetIndex/%s/%d", m2.String(), i), len(m.b)%8 != 0)
				if !observeCBA(c, "SetIndex", a2, m2, r) {
					break
				}
			}
			c.Count("cba_op_SetIndex", 4)
		} else if a.SetIndex(0, true) || a.GetIndex(0) {
			viol(c, "mismatch:Compact.SetIndex/empty", lit, "SetIndex/GetIndex(0) on a nil/empty array returned true")
		}
		// CompactMarshal -> CompactUnmarshal
		var dec *cba.CompactBitArray
		var err error
		if pv := vf.Try(func() { dec, err = cba.CompactUnmarshal(a.CompactMarshal()) }); pv != nil || err != nil {
			viol(c, "roundtrip:CompactUnmarshal", lit, "CompactUnmarshal(CompactMarshal(%s)) failed: err=%v panic=%v", m, err, pv)
		} else {
			mm := m
			if len(m.b) == 0 {
				mm = vec{isNil: true} // documented: zero bits decode to NewCompactBitArray(0) = nil
			}
			observeCBA(c, "CompactUnmarshal", dec, mm, r)
			c.Count("cba_enc_compact_roundtrip", 1)
		}
		// encoding/json through a pointer
		js, _ := json.Marshal(a)
		var p *cba.CompactBitArray
		if pv := vf.Try(func() { err = json.Unmarshal(js, &p) }); pv != nil {
			key := "panic:Compact.UnmarshalJSON"
			if !m.isNil && len(m.b) == 0 {
				key = "panic:Compact.UnmarshalJSON-empty"
			}
			viol(c, key, map[string]any{"type": "CompactBitArray", "vector": m.String(), "json": string(js), "panic": fmt.Sprint(pv)},
				"decoding the JSON encoding %s of %s panicked: %v", js, m, pv)
		} else if err != nil {
			viol(c, "roundtrip:Compact.json", lit, "json round trip of %s failed: %v", m, err)
		} else {
			observeCBA(c, "json", p, m, r)
			c.Count("cba_enc_json_roundtrip", 1)
		}
		// amino binary / amino JSON inside a struct, and top-level for non-nil
		w := wrapper{CB: a}
		var w2, w3 wrapper
		var bz []byte
		if pv := vf.Try(func() {
			if bz, err = amino.Marshal(w); err == nil {
				err = amino.Unmarshal(bz, &w2)
			}
		}); pv != nil || err != nil {
			viol(c, "roundtrip:Compact.amino-field", lit, "amino round trip of %s failed: err=%v panic=%v", m, err, pv)
		} else {
			mm := m
			if len(m.b) == 0 {
				mm = vec{isNil: true} // amino drops empty structs
			}
			if !(len(m.b) == 0 && w2.CB != nil) {
				observeCBA(c, "amino-field", w2.CB, mm, r)
			}
			c.Count("cba_enc_amino_roundtrip", 1)
		}
		if pv := vf.Try(func() {
			if bz, err = amino.MarshalJSON(w); err == nil {
				err = amino.UnmarshalJSON(bz, &w3)
			}
		}); pv != nil || err != nil {
			viol(c, "roundtrip:Compact.aminojson-field", lit, "amino JSON round trip of %s failed: err=%v panic=%v", m, err, pv)
		} else {
			observeCBA(c, "aminojson-field", w3.CB, m, r)
			c.Count("cba_enc_aminojson_roundtrip", 1)
		}
		if a != nil {
			dec2 := new(cba.CompactBitArray)
			if pv := vf.Try(func() {
				if bz, err = amino.Marshal(a); err == nil {
					err = amino.Unmarshal(bz, dec2)
				}
			}); pv != nil || err != nil {
				viol(c, "roundtrip:Compact.amino", lit, "amino round trip of %s failed: err=%v panic=%v", m, err, pv)
			} else {
				observeCBA(c, "amino", dec2, m, r)
			}
		}
	}
	if n == 0 && (cba.NewCompactBitArray(0) != nil || cba.NewCompactBitArray(-1) != nil) {
		viol(c, "mismatch:NewCompactBitArray/nil", map[string]any{"bits": 0}, "NewCompactBitArray(<=0) is documented to return nil")
	}
}

// ---------------------------------------------------------------------------

func run(c *vf.Ctx) {
	workers := runtime.GOMAXPROCS(0)
	maxN := c.N(300, 520)
	c.Set("sizes", fmt.Sprintf("nil and 0..%d", maxN))

	// (1) unary sweep, both types
	c.Parallel(maxN+1, workers, 1000, func(n int, r *rand.Rand) {
		unarySweep(c, n, r)
		compactSweep(c, n, r)
		if n == 0 {
			compactSweep(c, -1, r)
		}
	})
	c.Logf("unary sweeps done")

	// (2) binary operations on the boundary size set
	nb := len(boundarySizes)
	c.Parallel(nb*nb, workers, 5000, func(k int, r *rand.Rand) {
		na, nbv := boundarySizes[k/nb], boundarySizes[k%nb]
		for _, ka := range []int{0, 1, 7} {
			for _, kb := range []int{0, 1, 7} {
				binaryAll(c, mk(na, ka, r), mk(nbv, kb, r))
			}
		}
	})
	if c.Quick() {
		c.Parallel(400, workers, 10000, func(_ int, r *rand.Rand) {
			for k := 0; k < 50; k++ {
				binaryAll(c, mk(randSize(r), r.IntN(8), r), mk(randSize(r), r.IntN(8), r))
			}
		})
	} else {
		c.Parallel(302*302, workers, 10000, func(k int, r *rand.Rand) {
			binaryAll(c, mk(k/302-1, 5+r.IntN(3), r), mk(k%302-1, 5+r.IntN(3), r))
		})
	}
	c.Logf("binary sweeps done")

	// (3) chained runs
	c.Parallel(c.N(300, 6000), workers, 200000, func(_ int, r *rand.Rand) { chain(c, r, 150) })

	vkMu.Lock()
	keys := make([]string, 0, len(vk))
	for k := range vk {
		keys = append(keys, k)
	}
	sort.Strings(keys)
	for _, k := range keys {
		c.Logf("violation key %-45s x%d", k, vk[k])
		c.Count("reported:"+k, vk[k])
	}
	vkMu.Unlock()

	c.Sample(map[string]any{"op": "Or", "a": "3:x_x", "b": "10:_x________", "want": "10:xxx_______"})
	c.Sample(map[string]any{"op": "And", "a": "65:" + strings.Repeat("x", 65), "b": "64:" + strings.Repeat("x", 64), "want_size": 64})
	c.Sample(map[string]any{"op": "Sub", "a": "10:xxxxxxxxxx", "b": "3:xxx", "want": "10:___xxxxxxx"})
	c.Sample(map[string]any{"op": "Not", "a": "3:xxx", "want": "3:___", "observers": "IsEmpty must be true, Bytes must be 00"})
	c.Sample(map[string]any{"type": "CompactBitArray", "vector": "10:___x______", "CompactMarshal": "0a1000"})
	c.Assume("a []bool is the reference; mismatched sizes follow the comments on Or (max, zero-padded), And (min, truncated) and Sub (receiver's size)")
	c.Assume("indices are always in range (GetIndex/SetIndex document out-of-range behaviour as undefined); Update is exercised with equally sized or nil arrays only (its comment does not define mismatched sizes)")
	c.Assume("the two operands of Or/And/Sub are distinct objects: x.Or(x) locks the same non-reentrant mutex twice and is not exercised")
	c.Assume("an empty (0-bit) array nested in a struct may decode from amino binary as an absent field; PickRandom is checked for membership and, on vectors with <= 6 set bits, for reaching every set index within 120 draws per index")

	for _, op := range []string{"Or", "And", "Sub"} {
		c.RequireCounter("op_"+op, 3000)
		c.RequireCounter("op_"+op+"_mismatched_sizes", 1000)
		c.RequireCounter("op_"+op+"_nil_operand", 100)
	}
	c.RequireCounter("op_Not", 2000)
	c.RequireCounter("op_Copy", 1000)
	c.RequireCounter("op_SetIndex", 2000)
	c.RequireCounter("op_Update", 1000)
	c.RequireCounter("obs_full", 20000)
	c.RequireCounter("obs_true_index_enumerations", 200)
	c.RequireCounter("enc_json_roundtrip", 1000)
	c.RequireCounter("enc_amino_roundtrip", 1000)
	c.RequireCounter("enc_amino_field_roundtrip", 1000)
	c.RequireCounter("enc_aminojson_roundtrip", 1000)
	c.RequireCounter("chain_results_clean_lineage", 5000)
	c.RequireCounter("cba_obs_full", 5000)
	c.RequireCounter("cba_enc_compact_roundtrip", 1000)
	c.RequireCounter("cba_enc_json_roundtrip", 1000)
	c.RequireCounter("cba_enc_amino_roundtrip", 1000)
	c.RequireCounter("cba_enc_aminojson_roundtrip", 1000)
}
