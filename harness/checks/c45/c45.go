// Package c45: bech32 strings round-trip and malformed strings are rejected.
//
// Oracle: an independent BIP-173 implementation written here (polymod over
// GF(32), HRP expansion, 8<->5 bit regrouping; no 90-character limit because
// tm2 deliberately decodes without one). tm2/pkg/bech32 (Encode/Decode and the
// deprecated aliases) and the tm2/pkg/crypto wrappers (AddressToBech32,
// AddressFromBech32, AddressFromString, PubKeyToBech32, PubKeyFromBech32,
// GetFromBech32) run on the same inputs:
//   - encode == reference encoding, decode returns the same prefix and payload;
//   - every single-character substitution of a valid string is rejected
//     (all positions; in the data part all 31 other alphabet characters plus
//     characters outside the alphabet; in the prefix/separator every other
//     printable ASCII character that is not the same letter in the other case);
//   - mixed-case variants are rejected;
//   - on random and mutated strings no function panics and acceptance agrees
//     with the reference (accepted => identical prefix and payload).
package c45

import (
	"bytes"
	"encoding/json"
	"fmt"
	"math/rand/v2"
	"runtime"
	"sort"
	"strings"
	"sync"

	"github.com/gnolang/gno/tm2/pkg/bech32"
	"github.com/gnolang/gno/tm2/pkg/crypto"
	"github.com/gnolang/gno/tm2/pkg/crypto/ed25519"
	"github.com/gnolang/gno/tm2/pkg/crypto/secp256k1"

	"verifharness/internal/vf"
)

func init() {
	vf.Register(&vf.Check{
		ID:    "C45",
		Level: "exploration",
		Rule: "cases = (a) seeded random (prefix, payload) pairs: prefix 1..83 printable non-uppercase ASCII characters, payload 0..400 bytes, plus addresses and ed25519/secp256k1 public keys through the crypto wrappers; " +
			"(b) for each of a seeded set of valid strings (quick 60, thorough 600, lengths 8..~700) every (position, alternative character) single substitution, exhaustively; " +
			"(c) every single-letter case flip and seeded multi-letter case mixes of those strings; " +
			"(d) seeded hostile strings: random bytes, random printable, valid strings with 1..4 edits (substitute/insert/delete/swap/truncate/append), bech32m checksums, non-zero or over-long padding, non-ASCII bytes, very long inputs. " +
			"non-trivial = (a) non-empty payload, (b,c) every case, (d) strings the reference rejects for a reason other than length < 8; distinct by the literal input string (and operation)",
		Run: run,
	})
}

// ---------------------------------------------------------------------------
// reference BIP-173

const charset = "qpzry9x8gf2tvdw0s3jn54khce6mua7l"

const (
	constBech32  = uint32(1)
	constBech32m = uint32(0x2bc830a3)
)

var charsetRev = func() [128]int8 {
	var t [128]int8
	for i := range t {
		t[i] = -1
	}
	for i := 0; i < len(charset); i++ {
		t[charset[i]] = int8(i)
	}
	return t
}()

func polymod(values []byte) uint32 {
	gen := [5]uint32{0x3b6a57b2, 0x26508e6d, 0x1ea119fa, 0x3d4233dd, 0x2a1462b3}
	chk := uint32(1)
	for _, v := range values {
		top := chk >> 25
		chk = (chk&0x1ffffff)<<5 ^ uint32(v)
		for i := 0; i < 5; i++ {
			if (top>>uint(i))&1 == 1 {
				chk ^= gen[i]
			}
		}
	}
	return chk
}

func hrpExpand(hrp string) []byte {
	out := make([]byte, 0, 2*len(hrp)+1)
	for i := 0; i < len(hrp); i++ {
		out = append(out, hrp[i]>>5)
	}
	out = append(out, 0)
	for i := 0; i < len(hrp); i++ {
		out = append(out, hrp[i]&31)
	}
	return out
}

// to5 regroups bytes into 5-bit symbols, zero-padding the tail.
func to5(data []byte) []byte {
	var out []byte
	acc, bits := uint32(0), uint(0)
	for _, b := range data {
		acc = acc<<8 | uint32(b)
		bits += 8
		for bits >= 5 {
			bits -= 5
			out = append(out, byte(acc>>bits)&31)
		}
	}
	if bits > 0 {
		out = append(out, byte(acc<<(5-bits))&31)
	}
	return out
}

// to8 regroups 5-bit symbols into bytes; ok=false if the padding is 5 bits or more, or non-zero.
func to8(syms []byte) ([]byte, bool) {
	out := []byte{}
	acc, bits := uint32(0), uint(0)
	for _, s := range syms {
		acc = acc<<5 | uint32(s)
		bits += 5
		if bits >= 8 {
			bits -= 8
			out = append(out, byte(acc>>bits))
			acc &= (1 << bits) - 1
		}
	}
	if bits >= 5 || acc != 0 {
		return nil, false
	}
	return out, true
}

// refEncodeSyms builds hrp + "1" + symbols + checksum (hrp must be lower case).
func refEncodeSyms(hrp string, syms []byte, constant uint32) string {
	vals := append(hrpExpand(hrp), syms...)
	vals = append(vals, 0, 0, 0, 0, 0, 0)
	pm := polymod(vals) ^ constant
	var sb strings.Builder
	sb.WriteString(hrp)
	sb.WriteByte('1')
	for _, s := range syms {
		sb.WriteByte(charset[s])
	}
	for i := 0; i < 6; i++ {
		sb.WriteByte(charset[(pm>>uint(5*(5-i)))&31])
	}
	return sb.String()
}

func refEncode(hrp string, payload []byte) string {
	return refEncodeSyms(hrp, to5(payload), constBech32)
}

// refDecode: BIP-173 decoding without the 90-character limit. why names the first failed rule.
func refDecode(s string) (hrp string, payload []byte, why string) {
	if len(s) < 8 {
		return "", nil, "too-short"
	}
	lower, upper := false, false
	for i := 0; i < len(s); i++ {
		ch := s[i]
		if ch < 33 || ch > 126 {
			return "", nil, "invalid-character"
		}
		if ch >= 'a' && ch <= 'z' {
			lower = true
		}
		if ch >= 'A' && ch <= 'Z' {
			upper = true
		}
	}
	if lower && upper {
		return "", nil, "mixed-case"
	}
	s = strings.ToLower(s)
	pos := strings.LastIndexByte(s, '1')
	if pos < 1 || pos+7 > len(s) {
		return "", nil, "separator"
	}
	hrp = s[:pos]
	syms := make([]byte, 0, len(s)-pos-1)
	for i := pos + 1; i < len(s); i++ {
		v := charsetRev[s[i]]
		if v < 0 {
			return "", nil, "data-character"
		}
		syms = append(syms, byte(v))
	}
	switch polymod(append(hrpExpand(hrp), syms...)) {
	case constBech32:
	case constBech32m:
		return "", nil, "checksum-is-bech32m"
	default:
		return "", nil, "checksum"
	}
	payload, ok := to8(syms[:len(syms)-6])
	if !ok {
		return "", nil, "padding"
	}
	return hrp, payload, ""
}

// ---------------------------------------------------------------------------

var (
	vkMu sync.Mutex
	vk   = map[string]int{}
)

func viol(c *vf.Ctx, key string, w any, format string, args ...any) {
	vkMu.Lock()
	vk[key]++
	n := vk[key]
	vkMu.Unlock()
	// vf keeps at most 25 witnesses per run over all keys: pass on the first three per key so that
	// every key gets its replay files; the full per-key counts go to the log and the evidence counters.
	if n <= 3 {
		c.Violation(key, w, format, args...)
	}
}

func q(s string) string { return fmt.Sprintf("%q", s) }

// decodeAll runs every decoding entry point on s; none may panic; bech32.Decode's verdict is returned.
func decodeAll(c *vf.Ctx, s string) (hrp string, payload []byte, err error, panicked bool) {
	if pv := vf.Try(func() { hrp, payload, err = bech32.Decode(s) }); pv != nil {
		viol(c, "panic:bech32.Decode", map[string]any{"input": q(s), "panic": fmt.Sprint(pv)}, "bech32.Decode(%q) panicked: %v", s, pv)
		return "", nil, nil, true
	}
	var h2 string
	var p2 []byte
	var e2 error
	if pv := vf.Try(func() { h2, p2, e2 = bech32.DecodeAndConvert(s) }); pv != nil || (e2 == nil) != (err == nil) || h2 != hrp || !bytes.Equal(p2, payload) {
		viol(c, "alias-differs:DecodeAndConvert", map[string]any{"input": q(s)}, "DecodeAndConvert(%q) differs from Decode (panic %v)", s, pv)
	}
	return
}

// cryptoDecoders: the crypto-level wrappers on the same string must not panic and must be consistent with the reference.
func cryptoDecoders(c *vf.Ctx, s string, refHrp string, refPayload []byte, refOK bool) {
	w := map[string]any{"input": q(s)}
	var addr, addr2, addr3 crypto.Address
	var e1, e2, e3, e4, e5 error
	var raw []byte
	if pv := vf.Try(func() { addr, e1 = crypto.AddressFromBech32(s) }); pv != nil {
		viol(c, "panic:AddressFromBech32", w, "AddressFromBech32(%q) panicked: %v", s, pv)
		return
	}
	if pv := vf.Try(func() { addr2, e2 = crypto.AddressFromString(s) }); pv != nil {
		viol(c, "panic:AddressFromString", w, "AddressFromString(%q) panicked: %v", s, pv)
		return
	}
	if pv := vf.Try(func() { e3 = addr3.UnmarshalAmino(s) }); pv != nil {
		viol(c, "panic:Address.UnmarshalAmino", w, "Address.UnmarshalAmino(%q) panicked: %v", s, pv)
		return
	}
	if pv := vf.Try(func() { raw, e4 = crypto.GetFromBech32(s, crypto.Bech32AddrPrefix()) }); pv != nil {
		viol(c, "panic:GetFromBech32", w, "GetFromBech32(%q) panicked: %v", s, pv)
		return
	}
	if pv := vf.Try(func() { _, e5 = crypto.PubKeyFromBech32(s) }); pv != nil {
		viol(c, "panic:PubKeyFromBech32", w, "PubKeyFromBech32(%q) panicked: %v", s, pv)
		return
	}
	_ = e5
	c.Count("crypto_decoder_calls", 5)
	wantAddr := refOK && refHrp == crypto.Bech32AddrPrefix() && len(refPayload) == crypto.AddressSize
	if wantAddr {
		var want crypto.Address
		copy(want[:], refPayload)
		if e1 != nil || e2 != nil || e3 != nil || addr != want || addr2 != want || addr3 != want {
			viol(c, "rejects-valid:address", w, "a valid address string %q was refused or decoded differently (%v, %v, %v)", s, e1, e2, e3)
		}
		c.Count("crypto_addresses_accepted", 1)
		return
	}
	key := "accepts-invalid:address"
	if _, _, why := refDecode(s); why == "checksum-is-bech32m" {
		key = "accepts:bech32m-checksum"
	}
	if e1 == nil {
		viol(c, key, w, "AddressFromBech32 accepted %q", s)
	}
	if e2 == nil {
		viol(c, key, w, "AddressFromString accepted %q", s)
	}
	if e3 == nil && s != "" { // the empty string is documented to leave the address zero
		viol(c, key, w, "Address.UnmarshalAmino accepted %q", s)
	}
	if e4 == nil && !(refOK && refHrp == crypto.Bech32AddrPrefix() && bytes.Equal(raw, refPayload)) {
		viol(c, key, w, "GetFromBech32(%q, %q) accepted", s, crypto.Bech32AddrPrefix())
	}
	c.Count("crypto_addresses_rejected", 1)
}

// differential: tm2 accepts s exactly when the reference does, with identical outputs.
func differential(c *vf.Ctx, class, s string) {
	rh, rp, why := refDecode(s)
	refOK := why == ""
	c.Case("decode/"+s, !refOK && why != "too-short")
	c.Count("gen_"+class, 1)
	h, p, err, panicked := decodeAll(c, s)
	if panicked {
		return
	}
	w := map[string]any{"input": q(s), "class": class, "reference": why}
	switch {
	case refOK && err != nil:
		viol(c, "rejects-valid:Decode", w, "Decode(%q) = %v, the reference accepts it as (%q, %x)", s, err, rh, rp)
	case refOK && (h != rh || !bytes.Equal(p, rp)):
		viol(c, "decodes-differently", w, "Decode(%q) = (%q, %x), reference (%q, %x)", s, h, p, rh, rp)
	case !refOK && err == nil:
		key := "accepts-invalid:" + why
		if why == "checksum-is-bech32m" {
			key = "accepts:bech32m-checksum"
		}
		viol(c, key, w, "Decode(%q) accepted a string the reference rejects (%s): (%q, %x)", s, why, h, p)
	}
	if refOK {
		c.Count("accepted", 1)
	} else {
		c.Count("rejected_"+why, 1)
	}
	cryptoDecoders(c, s, rh, rp, refOK)
}

// ---------------------------------------------------------------------------
// generators

func randHRP(r *rand.Rand) string {
	n := 1 + r.IntN(10)
	switch r.IntN(12) {
	case 0:
		n = 1
	case 1:
		n = 40 + r.IntN(44)
	}
	b := make([]byte, n)
	for i := range b {
		switch r.IntN(4) {
		case 0:
			ch := byte(33 + r.IntN(94))
			if ch >= 'A' && ch <= 'Z' {
				ch += 32
			}
			b[i] = ch
		case 1:
			b[i] = "1gpubcosm0-"[r.IntN(11)]
		default:
			b[i] = byte('a' + r.IntN(26))
		}
	}
	return string(b)
}

func randPayload(r *rand.Rand) []byte {
	n := r.IntN(41)
	switch r.IntN(10) {
	case 0:
		n = 0
	case 1:
		n = 20
	case 2:
		n = 100 + r.IntN(301)
	}
	b := make([]byte, n)
	for i := range b {
		b[i] = byte(r.UintN(256))
	}
	if n > 0 && r.IntN(8) == 0 {
		for i := range b {
			b[i] = 0
		}
	}
	if n > 0 && r.IntN(8) == 0 {
		for i := range b {
			b[i] = 0xff
		}
	}
	return b
}

// ---------------------------------------------------------------------------
// (a) round trips

func roundTrip(c *vf.Ctx, hrp string, payload []byte) (string, bool) {
	w := map[string]any{"prefix": q(hrp), "payload_hex": vf.Hex(payload)}
	var enc, enc2 string
	var err, err2 error
	if pv := vf.Try(func() { enc, err = bech32.Encode(hrp, payload); enc2, err2 = bech32.ConvertAndEncode(hrp, payload) }); pv != nil {
		viol(c, "panic:bech32.Encode", w, "Encode(%q, %x) panicked: %v", hrp, payload, pv)
		return "", false
	}
	c.Case("rt/"+hrp+"/"+vf.Hex(payload), len(payload) > 0)
	if err != nil || err2 != nil || enc != enc2 {
		viol(c, "roundtrip:encode-failed", w, "Encode(%q, %x) failed: %v / %v", hrp, payload, err, err2)
		return "", false
	}
	if want := refEncode(hrp, payload); enc != want {
		w["got"], w["want"] = enc, want
		viol(c, "roundtrip:encoding-differs", w, "Encode(%q, %x) = %q, reference %q", hrp, payload, enc, want)
		return "", false
	}
	h, p, derr, panicked := decodeAll(c, enc)
	if panicked {
		return "", false
	}
	if derr != nil || h != hrp || !bytes.Equal(p, payload) {
		w["encoded"] = enc
		viol(c, "roundtrip:decode-differs", w, "Decode(Encode(%q, %x)) = (%q, %x, %v)", hrp, payload, h, p, derr)
		return "", false
	}
	c.Count("roundtrips", 1)
	return enc, true
}

func cryptoRoundTrips(c *vf.Ctx, r *rand.Rand) string {
	var addr crypto.Address
	for i := range addr {
		addr[i] = byte(r.UintN(256))
	}
	s := crypto.AddressToBech32(addr)
	w := map[string]any{"address_hex": vf.Hex(addr[:]), "string": s}
	c.Case("addr/"+s, true)
	if s != refEncode(crypto.Bech32AddrPrefix(), addr[:]) || addr.String() != s || string(addr.Bech32()) != s {
		viol(c, "roundtrip:address-encoding-differs", w, "AddressToBech32(%x) = %q, reference %q", addr[:], s, refEncode(crypto.Bech32AddrPrefix(), addr[:]))
	}
	a1, e1 := crypto.AddressFromBech32(s)
	a2, e2 := crypto.AddressFromString(s)
	var a3, a4 crypto.Address
	e3 := a3.UnmarshalAmino(s)
	js, e4 := json.Marshal(addr)
	if e4 == nil {
		e4 = json.Unmarshal(js, &a4)
	}
	if e1 != nil || e2 != nil || e3 != nil || e4 != nil || a1 != addr || a2 != addr || a3 != addr || a4 != addr {
		viol(c, "roundtrip:address", w, "address %x does not round-trip through %q: %v %v %v %v", addr[:], s, e1, e2, e3, e4)
	}
	c.Count("address_roundtrips", 1)
	// wrong prefix / wrong length must be refused by the address decoders
	other := refEncode([]string{"gpub", "cosmos", "gg", "g1", "h"}[r.IntN(5)], addr[:])
	if _, err := crypto.AddressFromBech32(other); err == nil {
		viol(c, "accepts-invalid:address-prefix", map[string]any{"input": other}, "AddressFromBech32 accepted the foreign prefix in %q", other)
	}
	if _, err := crypto.AddressFromString(other); err == nil {
		viol(c, "accepts-invalid:address-prefix", map[string]any{"input": other}, "AddressFromString accepted the foreign prefix in %q", other)
	}
	n := r.IntN(41)
	if n == crypto.AddressSize {
		n++
	}
	short := make([]byte, n)
	for i := range short {
		short[i] = byte(r.UintN(256))
	}
	wl := refEncode(crypto.Bech32AddrPrefix(), short)
	if _, err := crypto.AddressFromBech32(wl); err == nil {
		viol(c, "accepts-invalid:address-length", map[string]any{"input": wl, "payload_len": n}, "AddressFromBech32 accepted a %d-byte payload in %q", n, wl)
	}
	if _, err := crypto.AddressFromString(wl); err == nil {
		viol(c, "accepts-invalid:address-length", map[string]any{"input": wl, "payload_len": n}, "AddressFromString accepted a %d-byte payload in %q", n, wl)
	}
	c.Count("address_wrong_prefix_or_length_rejected", 2)
	// public keys
	secret := make([]byte, 32)
	for i := range secret {
		secret[i] = byte(r.UintN(256))
	}
	var pk crypto.PubKey
	if r.IntN(2) == 0 {
		pk = ed25519.GenPrivKeyFromSecret(secret).PubKey()
	} else {
		pk = secp256k1.GenPrivKeySecp256k1(secret).PubKey()
	}
	ps := crypto.PubKeyToBech32(pk)
	if ps != refEncode(crypto.Bech32PubKeyPrefix(), pk.Bytes()) {
		viol(c, "roundtrip:pubkey-encoding-differs", map[string]any{"string": ps}, "PubKeyToBech32 differs from the reference encoding")
	}
	back, err := crypto.PubKeyFromBech32(ps)
	if err != nil || !back.Equals(pk) {
		viol(c, "roundtrip:pubkey", map[string]any{"string": ps}, "public key does not round-trip through %q: %v", ps, err)
	}
	c.Case("pub/"+ps, true)
	c.Count("pubkey_roundtrips", 1)
	if r.IntN(2) == 0 {
		return ps
	}
	return s
}

// ---------------------------------------------------------------------------
// (b) single substitutions, (c) case mixes

var outsideAlphabet = []byte{'1', 'b', 'i', 'o', 'B', 'Q', '!', '~', ' ', 0x7f, 0x00, 0xc3}

func sameLetter(a, b byte) bool {
	la, lb := a, b
	if la >= 'A' && la <= 'Z' {
		la += 32
	}
	if lb >= 'A' && lb <= 'Z' {
		lb += 32
	}
	return la == lb
}

func substitutions(c *vf.Ctx, s string, isAddr bool) {
	sep := strings.LastIndexByte(s, '1')
	buf := []byte(s)
	try := func(p int, ch byte, kind string) {
		orig := buf[p]
		if sameLetter(ch, orig) {
			return
		}
		buf[p] = ch
		m := string(buf)
		buf[p] = orig
		c.Case("sub/"+m, true)
		c.Count("substitutions_"+kind, 1)
		h, pl, err, panicked := decodeAll(c, m)
		if panicked {
			return
		}
		if err == nil {
			key := "substitution-accepted:" + kind
			if _, _, why := refDecode(m); why == "checksum-is-bech32m" {
				key = "substitution-accepted:becomes-bech32m" // kept apart from the plain bech32m acceptance
			}
			c.Count("substitutions_accepted", 1)
			viol(c, key, map[string]any{"valid": s, "mutated": q(m), "position": p, "from": string(orig), "to": fmt.Sprintf("%q", ch)},
				"single substitution at %d (%q -> %q) of the valid string %q is accepted as (%q, %x)", p, orig, ch, s, h, pl)
			return
		}
		c.Count("substitutions_rejected", 1)
		if isAddr {
			if _, e := crypto.AddressFromBech32(m); e == nil {
				viol(c, "substitution-accepted:address", map[string]any{"valid": s, "mutated": q(m)}, "AddressFromBech32 accepted %q, a single substitution of %q", m, s)
			}
			if _, e := crypto.AddressFromString(m); e == nil {
				viol(c, "substitution-accepted:address", map[string]any{"valid": s, "mutated": q(m)}, "AddressFromString accepted %q, a single substitution of %q", m, s)
			}
		}
	}
	for p := 0; p < len(s); p++ {
		if p > sep { // data part and checksum: all 31 other alphabet characters, then characters outside the alphabet
			for i := 0; i < len(charset); i++ {
				if charset[i] != s[p] {
					try(p, charset[i], "data-alphabet")
				}
			}
			for _, ch := range outsideAlphabet {
				try(p, ch, "data-outside-alphabet")
			}
			continue
		}
		kind := "prefix"
		if p == sep {
			kind = "separator"
		}
		for ch := byte(33); ch <= 126; ch++ {
			if ch != s[p] && !sameLetter(ch, s[p]) {
				try(p, ch, kind)
			}
		}
	}
	c.Count("substitution_base_strings", 1)
}

func caseMixes(c *vf.Ctx, s string, r *rand.Rand) {
	var letters []int
	for i := 0; i < len(s); i++ {
		if s[i] >= 'a' && s[i] <= 'z' {
			letters = append(letters, i)
		}
	}
	rh, rp, _ := refDecode(s)
	up := strings.ToUpper(s)
	c.Case("case/"+up, true)
	if h, p, err, panicked := decodeAll(c, up); !panicked && (err != nil || h != rh || !bytes.Equal(p, rp)) {
		viol(c, "rejects-valid:uppercase", map[string]any{"input": up}, "the all-upper-case form %q of a valid string is refused or decodes differently: (%q, %x, %v)", up, h, p, err)
	}
	c.Count("uppercase_forms_accepted", 1)
	if len(letters) < 2 {
		return
	}
	check := func(m string) {
		c.Case("case/"+m, true)
		if _, _, err, panicked := decodeAll(c, m); !panicked && err == nil {
			viol(c, "accepts-invalid:mixed-case", map[string]any{"valid": s, "mutated": m}, "the mixed-case variant %q of %q is accepted", m, s)
			return
		}
		c.Count("mixed_case_rejected", 1)
	}
	for _, i := range letters { // one letter upper, the rest lower; and one letter lower, the rest upper
		b := []byte(s)
		b[i] -= 32
		check(string(b))
		b = []byte(up)
		b[i] += 32
		check(string(b))
	}
	for k := 0; k < 8; k++ {
		b := []byte(s)
		nUp := 0
		for _, i := range letters {
			if r.IntN(2) == 0 {
				b[i] -= 32
				nUp++
			}
		}
		if nUp == 0 || nUp == len(letters) {
			continue
		}
		check(string(b))
	}
}

// ---------------------------------------------------------------------------
// (d) hostile strings

func edit(r *rand.Rand, s string) string {
	b := []byte(s)
	randChar := func() byte {
		switch r.IntN(6) {
		case 0:
			return byte(r.UintN(256))
		case 1:
			return byte(33 + r.IntN(94))
		case 2:
			return '1'
		default:
			return charset[r.IntN(32)]
		}
	}
	for k := 1 + r.IntN(4); k > 0; k-- {
		if len(b) == 0 {
			b = append(b, randChar())
			continue
		}
		p := r.IntN(len(b))
		switch r.IntN(8) {
		case 0, 1:
			b[p] = randChar()
		case 2:
			b = append(b[:p], append([]byte{randChar()}, b[p:]...)...)
		case 3:
			b = append(b[:p], b[p+1:]...)
		case 4:
			if p+1 < len(b) {
				b[p], b[p+1] = b[p+1], b[p]
			}
		case 5:
			b = b[:p]
		case 6:
			b = append(b, randChar())
		default:
			if b[p] >= 'a' && b[p] <= 'z' {
				b[p] -= 32
			} else {
				b[p] = randChar()
			}
		}
	}
	return string(b)
}

func hostile(c *vf.Ctx, r *rand.Rand, valid []string) {
	base := valid[r.IntN(len(valid))]
	switch k := r.IntN(20); {
	case k < 2:
		b := make([]byte, r.IntN(100))
		for i := range b {
			b[i] = byte(r.UintN(256))
		}
		differential(c, "random-bytes", string(b))
	case k < 4:
		b := make([]byte, r.IntN(100))
		for i := range b {
			b[i] = byte(33 + r.IntN(94))
		}
		differential(c, "random-printable", string(b))
	case k < 6:
		n := 6 + r.IntN(60)
		b := make([]byte, n)
		for i := range b {
			b[i] = charset[r.IntN(32)]
		}
		differential(c, "random-shaped", randHRP(r)+"1"+string(b))
	case k < 12:
		differential(c, "edited-valid", edit(r, base))
	case k < 14: // a bech32m checksum over a plausible payload
		hrp := randHRP(r)
		if r.IntN(2) == 0 {
			hrp = crypto.Bech32AddrPrefix()
		}
		pl := randPayload(r)
		if r.IntN(2) == 0 {
			pl = pl[:0]
			for i := 0; i < crypto.AddressSize; i++ {
				pl = append(pl, byte(r.UintN(256)))
			}
		}
		differential(c, "bech32m-checksum", refEncodeSyms(hrp, to5(pl), constBech32m))
	case k < 16: // correct checksum over symbols whose 5->8 regrouping leaves bad padding
		hrp := randHRP(r)
		syms := to5(randPayload(r))
		switch r.IntN(3) {
		case 0:
			syms = append(syms, 0) // one whole extra symbol of padding
		case 1:
			if len(syms) > 0 {
				syms[len(syms)-1] |= 1 // non-zero padding bit (when the last symbol carries padding)
			}
		default:
			syms = append(syms, byte(r.IntN(32)), byte(r.IntN(32)))
		}
		differential(c, "bad-padding", refEncodeSyms(hrp, syms, constBech32))
	case k < 17:
		differential(c, "uppercased", strings.ToUpper(base))
	case k < 18:
		p := r.IntN(len(base) + 1)
		differential(c, "non-ascii", base[:p]+string([]byte{byte(0x80 + r.IntN(128))})+base[p:])
	case k < 19:
		differential(c, "very-long", base+strings.Repeat(string(charset[r.IntN(32)]), 2000+r.IntN(8000)))
	default:
		differential(c, "valid", base)
	}
}

// ---------------------------------------------------------------------------

func run(c *vf.Ctx) {
	workers := runtime.GOMAXPROCS(0)

	// (a) round trips; keep the encodings as base strings for (b)-(d)
	nrt := c.N(20000, 600000)
	var mu sync.Mutex
	var valid []string
	const chunk = 200
	c.Parallel(nrt/chunk, workers, 1000, func(_ int, r *rand.Rand) {
		var local []string
		for k := 0; k < chunk; k++ {
			if enc, ok := roundTrip(c, randHRP(r), randPayload(r)); ok && len(enc) <= 700 {
				local = append(local, enc)
			}
			// prefixes outside the valid set: only "no panic" and lower-casing are checked
			if k%20 == 0 {
				h := strings.ToUpper(randHRP(r))
				var enc string
				var err error
				if pv := vf.Try(func() { enc, err = bech32.Encode(h, randPayload(r)) }); pv != nil {
					viol(c, "panic:bech32.Encode", map[string]any{"prefix": q(h)}, "Encode with prefix %q panicked: %v", h, pv)
				} else if err == nil {
					if hh, _, derr, panicked := decodeAll(c, enc); !panicked && (derr != nil || hh != strings.ToLower(h)) {
						viol(c, "roundtrip:uppercase-prefix", map[string]any{"prefix": q(h), "encoded": enc}, "Encode(%q) -> %q -> (%q, %v)", h, enc, hh, derr)
					}
				}
				c.Count("uppercase_prefix_encodes", 1)
				for _, bad := range []string{"", "a b", "caf\xc3\xa9", "x\x7f"} {
					if pv := vf.Try(func() {
						enc, err = bech32.Encode(bad, []byte{1, 2, 3})
						if err == nil {
							bech32.Decode(enc)
						}
					}); pv != nil {
						viol(c, "panic:bech32.Encode", map[string]any{"prefix": q(bad)}, "Encode/Decode with invalid prefix %q panicked: %v", bad, pv)
					}
				}
			}
			if k%4 == 0 {
				local = append(local, cryptoRoundTrips(c, r))
			}
		}
		mu.Lock()
		valid = append(valid, local...)
		mu.Unlock()
	})
	sort.Strings(valid) // deterministic order regardless of worker interleaving
	c.Logf("round trips done, %d valid base strings", len(valid))
	if len(valid) == 0 {
		c.Inconclusive("no valid base strings")
		return
	}

	// (b)+(c) exhaustive single substitutions / case mixes on a deterministic subset
	nb := c.N(60, 600)
	pr := c.Rng(77)
	var bases []string
	addrPrefix := crypto.Bech32AddrPrefix() + "1"
	for len(bases) < nb {
		s := valid[pr.IntN(len(valid))]
		if len(bases)%3 == 0 { // every third base string is an address
			for !strings.HasPrefix(s, addrPrefix) || len(s) != 40 {
				s = valid[pr.IntN(len(valid))]
			}
		}
		if len(bases)%10 == 1 && !c.Quick() { // long strings (public keys, big payloads)
			for len(s) < 200 {
				s = valid[pr.IntN(len(valid))]
			}
		}
		bases = append(bases, s)
	}
	c.Parallel(len(bases), workers, 50000, func(i int, r *rand.Rand) {
		s := bases[i]
		substitutions(c, s, strings.HasPrefix(s, addrPrefix) && len(s) == 40)
		caseMixes(c, s, r)
	})
	c.Logf("substitutions done")

	// (d) hostile strings
	nh := c.N(150000, 4000000)
	c.Parallel(nh/1000, workers, 100000, func(_ int, r *rand.Rand) {
		for k := 0; k < 1000; k++ {
			hostile(c, r, valid)
		}
	})

	vkMu.Lock()
	keys := make([]string, 0, len(vk))
	for k := range vk {
		keys = append(keys, k)
	}
	sort.Strings(keys)
	for _, k := range keys {
		c.Logf("violation key %-45s x%d", k, vk[k])
		c.Count("reported:"+k, vk[k])
	}
	vkMu.Unlock()

	c.Sample(map[string]any{"kind": "roundtrip", "valid": bases[0]})
	c.Sample(map[string]any{"kind": "substitution", "valid": bases[0], "position": len(bases[0]) - 1, "alternatives": 31 + len(outsideAlphabet)})
	c.Sample(map[string]any{"kind": "mixed-case", "valid": bases[1], "mutated": strings.ToUpper(bases[1][:1]) + bases[1][1:]})
	c.Sample(map[string]any{"kind": "hostile", "class": "bad-padding", "input": refEncodeSyms("g", append(to5([]byte{1, 2, 3}), 0), constBech32)})
	c.Sample(map[string]any{"kind": "hostile", "class": "bech32m-checksum", "input": refEncodeSyms("g", to5([]byte{1, 2, 3}), constBech32m)})
	c.Assume("the reference decoder is a BIP-173 implementation written for this check (no 90-character limit, as tm2 decodes with DecodeNoLimit)")
	c.Assume("valid prefix = 1..83 printable ASCII characters without upper-case letters (encoders lower-case the prefix); a substitution by the same letter in the other case is not a substitution in bech32's case-insensitive alphabet and is excluded")
	c.Assume("substitutions that turn a character into the separator '1' (or remove the separator) re-split the string; their rejection rests on the 30-bit checksum rather than on the code's distance guarantee")

	c.RequireCounter("roundtrips", int64(nrt*9/10))
	c.RequireCounter("address_roundtrips", 1000)
	c.RequireCounter("pubkey_roundtrips", 1000)
	c.RequireCounter("substitution_base_strings", int64(nb))
	c.RequireCounter("substitutions_data-alphabet", 50000)
	c.RequireCounter("substitutions_prefix", 1000)
	c.RequireCounter("substitutions_separator", 1000)
	c.RequireCounter("mixed_case_rejected", 1000)
	c.RequireCounter("accepted", 1000)
	for _, why := range []string{"too-short", "invalid-character", "mixed-case", "separator", "data-character", "checksum", "padding"} {
		c.RequireCounter("rejected_"+why, 300)
	}
	c.RequireCounter("gen_bech32m-checksum", 1000)
	c.RequireCounter("crypto_addresses_accepted", 100)
	c.RequireCounter("crypto_addresses_rejected", 10000)
}
