package c05

import (
	"fmt"
	"math"
	"math/rand/v2"
	"strconv"
	"strings"

	"verifharness/checks/c04/gnorun"
	"verifharness/internal/vf"
)

// Layer 2: operand tables compiled into Gno programs and run on the GnoVM.

// expected token of one printed result
type tok struct {
	kind byte   // 'D' float64 bits, 'S' float32 bits, 'I' exact text
	u    uint64 // bits for D/S
	text string // for I
	op   string // operation label (counter + violation key)
	expr string // Gno expression that produced it
}

type row struct {
	operands string // canonical operand text
	lines    [][]tok
	nontriv  bool
}

type program struct {
	kind string
	src  string
	rows []row
}

var l2Kinds = []string{
	"f64:add", "f64:sub", "f64:mul", "f64:div", "f64:cmp", "f64:neg", "f64:opassign", "f64:incdec",
	"f32:add", "f32:sub", "f32:mul", "f32:div", "f32:cmp", "f32:neg", "f32:opassign", "f32:incdec",
	"f64:to-f32", "f32:to-f64", "f64:to-int", "f32:to-int", "int:to-f32", "int:to-f64",
}

func bstr(b bool) string { return strconv.FormatBool(b) }

// ---- binary programs ----

func progBin64(pairs [][2]uint64) *program {
	p := &program{kind: "bin64"}
	var sb strings.Builder
	sb.WriteString("package main\n\nimport \"math\"\n\nvar A = []uint64{")
	for _, pr := range pairs {
		fmt.Fprintf(&sb, "0x%x, ", pr[0])
	}
	sb.WriteString("}\nvar B = []uint64{")
	for _, pr := range pairs {
		fmt.Fprintf(&sb, "0x%x, ", pr[1])
	}
	sb.WriteString(`}

func main() {
	for i := 0; i < len(A); i++ {
		x := math.Float64frombits(A[i])
		y := math.Float64frombits(B[i])
		println(math.Float64bits(x+y), math.Float64bits(x-y), math.Float64bits(x*y), math.Float64bits(x/y), math.Float64bits(-x))
		println(x == y, x != y, x < y, x <= y, x > y, x >= y)
		a := x
		a += y
		b := x
		b -= y
		c := x
		c *= y
		d := x
		d /= y
		e := x
		e++
		f := x
		f--
		println(math.Float64bits(a), math.Float64bits(b), math.Float64bits(c), math.Float64bits(d), math.Float64bits(e), math.Float64bits(f))
	}
}
`)
	p.src = sb.String()
	for _, pr := range pairs {
		x, y := math.Float64frombits(pr[0]), math.Float64frombits(pr[1])
		D := func(op, expr string, v float64) tok {
			return tok{kind: 'D', u: math.Float64bits(v), op: "f64:" + op, expr: expr}
		}
		I := func(expr string, v bool) tok { return tok{kind: 'I', text: bstr(v), op: "f64:cmp", expr: expr} }
		e, f := x, x
		e++
		f--
		sum, dif, prd, quo := x+y, x-y, x*y, x/y
		r := row{operands: fmt.Sprintf("x=%s y=%s", h64(pr[0]), h64(pr[1]))}
		r.lines = [][]tok{
			{D("add", "x+y", sum), D("sub", "x-y", dif), D("mul", "x*y", prd), D("div", "x/y", quo), D("neg", "-x", -x)},
			{I("x==y", x == y), I("x!=y", x != y), I("x<y", x < y), I("x<=y", x <= y), I("x>y", x > y), I("x>=y", x >= y)},
			{D("opassign", "x+=y", sum), D("opassign", "x-=y", dif), D("opassign", "x*=y", prd), D("opassign", "x/=y", quo), D("incdec", "x++", e), D("incdec", "x--", f)},
		}
		r.nontriv = special64(pr[0]) || special64(pr[1])
		for _, v := range []float64{sum, dif, prd, quo} {
			if special64(math.Float64bits(v)) {
				r.nontriv = true
			}
		}
		if !r.nontriv && (math.FMA(x, y, -prd) != 0 || math.FMA(quo, y, -x) != 0) {
			r.nontriv = true
		}
		p.rows = append(p.rows, r)
	}
	return p
}

func progBin32(pairs [][2]uint32) *program {
	p := &program{kind: "bin32"}
	var sb strings.Builder
	sb.WriteString("package main\n\nimport \"math\"\n\nvar A = []uint32{")
	for _, pr := range pairs {
		fmt.Fprintf(&sb, "0x%x, ", pr[0])
	}
	sb.WriteString("}\nvar B = []uint32{")
	for _, pr := range pairs {
		fmt.Fprintf(&sb, "0x%x, ", pr[1])
	}
	sb.WriteString(`}

func main() {
	for i := 0; i < len(A); i++ {
		x := math.Float32frombits(A[i])
		y := math.Float32frombits(B[i])
		println(math.Float32bits(x+y), math.Float32bits(x-y), math.Float32bits(x*y), math.Float32bits(x/y), math.Float32bits(-x))
		println(x == y, x != y, x < y, x <= y, x > y, x >= y)
		a := x
		a += y
		b := x
		b -= y
		c := x
		c *= y
		d := x
		d /= y
		e := x
		e++
		f := x
		f--
		println(math.Float32bits(a), math.Float32bits(b), math.Float32bits(c), math.Float32bits(d), math.Float32bits(e), math.Float32bits(f))
	}
}
`)
	p.src = sb.String()
	for _, pr := range pairs {
		x, y := math.Float32frombits(pr[0]), math.Float32frombits(pr[1])
		S := func(op, expr string, v float32) tok {
			return tok{kind: 'S', u: uint64(math.Float32bits(v)), op: "f32:" + op, expr: expr}
		}
		I := func(expr string, v bool) tok { return tok{kind: 'I', text: bstr(v), op: "f32:cmp", expr: expr} }
		e, f := x, x
		e++
		f--
		sum, dif, prd, quo := x+y, x-y, x*y, x/y
		r := row{operands: fmt.Sprintf("x=%s y=%s", h32(pr[0]), h32(pr[1]))}
		r.lines = [][]tok{
			{S("add", "x+y", sum), S("sub", "x-y", dif), S("mul", "x*y", prd), S("div", "x/y", quo), S("neg", "-x", -x)},
			{I("x==y", x == y), I("x!=y", x != y), I("x<y", x < y), I("x<=y", x <= y), I("x>y", x > y), I("x>=y", x >= y)},
			{S("opassign", "x+=y", sum), S("opassign", "x-=y", dif), S("opassign", "x*=y", prd), S("opassign", "x/=y", quo), S("incdec", "x++", e), S("incdec", "x--", f)},
		}
		r.nontriv = special32(pr[0]) || special32(pr[1])
		for _, v := range []float32{sum, dif, prd, quo} {
			if special32(math.Float32bits(v)) {
				r.nontriv = true
			}
		}
		if !r.nontriv && (float64(prd) != float64(x)*float64(y) || float64(quo) != float64(x)/float64(y)) {
			r.nontriv = true
		}
		p.rows = append(p.rows, r)
	}
	return p
}

// ---- conversion programs ----

type intType struct {
	name   string
	bits   uint
	signed bool
}

var intTypes = []intType{
	{"int8", 8, true}, {"int16", 16, true}, {"int32", 32, true}, {"int64", 64, true}, {"int", 64, true},
	{"uint8", 8, false}, {"uint16", 16, false}, {"uint32", 32, false}, {"uint64", 64, false}, {"uint", 64, false},
}

// inRange: truncation of f is representable in t.
func (t intType) inRange(f float64) bool {
	if f != f {
		return false
	}
	if t.signed {
		hi := math.Ldexp(1, int(t.bits-1)) // 2^(bits-1)
		if t.bits == 64 {
			return f >= -hi && f < hi
		}
		return f > -hi-1 && f < hi
	}
	hi := math.Ldexp(1, int(t.bits))
	return f > -1 && f < hi
}

// conv: decimal text of T(f) for in-range f (exact: truncation toward zero).
func (t intType) conv(f float64) string {
	if t.signed {
		return strconv.FormatInt(int64(f), 10)
	}
	if f < 0 { // (-1,0): truncates to 0
		return "0"
	}
	return strconv.FormatUint(uint64(f), 10)
}

// candidates64 draws float64 operands aimed at type t: boundaries of the range, integers ± fractions, small values.
func (t intType) candidate(r *rand.Rand) float64 {
	hi := math.Ldexp(1, int(t.bits))
	lo := 0.0
	if t.signed {
		hi = math.Ldexp(1, int(t.bits-1))
		lo = -hi
	}
	frac := []float64{0, 0.5, 0.25, 0.99, 0.999999, 1e-9, 0.49999999999999994}[r.IntN(7)]
	switch r.IntN(8) {
	case 0:
		return hi - 1 + frac
	case 1:
		return lo - frac
	case 2:
		return math.Nextafter(hi, 0)
	case 3:
		return float64(int64(r.IntN(5))-2) + frac*float64(1-2*r.IntN(2))
	case 4:
		return math.Float64frombits(rand64(r))
	case 5:
		return math.Copysign(frac, float64(1-2*r.IntN(2)))
	default:
		v := lo + (hi-lo)*r.Float64()
		if r.IntN(2) == 0 {
			v = math.Trunc(v) + frac
		}
		return v
	}
}

func progF2I(width int, rng *rand.Rand, perType int) *program {
	p := &program{kind: fmt.Sprintf("f%d-to-int", width)}
	var sb strings.Builder
	sb.WriteString("package main\n\nimport \"math\"\n\n")
	ut, from, bits := "uint64", "math.Float64frombits", "float64"
	if width == 32 {
		ut, from, bits = "uint32", "math.Float32frombits", "float32"
	}
	var body strings.Builder
	for _, t := range intTypes {
		var vals []float64
		for tries := 0; len(vals) < perType && tries < perType*40; tries++ {
			f := t.candidate(rng)
			if width == 32 {
				f = float64(float32(f))
			}
			if t.inRange(f) {
				vals = append(vals, f)
			}
		}
		fmt.Fprintf(&sb, "var T_%s = []%s{", t.name, ut)
		for _, f := range vals {
			var b uint64
			if width == 32 {
				b = uint64(math.Float32bits(float32(f)))
			} else {
				b = math.Float64bits(f)
			}
			fmt.Fprintf(&sb, "0x%x, ", b)
			op := fmt.Sprintf("f%d:to-int", width)
			r := row{operands: fmt.Sprintf("%s(%s x) x=0x%x (%v)", t.name, bits, b, f),
				lines:   [][]tok{{{kind: 'I', text: t.conv(f), op: op, expr: t.name + "(x)"}}},
				nontriv: f != math.Trunc(f) || math.Abs(f) >= math.Ldexp(1, int(t.bits)-2) || f == 0}
			p.rows = append(p.rows, r)
		}
		sb.WriteString("}\n")
		fmt.Fprintf(&body, "\tfor i := 0; i < len(T_%s); i++ {\n\t\tx := %s(T_%s[i])\n\t\tprintln(%s(x))\n\t}\n", t.name, from, t.name, t.name)
	}
	// float width change
	other := 64
	if width == 64 {
		other = 32
	}
	n := perType * 3
	fmt.Fprintf(&sb, "var T_f = []%s{", ut)
	s32 := set32(rng, 0, -1)
	for i := 0; i < n; i++ {
		if width == 64 {
			var b uint64
			switch i % 4 {
			case 0:
				b = rand64(rng)
			case 1: // exact midpoint between float32 neighbours, and 1ulp64 around it
				q := s32[rng.IntN(len(s32))]
				if isNaN32(q) || isInf32(q) {
					q = 0x3f800000
				}
				b = math.Float64bits(float64(math.Float32frombits(q))) + 1<<28 + uint64(rng.IntN(3)) - 1
			case 2: // float32 subnormal range
				b = rng.Uint64()&0x800fffffffffffff | uint64(1023-150+rng.IntN(26))<<52
				if rng.IntN(2) == 0 {
					b &^= 1<<uint(30+rng.IntN(22)) - 1
				}
			default: // float32 overflow threshold
				b = math.Float64bits(math.MaxFloat32) + uint64(rng.IntN(1<<30)) - 1<<28
				if rng.IntN(2) == 0 {
					b |= 1 << 63
				}
			}
			f := math.Float64frombits(b)
			want := math.Float32bits(float32(f))
			fmt.Fprintf(&sb, "0x%x, ", b)
			p.rows = append(p.rows, row{operands: "float32(float64 x) x=" + h64(b),
				lines:   [][]tok{{{kind: 'S', u: uint64(want), op: "f64:to-f32", expr: "float32(x)"}}},
				nontriv: special32(want) || special64(b) || float64(float32(f)) != f})
		} else {
			b := rand32(rng)
			if i%3 == 0 {
				b = s32[rng.IntN(len(s32))]
			}
			want := math.Float64bits(float64(math.Float32frombits(b)))
			fmt.Fprintf(&sb, "0x%x, ", b)
			p.rows = append(p.rows, row{operands: "float64(float32 x) x=" + h32(b),
				lines:   [][]tok{{{kind: 'D', u: want, op: "f32:to-f64", expr: "float64(x)"}}},
				nontriv: special32(b)})
		}
	}
	sb.WriteString("}\n")
	fmt.Fprintf(&body, "\tfor i := 0; i < len(T_f); i++ {\n\t\tx := %s(T_f[i])\n\t\tprintln(math.Float%dbits(float%d(x)))\n\t}\n", from, other, other)
	sb.WriteString("\nfunc main() {\n" + body.String() + "}\n")
	p.src = sb.String()
	return p
}

func (t intType) randVal(r *rand.Rand) (text string, f32 float32, f64 float64, nontriv bool) {
	u := uint64(randInt(r))
	switch r.IntN(6) {
	case 0:
		u = 0
	case 1:
		u = ^uint64(0) // -1 / max
	case 2:
		u = 1 << (t.bits - 1) // min (signed) / 2^(bits-1)
	case 3:
		u = 1<<(t.bits-1) - 1 - uint64(r.IntN(200)) // near signed max
	}
	if t.bits < 64 {
		u &= 1<<t.bits - 1
	}
	if t.signed {
		v := int64(u<<(64-t.bits)) >> (64 - t.bits)
		return strconv.FormatInt(v, 10), float32(v), float64(v), float64(float32(v)) != float64(v) || int64(float64(v)) != v || v == 0
	}
	return strconv.FormatUint(u, 10), float32(u), float64(u), float64(float32(u)) != float64(u) || uint64(float64(u)) != u || u == 0 || u >= 1<<63
}

func progI2F(rng *rand.Rand, perType int) *program {
	p := &program{kind: "int-to-float"}
	var sb, body strings.Builder
	sb.WriteString("package main\n\nimport \"math\"\n\n")
	for _, t := range intTypes {
		fmt.Fprintf(&sb, "var T_%s = []%s{", t.name, t.name)
		for i := 0; i < perType; i++ {
			text, f32, f64, nt := t.randVal(rng)
			fmt.Fprintf(&sb, "%s, ", text)
			p.rows = append(p.rows, row{operands: fmt.Sprintf("%s x=%s", t.name, text), nontriv: nt,
				lines: [][]tok{{
					{kind: 'S', u: uint64(math.Float32bits(f32)), op: "int:to-f32", expr: "float32(x)"},
					{kind: 'D', u: math.Float64bits(f64), op: "int:to-f64", expr: "float64(x)"},
				}}})
		}
		sb.WriteString("}\n")
		fmt.Fprintf(&body, "\tfor i := 0; i < len(T_%s); i++ {\n\t\tx := T_%s[i]\n\t\tprintln(math.Float32bits(float32(x)), math.Float64bits(float64(x)))\n\t}\n", t.name, t.name)
	}
	sb.WriteString("\nfunc main() {\n" + body.String() + "}\n")
	p.src = sb.String()
	return p
}

// ---- driver ----

func layer2(c *vf.Ctx, r *reporter) {
	rounds := c.N(2, 40)
	rowsPer := 220
	var progs []*program
	s32 := set32(c.Rng(11), 600, setHalf(c))
	s64 := set64(c.Rng(12), 600, setHalf(c))
	for k := 0; k < rounds; k++ {
		rng := c.Rng(uint64(5000 + k))
		p64 := make([][2]uint64, rowsPer)
		p32 := make([][2]uint32, rowsPer)
		for i := range p64 {
			switch i % 3 {
			case 0: // structured x structured
				p64[i] = [2]uint64{s64[rng.IntN(len(s64))], s64[rng.IntN(len(s64))]}
				p32[i] = [2]uint32{s32[rng.IntN(len(s32))], s32[rng.IntN(len(s32))]}
			case 1:
				a, b := pair64(rng)
				p64[i] = [2]uint64{a, b}
				x, y := pair32(rng)
				p32[i] = [2]uint32{x, y}
			default:
				p64[i] = [2]uint64{s64[rng.IntN(len(s64))], rand64(rng)}
				p32[i] = [2]uint32{rand32(rng), s32[rng.IntN(len(s32))]}
			}
		}
		progs = append(progs, progBin64(p64), progBin32(p32), progF2I(64, rng, 60), progF2I(32, rng, 60), progI2F(rng, 80))
	}
	workers := 8
	if len(progs) < workers {
		workers = len(progs)
	}
	pool := make(chan *gnorun.Runner, workers)
	for i := 0; i < workers; i++ {
		pool <- nil
	}
	c.Parallel(len(progs), workers, 60_000_000, func(i int, _ *rand.Rand) {
		run := <-pool
		if run == nil {
			var err error
			if run, err = gnorun.New("math"); err != nil {
				panic(fmt.Sprintf("gnorun.New: %v", err))
			}
		}
		defer func() { pool <- run }()
		p := progs[i]
		res := run.Run(fmt.Sprintf("c05_%s_%d.gno", p.kind, i), p.src, 50_000_000_000)
		c.Count("l2_programs_run", 1)
		if res.Panicked {
			r.fail("l2:program-failed:"+p.kind+":"+res.Kind, map[string]any{"layer": 2, "program": p.src, "error": res.Error, "output_tail": tail(res.Output, 400)},
				"Gno program of kind %s did not complete (%s): %s", p.kind, res.Kind, res.Error)
			return
		}
		checkOutput(c, r, p, res.Output)
	})
	c.Set("l2_programs", len(progs))
	if len(progs) > 0 {
		c.Sample(map[string]any{"layer": 2, "kind": progs[0].kind, "first_row": progs[0].rows[0].operands, "program_bytes": len(progs[0].src)})
		c.Sample(map[string]any{"layer": 2, "kind": progs[2].kind, "first_row": progs[2].rows[0].operands, "program_bytes": len(progs[2].src)})
	}
}

func tail(s string, n int) string {
	if len(s) <= n {
		return s
	}
	return s[len(s)-n:]
}

func checkOutput(c *vf.Ctx, r *reporter, p *program, out string) {
	lines := strings.Split(strings.TrimRight(out, "\n"), "\n")
	li := 0
	counts := map[string]int{}
	var nan, sub int
	for _, rw := range p.rows {
		for _, want := range rw.lines {
			if li >= len(lines) {
				r.fail("l2:short-output:"+p.kind, map[string]any{"layer": 2, "program": p.src, "lines": len(lines)}, "program %s printed %d lines, more expected", p.kind, len(lines))
				return
			}
			got := strings.Fields(lines[li])
			li++
			if len(got) != len(want) {
				r.fail("l2:malformed-line:"+p.kind, map[string]any{"layer": 2, "line": lines[li-1], "row": rw.operands}, "line %q has %d fields, want %d", lines[li-1], len(got), len(want))
				continue
			}
			for k, w := range want {
				counts[w.op]++
				ok := false
				wantText := w.text
				switch w.kind {
				case 'I':
					ok = got[k] == w.text
				case 'D':
					g, err := strconv.ParseUint(got[k], 10, 64)
					ok = err == nil && same64(g, w.u)
					wantText = h64(w.u)
					if err == nil {
						got[k] = h64(g)
					}
					if isNaN64(w.u) {
						nan++
					} else if isSub64(w.u) {
						sub++
					}
				case 'S':
					g, err := strconv.ParseUint(got[k], 10, 32)
					ok = err == nil && same32(uint32(g), uint32(w.u))
					wantText = h32(uint32(w.u))
					if err == nil {
						got[k] = h32(uint32(g))
					}
					if isNaN32(uint32(w.u)) {
						nan++
					} else if isSub32(uint32(w.u)) {
						sub++
					}
				}
				if !ok {
					r.fail("l2:"+w.op, map[string]any{"layer": 2, "kind": p.kind, "expr": w.expr, "operands": rw.operands, "got": got[k], "want": wantText},
						"GnoVM %s with %s = %s, hardware IEEE-754 gives %s", w.expr, rw.operands, got[k], wantText)
				}
			}
		}
		if rw.nontriv {
			c.Distinct("l2/" + p.kind + "/" + rw.operands)
		}
	}
	if li != len(lines) {
		r.fail("l2:extra-output:"+p.kind, map[string]any{"layer": 2, "program": p.src}, "program %s printed %d lines, expected %d", p.kind, len(lines), li)
	}
	n := 0
	for k, v := range counts {
		c.Count("l2_op_"+k, v)
		n += v
	}
	c.Eval(n)
	c.Count("l2_result_nan", nan)
	c.Count("l2_result_subnormal", sub)
}
