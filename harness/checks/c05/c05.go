// Package c05: GnoVM floating point is bit-exact IEEE-754 (round-to-nearest-even).
//
// Oracle: the host's hardware arithmetic through native Go float32/float64
// operations and conversions (amd64 SSE2). NaN results are compared by class.
// Layer 1 calls the softfloat entry points directly (hook: gnolang.VerifSoftfloat);
// layer 2 runs generated Gno programs on the GnoVM so that the operator and
// conversion dispatch of op_binary.go / op_unary.go / op_inc_dec.go /
// values_conversions.go is what is measured.
package c05

import (
	"runtime"

	"verifharness/internal/vf"
)

func init() {
	vf.Register(&vf.Check{
		ID:    "C05",
		Level: "exploration",
		Rule: "layer 1 (direct softfloat calls): unary float32 ops (neg, widen, widen+narrow, to int32/int64/uint64 when in range, self-compare) and one derived-partner + - * / and compare per pattern, " +
			"on every 61st float32 pattern (offset = seed mod 61) plus 64-pattern neighbourhoods at both ends and the middle of all 512 binades in quick, on ALL 2^32 patterns in thorough; " +
			"+ - * / and five comparisons on the full cross product of a ~600-value structured set per width (zeros, subnormals, 2^e±1ulp, float32-tie positions, exponent edges, infinities, NaNs, seeded fill) and on seeded random pairs (1e6 quick / 1e8 thorough per width, a third correlated: neighbours, cancellation, alignment-boundary); " +
			"float64→float32 narrowing at midpoints between float32 neighbours ±1ulp64 and inside the float32 subnormal range; float64→int32/int64/uint64 in range; int→float32/float64 through every entry point for all 8/16-bit values, 2^k±d and half-ulp neighbourhoods, seeded random. " +
			"layer 2: Gno programs over the same kinds of tables (binary ops, op-assign, ++/--, conversions between every integer type and both float widths, narrowing/widening) executed on the GnoVM; every printed result compared with the native result. " +
			"evaluations = individual operation results compared; distinct_nontrivial = structured-set operand pairs (per width) and layer-2 table rows where an operand or a result is zero/subnormal/inf/NaN/at an exponent edge or a result is inexact (rounded)",
		Run: run,
	})
}

func run(c *vf.Ctx) {
	if runtime.GOARCH != "amd64" {
		c.Inconclusive("oracle is calibrated for amd64 SSE2 hardware arithmetic; GOARCH=" + runtime.GOARCH)
		return
	}
	r := &reporter{c: c, n: map[string]int{}}
	layer1(c, r)
	layer2(c, r)

	c.Assume("host amd64 SSE2 arithmetic through native Go float32/float64 operations is IEEE-754 round-to-nearest-even (the Go compiler does not fuse multiply-add on amd64)")
	c.Assume("NaN results are compared by class only (payload and sign ignored); float→integer conversions are compared only for operands whose truncation is representable in the target type")
	c.Assume("layer 2 feeds operands through math.Float64frombits/Float32frombits and reads results through math.Float64bits/Float32bits (native bindings)")

	for _, op := range opNames {
		c.RequireCounter("l1_op_"+op, 1000)
	}
	c.RequireCounter("l1_result_nan", 1000)
	c.RequireCounter("l1_result_subnormal", 1000)
	c.RequireCounter("l1_result_inf", 1000)
	c.RequireCounter("l1_result_zero", 1000)
	c.RequireCounter("l1_result_inexact", 100000)
	c.RequireCounter("l1_f2i_in_range", 100000)
	for _, k := range l2Kinds {
		c.RequireCounter("l2_op_"+k, 50)
	}
	c.RequireCounter("l2_programs_run", int64(c.N(6, 60)))
	c.RequireCounter("l2_result_nan", 20)
	c.RequireCounter("l2_result_subnormal", 20)
}
