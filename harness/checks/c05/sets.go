package c05

import (
	"math"
	"math/rand/v2"
	"sort"
)

// ---- bit-pattern classification (independent of the code under test) ----

func isNaN32(b uint32) bool { return b&0x7f800000 == 0x7f800000 && b&0x007fffff != 0 }
func isNaN64(b uint64) bool {
	return b&0x7ff0000000000000 == 0x7ff0000000000000 && b&0x000fffffffffffff != 0
}
func isInf32(b uint32) bool  { return b&0x7fffffff == 0x7f800000 }
func isInf64(b uint64) bool  { return b&0x7fffffffffffffff == 0x7ff0000000000000 }
func isZero32(b uint32) bool { return b&0x7fffffff == 0 }
func isZero64(b uint64) bool { return b&0x7fffffffffffffff == 0 }
func isSub32(b uint32) bool  { return b&0x7f800000 == 0 && b&0x007fffff != 0 }
func isSub64(b uint64) bool {
	return b&0x7ff0000000000000 == 0 && b&0x000fffffffffffff != 0
}

// special32/64: zero, subnormal, inf, NaN, or at an exponent edge (min/max normal binade).
func special32(b uint32) bool {
	e := b >> 23 & 0xff
	return e == 0 || e == 0xff || e == 1 || e == 0xfe
}

func special64(b uint64) bool {
	e := b >> 52 & 0x7ff
	return e == 0 || e == 0x7ff || e == 1 || e == 0x7fe
}

// same32/same64: result equality with NaN compared by class.
func same32(got, want uint32) bool {
	if isNaN32(want) {
		return isNaN32(got)
	}
	return got == want
}

func same64(got, want uint64) bool {
	if isNaN64(want) {
		return isNaN64(got)
	}
	return got == want
}

// ---- structured operand sets ----

func set64(rng *rand.Rand, target int, half int) []uint64 {
	m := map[uint64]struct{}{}
	add := func(b uint64) {
		m[b] = struct{}{}
		m[b^(1<<63)] = struct{}{}
	}
	addf := func(f float64) { add(math.Float64bits(f)) }
	// zeros, infinities, NaNs
	add(0)
	add(0x7ff0000000000000)
	for _, n := range []uint64{0x7ff8000000000000, 0x7ff0000000000001, 0x7fffffffffffffff, 0x7ff4000000000000, 0x7ff8000000000001} {
		add(n)
	}
	// subnormals
	for _, s := range []uint64{1, 2, 3, 4, 5, 0x000fffffffffffff, 0x000ffffffffffffe, 0x0008000000000000, 0x0007ffffffffffff, 0x0008000000000001, 0x0000000100000000, 0x00000000ffffffff, 0x0004000000000000, 0x000aaaaaaaaaaaaa, 0x0005555555555555} {
		add(s)
	}
	// min normal neighbourhood, max finite neighbourhood
	for d := uint64(0); d < 3; d++ {
		add(0x0010000000000000 + d)
		add(0x7fefffffffffffff - d)
		add(0x0020000000000000 - d)
		add(0x7fe0000000000000 + d)
		add(0x7fe0000000000000 - 1 - d)
	}
	// powers of two +- 1 ulp across the exponent range
	for i, e := range []int{-1022, -1021, -1000, -600, -538, -537, -512, -511, -150, -149, -127, -126, -100, -64, -63, -54, -53, -52, -51, -32, -25, -24, -23, -3, -2, -1, 0, 1, 2, 3, 10, 23, 24, 25, 31, 32, 33, 52, 53, 54, 62, 63, 64, 65, 100, 126, 127, 128, 129, 511, 512, 1000, 1021, 1022, 1023} {
		if half >= 0 && (i+half)%2 != 0 && e != 0 && e != -1022 && e != 1023 {
			continue // quick tier: every other exponent (which half depends on the seed)
		}
		b := uint64(e+1023) << 52
		add(b)
		add(b + 1)
		add(b - 1)
		add(b | 0x0008000000000000)     // 1.5 * 2^e
		add(b | 0x000fffffffffffff)     // all-ones mantissa
		add(b | 0x0008000000000001)     // just above 1.5
		add(b | 0x0000000010000000)     // float32 tie position (bit 28)
		add(b | 0x0000000030000000)     // odd float32 mantissa + tie
		add(b | 0x0000000010000001)     // just above the float32 tie
		add(b | 0x000000000fffffff)     // just below the float32 tie
		add(b | 0x000fffffe0000000 + 0) // max float32 mantissa
		add(b | 0x000ffffff0000000)     // max float32 mantissa + tie (carries)
	}
	// rounding-tie friendly mantissas and classic constants
	for _, f := range []float64{0.1, 0.2, 0.3, 0.7, 1.0 / 3, 2.0 / 3, math.Pi, math.E, math.Sqrt2, 10, 100, 1000, 1e15, 1e16, 1e22, 1e23, 1e-5, 1e-7, 1e100, 1e-100, 1e308, 1e-308, 5e-324, 3, 5, 7, 9, 255, 256, 32767, 32768, 65535, 65536,
		2147483647, 2147483648, 2147483649, 4294967295, 4294967296, 9007199254740991, 9007199254740992, 9007199254740994, 9223372036854774784, 9223372036854775808, 18446744073709549568, 18446744073709551616,
		16777215, 16777216, 16777217, 16777218, 16777219, 33554431, 33554433, 0.5, 0.25, 0.75, 1.25, 0.49999999999999994, 0.9999999999999999, 1.0000000000000002, 127.5, 128.5, -128.99, 255.99, 2147483647.99, 3.4028234663852886e38, 3.4028235677973366e38, 1.401298464324817e-45, 7.006492321624085e-46, 1.1754943508222875e-38} {
		addf(f)
	}
	for _, mant := range []uint64{0x0005555555555555, 0x000aaaaaaaaaaaaa, 0x0000000000000001, 0x000ffffffffffffe, 0x0007ffffffffffff, 0x0008000000000000} {
		for _, e := range []int{-1, 0, 1, 52, -52} {
			add(uint64(e+1023)<<52 | mant)
		}
	}
	return fill(m, rng, target, func(r *rand.Rand) uint64 { return rand64(r) })
}

func fill[T uint32 | uint64](m map[T]struct{}, rng *rand.Rand, target int, gen func(*rand.Rand) T) []T {
	out := make([]T, 0, len(m))
	for b := range m {
		out = append(out, b)
	}
	sort.Slice(out, func(i, j int) bool { return out[i] < out[j] })
	for len(out) < target {
		b := gen(rng)
		if _, ok := m[b]; ok {
			continue
		}
		m[b] = struct{}{}
		out = append(out, b)
	}
	return out
}

func set32(rng *rand.Rand, target int, half int) []uint32 {
	m := map[uint32]struct{}{}
	add := func(b uint32) {
		m[b] = struct{}{}
		m[b^(1<<31)] = struct{}{}
	}
	addf := func(f float32) { add(math.Float32bits(f)) }
	add(0)
	add(0x7f800000)
	for _, n := range []uint32{0x7fc00000, 0x7f800001, 0x7fffffff, 0x7fa00000, 0x7fc00001} {
		add(n)
	}
	for _, s := range []uint32{1, 2, 3, 4, 5, 0x007fffff, 0x007ffffe, 0x00400000, 0x003fffff, 0x00400001, 0x00010000, 0x0000ffff, 0x00200000, 0x00555555, 0x002aaaaa} {
		add(s)
	}
	for d := uint32(0); d < 3; d++ {
		add(0x00800000 + d)
		add(0x7f7fffff - d)
		add(0x01000000 - d)
		add(0x7f000000 + d)
		add(0x7f000000 - 1 - d)
	}
	for i, e := range []int{-126, -125, -120, -100, -76, -75, -64, -63, -50, -33, -32, -25, -24, -23, -22, -12, -11, -3, -2, -1, 0, 1, 2, 3, 7, 8, 10, 11, 12, 15, 16, 22, 23, 24, 25, 30, 31, 32, 33, 52, 53, 62, 63, 64, 65, 100, 125, 126, 127} {
		if half >= 0 && (i+half)%2 != 0 && e != 0 && e != -126 && e != 127 {
			continue
		}
		b := uint32(e+127) << 23
		add(b)
		add(b + 1)
		add(b - 1)
		add(b | 0x00400000)
		add(b | 0x007fffff)
		add(b | 0x00400001)
		add(b | 0x00000800)
		add(b | 0x00001800)
		add(b | 0x007ff000)
		add(b | 0x00555555)
	}
	for _, f := range []float32{0.1, 0.2, 0.3, 0.7, 1.0 / 3, 2.0 / 3, math.Pi, math.E, math.Sqrt2, 10, 100, 1000, 1e10, 1e-5, 1e-7, 1e38, 1e-38, 1e-45, 3, 5, 7, 9, 255, 256, 32767, 32768, 65535, 65536,
		2147483520, 2147483648, 4294967040, 4294967296, 9223371487098961920, 9223372036854775808, 18446742974197923840, 18446744073709551616,
		16777215, 16777216, 16777218, 8388607, 8388608, 8388609, 0.5, 0.25, 0.75, 1.25, 0.49999997, 0.99999994, 1.0000001, 127.5, 128.5, -128.99, 255.99, 4194303.8, 8388607.5} {
		addf(f)
	}
	return fill(m, rng, target, func(r *rand.Rand) uint32 { return rand32(r) })
}

// rand64 draws a bit pattern from a mixture: uniform bits, uniform exponent
// with sparse/dense mantissa, small integers, near-1 values.
func rand64(r *rand.Rand) uint64 {
	switch r.IntN(8) {
	case 0, 1, 2:
		return r.Uint64()
	case 3: // sparse mantissa
		return r.Uint64()&0xfff0000000000000 | (uint64(1)<<r.UintN(52))&0x000fffffffffffff | (uint64(1)<<r.UintN(52))&0x000fffffffffffff
	case 4: // dense mantissa
		return r.Uint64() | (0x000fffffffffffff &^ (uint64(1) << r.UintN(52)))
	case 5: // integer-valued
		v := int64(r.Uint64() >> r.UintN(64))
		if r.IntN(2) == 0 {
			v = -v
		}
		return math.Float64bits(float64(v))
	case 6: // moderate exponent (products/quotients stay finite)
		return r.Uint64()&0x800fffffffffffff | uint64(1023-40+r.IntN(80))<<52
	default: // subnormal / tiny / huge exponents
		e := []uint64{0, 0, 1, 2, 0x7fe, 0x7fd, 0x7ff}[r.IntN(7)]
		return r.Uint64()&0x800fffffffffffff | e<<52
	}
}

func rand32(r *rand.Rand) uint32 {
	switch r.IntN(8) {
	case 0, 1, 2:
		return r.Uint32()
	case 3:
		return r.Uint32()&0xff800000 | (uint32(1)<<r.UintN(23))&0x007fffff | (uint32(1)<<r.UintN(23))&0x007fffff
	case 4:
		return r.Uint32() | (0x007fffff &^ (uint32(1) << r.UintN(23)))
	case 5:
		v := int64(r.Uint64() >> r.UintN(64))
		if r.IntN(2) == 0 {
			v = -v
		}
		return math.Float32bits(float32(v))
	case 6:
		return r.Uint32()&0x807fffff | uint32(127-20+r.IntN(40))<<23
	default:
		e := []uint32{0, 0, 1, 2, 0xfe, 0xfd, 0xff}[r.IntN(7)]
		return r.Uint32()&0x807fffff | e<<23
	}
}

// pair64 draws a random operand pair; a third of the pairs are correlated
// (equal exponents, near-cancellation, tie-producing) so that add/sub exercise
// alignment shifts of every size.
func pair64(r *rand.Rand) (uint64, uint64) {
	a := rand64(r)
	switch r.IntN(6) {
	case 0: // neighbour in the same binade
		return a, a + uint64(r.IntN(9)) - 4
	case 1: // exponent offset by a small amount, opposite sign (cancellation)
		d := uint64(r.IntN(60))
		b := (a ^ 1<<63) - d<<52
		return a, b&^0x000fffffffffffff | r.Uint64()&0x000fffffffffffff
	case 2: // exponent offset near the 53/54-bit alignment boundary
		d := uint64(50 + r.IntN(8))
		return a, (a-d<<52)&0xfff0000000000000 | r.Uint64()&0x000fffffffffffff&^(r.Uint64()&r.Uint64())
	default:
		return a, rand64(r)
	}
}

func pair32(r *rand.Rand) (uint32, uint32) {
	a := rand32(r)
	switch r.IntN(6) {
	case 0:
		return a, a + uint32(r.IntN(9)) - 4
	case 1:
		d := uint32(r.IntN(30))
		b := (a ^ 1<<31) - d<<23
		return a, b&^0x007fffff | r.Uint32()&0x007fffff
	case 2:
		d := uint32(21 + r.IntN(8))
		return a, (a-d<<23)&0xff800000 | r.Uint32()&0x007fffff&^(r.Uint32()&r.Uint32())
	default:
		return a, rand32(r)
	}
}
