package c05

import (
	"fmt"
	"math"
	"math/rand/v2"
	"sync"

	gno "github.com/gnolang/gno/gnovm/pkg/gnolang"

	"verifharness/internal/vf"
)

var sf = &gno.VerifSoftfloat

// reporter rate-limits violations per key (a broken op fails on billions of cases).
type reporter struct {
	c  *vf.Ctx
	mu sync.Mutex
	n  map[string]int
}

func (r *reporter) fail(key string, w map[string]any, format string, args ...any) {
	r.mu.Lock()
	r.n[key]++
	k := r.n[key]
	r.mu.Unlock()
	if k > 5 {
		return
	}
	r.c.Violation(key, w, format, args...)
}

func h32(b uint32) string { return fmt.Sprintf("0x%08x", b) }
func h64(b uint64) string { return fmt.Sprintf("0x%016x", b) }

// local counters, flushed per chunk
type stats struct {
	evals                                    int64
	nanRes, subRes, infRes, zeroRes, inexact int64
	f2iInRange, f2iSkipped                   int64
	perOp                                    [nOps]int64
}

func (s *stats) flush(c *vf.Ctx) {
	c.Eval(int(s.evals))
	c.Count("l1_result_nan", int(s.nanRes))
	c.Count("l1_result_subnormal", int(s.subRes))
	c.Count("l1_result_inf", int(s.infRes))
	c.Count("l1_result_zero", int(s.zeroRes))
	c.Count("l1_result_inexact", int(s.inexact))
	c.Count("l1_f2i_in_range", int(s.f2iInRange))
	c.Count("l1_f2i_out_of_range_skipped", int(s.f2iSkipped))
	for k, v := range s.perOp {
		if v != 0 {
			c.Count("l1_op_"+opNames[k], int(v))
		}
	}
}

func (s *stats) op(id int, n int64) {
	s.perOp[id] += n
	s.evals += n
}

const (
	o_F32to64 = iota
	o_F32toint32
	o_F32toint64
	o_F32touint64
	o_F64to32
	o_F64toint
	o_F64toint32
	o_F64toint64
	o_F64touint64
	o_Fadd32
	o_Fadd64
	o_Fdiv32
	o_Fdiv64
	o_Fint32to32
	o_Fint32to64
	o_Fint64to32
	o_Fint64to64
	o_Fintto32
	o_Fintto64
	o_Fmul32
	o_Fmul64
	o_Fneg32
	o_Fneg64
	o_Fsub32
	o_Fsub64
	o_Fuint64to32
	o_Fuint64to64
	o_cmp32
	o_cmp64
	o_narrow_tie_probe
	nOps
)

var opNames = [nOps]string{"F32to64", "F32toint32", "F32toint64", "F32touint64", "F64to32", "F64toint", "F64toint32", "F64toint64", "F64touint64", "Fadd32", "Fadd64", "Fdiv32", "Fdiv64", "Fint32to32", "Fint32to64", "Fint64to32", "Fint64to64", "Fintto32", "Fintto64", "Fmul32", "Fmul64", "Fneg32", "Fneg64", "Fsub32", "Fsub64", "Fuint64to32", "Fuint64to64", "cmp32", "cmp64", "narrow_tie_probe"}

func (s *stats) res64(b uint64) {
	switch {
	case isNaN64(b):
		s.nanRes++
	case isInf64(b):
		s.infRes++
	case isZero64(b):
		s.zeroRes++
	case isSub64(b):
		s.subRes++
	}
}

func (s *stats) res32(b uint32) {
	switch {
	case isNaN32(b):
		s.nanRes++
	case isInf32(b):
		s.infRes++
	case isZero32(b):
		s.zeroRes++
	case isSub32(b):
		s.subRes++
	}
}

const (
	two31 = 2147483648.0
	two63 = 9223372036854775808.0
	two64 = 18446744073709551616.0
)

// ---------- unary float32 ----------

// unary32 checks every unary float32 entry point on pattern p.
func unary32(r *reporter, s *stats, p uint32) {
	f := math.Float32frombits(p)
	w := func() map[string]any { return map[string]any{"layer": 1, "x": h32(p)} }
	// negation
	if got, want := sf.Fneg32(p), math.Float32bits(-f); !same32(got, want) {
		r.fail("l1:Fneg32", w(), "Fneg32(%s)=%s want %s", h32(p), h32(got), h32(want))
	}
	// widening
	want64 := math.Float64bits(float64(f))
	got64 := sf.F32to64(p)
	if !same64(got64, want64) {
		r.fail("l1:F32to64", w(), "F32to64(%s)=%s want %s", h32(p), h64(got64), h64(want64))
	}
	// widen then narrow is the identity on non-NaN
	if got, want := sf.F64to32(want64), math.Float32bits(float32(float64(f))); !same32(got, want) {
		r.fail("l1:F64to32", w(), "F64to32(F32to64(%s))=%s want %s", h32(p), h32(got), h32(want))
	}
	s.op(o_Fneg32, 1)
	s.op(o_F32to64, 1)
	s.op(o_F64to32, 1)
	// float -> integer, in range only
	d := float64(f)
	if d >= -two31 && d < two31 {
		if got, want := sf.F32toint32(p), int32(f); got != want {
			r.fail("l1:F32toint32", w(), "F32toint32(%s)=%d want %d", h32(p), got, want)
		}
		s.op(o_F32toint32, 1)
		s.f2iInRange++
	} else {
		s.f2iSkipped++
	}
	if d >= -two63 && d < two63 {
		if got, want := sf.F32toint64(p), int64(f); got != want {
			r.fail("l1:F32toint64", w(), "F32toint64(%s)=%d want %d", h32(p), got, want)
		}
		s.op(o_F32toint64, 1)
		s.f2iInRange++
	} else {
		s.f2iSkipped++
	}
	if d > -1 && d < two64 {
		if got, want := sf.F32touint64(p), uint64(f); got != want {
			r.fail("l1:F32touint64", w(), "F32touint64(%s)=%d want %d", h32(p), got, want)
		}
		s.op(o_F32touint64, 1)
		s.f2iInRange++
	} else {
		s.f2iSkipped++
	}
	// comparison with itself
	cmp32(r, s, p, p)
}

func cmp32(r *reporter, s *stats, a, b uint32) {
	fa, fb := math.Float32frombits(a), math.Float32frombits(b)
	bad := ""
	switch {
	case sf.Feq32(a, b) != (fa == fb):
		bad = "Feq32"
	case sf.Fgt32(a, b) != (fa > fb):
		bad = "Fgt32"
	case sf.Fge32(a, b) != (fa >= fb):
		bad = "Fge32"
	case sf.Flt32(a, b) != (fa < fb):
		bad = "Flt32"
	case sf.Fle32(a, b) != (fa <= fb):
		bad = "Fle32"
	}
	if bad != "" {
		r.fail("l1:"+bad, map[string]any{"layer": 1, "x": h32(a), "y": h32(b)}, "%s(%s,%s) differs from hardware comparison", bad, h32(a), h32(b))
	}
	s.op(o_cmp32, 5)
}

func cmp64(r *reporter, s *stats, a, b uint64) {
	fa, fb := math.Float64frombits(a), math.Float64frombits(b)
	bad := ""
	switch {
	case sf.Feq64(a, b) != (fa == fb):
		bad = "Feq64"
	case sf.Fgt64(a, b) != (fa > fb):
		bad = "Fgt64"
	case sf.Fge64(a, b) != (fa >= fb):
		bad = "Fge64"
	case sf.Flt64(a, b) != (fa < fb):
		bad = "Flt64"
	case sf.Fle64(a, b) != (fa <= fb):
		bad = "Fle64"
	}
	if bad == "" {
		cmp, nan := sf.Fcmp64(a, b)
		wantNaN := fa != fa || fb != fb
		var wantCmp int32
		if !wantNaN {
			if fa < fb {
				wantCmp = -1
			} else if fa > fb {
				wantCmp = 1
			}
			if cmp != wantCmp {
				bad = "Fcmp64"
			}
		}
		if nan != wantNaN {
			bad = "Fcmp64"
		}
	}
	if bad != "" {
		r.fail("l1:"+bad, map[string]any{"layer": 1, "x": h64(a), "y": h64(b)}, "%s(%s,%s) differs from hardware comparison", bad, h64(a), h64(b))
	}
	s.op(o_cmp64, 6)
}

// ---------- binary ----------

// arith32 checks + - * / on one float32 pair; returns whether any result was
// inexact or special (non-triviality).
func arith32(r *reporter, s *stats, a, b uint32) (nontrivial bool) {
	fa, fb := math.Float32frombits(a), math.Float32frombits(b)
	type opr struct {
		name string
		got  uint32
		want float32
	}
	ops := [4]opr{
		{"Fadd32", sf.Fadd32(a, b), fa + fb},
		{"Fsub32", sf.Fsub32(a, b), fa - fb},
		{"Fmul32", sf.Fmul32(a, b), fa * fb},
		{"Fdiv32", sf.Fdiv32(a, b), fa / fb},
	}
	for i := range ops {
		o := &ops[i]
		want := math.Float32bits(o.want)
		if !same32(o.got, want) {
			r.fail("l1:"+o.name, map[string]any{"layer": 1, "op": o.name, "x": h32(a), "y": h32(b), "want": h32(want), "got": h32(o.got)},
				"%s(%s,%s)=%s want %s", o.name, h32(a), h32(b), h32(o.got), h32(want))
		}
		s.res32(want)
		if special32(want) {
			nontrivial = true
		}
	}
	// inexactness witnessed in float64 (every float32 op is exact or not in float64 up to one rounding)
	da, db := float64(fa), float64(fb)
	if float64(ops[0].want) != da+db || float64(ops[2].want) != da*db || float64(ops[3].want) != da/db {
		s.inexact++
		nontrivial = true
	}
	s.op(o_Fadd32, 1)
	s.op(o_Fsub32, 1)
	s.op(o_Fmul32, 1)
	s.op(o_Fdiv32, 1)
	return nontrivial || special32(a) || special32(b)
}

func arith64(r *reporter, s *stats, a, b uint64) (nontrivial bool) {
	fa, fb := math.Float64frombits(a), math.Float64frombits(b)
	type opr struct {
		name string
		got  uint64
		want float64
	}
	// NOTE: separate statements so the compiler cannot fuse a*b+c (amd64 never fuses implicitly anyway).
	sum := fa + fb
	dif := fa - fb
	prd := fa * fb
	quo := fa / fb
	ops := [4]opr{
		{"Fadd64", sf.Fadd64(a, b), sum},
		{"Fsub64", sf.Fsub64(a, b), dif},
		{"Fmul64", sf.Fmul64(a, b), prd},
		{"Fdiv64", sf.Fdiv64(a, b), quo},
	}
	for i := range ops {
		o := &ops[i]
		want := math.Float64bits(o.want)
		if !same64(o.got, want) {
			r.fail("l1:"+o.name, map[string]any{"layer": 1, "op": o.name, "x": h64(a), "y": h64(b), "want": h64(want), "got": h64(o.got)},
				"%s(%s,%s)=%s want %s", o.name, h64(a), h64(b), h64(o.got), h64(want))
		}
		s.res64(want)
		if special64(want) {
			nontrivial = true
		}
	}
	// inexactness: TwoSum error term for +, FMA residual for * and /
	if !math.IsInf(sum, 0) && !math.IsNaN(sum) {
		bb := sum - fa
		if e := (fa - (sum - bb)) + (fb - bb); e != 0 {
			s.inexact++
			nontrivial = true
		}
	}
	if !math.IsInf(prd, 0) && !math.IsNaN(prd) && math.FMA(fa, fb, -prd) != 0 {
		s.inexact++
		nontrivial = true
	}
	if !math.IsInf(quo, 0) && !math.IsNaN(quo) && !math.IsInf(fb, 0) && math.FMA(quo, fb, -fa) != 0 {
		s.inexact++
		nontrivial = true
	}
	s.op(o_Fadd64, 1)
	s.op(o_Fsub64, 1)
	s.op(o_Fmul64, 1)
	s.op(o_Fdiv64, 1)
	return nontrivial || special64(a) || special64(b)
}

// ---------- float64 unary: neg, narrowing, to-integer ----------

func unary64(r *reporter, s *stats, p uint64) {
	f := math.Float64frombits(p)
	w := func() map[string]any { return map[string]any{"layer": 1, "x": h64(p)} }
	if got, want := sf.Fneg64(p), math.Float64bits(-f); !same64(got, want) {
		r.fail("l1:Fneg64", w(), "Fneg64(%s)=%s want %s", h64(p), h64(got), h64(want))
	}
	want32 := math.Float32bits(float32(f))
	if got := sf.F64to32(p); !same32(got, want32) {
		r.fail("l1:F64to32", w(), "F64to32(%s)=%s want %s", h64(p), h32(got), h32(want32))
	}
	s.res32(want32)
	if float64(float32(f)) != f && f == f {
		s.inexact++
	}
	s.op(o_Fneg64, 1)
	s.op(o_F64to32, 1)
	if f > -two31-1 && f < two31 {
		if got, want := sf.F64toint32(p), int32(f); got != want {
			r.fail("l1:F64toint32", w(), "F64toint32(%s)=%d want %d", h64(p), got, want)
		}
		s.op(o_F64toint32, 1)
		s.f2iInRange++
	} else {
		s.f2iSkipped++
	}
	if f >= -two63 && f < two63 {
		want := int64(f)
		if got := sf.F64toint64(p); got != want {
			r.fail("l1:F64toint64", w(), "F64toint64(%s)=%d want %d", h64(p), got, want)
		}
		// F64toint is what the VM uses for float64 -> int; its value must agree for in-range input
		if got, _ := sf.F64toint(p); got != want {
			r.fail("l1:F64toint", w(), "F64toint(%s)=%d want %d", h64(p), got, want)
		}
		s.op(o_F64toint64, 1)
		s.op(o_F64toint, 1)
		s.f2iInRange++
	} else {
		s.f2iSkipped++
	}
	if f > -1 && f < two64 {
		if got, want := sf.F64touint64(p), uint64(f); got != want {
			r.fail("l1:F64touint64", w(), "F64touint64(%s)=%d want %d", h64(p), got, want)
		}
		s.op(o_F64touint64, 1)
		s.f2iInRange++
	} else {
		s.f2iSkipped++
	}
	cmp64(r, s, p, p)
}

// ---------- integer -> float ----------

func int2float(r *reporter, s *stats, v int64) {
	w := func() map[string]any { return map[string]any{"layer": 1, "int": fmt.Sprint(v)} }
	chk32 := func(id int, got uint32, want float32) {
		if wb := math.Float32bits(want); got != wb {
			r.fail("l1:"+opNames[id], w(), "%s(%d)=%s want %s", opNames[id], v, h32(got), h32(wb))
		}
		s.op(id, 1)
	}
	chk64 := func(id int, got uint64, want float64) {
		if wb := math.Float64bits(want); got != wb {
			r.fail("l1:"+opNames[id], w(), "%s(%d)=%s want %s", opNames[id], v, h64(got), h64(wb))
		}
		s.op(id, 1)
	}
	chk32(o_Fintto32, sf.Fintto32(v), float32(v))
	chk64(o_Fintto64, sf.Fintto64(v), float64(v))
	chk32(o_Fint64to32, sf.Fint64to32(v), float32(v))
	chk64(o_Fint64to64, sf.Fint64to64(v), float64(v))
	chk32(o_Fint32to32, sf.Fint32to32(int32(v)), float32(int32(v)))
	chk64(o_Fint32to64, sf.Fint32to64(int32(v)), float64(int32(v)))
	u := uint64(v)
	chk32(o_Fuint64to32, sf.Fuint64to32(u), float32(u))
	chk64(o_Fuint64to64, sf.Fuint64to64(u), float64(u))
	if float64(float32(v)) != float64(v) || int64(float64(v)) != v {
		s.inexact++
	}
}

// intBoundary: every 2^k ± d (d small and d near the float32/float64 half-ulp of 2^k), both signs.
func intBoundary() []int64 {
	m := map[int64]struct{}{}
	add := func(v uint64) { m[int64(v)] = struct{}{}; m[-int64(v)] = struct{}{} }
	for k := uint(0); k < 64; k++ {
		p := uint64(1) << k
		for d := uint64(0); d <= 4; d++ {
			add(p + d)
			add(p - d)
		}
		// rounding neighbourhoods: half-ulp for a 24-bit and a 53-bit significand
		for _, sig := range []uint{24, 53} {
			if k >= sig {
				half := uint64(1) << (k - sig)
				for _, mul := range []uint64{1, 2, 3, 5} {
					for d := uint64(0); d <= 2; d++ {
						add(p + mul*half + d)
						add(p + mul*half - d)
						add(p - mul*half/2 + d)
						add(p - mul*half/2 - d)
						add(2*p - mul*half + d)
						add(2*p - mul*half - d)
					}
				}
			}
		}
	}
	out := make([]int64, 0, len(m))
	for v := range m {
		out = append(out, v)
	}
	sortInt64(out)
	return out
}

func sortInt64(a []int64) {
	// small helper to keep order deterministic
	for i := 1; i < len(a); i++ {
		for j := i; j > 0 && a[j] < a[j-1]; j-- {
			a[j], a[j-1] = a[j-1], a[j]
		}
	}
}

func randInt(r *rand.Rand) int64 {
	v := r.Uint64()
	switch r.IntN(4) {
	case 0:
		v >>= r.UintN(64)
	case 1: // few significant bits then a low tail: lands near ties
		k := 1 + r.UintN(39)
		v = (v>>40)<<k | uint64(r.IntN(3))
		if r.IntN(2) == 0 {
			v |= 1 << (k - 1) // exactly half an ulp of the kept bits
		}
	case 2:
		v = v &^ (1<<r.UintN(64) - 1)
	}
	return int64(v)
}

// ---------- drivers ----------

// setHalf: thorough uses every exponent of the structured sets, quick every other one (seed picks the half).
func setHalf(c *vf.Ctx) int {
	if c.Quick() {
		return int(c.Seed & 1)
	}
	return -1
}

func layer1(c *vf.Ctx, r *reporter) {
	workers := 16
	// (a) unary float32 sweep
	type rng32 struct{ lo, hi uint64 } // [lo,hi)
	var chunks []rng32
	stride := uint64(1)
	offset := uint64(0)
	if c.Quick() {
		stride = 61 // odd: successive patterns differ in the low mantissa bits too
		offset = uint64(c.Seed) % stride
	} else {
		c.SetExhaustive(true)
	}
	const chunk = 1 << 22
	for lo := uint64(0); lo < 1<<32; lo += chunk {
		chunks = append(chunks, rng32{lo, lo + chunk})
	}
	c.Parallel(len(chunks), workers, 1000, func(i int, _ *rand.Rand) {
		var s stats
		ch := chunks[i]
		first := ch.lo + (stride-(ch.lo%stride)+offset)%stride
		for p := first; p < ch.hi; p += stride {
			unary32(r, &s, uint32(p))
			// a derived partner gives every pattern one binary evaluation too
			q := uint32(p*0x9e3779b1+0x7f4a7c15) ^ uint32(p>>7)
			arith32(r, &s, uint32(p), q)
			cmp32(r, &s, uint32(p), q)
		}
		s.flush(c)
	})
	// boundary neighbourhoods of every binade, both signs (quick and thorough)
	{
		var s stats
		for e := uint32(0); e < 256; e++ {
			for _, sign := range []uint32{0, 1 << 31} {
				base := sign | e<<23
				for d := uint32(0); d < 64; d++ {
					for _, p := range []uint32{base + d, base + 0x007fffff - d, base + 0x00400000 - 32 + d} {
						unary32(r, &s, p)
						arith32(r, &s, p, p)
						arith32(r, &s, p, p^1)
					}
				}
			}
		}
		s.flush(c)
		c.Count("l1_binade_neighbourhoods", 512)
	}
	c.Logf("layer1: float32 sweep done (stride %d), evaluations so far %d", stride, c.Counter("l1_op_Fneg32"))

	// (b) structured cross products
	s32 := set32(c.Rng(11), 600, setHalf(c))
	s64 := set64(c.Rng(12), 600, setHalf(c))
	c.Set("structured_set_sizes", map[string]int{"float32": len(s32), "float64": len(s64)})
	c.Parallel(len(s32), workers, 2000, func(i int, _ *rand.Rand) {
		var s stats
		a := s32[i]
		for _, b := range s32 {
			nt := arith32(r, &s, a, b)
			cmp32(r, &s, a, b)
			if nt {
				c.Distinct(fmt.Sprintf("f32/%08x/%08x", a, b))
			}
		}
		unary32(r, &s, a)
		s.flush(c)
	})
	c.Parallel(len(s64), workers, 3000, func(i int, _ *rand.Rand) {
		var s stats
		a := s64[i]
		for _, b := range s64 {
			nt := arith64(r, &s, a, b)
			cmp64(r, &s, a, b)
			if nt {
				c.Distinct(fmt.Sprintf("f64/%016x/%016x", a, b))
			}
		}
		unary64(r, &s, a)
		s.flush(c)
	})
	{
		a, b := s32[len(s32)/3+7], s32[2*len(s32)/3+5]
		c.Sample(map[string]any{"layer": 1, "op": "Fmul32", "x": h32(a), "y": h32(b), "result": h32(sf.Fmul32(a, b))})
		x, y := s64[len(s64)/3+7], s64[2*len(s64)/3+5]
		c.Sample(map[string]any{"layer": 1, "op": "Fdiv64", "x": h64(x), "y": h64(y), "result": h64(sf.Fdiv64(x, y))})
	}
	c.Logf("layer1: structured cross products done")

	// (c) random pairs
	nrand := c.N(1_000_000, 100_000_000)
	const per = 50_000
	c.Parallel(nrand/per, workers, 10_000, func(i int, rng *rand.Rand) {
		var s stats
		for k := 0; k < per; k++ {
			a, b := pair32(rng)
			arith32(r, &s, a, b)
			cmp32(r, &s, a, b)
			x, y := pair64(rng)
			arith64(r, &s, x, y)
			cmp64(r, &s, x, y)
			if k%8 == 0 {
				unary64(r, &s, x)
			}
		}
		s.flush(c)
	})
	c.Count("l1_random_pairs_per_width", nrand)
	c.Logf("layer1: random pairs done")

	// (d) narrowing float64 -> float32 at every float32 rounding boundary:
	// for float32 neighbours x < x' the midpoint m (exact in float64), m ± 1ulp64
	nNarrow := c.N(400_000, 40_000_000)
	c.Parallel(nNarrow/per, workers, 20_000_000, func(i int, rng *rand.Rand) {
		var s stats
		for k := 0; k < per; k++ {
			p := rand32(rng)
			if k%4 == 0 {
				p = s32[rng.IntN(len(s32))]
			}
			if isNaN32(p) || isInf32(p) {
				continue
			}
			lo := math.Float64bits(float64(math.Float32frombits(p)))
			mid := lo + 1<<28 // half a float32 ulp above |x| (normal range)
			for _, q := range []uint64{mid, mid - 1, mid + 1, lo + 1, lo - 1, lo + rng.Uint64()&(1<<29-1)} {
				unary64(r, &s, q)
			}
			s.op(o_narrow_tie_probe, 3)
		}
		s.flush(c)
	})
	// float64 values that narrow into the float32 subnormal range (a second rounding position)
	{
		var s stats
		rng := c.Rng(77)
		for k := 0; k < c.N(200_000, 5_000_000); k++ {
			e := uint64(1023 - 150 + rng.IntN(26))
			q := rng.Uint64()&0x800fffffffffffff | e<<52
			if k%3 == 0 { // exact ties of the subnormal grid: few mantissa bits
				q &^= (1<<uint(30+rng.IntN(22)) - 1)
			}
			unary64(r, &s, q)
		}
		s.flush(c)
	}
	c.Logf("layer1: narrowing done")

	// (e) integer -> float
	{
		var s stats
		for v := int64(math.MinInt16); v <= math.MaxUint16; v++ { // all 8/16-bit values, signed and unsigned
			int2float(r, &s, v)
		}
		bs := intBoundary()
		for _, v := range bs {
			int2float(r, &s, v)
		}
		c.Count("l1_int_boundary_values", len(bs))
		s.flush(c)
	}
	nInt := c.N(1_000_000, 50_000_000)
	c.Parallel(nInt/per, workers, 40_000_000, func(i int, rng *rand.Rand) {
		var s stats
		for k := 0; k < per; k++ {
			int2float(r, &s, randInt(rng))
		}
		s.flush(c)
	})
	c.Logf("layer1: int->float done")
}
