package c08

import (
	"encoding/hex"
	"fmt"
	"sort"
	"strings"

	"github.com/gnolang/gno/gno.land/pkg/gnoland"
	gno "github.com/gnolang/gno/gnovm/pkg/gnolang"
	"github.com/gnolang/gno/tm2/pkg/amino"
	"github.com/gnolang/gno/tm2/pkg/sdk/auth"
	"github.com/gnolang/gno/tm2/pkg/sdk/bank"
	"github.com/gnolang/gno/tm2/pkg/std"

	"verifharness/internal/audit"
	"verifharness/internal/chainsim"
	"verifharness/internal/hist"
	"verifharness/internal/monitors"
)

// PkgSpec is one package deployed at genesis (single source file).
type PkgSpec struct {
	Path string `json:"path"`
	Body string `json:"body"`
}

func pkgName(path string) string { return path[strings.LastIndex(path, "/")+1:] }

// Start boots a chain: funded users, funded realm addresses, packages deployed
// at genesis by deployer (block 1 persists genesis).
func Start(pkgs []PkgSpec, deployer map[string]string, users []string, extra []gnoland.Balance) (*chainsim.Chain, error) {
	ch, err := chainsim.New(chainsim.Options{})
	if err != nil {
		return nil, err
	}
	st := ch.DefaultGenState(users...)
	st.Balances = append(st.Balances, extra...)
	for _, p := range pkgs {
		st.Txs = append(st.Txs, chainsim.GenesisAddPkgTx(ch.Acc(deployer[p.Path]), p.Path, map[string]string{pkgName(p.Path) + ".gno": p.Body}))
	}
	r := ch.InitChain(st)
	if r.Error != nil {
		ch.Close()
		return nil, fmt.Errorf("initchain: %s", r.Error.Error())
	}
	for i, tr := range r.TxResponses {
		if tr.Error != nil {
			ch.Close()
			return nil, fmt.Errorf("genesis tx %d (%s) failed: %s\n%s", i, pkgs[i].Path, tr.Error.Error(), tr.Log)
		}
	}
	ch.RunBlock()
	return ch, nil
}

// OneTx plays a single transaction in its own block.
func OneTx(ch *chainsim.Chain, t hist.TxSpec) *chainsim.TxResult {
	ch.BeginBlock()
	tr := hist.PlayTx(ch, t)
	ch.EndBlockCommit()
	return tr
}

func prefixEnd(p string) []byte {
	e := []byte(p)
	e[len(e)-1]++
	return e
}

// ReadCoins decodes every account, split balance and supply record of the
// committed main store (independent of the bank keeper).
func ReadCoins(v *audit.View) *monitors.Ledger {
	kv := &audit.KV{M: map[string][]byte{}}
	st := v.Main()
	for _, p := range []string{auth.AddressStoreKeyPrefix, bank.BalancePrefix, bank.SupplyPrefix} {
		it := st.Iterator(nil, []byte(p), prefixEnd(p))
		for ; it.Valid(); it.Next() {
			k := string(it.Key())
			kv.Keys = append(kv.Keys, k)
			kv.M[k] = append([]byte(nil), it.Value()...)
		}
		it.Close()
	}
	sort.Strings(kv.Keys)
	return monitors.ReadLedger(kv, map[string]bool{"ugnot": true})
}

// RealmStorage reads the recorded storage of a realm from its #realm record.
func RealmStorage(v *audit.View, pkgPath string) (uint64, bool) {
	pid := gno.PkgIDFromPkgPath(pkgPath)
	rr := v.Base().Get(nil, []byte("oid:"+hex.EncodeToString(pid.Hashlet[:])+":1#realm"))
	if rr == nil {
		return 0, false
	}
	var rlm *gno.Realm
	if err := amino.Unmarshal(rr, &rlm); err != nil || rlm == nil {
		return 0, false
	}
	return rlm.Storage, true
}

func realmBalance(path string, amt int64) gnoland.Balance {
	return gnoland.Balance{Address: hist.RealmAddr(path), Amount: std.Coins{{Denom: "ugnot", Amount: amt}}}
}

func clip(s string, n int) string {
	if len(s) > n {
		return s[:n] + "…"
	}
	return s
}
