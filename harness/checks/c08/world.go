package c08

import (
	"strings"

	"verifharness/internal/chainsim"
	"verifharness/internal/hist"
)

const base = "gno.land/r/c08/"

// MintDenom is the realm denomination issued by the mint realm.
const MintDenom = "/gno.land/r/c08/mint:tok"

// Users: alice deploys the victims, bob signs "victim calls the attacker's
// realm" transactions, carol only holds coins, mallory is the attacker.
var Users = []string{"alice", "bob", "carol", "mallory"}

// hooks: every victim realm invokes caller-supplied function values — it
// never passes its own realm value to anybody and (vault, vaultb) never
// instantiates a banker.
const hooksSrc = `
type Hook interface {
	Before(cur realm)
	After()
}

func Poke(cur realm, f func(realm))                { f(cross(cur)) }
func PokePlain(cur realm, f func())                { f() }
func PokeBoth(cur realm, f func(realm), g func())  { f(cross(cur)); g() }
func PokeDefer(cur realm, f func(realm), g func()) { defer g(); f(cross(cur)) }
func Tell(cur realm, h Hook)                       { h.Before(cross(cur)); h.After() }
func Plain(f func())                               { f() }
`

const vaultSrc = `package vault

var Hits int

func Deposit(cur realm) { Hits++ }
` + hooksSrc

const vaultbSrc = `package vaultb

var Hits int

func Deposit(cur realm) { Hits++ }
` + hooksSrc

// payer spends its own coins through bankers it instantiates for itself
// (positive controls), ugnot and the mint denomination it holds.
const payerSrc = `package payer

import (
	"chain"
	"chain/banker"
)

var Paid int64

func Pay(cur realm, to address, amt int64) {
	b := banker.NewBanker(banker.BankerTypeRealmSend, cur)
	b.SendCoins(cur.Address(), to, chain.Coins{chain.NewCoin("ugnot", amt)})
	Paid += amt
}

func PayTok(cur realm, to address, amt int64) {
	b := banker.NewBanker(banker.BankerTypeRealmSend, cur)
	b.SendCoins(cur.Address(), to, chain.Coins{chain.NewCoin("` + MintDenom + `", amt)})
}

func PaySub(cur realm, to address, amt int64) {
	sub := cur.Sub("treasury")
	b := banker.NewBanker(banker.BankerTypeRealmSend, sub)
	b.SendCoins(sub.Address(), to, chain.Coins{chain.NewCoin("ugnot", amt)})
}
` + hooksSrc

// osend only ever spends the coins attached to the user call that reached it.
const osendSrc = `package osend

import (
	"chain"
	"chain/banker"
)

var Kept int

func Keep(cur realm) { Kept++ }

func Refund(cur realm, amt int64) {
	b := banker.NewBanker(banker.BankerTypeOriginSend, cur)
	b.SendCoins(cur.Address(), cur.Previous().Address(), chain.Coins{chain.NewCoin("ugnot", amt)})
}

// RefundTwice sends amt back and then tries the same again (recovering from the refusal).
func RefundTwice(cur realm, amt int64) {
	b := banker.NewBanker(banker.BankerTypeOriginSend, cur)
	b.SendCoins(cur.Address(), cur.Previous().Address(), chain.Coins{chain.NewCoin("ugnot", amt)})
	func() {
		defer func() { recover() }()
		b.SendCoins(cur.Address(), cur.Previous().Address(), chain.Coins{chain.NewCoin("ugnot", amt)})
	}()
	func() {
		defer func() { recover() }()
		b2 := banker.NewBanker(banker.BankerTypeOriginSend, cur)
		b2.SendCoins(cur.Address(), cur.Previous().Address(), chain.Coins{chain.NewCoin("ugnot", amt)})
	}()
}
` + hooksSrc

// shop is payable: a direct user call that attaches >= 1000ugnot gets 10ugnot back.
const shopSrc = `package shop

import (
	"chain"
	"chain/banker"
	"chain/runtime/unsafe"
)

var Sold int

func Buy(cur realm) {
	if !cur.Previous().IsUserCall() {
		panic("shop: direct user calls only")
	}
	if unsafe.OriginSend().AmountOf("ugnot") < 1000 {
		panic("shop: price is 1000ugnot")
	}
	Sold++
	b := banker.NewBanker(banker.BankerTypeRealmSend, cur)
	b.SendCoins(cur.Address(), cur.Previous().Address(), chain.Coins{chain.NewCoin("ugnot", 10)})
}
` + hooksSrc

// mint issues and burns its own denomination.
const mintSrc = `package mint

import "chain/banker"

func Issue(cur realm, to address, amt int64) int64 {
	b := banker.NewBanker(banker.BankerTypeRealmIssue, cur)
	b.IssueCoin(to, "` + MintDenom + `", amt)
	return b.TotalCoin("` + MintDenom + `")
}

func Burn(cur realm, from address, amt int64) int64 {
	b := banker.NewBanker(banker.BankerTypeRealmIssue, cur)
	b.RemoveCoin(from, "` + MintDenom + `", amt)
	return b.TotalCoin("` + MintDenom + `")
}
` + hooksSrc

// attacker libraries deployed by mallory: a realm and a pure package that
// build bankers from realm values handed to them.
const rlibxSrc = `package rlibx

import (
	"chain"
	"chain/banker"
)

func Use(_ int, r realm, bt int, to address, denom string, amt int64) {
	b := banker.NewBanker(banker.BankerType(bt), r)
	b.SendCoins(r.Address(), to, chain.Coins{chain.NewCoin(denom, amt)})
}

func UseX(cur realm, r realm, bt int, to address, denom string, amt int64) {
	b := banker.NewBanker(banker.BankerType(bt), r)
	b.SendCoins(r.Address(), to, chain.Coins{chain.NewCoin(denom, amt)})
}
`

const plibxSrc = `package plibx

import (
	"chain"
	"chain/banker"
)

func Use(_ int, r realm, bt int, to address, denom string, amt int64) {
	b := banker.NewBanker(banker.BankerType(bt), r)
	b.SendCoins(r.Address(), to, chain.Coins{chain.NewCoin(denom, amt)})
}

type Keeper struct{ R realm }

func (k *Keeper) Spend(bt int, to address, denom string, amt int64) {
	b := banker.NewBanker(banker.BankerType(bt), k.R)
	b.SendCoins(k.R.Address(), to, chain.Coins{chain.NewCoin(denom, amt)})
}
`

// victim realms with coins, in deployment order
var victimRealms = []string{"vault", "vaultb", "payer", "osend", "shop", "mint"}

var victimSrc = map[string]string{"vault": vaultSrc, "vaultb": vaultbSrc, "payer": payerSrc, "osend": osendSrc, "shop": shopSrc, "mint": mintSrc}

const payerSubPath = base + "payer#treasury"

// World returns the genesis packages and who deploys them.
func World() ([]PkgSpec, map[string]string) {
	var pkgs []PkgSpec
	dep := map[string]string{}
	add := func(path, src, who string) {
		pkgs = append(pkgs, PkgSpec{path, src})
		dep[path] = who
	}
	for _, v := range victimRealms {
		add(base+v, victimSrc[v], "alice")
	}
	add("gno.land/p/c08/plibx", plibxSrc, "mallory")
	add(base+"rlibx", rlibxSrc, "mallory")
	return pkgs, dep
}

func userAddr(name string) string  { return chainsim.NewAccount(name).Addr.String() }
func realmAddr(name string) string { return hist.RealmAddr(base + name).String() }

// expand substitutes $user$ / $realm$ placeholders by bech32 addresses.
func expand(s string) string {
	for _, u := range Users {
		s = strings.ReplaceAll(s, "$"+u+"$", userAddr(u))
	}
	for _, v := range victimRealms {
		s = strings.ReplaceAll(s, "$"+v+"$", realmAddr(v))
	}
	return s
}
