package c08

import (
	"fmt"
	"math/rand/v2"
	"sort"
	"strings"
)

// Attack is one generated attempt to move, mint or burn coins of an address
// the attacker has no authority over.
type Attack struct {
	ID      int    `json:"id"`
	Tech    string `json:"technique"`
	Target  string `json:"target"` // victim realm or user
	BT      string `json:"banker_type,omitempty"`
	Action  string `json:"action"`
	Wrap    string `json:"wrap,omitempty"`
	Agent   string `json:"agent"` // call | victim-call | run | direct
	Send    int64  `json:"send,omitempty"`
	Decls   string `json:"decls,omitempty"`  // declarations inside the attacker realm pack
	Script  string `json:"script,omitempty"` // MsgRun body (agent run without pack)
	Direct  []string `json:"direct,omitempty"` // direct MsgCall: pkg, func, args...
	Pre     string `json:"pre,omitempty"`    // entry function a victim user calls first (stale-persisted)
	Finding string `json:"finding,omitempty"`
	NeedsPack bool `json:"-"`
}

func (a *Attack) Key() string {
	return strings.Join([]string{a.Tech, a.Target, a.BT, a.Action, a.Wrap, a.Agent, fmt.Sprint(a.Send)}, "|")
}

var btNum = map[string]int{"OriginSend": 1, "RealmSend": 2, "RealmIssue": 3}

const amtSteal = 4321

// spendCode renders statements that use realm expression R to move value.
func spendCode(R, bt, action string, id int) (code string, imports []string) {
	loot := `address("` + userAddr("mallory") + `")`
	B := fmt.Sprintf("b%d", id)
	switch action {
	case "send-ugnot":
		return fmt.Sprintf("%s := banker.NewBanker(banker.BankerType%s, %s)\n%s.SendCoins(%s.Address(), %s, chain.Coins{chain.NewCoin(\"ugnot\", %d)})", B, bt, R, B, R, loot, amtSteal), []string{"chain", "chain/banker"}
	case "send-tok":
		return fmt.Sprintf("%s := banker.NewBanker(banker.BankerType%s, %s)\n%s.SendCoins(%s.Address(), %s, chain.Coins{chain.NewCoin(\"%s\", 3)})", B, bt, R, B, R, loot, MintDenom), []string{"chain", "chain/banker"}
	case "burn-tok":
		return fmt.Sprintf("%s := banker.NewBanker(banker.BankerTypeRealmIssue, %s)\n%s.RemoveCoin(%s.Address(), \"%s\", 2)", B, R, B, R, MintDenom), []string{"chain/banker"}
	case "issue-tok":
		return fmt.Sprintf("%s := banker.NewBanker(banker.BankerTypeRealmIssue, %s)\n%s.IssueCoin(%s, \"%s\", 50)", B, R, B, loot, MintDenom), []string{"chain/banker"}
	case "via-rlibx":
		return fmt.Sprintf("rlibx.Use(0, %s, %d, %s, \"ugnot\", %d)", R, btNum[bt], loot, amtSteal), []string{base + "rlibx"}
	case "via-plibx":
		return fmt.Sprintf("plibx.Use(0, %s, %d, %s, \"ugnot\", %d)", R, btNum[bt], loot, amtSteal), []string{"gno.land/p/c08/plibx"}
	case "via-plibx-keeper":
		return fmt.Sprintf("k%d := &plibx.Keeper{R: %s}\nk%d.Spend(%d, %s, \"ugnot\", %d)", id, R, id, btNum[bt], loot, amtSteal), []string{"gno.land/p/c08/plibx"}
	}
	panic("unknown action " + action)
}

var spendActions = []string{"send-ugnot", "send-tok", "burn-tok", "issue-tok", "via-rlibx", "via-plibx", "via-plibx-keeper"}
var wraps = []string{"plain", "helper", "closure", "defer", "recover", "method"}
var bts = []string{"RealmSend", "OriginSend", "RealmIssue"}

func ind(s string, n int) string {
	pad := strings.Repeat("\t", n)
	return pad + strings.ReplaceAll(s, "\n", "\n"+pad)
}

// wrapSpend wraps spend statements; returns top-level decls and the statements.
func wrapSpend(wrap, R, bt, action string, id int) (decls, stmts string, imports []string) {
	switch wrap {
	case "plain":
		c, im := spendCode(R, bt, action, id)
		return "", c, im
	case "helper":
		c, im := spendCode("r", bt, action, id)
		return fmt.Sprintf("func drain%d(_ int, r realm) {\n%s\n}\n", id, ind(c, 1)), fmt.Sprintf("drain%d(0, %s)", id, R), im
	case "closure":
		c, im := spendCode(R, bt, action, id)
		return "", "func() {\n" + ind(c, 1) + "\n}()", im
	case "defer":
		c, im := spendCode(R, bt, action, id)
		return "", "defer func() {\n" + ind(c, 1) + "\n}()", im
	case "recover":
		c, im := spendCode(R, bt, action, id)
		return "", "func() {\n\tdefer func() { recover() }()\n" + ind(c, 1) + "\n}()", im
	case "method":
		c, im := spendCode("d.r", bt, action, id)
		return fmt.Sprintf("type D%d struct{ r realm }\n\nfunc (d D%d) Do() {\n%s\n}\n", id, id, ind(c, 1)), fmt.Sprintf("D%d{%s}.Do()", id, R), im
	}
	panic("unknown wrap " + wrap)
}

// techniques that need a victim realm target (realm alias T)
var realmTechs = []string{"prev-in-hook", "prev-in-iface-hook", "stolen-live-pokeboth", "stolen-live-iface", "stolen-live-defer", "stolen-used-after-return", "stolen-used-in-new-frame", "stolen-sub", "reentry-own-cur"}

func buildRealmTech(tech, T, bt, action, wrap string, id int) (decls string, imports []string, finding string) {
	R := "cur.Previous()"
	switch tech {
	case "stolen-live-pokeboth", "stolen-live-iface", "stolen-live-defer", "stolen-used-after-return", "stolen-used-in-new-frame", "stolen-sub":
		R = "stolen"
	case "reentry-own-cur":
		R = "cur"
	}
	if tech == "stolen-live-iface" {
		R = "h.stolen"
	}
	var d, s string
	var im []string
	if tech == "stolen-sub" {
		s = "sub := stolen.Sub(\"treasury\")\n"
		d2, s2, im2 := wrapSpend(wrap, "sub", bt, action, id)
		d, s, im = d2, s+s2, im2
	} else {
		d, s, im = wrapSpend(wrap, R, bt, action, id)
	}
	im = append(im, base+T)
	A := fmt.Sprintf("A%d", id)
	switch tech {
	case "prev-in-hook":
		decls = d + fmt.Sprintf("\nfunc %s(cur realm) {\n\t%s.Poke(cross(cur), func(cur realm) {\n%s\n\t})\n}\n", A, T, ind(s, 2))
	case "prev-in-iface-hook":
		decls = d + fmt.Sprintf("\ntype H%d struct{ n int }\n\nfunc (h *H%d) Before(cur realm) {\n%s\n}\nfunc (h *H%d) After() {}\n\nfunc %s(cur realm) { %s.Tell(cross(cur), &H%d{}) }\n", id, id, ind(s, 1), id, A, T, id)
	case "stolen-live-pokeboth":
		finding = "stolen-live-cur-via-callbacks"
		decls = d + fmt.Sprintf("\nfunc %s(cur realm) {\n\tvar stolen realm\n\thook := func(cur realm) { stolen = cur.Previous() }\n\tcb := func() {\n%s\n\t}\n\t%s.PokeBoth(cross(cur), hook, cb)\n}\n", A, ind(s, 2), T)
	case "stolen-live-defer":
		finding = "stolen-live-cur-via-callbacks"
		decls = d + fmt.Sprintf("\nfunc %s(cur realm) {\n\tvar stolen realm\n\thook := func(cur realm) { stolen = cur.Previous() }\n\tcb := func() {\n%s\n\t}\n\t%s.PokeDefer(cross(cur), hook, cb)\n}\n", A, ind(s, 2), T)
	case "stolen-live-iface":
		finding = "stolen-live-cur-via-callbacks"
		decls = d + fmt.Sprintf("\ntype H%d struct{ stolen realm }\n\nfunc (h *H%d) Before(cur realm) { h.stolen = cur.Previous() }\nfunc (h *H%d) After() {\n%s\n}\n\nfunc %s(cur realm) { %s.Tell(cross(cur), &H%d{}) }\n", id, id, id, ind(s, 1), A, T, id)
	case "stolen-used-after-return":
		decls = d + fmt.Sprintf("\nfunc %s(cur realm) {\n\tvar stolen realm\n\t%s.Poke(cross(cur), func(cur realm) { stolen = cur.Previous() })\n%s\n}\n", A, T, ind(s, 1))
	case "stolen-used-in-new-frame":
		decls = d + fmt.Sprintf("\nfunc %s(cur realm) {\n\tvar stolen realm\n\t%s.Poke(cross(cur), func(cur realm) { stolen = cur.Previous() })\n\t%s.PokePlain(cross(cur), func() {\n%s\n\t})\n}\n", A, T, T, ind(s, 2))
	case "stolen-sub":
		decls = d + fmt.Sprintf("\nfunc %s(cur realm) {\n\tvar stolen realm\n\thook := func(cur realm) { stolen = cur.Previous() }\n\tcb := func() {\n%s\n\t}\n\t%s.PokeBoth(cross(cur), hook, cb)\n}\n", A, ind(s, 2), T)
	case "reentry-own-cur":
		decls = d + fmt.Sprintf("\nfunc %s(cur realm) {\n\t%s.PokePlain(cross(cur), func() {\n%s\n\t})\n}\n", A, T, ind(s, 2))
	}
	return decls, im, finding
}

// packSource renders an attacker realm.
func packSource(name string, as []*Attack, imps map[int][]string) string {
	set := map[string]bool{}
	var body strings.Builder
	for _, a := range as {
		for _, i := range imps[a.ID] {
			set[i] = true
		}
		body.WriteString(a.Decls)
		body.WriteString("\n")
	}
	var is []string
	for i := range set {
		is = append(is, i)
	}
	sort.Strings(is)
	s := "package " + name + "\n\nimport (\n"
	for _, i := range is {
		s += "\t\"" + i + "\"\n"
	}
	return s + ")\n\n" + body.String()
}

type planT struct {
	attacks []*Attack
	imports map[int][]string
}

func pick[T any](r *rand.Rand, xs []T) T { return xs[r.IntN(len(xs))] }

// buildPlan generates n attacks (deterministic in rng), every technique in turn.
func buildPlan(rng *rand.Rand, n int) *planT {
	pl := &planT{imports: map[int][]string{}}
	seen := map[string]bool{}
	id := 0
	add := func(a *Attack, imps []string) bool {
		if a.Action == "burn-tok" || a.Action == "issue-tok" {
			a.BT = "RealmIssue"
		}
		if seen[a.Key()] {
			return false
		}
		seen[a.Key()] = true
		pl.attacks = append(pl.attacks, a)
		pl.imports[a.ID] = imps
		return true
	}
	techs := append(append([]string{}, realmTechs...), "prev-user", "foreign-from", "stale-persisted", "origin-send", "denom")
	holders := []string{"bob", "carol", "alice", "vault", "vaultb", "payer", "osend", "shop", "mint"}
	addrOf := func(h string) string {
		for _, u := range Users {
			if u == h {
				return userAddr(h)
			}
		}
		return realmAddr(h)
	}
	loot := `address("` + userAddr("mallory") + `")`
	tries, nFinding := 0, 0
	for len(pl.attacks) < n && tries < n*40 {
		tries++
		tech := techs[tries%len(techs)]
		id++
		a := &Attack{ID: id, Tech: tech, Agent: "call", NeedsPack: true}
		A := fmt.Sprintf("A%d", id)
		switch tech {
		case "prev-user":
			a.Target, a.BT, a.Action, a.Wrap = "bob", pick(rng, bts), pick(rng, spendActions), pick(rng, wraps)
			a.Agent = "victim-call"
			if rng.IntN(2) == 0 {
				a.Send = 1000
			}
			d, s, im := wrapSpend(a.Wrap, "cur.Previous()", a.BT, a.Action, id)
			a.Decls = d + fmt.Sprintf("\nfunc %s(cur realm) {\n%s\n}\n", A, ind(s, 1))
			add(a, im)
		case "foreign-from":
			a.Target, a.BT, a.Wrap = pick(rng, holders), pick(rng, bts), pick(rng, []string{"plain", "closure", "defer", "recover"})
			a.Action = pick(rng, []string{"send-ugnot", "send-tok"})
			denom, amt := "ugnot", amtSteal
			if a.Action == "send-tok" {
				denom, amt = MintDenom, 3
			}
			c := fmt.Sprintf("b := banker.NewBanker(banker.BankerType%s, cur)\nb.SendCoins(address(\"%s\"), %s, chain.Coins{chain.NewCoin(\"%s\", %d)})", a.BT, addrOf(a.Target), loot, denom, amt)
			switch a.Wrap {
			case "closure":
				c = "func() {\n" + ind(c, 1) + "\n}()"
			case "defer":
				c = "defer func() {\n" + ind(c, 1) + "\n}()"
			case "recover":
				c = "func() {\n\tdefer func() { recover() }()\n" + ind(c, 1) + "\n}()"
			}
			a.Agent = pick(rng, []string{"call", "run", "victim-call"})
			a.Decls = fmt.Sprintf("func %s(cur realm) {\n%s\n}\n", A, ind(c, 1))
			add(a, []string{"chain", "chain/banker"})
		case "stale-persisted":
			a.Target, a.BT, a.Action, a.Wrap = "bob", pick(rng, bts), pick(rng, spendActions), pick(rng, wraps)
			d, s, im := wrapSpend(a.Wrap, fmt.Sprintf("stash%d", id), a.BT, a.Action, id)
			a.Pre = fmt.Sprintf("S%d", id)
			a.Decls = d + fmt.Sprintf("\nvar stash%d realm\n\nfunc S%d(cur realm) { stash%d = cur.Previous() }\n\nfunc %s(cur realm) {\n%s\n}\n", id, id, id, A, ind(s, 1))
			add(a, im)
		case "origin-send":
			a.Target, a.BT = pick(rng, []string{"osend", "shop"}), "OriginSend"
			a.Send = int64(500 + 100*rng.IntN(20))
			osVariants := []string{"run-refund", "via-realm-refund", "direct-over-limit", "direct-refund-twice", "run-own-origin-banker", "run-shop-buy", "via-realm-shop-buy", "run-refund-twice", "run-consume-then-buy", "direct-over-limit"}
			variant := osVariants[(tries/len(techs))%len(osVariants)]
			a.Action = variant
			switch variant {
			case "run-refund", "run-refund-twice":
				a.Target, a.Agent, a.NeedsPack = "osend", "run", false
				fn := "Refund"
				if variant == "run-refund-twice" {
					fn = "RefundTwice"
				}
				a.Script = fmt.Sprintf("package main\n\nimport \"%sosend\"\n\nfunc main(cur realm) {\n\tosend.%s(cross(cur), %d)\n}\n", base, fn, a.Send)
				add(a, nil)
			case "via-realm-refund":
				a.Target = "osend"
				a.Decls = fmt.Sprintf("func %s(cur realm) { osend.Refund(cross(cur), %d) }\n", A, a.Send)
				add(a, []string{base + "osend"})
			case "direct-over-limit":
				a.Target, a.Agent, a.NeedsPack = "osend", "direct", false
				a.Direct = []string{base + "osend", "Refund", fmt.Sprint(a.Send + 1 + int64(rng.IntN(5000)))}
				add(a, nil)
			case "direct-refund-twice":
				a.Target, a.Agent, a.NeedsPack = "osend", "direct", false
				a.Direct = []string{base + "osend", "RefundTwice", fmt.Sprint(a.Send/2 + 1)}
				add(a, nil)
			case "run-own-origin-banker":
				a.Target, a.Agent, a.NeedsPack = pick(rng, []string{"osend", "vault"}), "run", false
				a.Script = expand(fmt.Sprintf("package main\n\nimport (\n\t\"chain\"\n\t\"chain/banker\"\n)\n\nfunc main(cur realm) {\n\tb := banker.NewBanker(banker.BankerTypeOriginSend, cur)\n\tb.SendCoins(address(\"$%s$\"), %s, chain.Coins{chain.NewCoin(\"ugnot\", %d)})\n}\n", a.Target, loot, a.Send))
				add(a, nil)
			case "run-shop-buy":
				a.Target, a.Agent, a.NeedsPack = "shop", "run", false
				a.Send = 1000 + int64(rng.IntN(3))*1000
				a.Script = fmt.Sprintf("package main\n\nimport \"%sshop\"\n\nfunc main(cur realm) {\n\tshop.Buy(cross(cur))\n}\n", base)
				add(a, nil)
			case "run-consume-then-buy":
				a.Target, a.Agent, a.NeedsPack = "shop", "run", false
				a.Send = 1000 + int64(rng.IntN(3))*1000
				a.Script = fmt.Sprintf("package main\n\nimport (\n\t\"chain\"\n\t\"chain/banker\"\n\n\t\"%sshop\"\n)\n\nfunc main(cur realm) {\n\tfunc() {\n\t\tdefer func() { recover() }()\n\t\tb := banker.NewBanker(banker.BankerTypeOriginSend, cur)\n\t\tb.SendCoins(cur.Address(), %s, chain.Coins{chain.NewCoin(\"ugnot\", %d)})\n\t}()\n\tshop.Buy(cross(cur))\n}\n", base, loot, a.Send)
				add(a, nil)
			case "via-realm-shop-buy":
				a.Target = "shop"
				a.Send = 1000 + int64(rng.IntN(3))*1000
				a.Decls = fmt.Sprintf("func %s(cur realm) { shop.Buy(cross(cur)) }\n", A)
				add(a, []string{base + "shop"})
			}
		case "denom":
			op := pick(rng, []string{"issue", "remove"})
			den := pick(rng, []string{MintDenom, "ugnot", "/gno.land/r/c08/mint:tokx", "/gno.land/r/c08/payer:tok", "/gno.land/r/c08/mint#a:tok", "gno.land/r/c08/mint:tok", "/gno.land/r/c08/mint:"})
			a.BT, a.Wrap = "RealmIssue", pick(rng, []string{"plain", "closure", "recover", "defer"})
			a.Agent = pick(rng, []string{"call", "run", "victim-call"})
			var c string
			if op == "issue" {
				a.Target, a.Action = "supply", "issue:"+den
				c = fmt.Sprintf("b := banker.NewBanker(banker.BankerTypeRealmIssue, cur)\nb.IssueCoin(%s, \"%s\", 77)", loot, den)
			} else {
				a.Target = pick(rng, []string{"bob", "carol", "vault", "payer"})
				a.Action = "remove:" + den
				c = fmt.Sprintf("b := banker.NewBanker(banker.BankerTypeRealmIssue, cur)\nb.RemoveCoin(address(\"%s\"), \"%s\", 2)", addrOf(a.Target), den)
			}
			switch a.Wrap {
			case "closure":
				c = "func() {\n" + ind(c, 1) + "\n}()"
			case "defer":
				c = "defer func() {\n" + ind(c, 1) + "\n}()"
			case "recover":
				c = "func() {\n\tdefer func() { recover() }()\n" + ind(c, 1) + "\n}()"
			}
			a.Decls = fmt.Sprintf("func %s(cur realm) {\n%s\n}\n", A, ind(c, 1))
			add(a, []string{"chain/banker"})
		default: // realm techniques
			a.Target, a.BT, a.Action, a.Wrap = pick(rng, victimRealms), pick(rng, bts), pick(rng, spendActions), pick(rng, wraps)
			if tech == "stolen-sub" {
				a.Target, a.BT, a.Action = "payer", "RealmSend", pick(rng, []string{"send-ugnot", "via-rlibx"})
			}
			a.Agent = pick(rng, []string{"call", "call", "run", "victim-call"})
			d, im, finding := buildRealmTech(tech, a.Target, a.BT, a.Action, a.Wrap, id)
			a.Decls, a.Finding = d, finding
			if finding != "" {
				if nFinding >= 9+n/25 {
					continue
				}
				nFinding++
			}
			add(a, im)
		}
	}
	return pl
}
