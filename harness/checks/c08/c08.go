// Package c08: coins leave an address only with that address's authority.
//
// Closed world: victim users (alice, bob, carol), victim realms holding coins
// (vault, vaultb never spend; payer, osend, shop, mint spend only through
// bankers they instantiate for themselves in planned control transactions) and
// an attacker (mallory) with MsgRun scripts, attacker realms and attacker
// libraries. Every transaction runs in its own block; an independent ledger
// (decoded from raw committed bytes) is read before and after. Every decrease
// of a (victim address, denomination) balance must be covered by what the
// transaction's plan authorises: the signer's fee + attached coins + storage
// deposits, a planned spend of a spender realm, a planned burn by the issuing
// realm, or a storage-deposit refund of a realm whose recorded storage shrank.
// Supply of a victim denomination changes only in planned issue/burn calls.
package c08

import (
	"fmt"
	"math/rand/v2"
	"sort"
	"strings"

	"github.com/gnolang/gno/gno.land/pkg/gnoland"
	gno "github.com/gnolang/gno/gnovm/pkg/gnolang"

	"verifharness/internal/audit"
	"verifharness/internal/chainsim"
	"verifharness/internal/hist"
	"verifharness/internal/monitors"
	"verifharness/internal/vf"
)

func init() {
	vf.Register(&vf.Check{
		ID:    "C08",
		Level: "exploration",
		Rule: "case = one generated attacker transaction: technique (banker from cur.Previous() inside a crossing hook / interface hook, from the calling user, from a realm value stolen in a hook and used later — while the victim frame is live again, after return, in a new victim frame, through Sub —, from a realm value persisted earlier, foreign `from`, re-entrant own cur, origin-send envelope abuse via MsgRun / code realm / over limit / twice, issue/remove of foreign and malformed denominations) × target × banker type × action (send ugnot, send realm denom, burn, issue, through /r/ and /p/ helper libraries) × wrapper (plain, helper func, closure, defer, recover, method) × agent (attacker MsgCall, MsgRun, victim user calls the attacker realm, direct MsgCall); " +
			"oracle = per-address per-denomination ledger diff of the one-tx block against the plan's allowances; non-trivial = the transaction passed ante and the attack code ran (failed in the VM or succeeded); distinct by (technique, target, banker type, action, wrapper, agent, attached coins)",
		Run: run,
	})
}

const (
	gasTx = 120_000_000
	feeTx = 1_000_000
)

type world struct {
	c        *vf.Ctx
	idx      int
	ch       *chainsim.Chain
	led      *monitors.Ledger
	storage  map[string]uint64 // realm path -> recorded storage
	names    map[string]string // address -> name
	attacker map[string]bool   // attacker-owned addresses
	deposit  map[string]string // deposit address -> realm path
	realms   []string          // realm paths whose storage is tracked
	pkgNo    int
	txNo     int
}

func (w *world) addRealm(path string, attackerOwned bool) {
	a := hist.RealmAddr(path).String()
	d := gno.DeriveStorageDepositCryptoAddr(path).String()
	w.names[a] = "realm:" + pkgName(path)
	w.names[d] = "deposit:" + pkgName(path)
	w.deposit[d] = path
	w.realms = append(w.realms, path)
	if attackerOwned {
		w.attacker[a], w.attacker[d] = true, true
	}
}

func (w *world) snapshot() (*monitors.Ledger, map[string]uint64) {
	v, err := audit.Open(w.ch.DB, 0)
	if err != nil {
		panic(err)
	}
	l := ReadCoins(v)
	st := map[string]uint64{}
	for _, p := range w.realms {
		if s, ok := RealmStorage(v, p); ok {
			st[p] = s
		}
	}
	return l, st
}

// allowance: what a transaction's plan authorises.
type allowance struct {
	dec    map[string]map[string]int64 // address -> denom -> max decrease
	supply map[string]bool             // denoms whose supply may change
}

func newAllow() *allowance {
	return &allowance{dec: map[string]map[string]int64{}, supply: map[string]bool{}}
}
func (a *allowance) add(addr, denom string, n int64) {
	if a.dec[addr] == nil {
		a.dec[addr] = map[string]int64{}
	}
	a.dec[addr][denom] += n
}

type txOutcome struct {
	tr        *chainsim.TxResult
	decreases []string
	supplyChg []string
	viol      bool
}

// play runs one tx in its own block and applies the authority oracle.
func (w *world) play(t hist.TxSpec, al *allowance, at *Attack, label string) *txOutcome {
	c := w.c
	w.txNo++
	t.Gas, t.Fee = gasTx, feeTx
	tr := OneTx(w.ch, t)
	after, stAfter := w.snapshot()
	out := &txOutcome{tr: tr}
	signer := w.ch.Acc(t.Signer).Addr.String()
	// what the signer is authorised to lose: fee, attached coins of a succeeded tx, storage deposits it paid
	if chainsim.AntePassed(tr) {
		al.add(signer, "ugnot", t.Fee)
	}
	if tr.OK {
		for _, m := range t.Msgs {
			// MsgRun sends caller -> caller; MsgCall sends caller -> callee
			al.add(signer, "ugnot", m.Send)
		}
		for d := range w.deposit {
			if inc := after.Balances[d]["ugnot"] - w.led.Balances[d]["ugnot"]; inc > 0 {
				al.add(signer, "ugnot", inc)
				c.Count("storage_deposit_locks_observed", 1)
			}
		}
	}
	for _, is := range after.Issues {
		c.Violation("ledger-malformed", w.witness(at, t, tr), "chain %d: %s", w.idx, is)
	}
	addrs := map[string]bool{}
	for a := range w.led.Balances {
		addrs[a] = true
	}
	for a := range after.Balances {
		addrs[a] = true
	}
	var list []string
	for a := range addrs {
		list = append(list, a)
	}
	sort.Strings(list)
	c.Count("address_balances_compared", len(list))
	for _, a := range list {
		denoms := map[string]bool{}
		for d := range w.led.Balances[a] {
			denoms[d] = true
		}
		for d := range after.Balances[a] {
			denoms[d] = true
		}
		for d := range denoms {
			dec := w.led.Balances[a][d] - after.Balances[a][d]
			if dec <= 0 {
				continue
			}
			name := w.names[a]
			if name == "" {
				name = "unknown:" + a
			}
			out.decreases = append(out.decreases, fmt.Sprintf("%s %s -%d", name, d, dec))
			c.Count("balance_decreases_observed", 1)
			if w.attacker[a] {
				c.Count("decreases_of_attacker_owned_addresses", 1)
				continue
			}
			if dec <= al.dec[a][d] {
				c.Count("decreases_covered_by_plan", 1)
				continue
			}
			// storage-deposit refund: the realm's recorded storage must have shrunk in this tx
			if p, ok := w.deposit[a]; ok && d == "ugnot" && stAfter[p] < w.storage[p] {
				c.Count("deposit_refunds_with_storage_release", 1)
				continue
			}
			out.viol = true
			cls := "victim-user"
			switch {
			case strings.HasPrefix(name, "realm:"):
				cls = "victim-realm"
			case strings.HasPrefix(name, "deposit:"):
				cls = "victim-deposit"
			case strings.HasPrefix(name, "unknown:"):
				cls = "unknown-address"
			}
			if a == signer {
				cls = "victim-signer-beyond-fee-send-deposit"
			}
			key := "unauthorised-decrease:" + cls + ":" + label
			if at != nil {
				key = "unauthorised-decrease:" + cls + ":" + at.Tech
				if at.Finding != "" {
					key = "unauthorised-decrease:" + cls + ":" + at.Finding
				}
			}
			c.Violation(key, w.witness(at, t, tr), "chain %d tx %d (%s, ok=%v): %s lost %d %s but the transaction authorises at most %d (signer %s)",
				w.idx, w.txNo, label, tr.OK, name, dec, d, al.dec[a][d], w.names[signer])
		}
	}
	// supply of victim denominations
	sd := map[string]bool{}
	for d := range w.led.Supply {
		sd[d] = true
	}
	for d := range after.Supply {
		sd[d] = true
	}
	for d := range sd {
		if w.led.Supply[d] == after.Supply[d] {
			continue
		}
		out.supplyChg = append(out.supplyChg, fmt.Sprintf("%s %d->%d", d, w.led.Supply[d], after.Supply[d]))
		c.Count("supply_changes_observed", 1)
		if d == "ugnot" || strings.HasPrefix(d, "/"+base+"mint:") || !strings.HasPrefix(d, "/"+base+"k") {
			// a victim denomination (or one that is nobody's)
			if !al.supply[d] {
				out.viol = true
				key := "supply-changed-without-issuer-call:" + label
				if at != nil {
					key = "supply-changed-without-issuer-call:" + at.Tech
					if at.Finding != "" {
						key = "supply-changed-without-issuer-call:" + at.Finding
					}
				}
				c.Violation(key, w.witness(at, t, tr), "chain %d tx %d (%s): supply of %s went %d -> %d in a transaction that does not call the issuing realm's issue/burn",
					w.idx, w.txNo, label, d, w.led.Supply[d], after.Supply[d])
			}
		} else {
			c.Count("attacker_own_denom_supply_changes", 1)
		}
	}
	w.led, w.storage = after, stAfter
	return out
}

func (w *world) witness(at *Attack, t hist.TxSpec, tr *chainsim.TxResult) map[string]any {
	return map[string]any{"world": "c08.World()", "attack": at, "tx": t, "ok": tr.OK, "error": clip(tr.Log, 500)}
}

func classify(tr *chainsim.TxResult) string {
	if tr.OK {
		return "ok"
	}
	e := tr.ErrString + " " + tr.Log
	switch {
	case strings.Contains(e, "TypeCheckError") || strings.Contains(e, "declared and not used") || strings.Contains(e, "imported and not used"):
		return "compile-error"
	case strings.Contains(e, "banker can only be instantiated for the current realm"):
		return "rejected-not-current"
	case strings.Contains(e, "can only send coins from realm that created banker"):
		return "rejected-foreign-from"
	case strings.Contains(e, "can only be instantiated by the origin package"):
		return "rejected-origin-send-not-user-call"
	case strings.Contains(e, "limit") && strings.Contains(e, "exceeded"):
		return "rejected-origin-send-limit"
	case strings.Contains(e, "invalid denom") || strings.Contains(e, "non realm-qualified") || strings.Contains(e, "invalid denom base name"):
		return "rejected-denom"
	case strings.Contains(e, "cannot issue coins") || strings.Contains(e, "cannot remove coins"):
		return "rejected-banker-type"
	case strings.Contains(e, "Sub:"):
		return "rejected-sub"
	case strings.Contains(e, "cross: rlm is not the current cur"):
		return "rejected-cross-not-current"
	case strings.Contains(e, "cannot persist realm value"):
		return "rejected-persist-realm"
	case strings.Contains(e, "insufficient") || strings.Contains(e, "InsufficientCoins"):
		return "rejected-insufficient-coins"
	case strings.Contains(e, "shop:"):
		return "rejected-by-victim-logic"
	case strings.Contains(e, "not supported for sub-realm"):
		return "rejected-sub"
	case !chainsim.AntePassed(tr):
		return "ante"
	}
	return "other-error"
}

func firstLine(log string) string {
	for _, l := range strings.Split(log, "\n") {
		if strings.Contains(l, "VM panic") || strings.Contains(l, "Data:") {
			return strings.TrimSpace(l)
		}
	}
	return clip(log, 200)
}

func callTx(signer, pkg, fn string, send int64, args ...string) hist.TxSpec {
	return hist.TxSpec{Signer: signer, Msgs: []hist.MsgSpec{{Kind: "call", Pkg: pkg, Func: fn, Args: args, Send: send}}}
}
func runTx(signer, body string, send int64) hist.TxSpec {
	return hist.TxSpec{Signer: signer, Msgs: []hist.MsgSpec{{Kind: "run", Body: body, Send: send}}}
}

// ---- positive controls ----

func (w *world) control(k int, n int64) {
	c := w.c
	al := newAllow()
	var t hist.TxSpec
	var name string
	must := map[string]int64{} // address|denom that must actually decrease
	who := []string{"bob", "mallory", "alice"}[k%3]
	switch k % 9 {
	case 0:
		name = "payer.Pay"
		t = callTx(who, base+"payer", "Pay", 0, userAddr("carol"), fmt.Sprint(n))
		al.add(realmAddr("payer"), "ugnot", n)
		must[realmAddr("payer")+"|ugnot"] = n
	case 1:
		name = "payer.PayTok"
		t = callTx(who, base+"payer", "PayTok", 0, userAddr("carol"), "2")
		al.add(realmAddr("payer"), MintDenom, 2)
		must[realmAddr("payer")+"|"+MintDenom] = 2
	case 2:
		name = "payer.PaySub"
		t = callTx(who, base+"payer", "PaySub", 0, userAddr("carol"), fmt.Sprint(n))
		sub := hist.RealmAddr(payerSubPath).String()
		al.add(sub, "ugnot", n)
		must[sub+"|ugnot"] = n
	case 3:
		name = "osend.Refund"
		t = callTx("bob", base+"osend", "Refund", n, fmt.Sprint(n))
	case 4:
		name = "osend.Keep"
		t = callTx("bob", base+"osend", "Keep", n)
	case 5:
		name = "shop.Buy"
		t = callTx("bob", base+"shop", "Buy", 1000+n)
	case 6:
		name = "mint.Issue"
		t = callTx("alice", base+"mint", "Issue", 0, userAddr("carol"), fmt.Sprint(n))
		al.supply[MintDenom] = true
	case 7:
		name = "mint.Burn"
		t = callTx("alice", base+"mint", "Burn", 0, userAddr("carol"), "1")
		al.supply[MintDenom] = true
		al.add(userAddr("carol"), MintDenom, 1)
		must[userAddr("carol")+"|"+MintDenom] = 1
	case 8:
		name = "bank.MsgSend"
		t = hist.TxSpec{Signer: "bob", Msgs: []hist.MsgSpec{{Kind: "send", To: "carol", Amount: n}}}
		al.add(userAddr("bob"), "ugnot", n)
		must[userAddr("bob")+"|ugnot"] = n + feeTx
	}
	before := w.led
	out := w.play(t, al, nil, "control:"+name)
	c.Count("positive_controls_run", 1)
	if !out.tr.OK {
		c.Violation("positive-control-failed:"+name, w.witness(nil, t, out.tr), "chain %d: authorised spend %s failed: %s", w.idx, name, clip(out.tr.Log, 400))
		return
	}
	for k, n := range must {
		p := strings.SplitN(k, "|", 2)
		if got := before.Balances[p[0]][p[1]] - w.led.Balances[p[0]][p[1]]; got != n {
			c.Violation("positive-control-no-effect:"+name, w.witness(nil, t, out.tr), "chain %d: authorised spend %s: %s %s changed by %d, expected %d", w.idx, name, w.names[p[0]], p[1], -got, -n)
			return
		}
	}
	if name == "mint.Issue" && w.led.Supply[MintDenom]-before.Supply[MintDenom] != n {
		c.Violation("positive-control-no-effect:"+name, w.witness(nil, t, out.tr), "chain %d: mint.Issue(%d): supply %d -> %d", w.idx, n, before.Supply[MintDenom], w.led.Supply[MintDenom])
		return
	}
	c.Count("positive_controls_ok", 1)
	c.Count("control_ok:"+name, 1)
}

// ---- attacks ----

func (w *world) record(a *Attack, out *txOutcome) {
	c := w.c
	cl := classify(out.tr)
	nt := cl != "compile-error" && cl != "ante" && cl != "other-error"
	c.Case(a.Key(), nt)
	c.Count("attacks", 1)
	c.Count("technique:"+a.Tech, 1)
	c.Count("agent:"+a.Agent, 1)
	c.Count("outcome:"+cl, 1)
	if a.Wrap != "" {
		c.Count("wrap:"+a.Wrap, 1)
	}
	if a.BT != "" {
		c.Count("banker_type:"+a.BT, 1)
	}
	if strings.HasPrefix(cl, "rejected-") {
		c.Count("attacks_rejected", 1)
	}
	if out.tr.OK && !out.viol {
		c.Count("attacker_tx_succeeded_without_unauthorised_effect", 1)
	}
	if out.viol && a.Finding != "" {
		c.Count("known_finding_class_attacks_succeeded", 1)
	}
	if cl == "other-error" || cl == "compile-error" {
		c.Count("other_error:"+clip(firstLine(out.tr.Log), 100), 1)
		c.Logf("C08 %s for %s: %s", cl, a.Key(), clip(strings.ReplaceAll(out.tr.Log, "\n", " | "), 500))
	}
}

func (w *world) runAttack(a *Attack, pack string) {
	signer := "mallory"
	if a.Agent == "victim-call" {
		signer = "bob"
	}
	fn := fmt.Sprintf("A%d", a.ID)
	if a.Pre != "" {
		// a victim user calls the attacker realm first (the realm keeps what it can)
		t := callTx("bob", pack, a.Pre, 0)
		out := w.play(t, newAllow(), a, "attack-setup:"+a.Tech)
		w.c.Count("setup_txs", 1)
		if !out.tr.OK {
			w.c.Count("setup_tx_rejected:"+classify(out.tr), 1)
		}
	}
	var t hist.TxSpec
	switch {
	case a.Agent == "direct":
		signer = "mallory"
		t = callTx(signer, a.Direct[0], a.Direct[1], a.Send, a.Direct[2:]...)
	case a.Script != "":
		t = runTx(signer, a.Script, a.Send)
	case a.Agent == "run":
		t = runTx(signer, fmt.Sprintf("package main\n\nimport \"%s\"\n\nfunc main(cur realm) {\n\t%s.%s(cross(cur))\n}\n", pack, pkgName(pack), fn), a.Send)
	default:
		t = callTx(signer, pack, fn, a.Send)
	}
	out := w.play(t, newAllow(), a, "attack:"+a.Tech)
	w.record(a, out)
}

func (w *world) deploy(name string, as []*Attack, imps map[int][]string) (string, bool) {
	path := base + name
	src := packSource(name, as, imps)
	w.addRealm(path, true)
	t := hist.TxSpec{Signer: "mallory", Msgs: []hist.MsgSpec{{Kind: "addpkg", Pkg: path, Body: src}}}
	out := w.play(t, newAllow(), nil, "attacker-deploy")
	if !out.tr.OK {
		w.c.Logf("C08 pack %s did not deploy: %s\n%s", name, clip(strings.ReplaceAll(out.tr.Log, "\n", " | "), 600), src)
		return path, false
	}
	w.c.Count("attacker_realms_deployed", 1)
	return path, true
}

func run(c *vf.Ctx) {
	nAttacks := c.N(150, 3000)
	nChains := c.N(3, 12)
	pl := buildPlan(c.Rng(1), nAttacks)
	c.Set("planned_attacks", len(pl.attacks))
	per := make([][]*Attack, nChains)
	for i, a := range pl.attacks {
		per[i%nChains] = append(per[i%nChains], a)
	}
	pkgs, dep := World()
	c.Parallel(nChains, 6, 300, func(i int, rng *rand.Rand) {
		extra := []gnoland.Balance{}
		for _, v := range victimRealms {
			extra = append(extra, realmBalance(base+v, 1_000_000_000))
		}
		extra = append(extra, realmBalance(payerSubPath, 1_000_000_000))
		ch, err := Start(pkgs, dep, Users, extra)
		if err != nil {
			panic(err)
		}
		defer ch.Close()
		w := &world{c: c, idx: i, ch: ch, names: map[string]string{}, attacker: map[string]bool{}, deposit: map[string]string{}}
		for _, u := range Users {
			w.names[userAddr(u)] = "user:" + u
		}
		w.attacker[userAddr("mallory")] = true
		for _, v := range victimRealms {
			w.addRealm(base+v, false)
		}
		w.names[hist.RealmAddr(payerSubPath).String()] = "realm:payer#treasury"
		w.addRealm(base+"rlibx", true)
		w.addRealm("gno.land/p/c08/plibx", true)
		w.led, w.storage = w.snapshot()
		// setup: the issuer hands out its denomination (planned issue calls)
		for _, to := range []string{userAddr("bob"), userAddr("carol"), realmAddr("vault"), realmAddr("vaultb"), realmAddr("payer"), realmAddr("osend"), realmAddr("shop"), realmAddr("mint")} {
			al := newAllow()
			al.supply[MintDenom] = true
			out := w.play(callTx("alice", base+"mint", "Issue", 0, to, "1000"), al, nil, "setup:mint.Issue")
			if !out.tr.OK {
				panic("setup issue failed: " + out.tr.Log)
			}
		}
		mine := per[i]
		var packed, loose, findings []*Attack
		for _, a := range mine {
			switch {
			case a.Finding != "":
				findings = append(findings, a)
			case a.NeedsPack:
				packed = append(packed, a)
			default:
				loose = append(loose, a)
			}
		}
		ctl := i * 3
		nctl := 0
		doCtl := func() {
			w.control(ctl, int64(100+7*nctl))
			ctl++
			nctl++
		}
		runPacks := func(as []*Attack, tag string) {
			for len(as) > 0 {
				n := 10
				if n > len(as) {
					n = len(as)
				}
				w.pkgNo++
				path, ok := w.deploy(fmt.Sprintf("k%d%s%d", i, tag, w.pkgNo), as[:n], pl.imports)
				if !ok {
					c.Inconclusive("an attacker realm did not deploy (generator error)")
				} else {
					for _, a := range as[:n] {
						w.runAttack(a, path)
						if w.txNo%6 == 0 {
							doCtl()
						}
					}
				}
				as = as[n:]
			}
		}
		runPacks(packed, "a")
		for _, a := range loose {
			w.runAttack(a, "")
			if w.txNo%6 == 0 {
				doCtl()
			}
		}
		for k := 0; k < 9; k++ { // every control kind at least once per chain
			doCtl()
		}
		// known-finding classes last (they do move victim coins)
		runPacks(findings, "f")
		for k := 0; k < 3; k++ {
			doCtl()
		}
		c.Count("chains", 1)
		c.Count("transactions", w.txNo)
	})
	for i, a := range pl.attacks {
		if i%(len(pl.attacks)/4+1) == 0 {
			c.Sample(map[string]any{"technique": a.Tech, "target": a.Target, "banker_type": a.BT, "action": a.Action, "wrap": a.Wrap, "agent": a.Agent, "send": a.Send, "attacker_realm_declarations": a.Decls, "script": a.Script, "direct": a.Direct})
		}
	}
	c.Assume("closed world: victim users sign only the planned MsgCall/MsgSend transactions; victim realms spend only in planned control calls; the attacker owns mallory's account, the realms and packages she deploys and their storage-deposit addresses")
	c.Assume("a burn by the issuing realm's own Burn function is authorised for the holder's balance of that denomination (realm denominations can be removed by their issuer)")
	c.Assume("one transaction per block: every ledger difference is attributed to that transaction (fee collection included)")
	c.RequireCounter("attacks", int64(c.N(140, 2800)))
	c.RequireCounter("attacks_rejected", int64(c.N(100, 2000)))
	for _, t := range append(append([]string{}, realmTechs...), "prev-user", "foreign-from", "stale-persisted", "origin-send", "denom") {
		min := c.N(3, 60)
		if strings.HasPrefix(t, "stolen-live") {
			min = 2 // known-finding classes are kept to a small share
		}
		if t == "stolen-sub" && min > 20 {
			min = 20 // few distinct combinations exist
		}
		c.RequireCounter("technique:"+t, int64(min))
	}
	for _, o := range []string{"rejected-not-current", "rejected-foreign-from", "rejected-origin-send-not-user-call", "rejected-origin-send-limit", "rejected-denom"} {
		c.RequireCounter("outcome:"+o, 2)
	}
	for _, n := range []string{"payer.Pay", "payer.PayTok", "payer.PaySub", "osend.Refund", "osend.Keep", "shop.Buy", "mint.Issue", "mint.Burn", "bank.MsgSend"} {
		c.RequireCounter("control_ok:"+n, 1)
	}
	c.RequireCounter("positive_controls_ok", int64(c.N(30, 300)))
	c.RequireCounter("decreases_covered_by_plan", int64(c.N(150, 1500)))
	c.RequireCounter("storage_deposit_locks_observed", 3)
	c.RequireCounter("supply_changes_observed", 5)
	for _, a := range []string{"call", "run", "victim-call", "direct"} {
		c.RequireCounter("agent:"+a, 3)
	}
}
