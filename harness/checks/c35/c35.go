// Package c35: vote sets track quorums exactly.
//
// Oracle 1 (reference model): a small vote-set model written from the long
// comment at the top of tm2/pkg/bft/types/vote_set.go — per validator one
// canonical vote (the first one seen; votes for the +2/3 block get priority
// once a majority exists), per block the votes counted for it and their power
// sum, blocks a peer claimed +2/3 for (conflicting votes are only counted for
// those), a first-majority latch. After every AddVote / SetPeerMaj23 the return
// value, the error class and every query method of the real VoteSet are
// compared with the model.
//
// Oracle 2 (history monitors, independent of the model): from the real return
// values alone — power of votes the VoteSet said it added per block, power of
// distinct validators with an added vote — the check recomputes with math/big
// "some block exceeds 2/3", "which block crossed first" and "any +2/3" and
// compares them with TwoThirdsMajority / HasTwoThirdsAny; the reported majority
// may never change; a valid vote for a second block must yield a
// VoteConflictingVotesError naming an earlier vote of that validator.
//
// MakeCommit must panic exactly when there is no majority (or the set is not a
// precommit set), carry the majority block id, hold at index i the canonical
// vote of validator i, and (property text, strict) contain no vote for another
// block.
package c35

import (
	"bytes"
	stded "crypto/ed25519"
	"fmt"
	"math/big"
	"math/rand/v2"
	"sort"
	"strconv"
	"strings"
	"time"

	cstypes "github.com/gnolang/gno/tm2/pkg/bft/consensus/types"
	"github.com/gnolang/gno/tm2/pkg/bft/types"
	"github.com/gnolang/gno/tm2/pkg/crypto"
	"github.com/gnolang/gno/tm2/pkg/crypto/ed25519"
	tmerrors "github.com/gnolang/gno/tm2/pkg/errors"

	"verifharness/internal/vf"
)

func init() {
	vf.Register(&vf.Check{
		ID:    "C35",
		Level: "exploration",
		Rule: "case = one history of AddVote/SetPeerMaj23 calls on a VoteSet (or HeightVoteSet); (a) exhaustive over the alphabet {4 validators x {block A, block B, nil}} (12 votes) + {peer claim for A, peer claim for B} (14 ops), 4 validators with equal powers: " +
			"quick = every length-5 vote sequence whose first vote is by validator 0 and every length-4 sequence of the 14 ops; thorough = every length-6 vote sequence and every length-5 sequence of the 14 ops; " +
			"in both tiers every sequence of length 3 (thorough 4) over the 14 ops for the power profiles (1,1,1,3), (1,2,3,4), (3,1,1,1), 3x1; " +
			"(b) seeded random histories of up to 40 ops over 1..6 validators with unequal/huge powers, 4 blocks + nil, replays, re-signed votes, bad signatures, foreign keys, wrong index/address/height/round/type, nil votes, repeated/conflicting peer claims; " +
			"(c) seeded random HeightVoteSet histories (SetRound, votes for tracked and catch-up rounds from 4 peers, peer claims). " +
			"All queries are compared after every op (in the exhaustive sweeps the full query comparison of each distinct prefix is done once). non-trivial = the history contains a conflicting vote, a rejected vote or reaches a +2/3 majority; distinct by the op sequence",
		Run: run,
	})
}

const chainID = "verif-c35"

var baseTime = time.Unix(1700000000, 0).UTC()

func mkBlock(tag byte) types.BlockID {
	return types.BlockID{Hash: bytes.Repeat([]byte{tag}, 32), PartsHeader: types.PartSetHeader{Total: 1 + int(tag%3), Hash: bytes.Repeat([]byte{tag ^ 0x5a}, 32)}}
}

// blockUniverse[0] is the nil block.
var blockUniverse = []types.BlockID{{}, mkBlock(0xA1), mkBlock(0xB2), mkBlock(0xC3), mkBlock(0xD4)}

func bkey(b types.BlockID) string {
	return string(b.Hash) + "|" + strconv.Itoa(b.PartsHeader.Total) + "|" + string(b.PartsHeader.Hash)
}

// over23 reports s > 2/3 * t exactly.
func over23(s, t int64) bool {
	l := new(big.Int).Mul(big.NewInt(s), big.NewInt(3))
	r := new(big.Int).Mul(big.NewInt(t), big.NewInt(2))
	return l.Cmp(r) > 0
}

// ---------------------------------------------------------------- validators

type ring struct {
	n     int
	privs []ed25519.PrivKeyEd25519
	pubs  []ed25519.PubKeyEd25519
	addrs []crypto.Address
	power []int64
	total int64
	vs    *types.ValidatorSet
}

var keyPool = func() []ed25519.PrivKeyEd25519 {
	ks := make([]ed25519.PrivKeyEd25519, 8)
	for i := range ks {
		ks[i] = ed25519.GenPrivKeyFromSecret([]byte(fmt.Sprintf("verif-c35-key-%d", i)))
	}
	sort.Slice(ks, func(i, j int) bool {
		a, b := ks[i].PubKey().Address(), ks[j].PubKey().Address()
		return bytes.Compare(a[:], b[:]) < 0
	})
	return ks
}()

// newRing builds a validator set from the first n pool keys (pool is sorted by
// address, so ring index == validator index) with the given powers.
func newRing(power []int64) *ring {
	n := len(power)
	r := &ring{n: n, power: append([]int64(nil), power...)}
	vals := make([]*types.Validator, n)
	for i := 0; i < n; i++ {
		r.privs = append(r.privs, keyPool[i])
		pk := keyPool[i].PubKey().(ed25519.PubKeyEd25519)
		r.pubs = append(r.pubs, pk)
		r.addrs = append(r.addrs, pk.Address())
		r.total += power[i]
		vals[n-1-i] = types.NewValidator(pk, power[i]) // hand them over unsorted
	}
	r.vs = types.NewValidatorSet(vals)
	for i := 0; i < n; i++ {
		a, v := r.vs.GetByIndex(i)
		if a != r.addrs[i] || v.VotingPower != power[i] {
			panic("c35: validator set order differs from address order")
		}
	}
	return r
}

// ---------------------------------------------------------------- vote specs

// vspec is the JSON-able description of one vote handed to AddVote.
type vspec struct {
	Nil    bool   `json:"nil_vote,omitempty"`
	Val    int    `json:"val"`              // claimed validator index
	Addr   int    `json:"addr"`             // ring index whose address is claimed (-1: zero address)
	Signer int    `json:"signer"`           // ring/pool index of the signing key
	Blk    int    `json:"blk"`              // index into blockUniverse (0 = nil block)
	Ts     int    `json:"ts"`               // timestamp offset (s)
	H      int64  `json:"h"`                // height
	R      int    `json:"r"`                // round
	T      byte   `json:"t"`                // type
	Tamper string `json:"tamper,omitempty"` // "", flip, short, empty, stale (signed over another timestamp)
}

func (s vspec) key() string {
	if s.Nil {
		return "N"
	}
	return fmt.Sprintf("v%d.a%d.s%d.b%d.t%d.h%d.r%d.y%d.%s", s.Val, s.Addr, s.Signer, s.Blk, s.Ts, s.H, s.R, s.T, s.Tamper)
}

// build returns the vote and whether its signature is, by construction, a
// valid signature of validator s.Val over the vote's own fields.
func (rg *ring) build(s vspec) (*types.Vote, bool) {
	if s.Nil {
		return nil, false
	}
	v := &types.Vote{
		Type: types.SignedMsgType(s.T), Height: s.H, Round: s.R, BlockID: blockUniverse[s.Blk],
		Timestamp: baseTime.Add(time.Duration(s.Ts) * time.Second), ValidatorIndex: s.Val,
	}
	if s.Addr >= 0 {
		v.ValidatorAddress = keyPool[s.Addr].PubKey().Address()
	}
	signed := *v
	if s.Tamper == "stale" {
		signed.Timestamp = signed.Timestamp.Add(777 * time.Hour)
	}
	sig, err := keyPool[s.Signer].Sign(signed.SignBytes(chainID))
	if err != nil {
		panic(err)
	}
	switch s.Tamper {
	case "flip":
		sig[len(sig)/2] ^= 0x10
	case "short":
		sig = sig[:len(sig)-1]
	case "empty":
		sig = nil
	}
	v.Signature = sig
	valid := s.Signer == s.Val && s.Tamper == ""
	if s.Val >= 0 && s.Val < rg.n { // harness self-check against the standard library
		if got := stded.Verify(stded.PublicKey(rg.pubs[s.Val][:]), v.SignBytes(chainID), sig); got != valid {
			panic(fmt.Sprintf("c35: construction knowledge says valid=%v, crypto/ed25519 says %v for %s", valid, got, s.key()))
		}
	}
	return v, valid
}

// ---------------------------------------------------------------- reference model

type mBlock struct {
	peerMaj bool
	votes   map[int]*types.Vote
	sum     int64
}

type model struct {
	rg     *ring
	height int64
	round  int
	typ    types.SignedMsgType
	canon  []*types.Vote
	blocks map[string]*mBlock
	sum    int64
	maj    *types.BlockID
	peers  map[string]string
}

func newModel(rg *ring, h int64, r int, t types.SignedMsgType) *model {
	return &model{rg: rg, height: h, round: r, typ: t, canon: make([]*types.Vote, rg.n), blocks: map[string]*mBlock{}, peers: map[string]string{}}
}

// add returns the expected `added`, the set of acceptable result classes and,
// for a conflict, the vote it conflicts with.
func (m *model) add(v *types.Vote, sigValid bool) (bool, []string, *types.Vote) {
	if v == nil {
		return false, []string{"nil"}, nil
	}
	var defects []string
	if v.ValidatorIndex < 0 || v.ValidatorIndex >= m.rg.n {
		defects = append(defects, "index")
	} else if v.ValidatorAddress != m.rg.addrs[v.ValidatorIndex] {
		defects = append(defects, "address")
	}
	if v.Height != m.height || v.Round != m.round || v.Type != m.typ {
		defects = append(defects, "step")
	}
	if len(defects) > 0 {
		if !sigValid {
			defects = append(defects, "sig")
		}
		return false, defects, nil
	}
	i, k := v.ValidatorIndex, bkey(v.BlockID)
	var known *types.Vote
	if c := m.canon[i]; c != nil && bkey(c.BlockID) == k {
		known = c
	} else if b := m.blocks[k]; b != nil {
		known = b.votes[i]
	}
	if known != nil {
		if bytes.Equal(known.Signature, v.Signature) {
			return false, []string{"dup"}, nil
		}
		if !sigValid {
			return false, []string{"nondet", "sig"}, nil
		}
		return false, []string{"nondet"}, nil
	}
	if !sigValid {
		return false, []string{"sig"}, nil
	}
	pw := m.rg.power[i]
	var conflicting *types.Vote
	if c := m.canon[i]; c != nil {
		conflicting = c
		if m.maj != nil && bkey(*m.maj) == k { // votes for the majority block get priority
			m.canon[i] = v
		}
	} else {
		m.canon[i] = v
		m.sum += pw
	}
	b := m.blocks[k]
	if conflicting != nil && (b == nil || !b.peerMaj) {
		return false, []string{"conflict"}, conflicting // not tracked: forget it
	}
	if b == nil {
		b = &mBlock{votes: map[int]*types.Vote{}}
		m.blocks[k] = b
	}
	before := b.sum
	b.votes[i] = v
	b.sum += pw
	if !over23(before, m.rg.total) && over23(b.sum, m.rg.total) && m.maj == nil {
		id := v.BlockID
		m.maj = &id
		for j, bv := range b.votes {
			m.canon[j] = bv
		}
	}
	if conflicting != nil {
		return true, []string{"conflict"}, conflicting
	}
	return true, []string{"ok"}, nil
}

func (m *model) setPeerMaj(peer string, id types.BlockID) (wantErr bool) {
	k := bkey(id)
	if ex, ok := m.peers[peer]; ok {
		return ex != k
	}
	m.peers[peer] = k
	if b := m.blocks[k]; b != nil {
		b.peerMaj = true
	} else {
		m.blocks[k] = &mBlock{peerMaj: true, votes: map[int]*types.Vote{}}
	}
	return false
}

// ---------------------------------------------------------------- monitored vote set

// op is one history element (JSON-able for witnesses).
type op struct {
	Kind string `json:"kind"` // vote | peer
	Vote *vspec `json:"vote,omitempty"`
	Peer string `json:"peer,omitempty"`
	Blk  int    `json:"blk,omitempty"`
}

func (o op) key() string {
	if o.Kind == "peer" {
		return fmt.Sprintf("P%s>%d", o.Peer, o.Blk)
	}
	return o.Vote.key()
}

// mon is a real VoteSet observed by the model and the history monitors.
type mon struct {
	c    *vf.Ctx
	rg   *ring
	real *types.VoteSet
	m    *model
	// history monitors (fed from real return values only)
	counted   map[string]map[int]bool // block -> validators whose vote the VoteSet said it added
	anyAdded  []bool
	crossed   []string // block keys in the order their added power first exceeded 2/3
	firstMaj  *types.BlockID
	validSeen [][]*types.Vote // per validator: valid-signature, well-addressed votes handed in so far
	// classification
	sawConflict, sawReject, sawMaj bool
	failed                         bool
	describe                       func() any // witness builder
	tl                             tally      // local monitor counters, flushed by the workload
	lastVerified                   string     // signatures of the last commit handed to VerifyCommit
	quiet                          bool       // skip the query comparison (exhaustive sweep: this prefix is compared in another sequence)
}

// tally collects monitor counters locally (flushed into the Ctx per task) to keep the hot loop lock-free.
type tally map[string]int

func (t tally) flush(c *vf.Ctx) {
	for k, v := range t {
		c.Count(k, v)
		delete(t, k)
	}
}

func newMon(c *vf.Ctx, tl tally, rg *ring, h int64, r int, t types.SignedMsgType, real *types.VoteSet) *mon {
	if real == nil {
		real = types.NewVoteSet(chainID, h, r, t, rg.vs)
	}
	return &mon{c: c, rg: rg, real: real, m: newModel(rg, h, r, t), counted: map[string]map[int]bool{}, anyAdded: make([]bool, rg.n), validSeen: make([][]*types.Vote, rg.n), tl: tl}
}

func (mo *mon) viol(key string, format string, args ...any) {
	mo.failed = true
	var w any
	if mo.describe != nil {
		w = mo.describe()
	}
	mo.c.Violation(key, w, format, args...)
}

func classOf(added bool, err error) string {
	if err == nil {
		if added {
			return "ok"
		}
		return "dup"
	}
	if _, ok := err.(*types.VoteConflictingVotesError); ok {
		return "conflict"
	}
	switch tmerrors.Cause(err) {
	case types.ErrVoteNil:
		return "nil"
	case types.ErrVoteInvalidValidatorIndex:
		return "index"
	case types.ErrVoteInvalidValidatorAddress:
		return "address"
	case types.ErrVoteUnexpectedStep:
		return "step"
	case types.ErrVoteInvalidSignature:
		return "sig"
	case types.ErrVoteNonDeterministicSignature:
		return "nondet"
	}
	return "other:" + err.Error()
}

func sameVote(a, b *types.Vote) bool {
	if a == nil || b == nil {
		return a == b
	}
	return a.ValidatorIndex == b.ValidatorIndex && a.ValidatorAddress == b.ValidatorAddress && a.Type == b.Type && a.Height == b.Height &&
		a.Round == b.Round && a.BlockID.Equals(b.BlockID) && a.Timestamp.Equal(b.Timestamp) && bytes.Equal(a.Signature, b.Signature)
}

// addVote feeds one vote into the real set (through `call`) and the model and checks the result.
func (mo *mon) addVote(v *types.Vote, sigValid bool, call func(*types.Vote) (bool, error)) {
	var added bool
	var err error
	if pv := vf.Try(func() { added, err = call(v) }); pv != nil {
		mo.viol("addvote-panic", "AddVote panicked: %v", pv)
		return
	}
	mo.tl["op_addvote"]++
	wantAdded, classes, wantConf := mo.m.add(v, sigValid)
	got := classOf(added, err)
	mo.tl["result_"+strings.SplitN(got, ":", 2)[0]]++
	okClass := false
	for _, cl := range classes {
		okClass = okClass || cl == got
	}
	if !okClass || added != wantAdded {
		mo.viol(fmt.Sprintf("addvote-result:want=%s/%v,got=%s/%v", strings.Join(classes, "|"), wantAdded, strings.SplitN(got, ":", 2)[0], added),
			"AddVote returned added=%v err=%v; the documented behaviour gives added=%v class %v", added, err, wantAdded, classes)
		return
	}
	if got != "ok" && got != "dup" {
		mo.sawReject = mo.sawReject || got != "conflict"
	}
	// --- history monitors -------------------------------------------------
	if v != nil && v.ValidatorIndex >= 0 && v.ValidatorIndex < mo.rg.n {
		i := v.ValidatorIndex
		wellFormed := sigValid && v.ValidatorAddress == mo.rg.addrs[i] && v.Height == mo.m.height && v.Round == mo.m.round && v.Type == mo.m.typ
		if wellFormed {
			// conflicting votes are reported as such
			var otherBlock, sameBlock bool
			for _, p := range mo.validSeen[i] {
				if p.BlockID.Equals(v.BlockID) {
					sameBlock = true
				} else {
					otherBlock = true
				}
			}
			if otherBlock && !sameBlock && got != "conflict" {
				mo.viol("conflict-not-reported", "validator %d voted for a second block and AddVote returned class %s", i, got)
				return
			}
			if !otherBlock && got == "conflict" {
				mo.viol("conflict-spurious", "validator %d has no vote for another block but AddVote reported a conflict", i)
				return
			}
			mo.validSeen[i] = append(mo.validSeen[i], v)
		} else if got == "conflict" || added {
			mo.viol("invalid-vote-accepted", "a vote with a defect (signature valid=%v) was accepted or reported as conflicting: class %s added=%v", sigValid, got, added)
			return
		}
		if got == "conflict" {
			mo.sawConflict = true
			ce := err.(*types.VoteConflictingVotesError)
			okA := false
			for _, p := range mo.validSeen[i] {
				okA = okA || (p == ce.VoteA || sameVote(p, ce.VoteA))
			}
			if ce.DuplicateVoteEvidence == nil || !sameVote(ce.VoteB, v) || !okA || ce.VoteA.BlockID.Equals(v.BlockID) || !ce.PubKey.Equals(mo.rg.pubs[i]) || !sameVote(ce.VoteA, wantConf) {
				mo.viol("conflict-evidence-wrong", "conflict evidence does not name an earlier vote of validator %d for another block and the new vote", i)
				return
			}
		}
		if added {
			k := bkey(v.BlockID)
			if mo.counted[k] == nil {
				mo.counted[k] = map[int]bool{}
			}
			before := mo.countedPower(k)
			mo.counted[k][i] = true
			mo.anyAdded[i] = true
			if !over23(before, mo.rg.total) && over23(mo.countedPower(k), mo.rg.total) {
				mo.crossed = append(mo.crossed, k)
			}
		}
	}
	mo.compare()
}

func (mo *mon) countedPower(k string) int64 {
	var s int64
	for i := range mo.counted[k] {
		s += mo.rg.power[i]
	}
	return s
}

func (mo *mon) setPeerMaj(peer string, blk int, call func(string, types.BlockID) error) {
	id := blockUniverse[blk]
	var err error
	if pv := vf.Try(func() { err = call(peer, id) }); pv != nil {
		mo.viol("setpeermaj23-panic", "SetPeerMaj23 panicked: %v", pv)
		return
	}
	mo.tl["op_setpeermaj23"]++
	wantErr := mo.m.setPeerMaj(peer, id)
	if wantErr {
		mo.tl["peer_claim_conflicting"]++
	}
	if (err != nil) != wantErr {
		mo.viol("setpeermaj23-result", "SetPeerMaj23(%s, block %d) err=%v, want error=%v", peer, blk, err, wantErr)
		return
	}
	mo.compare()
}

// compare checks every query method against the model and the history monitors.
func (mo *mon) compare() {
	if mo.quiet {
		return
	}
	vs, m, n := mo.real, mo.m, mo.rg.n
	q := func(name string, ok bool, format string, args ...any) bool {
		if !ok {
			mo.viol("query-mismatch:"+name, name+": "+format, args...)
		}
		return ok
	}
	id, ok := vs.TwoThirdsMajority()
	// --- history monitors: exactness of the quorum reports
	wantMaj := len(mo.crossed) > 0
	if ok != wantMaj {
		mo.viol("maj23-not-exact", "TwoThirdsMajority ok=%v but the power of added votes per block exceeds 2/3 for %d block(s) (total power %d)", ok, len(mo.crossed), mo.rg.total)
		return
	}
	if ok {
		mo.sawMaj = true
		if mo.firstMaj == nil {
			cp := id
			mo.firstMaj = &cp
		} else if !mo.firstMaj.Equals(id) {
			mo.viol("maj23-changed", "reported majority changed from %v to %v", *mo.firstMaj, id)
			return
		}
		if bkey(id) != mo.crossed[0] {
			mo.viol("maj23-not-first", "reported majority %v is not the first block whose added votes exceeded 2/3", id)
			return
		}
	}
	var anyPower int64
	all := true
	for i, a := range mo.anyAdded {
		if a {
			anyPower += mo.rg.power[i]
		} else {
			all = false
		}
	}
	if got := vs.HasTwoThirdsAny(); got != over23(anyPower, mo.rg.total) {
		mo.viol("any23-not-exact", "HasTwoThirdsAny=%v with %d of %d power voted", got, anyPower, mo.rg.total)
		return
	}
	// --- model comparison
	if !q("TwoThirdsMajority", ok == (m.maj != nil) && (!ok || id.Equals(*m.maj)) && (ok || id.IsZero()), "got (%v,%v) model maj %v", id, ok, m.maj) {
		return
	}
	if !q("HasTwoThirdsMajority", vs.HasTwoThirdsMajority() == (m.maj != nil), "got %v", vs.HasTwoThirdsMajority()) ||
		!q("IsCommit", vs.IsCommit() == (m.maj != nil && m.typ == types.PrecommitType), "got %v", vs.IsCommit()) ||
		!q("HasTwoThirdsAny", vs.HasTwoThirdsAny() == over23(m.sum, mo.rg.total), "got %v model sum %d", vs.HasTwoThirdsAny(), m.sum) ||
		!q("HasAll", vs.HasAll() == (m.sum == mo.rg.total) && vs.HasAll() == all, "got %v model sum %d/%d", vs.HasAll(), m.sum, mo.rg.total) ||
		!q("Size", vs.Size() == n && vs.Height() == m.height && vs.Round() == m.round && vs.Type() == byte(m.typ) && vs.ChainID() == chainID, "size/height/round/type/chain") {
		return
	}
	ba := vs.BitArray()
	if !q("BitArray", ba != nil && ba.Size() == n, "nil or wrong size") {
		return
	}
	for i := 0; i < n; i++ {
		if !q("BitArray", ba.GetIndex(i) == (m.canon[i] != nil), "bit %d = %v", i, ba.GetIndex(i)) ||
			!q("GetByIndex", sameVote(vs.GetByIndex(i), m.canon[i]), "validator %d: got %v want %v", i, vs.GetByIndex(i), m.canon[i]) ||
			!q("GetByAddress", sameVote(vs.GetByAddress(mo.rg.addrs[i]), m.canon[i]), "validator %d", i) {
			return
		}
	}
	for bi, b := range blockUniverse {
		bba := vs.BitArrayByBlockID(b)
		mb := m.blocks[bkey(b)]
		if !q("BitArrayByBlockID", (bba == nil) == (mb == nil), "block %d tracked=%v, model tracked=%v", bi, bba != nil, mb != nil) {
			return
		}
		if mb == nil {
			continue
		}
		for i := 0; i < n; i++ {
			_, has := mb.votes[i]
			if !q("BitArrayByBlockID", bba.GetIndex(i) == has && bba.Size() == n, "block %d bit %d = %v", bi, i, bba.GetIndex(i)) {
				return
			}
			// history monitor: the per-block bit array is exactly the set of added votes
			if !q("BitArrayByBlockID/added", bba.GetIndex(i) == mo.counted[bkey(b)][i], "block %d bit %d = %v but added=%v", bi, i, bba.GetIndex(i), mo.counted[bkey(b)][i]) {
				return
			}
		}
	}
	// --- MakeCommit
	var commit *types.Commit
	pv := vf.Try(func() { commit = vs.MakeCommit() })
	wantPanic := m.typ != types.PrecommitType || m.maj == nil
	if (pv != nil) != wantPanic {
		mo.viol("makecommit-panic-mismatch", "MakeCommit panicked=%v (%v), want panic=%v", pv != nil, pv, wantPanic)
		return
	}
	if pv != nil {
		return
	}
	mo.tl["makecommit_ok"]++
	if !commit.BlockID.Equals(id) || len(commit.Precommits) != n {
		mo.viol("makecommit-wrong-block", "commit block id %v / size %d, majority %v / %d validators", commit.BlockID, len(commit.Precommits), id, n)
		return
	}
	var majPower int64
	stray := -1
	for i, pc := range commit.Precommits {
		var cv *types.Vote
		if pc != nil {
			x := types.Vote(*pc)
			cv = &x
		}
		if !sameVote(cv, m.canon[i]) {
			mo.viol("makecommit-wrong-entry", "commit entry %d is %v, canonical vote is %v", i, cv, m.canon[i])
			return
		}
		if mo.counted[bkey(id)][i] && (cv == nil || !cv.BlockID.Equals(id)) {
			mo.viol("makecommit-majority-vote-missing", "validator %d's vote for the majority block was added but the commit holds %v", i, cv)
			return
		}
		if cv != nil {
			if cv.BlockID.Equals(id) {
				majPower += mo.rg.power[i]
			} else if stray < 0 {
				stray = i
			}
		}
	}
	if !over23(majPower, mo.rg.total) {
		mo.viol("makecommit-below-quorum", "commit carries %d of %d power for the majority block", majPower, mo.rg.total)
		return
	}
	if stray >= 0 {
		mo.tl["makecommit_with_stray_vote"]++
		mo.viol("makecommit-stray-vote", "MakeCommit for %v contains at index %d a precommit for another block (%v)", id, stray, commit.Precommits[stray].BlockID)
		mo.failed = false // keep monitoring the rest of the history
	}
	var sigs strings.Builder
	for _, pc := range commit.Precommits {
		if pc != nil {
			sigs.Write(pc.Signature)
		}
		sigs.WriteByte('/')
	}
	if !id.IsZero() && sigs.String() != mo.lastVerified {
		mo.lastVerified = sigs.String()
		mo.tl["makecommit_verified"]++
		if err := mo.rg.vs.VerifyCommit(chainID, id, m.height, commit); err != nil {
			mo.viol("makecommit-not-verifiable", "VerifyCommit rejects the commit made from a +2/3 precommit set: %v", err)
		}
	}
}

// ---------------------------------------------------------------- workloads

const (
	exHeight = int64(7)
	exRound  = 2
)

type exOp struct {
	o     op
	vote  *types.Vote
	valid bool
}

// exhaustive runs every op sequence of the given length; firstOps > 0 restricts the first op to the first `firstOps`
// alphabet entries (the votes of validator 0).
func exhaustive(c *vf.Ctx, name string, power []int64, length int, withPeers bool, firstOps int, typ types.SignedMsgType, stream uint64) {
	rg := newRing(power)
	var ops []exOp
	for v := 0; v < rg.n; v++ {
		for b := 0; b <= 2; b++ {
			s := vspec{Val: v, Addr: v, Signer: v, Blk: b, H: exHeight, R: exRound, T: byte(typ)}
			vote, valid := rg.build(s)
			ops = append(ops, exOp{o: op{Kind: "vote", Vote: &s}, vote: vote, valid: valid})
		}
	}
	for b := 1; b <= 2 && withPeers; b++ {
		ops = append(ops, exOp{o: op{Kind: "peer", Blk: b}})
	}
	k := len(ops)
	pre := 2
	if length < 3 {
		pre = 1
	}
	tasks := 1
	for i := 0; i < pre; i++ {
		tasks *= k
	}
	rest := 1
	for i := pre; i < length; i++ {
		rest *= k
	}
	c.Parallel(tasks, 16, stream, func(t int, _ *rand.Rand) {
		if first := t / (tasks / k); firstOps > 0 && first >= firstOps {
			return
		}
		tl := tally{}
		defer tl.flush(c)
		seq := make([]int, length)
		for x := 0; x < rest; x++ {
			a, b := t, x
			for i := pre - 1; i >= 0; i-- {
				seq[i] = a % k
				a /= k
			}
			for i := length - 1; i >= pre; i-- {
				seq[i] = b % k
				b /= k
			}
			runSeq(c, tl, rg, name, ops, seq, typ)
		}
	})
}

func runSeq(c *vf.Ctx, tl tally, rg *ring, name string, ops []exOp, seq []int, typ types.SignedMsgType) {
	mo := newMon(c, tl, rg, exHeight, exRound, typ, nil)
	step := 0
	mo.describe = func() any {
		hist := make([]op, 0, len(seq))
		for j, s := range seq {
			o := ops[s].o
			if o.Kind == "peer" {
				o.Peer = fmt.Sprintf("p%d", j)
			}
			hist = append(hist, o)
		}
		return map[string]any{"workload": "exhaustive:" + name, "powers": rg.power, "type": byte(typ), "height": exHeight, "round": exRound, "ops": hist, "failed_at_step": step}
	}
	var sb strings.Builder
	sb.WriteString(name)
	// every prefix is compared exactly once: in the first sequence (enumeration order) that has it
	lastNonZero := 0
	for j, s := range seq {
		if s != 0 {
			lastNonZero = j
		}
	}
	for j, s := range seq {
		step = j
		mo.quiet = j < lastNonZero
		fmt.Fprintf(&sb, ".%d", s)
		e := ops[s]
		if e.o.Kind == "peer" {
			mo.setPeerMaj(fmt.Sprintf("p%d", j), e.o.Blk, func(p string, id types.BlockID) error { return mo.real.SetPeerMaj23(types.P2PID(p), id) })
		} else {
			mo.addVote(e.vote, e.valid, mo.real.AddVote)
		}
		if mo.failed {
			break
		}
	}
	c.Case(sb.String(), mo.sawConflict || mo.sawReject || mo.sawMaj)
	if mo.sawMaj {
		tl["histories_with_majority"]++
	}
	if mo.sawConflict {
		tl["histories_with_conflict"]++
	}
	if len(mo.crossed) > 1 {
		tl["histories_with_second_block_over_two_thirds"]++
	}
}

func randPowers(r *rand.Rand, n int) []int64 {
	p := make([]int64, n)
	switch r.IntN(5) {
	case 0: // equal
		for i := range p {
			p[i] = 1
		}
	case 1: // small unequal
		for i := range p {
			p[i] = 1 + r.Int64N(7)
		}
	case 2: // one dominant
		for i := range p {
			p[i] = 1 + r.Int64N(3)
		}
		p[r.IntN(n)] = 5 + r.Int64N(20)
	case 3: // huge, close to the maximum total
		for i := range p {
			p[i] = types.MaxTotalVotingPower/int64(n) - r.Int64N(5)
		}
	default: // threshold-sensitive: total divisible (or nearly) by 3
		for i := range p {
			p[i] = 1 + r.Int64N(4)
		}
		p[0] += 3 - (sum(p) % 3)
	}
	return p
}

func sum(p []int64) int64 {
	var s int64
	for _, x := range p {
		s += x
	}
	return s
}

// genVote draws one vote spec for a set at (h, r, t): mostly valid votes biased to two blocks, plus defects.
func genVote(r *rand.Rand, rg *ring, h int64, rnd int, t byte, past []vspec) vspec {
	v := r.IntN(rg.n)
	blk := 1
	switch x := r.IntN(10); {
	case x < 5:
		blk = 1
	case x < 7:
		blk = 2
	case x < 8:
		blk = 0
	default:
		blk = r.IntN(len(blockUniverse))
	}
	s := vspec{Val: v, Addr: v, Signer: v, Blk: blk, H: h, R: rnd, T: t}
	x := r.IntN(100)
	switch {
	case x < 62: // plain valid vote
	case x < 70 && len(past) > 0: // exact replay
		return past[r.IntN(len(past))]
	case x < 75 && len(past) > 0: // same validator and block, re-signed with another timestamp
		s = past[r.IntN(len(past))]
		s.Ts += 1 + r.IntN(3)
	case x < 79:
		s.Tamper = []string{"flip", "short", "empty", "stale"}[r.IntN(4)]
	case x < 82: // signed by another key
		s.Signer = (v + 1 + r.IntN(len(keyPool)-1)) % len(keyPool)
	case x < 85: // wrong index, own address
		s.Val = []int{-1, rg.n, rg.n + 3, (v + 1) % rg.n}[r.IntN(4)]
	case x < 88: // wrong address (another validator's, an outsider's, or zero)
		s.Addr = []int{(v + 1) % len(keyPool), len(keyPool) - 1, -1}[r.IntN(3)]
	case x < 90: // impersonation: index and address of another validator, own key
		s.Val = (v + 1) % rg.n
		s.Addr = s.Val
	case x < 93:
		s.H = h + []int64{-1, 1}[r.IntN(2)]
	case x < 96:
		s.R = rnd + []int{-1, 1}[r.IntN(2)]
		if s.R < 0 {
			s.R = rnd + 1
		}
	case x < 99:
		s.T = []byte{byte(types.PrevoteType), byte(types.PrecommitType), byte(types.ProposalType), 0}[r.IntN(4)]
	default:
		s.Nil = true
	}
	return s
}

func randomVoteSet(c *vf.Ctx, i int, r *rand.Rand) {
	n := 1 + r.IntN(6)
	rg := newRing(randPowers(r, n))
	typ := types.PrecommitType
	if r.IntN(3) == 0 {
		typ = types.PrevoteType
	}
	h, rnd := 1+r.Int64N(50), r.IntN(4)
	tl := tally{}
	defer tl.flush(c)
	mo := newMon(c, tl, rg, h, rnd, typ, nil)
	var hist []op
	mo.describe = func() any {
		return map[string]any{"workload": "random-voteset", "powers": rg.power, "type": byte(typ), "height": h, "round": rnd, "ops": hist, "failed_at_step": len(hist) - 1}
	}
	var past []vspec
	nops := 4 + r.IntN(37)
	var sb strings.Builder
	fmt.Fprintf(&sb, "rv:%v:%d:%d:%d", rg.power, typ, h, rnd)
	for j := 0; j < nops && !mo.failed; j++ {
		if r.IntN(100) < 14 {
			o := op{Kind: "peer", Peer: fmt.Sprintf("p%d", r.IntN(4)), Blk: []int{1, 2, 1, 2, 0, 3}[r.IntN(6)]}
			hist = append(hist, o)
			sb.WriteString("/" + o.key())
			mo.setPeerMaj(o.Peer, o.Blk, func(p string, id types.BlockID) error { return mo.real.SetPeerMaj23(types.P2PID(p), id) })
			continue
		}
		s := genVote(r, rg, h, rnd, byte(typ), past)
		if !s.Nil {
			past = append(past, s)
		}
		o := op{Kind: "vote", Vote: &s}
		hist = append(hist, o)
		sb.WriteString("/" + o.key())
		v, valid := rg.build(s)
		mo.addVote(v, valid, mo.real.AddVote)
	}
	if !mo.failed && r.IntN(4) == 0 { // GetByAddress of a non-validator panics (documented by its panic message)
		out := keyPool[len(keyPool)-1].PubKey().Address()
		if n < len(keyPool) {
			if pv := vf.Try(func() { mo.real.GetByAddress(out) }); pv == nil {
				mo.viol("getbyaddress-unknown-no-panic", "GetByAddress of a non-validator address returned instead of panicking")
			}
			c.Count("getbyaddress_unknown", 1)
		}
	}
	c.Case(sb.String(), mo.sawConflict || mo.sawReject || mo.sawMaj)
	if mo.sawMaj {
		c.Count("histories_with_majority", 1)
	}
	if mo.sawConflict {
		c.Count("histories_with_conflict", 1)
	}
	if len(mo.crossed) > 1 {
		c.Count("histories_with_second_block_over_two_thirds", 1)
	}
	if i < 2 {
		c.Sample(map[string]any{"workload": "random-voteset", "powers": rg.power, "ops": hist})
	}
}

// randomHeightVoteSet drives a HeightVoteSet: one model per (round, type), plus the documented
// round bookkeeping: rounds 0..round exist, each peer may open at most 2 catch-up rounds.
func randomHeightVoteSet(c *vf.Ctx, i int, r *rand.Rand) {
	n := 2 + r.IntN(4)
	rg := newRing(randPowers(r, n))
	h := 1 + r.Int64N(50)
	hvs := cstypes.NewHeightVoteSet(chainID, h, rg.vs)
	tl := tally{}
	defer tl.flush(c)
	type rk struct {
		round int
		typ   types.SignedMsgType
	}
	mons := map[rk]*mon{}
	var hist []map[string]any
	failed := false
	describe := func() any {
		return map[string]any{"workload": "random-heightvoteset", "powers": rg.power, "height": h, "ops": hist}
	}
	openRound := func(rnd int) {
		for _, t := range []types.SignedMsgType{types.PrevoteType, types.PrecommitType} {
			var real *types.VoteSet
			if t == types.PrevoteType {
				real = hvs.Prevotes(rnd)
			} else {
				real = hvs.Precommits(rnd)
			}
			if real == nil {
				failed = true
				c.Violation("hvs-round-missing", describe(), "round %d should be tracked but its vote set is nil", rnd)
				return
			}
			m := newMon(c, tl, rg, h, rnd, t, real)
			m.describe = describe
			mons[rk{rnd, t}] = m
		}
	}
	tracked := map[int]bool{0: true}
	openRound(0)
	cur := 0
	catchup := map[string]int{}
	peers := []string{"", "p1", "p2", "p3"}
	nops := 6 + r.IntN(45)
	var sb strings.Builder
	fmt.Fprintf(&sb, "hv:%v:%d", rg.power, h)
	var past []vspec
	for j := 0; j < nops && !failed; j++ {
		x := r.IntN(100)
		switch {
		case x < 8: // SetRound
			nr := cur + 1 + r.IntN(2)
			hist = append(hist, map[string]any{"kind": "setround", "round": nr})
			fmt.Fprintf(&sb, "/S%d", nr)
			if pv := vf.Try(func() { hvs.SetRound(nr) }); pv != nil {
				failed = true
				c.Violation("hvs-setround-panic", describe(), "SetRound(%d) from round %d panicked: %v", nr, cur, pv)
				break
			}
			for q := cur + 1; q <= nr; q++ {
				if !tracked[q] {
					tracked[q] = true
					openRound(q)
				}
			}
			cur = nr
			c.Count("hvs_setround", 1)
			if hvs.Round() != cur {
				failed = true
				c.Violation("hvs-round-wrong", describe(), "Round()=%d after SetRound(%d)", hvs.Round(), cur)
			}
		case x < 18: // peer claim
			rnd := r.IntN(cur + 4)
			t := []types.SignedMsgType{types.PrevoteType, types.PrecommitType}[r.IntN(2)]
			peer := peers[1+r.IntN(3)]
			blk := []int{1, 2, 0}[r.IntN(3)]
			hist = append(hist, map[string]any{"kind": "peer", "round": rnd, "type": byte(t), "peer": peer, "blk": blk})
			fmt.Fprintf(&sb, "/P%d.%d.%s.%d", rnd, t, peer, blk)
			m := mons[rk{rnd, t}]
			if m == nil { // "something we don't know about yet": no error, no effect
				if err := hvs.SetPeerMaj23(rnd, t, crypto.ID(peer), blockUniverse[blk]); err != nil {
					failed = true
					c.Violation("hvs-setpeermaj23-untracked", describe(), "SetPeerMaj23 for an untracked round returned %v", err)
				}
				break
			}
			m.setPeerMaj(peer, blk, func(p string, id types.BlockID) error { return hvs.SetPeerMaj23(rnd, t, crypto.ID(p), id) })
			failed = failed || m.failed
		default: // vote
			rnd := r.IntN(cur + 2)
			if r.IntN(5) == 0 {
				rnd = cur + 1 + r.IntN(4)
			}
			t := []types.SignedMsgType{types.PrevoteType, types.PrecommitType}[r.IntN(2)]
			peer := peers[r.IntN(4)]
			s := genVote(r, rg, h, rnd, byte(t), nil)
			if s.Nil || s.R < 0 || !types.IsVoteTypeValid(types.SignedMsgType(s.T)) { // HeightVoteSet documents: vote must not be nil; invalid types are ignored
				s = vspec{Val: s.Val, Addr: s.Addr, Signer: s.Signer, Blk: s.Blk, H: s.H, R: rnd, T: byte(t), Tamper: s.Tamper}
			}
			rnd, t = s.R, types.SignedMsgType(s.T) // the vote's own round and type select the vote set
			if len(past) > 0 && r.IntN(8) == 0 {
				s = past[r.IntN(len(past))]
				rnd, t = s.R, types.SignedMsgType(s.T)
			}
			past = append(past, s)
			hist = append(hist, map[string]any{"kind": "vote", "peer": peer, "vote": s})
			fmt.Fprintf(&sb, "/%s@%s", s.key(), peer)
			v, valid := rg.build(s)
			m := mons[rk{rnd, t}]
			if m == nil {
				if catchup[peer] >= 2 {
					added, err := hvs.AddVote(v, crypto.ID(peer))
					c.Count("hvs_catchup_refused", 1)
					if added || err != cstypes.ErrGotVoteFromUnwantedRoundError {
						failed = true
						c.Violation("hvs-catchup-limit", describe(), "peer %q already opened 2 catch-up rounds; AddVote for round %d returned added=%v err=%v", peer, rnd, added, err)
					}
					if hvs.Prevotes(rnd) != nil || hvs.Precommits(rnd) != nil {
						failed = true
						c.Violation("hvs-catchup-limit", describe(), "a refused catch-up vote created round %d", rnd)
					}
					break
				}
				catchup[peer]++
				c.Count("hvs_catchup_opened", 1)
				// the round is created by this AddVote; attach monitors right after the call
				var added bool
				var err error
				if pv := vf.Try(func() { added, err = hvs.AddVote(v, crypto.ID(peer)) }); pv != nil {
					failed = true
					c.Violation("hvs-addvote-panic", describe(), "AddVote panicked: %v", pv)
					break
				}
				tracked[rnd] = true
				openRound(rnd)
				if failed {
					break
				}
				m = mons[rk{rnd, t}]
				first := true
				m.addVote(v, valid, func(*types.Vote) (bool, error) {
					if !first {
						panic("replayed")
					}
					first = false
					return added, err
				})
				failed = failed || m.failed
				break
			}
			m.addVote(v, valid, func(v *types.Vote) (bool, error) { return hvs.AddVote(v, crypto.ID(peer)) })
			failed = failed || m.failed
		}
		if failed {
			break
		}
		// POLInfo: last round <= cur with +2/3 prevotes
		wantR, wantID := -1, types.BlockID{}
		for q := cur; q >= 0; q-- {
			if m := mons[rk{q, types.PrevoteType}]; m != nil && m.m.maj != nil {
				wantR, wantID = q, *m.m.maj
				break
			}
		}
		if gr, gid := hvs.POLInfo(); gr != wantR || !gid.Equals(wantID) {
			failed = true
			c.Violation("hvs-polinfo", describe(), "POLInfo = (%d,%v), want (%d,%v)", gr, gid, wantR, wantID)
		}
		if wantR >= 0 {
			c.Count("hvs_pol_found", 1)
		}
	}
	nt := false
	for _, m := range mons {
		nt = nt || m.sawConflict || m.sawReject || m.sawMaj
	}
	c.Case(sb.String(), nt)
	c.Count("hvs_histories", 1)
	if i < 1 {
		c.Sample(describe())
	}
}

func run(c *vf.Ctx) {
	eq := []int64{1, 1, 1, 1}
	if c.Quick() {
		c.Logf("exhaustive equal powers: votes only, length 5, first vote by validator 0; all 14 ops, length 4")
		exhaustive(c, "eq4v0", eq, 5, false, 3, types.PrecommitType, 1000)
		exhaustive(c, "eq4", eq, 4, true, 0, types.PrecommitType, 50000)
	} else {
		c.Logf("exhaustive equal powers: votes only, length 6; all 14 ops, length 5")
		exhaustive(c, "eq4v", eq, 6, false, 0, types.PrecommitType, 1000)
		exhaustive(c, "eq4", eq, 5, true, 0, types.PrecommitType, 50000)
	}
	c.Count("exhaustive_spaces", 1)
	pl := c.N(3, 4)
	for pi, p := range [][]int64{{1, 1, 1, 3}, {1, 2, 3, 4}, {3, 1, 1, 1}, {1, 1, 1}} {
		typ := types.PrecommitType
		if pi%2 == 1 {
			typ = types.PrevoteType
		}
		c.Logf("exhaustive powers %v, length %d", p, pl)
		exhaustive(c, fmt.Sprint(p), p, pl, true, 0, typ, uint64(100000*(pi+2)))
		c.Count("exhaustive_spaces", 1)
	}
	c.SetExhaustive(true)
	c.Logf("random vote sets")
	c.Parallel(c.N(10000, 150000), 16, 1<<32, func(i int, r *rand.Rand) { randomVoteSet(c, i, r) })
	c.Logf("random height vote sets")
	c.Parallel(c.N(4000, 60000), 16, 1<<33, func(i int, r *rand.Rand) { randomHeightVoteSet(c, i, r) })

	c.Assume("crypto/ed25519 (standard library) is the signature reference used to validate the harness's own construction knowledge; Vote.SignBytes is trusted as the canonical encoding")
	c.Assume("the reference model follows the documented storage rules of vote_set.go (canonical vote per validator, conflicting votes counted only for peer-claimed blocks, votes for the +2/3 block get priority)")
	c.Assume("exhaustive only for 4 validators / 2 blocks + nil / length <= L; larger sets, unequal powers and defective votes are sampled")
	c.RequireCounter("exhaustive_spaces", 5)
	c.RequireCounter("histories_with_majority", 1000)
	c.RequireCounter("histories_with_conflict", 1000)
	c.RequireCounter("histories_with_second_block_over_two_thirds", 10)
	c.RequireCounter("makecommit_ok", 1000)
	for _, cl := range []string{"ok", "dup", "conflict", "nil", "index", "address", "step", "sig", "nondet"} {
		c.RequireCounter("result_"+cl, 20)
	}
	c.RequireCounter("peer_claim_conflicting", 20)
	c.RequireCounter("hvs_catchup_refused", 20)
	c.RequireCounter("hvs_catchup_opened", 100)
	c.RequireCounter("hvs_pol_found", 100)
}
