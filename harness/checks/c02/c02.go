// Package c02: transactions are atomic — a failed transaction has only ante
// effects, and leaves no trace in VM caches that changes later transactions.
//
// Oracle (twin execution): a generated history rich in failing transactions is
// played on the real app ("real"); in lockstep a twin chain plays the same
// blocks where every transaction that the real chain reported as FAILED is
// replaced by a transaction that by construction has exactly "fee payment and
// sequence increment" as its effects (a 1ugnot self-send by the same signer with
// the same fee), or removed altogether when the ante handler rejected it
// (GasWanted reported 0: not even a fee). After every block:
//   - all GnoVM keys of the base store (oid:, tid:, pkgidx:, node:) are byte-equal;
//   - every main-store key (accounts, balances, supply, params, packages, escaped-object hashes, account
//     counter) is byte-equal, except the gas-price record (block gas differs by construction);
//   - every tx that succeeded has byte-identical consensus result (data, events) and identical gas in both
//     chains — so a failed tx that left something in the VM's in-memory caches and changes a later outcome is seen.
package c02

import (
	"fmt"
	"math/rand/v2"
	"sort"
	"strings"

	"verifharness/internal/audit"
	"verifharness/internal/chainsim"
	"verifharness/internal/hist"
	"verifharness/internal/vf"
)

func init() {
	vf.Register(&vf.Check{
		ID:    "C02",
		Level: "exploration",
		Rule: "case = one failed transaction inside a generated history (failure causes: Gno panic in own / foreign realm after writes, message error after successful messages, " +
			"out-of-tx-gas at a random cut point, block gas limit crossed, storage-deposit limit too small, MsgRun panic, add-package init panic, unknown function, ante rejections: bad signature, wrong sequence/account/chain, no signature, tiny gas); " +
			"oracle = lockstep twin chain without the failed txs; non-trivial = the failed tx passed ante and had executed at least one state-writing message or statement before failing; distinct by (history seed, block, index)",
		Run: run,
	})
}

func causeOf(t *chainsim.TxResult) string {
	e := t.ErrString + " " + t.Log
	switch {
	case !chainsim.AntePassed(t):
		return "ante"
	case strings.Contains(e, "block gas meter"):
		return "block-gas-exceeded-after-success"
	case strings.Contains(t.ErrString, "OutOfGas") || strings.Contains(t.ErrString, "out of gas"):
		return "tx-out-of-gas"
	case strings.Contains(e, "deposit"):
		return "storage-deposit"
	case strings.Contains(e, "deliberate failure") || strings.Contains(e, "script failure") || strings.Contains(e, "init failure"):
		return "gno-panic"
	default:
		return "message-error"
	}
}

type scenario struct {
	name   string
	maxGas int64
	gasCap int64
	blocks int
	burn   bool
}

func run(c *vf.Ctx) {
	scen := []scenario{
		{name: "failboost", blocks: c.N(14, 40)},
		{name: "blockgas", maxGas: 80_000_000, gasCap: 60_000_000, blocks: c.N(8, 30), burn: true},
	}
	nPer := c.N(1, 10)
	type job struct {
		sc scenario
		i  int
	}
	var jobs []job
	for _, s := range scen {
		for i := 0; i < nPer; i++ {
			jobs = append(jobs, job{s, i})
		}
	}
	c.Parallel(len(jobs), 6, 500, func(j int, rng *rand.Rand) {
		runOne(c, jobs[j].sc, uint64(c.Seed)*100+uint64(j), rng)
	})
	c.Assume("the twin chain is the same code; the oracle detects effects of failed transactions, relative to a run that never saw them")
	c.Assume("header times and block heights are equal in both chains (empty blocks are kept)")
	c.RequireCounter("failed_tx:gno-panic", 2)
	c.RequireCounter("failed_tx:message-error", 2)
	c.RequireCounter("failed_tx:tx-out-of-gas", 1)
	c.RequireCounter("failed_tx:ante", 2)
	c.RequireCounter("failed_tx:storage-deposit", 1)
	c.Require("block-gas failures (after-success or no-gas-left)", c.Counter("failed_tx:block-gas-exceeded-after-success")+c.Counter("failed_tx:no-block-gas-left"), 1)
	c.RequireCounter("succeeded_tx_compared", 10)
}

func genHistory(sc scenario, rng *rand.Rand, seed uint64) *hist.History {
	h := hist.GenP(rng, seed, sc.blocks, 5, hist.Profile{FailBoost: true})
	tampers := []string{"badsig", "seq+1", "seq-1", "wrongacc", "wrongchain", "nosig", "tinygas"}
	for bi := range h.Blocks {
		for ti := range h.Blocks[bi] {
			t := &h.Blocks[bi][ti]
			if rng.IntN(12) == 0 {
				t.Tamper = tampers[rng.IntN(len(tampers))]
				t.Label = "ante:" + t.Tamper
			}
			if sc.gasCap > 0 && t.Gas > sc.gasCap {
				t.Gas = sc.gasCap
			}
		}
		if sc.burn {
			// heavy calls so that the block gas limit is crossed by a tx that itself succeeds
			n := 1 + rng.IntN(3)
			for k := 0; k < n; k++ {
				h.Blocks[bi] = append(h.Blocks[bi], hist.TxSpec{Signer: hist.Users[rng.IntN(len(hist.Users))], Gas: sc.gasCap, Fee: 1_000_000, Label: "burn",
					Msgs: []hist.MsgSpec{{Kind: "call", Pkg: hist.StorePath, Func: "Burn", Args: []string{fmt.Sprint(20000 + rng.IntN(30000))}}}})
			}
			rng.Shuffle(len(h.Blocks[bi]), func(a, b int) { h.Blocks[bi][a], h.Blocks[bi][b] = h.Blocks[bi][b], h.Blocks[bi][a] })
		}
	}
	// warm-up block: every user signs one trivial successful tx so that public keys are set in both chains
	var warm []hist.TxSpec
	for _, u := range hist.Users {
		warm = append(warm, hist.TxSpec{Signer: u, Gas: 20_000_000, Fee: 1_000_000, Label: "warmup", Msgs: []hist.MsgSpec{{Kind: "send", To: "erin", Amount: 1000}}})
	}
	if sc.gasCap > 0 {
		for i := range warm {
			warm[i].Gas = 5_000_000
		}
	}
	h.Blocks = append([][]hist.TxSpec{warm}, h.Blocks...)
	return h
}

func start(sc scenario) (*chainsim.Chain, error) {
	ch, err := chainsim.New(chainsim.Options{MaxGas: sc.maxGas})
	if err != nil {
		return nil, err
	}
	r := ch.InitChain(hist.Genesis(ch))
	if r.Error != nil {
		return nil, fmt.Errorf("initchain: %s", r.Error.Error())
	}
	for i, tr := range r.TxResponses {
		if tr.Error != nil {
			return nil, fmt.Errorf("genesis tx %d: %s", i, tr.Log)
		}
	}
	ch.RunBlock()
	return ch, nil
}

func runOne(c *vf.Ctx, sc scenario, seed uint64, rng *rand.Rand) {
	h := genHistory(sc, rng, seed)
	real, err := start(sc)
	if err != nil {
		panic(err)
	}
	defer real.Close()
	twin, err := start(sc)
	if err != nil {
		panic(err)
	}
	defer twin.Close()
	sampled := false
	viol0 := c.Violations()
	// a failing tx whose label marks it as built to fail is replaced by a substitute on the twin (the
	// twin stays free of failed txs); a failing tx of an ordinary kind is probed (see below)
	builtToFail := func(label string) bool {
		return strings.HasPrefix(label, "fail") || strings.HasPrefix(label, "ante") || label == "oog" || label == "burn" || label == "hog"
	}
	for bi, blk := range h.Blocks {
		real.BeginBlock()
		var results []*chainsim.TxResult
		for _, t := range blk {
			tr := hist.PlayTx(real, t)
			if chainsim.AntePassed(tr) {
				real.Acc(t.Signer).Seq++
			}
			results = append(results, tr)
		}
		real.EndBlockCommit()
		twin.BeginBlock()
		var failedCauses []string
		witnessBlock := []map[string]any{}
		for ti, t := range blk {
			tr := results[ti]
			witnessBlock = append(witnessBlock, map[string]any{"tx": t, "ok": tr.OK, "err": clip(tr.ErrString, 200), "gas_used": tr.Res.GasUsed, "gas_wanted": tr.Res.GasWanted})
			if !tr.OK {
				cause := causeOf(tr)
				if strings.Contains(tr.ErrString+tr.Log, "no block gas left") {
					cause = "no-block-gas-left"
				}
				failedCauses = append(failedCauses, cause)
				c.Count("failed_tx:"+cause, 1)
				c.Count("failed_label:"+t.Label, 1)
				nt := chainsim.AntePassed(tr) && tr.Res.GasUsed > 1_200_000
				c.Case(fmt.Sprintf("%d/%d/%d", seed, bi, ti), nt)
				if !sampled && nt {
					sampled = true
					c.Sample(map[string]any{"scenario": sc.name, "tx": t, "error": clip(tr.ErrString, 160), "cause": cause, "gas_used": tr.Res.GasUsed})
				}
				if sc.maxGas == 0 && !builtToFail(t.Label) && !strings.Contains(cause, "block-gas") {
					// (only without a finite block gas limit: the substitutes use less block gas than the
					// failed txs they replace, so under a tight limit the two chains legitimately differ in
					// which later txs still fit)
					// probe: the twin executes the failing tx itself. Its own failure then leaves the same
					// (possibly wrong) trace on both chains, so the state comparison loses its power for THIS tx,
					// but a tx that fails only because of what earlier failed txs left behind is exposed: the
					// twin has substitutes for those.
					tw := hist.PlayTx(twin, t)
					if chainsim.AntePassed(tw) {
						twin.Acc(t.Signer).Seq++
					}
					c.Count("failed_tx_probed_on_twin", 1)
					if tw.ResultKey() != tr.ResultKey() {
						key := "later-tx-differs-after-failed-tx"
						if tw.OK {
							key = "tx-fails-only-after-failed-tx"
						}
						c.Violation(key+":"+strings.Join(uniq(failedCausesSoFar(h, results, bi, ti, failedCauses[:len(failedCauses)-1])), "+"),
							map[string]any{"scenario": sc, "history": h, "block": bi, "index": ti, "tx": t},
							"scenario %s seed %d block %d tx %d (%s): result with earlier failed txs present != result in the twin where they were replaced\n  real: ok=%v gas=%d %s\n  twin: ok=%v gas=%d %s",
							sc.name, seed, bi, ti, t.Label, tr.OK, tr.Res.GasUsed, clip(tr.ErrString+string(tr.Res.Data), 200), tw.OK, tw.Res.GasUsed, clip(tw.ErrString+string(tw.Res.Data), 200))
					}
					continue
				}
				if chainsim.AntePassed(tr) {
					// the twin pays the same fee and bumps the same sequence with a transaction that has no other effect
					sub := hist.TxSpec{Signer: t.Signer, Gas: t.Gas, Fee: t.Fee, Label: "substitute", Msgs: []hist.MsgSpec{{Kind: "send", To: t.Signer, Amount: 1}}}
					tw := hist.PlayTx(twin, sub)
					if !tw.OK {
						c.Inconclusive(fmt.Sprintf("substitute self-send failed in twin: %s", clip(tw.ErrString, 200)))
					} else {
						twin.Acc(t.Signer).Seq++
					}
				}
				continue
			}
			tw := hist.PlayTx(twin, t)
			if chainsim.AntePassed(tw) {
				twin.Acc(t.Signer).Seq++
			}
			c.Count("succeeded_tx_compared", 1)
			if tw.ResultKey() != tr.ResultKey() {
				key := "later-tx-differs-after-failed-tx"
				if !tw.OK {
					key = "tx-succeeds-only-after-failed-tx"
				}
				c.Violation(key+":"+strings.Join(uniq(failedCausesSoFar(h, results, bi, ti, failedCauses)), "+"),
					map[string]any{"scenario": sc, "history": h, "block": bi, "index": ti, "tx": t},
					"scenario %s seed %d block %d tx %d (%s): result with failed txs present != result in twin without them\n  real: ok=%v gas=%d %s\n  twin: ok=%v gas=%d %s",
					sc.name, seed, bi, ti, t.Label, tr.OK, tr.Res.GasUsed, clip(tr.ErrString+string(tr.Res.Data), 200), tw.OK, tw.Res.GasUsed, clip(tw.ErrString+string(tw.Res.Data), 200))
			}
		}
		twin.EndBlockCommit()
		// ---- compare committed states
		rs, rv, err := audit.Snapshot(real.DB, 0)
		if err != nil {
			panic(err)
		}
		ts, tv, err := audit.Snapshot(twin.DB, 0)
		if err != nil {
			panic(err)
		}
		causes := strings.Join(uniq(failedCauses), "+")
		if causes == "" {
			causes = "earlier-block"
		}
		w := map[string]any{"scenario": sc, "history_seed": seed, "block": bi, "block_txs": witnessBlock}
		if d := audit.DiffKV(ts.Base, rs.Base); !d.Empty() {
			c.Violation("failed-tx-left-vm-state:"+causes, w, "scenario %s seed %d block %d: GnoVM store differs from the twin without the failed txs (%s): %d keys, e.g. %v",
				sc.name, seed, bi, causes, len(d.All()), head(d.All(), 6))
		}
		d := audit.DiffKV(ts.Main, rs.Main)
		for _, k := range d.All() {
			cl := audit.KeyClass(k)
			if cl != "gasprice" {
				c.Violation("failed-tx-left-main-state:"+cl+":"+causes, w, "scenario %s seed %d block %d: main-store key %q (class %s) differs from the twin (%s)", sc.name, seed, bi, k, cl, causes)
			}
		}
		_, _ = rv, tv
		if c.Violations() > viol0 {
			return // later blocks of this history only inherit the divergence
		}
		c.Count("blocks_compared", 1)
		c.Count("base_keys_compared", len(rs.Base.Keys))
	}
}

func failedCausesSoFar(h *hist.History, results []*chainsim.TxResult, bi, ti int, blockCauses []string) []string {
	if len(blockCauses) > 0 {
		return blockCauses
	}
	return []string{"earlier-block"}
}

func uniq(a []string) []string {
	m := map[string]bool{}
	var o []string
	for _, s := range a {
		if !m[s] {
			m[s] = true
			o = append(o, s)
		}
	}
	sort.Strings(o)
	return o
}

func head(a []string, n int) []string {
	if len(a) > n {
		return a[:n]
	}
	return a
}

func clip(s string, n int) string {
	if len(s) > n {
		return s[:n] + "…"
	}
	return s
}
