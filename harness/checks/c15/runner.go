package c15

import (
	"encoding/hex"
	"fmt"
	"math/rand/v2"
	"strings"

	"github.com/gnolang/gno/tm2/pkg/amino"
	"github.com/gnolang/gno/tm2/pkg/crypto"
	"github.com/gnolang/gno/tm2/pkg/std"

	"verifharness/checks/c15/txkit"
	"verifharness/internal/chainsim"
	"verifharness/internal/vf"
)

// txCase is one transaction byte string to deliver, with the labels of how it was made.
type txCase struct {
	kind  string // template (what the unmutated tx is)
	mut   string // mutation label ("" = unmutated)
	bytes []byte
}

type histEntry struct {
	Height int64    `json:"height"`
	Time   int64    `json:"time"`
	Txs    []string `json:"txs"` // kind|mut|expected|observed
}

type runner struct {
	c       *vf.Ctx
	id      string
	e       *txkit.Env
	m       *model
	rng     *rand.Rand
	keys    map[crypto.Address]*txkit.Key
	hist    []histEntry
	kept    []txCase // accepted txs, for replays after a restart
	dead    bool     // a violation was reported: stop (later steps inherit the divergence)
	sampled int
}

// sspec says how one signature is produced.
type sspec struct {
	h        *holder    // identity whose account number / sequence go into the sign doc
	key      *txkit.Key // signing key (default h.key)
	chain    string     // default chainsim.ChainID
	dnum     int64      // added to the account number
	dseq     int64      // added to the sequence
	pub      *txkit.Key // public key attached (default: the signing key)
	noPub    bool
	sess     crypto.Address
	who      []bool // multisig: which sub-keys sign (default: the first K)
	bits     []bool // multisig: explicit bit array
	subSeq   int    // multisig: index of a sub-key that signs over sequence+1 (-1 none)
	flip     int    // bit of the final signature bytes to flip (-1 none)
	signBody *txkit.Body
}

func (r *runner) spec(h *holder) sspec {
	s := sspec{h: h, flip: -1, subSeq: -1}
	if h.master != nil {
		s.sess = h.addr
	}
	return s
}

func count(b []bool) int {
	n := 0
	for _, x := range b {
		if x {
			n++
		}
	}
	return n
}

func eqBools(a, b []bool) bool {
	if len(a) != len(b) {
		return false
	}
	for i := range a {
		if a[i] != b[i] {
			return false
		}
	}
	return true
}

// sign produces one signature and records in the model how it was made.
func (r *runner) sign(body txkit.Body, s sspec) std.Signature {
	key := s.key
	if key == nil {
		key = s.h.key
	}
	chain := s.chain
	if chain == "" {
		chain = chainsim.ChainID
	}
	sb := body
	if s.signBody != nil {
		sb = *s.signBody
	}
	num := uint64(int64(s.h.num) + s.dnum)
	seq := uint64(int64(s.h.seq) + s.dseq)
	msg := txkit.SignBytes(sb, chain, num, seq)
	rec := &sigRec{pub: key.Pub.Bytes(), chain: chain, num: num, seq: seq, body: txkit.BodyKey(sb.Msgs, sb.Fee, sb.Memo), good: true}
	var sig []byte
	if key.Kind == "multisig" {
		who := s.who
		if who == nil {
			who = make([]bool, len(key.Subs))
			for i := 0; i < key.K; i++ {
				who[i] = true
			}
		}
		// every sub-signature is registered on its own: the model judges the container by its content
		for i, sub := range key.Subs {
			if i < len(who) && who[i] {
				sr := *rec
				sr.pub = sub.Pub.Bytes()
				subMsg := msg
				if i == s.subSeq {
					sr.seq = seq + 1
					subMsg = txkit.SignBytes(sb, chain, num, seq+1)
				}
				r.m.register(sub.SignRaw(subMsg), &sr)
			}
		}
		if s.subSeq >= 0 {
			// one sub-key signs a different sign doc
			alt := txkit.SignBytes(sb, chain, num, seq+1)
			sig = multisigMixed(key, msg, alt, who, s.subSeq)
		} else {
			sig = key.MultiSig(msg, who, s.bits)
		}
		rec.good = false // the container itself is never looked up
	} else {
		sig = key.SignRaw(msg)
	}
	r.m.register(sig, rec)
	if s.flip >= 0 {
		sig = txkit.FlipBit(sig, s.flip%(len(sig)*8))
	}
	out := std.Signature{Signature: sig, SessionAddr: s.sess}
	if !s.noPub {
		p := s.pub
		if p == nil {
			p = key
		}
		out.PubKey = p.Pub
	}
	return out
}

func multisigMixed(key *txkit.Key, msg, alt []byte, who []bool, altIdx int) []byte {
	// same layout as Key.MultiSig, but sub-key altIdx signs alt
	parts := make([][]byte, len(key.Subs))
	for i, s := range key.Subs {
		if who[i] {
			if i == altIdx {
				parts[i] = s.SignRaw(alt)
			} else {
				parts[i] = s.SignRaw(msg)
			}
		}
	}
	return txkit.MultiSigFromParts(len(key.Subs), parts)
}

func (r *runner) build(body txkit.Body, specs ...sspec) std.Tx {
	tx := std.Tx{Msgs: body.Msgs, Fee: body.Fee, Memo: body.Memo}
	for _, s := range specs {
		tx.Signatures = append(tx.Signatures, r.sign(body, s))
	}
	return tx
}

func enc(tx std.Tx) []byte { return amino.MustMarshal(tx) }

// step runs one block with the given transactions and evaluates every one of
// them against the model.
func (r *runner) step(advance int64, cases ...txCase) *txkit.Obs {
	if r.dead {
		return nil
	}
	now := r.e.Now.Unix() + advance
	view := r.e.View
	bal := func(a crypto.Address) int64 { return txkit.Amount(view, a, "ugnot") }
	r.m.inBlock = map[crypto.Address]int64{}
	type ex struct {
		ok  bool
		why string
		tx  std.Tx
		hs  []*holder
		dec bool
	}
	exps := make([]ex, len(cases))
	raw := make([][]byte, len(cases))
	for i, tc := range cases {
		raw[i] = tc.bytes
		var tx std.Tx
		var derr error
		if pv := vf.Try(func() { derr = amino.Unmarshal(tc.bytes, &tx) }); pv != nil || derr != nil {
			exps[i] = ex{why: "undecodable"}
			continue
		}
		pv := vf.Try(func() {
			ok, why, hs := r.m.expect(tx, len(tc.bytes), now, bal)
			exps[i] = ex{ok: ok, why: why, tx: tx, hs: hs, dec: true}
		})
		if pv != nil { // malformed decoded content (nil message etc.): never valid
			exps[i] = ex{why: "malformed"}
			continue
		}
		if exps[i].ok {
			r.m.accept(tx, exps[i].hs)
		}
	}
	o := r.e.Block(advance, raw...)
	he := histEntry{Height: o.Height, Time: o.Time}
	for i, tc := range cases {
		res := o.Res[i]
		passed := chainsim.AntePassed(res)
		he.Txs = append(he.Txs, fmt.Sprintf("%s|%s|model:%s|chain:ante=%v ok=%v %s", tc.kind, tc.mut, exps[i].why, passed, res.OK, txkit.Clip(res.ErrString, 90)))
	}
	r.hist = append(r.hist, he)
	for i, tc := range cases {
		res := o.Res[i]
		e := exps[i]
		passed := chainsim.AntePassed(res)
		mut := tc.mut
		if mut == "" {
			mut = "none"
		}
		mclass := mutClass(mut)
		w := func() map[string]any {
			return map[string]any{"chain": r.id, "height": o.Height, "block_time": o.Time, "kind": tc.kind, "mutation": tc.mut, "tx_hex": hex.EncodeToString(tc.bytes),
				"model_verdict": e.why, "chain_error": txkit.Clip(res.ErrString, 400), "gas_wanted_reported": res.Res.GasWanted, "block_diff": o.DiffClasses(), "history": r.tail(40)}
		}
		r.c.Case(fmt.Sprintf("%s/%d/%d/%s/%s", r.id, o.Height, i, tc.kind, tc.mut), tc.mut != "" || len(e.hs) > 1 || (len(e.hs) == 1 && (e.hs[0].master != nil || e.hs[0].key.Kind == "multisig")))
		r.c.Count("tx_delivered", 1)
		switch {
		case e.ok && !passed:
			r.c.Violation("valid-tx-rejected:"+tc.kind+":"+mclass, w(), "chain %s height %d: %s (%s) is correctly signed and fresh by the model but was rejected: %s", r.id, o.Height, tc.kind, mut, txkit.Clip(res.ErrString, 300))
			r.dead = true
		case !e.ok && passed:
			r.c.Violation("invalid-tx-accepted:"+mclass+":"+e.why, w(), "chain %s height %d: %s with mutation %s must not verify (%s) but passed the ante handler (ok=%v, block diff: %s)", r.id, o.Height, tc.kind, mut, e.why, res.OK, o.DiffClasses())
			r.dead = true
		case !e.ok:
			r.c.Count("rejected:"+e.why, 1)
			r.c.Count("mut:"+mclass, 1)
			if res.Res.GasWanted != 0 {
				panic("AntePassed inconsistent")
			}
			if len(cases) == 1 {
				r.c.Count("rejected_with_full_state_diff_checked", 1)
				if !o.Empty() {
					r.c.Violation("rejected-tx-changed-state:"+mclass+":"+e.why, w(), "chain %s height %d: %s with mutation %s was rejected (%s) but the block changed committed state: %s %v", r.id, o.Height, tc.kind, mut, txkit.Clip(res.ErrString, 160), o.DiffClasses(), head(o.MainDif, 4))
					r.dead = true
				}
			}
		default:
			r.c.Count("accepted", 1)
			r.kept = append(r.kept, txCase{kind: tc.kind, bytes: tc.bytes})
			r.c.Count("accepted:"+tc.kind, 1)
			if tc.mut != "" {
				r.c.Count("accepted_variant:"+mclass, 1)
			}
			if !res.OK {
				r.c.Count("accepted_but_messages_failed", 1)
			} else if err := r.m.executed(e.tx, o.View, r.keys, o.Time); err != nil {
				panic(err)
			}
			if r.sampled < 1 && tc.mut == "" && len(e.hs) > 1 {
				r.sampled++
				r.c.Sample(map[string]any{"chain": r.id, "kind": tc.kind, "signers": len(e.hs), "tx_hex": txkit.Clip(hex.EncodeToString(tc.bytes), 400), "ok": res.OK})
			}
		}
	}
	if r.dead {
		return o
	}
	r.m.learn(o.View)
	if bad := r.m.verify(o.View); len(bad) > 0 {
		labels := []string{}
		for _, tc := range cases {
			labels = append(labels, tc.kind+"/"+mutClass(tc.mut))
		}
		key := "sequence-mismatch"
		if strings.Contains(bad[0], "fee collector") {
			key = "fee-mismatch"
		} else if strings.Contains(bad[0], "pubkey") {
			key = "pubkey-mismatch"
		}
		r.c.Violation(key+":"+strings.Join(labels, "+"), map[string]any{"chain": r.id, "height": o.Height, "mismatches": bad, "block": he, "history": r.tail(40)},
			"chain %s height %d (%v): committed identities differ from the model (each accepted tx: every signer +1 exactly, nothing else): %v", r.id, o.Height, labels, bad)
		r.dead = true
	}
	r.c.Count("identity_tables_verified", 1)
	return o
}

func (r *runner) tail(n int) []histEntry {
	if len(r.hist) > n {
		return r.hist[len(r.hist)-n:]
	}
	return r.hist
}

func head(a []string, n int) []string {
	if len(a) > n {
		a = a[:n]
	}
	out := make([]string, len(a))
	for i, s := range a {
		out[i] = fmt.Sprintf("%q", s)
	}
	return out
}

// mutClass strips indices from a mutation label ("sigflip#2:137" -> "sigflip").
func mutClass(m string) string {
	if m == "" {
		return "none"
	}
	if i := strings.IndexAny(m, "#:"); i >= 0 {
		return m[:i]
	}
	return m
}
