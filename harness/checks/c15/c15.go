// Package c15: only correctly signed, fresh transactions take effect.
//
// The harness keeps its own table of signing identities — regular accounts
// (secp256k1, ed25519, k-of-n multisig) and session accounts — with (account
// number, sequence, public key set?) and a registry of how every signature
// byte string it ever produced was made (which key, which chain id, account
// number, sequence, which body). From these alone it decides whether a
// transaction byte string must pass the ante handler. Every transaction is
// delivered to the real gno.land application; rejected ones alone in a block,
// so that the complete committed state (all main-store keys, all GnoVM keys)
// can be compared before/after through the independent audit view.
package c15

import (
	"fmt"
	"math/rand/v2"

	"github.com/gnolang/gno/gno.land/pkg/gnoland"
	"github.com/gnolang/gno/tm2/pkg/crypto"
	"github.com/gnolang/gno/tm2/pkg/std"

	"verifharness/checks/c15/txkit"
	"verifharness/internal/chainsim"
	"verifharness/internal/hist"
	"verifharness/internal/vf"
)

func init() {
	vf.Register(&vf.Check{
		ID:    "C15",
		Level: "exploration",
		Rule: "case = one transaction byte string delivered to the real application: a valid template (bank send, realm call, multi-message tx with 2–3 distinct signers and repeated signers, failing-message tx; signed by secp256k1, ed25519, k-of-n multisig and session keys) × one mutation " +
			"(signature bit flip, wrong chain id / account number / sequence±1, signatures rotated / duplicated / missing / extra, foreign key, foreign or wrong-type public key, public key omitted, first-use address mismatch, multisig k−1 / wrong or resized bit array / sub-key over other sequence, " +
			"session key revoked / expired / re-created / confused with its master, body altered after signing, gas 1 / above block max, unaffordable fee, single-bit flips of the whole tx bytes, fee below the node / block minimum in CheckTx) or one resubmission (same block, next block, after restart); " +
			"oracle = harness-owned identity table + signature registry; non-trivial = mutated or resubmitted tx, or a valid tx with ≥2 signers / multisig / session signer; distinct by (chain, height, index, template, mutation)",
		Run: run,
	})
}

type chainPlan struct {
	id     string
	groups []string
	seed   uint64
}

func run(c *vf.Ctx) {
	var plans []chainPlan
	sets := [][]string{{"single", "unknown"}, {"multi", "fees"}, {"multisig"}, {"session"}}
	reps := c.N(1, 3)
	for rep := 0; rep < reps; rep++ {
		for si, gs := range sets {
			plans = append(plans, chainPlan{id: fmt.Sprintf("%c%d", 'A'+si, rep), groups: gs, seed: uint64(c.Seed)*100 + uint64(rep*len(sets)+si)})
		}
	}
	c.Parallel(len(plans), 6, 1500, func(i int, rng *rand.Rand) {
		runChain(c, plans[i], rng, i)
	})
	c.Assume("unforgeability: a byte string that was not produced by the key's Sign over exactly the expected sign doc is not a valid signature (bit-flipped and foreign signatures must not verify)")
	c.Assume("account numbers are learned from committed state when an identity first appears; from then on the table is maintained by the harness alone and compared with the chain after every block")
	c.Assume("gas limits of generated transactions are either 1, above the block maximum, or far above what the ante handler needs; session spend limits are far above what C15 spends (limits are C16's subject)")
	c.Assume("a transaction is 'accepted' when it passes the ante handler (sequence increments and fee are then due even if a message fails later)")
	for _, k := range []string{"mut:sigflip", "mut:wrong-chain", "mut:accnum+1", "mut:seq+1", "mut:seq-1", "mut:signatures-rotated", "mut:duplicated-signature", "mut:missing-last-signature", "mut:extra-signature",
		"mut:wrong-key", "mut:wrong-pubkey-type", "mut:msig-k-minus-1", "mut:msig-bits-point-elsewhere", "mut:replay-same-block", "mut:replay-next-block", "mut:replay-after-restart",
		"mut:session-revoked", "mut:session-expired", "mut:session-recreated-old-tx", "rejected:pubkey-address-mismatch", "rejected:insufficient-funds-for-fee", "mut:tamper-messages", "mut:txbitflip"} {
		c.RequireCounter(k, 1)
	}
	c.RequireCounter("accepted", 30)
	c.RequireCounter("accepted:multi-3-signers-with-repeat", 1)
	c.RequireCounter("accepted:multisig-send", 1)
	c.RequireCounter("accepted:session-send", 1)
	c.RequireCounter("accepted_variant:msig-all-n", 1)
	c.RequireCounter("rejected_with_full_state_diff_checked", 150)
	c.RequireCounter("checktx_fee_rejections", 2)
	c.RequireCounter("restarts", 1)
}

type world struct {
	alice, bob, carol, dave *holder
	erin, fred              *holder // ed25519
	msig, msig1, big8       *holder
	poor, zed, nobody       *holder
}

func runChain(c *vf.Ctx, p chainPlan, rng *rand.Rand, idx int) {
	r := &runner{c: c, id: p.id, rng: rng, keys: map[crypto.Address]*txkit.Key{}}
	r.m = newModel(3_000_000_000)
	var w world
	var extra []*txkit.Key
	mk := func(k *txkit.Key, fund int64) *holder {
		h := r.m.addKey(k)
		r.keys[k.Addr] = k
		if fund > 0 {
			extra = append(extra, k)
		}
		return h
	}
	funds := map[string]int64{}
	fundOf := func(k *txkit.Key, n int64) *txkit.Key { funds[k.Name] = n; return k }
	w.erin = mk(fundOf(txkit.Ed("erin-ed"), 1e12), 1)
	w.fred = mk(fundOf(txkit.Ed("fred-ed"), 1e12), 1)
	w.msig = mk(fundOf(txkit.Multi("msig23", 2, txkit.Secp("ms-a"), txkit.Ed("ms-b"), txkit.Secp("ms-c")), 1e12), 1)
	w.msig1 = mk(fundOf(txkit.Multi("msig12", 1, txkit.Ed("ms-d"), txkit.Ed("ms-e")), 1e12), 1)
	var subs []*txkit.Key
	for i := 0; i < 8; i++ {
		subs = append(subs, txkit.Secp(fmt.Sprintf("big-%d", i)))
	}
	w.big8 = mk(fundOf(txkit.Multi("big8", 2, subs...), 1e12), 1)
	w.poor = mk(fundOf(txkit.Secp("poor"), 30_000), 1)
	w.zed = mk(fundOf(txkit.Secp("zed"), 1e12), 1)
	w.nobody = mk(txkit.Secp("nobody"), 0)
	opts := chainsim.Options{}
	if has(p.groups, "fees") {
		opts.MinGasPrices = "3ugnot/1000gas"
	}
	e, err := txkit.Start(opts, func(ch *chainsim.Chain) gnoland.GnoGenesisState {
		st := hist.Genesis(ch)
		for _, k := range extra {
			st.Balances = append(st.Balances, gnoland.Balance{Address: k.Addr, Amount: std.Coins{{Denom: "ugnot", Amount: funds[k.Name]}}})
		}
		return st
	})
	if err != nil {
		panic(err)
	}
	defer e.Ch.Close()
	r.e = e
	for _, n := range hist.Users {
		h := mk(txkit.FromChainsim(e.Ch.Acc(n)), 0)
		switch n {
		case "alice":
			w.alice = h
		case "bob":
			w.bob = h
		case "carol":
			w.carol = h
		case "dave":
			w.dave = h
		}
	}
	r.m.learn(e.View)
	r.m.fees = txkit.Amount(e.View, txkit.FeeCollector(), "ugnot")
	if bad := r.m.verify(e.View); len(bad) > 0 {
		panic(fmt.Sprintf("genesis does not match the initial table: %v", bad))
	}
	thorough := !c.Quick()
	nf, nb := 6, 10
	if thorough {
		nf, nb = 24, 60
	}
	for _, g := range p.groups {
		if r.dead {
			break
		}
		c.Logf("chain %s: group %s (height %d)", p.id, g, e.Ch.Height)
		switch g {
		case "single":
			groupSingle(r, &w, nf, nb, thorough)
		case "multi":
			groupMulti(r, &w, nf, nb)
		case "unknown":
			groupUnknown(r, &w)
		case "multisig":
			groupMultisig(r, &w, nf, nb, thorough)
		case "session":
			groupSession(r, &w, nf, nb, thorough)
		case "fees":
			groupFees(r, &w)
		}
	}
	lim := 25
	if thorough {
		lim = 0
	} else if !has(p.groups, "single") && !has(p.groups, "session") {
		// quick: a restart costs as much as a chain start; the two chains with the most identity kinds do it
		c.Logf("chain %s: done at height %d", p.id, e.Ch.Height)
		return
	}
	c.Logf("chain %s: restart + resubmission of %d accepted txs (height %d)", p.id, len(r.kept), e.Ch.Height)
	r.replayAll(lim)
	c.Logf("chain %s: done at height %d", p.id, e.Ch.Height)
}

func has(a []string, s string) bool {
	for _, x := range a {
		if x == s {
			return true
		}
	}
	return false
}

// pickSome returns every mutation whose class is in must, plus up to n of the others (seeded).
func pickSome(rng *rand.Rand, ms []mutation, n int) []mutation {
	if n >= len(ms) {
		return ms
	}
	idx := rng.Perm(len(ms))[:n]
	keep := map[int]bool{}
	for _, i := range idx {
		keep[i] = true
	}
	var out []mutation
	for i, m := range ms {
		if keep[i] {
			out = append(out, m)
		}
	}
	return out
}

func groupSingle(r *runner, w *world, nf, nb int, thorough bool) {
	// first use: neither account has a public key on chain yet
	r.play(r.tplSend("send-secp256k1-first-use", w.alice, w.bob.addr), r.mutations(r.tplSend("x", w.alice, w.bob.addr), w.zed, nf, nb, false))
	r.play(r.tplSend("send-ed25519-first-use", w.erin, w.bob.addr), r.mutations(r.tplSend("x", w.erin, w.bob.addr), w.zed, nf, nb, false))
	// public key now stored: the same family again (public-key checks take the other branch)
	t := r.tplSend("send-secp256k1", w.alice, w.carol.addr)
	r.play(t, r.mutations(t, w.zed, nf, nb, thorough && r.id[1] == '0'))
	t = r.tplSend("send-ed25519", w.erin, w.carol.addr)
	r.play(t, r.mutations(t, w.zed, nf, nb, thorough && r.id[1] == '1'))
	t = r.tplCall("call-secp256k1", w.alice)
	r.play(t, pickSome(r.rng, r.mutations(t, w.zed, 2, 2, false), 12))
	t = r.tplCall("call-ed25519", w.erin)
	r.play(t, pickSome(r.rng, r.mutations(t, w.zed, 2, 2, false), 12))
	t = r.tplFailing("failing-message", w.erin, w.bob.addr)
	r.play(t, pickSome(r.rng, r.mutations(t, w.zed, 1, 1, false), 6))
	// pay to a fresh address: the account appears, then signs for the first time
	fresh := r.m.addKey(txkit.Ed("fresh-" + r.id))
	r.keys[fresh.addr] = fresh.key
	r.playValid(template{kind: "fund-fresh-account", body: txkit.Body{Msgs: []std.Msg{send(w.alice.addr, fresh.addr, 50_000_000)}, Fee: feeFor(gasSend)}, ids: []*holder{w.alice}})
	t = r.tplSend("send-fresh-account-first-use", fresh, w.bob.addr)
	r.play(t, pickSome(r.rng, r.mutations(t, w.zed, 2, 2, false), 14))
}

func groupMulti(r *runner, w *world, nf, nb int) {
	// bob and fred have no public key yet: first use inside a multi-signer tx
	t := r.tplMulti("multi-2-signers", []*holder{w.bob, w.fred}, w.dave.addr)
	r.play(t, r.mutations(t, w.zed, nf/2+1, nb, false))
	t = r.tplMulti("multi-3-signers-with-repeat", []*holder{w.bob, w.fred, w.bob, w.carol, w.fred}, w.dave.addr)
	r.play(t, pickSome(r.rng, r.mutations(t, w.zed, 2, 4, false), 40))
	t = r.tplMulti("multi-same-signer-3-messages", []*holder{w.carol, w.carol, w.carol}, w.dave.addr)
	r.play(t, pickSome(r.rng, r.mutations(t, w.zed, 2, 2, false), 12))
	// a failing message in a two-signer tx: both sequences still advance exactly once
	f := r.tplMulti("multi-2-signers-failing", []*holder{w.fred, w.dave}, w.alice.addr)
	f.body.Msgs = append(f.body.Msgs, send(w.dave.addr, w.alice.addr, 90_000_000_000_000))
	r.play(f, pickSome(r.rng, r.mutations(f, w.zed, 1, 1, false), 8))
}

func groupUnknown(r *runner, w *world) {
	t := r.tplSend("send-from-unfunded-key", w.nobody, w.bob.addr)
	w.nobody.num = 999 // whatever a client would guess
	for i := 0; i < 2; i++ {
		r.step(2, txCase{kind: t.kind, mut: "unknown-account", bytes: enc(r.build(t.body, r.specs(t.ids)...))})
	}
	t2 := r.tplMulti("multi-with-unfunded-signer", []*holder{w.alice, w.nobody}, w.bob.addr)
	r.step(2, txCase{kind: t2.kind, mut: "unknown-account", bytes: enc(r.build(t2.body, r.specs(t2.ids)...))})
}

func groupMultisig(r *runner, w *world, nf, nb int, thorough bool) {
	t := r.tplSend("multisig-send", w.msig, w.bob.addr)
	ms := append(r.multisigMutations(t, 0, w.zed), r.mutations(t, w.zed, nf, nb, false)...)
	r.play(t, ms)
	// stored public key now set
	t = r.tplSend("multisig-send", w.msig, w.carol.addr)
	ms = append(r.multisigMutations(t, 0, w.zed), pickSome(r.rng, r.mutations(t, w.zed, nf, nb, false), 25)...)
	r.play(t, ms)
	t = r.tplSend("multisig-1-of-2-send", w.msig1, w.carol.addr)
	r.play(t, append(r.multisigMutations(t, 0, w.zed)[1:], pickSome(r.rng, r.mutations(t, w.zed, 2, 2, false), 10)...))
	t = r.tplMulti("multi-multisig-and-plain", []*holder{w.msig, w.dave}, w.carol.addr)
	r.play(t, append(r.multisigMutations(t, 0, w.zed), pickSome(r.rng, r.mutations(t, w.zed, 2, 3, false), 25)...))
	// 8 sub-keys exceed the per-transaction signature limit (7): never verifiable
	t = r.tplSend("multisig-8-subkeys", w.big8, w.bob.addr)
	r.step(2, txCase{kind: t.kind, mut: "too-many-subkeys", bytes: enc(r.build(t.body, r.specs(t.ids)...))})
	if thorough && r.id[1] == '0' {
		t = r.tplSend("multisig-send", w.msig, w.dave.addr)
		all := r.mutations(t, w.zed, 0, 0, true)
		var flips []mutation
		for _, m := range all {
			if mutClass(m.label) == "sigflip" {
				flips = append(flips, m)
			}
		}
		r.play(t, flips)
	}
}

func groupFees(r *runner, w *world) {
	// poor holds 30_000 ugnot
	mkBody := func(fee int64, amt int64) txkit.Body {
		return txkit.Body{Msgs: []std.Msg{send(w.poor.addr, w.bob.addr, amt)}, Fee: txkit.Fee(gasSend, fee)}
	}
	one := func(kind, mut string, b txkit.Body) {
		r.step(2, txCase{kind: kind, mut: mut, bytes: enc(r.build(b, r.spec(w.poor)))})
	}
	one("poor-send", "fee-above-balance", mkBody(30_001, 1))
	one("poor-send", "fee-far-above-balance", mkBody(5_000_000, 1))
	one("poor-send", "", mkBody(12_000, 1000)) // 17_000 left
	one("poor-send", "fee-above-balance", mkBody(17_001, 1))
	one("poor-send", "", mkBody(17_000, 1)) // fee takes everything: the send then fails, fee and sequence stay
	one("poor-send", "fee-above-balance", mkBody(1, 1))
	groupCheckTx(r, w)
}

// groupCheckTx: the minimum-fee rules only exist in the mempool check. A
// transaction refused there must leave the check state untouched (the
// correctly priced transaction with the same sequence is admitted right
// after) and nothing may reach committed state.
func groupCheckTx(r *runner, w *world) {
	if r.dead {
		return
	}
	gas := int64(gasSend)
	// node minimum 3ugnot/1000gas => 15000; block gas price 1ugnot/1000gas => 5000
	for _, tc := range []struct {
		label string
		fee   int64
		admit bool
	}{{"below-block-gas-price", gas/1000 - 1, false}, {"below-node-min-gas-price", gas*3/1000 - 1, false}, {"zero-fee", 0, false}, {"at-node-min", gas * 3 / 1000, true}} {
		b := txkit.Body{Msgs: []std.Msg{send(w.zed.addr, w.bob.addr, 5)}, Fee: txkit.Fee(gas, tc.fee)}
		raw := enc(r.build(b, r.spec(w.zed)))
		res := r.e.CheckTx(raw)
		r.c.Case(fmt.Sprintf("%s/checktx/%s", r.id, tc.label), !tc.admit)
		r.c.Count("tx_delivered", 1)
		wit := map[string]any{"chain": r.id, "case": tc.label, "gas_wanted": gas, "fee_ugnot": tc.fee, "min_gas_prices": "3ugnot/1000gas", "block_gas_price": "1ugnot/1000gas", "error": fmt.Sprint(res.Error)}
		if (res.Error == nil) != tc.admit {
			key := "checktx-underpriced-tx-admitted:" + tc.label
			if tc.admit {
				key = "checktx-priced-tx-refused"
			}
			r.c.Violation(key, wit, "chain %s: CheckTx of a send with gas %d and fee %dugnot: admitted=%v, fee rule says %v (%v)", r.id, gas, tc.fee, res.Error == nil, tc.admit, res.Error)
			r.dead = true
			return
		}
		if !tc.admit {
			r.c.Count("checktx_fee_rejections", 1)
			// the refusal must not have consumed the sequence in the check state
			good := txkit.Body{Msgs: b.Msgs, Fee: txkit.Fee(gas, gas*3/1000)}
			res2 := r.e.CheckTx(enc(r.build(good, r.spec(w.zed))))
			if res2.Error != nil {
				r.c.Violation("checktx-refusal-changed-check-state:"+tc.label, wit, "chain %s: after CheckTx refused the under-priced tx (%s), the correctly priced tx with the same sequence is refused too: %v", r.id, tc.label, res2.Error)
				r.dead = true
				return
			}
		}
		// committing a block resets the check state; nothing of the above may be in committed state
		o := r.step(2)
		if o != nil && !o.Empty() {
			r.c.Violation("checktx-reached-committed-state:"+tc.label, wit, "chain %s: an empty block after CheckTx calls changed committed state: %s", r.id, o.DiffClasses())
			r.dead = true
			return
		}
	}
}
