package c15

import (
	"fmt"
	"time"

	"github.com/gnolang/gno/gno.land/pkg/gnoland"
	"github.com/gnolang/gno/tm2/pkg/sdk/bank"
	"github.com/gnolang/gno/tm2/pkg/std"

	"verifharness/checks/c15/txkit"
	"verifharness/internal/chainsim"
	"verifharness/internal/hist"
	"verifharness/internal/vf"
)

func init() {
	vf.Register(&vf.Check{ID: "C15", Level: "exploration", Rule: "probe", Run: run})
}

func run(c *vf.Ctx) {
	t0 := time.Now()
	e, err := txkit.Start(chainsim.Options{}, func(ch *chainsim.Chain) gnoland.GnoGenesisState { return hist.Genesis(ch) })
	if err != nil {
		panic(err)
	}
	c.Logf("start %v main=%d base=%d", time.Since(t0), len(e.Last.Main.Keys), len(e.Last.Base.Keys))
	for i := 0; i < 3; i++ {
		t1 := time.Now()
		o := e.Block(5)
		c.Logf("empty block %v dif=%v %v", time.Since(t1), o.MainDif, len(o.BaseDif))
	}
	alice := txkit.FromChainsim(e.Ch.Acc("alice"))
	bob := txkit.FromChainsim(e.Ch.Acc("bob"))
	ok, num, seq, pub := txkit.Account(e.View, alice.Addr)
	c.Logf("alice %v %d %d %v bal=%v", ok, num, seq, pub, txkit.Coins(e.View, alice.Addr))
	send := func(k *txkit.Key, num, seq uint64, sessAddr *txkit.Key, msgs []std.Msg, fee std.Fee) []byte {
		b := txkit.Body{Msgs: msgs, Fee: fee}
		sig := std.Signature{PubKey: k.Pub, Signature: k.SignRaw(txkit.SignBytes(b, "dev", num, seq))}
		if sessAddr != nil {
			sig.SessionAddr = sessAddr.Addr
		}
		return chainsim.TxBytes(std.Tx{Msgs: msgs, Fee: fee, Signatures: []std.Signature{sig}})
	}
	show := func(label string, o *txkit.Obs) {
		for _, r := range o.Res {
			c.Logf("%s: ok=%v gw=%d gu=%d err=%s", label, r.OK, r.Res.GasWanted, r.Res.GasUsed, txkit.Clip(r.ErrString, 300))
		}
		c.Logf("   diff %s", o.DiffClasses())
		for _, k := range o.MainDif {
			c.Logf("     %q", k)
		}
	}
	o := e.Block(5, send(alice, num, seq, nil, []std.Msg{bank.MsgSend{FromAddress: alice.Addr, ToAddress: bob.Addr, Amount: txkit.Ugnot(100)}}, txkit.Fee(2_000_000, 2000)))
	show("send", o)
	sk := txkit.Ed("sess1")
	o = e.Block(5, send(alice, num, seq+1, nil, []std.Msg{txkit.CreateSession(alice.Addr, sk, 0, []string{"*"}, txkit.Ugnot(5_000_000), 100)}, txkit.Fee(2_000_000, 2000)))
	show("create", o)
	da := txkit.Session(e.View, alice.Addr, sk.Addr)
	c.Logf("session %+v", da)
	o = e.Block(5, send(sk, da.GetAccountNumber(), 0, sk, []std.Msg{bank.MsgSend{FromAddress: alice.Addr, ToAddress: bob.Addr, Amount: txkit.Ugnot(100)}}, txkit.Fee(2_000_000, 2000)))
	show("sess-send", o)
	c.Logf("session %+v", txkit.Session(e.View, alice.Addr, sk.Addr))
	body := fmt.Sprintf("package main\n\nimport (\n\t\"chain\"\n\t\"chain/banker\"\n)\n\nfunc main(cur realm) {\n\tb := banker.NewBanker(banker.BankerTypeRealmSend, cur)\n\tb.SendCoins(cur.Address(), address(%q), chain.Coins{chain.NewCoin(\"ugnot\", 777)})\n}\n", bob.Addr.String())
	balA := txkit.Amount(e.View, alice.Addr, "ugnot")
	o = e.Block(5, send(sk, da.GetAccountNumber(), 1, sk, []std.Msg{chainsim.MsgRun(e.Ch.Acc("alice"), body)}, txkit.Fee(20_000_000, 20000)))
	show("sess-run-banker", o)
	c.Logf("alice delta %d", balA-txkit.Amount(e.View, alice.Addr, "ugnot"))
	c.Logf("session %+v", txkit.Session(e.View, alice.Addr, sk.Addr))
	// call with send + deposit
	balA = txkit.Amount(e.View, alice.Addr, "ugnot")
	mc := chainsim.MsgCall(e.Ch.Acc("alice"), hist.StorePath, "BigGrow", "30")
	mc.Send = txkit.Ugnot(1234)
	o = e.Block(5, send(sk, da.GetAccountNumber(), 2, sk, []std.Msg{mc}, txkit.Fee(60_000_000, 60000)))
	show("sess-call-send-deposit", o)
	c.Logf("alice delta %d", balA-txkit.Amount(e.View, alice.Addr, "ugnot"))
	c.Logf("session %+v", txkit.Session(e.View, alice.Addr, sk.Addr))
	t1 := time.Now()
	e.Ch.Restart()
	c.Logf("restart %v", time.Since(t1))
	o = e.Block(5)
	show("after-restart", o)
	c.Case("probe", true)
}
