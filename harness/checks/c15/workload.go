package c15

import (
	"fmt"

	"github.com/gnolang/gno/gno.land/pkg/sdk/vm"
	"github.com/gnolang/gno/tm2/pkg/crypto"
	"github.com/gnolang/gno/tm2/pkg/sdk/bank"
	"github.com/gnolang/gno/tm2/pkg/std"

	"verifharness/checks/c15/txkit"
	"verifharness/internal/hist"
)

const (
	gasSend = 5_000_000
	gasCall = 60_000_000
)

// template is one valid transaction shape: body, an alternative body (what a
// tampering party would substitute) and the identities that sign, in signer order.
type template struct {
	kind string
	body txkit.Body
	alt  txkit.Body
	ids  []*holder
}

func feeFor(gas int64) std.Fee { return txkit.Fee(gas, gas/1000+7) }

func send(from, to crypto.Address, amt int64) std.Msg {
	return bank.MsgSend{FromAddress: from, ToAddress: to, Amount: txkit.Ugnot(amt)}
}

func call(caller crypto.Address, pkg, fn string, args ...string) std.Msg {
	return vm.NewMsgCall(caller, nil, pkg, fn, args)
}

// master returns the account address an identity signs for.
func acctAddr(h *holder) crypto.Address {
	if h.master != nil {
		return h.master.addr
	}
	return h.addr
}

func (r *runner) tplSend(kind string, from *holder, to crypto.Address) template {
	amt := int64(1 + r.rng.IntN(900))
	a := acctAddr(from)
	return template{kind: kind,
		body: txkit.Body{Msgs: []std.Msg{send(a, to, amt)}, Fee: feeFor(gasSend), Memo: fmt.Sprintf("m%d", r.rng.IntN(1000))},
		alt:  txkit.Body{Msgs: []std.Msg{send(a, to, amt+1_000_000)}, Fee: feeFor(gasSend)},
		ids:  []*holder{from}}
}

func (r *runner) tplCall(kind string, from *holder) template {
	a := acctAddr(from)
	tag := fmt.Sprintf("t%d", r.rng.IntN(50))
	return template{kind: kind,
		body: txkit.Body{Msgs: []std.Msg{call(a, hist.StorePath, "Push", tag)}, Fee: feeFor(gasCall)},
		alt:  txkit.Body{Msgs: []std.Msg{call(a, hist.StorePath, "Push", tag+"x")}, Fee: feeFor(gasCall)},
		ids:  []*holder{from}}
}

// tplMulti: one message per listed identity (repeats allowed: the required
// signer set is the de-duplicated list), mixing sends and realm calls.
func (r *runner) tplMulti(kind string, order []*holder, to crypto.Address) template {
	var msgs, alt []std.Msg
	var ids []*holder
	for i, h := range order {
		a := acctAddr(h)
		if i%3 == 1 {
			msgs = append(msgs, call(a, hist.StorePath, "SetArr", fmt.Sprint(r.rng.IntN(6)), fmt.Sprint(r.rng.IntN(99))))
		} else {
			msgs = append(msgs, send(a, to, int64(1+r.rng.IntN(500))))
		}
		dup := false
		for _, x := range ids {
			if acctAddr(x) == a {
				dup = true
			}
		}
		if !dup {
			ids = append(ids, h)
		}
	}
	alt = append(alt, msgs...)
	alt[len(alt)-1] = send(acctAddr(order[len(order)-1]), to, 7_777_777)
	return template{kind: kind, body: txkit.Body{Msgs: msgs, Fee: feeFor(gasCall)}, alt: txkit.Body{Msgs: alt, Fee: feeFor(gasCall)}, ids: ids}
}

// tplFailing: passes the ante handler, fails in message execution (insufficient coins).
func (r *runner) tplFailing(kind string, from *holder, to crypto.Address) template {
	a := acctAddr(from)
	return template{kind: kind,
		body: txkit.Body{Msgs: []std.Msg{send(a, to, 3), send(a, to, 90_000_000_000_000)}, Fee: feeFor(gasSend)},
		alt:  txkit.Body{Msgs: []std.Msg{send(a, to, 4)}, Fee: feeFor(gasSend)},
		ids:  []*holder{from}}
}

func (r *runner) specs(ids []*holder) []sspec {
	out := make([]sspec, len(ids))
	for i, h := range ids {
		out[i] = r.spec(h)
	}
	return out
}

// mutation builds one mutated transaction from the template in the current model state.
type mutation struct {
	label string
	make  func() []byte
}

func twin(k *txkit.Key) *txkit.Key {
	if k.Kind == "ed25519" {
		return txkit.Secp(k.Name)
	}
	return txkit.Ed(k.Name)
}

// mutations enumerates the mutation family for t. nFlips signature bits and
// nBytes whole-transaction bits are sampled per signer (all = every bit).
func (r *runner) mutations(t template, outsider *holder, nFlips, nByteFlips int, allBits bool) []mutation {
	var ms []mutation
	add := func(label string, f func() []byte) { ms = append(ms, mutation{label, f}) }
	one := func(i int, edit func(s *sspec)) func() []byte {
		return func() []byte {
			sp := r.specs(t.ids)
			edit(&sp[i])
			return enc(r.build(t.body, sp...))
		}
	}
	for i := range t.ids {
		i := i
		h := t.ids[i]
		tag := fmt.Sprintf("#%d", i)
		// signature bit flips
		sigBits := 512
		if h.key.Kind == "multisig" {
			sigBits = len(r.sign(t.body, r.spec(h)).Signature) * 8
		}
		if allBits {
			for b := 0; b < sigBits; b++ {
				b := b
				add(fmt.Sprintf("sigflip%s:%d", tag, b), one(i, func(s *sspec) { s.flip = b }))
			}
		} else {
			for k := 0; k < nFlips; k++ {
				b := r.rng.IntN(sigBits)
				add(fmt.Sprintf("sigflip%s:%d", tag, b), one(i, func(s *sspec) { s.flip = b }))
			}
		}
		add("wrong-chain"+tag, one(i, func(s *sspec) { s.chain = "other-chain" }))
		add("empty-chain"+tag, one(i, func(s *sspec) { s.chain = " " }))
		add("accnum+1"+tag, one(i, func(s *sspec) { s.dnum = 1 }))
		add("accnum-of-outsider"+tag, one(i, func(s *sspec) { s.dnum = int64(outsider.num) - int64(s.h.num) }))
		add("seq+1"+tag, one(i, func(s *sspec) { s.dseq = 1 }))
		add("seq-1"+tag, one(i, func(s *sspec) {
			if s.h.seq > 0 {
				s.dseq = -1
			} else {
				s.dseq = 2
			}
		}))
		add("wrong-key"+tag, one(i, func(s *sspec) { s.key = outsider.key }))
		add("wrong-key-claims-pub"+tag, one(i, func(s *sspec) { s.key = outsider.key; s.pub = s.h.key }))
		add("right-key-wrong-pub"+tag, one(i, func(s *sspec) { s.pub = outsider.key }))
		if h.key.Kind != "multisig" {
			add("wrong-pubkey-type"+tag, one(i, func(s *sspec) { s.key = twin(s.h.key) }))
			add("wrong-pubkey-type-claimed"+tag, one(i, func(s *sspec) { s.pub = twin(s.h.key) }))
		}
		add("no-pubkey"+tag, one(i, func(s *sspec) { s.noPub = true }))
		if h.master == nil {
			add("stray-session-addr"+tag, one(i, func(s *sspec) { s.sess = outsider.addr }))
		} else {
			m := h.master
			add("session-key-as-master"+tag, one(i, func(s *sspec) { s.sess = crypto.Address{} }))
			add("master-key-with-session-addr"+tag, one(i, func(s *sspec) { s.h = m; s.sess = h.addr }))
			add("master-key-session-numseq"+tag, one(i, func(s *sspec) { s.key = m.key }))
			add("session-key-master-numseq"+tag, one(i, func(s *sspec) { s.h = m; s.key = h.key; s.sess = h.addr }))
			add("unknown-session-addr"+tag, one(i, func(s *sspec) { s.sess = outsider.addr }))
		}
	}
	n := len(t.ids)
	add("no-signatures", func() []byte {
		tx := r.build(t.body, r.specs(t.ids)...)
		tx.Signatures = nil
		return enc(tx)
	})
	add("missing-last-signature", func() []byte {
		tx := r.build(t.body, r.specs(t.ids)...)
		tx.Signatures = tx.Signatures[:n-1]
		return enc(tx)
	})
	add("extra-signature", func() []byte { return enc(r.build(t.body, append(r.specs(t.ids), r.spec(outsider))...)) })
	add("duplicated-signature", func() []byte { return enc(r.build(t.body, append(r.specs(t.ids), r.spec(t.ids[0]))...)) })
	if len(t.body.Msgs) > n {
		// one signature per message instead of one per distinct signer
		add("signature-per-message", func() []byte {
			var sp []sspec
			for _, msg := range t.body.Msgs {
				a := msg.GetSigners()[0]
				for _, h := range t.ids {
					if acctAddr(h) == a {
						sp = append(sp, r.spec(h))
					}
				}
			}
			return enc(r.build(t.body, sp...))
		})
	}
	if n >= 2 {
		add("signatures-rotated", func() []byte {
			tx := r.build(t.body, r.specs(t.ids)...)
			tx.Signatures = append(tx.Signatures[1:], tx.Signatures[0])
			return enc(tx)
		})
		add("first-signer-signs-all", func() []byte {
			sp := r.specs(t.ids)
			for i := range sp {
				sp[i] = r.spec(t.ids[0])
			}
			return enc(r.build(t.body, sp...))
		})
	}
	tamper := func(label string, edit func(b *txkit.Body)) {
		add(label, func() []byte {
			orig := t.body
			nb := t.body
			edit(&nb)
			sp := r.specs(t.ids)
			for i := range sp {
				sp[i].signBody = &orig
			}
			return enc(r.build(nb, sp...))
		})
	}
	tamper("tamper-memo", func(b *txkit.Body) { b.Memo += "!" })
	tamper("tamper-fee-amount", func(b *txkit.Body) { b.Fee.GasFee.Amount-- })
	tamper("tamper-gas-wanted", func(b *txkit.Body) { b.Fee.GasWanted += 1000 })
	tamper("tamper-messages", func(b *txkit.Body) { b.Msgs = t.alt.Msgs })
	tamper("tamper-append-message", func(b *txkit.Body) { b.Msgs = append(append([]std.Msg{}, b.Msgs...), b.Msgs[0]) })
	// the body is re-priced after signing (so the signatures cannot verify) to amounts of gas that
	// run out somewhere inside the ante handler: before the fee is touched, while it is being
	// deducted, during signature verification. Whatever the point, a rejected tx leaves nothing.
	ladder := []int64{20_000, 100_000, 300_000, 450_000, 600_000, 800_000, 1_000_000, 1_300_000, 1_600_000, 2_000_000, 2_600_000, 50_000 + int64(r.rng.IntN(3_000_000)), 50_000 + int64(r.rng.IntN(3_000_000))}
	if r.c.Quick() {
		ladder = []int64{100_000, 450_000, 800_000, 1_300_000, 2_000_000, 50_000 + int64(r.rng.IntN(3_000_000))}
	}
	for _, g := range ladder {
		g := g
		tamper(fmt.Sprintf("gas-sweep:%d", g), func(b *txkit.Body) { b.Fee.GasWanted = g })
	}
	add("gas-1", func() []byte {
		b := t.body
		b.Fee.GasWanted = 1
		return enc(r.build(b, r.specs(t.ids)...))
	})
	add("gas-above-block-max", func() []byte {
		b := t.body
		b.Fee.GasWanted = r.m.maxGas + 1
		return enc(r.build(b, r.specs(t.ids)...))
	})
	for k := 0; k < nByteFlips; k++ {
		pos := r.rng.Uint64()
		add(fmt.Sprintf("txbitflip:%d", pos%100000), func() []byte {
			raw := enc(r.build(t.body, r.specs(t.ids)...))
			return txkit.FlipBit(raw, int(pos%uint64(len(raw)*8)))
		})
	}
	return ms
}

// multisigMutations are the k-of-n specific cases for identity i of t.
func (r *runner) multisigMutations(t template, i int, outsider *holder) []mutation {
	h := t.ids[i]
	k, n := h.key.K, len(h.key.Subs)
	var ms []mutation
	one := func(label string, edit func(s *sspec)) {
		ms = append(ms, mutation{label, func() []byte {
			sp := r.specs(t.ids)
			edit(&sp[i])
			return enc(r.build(t.body, sp...))
		}})
	}
	set := func(idx ...int) []bool {
		b := make([]bool, n)
		for _, x := range idx {
			b[x] = true
		}
		return b
	}
	first := func(m int) []bool {
		b := make([]bool, n)
		for j := 0; j < m; j++ {
			b[j] = true
		}
		return b
	}
	one("msig-k-minus-1", func(s *sspec) { s.who = first(k - 1) })
	one("msig-zero-signers", func(s *sspec) { s.who = first(0) })
	one("msig-bits-point-elsewhere", func(s *sspec) { s.who = first(k); s.bits = append(set(), first(k)...); s.bits[0], s.bits[n-1] = false, true })
	one("msig-bits-all-set-k-sigs", func(s *sspec) { s.who = first(k); s.bits = first(n) })
	one("msig-bits-fewer-than-sigs", func(s *sspec) { s.who = first(k); s.bits = first(k - 1) })
	one("msig-bitarray-longer", func(s *sspec) { s.who = first(k); s.bits = append(first(k), false) })
	one("msig-bitarray-shorter", func(s *sspec) { s.who = first(k); s.bits = first(k)[:n-1] })
	one("msig-subkey-signs-other-sequence", func(s *sspec) { s.who = first(k); s.subSeq = k - 1 })
	// valid variants (each is accepted and consumes a sequence number)
	one("msig-all-n", func(s *sspec) { s.who = first(n) })
	one("msig-last-k", func(s *sspec) {
		w := make([]bool, n)
		for j := n - k; j < n; j++ {
			w[j] = true
		}
		s.who = w
	})
	_ = outsider
	return ms
}

// play delivers each mutation in its own block, then the unmutated
// transaction (half of the time together with an immediate resubmission in the
// same block), then a resubmission in the next block.
func (r *runner) play(t template, muts []mutation) {
	for _, m := range muts {
		if r.dead {
			return
		}
		r.step(1+int64(r.rng.IntN(5)), txCase{kind: t.kind, mut: m.label, bytes: m.make()})
	}
	r.playValid(t)
}

func (r *runner) playValid(t template) {
	if r.dead {
		return
	}
	raw := enc(r.build(t.body, r.specs(t.ids)...))
	if r.rng.IntN(2) == 0 {
		r.step(2, txCase{kind: t.kind, bytes: raw}, txCase{kind: t.kind, mut: "replay-same-block", bytes: raw})
	} else {
		r.step(2, txCase{kind: t.kind, bytes: raw})
	}
	r.step(3, txCase{kind: t.kind, mut: "replay-next-block", bytes: raw})
}

// replayAll restarts the application and resubmits every transaction accepted so far.
func (r *runner) replayAll(limit int) {
	if r.dead {
		return
	}
	if err := r.e.Ch.Restart(); err != nil {
		panic(err)
	}
	r.c.Count("restarts", 1)
	kept := r.kept
	if limit > 0 && len(kept) > limit {
		// deterministic sample: evenly spaced
		var s []txCase
		for i := 0; i < limit; i++ {
			s = append(s, kept[i*len(kept)/limit])
		}
		kept = s
	}
	for _, tc := range kept {
		r.step(1, txCase{kind: tc.kind, mut: "replay-after-restart", bytes: tc.bytes})
	}
}
