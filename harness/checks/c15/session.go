package c15

import (
	"github.com/gnolang/gno/tm2/pkg/std"

	"verifharness/checks/c15/txkit"
)

// far above every balance: spend limits are not C15's subject
var bigLimit = txkit.Ugnot(1_000_000_000_000_000)

// createSession delivers a master-signed create-session tx and returns the session identity.
func (r *runner) createSession(master *holder, k *txkit.Key, expiresAt int64) *holder {
	r.keys[k.Addr] = k
	b := txkit.Body{Msgs: []std.Msg{txkit.CreateSession(master.addr, k, expiresAt, []string{"*"}, bigLimit, 0)}, Fee: feeFor(gasSend)}
	r.playValid(template{kind: "create-session", body: b, ids: []*holder{master}})
	if r.dead {
		return nil
	}
	h := r.m.sess[sessKey{master.addr, k.Addr}]
	if h == nil {
		panic("create-session did not succeed: " + k.Name)
	}
	return h
}

func (r *runner) revoke(master *holder, k *txkit.Key) {
	b := txkit.Body{Msgs: []std.Msg{txkit.RevokeSession(master.addr, k)}, Fee: feeFor(gasSend)}
	r.playValid(template{kind: "revoke-session", body: b, ids: []*holder{master}})
}

func (r *runner) revokeAll(master *holder) {
	b := txkit.Body{Msgs: []std.Msg{txkit.RevokeAll(master.addr)}, Fee: feeFor(gasSend)}
	r.playValid(template{kind: "revoke-all-sessions", body: b, ids: []*holder{master}})
}

func groupSession(r *runner, w *world, nf, nb int, thorough bool) {
	// alice: ed25519 session; bob: secp256k1 session. alice has no public key on chain yet
	// (the session-key-as-master mutation then hits the first-use address check).
	s1 := r.createSession(w.alice, txkit.Ed("sess-1"), 0)
	s2 := r.createSession(w.bob, txkit.Secp("sess-2"), 0)
	if r.dead {
		return
	}
	t := r.tplSend("session-send", s1, w.carol.addr)
	ms := r.mutations(t, s2, nf, nb, thorough && r.id[1] == '1')
	r.play(t, ms)
	t = r.tplCall("session-call", s2)
	r.play(t, pickSome(r.rng, r.mutations(t, s1, 3, 3, false), 30))
	// two signers: one through a session, one with its own key, both orders
	t = r.tplMulti("multi-session-and-plain", []*holder{s1, w.dave}, w.carol.addr)
	r.play(t, pickSome(r.rng, r.mutations(t, s2, 2, 3, false), 30))
	t = r.tplMulti("multi-plain-and-session", []*holder{w.carol, s2}, w.dave.addr)
	r.play(t, pickSome(r.rng, r.mutations(t, s1, 2, 3, false), 20))
	// a session-signed tx whose message fails
	t = r.tplFailing("session-failing-message", s1, w.bob.addr)
	r.play(t, nil)

	// expiry: valid one second before, rejected at and after ExpiresAt
	now := r.e.Now.Unix()
	exp := now + 40
	s3 := r.createSession(w.carol, txkit.Ed("sess-3"), exp)
	if r.dead {
		return
	}
	t = r.tplSend("session-send-near-expiry", s3, w.dave.addr)
	r.step(exp-1-r.e.Now.Unix(), txCase{kind: t.kind, bytes: enc(r.build(t.body, r.spec(s3)))})
	for _, adv := range []int64{1, 1, 500} {
		t = r.tplSend("session-send-near-expiry", s3, w.dave.addr)
		r.step(adv, txCase{kind: t.kind, mut: "session-expired", bytes: enc(r.build(t.body, r.spec(s3)))})
	}

	// revoke: the session stops verifying; old session txs stay dead
	old1 := r.kept
	r.revoke(w.alice, s1.key)
	for i := 0; i < 2; i++ {
		t = r.tplSend("session-send", s1, w.carol.addr)
		r.step(2, txCase{kind: t.kind, mut: "session-revoked", bytes: enc(r.build(t.body, r.spec(s1)))})
	}
	// re-create the same key: new account number, sequence 0 again — old signatures must not come back to life
	oldNum := s1.num
	s1b := r.createSession(w.alice, s1.key, 0)
	if r.dead {
		return
	}
	if s1b.num == oldNum {
		r.c.Violation("session-recreated-with-same-account-number", map[string]any{"chain": r.id, "number": oldNum},
			"chain %s: a revoked and re-created session got the same account number %d: signatures for the old session are valid again", r.id, oldNum)
		r.dead = true
		return
	}
	for _, tc := range old1 {
		if tc.kind == "session-send" || tc.kind == "multi-session-and-plain" || tc.kind == "session-failing-message" {
			r.step(1, txCase{kind: tc.kind, mut: "session-recreated-old-tx", bytes: tc.bytes})
		}
	}
	// a tx signed with the old account number at sequence 0
	t = r.tplSend("session-send", s1b, w.carol.addr)
	r.step(2, txCase{kind: t.kind, mut: "session-recreated-old-number", bytes: enc(r.build(t.body, func() sspec { s := r.spec(s1b); s.dnum = int64(oldNum) - int64(s1b.num); return s }()))})
	r.play(t, pickSome(r.rng, r.mutations(t, s2, 1, 1, false), 6))

	// revoke-all: both of dave's sessions die together
	s4 := r.createSession(w.dave, txkit.Ed("sess-4"), 0)
	s5 := r.createSession(w.dave, txkit.Secp("sess-5"), 0)
	if r.dead {
		return
	}
	t = r.tplSend("session-send", s4, w.carol.addr)
	r.play(t, nil)
	r.revokeAll(w.dave)
	for _, s := range []*holder{s4, s5} {
		t = r.tplSend("session-send", s, w.carol.addr)
		r.step(2, txCase{kind: t.kind, mut: "session-revoked", bytes: enc(r.build(t.body, r.spec(s)))})
	}
	// bob's session is untouched by all of this
	t = r.tplSend("session-send", s2, w.carol.addr)
	r.play(t, nil)
}
