package c15

import (
	"bytes"
	"encoding/hex"
	"fmt"
	"sort"

	"github.com/gnolang/gno/tm2/pkg/amino"
	"github.com/gnolang/gno/tm2/pkg/crypto"
	"github.com/gnolang/gno/tm2/pkg/crypto/multisig"
	"github.com/gnolang/gno/tm2/pkg/sdk/auth"
	"github.com/gnolang/gno/tm2/pkg/std"

	"verifharness/checks/c15/txkit"
	"verifharness/internal/audit"
	"verifharness/internal/chainsim"
)

// holder is the harness's own record of one signing identity: a regular
// account or a session account. Nothing here is read back from the chain
// except the account number at the moment the identity first appears.
type holder struct {
	name    string
	addr    crypto.Address // account address (session: address of the session key)
	key     *txkit.Key     // key that controls the identity
	known   bool           // exists on chain
	num     uint64
	seq     uint64
	pubSet  bool
	master  *holder // non-nil for sessions
	expires int64   // sessions: 0 = never
}

// sigRec records how a signature byte string was produced.
type sigRec struct {
	pub   []byte // amino bytes of the signing public key
	chain string
	num   uint64
	seq   uint64
	body  string // txkit.BodyKey of the body that was signed
	good  bool   // a well-formed signature of that key over those parameters
}

type sessKey struct{ master, sess crypto.Address }

type model struct {
	acc     map[crypto.Address]*holder
	sess    map[sessKey]*holder
	sigs    map[string]*sigRec
	fees    int64 // what the fee collector must hold
	maxGas  int64
	inBlock map[crypto.Address]int64 // ugnot already charged in the current block (model)
}

func newModel(maxGas int64) *model {
	return &model{acc: map[crypto.Address]*holder{}, sess: map[sessKey]*holder{}, sigs: map[string]*sigRec{}, maxGas: maxGas, inBlock: map[crypto.Address]int64{}}
}

func (m *model) addKey(k *txkit.Key) *holder {
	h := &holder{name: k.Name, addr: k.Addr, key: k}
	m.acc[k.Addr] = h
	return h
}

// learn records the account number of identities that appeared on chain.
func (m *model) learn(v *audit.View) {
	for _, h := range m.acc {
		if !h.known {
			if ok, num, _, _ := txkit.Account(v, h.addr); ok {
				h.known, h.num = true, num
			}
		}
	}
}

func (m *model) register(sig []byte, r *sigRec) { m.sigs[hex.EncodeToString(sig)] = r }

// signers is the harness's own de-duplication of required signers.
func signersOf(msgs []std.Msg) []crypto.Address {
	var out []crypto.Address
	for _, msg := range msgs {
		for _, a := range msg.GetSigners() {
			dup := false
			for _, b := range out {
				if a == b {
					dup = true
				}
			}
			if !dup {
				out = append(out, a)
			}
		}
	}
	return out
}

func subKeys(p crypto.PubKey) int { return std.CountSubKeys(p) }

// expect decides, from the model alone, whether tx must pass the ante
// handler. bal gives the committed ugnot balance of an address.
func (m *model) expect(tx std.Tx, nbytes int, now int64, bal func(crypto.Address) int64) (bool, string, []*holder) {
	if len(tx.Msgs) == 0 {
		return false, "no-msgs", nil
	}
	for _, msg := range tx.Msgs {
		if msg.ValidateBasic() != nil {
			return false, "msg-invalid", nil
		}
	}
	if tx.Fee.GasWanted > m.maxGas {
		return false, "gas-above-block-max", nil
	}
	if tx.Fee.GasWanted < 10*int64(nbytes) {
		return false, "gas-below-tx-size-cost", nil
	}
	if tx.Fee.GasFee.Amount < 0 || (tx.Fee.GasFee.Amount != 0 && tx.Fee.GasFee.Denom != "ugnot") || !tx.Fee.GasFee.IsValid() {
		return false, "fee-invalid", nil
	}
	if len(tx.Memo) > 65536 {
		return false, "memo", nil
	}
	signers := signersOf(tx.Msgs)
	if len(tx.Signatures) == 0 || len(tx.Signatures) != len(signers) {
		return false, "sig-count", nil
	}
	n := 0
	for _, s := range tx.Signatures {
		n += subKeys(s.PubKey)
	}
	if n > 7 {
		return false, "too-many-subkeys", nil
	}
	body := txkit.BodyKey(tx.Msgs, tx.Fee, tx.Memo)
	hs := make([]*holder, len(signers))
	for i, a := range signers {
		acc := m.acc[a]
		if acc == nil || !acc.known {
			return false, "unknown-account", nil
		}
		hs[i] = acc
		if sa := tx.Signatures[i].SessionAddr; !sa.IsZero() {
			s := m.sess[sessKey{a, sa}]
			if s == nil {
				return false, "unknown-session", nil
			}
			if s.expires > 0 && now >= s.expires {
				return false, "session-expired", nil
			}
			hs[i] = s
		}
	}
	if fee := tx.Fee.GasFee.Amount; fee > 0 {
		if bal(signers[0])-m.inBlock[signers[0]] < fee {
			return false, "insufficient-funds-for-fee", nil
		}
	}
	for i, h := range hs {
		sig := tx.Signatures[i]
		var pub []byte
		switch {
		case sig.PubKey == nil:
			if !h.pubSet {
				return false, "no-pubkey", nil
			}
			pub = h.key.Pub.Bytes()
		case !h.pubSet:
			if h.master == nil && sig.PubKey.Address() != h.addr {
				return false, "pubkey-address-mismatch", nil
			}
			pub = sig.PubKey.Bytes()
		default:
			if !bytes.Equal(sig.PubKey.Bytes(), h.key.Pub.Bytes()) {
				return false, "pubkey-differs-from-stored", nil
			}
			pub = h.key.Pub.Bytes()
		}
		var pk crypto.PubKey = h.key.Pub
		if sig.PubKey != nil {
			pk = sig.PubKey
		}
		if mk, ok := pk.(multisig.PubKeyMultisigThreshold); ok {
			// a multisignature is a container: decide on its content (which sub-keys are marked, what each listed signature is)
			if why := m.multisigContent(mk, sig.Signature, h, body); why != "" {
				return false, why, nil
			}
			continue
		}
		if why := m.single(sig.Signature, pub, h, body); why != "" {
			return false, why, nil
		}
	}
	return true, "valid", hs
}

// single decides one plain signature from the registry.
func (m *model) single(sig []byte, pub []byte, h *holder, body string) string {
	r := m.sigs[hex.EncodeToString(sig)]
	switch {
	case r == nil || !r.good:
		return "not-a-signature"
	case !bytes.Equal(r.pub, pub):
		return "signed-by-other-key"
	case r.chain != chainsim.ChainID:
		return "signed-other-chain"
	case r.num != h.num:
		return "signed-other-account-number"
	case r.seq != h.seq:
		return "signed-other-sequence"
	case r.body != body:
		return "signed-other-body"
	}
	return ""
}

// multisigContent decodes the container with the wire codec and applies the
// documented k-of-n rule with the harness's own bit arithmetic: the bit array
// has exactly n positions, at least k are marked, between k and n signatures
// are listed, and the j-th listed signature is a signature of the j-th marked
// sub-key over the expected sign doc.
func (m *model) multisigContent(mk multisig.PubKeyMultisigThreshold, blob []byte, h *holder, body string) string {
	var ms multisig.Multisignature
	if err := amino.Unmarshal(blob, &ms); err != nil {
		return "multisig-undecodable"
	}
	n := len(mk.PubKeys)
	if ms.BitArray == nil {
		return "multisig-bitarray-size"
	}
	size := len(ms.BitArray.Elems) * 8
	if ms.BitArray.ExtraBitsStored != 0 {
		size = (len(ms.BitArray.Elems)-1)*8 + int(ms.BitArray.ExtraBitsStored)
	}
	if size != n {
		return "multisig-bitarray-size"
	}
	if len(ms.Sigs) < int(mk.K) || len(ms.Sigs) > n {
		return "multisig-signature-count"
	}
	var marked []int
	for i := 0; i < n; i++ {
		if i>>3 >= len(ms.BitArray.Elems) {
			return "multisig-bitarray-size"
		}
		if ms.BitArray.Elems[i>>3]&(1<<uint(7-i%8)) != 0 {
			marked = append(marked, i)
		}
	}
	if len(marked) < int(mk.K) {
		return "multisig-below-threshold"
	}
	if len(marked) > len(ms.Sigs) {
		return "multisig-more-marks-than-signatures"
	}
	for j, i := range marked {
		if why := m.single(ms.Sigs[j], mk.PubKeys[i].Bytes(), h, body); why != "" {
			return "multisig-sub:" + why
		}
	}
	return ""
}

// accept applies the ante effects of an accepted tx to the model.
func (m *model) accept(tx std.Tx, hs []*holder) {
	for _, h := range hs {
		h.seq++
		h.pubSet = true
	}
	m.fees += tx.Fee.GasFee.Amount
	m.inBlock[signersOf(tx.Msgs)[0]] += tx.Fee.GasFee.Amount
}

// executed applies the model-relevant effects of the messages of a succeeded tx.
func (m *model) executed(tx std.Tx, v *audit.View, keys map[crypto.Address]*txkit.Key, now int64) error {
	for _, msg := range tx.Msgs {
		switch t := msg.(type) {
		case auth.MsgCreateSession:
			sa := t.SessionKey.Address()
			da := txkit.Session(v, t.Creator, sa)
			if da == nil {
				return fmt.Errorf("create-session succeeded but no session record for %s", sa)
			}
			k := keys[sa]
			if k == nil {
				return fmt.Errorf("session key %s not in key table", sa)
			}
			m.sess[sessKey{t.Creator, sa}] = &holder{name: k.Name, addr: sa, key: k, known: true, num: da.GetAccountNumber(), pubSet: true, master: m.acc[t.Creator], expires: t.ExpiresAt}
		case auth.MsgRevokeSession:
			delete(m.sess, sessKey{t.Creator, t.SessionKey.Address()})
		case auth.MsgRevokeAllSessions:
			for k := range m.sess {
				if k.master == t.Creator {
					delete(m.sess, k)
				}
			}
		}
	}
	m.learn(v)
	return nil
}

// verify compares every identity of the model and the fee pot with the committed state.
func (m *model) verify(v *audit.View) []string {
	var out []string
	addrs := make([]string, 0, len(m.acc))
	byS := map[string]*holder{}
	for _, h := range m.acc {
		addrs = append(addrs, h.name)
		byS[h.name] = h
	}
	sort.Strings(addrs)
	for _, n := range addrs {
		h := byS[n]
		ok, num, seq, pub := txkit.Account(v, h.addr)
		if ok != h.known {
			out = append(out, fmt.Sprintf("account %s: exists=%v, model %v", h.name, ok, h.known))
			continue
		}
		if !ok {
			continue
		}
		if num != h.num {
			out = append(out, fmt.Sprintf("account %s: account number %d, model %d", h.name, num, h.num))
		}
		if seq != h.seq {
			out = append(out, fmt.Sprintf("account %s: sequence %d, model %d", h.name, seq, h.seq))
		}
		if (pub != nil) != h.pubSet {
			out = append(out, fmt.Sprintf("account %s: pubkey set=%v, model %v", h.name, pub != nil, h.pubSet))
		} else if pub != nil && !bytes.Equal(pub.Bytes(), h.key.Pub.Bytes()) {
			out = append(out, fmt.Sprintf("account %s: stored pubkey is not the account's key", h.name))
		}
	}
	var sk []sessKey
	for k := range m.sess {
		sk = append(sk, k)
	}
	sort.Slice(sk, func(i, j int) bool { return m.sess[sk[i]].name < m.sess[sk[j]].name })
	for _, k := range sk {
		h := m.sess[k]
		da := txkit.Session(v, k.master, k.sess)
		if da == nil {
			out = append(out, fmt.Sprintf("session %s: missing on chain", h.name))
			continue
		}
		if da.GetAccountNumber() != h.num {
			out = append(out, fmt.Sprintf("session %s: account number %d, model %d", h.name, da.GetAccountNumber(), h.num))
		}
		if da.GetSequence() != h.seq {
			out = append(out, fmt.Sprintf("session %s: sequence %d, model %d", h.name, da.GetSequence(), h.seq))
		}
	}
	if got := txkit.Amount(v, txkit.FeeCollector(), "ugnot"); got != m.fees {
		out = append(out, fmt.Sprintf("fee collector holds %d, sum of fees of accepted txs is %d", got, m.fees))
	}
	return out
}
