// Package txkit: helpers shared by the C15 and C16 chain checks (no check is
// registered here): deterministic keys of every supported kind, explicit
// signing with chosen (chain id, account number, sequence), session messages,
// and a block stepper that snapshots the committed state before and after
// every block through the independent audit view.
package txkit

import (
	"bytes"
	"crypto/sha256"
	"encoding/hex"
	"fmt"
	"sort"
	"time"

	"github.com/gnolang/gno/gno.land/pkg/gnoland"
	"github.com/gnolang/gno/tm2/pkg/amino"
	abci "github.com/gnolang/gno/tm2/pkg/bft/abci/types"
	"github.com/gnolang/gno/tm2/pkg/crypto"
	"github.com/gnolang/gno/tm2/pkg/crypto/ed25519"
	"github.com/gnolang/gno/tm2/pkg/crypto/multisig"
	"github.com/gnolang/gno/tm2/pkg/crypto/secp256k1"
	"github.com/gnolang/gno/tm2/pkg/sdk/auth"
	"github.com/gnolang/gno/tm2/pkg/std"

	"verifharness/internal/audit"
	"verifharness/internal/chainsim"
)

// ---------------------------------------------------------------- keys

// Key is a deterministic test key (single key or k-of-n multisig).
type Key struct {
	Name string
	Kind string // secp256k1 | ed25519 | multisig
	Priv crypto.PrivKey
	Pub  crypto.PubKey
	Addr crypto.Address
	K    int
	Subs []*Key
}

func Secp(name string) *Key {
	k := secp256k1.GenPrivKeySecp256k1([]byte("verif-key-" + name))
	return &Key{Name: name, Kind: "secp256k1", Priv: k, Pub: k.PubKey(), Addr: k.PubKey().Address()}
}

func Ed(name string) *Key {
	k := ed25519.GenPrivKeyFromSecret([]byte("verif-key-" + name))
	return &Key{Name: name, Kind: "ed25519", Priv: k, Pub: k.PubKey(), Addr: k.PubKey().Address()}
}

// FromChainsim wraps a chainsim account key (secp256k1, same derivation as Secp).
func FromChainsim(a *chainsim.Account) *Key {
	return &Key{Name: a.Name, Kind: "secp256k1", Priv: a.Key, Pub: a.Key.PubKey(), Addr: a.Addr}
}

func Multi(name string, k int, subs ...*Key) *Key {
	pubs := make([]crypto.PubKey, len(subs))
	for i, s := range subs {
		pubs[i] = s.Pub
	}
	pk := multisig.NewPubKeyMultisigThreshold(k, pubs)
	return &Key{Name: name, Kind: "multisig", Pub: pk, Addr: pk.Address(), K: k, Subs: subs}
}

// Body is the signed part of a transaction.
type Body struct {
	Msgs []std.Msg
	Fee  std.Fee
	Memo string
}

// BodyKey identifies a body (hash of its amino encoding without signatures).
func BodyKey(msgs []std.Msg, fee std.Fee, memo string) string {
	h := sha256.Sum256(amino.MustMarshal(std.Tx{Msgs: msgs, Fee: fee, Memo: memo}))
	return hex.EncodeToString(h[:12])
}

// SignBytes are the bytes a client signs (the documented sign doc).
func SignBytes(b Body, chain string, accNum, seq uint64) []byte {
	sb, err := std.Tx{Msgs: b.Msgs, Fee: b.Fee, Memo: b.Memo}.GetSignBytes(chain, accNum, seq)
	if err != nil {
		panic(err)
	}
	return sb
}

// SignRaw signs with a single key.
func (k *Key) SignRaw(msg []byte) []byte {
	if k.Priv == nil {
		panic("SignRaw on multisig key " + k.Name)
	}
	s, err := k.Priv.Sign(msg)
	if err != nil {
		panic(err)
	}
	return s
}

// MultiSig builds the marshalled multisignature where sub-key i signs iff
// who[i]; bits (optional) overrides the bit array that is written (same length
// semantics as the compact bit array: bits[i] set ⇒ index i marked).
func (k *Key) MultiSig(msg []byte, who []bool, bits []bool) []byte {
	n := len(k.Subs)
	if bits != nil {
		n = len(bits)
	}
	ms := multisig.NewMultisig(n)
	if bits == nil {
		for i, s := range k.Subs {
			if who[i] {
				ms.AddSignature(s.SignRaw(msg), i)
			}
		}
		return ms.Marshal()
	}
	// explicit bit array: signatures listed in index order of the signing sub-keys
	for i := range bits {
		if bits[i] {
			ms.BitArray.SetIndex(i, true)
		}
	}
	for i, s := range k.Subs {
		if i < len(who) && who[i] {
			ms.Sigs = append(ms.Sigs, s.SignRaw(msg))
		}
	}
	return ms.Marshal()
}

// MultiSigFromParts builds a marshalled multisignature over n sub-keys from
// per-index signatures (nil = sub-key did not sign).
func MultiSigFromParts(n int, parts [][]byte) []byte {
	ms := multisig.NewMultisig(n)
	for i, p := range parts {
		if p != nil {
			ms.AddSignature(p, i)
		}
	}
	return ms.Marshal()
}

// FlipBit returns a copy of b with bit i flipped.
func FlipBit(b []byte, i int) []byte {
	o := append([]byte(nil), b...)
	o[i/8] ^= 1 << uint(i%8)
	return o
}

// ---------------------------------------------------------------- messages

func Ugnot(n int64) std.Coins {
	if n == 0 {
		return nil
	}
	return std.Coins{{Denom: "ugnot", Amount: n}}
}

func Fee(gas, ugnot int64) std.Fee {
	return std.Fee{GasWanted: gas, GasFee: std.Coin{Denom: "ugnot", Amount: ugnot}}
}

func CreateSession(master crypto.Address, sess *Key, expiresAt int64, allow []string, limit std.Coins, period int64) auth.MsgCreateSession {
	return auth.MsgCreateSession{Creator: master, SessionKey: sess.Pub, ExpiresAt: expiresAt, AllowPaths: allow, SpendLimit: limit, SpendPeriod: period}
}

func RevokeSession(master crypto.Address, sess *Key) auth.MsgRevokeSession {
	return auth.MsgRevokeSession{Creator: master, SessionKey: sess.Pub}
}

func RevokeAll(master crypto.Address) auth.MsgRevokeAllSessions {
	return auth.MsgRevokeAllSessions{Creator: master}
}

// ---------------------------------------------------------------- stepper

// Env drives one chain block by block with explicit header times and keeps
// the last committed snapshot.
type Env struct {
	Ch   *chainsim.Chain
	Now  time.Time
	Last *audit.State
	View *audit.View
}

// Start creates a chain, runs InitChain with the state built by gen, commits
// block 1 (genesis) and takes the first snapshot.
func Start(opts chainsim.Options, gen func(ch *chainsim.Chain) gnoland.GnoGenesisState) (*Env, error) {
	ch, err := chainsim.New(opts)
	if err != nil {
		return nil, err
	}
	r := ch.InitChain(gen(ch))
	if r.Error != nil {
		return nil, fmt.Errorf("initchain: %s", r.Error.Error())
	}
	for i, tr := range r.TxResponses {
		if tr.Error != nil {
			return nil, fmt.Errorf("genesis tx %d: %s\n%s", i, tr.Error.Error(), tr.Log)
		}
	}
	e := &Env{Ch: ch, Now: ch.Time}
	e.Block(1)
	return e, nil
}

// Obs is what one block produced.
type Obs struct {
	Height  int64
	Time    int64
	Res     []*chainsim.TxResult
	Before  *audit.State
	After   *audit.State
	View    *audit.View // view of After
	MainDif []string    // changed main-store keys, gas-price record excluded
	BaseDif []string    // changed GnoVM base-store keys
}

// Empty reports whether the block changed nothing (gas-price record aside).
func (o *Obs) Empty() bool { return len(o.MainDif)+len(o.BaseDif) == 0 }

// DiffClasses renders the changed keys by class.
func (o *Obs) DiffClasses() string {
	m := map[string]int{}
	for _, k := range o.MainDif {
		m[audit.KeyClass(k)]++
	}
	if len(o.BaseDif) > 0 {
		m["gnovm"] = len(o.BaseDif)
	}
	var ks []string
	for k := range m {
		ks = append(ks, k)
	}
	sort.Strings(ks)
	var b bytes.Buffer
	for _, k := range ks {
		fmt.Fprintf(&b, "%s×%d ", k, m[k])
	}
	return b.String()
}

// Block runs one block `advance` seconds after the previous one.
func (e *Env) Block(advance int64, txs ...[]byte) *Obs {
	return e.BlockAt(e.Now.Add(time.Duration(advance)*time.Second), txs...)
}

// BlockAt runs one block with header time t.
func (e *Env) BlockAt(t time.Time, txs ...[]byte) *Obs {
	e.Now = t
	e.Ch.BeginBlockAt(t)
	o := &Obs{Time: t.Unix(), Before: e.Last}
	for _, tx := range txs {
		o.Res = append(o.Res, e.Ch.Deliver(tx))
	}
	e.Ch.EndBlockCommit()
	o.Height = e.Ch.Height
	st, v, err := audit.Snapshot(e.Ch.DB, 0)
	if err != nil {
		panic(err)
	}
	o.After, o.View = st, v
	if o.Before != nil {
		for _, k := range audit.DiffKV(o.Before.Main, st.Main).All() {
			if audit.KeyClass(k) != "gasprice" {
				o.MainDif = append(o.MainDif, k)
			}
		}
		o.BaseDif = audit.DiffKV(o.Before.Base, st.Base).All()
	}
	e.Last, e.View = st, v
	return o
}

// CheckTx runs the mempool check on the current check state.
func (e *Env) CheckTx(tx []byte) abci.ResponseCheckTx {
	return e.Ch.App.CheckTx(abci.RequestCheckTx{Tx: tx})
}

// ---------------------------------------------------------------- view readers

// Coins reads the full balance of addr on the committed view.
func Coins(v *audit.View, addr crypto.Address) std.Coins { return v.Bankk.GetCoins(v.Ctx, addr) }

// Amount reads one denomination.
func Amount(v *audit.View, addr crypto.Address, denom string) int64 {
	return Coins(v, addr).AmountOf(denom)
}

// Account reads (exists, account number, sequence, pubkey) of a regular account.
func Account(v *audit.View, addr crypto.Address) (ok bool, num, seq uint64, pub crypto.PubKey) {
	a := v.Acck.GetAccount(v.Ctx, addr)
	if a == nil {
		return false, 0, 0, nil
	}
	return true, a.GetAccountNumber(), a.GetSequence(), a.GetPubKey()
}

// Session reads a session record.
func Session(v *audit.View, master, sess crypto.Address) std.DelegatedAccount {
	a := v.Acck.GetSessionAccount(v.Ctx, master, sess)
	if a == nil {
		return nil
	}
	return a.(std.DelegatedAccount)
}

// FeeCollector is the default fee collector address.
func FeeCollector() crypto.Address { return crypto.AddressFromPreimage([]byte(auth.DefaultFeeCollectorName)) }

// Clip shortens s.
func Clip(s string, n int) string {
	if len(s) > n {
		return s[:n] + "…"
	}
	return s
}
