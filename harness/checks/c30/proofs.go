package c30

import (
	"bytes"
	"crypto/sha256"
	"encoding/binary"
	"errors"
	"fmt"
	"sort"

	ics23 "github.com/cosmos/ics23/go"

	"github.com/gnolang/gno/tm2/pkg/iavl"

	"verifharness/internal/vf"
)

func uvarint(n uint64) []byte {
	var b [binary.MaxVarintLen64]byte
	return b[:binary.PutUvarint(b[:], n)]
}

func svarint(n int64) []byte {
	var b [binary.MaxVarintLen64]byte
	return b[:binary.PutVarint(b[:], n)]
}

// indepRoot recomputes the root an existence proof commits to, with nothing but sha256:
// leaf = H(prefix || len(key) || key || len(H(value)) || H(value)), inner = H(prefix || child || suffix).
func indepRoot(ep *ics23.ExistenceProof) ([]byte, error) {
	if ep == nil || ep.Leaf == nil {
		return nil, errors.New("no leaf op")
	}
	vh := sha256.Sum256(ep.Value)
	h := sha256.New()
	h.Write(ep.Leaf.Prefix)
	h.Write(uvarint(uint64(len(ep.Key))))
	h.Write(ep.Key)
	h.Write(uvarint(uint64(len(vh))))
	h.Write(vh[:])
	cur := h.Sum(nil)
	for _, in := range ep.Path {
		if in == nil {
			return nil, errors.New("nil inner op")
		}
		h := sha256.New()
		h.Write(in.Prefix)
		h.Write(cur)
		h.Write(in.Suffix)
		cur = h.Sum(nil)
	}
	return cur, nil
}

// innerMeta parses (height, size, version) from an inner op prefix.
func innerMeta(in *ics23.InnerOp) (h, size, ver int64, ok bool) {
	p := in.Prefix
	var n int
	if h, n = binary.Varint(p); n <= 0 {
		return
	}
	p = p[n:]
	if size, n = binary.Varint(p); n <= 0 {
		return
	}
	p = p[n:]
	if ver, n = binary.Varint(p); n <= 0 {
		return
	}
	p = p[n:]
	// remaining: 0x20 (child on the left, suffix holds the right sibling) or 0x20 <32> 0x20
	switch {
	case len(p) == 1 && p[0] == 0x20 && len(in.Suffix) == 33 && in.Suffix[0] == 0x20:
		ok = true
	case len(p) == 34 && p[0] == 0x20 && p[33] == 0x20 && len(in.Suffix) == 0:
		ok = true
	}
	return
}

func cloneProof(p *ics23.CommitmentProof) *ics23.CommitmentProof {
	bz, err := p.Marshal()
	if err != nil {
		panic(err)
	}
	q := &ics23.CommitmentProof{}
	if err := q.Unmarshal(bz); err != nil {
		panic(err)
	}
	return q
}

func flipBit(b []byte, i int) []byte {
	o := append([]byte{}, b...)
	if len(o) == 0 {
		return []byte{1}
	}
	o[i%len(o)] ^= 1 << uint(i%8)
	return o
}

// checkExist validates one existence proof for (k, M[k]) under root H.
func (t *twin) checkExist(ep *ics23.ExistenceProof, k string, M content, v int64, H []byte, where string) bool {
	e := M[k]
	w := map[string]any{"where": where, "key": fmt.Sprintf("%x", k), "version": v}
	if ep == nil || string(ep.Key) != k || !bytes.Equal(ep.Value, e.val) {
		t.failf("proof:exist-wrong-kv", w, "%s: existence proof for %x carries key %x value %x, model value %x", where, k, ep.GetKey(), ep.GetValue(), e.val)
		return false
	}
	root, err := indepRoot(ep)
	if err != nil || !bytes.Equal(root, H) {
		w["computed_root"], w["root"] = vf.Hex(root), vf.Hex(H)
		t.failf("proof:exist-root-mismatch", w, "%s: existence proof for %x recomputes (sha256 only) to root %x, the version's root hash is %x (err=%v)", where, k, root, H, err)
		return false
	}
	wantPrefix := append(append(svarint(0), svarint(1)...), svarint(e.ver)...)
	if !bytes.Equal(ep.Leaf.Prefix, wantPrefix) {
		w["leaf_prefix"], w["want"] = vf.Hex(ep.Leaf.Prefix), vf.Hex(wantPrefix)
		t.failf("proof:leaf-prefix", w, "%s: leaf op prefix %x, want height 0 / size 1 / version %d = %x", where, ep.Leaf.Prefix, e.ver, wantPrefix)
		return false
	}
	prevH := int64(0)
	for i, in := range ep.Path {
		h, size, ver, ok := innerMeta(in)
		if !ok || h <= prevH || ver <= 0 || ver > v || size < 2 {
			w["step"] = i
			t.failf("proof:inner-op-shape", w, "%s: inner op %d of the proof for %x is malformed (height %d after %d, size %d, version %d)", where, i, k, h, prevH, size, ver)
			return false
		}
		prevH = h
		if i == len(ep.Path)-1 && size != int64(len(M)) {
			t.failf("proof:root-size", w, "%s: the root step of the proof for %x claims %d leaves, the version has %d", where, k, size, len(M))
			return false
		}
	}
	return true
}

// checkProofs: membership and non-membership proofs of version v verify for the true
// (key, value, root) and for nothing else.
func (t *twin) checkProofs(it *iavl.ImmutableTree, v int64, M content, H, otherRoot []byte) {
	keys := M.keys()
	where := fmt.Sprintf("version %d", v)
	spec := ics23.IavlSpec
	tr := t.tree
	t.guard("proofs:"+where, func() {
		if len(keys) == 0 {
			// no proof can be built for an empty tree: documented error
			if p, err := it.GetProof([]byte{0x01}); err == nil && ics23.VerifyMembership(spec, H, p, []byte{0x01}, []byte{}) {
				t.failf("proof:false-membership-verifies", map[string]any{"where": where, "empty_tree": true}, "%s: a membership proof verified against an empty tree", where)
			}
			t.c.Count("proof:empty-tree", 1)
			return
		}
		present, absent := t.probes(M, keys, 6)
		// ---- membership
		for _, k := range present {
			kb := []byte(k)
			val := M[k].val
			w := func() map[string]any {
				return map[string]any{"where": where, "key": fmt.Sprintf("%x", k), "value": vf.Hex(val), "root": vf.Hex(H)}
			}
			if len(val) == 0 {
				// ics23 cannot express a leaf with an empty value ("leaf op needs value"): not judged
				t.c.Count("observed:empty-value-key-has-no-verifiable-proof", 1)
				continue
			}
			p, err := it.GetMembershipProof(kb)
			if err != nil || p.GetExist() == nil {
				t.failf("proof:membership-unavailable", w(), "%s: GetMembershipProof(%x) failed for a present key: %v", where, k, err)
				return
			}
			if !t.checkExist(p.GetExist(), k, M, v, H, where) {
				return
			}
			if !ics23.VerifyMembership(spec, H, p, kb, val) {
				t.failf("proof:membership-rejected", w(), "%s: ics23 rejects the membership proof of (%x,%x) under the version's root", where, k, val)
				return
			}
			if ok, err := it.VerifyMembership(p, kb); !ok || err != nil {
				t.failf("proof:membership-rejected", w(), "%s: tree.VerifyMembership rejects its own proof for %x (%v,%v)", where, k, ok, err)
				return
			}
			if ok, err := it.VerifyProof(p, kb); !ok || err != nil {
				t.failf("proof:membership-rejected", w(), "%s: tree.VerifyProof rejects the membership proof for %x (%v,%v)", where, k, ok, err)
				return
			}
			p2, err := it.GetProof(kb)
			if err != nil || p2.GetExist() == nil || !ics23.VerifyMembership(spec, H, p2, kb, val) {
				t.failf("proof:getproof-present", w(), "%s: GetProof(%x) did not give a verifying membership proof (err=%v)", where, k, err)
				return
			}
			p3, err := tr.GetVersionedProof(kb, v)
			if err != nil || !ics23.VerifyMembership(spec, H, p3, kb, val) {
				t.failf("proof:getversionedproof", w(), "%s: GetVersionedProof(%x,%d) did not give a verifying membership proof (err=%v)", where, k, v, err)
				return
			}
			t.c.Count("proof:membership-verified", 1)
			// ---- the same proof must fail for anything else
			neg := func(what string, ok bool) bool {
				t.c.Count("proof:negative-checks", 1)
				if ok {
					x := w()
					x["altered"] = what
					t.failf("proof:false-membership-verifies", x, "%s: membership proof of %x still verifies with %s", where, k, what)
					return false
				}
				return true
			}
			if !neg("an altered value", ics23.VerifyMembership(spec, H, p, kb, flipBit(val, t.r.IntN(64)))) ||
				!neg("a truncated/extended value", ics23.VerifyMembership(spec, H, p, kb, append(append([]byte{}, val...), 0))) ||
				!neg("an altered key", ics23.VerifyMembership(spec, H, p, flipBit(kb, t.r.IntN(64)), val)) ||
				!neg("an altered root", ics23.VerifyMembership(spec, flipBit(H, t.r.IntN(256)), p, kb, val)) {
				return
			}
			if otherRoot != nil && !neg("the root of another version", ics23.VerifyMembership(spec, otherRoot, p, kb, val)) {
				return
			}
			if len(keys) > 1 {
				o := keys[t.r.IntN(len(keys))]
				if o != k {
					if !neg("another present key", ics23.VerifyMembership(spec, H, p, []byte(o), val)) {
						return
					}
					ok, _ := it.VerifyMembership(p, []byte(o))
					if !neg("another present key (tree.VerifyMembership)", ok) {
						return
					}
				}
			}
			// tampered proofs with the true (key, value, root)
			tp := cloneProof(p)
			tp.GetExist().Value = flipBit(val, 3)
			if !neg("a tampered proof value", ics23.VerifyMembership(spec, H, tp, kb, val)) {
				return
			}
			tp = cloneProof(p)
			tp.GetExist().Leaf.Prefix = flipBit(tp.GetExist().Leaf.Prefix, 16+t.r.IntN(8))
			if !neg("a tampered leaf prefix (leaf version)", ics23.VerifyMembership(spec, H, tp, kb, val)) {
				return
			}
			if path := p.GetExist().Path; len(path) > 0 {
				tp = cloneProof(p)
				i := t.r.IntN(len(path))
				in := tp.GetExist().Path[i]
				if len(in.Suffix) > 0 && t.r.IntN(2) == 0 {
					in.Suffix = flipBit(in.Suffix, 8+t.r.IntN(200))
				} else {
					in.Prefix = flipBit(in.Prefix, t.r.IntN(8*len(in.Prefix)))
				}
				if !neg("a tampered path step", ics23.VerifyMembership(spec, H, tp, kb, val)) {
					return
				}
				tp = cloneProof(p)
				tp.GetExist().Path = tp.GetExist().Path[:len(path)-1]
				if !neg("a shortened path", ics23.VerifyMembership(spec, H, tp, kb, val)) {
					return
				}
			}
			// a present key has no absence proof
			if np, err := it.GetNonMembershipProof(kb); err == nil {
				if !neg("a non-membership proof for a present key", ics23.VerifyNonMembership(spec, H, np, kb)) {
					return
				}
			}
			if !neg("VerifyNonMembership of a membership proof", ics23.VerifyNonMembership(spec, H, p, kb)) {
				return
			}
			if ok, _ := it.VerifyNonMembership(p, kb); !neg("tree.VerifyNonMembership of a membership proof", ok) {
				return
			}
		}
		// ---- non-membership, every position class
		for _, a := range absent {
			i := sort.SearchStrings(keys, string(a))
			class := "between"
			switch {
			case i == 0:
				class = "below-min"
			case i == len(keys):
				class = "above-max"
			case len(a) < len(keys[i]) && keys[i][:len(a)] == string(a):
				class = "prefix-of-successor"
			case len(keys[i-1]) < len(a) && string(a[:len(keys[i-1])]) == keys[i-1]:
				class = "extension-of-predecessor"
			}
			w := func() map[string]any {
				return map[string]any{"where": where, "absent_key": vf.Hex(a), "class": class, "root": vf.Hex(H)}
			}
			if (i > 0 && len(M[keys[i-1]].val) == 0) || (i < len(keys) && len(M[keys[i]].val) == 0) {
				t.c.Count("observed:empty-value-key-has-no-verifiable-proof", 1)
				continue // a neighbour with an empty value cannot be proven with ics23
			}
			p, err := it.GetNonMembershipProof(a)
			if err != nil || p.GetNonexist() == nil {
				t.failf("proof:nonmembership-unavailable", w(), "%s: GetNonMembershipProof(%x) failed for an absent key: %v", where, a, err)
				return
			}
			np := p.GetNonexist()
			if !bytes.Equal(np.Key, a) {
				t.failf("proof:nonexist-wrong-key", w(), "%s: non-membership proof for %x carries key %x", where, a, np.Key)
				return
			}
			// neighbours must be the model's predecessor and successor
			if (i == 0) != (np.Left == nil) || (i == len(keys)) != (np.Right == nil) {
				t.failf("proof:nonexist-neighbours", w(), "%s: non-membership proof for %x (%s) has left=%v right=%v", where, a, class, np.Left != nil, np.Right != nil)
				return
			}
			if np.Left != nil && !t.checkExist(np.Left, keys[i-1], M, v, H, where) {
				return
			}
			if np.Right != nil && !t.checkExist(np.Right, keys[i], M, v, H, where) {
				return
			}
			if !ics23.VerifyNonMembership(spec, H, p, a) {
				t.failf("proof:nonmembership-rejected", w(), "%s: ics23 rejects the non-membership proof of %x (%s) under the version's root", where, a, class)
				return
			}
			if ok, err := it.VerifyNonMembership(p, a); !ok || err != nil {
				t.failf("proof:nonmembership-rejected", w(), "%s: tree.VerifyNonMembership rejects its own proof for %x (%v,%v)", where, a, ok, err)
				return
			}
			if ok, err := it.VerifyProof(p, a); !ok || err != nil {
				t.failf("proof:nonmembership-rejected", w(), "%s: tree.VerifyProof rejects the non-membership proof for %x (%v,%v)", where, a, ok, err)
				return
			}
			p2, err := tr.GetVersionedProof(a, v)
			if err != nil || p2.GetNonexist() == nil || !ics23.VerifyNonMembership(spec, H, p2, a) {
				t.failf("proof:getversionedproof", w(), "%s: GetVersionedProof(%x,%d) did not give a verifying non-membership proof (err=%v)", where, a, v, err)
				return
			}
			t.c.Count("proof:nonmembership-verified", 1)
			t.c.Count("proof:absent-class:"+class, 1)
			neg := func(what string, ok bool) bool {
				t.c.Count("proof:negative-checks", 1)
				if ok {
					x := w()
					x["altered"] = what
					t.failf("proof:false-nonmembership-verifies", x, "%s: non-membership proof of %x still verifies with %s", where, a, what)
					return false
				}
				return true
			}
			if !neg("an altered root", ics23.VerifyNonMembership(spec, flipBit(H, t.r.IntN(256)), p, a)) {
				return
			}
			if otherRoot != nil && !neg("the root of another version", ics23.VerifyNonMembership(spec, otherRoot, p, a)) {
				return
			}
			// the neighbours themselves and keys outside the gap are present / not covered
			if np.Left != nil && !neg("the left neighbour (a present key)", ics23.VerifyNonMembership(spec, H, p, np.Left.Key)) {
				return
			}
			if np.Right != nil && !neg("the right neighbour (a present key)", ics23.VerifyNonMembership(spec, H, p, np.Right.Key)) {
				return
			}
			o := []byte(keys[t.r.IntN(len(keys))])
			if !neg("a present key", ics23.VerifyNonMembership(spec, H, p, o)) {
				return
			}
			if ok, _ := it.VerifyNonMembership(p, o); !neg("a present key (tree.VerifyNonMembership)", ok) {
				return
			}
			if !neg("VerifyMembership of a non-membership proof", ics23.VerifyMembership(spec, H, p, a, []byte{})) {
				return
			}
			if _, err := it.GetMembershipProof(a); err == nil {
				t.failf("proof:membership-for-absent-key", w(), "%s: GetMembershipProof(%x) succeeded for an absent key", where, a)
				return
			}
			// forged gap: pretend keys[j] is absent using its non-adjacent neighbours
			if len(keys) >= 3 {
				j := 1 + t.r.IntN(len(keys)-2)
				lp, e1 := it.GetMembershipProof([]byte(keys[j-1]))
				rp, e2 := it.GetMembershipProof([]byte(keys[j+1]))
				if e1 == nil && e2 == nil {
					forged := &ics23.CommitmentProof{Proof: &ics23.CommitmentProof_Nonexist{Nonexist: &ics23.NonExistenceProof{Key: []byte(keys[j]), Left: lp.GetExist(), Right: rp.GetExist()}}}
					if !neg("non-adjacent neighbours around a present key (forged gap)", ics23.VerifyNonMembership(spec, H, forged, []byte(keys[j]))) {
						return
					}
				}
			}
			// one-sided forgery: drop the right neighbour for a key that has one
			if np.Left != nil && np.Right != nil {
				tp := cloneProof(p)
				tp.GetNonexist().Right = nil
				if !neg("the right neighbour removed", ics23.VerifyNonMembership(spec, H, tp, a)) {
					return
				}
				tp = cloneProof(p)
				tp.GetNonexist().Left = nil
				if !neg("the left neighbour removed", ics23.VerifyNonMembership(spec, H, tp, a)) {
					return
				}
			}
		}
	})
}
