package c30

import (
	"bytes"
	"fmt"
	"math"
	"sort"

	dbm "github.com/gnolang/gno/tm2/pkg/db"
	"github.com/gnolang/gno/tm2/pkg/iavl"

	"verifharness/internal/vf"
)

// rtree is the read API shared by the working tree and saved versions.
type rtree interface {
	Get([]byte) ([]byte, error)
	Has([]byte) (bool, error)
	Size() int64
	Height() int8
	GetWithIndex([]byte) (int64, []byte, error)
	GetByIndex(int64) ([]byte, []byte, error)
	Iterate(func(k, v []byte) bool) (bool, error)
	Iterator(start, end []byte, asc bool) (dbm.Iterator, error)
	IterateRange(start, end []byte, asc bool, fn func(k, v []byte) bool) bool
}

type pair struct {
	k string
	v []byte
}

func expectRange(M content, keys []string, start, end []byte, asc, inclusive bool) []pair {
	var out []pair
	for _, k := range keys {
		in := inRange(k, start, end)
		if inclusive {
			in = inRangeInclusive(k, start, end)
		}
		if in {
			out = append(out, pair{k, M[k].val})
		}
	}
	if !asc {
		for i, j := 0, len(out)-1; i < j; i, j = i+1, j-1 {
			out[i], out[j] = out[j], out[i]
		}
	}
	return out
}

func pairsEqual(a, b []pair) (int, bool) {
	n := min(len(a), len(b))
	for i := 0; i < n; i++ {
		if a[i].k != b[i].k || !bytes.Equal(a[i].v, b[i].v) {
			return i, false
		}
	}
	if len(a) != len(b) {
		return n, false
	}
	return 0, true
}

func pairsBrief(p []pair) []string {
	var s []string
	for i, x := range p {
		if i >= 40 {
			s = append(s, fmt.Sprintf("...(%d)", len(p)))
			break
		}
		s = append(s, fmt.Sprintf("%x=%x", x.k, x.v))
	}
	return s
}

func bnd(b []byte) string {
	if b == nil {
		return "nil"
	}
	return fmt.Sprintf("%x", b)
}

// minNodesAVL(h): fewest nodes of a full binary AVL tree (every inner node has two children) of height h.
var minNodesAVL = func() []int64 {
	t := make([]int64, 64)
	t[0], t[1] = 1, 3
	for h := 2; h < 64; h++ {
		t[h] = 1 + t[h-1] + t[h-2]
	}
	return t
}()

func drain(it dbm.Iterator, limit int) ([]pair, error, bool) {
	var got []pair
	defer it.Close()
	for ; it.Valid(); it.Next() {
		got = append(got, pair{string(it.Key()), append([]byte{}, it.Value()...)})
		if len(got) > limit {
			return got, nil, true
		}
	}
	return got, it.Error(), false
}

// bounds returns range-bound candidates around the keys of M.
func (t *twin) bounds(keys []string) [][]byte {
	cands := [][]byte{nil, {}, {0x00}, {0xff, 0xff, 0xff, 0xff, 0xff, 0xff, 0xff}}
	add := func(k string) {
		b := []byte(k)
		cands = append(cands, b, append(append([]byte{}, b...), 0x00))
		if len(b) > 1 {
			cands = append(cands, b[:len(b)-1])
		}
		if b[len(b)-1] > 0 {
			p := append([]byte{}, b...)
			p[len(p)-1]--
			cands = append(cands, p)
		}
	}
	if len(keys) > 0 {
		add(keys[0])
		add(keys[len(keys)-1])
		for i := 0; i < 4; i++ {
			add(keys[t.r.IntN(len(keys))])
		}
	}
	for i := 0; i < 3; i++ {
		cands = append(cands, t.prof.universe[t.r.IntN(len(t.prof.universe))])
	}
	return cands
}

// probes returns present and absent keys to look up.
func (t *twin) probes(M content, keys []string, maxPresent int) (present []string, absent [][]byte) {
	if len(keys) <= maxPresent {
		present = keys
	} else {
		present = append(present, keys[0], keys[len(keys)-1])
		for len(present) < maxPresent {
			present = append(present, keys[t.r.IntN(len(keys))])
		}
	}
	seen := map[string]bool{}
	addAbs := func(b []byte) {
		if _, ok := M[string(b)]; ok || seen[string(b)] || len(b) == 0 {
			return
		}
		seen[string(b)] = true
		absent = append(absent, b)
	}
	addAbs([]byte{0x00})
	addAbs([]byte{0xff, 0xff, 0xff, 0xff, 0xff, 0xff, 0xff})
	for i, k := range present {
		if i > 8 {
			break
		}
		b := []byte(k)
		addAbs(append(append([]byte{}, b...), 0x00)) // immediate successor
		if len(b) > 1 {
			addAbs(b[:len(b)-1]) // a prefix
		}
		if b[len(b)-1] > 0 {
			p := append([]byte{}, b...)
			p[len(p)-1]--
			addAbs(append(p, 0xff)) // just below
		}
	}
	for i := 0; i < 6; i++ {
		addAbs(t.prof.universe[t.r.IntN(len(t.prof.universe))])
	}
	return
}

// checkReads compares every read API of tr with the ordered map M.
func (t *twin) checkReads(tr rtree, M content, where string, full bool) {
	keys := M.keys()
	n := len(keys)
	ex := func(m map[string]any) map[string]any {
		if m == nil {
			m = map[string]any{}
		}
		m["where"] = where
		return m
	}
	t.guard("reads:"+where, func() {
		if sz := tr.Size(); sz != int64(n) {
			t.failf("read:size", ex(map[string]any{"got": sz, "want": n}), "%s: Size()=%d, model has %d keys", where, sz, n)
			return
		}
		// full ordered iteration, both directions
		for _, asc := range []bool{true, false} {
			it, err := tr.Iterator(nil, nil, asc)
			if err != nil {
				t.failf("iter:error", ex(map[string]any{"err": err.Error()}), "%s: Iterator(nil,nil,%v) failed: %v", where, asc, err)
				return
			}
			got, ierr, over := drain(it, n+3)
			want := expectRange(M, keys, nil, nil, asc, false)
			if i, ok := pairsEqual(got, want); !ok || ierr != nil || over {
				t.failf("iter:full-mismatch", ex(map[string]any{"asc": asc, "got": pairsBrief(got), "want": pairsBrief(want), "first_diff": i, "err": fmt.Sprint(ierr)}),
					"%s: full iteration (asc=%v) differs from the model at position %d (got %d items, want %d, err=%v)", where, asc, i, len(got), len(want), ierr)
				return
			}
			t.c.Count("read:iterator-full", 1)
		}
		var got []pair
		stopped, err := tr.Iterate(func(k, v []byte) bool {
			got = append(got, pair{string(k), append([]byte{}, v...)})
			return len(got) > n+3
		})
		want := expectRange(M, keys, nil, nil, true, false)
		if i, ok := pairsEqual(got, want); !ok || err != nil || stopped {
			t.failf("iterate:mismatch", ex(map[string]any{"got": pairsBrief(got), "want": pairsBrief(want), "first_diff": i}), "%s: Iterate differs from the model at position %d (stopped=%v err=%v)", where, i, stopped, err)
			return
		}
		t.c.Count("read:iterate", 1)
		if !full {
			return
		}
		// early stop
		if n >= 2 {
			j := 1 + t.r.IntN(n-1)
			cnt := 0
			stopped, err := tr.Iterate(func(k, v []byte) bool { cnt++; return cnt == j })
			if !stopped || cnt != j || err != nil {
				t.failf("iterate:early-stop", ex(map[string]any{"stop_after": j, "visited": cnt}), "%s: Iterate with a callback stopping after %d items visited %d, stopped=%v err=%v", where, j, cnt, stopped, err)
				return
			}
		}
		// ranges
		cands := t.bounds(keys)
		nr := 10
		for q := 0; q < nr; q++ {
			start, end := cands[t.r.IntN(len(cands))], cands[t.r.IntN(len(cands))]
			if q == 0 && n > 0 {
				start, end = []byte(keys[0]), []byte(keys[n-1]) // exact first..last: end exclusive
			}
			for _, asc := range []bool{true, false} {
				want := expectRange(M, keys, start, end, asc, false)
				it, err := tr.Iterator(start, end, asc)
				if err != nil {
					t.failf("iter:error", ex(map[string]any{"err": err.Error(), "start": bnd(start), "end": bnd(end)}), "%s: Iterator(%s,%s,%v) failed: %v", where, bnd(start), bnd(end), asc, err)
					return
				}
				got, ierr, over := drain(it, n+3)
				if i, ok := pairsEqual(got, want); !ok || ierr != nil || over {
					t.failf("iter:range-mismatch", ex(map[string]any{"start": bnd(start), "end": bnd(end), "asc": asc, "got": pairsBrief(got), "want": pairsBrief(want), "first_diff": i, "err": fmt.Sprint(ierr)}),
						"%s: Iterator(%s,%s,asc=%v) differs from the model at position %d (got %d items, want %d)", where, bnd(start), bnd(end), asc, i, len(got), len(want))
					return
				}
				var got2 []pair
				tr.IterateRange(start, end, asc, func(k, v []byte) bool {
					got2 = append(got2, pair{string(k), append([]byte{}, v...)})
					return len(got2) > n+3
				})
				if i, ok := pairsEqual(got2, want); !ok {
					t.failf("iteraterange:mismatch", ex(map[string]any{"start": bnd(start), "end": bnd(end), "asc": asc, "got": pairsBrief(got2), "want": pairsBrief(want), "first_diff": i}),
						"%s: IterateRange(%s,%s,asc=%v) differs from the model at position %d (got %d items, want %d)", where, bnd(start), bnd(end), asc, i, len(got2), len(want))
					return
				}
				if asc {
					t.c.Count("read:range-asc", 1)
				} else {
					t.c.Count("read:range-desc", 1)
				}
				if len(want) > 0 && len(want) < n {
					t.c.Count("read:range-proper-subset", 1)
				}
			}
		}
		// point reads
		present, absent := t.probes(M, keys, 24)
		for _, k := range present {
			e := M[k]
			v, err := tr.Get([]byte(k))
			if err != nil || !bytes.Equal(v, e.val) || (v == nil && len(e.val) > 0) {
				t.failf("get:present", ex(map[string]any{"key": fmt.Sprintf("%x", k), "got": vf.Hex(v), "want": vf.Hex(e.val)}), "%s: Get(%x)=%x err=%v, model %x", where, k, v, err, e.val)
				return
			}
			has, err := tr.Has([]byte(k))
			if err != nil || !has {
				t.failf("has:present", ex(map[string]any{"key": fmt.Sprintf("%x", k)}), "%s: Has(%x)=%v err=%v for a present key", where, k, has, err)
				return
			}
			idx, v2, err := tr.GetWithIndex([]byte(k))
			wi := int64(sort.SearchStrings(keys, k))
			if err != nil || idx != wi || !bytes.Equal(v2, e.val) {
				t.failf("getwithindex:present", ex(map[string]any{"key": fmt.Sprintf("%x", k), "got_index": idx, "want_index": wi}), "%s: GetWithIndex(%x)=(%d,%x,%v), model (%d,%x)", where, k, idx, v2, err, wi, e.val)
				return
			}
			bk, bv, err := tr.GetByIndex(wi)
			if err != nil || string(bk) != k || !bytes.Equal(bv, e.val) {
				t.failf("getbyindex", ex(map[string]any{"index": wi, "got_key": vf.Hex(bk)}), "%s: GetByIndex(%d)=(%x,%x,%v), model (%x,%x)", where, wi, bk, bv, err, k, e.val)
				return
			}
			t.c.Count("read:point-present", 1)
		}
		for _, a := range absent {
			v, err := tr.Get(a)
			if err != nil || v != nil {
				t.failf("get:absent", ex(map[string]any{"key": vf.Hex(a), "got": vf.Hex(v)}), "%s: Get(%x)=%x err=%v for an absent key", where, a, v, err)
				return
			}
			has, err := tr.Has(a)
			if err != nil || has {
				t.failf("has:absent", ex(map[string]any{"key": vf.Hex(a)}), "%s: Has(%x)=%v err=%v for an absent key", where, a, has, err)
				return
			}
			idx, v2, err := tr.GetWithIndex(a)
			wi := int64(sort.SearchStrings(keys, string(a)))
			if err != nil || v2 != nil || idx != wi {
				t.failf("getwithindex:absent", ex(map[string]any{"key": vf.Hex(a), "got_index": idx, "want_index": wi}), "%s: GetWithIndex(%x)=(%d,%x,%v) for an absent key, model insertion index %d", where, a, idx, v2, err, wi)
				return
			}
			t.c.Count("read:point-absent", 1)
		}
		for _, bad := range []int64{-1, int64(n), int64(n) + 7} {
			k, v, err := tr.GetByIndex(bad)
			if err != nil || k != nil || v != nil {
				t.failf("getbyindex:out-of-range", ex(map[string]any{"index": bad}), "%s: GetByIndex(%d)=(%x,%x,%v) with %d keys", where, bad, k, v, err, n)
				return
			}
		}
		// AVL shape: the height must be possible for a balanced tree with n leaves
		h := int(tr.Height())
		if n == 0 {
			if h != 0 {
				t.failf("avl:height", ex(map[string]any{"height": h, "size": n}), "%s: empty tree has height %d", where, h)
			}
		} else {
			lo := int(math.Ceil(math.Log2(float64(n))))
			if h < lo || h >= len(minNodesAVL) || minNodesAVL[h] > int64(2*n-1) {
				t.failf("avl:height", ex(map[string]any{"height": h, "size": n}), "%s: height %d is impossible for an AVL tree with %d leaves (unbalanced or wrong height bookkeeping)", where, h, n)
			}
		}
	})
}

// checkInclusive checks IterateRangeInclusive (saved versions only: it reports leaf versions).
func (t *twin) checkInclusive(it *iavl.ImmutableTree, M content, where string) {
	keys := M.keys()
	cands := t.bounds(keys)
	t.guard("IterateRangeInclusive:"+where, func() {
		for q := 0; q < 4; q++ {
			start, end := cands[t.r.IntN(len(cands))], cands[t.r.IntN(len(cands))]
			asc := t.r.IntN(2) == 0
			if q == 0 && len(keys) > 0 {
				start, end = []byte(keys[0]), []byte(keys[len(keys)-1])
			}
			want := expectRange(M, keys, start, end, asc, true)
			var got []pair
			var vers []int64
			it.IterateRangeInclusive(start, end, asc, func(k, v []byte, ver int64) bool {
				got = append(got, pair{string(k), append([]byte{}, v...)})
				vers = append(vers, ver)
				return len(got) > len(keys)+3
			})
			if i, ok := pairsEqual(got, want); !ok {
				t.failf("iteraterangeinclusive:mismatch", map[string]any{"where": where, "start": bnd(start), "end": bnd(end), "asc": asc, "got": pairsBrief(got), "want": pairsBrief(want)},
					"%s: IterateRangeInclusive(%s,%s,asc=%v) differs from the model at position %d", where, bnd(start), bnd(end), asc, i)
				return
			}
			for i, p := range got {
				if vers[i] != M[p.k].ver {
					t.failf("leaf-version", map[string]any{"where": where, "key": fmt.Sprintf("%x", p.k), "got": vers[i], "want": M[p.k].ver},
						"%s: leaf %x reports creation version %d, the history set it last at version %d", where, p.k, vers[i], M[p.k].ver)
					return
				}
			}
			t.c.Count("read:range-inclusive", 1)
		}
	})
}

// checkExport walks the exported node structure: leaves in order equal the model, every inner node balanced.
func (t *twin) checkExport(it *iavl.ImmutableTree, M content, v int64, where string) {
	if len(M) == 0 {
		return
	}
	type sub struct {
		h          int
		minK, maxK string
		leaves     int
	}
	t.guard("Export:"+where, func() {
		ex, err := it.Export()
		if err != nil {
			t.failf("export:error", map[string]any{"where": where, "err": err.Error()}, "%s: Export failed: %v", where, err)
			return
		}
		defer ex.Close()
		var st []sub
		keys := M.keys()
		li := 0
		for cnt := 0; cnt < 4*len(M)+8; cnt++ {
			nd, err := ex.Next()
			if err != nil {
				break
			}
			if nd.Version <= 0 || nd.Version > v {
				t.failf("export:node-version", map[string]any{"where": where, "node_version": nd.Version}, "%s: exported node has version %d in tree version %d", where, nd.Version, v)
				return
			}
			if nd.Height == 0 {
				if li >= len(keys) || string(nd.Key) != keys[li] || !bytes.Equal(nd.Value, M[keys[li]].val) {
					t.failf("export:leaf-sequence", map[string]any{"where": where, "position": li, "got_key": vf.Hex(nd.Key)}, "%s: exported leaf #%d is %x, model differs", where, li, nd.Key)
					return
				}
				if nd.Version != M[keys[li]].ver {
					t.failf("leaf-version", map[string]any{"where": where, "key": vf.Hex(nd.Key), "got": nd.Version, "want": M[keys[li]].ver}, "%s: exported leaf %x has version %d, the history set it last at version %d", where, nd.Key, nd.Version, M[keys[li]].ver)
					return
				}
				li++
				st = append(st, sub{0, string(nd.Key), string(nd.Key), 1})
				continue
			}
			if len(st) < 2 {
				t.failf("export:shape", map[string]any{"where": where}, "%s: exported inner node without two children", where)
				return
			}
			r, l := st[len(st)-1], st[len(st)-2]
			st = st[:len(st)-2]
			h := max(l.h, r.h) + 1
			if int(nd.Height) != h {
				t.failf("avl:node-height", map[string]any{"where": where, "node_key": vf.Hex(nd.Key), "stored": nd.Height, "actual": h}, "%s: inner node %x stores height %d, its subtrees give %d", where, nd.Key, nd.Height, h)
				return
			}
			if d := l.h - r.h; d > 1 || d < -1 {
				t.failf("avl:unbalanced", map[string]any{"where": where, "node_key": vf.Hex(nd.Key), "left_height": l.h, "right_height": r.h}, "%s: inner node %x is unbalanced (left height %d, right height %d)", where, nd.Key, l.h, r.h)
				return
			}
			if !(l.maxK < string(nd.Key) && string(nd.Key) <= r.minK) {
				t.failf("avl:routing-key", map[string]any{"where": where, "node_key": vf.Hex(nd.Key), "left_max": fmt.Sprintf("%x", l.maxK), "right_min": fmt.Sprintf("%x", r.minK)}, "%s: inner key %x does not separate its subtrees (left max %x, right min %x)", where, nd.Key, l.maxK, r.minK)
				return
			}
			st = append(st, sub{h, l.minK, r.maxK, l.leaves + r.leaves})
		}
		if li != len(keys) || len(st) != 1 {
			t.failf("export:leaf-count", map[string]any{"where": where, "leaves": li, "want": len(keys), "roots": len(st)}, "%s: export yielded %d leaves (model %d) and %d roots", where, li, len(keys), len(st))
			return
		}
		if st[0].h != int(it.Height()) {
			t.failf("avl:node-height", map[string]any{"where": where}, "%s: root height %d differs from Height() %d", where, st[0].h, it.Height())
		}
		t.c.Count("structure-walks", 1)
	})
}

// checkAll compares the whole observable state of the twin with its model.
func (t *twin) checkAll(full, structural bool) {
	tr := t.tree
	m := t.m
	// working tree
	t.checkReads(tr, m.working, "working", full)
	if t.failed() {
		return
	}
	t.guard("version-api", func() {
		if e := tr.IsEmpty(); e != (len(m.working) == 0) {
			t.failf("read:isempty", nil, "IsEmpty()=%v with %d keys in the model", e, len(m.working))
			return
		}
		lv, err := tr.GetLatestVersion()
		if err != nil || lv != m.latest {
			t.failf("version:latest", map[string]any{"got": lv, "want": m.latest}, "GetLatestVersion()=(%d,%v), model %d", lv, err, m.latest)
			return
		}
		if tr.Version() != m.latest || tr.WorkingVersion() != m.workingVersion() {
			t.failf("version:working", map[string]any{"version": tr.Version(), "working": tr.WorkingVersion()}, "Version()=%d WorkingVersion()=%d, model %d/%d", tr.Version(), tr.WorkingVersion(), m.latest, m.workingVersion())
			return
		}
		if m.latest != 0 {
			if h := tr.Hash(); !bytes.Equal(h, t.hashes[m.latest]) {
				t.failf("hash:last-saved", map[string]any{"got": vf.Hex(h), "want": vf.Hex(t.hashes[m.latest])}, "Hash() differs from the hash returned when version %d was saved", m.latest)
				return
			}
		}
		vs := m.versions()
		av := tr.AvailableVersions()
		if len(vs) == 0 && len(av) == 1 && av[0] == 0 {
			// Not judged: with nothing saved AvailableVersions() reports [0] (first=latest=0).
			t.c.Count("observed:available-versions-[0]-before-first-save", 1)
			av = nil
		}
		avSet := map[int64]bool{}
		for _, a := range av {
			avSet[int64(a)] = true
		}
		for _, v := range vs {
			if !avSet[v] {
				t.failf("version:available", map[string]any{"got": av, "want": vs}, "AvailableVersions()=%v misses retained version %d (model %v)", av, v, vs)
				return
			}
		}
		if len(av) > len(vs) {
			// Not judged: after a reopen the first version is rediscovered by probing for root
			// nodes, and the root node of a pruned version can survive as a shared subtree.
			t.c.Count("observed:pruned-version-listed-as-available", 1)
		}
		lo, hi := m.iv-2, m.workingVersion()+2
		if len(vs) > 0 && vs[0]-3 < lo {
			lo = vs[0] - 3
		}
		for v := lo; v <= hi; v++ {
			_, want := m.saved[v]
			got := tr.VersionExists(v)
			if want && !got {
				t.failf("version:exists", map[string]any{"version": v, "got": got, "want": want}, "VersionExists(%d)=false for a retained version (retained %v)", v, vs)
				return
			}
			if want {
				continue
			}
			if got {
				t.c.Count("observed:pruned-version-reported-existing", 1) // not judged, see above
			}
			if v <= 0 {
				continue
			}
			// A version that is not retained may still be loadable (shared root node); if it
			// answers, it must answer with the content it had.
			it, err := tr.GetImmutable(v)
			t.c.Count("read:deleted-version-probes", 1)
			if err != nil || it == nil {
				continue
			}
			t.c.Count("observed:pruned-version-root-still-loadable", 1)
			if old, ok := m.graveyard[v]; ok && !t.cfg.archive {
				t.checkReads(it, old, fmt.Sprintf("pruned version %d (still loadable)", v), false)
				if t.failed() {
					return
				}
			}
		}
	})
	if t.failed() {
		return
	}
	// every retained version gets the light check (hash, size, full ordered iteration) after every step;
	// the deep check (all point/range reads, GetVersioned, inclusive ranges) covers up to 5 versions on
	// structural steps and one random version otherwise; proofs and the structure walk cover the latest
	// version and one other on structural steps.
	vs := m.versions()
	deep := map[int64]bool{}
	proofs := map[int64]bool{}
	if len(vs) > 0 {
		if structural {
			deep[vs[len(vs)-1]], deep[vs[0]] = true, true
			for k := 0; k < 3; k++ {
				deep[vs[t.r.IntN(len(vs))]] = true
			}
			proofs[vs[len(vs)-1]] = true
			proofs[vs[t.r.IntN(len(vs))]] = true
		} else if full {
			deep[vs[t.r.IntN(len(vs))]] = true
		}
	}
	for _, v := range vs {
		M := m.saved[v]
		where := fmt.Sprintf("version %d", v)
		var it *iavl.ImmutableTree
		t.guard("GetImmutable", func() {
			var err error
			it, err = tr.GetImmutable(v)
			if err != nil {
				t.failf("version:retained-not-loadable", map[string]any{"version": v, "err": err.Error()}, "GetImmutable(%d) failed for a retained version: %v", v, err)
			}
		})
		if t.failed() {
			return
		}
		t.guard("saved-hash", func() {
			if it.Version() != v {
				t.failf("version:immutable-version", map[string]any{"version": v, "got": it.Version()}, "GetImmutable(%d).Version()=%d", v, it.Version())
				return
			}
			if h := it.Hash(); !bytes.Equal(h, t.hashes[v]) {
				t.failf("hash:saved-version-changed", map[string]any{"version": v, "got": vf.Hex(h), "want": vf.Hex(t.hashes[v])}, "hash of saved version %d is %x, it was %x when saved", v, h, t.hashes[v])
			}
		})
		if t.failed() {
			return
		}
		t.checkReads(it, M, where, deep[v])
		if t.failed() {
			return
		}
		t.c.Count("version-checks", 1)
		if h := t.handles[v]; h != nil {
			t.checkReads(h, M, where+" (long-lived handle)", false)
			if t.failed() {
				return
			}
			t.guard("saved-hash", func() {
				if hh := h.Hash(); !bytes.Equal(hh, t.hashes[v]) {
					t.failf("hash:saved-version-changed", map[string]any{"version": v, "handle": true}, "hash of a long-lived handle to version %d changed", v)
				}
			})
			t.c.Count("handle-checks", 1)
		}
		if !deep[v] {
			continue
		}
		t.c.Count("version-deep-checks", 1)
		// GetVersioned through the mutable tree
		t.guard("GetVersioned", func() {
			present, absent := t.probes(M, M.keys(), 8)
			for _, k := range present {
				val, err := tr.GetVersioned([]byte(k), v)
				if err != nil || !bytes.Equal(val, M[k].val) || (val == nil && len(M[k].val) > 0) {
					t.failf("getversioned:present", map[string]any{"version": v, "key": fmt.Sprintf("%x", k), "got": vf.Hex(val), "want": vf.Hex(M[k].val)}, "GetVersioned(%x,%d)=%x err=%v, model %x", k, v, val, err, M[k].val)
					return
				}
			}
			for _, a := range absent {
				val, err := tr.GetVersioned(a, v)
				if err != nil || val != nil {
					t.failf("getversioned:absent", map[string]any{"version": v, "key": vf.Hex(a), "got": vf.Hex(val)}, "GetVersioned(%x,%d)=%x err=%v for a key absent in that version", a, v, val, err)
					return
				}
			}
			t.c.Count("read:getversioned", len(present)+len(absent))
		})
		if t.failed() {
			return
		}
		t.checkInclusive(it, M, where)
		if t.failed() {
			return
		}
		if proofs[v] {
			t.checkExport(it, M, v, where)
			if t.failed() {
				return
			}
			// another version with different contents, for wrong-root checks
			var other []byte
			for _, w := range vs {
				if w != v && !m.saved[w].sameKV(M) {
					other = t.hashes[w]
					if bytes.Equal(other, t.hashes[v]) {
						t.failf("hash:collision", map[string]any{"version": v, "other": w}, "versions %d and %d have different contents but the same root hash", v, w)
						return
					}
				}
			}
			t.checkProofs(it, v, M, t.hashes[v], other)
			if t.failed() {
				return
			}
		}
	}
}
