package c30

import (
	"bytes"
	"fmt"
	"math/rand/v2"
	"sort"

	abci "github.com/gnolang/gno/tm2/pkg/bft/abci/types"
	dbm "github.com/gnolang/gno/tm2/pkg/db"
	"github.com/gnolang/gno/tm2/pkg/db/memdb"
	storeiavl "github.com/gnolang/gno/tm2/pkg/store/iavl"
	stypes "github.com/gnolang/gno/tm2/pkg/store/types"

	"verifharness/internal/vf"
)

// storeTwin runs a history through tm2/pkg/store/iavl.Store (the production wrapper:
// Set/Delete/Commit with KeepRecent pruning, Iterator/ReverseIterator, GetImmutable,
// Query with ics23 proofs). Explicit prune ops of the history are ignored: the store
// prunes by its options, and the model follows the documented KeepRecent rule.
type storeTwin struct {
	c    *vf.Ctx
	hid  string
	ops  []op
	m    *model
	r    *rand.Rand
	prof profile

	keepRecent int64
	keepEvery  int64
	reopen     bool
	db         dbm.DB
	st         *storeiavl.Store
	hashes     map[int64][]byte
	saves      []saveEvent
	step       int
	fail       *failure
	reopens    int
}

func (t *storeTwin) failf(key string, extra map[string]any, f string, a ...any) {
	if t.fail == nil {
		t.fail = &failure{key: key, msg: fmt.Sprintf(f, a...), extra: extra}
	}
}

func (t *storeTwin) guard(phase string, f func()) {
	if pv := vf.Try(f); pv != nil {
		t.failf("panic:store:"+phase, map[string]any{"panic": fmt.Sprint(pv)}, "store %s panicked: %v", phase, pv)
	}
}

func (t *storeTwin) open() {
	opts := stypes.StoreOptions{PruningOptions: stypes.PruningOptions{KeepRecent: t.keepRecent, KeepEvery: t.keepEvery}}
	t.st = storeiavl.StoreConstructor(t.db, opts).(*storeiavl.Store)
	if t.m.latest == 0 && t.m.iv != 1 {
		t.st.SetInitialVersion(t.m.iv)
	}
	t.guard("LoadLatestVersion", func() {
		if err := t.st.LoadLatestVersion(); err != nil {
			t.failf("store:load", map[string]any{"err": err.Error()}, "LoadLatestVersion failed: %v", err)
		}
	})
}

func storeDrain(it stypes.Iterator, limit int) []pair {
	var got []pair
	defer it.Close()
	for ; it.Valid(); it.Next() {
		got = append(got, pair{string(it.Key()), append([]byte{}, it.Value()...)})
		if len(got) > limit {
			break
		}
	}
	return got
}

func (t *storeTwin) checkStore(st *storeiavl.Store, M content, where string, full bool) {
	keys := M.keys()
	t.guard("reads:"+where, func() {
		for _, asc := range []bool{true, false} {
			var it stypes.Iterator
			if asc {
				it = st.Iterator(nil, nil, nil)
			} else {
				it = st.ReverseIterator(nil, nil, nil)
			}
			got := storeDrain(it, len(keys)+3)
			want := expectRange(M, keys, nil, nil, asc, false)
			if i, ok := pairsEqual(got, want); !ok {
				t.failf("store:iter-full-mismatch", map[string]any{"where": where, "asc": asc, "got": pairsBrief(got), "want": pairsBrief(want)}, "store %s: full iteration (asc=%v) differs from the model at position %d", where, asc, i)
				return
			}
			t.c.Count("store:iterations", 1)
		}
		if !full {
			return
		}
		for q := 0; q < 3 && len(keys) > 0; q++ {
			a, b := []byte(keys[t.r.IntN(len(keys))]), []byte(keys[t.r.IntN(len(keys))])
			if t.r.IntN(3) == 0 {
				a = append(append([]byte{}, a...), 0)
			}
			if t.r.IntN(4) == 0 {
				b = nil
			}
			for _, asc := range []bool{true, false} {
				var it stypes.Iterator
				if asc {
					it = st.Iterator(nil, a, b)
				} else {
					it = st.ReverseIterator(nil, a, b)
				}
				got := storeDrain(it, len(keys)+3)
				want := expectRange(M, keys, a, b, asc, false)
				if i, ok := pairsEqual(got, want); !ok {
					t.failf("store:iter-range-mismatch", map[string]any{"where": where, "start": bnd(a), "end": bnd(b), "asc": asc, "got": pairsBrief(got), "want": pairsBrief(want)}, "store %s: Iterator(%s,%s,asc=%v) differs from the model at position %d", where, bnd(a), bnd(b), asc, i)
					return
				}
				t.c.Count("store:iterations", 1)
			}
		}
		for i, k := range keys {
			if i > 12 {
				break
			}
			if v := st.Get(nil, []byte(k)); !bytes.Equal(v, M[k].val) || !st.Has(nil, []byte(k)) {
				t.failf("store:get", map[string]any{"where": where, "key": fmt.Sprintf("%x", k)}, "store %s: Get(%x)=%x, model %x", where, k, v, M[k].val)
				return
			}
		}
		for i := 0; i < 5; i++ {
			a := t.prof.universe[t.r.IntN(len(t.prof.universe))]
			if _, ok := M[string(a)]; ok {
				continue
			}
			if v := st.Get(nil, a); v != nil || st.Has(nil, a) {
				t.failf("store:get-absent", map[string]any{"where": where, "key": vf.Hex(a)}, "store %s: absent key %x reads as %x", where, a, v)
				return
			}
		}
	})
}

// checkQuery: ABCI /key queries with Prove=true against a retained height.
func (t *storeTwin) checkQuery(v int64, M content) {
	keys := M.keys()
	if len(keys) == 0 {
		return
	}
	H := t.hashes[v]
	t.guard("Query", func() {
		probe := func(key []byte) {
			if i := sort.SearchStrings(keys, string(key)); (i > 0 && len(M[keys[i-1]].val) == 0) || (i < len(keys) && len(M[keys[i]].val) == 0) {
				return // ics23 cannot prove leaves with empty values; not judged
			}
			res := t.st.Query(abci.RequestQuery{Path: "/key", Data: key, Height: v, Prove: true})
			e, present := M[string(key)]
			w := map[string]any{"height": v, "key": vf.Hex(key), "present": present, "log": res.Log}
			if res.Error != nil || res.Height != v {
				t.failf("store:query-error", w, "Query(/key %x @%d) error=%v height=%d log=%s", key, v, res.Error, res.Height, res.Log)
				return
			}
			if present != (res.Value != nil) && !(present && len(e.val) == 0) {
				t.failf("store:query-value", w, "Query(/key %x @%d) value %x, model present=%v", key, v, res.Value, present)
				return
			}
			if present && !bytes.Equal(res.Value, e.val) {
				t.failf("store:query-value", w, "Query(/key %x @%d) value %x, model %x", key, v, res.Value, e.val)
				return
			}
			if present && len(e.val) == 0 {
				return // an empty value is indistinguishable from absence at this API; not judged
			}
			if res.Proof == nil || len(res.Proof.Ops) != 1 {
				t.failf("store:query-proof-missing", w, "Query(/key %x @%d, prove) returned no proof op (log %q)", key, v, res.Log)
				return
			}
			po, err := stypes.CommitmentOpDecoder(res.Proof.Ops[0])
			if err != nil {
				t.failf("store:query-proof-decode", w, "proof op does not decode: %v", err)
				return
			}
			var args [][]byte
			if present {
				args = [][]byte{e.val}
			}
			roots, err := po.Run(args)
			if err != nil || len(roots) != 1 || !bytes.Equal(roots[0], H) {
				w["root"] = vf.Hex(H)
				t.failf("store:query-proof-invalid", w, "proof returned by Query(/key %x @%d) does not verify to the commit hash %x (err=%v)", key, v, H, err)
				return
			}
			t.c.Count("store:query-proofs-verified", 1)
			// the same proof with the wrong claim must not verify to the commit hash
			var bad [][]byte
			if present {
				bad = [][]byte{flipBit(e.val, 1)}
			} else {
				bad = [][]byte{{1}}
			}
			if r2, err := po.Run(bad); err == nil && len(r2) == 1 && bytes.Equal(r2[0], H) {
				t.failf("store:query-proof-false-claim", w, "proof of %x @%d also verifies for a false claim", key, v)
			}
		}
		probe([]byte(keys[t.r.IntN(len(keys))]))
		if t.fail != nil {
			return
		}
		a := append([]byte(keys[t.r.IntN(len(keys))]), 0x00)
		if _, ok := M[string(a)]; !ok {
			probe(a)
		}
	})
}

func (t *storeTwin) retainedAfterCommit(v int64) {
	// documented options: KeepEvery=1 keeps every state; KeepEvery=0 keeps the last KeepRecent+1
	if t.keepEvery == 1 {
		return
	}
	for w := range t.m.saved {
		if w < v-t.keepRecent {
			t.m.graveyard[w] = t.m.saved[w]
			delete(t.m.saved, w)
		}
	}
}

func (t *storeTwin) run() {
	t.db = memdb.NewMemDB()
	t.hashes = map[int64][]byte{}
	t.open()
	for i, o := range t.ops {
		if t.fail != nil {
			return
		}
		t.step = i
		switch o.kind {
		case opSet:
			t.guard("Set", func() { t.st.Set(nil, append([]byte{}, o.key...), append([]byte{}, o.val...)) })
			t.m.apply(o)
		case opRemove:
			t.guard("Delete", func() { t.st.Delete(nil, append([]byte{}, o.key...)) })
			t.m.apply(o)
		case opSave:
			wantV := t.m.workingVersion()
			t.guard("Commit", func() {
				id := t.st.Commit()
				if id.Version != wantV {
					t.failf("store:commit-version", map[string]any{"got": id.Version, "want": wantV}, "Commit returned version %d, model %d", id.Version, wantV)
					return
				}
				t.hashes[wantV] = append([]byte{}, id.Hash...)
				t.saves = append(t.saves, saveEvent{i, wantV, t.hashes[wantV]})
				if l := t.st.LastCommitID(); l.Version != wantV || !bytes.Equal(l.Hash, id.Hash) {
					t.failf("store:lastcommitid", nil, "LastCommitID differs from the CommitID just returned")
				}
			})
			t.m.apply(o)
			t.retainedAfterCommit(wantV)
			t.c.Count("store:commits", 1)
			if t.reopen && t.r.IntN(3) == 0 {
				t.open()
				t.reopens++
				t.c.Count("store:reopens", 1)
			}
		case opRollback:
			t.open() // the store has no rollback: a restart discards uncommitted writes
			t.reopens++
			t.m.apply(o)
			t.c.Count("store:reopens", 1)
		case opBadSet:
			if pv := vf.Try(func() { t.st.Set(nil, append([]byte{}, o.key...), nil) }); pv == nil {
				t.failf("store:nil-value-accepted", nil, "Store.Set with a nil value did not panic (documented AssertValidValue)")
			}
		default:
			continue // prune / badprune / whash: not part of the store surface
		}
		if t.fail != nil {
			return
		}
		structural := o.kind == opSave || o.kind == opRollback
		full := structural || i%6 == 0
		t.checkStore(t.st, t.m.working, "working", full)
		if !structural || t.fail != nil {
			t.c.Eval(1)
			continue
		}
		// every version: retained ones answer like the model, the others are gone
		lo := t.m.iv - 1
		for v := lo; v <= t.m.latest+1; v++ {
			M, want := t.m.saved[v]
			if got := t.st.VersionExists(v); got && !want {
				// Not judged: after a restart the pruning inside Commit can fail with ErrVersionDoesNotExist
				// (see twin.exec, opPrune), which Commit swallows, so released versions linger. If such a
				// version is loadable it must still read like the model.
				t.c.Count("observed:store-released-version-still-exists", 1)
				if ist, err := t.st.GetImmutable(v); err == nil && ist != nil {
					if old, ok := t.m.graveyard[v]; ok {
						t.checkStore(ist, old, fmt.Sprintf("released version %d (still loadable)", v), false)
						if t.fail != nil {
							return
						}
					}
				}
				continue
			} else if got != want {
				t.failf("store:version-exists", map[string]any{"version": v, "got": got, "want": want, "keep_recent": t.keepRecent, "keep_every": t.keepEvery}, "store VersionExists(%d)=%v, model %v (KeepRecent=%d KeepEvery=%d latest=%d)", v, got, want, t.keepRecent, t.keepEvery, t.m.latest)
				return
			}
			var ist *storeiavl.Store
			var err error
			t.guard("GetImmutable", func() { ist, err = t.st.GetImmutable(v) })
			if t.fail != nil {
				return
			}
			if want != (err == nil) {
				t.failf("store:getimmutable", map[string]any{"version": v, "err": fmt.Sprint(err)}, "store GetImmutable(%d) err=%v, model retained=%v", v, err, want)
				return
			}
			if !want {
				continue
			}
			t.checkStore(ist, M, fmt.Sprintf("version %d", v), v == t.m.latest || t.r.IntN(3) == 0)
			if t.fail != nil {
				return
			}
			if id := ist.LastCommitID(); id.Version != v || !bytes.Equal(id.Hash, t.hashes[v]) {
				t.failf("store:immutable-commitid", map[string]any{"version": v}, "immutable store of version %d reports commit id (%d,%x), saved hash %x", v, id.Version, id.Hash, t.hashes[v])
				return
			}
			t.checkQuery(v, M)
			if t.fail != nil {
				return
			}
			t.c.Count("store:version-checks", 1)
		}
		t.c.Eval(1)
	}
}

func (t *storeTwin) witness() map[string]any {
	w := map[string]any{
		"history_id": t.hid, "profile": t.prof.name, "initial_version": t.m.iv,
		"twin":           fmt.Sprintf("store{KeepRecent=%d KeepEvery=%d reopen=%v}", t.keepRecent, t.keepEvery, t.reopen),
		"failed_at_step": t.step, "ops": opsStrings(t.ops[:min(t.step+1, len(t.ops))]),
	}
	for k, v := range t.fail.extra {
		w[k] = v
	}
	return w
}
