package c30

import (
	"bytes"
	"errors"
	"fmt"
	"math/rand/v2"
	"os"
	"path/filepath"
	"runtime/debug"
	"strings"

	dbm "github.com/gnolang/gno/tm2/pkg/db"
	"github.com/gnolang/gno/tm2/pkg/db/goleveldb"
	"github.com/gnolang/gno/tm2/pkg/db/memdb"
	"github.com/gnolang/gno/tm2/pkg/iavl"

	"verifharness/internal/vf"
)

// cfg is one way of running a logical history (reopen pattern, cache size, storage options).
type cfg struct {
	name       string
	cache      int
	skipFast   bool   // skipFastStorageUpgrade, fixed for the lifetime of the DB
	reopen     string // never | aftersave | random
	archive    bool   // never prunes
	leveldb    bool   // on-disk goleveldb, closed and reopened with the tree
	whash      bool   // runs the WorkingHash reads
	lightEvery int    // full read check every n-th step (saved versions get the light check on the others)
}

func (c cfg) String() string {
	return fmt.Sprintf("%s{cache=%d skipFast=%v reopen=%s archive=%v leveldb=%v whash=%v}", c.name, c.cache, c.skipFast, c.reopen, c.archive, c.leveldb, c.whash)
}

type saveEvent struct {
	step    int
	version int64
	hash    []byte
}

type failure struct {
	key, msg string
	extra    map[string]any
}

// twin executes a history on the real tree under one cfg and checks every step against the model.
type twin struct {
	c    *vf.Ctx
	cfg  cfg
	hid  string
	ops  []op
	m    *model
	r    *rand.Rand
	prof profile

	db          dbm.DB
	dbDir       string
	tree        *iavl.MutableTree
	skip        bool // current skipFastStorageUpgrade
	handles     map[int64]*iavl.ImmutableTree
	hashes      map[int64][]byte
	saves       []saveEvent
	step        int
	fail        *failure
	reopens     int
	pruneFailed bool // the last DeleteVersionsTo returned ErrVersionDoesNotExist (observation, see exec)
}

func (t *twin) failf(key string, extra map[string]any, f string, a ...any) {
	if t.fail != nil {
		return
	}
	t.fail = &failure{key: key, msg: fmt.Sprintf(f, a...), extra: extra}
}

func (t *twin) failed() bool { return t.fail != nil }

// guard runs f and turns a panic of the code under test into a failure.
func (t *twin) guard(phase string, f func()) {
	defer func() {
		if r := recover(); r != nil {
			st := string(debug.Stack())
			// keep the frames below the panic
			if i := strings.Index(st, "panic("); i >= 0 {
				st = st[i:]
			}
			if len(st) > 1800 {
				st = st[:1800]
			}
			t.failf("panic:"+phase, map[string]any{"panic": fmt.Sprint(r), "stack": st}, "%s panicked: %v", phase, r)
		}
	}()
	f()
}

func (t *twin) openDB() {
	if t.cfg.leveldb {
		db, err := goleveldb.NewGoLevelDB("iavl", t.dbDir)
		if err != nil {
			panic(fmt.Sprintf("harness: cannot open goleveldb: %v", err))
		}
		t.db = db
		return
	}
	if t.db == nil {
		t.db = memdb.NewMemDB()
	}
}

func (t *twin) newTree() {
	t.tree = iavl.NewMutableTree(t.db, t.cfg.cache, t.skip, iavl.NewNopLogger())
	if t.m.latest == 0 && t.m.iv != 1 {
		t.tree.SetInitialVersion(uint64(t.m.iv))
	}
}

func (t *twin) start() {
	t.skip = t.cfg.skipFast
	t.handles = map[int64]*iavl.ImmutableTree{}
	t.hashes = map[int64][]byte{}
	if t.cfg.leveldb {
		t.dbDir = filepath.Join(t.c.WorkDir, "ldb-"+t.hid+"-"+t.cfg.name)
		os.MkdirAll(t.dbDir, 0o755)
	}
	t.openDB()
	t.newTree()
	t.guard("Load", func() {
		v, err := t.tree.Load()
		if err != nil || v != 0 {
			t.failf("load:fresh", nil, "Load() on an empty DB = (%d, %v)", v, err)
		}
	})
}

func (t *twin) close() {
	if t.tree != nil {
		vf.Try(func() { t.tree.Close() })
		t.tree = nil
	}
	if t.cfg.leveldb && t.db != nil {
		t.db.Close()
		t.db = nil
		os.RemoveAll(t.dbDir)
	}
}

// reopenTree closes the tree (and an on-disk DB) and opens a fresh one on the same data.
func (t *twin) reopenTree(load bool) {
	t.reopens++
	t.c.Count("reopens", 1)
	t.guard("Close", func() {
		if err := t.tree.Close(); err != nil {
			t.failf("close:error", nil, "Close() = %v", err)
		}
	})
	if t.failed() {
		return
	}
	if t.cfg.leveldb {
		t.db.Close()
		t.openDB()
	}
	t.handles = map[int64]*iavl.ImmutableTree{} // handles belong to the closed tree's node DB
	t.newTree()
	if !load {
		return
	}
	t.guard("Load", func() {
		v, err := t.tree.Load()
		if err != nil {
			t.failf("load:error", map[string]any{"err": err.Error()}, "Load() after reopen failed: %v", err)
			return
		}
		if v != t.m.latest {
			t.failf("load:version", map[string]any{"got": v, "want": t.m.latest}, "Load() after reopen returned version %d, model latest %d", v, t.m.latest)
		}
	})
}

// exec runs one logical op on the real tree and compares the direct results.
func (t *twin) exec(o op) {
	tr := t.tree
	switch o.kind {
	case opSet:
		_, had := t.m.working[string(o.key)]
		k, v := append([]byte{}, o.key...), append([]byte{}, o.val...)
		t.guard("Set", func() {
			upd, err := tr.Set(k, v)
			if err != nil {
				t.failf("set:error", map[string]any{"err": err.Error()}, "Set failed: %v", err)
			} else if upd != had {
				t.failf("set:updated-flag", map[string]any{"got": upd, "want": had}, "Set(%x) returned updated=%v, model had key=%v", o.key, upd, had)
			}
		})
		if had {
			t.c.Count("op:set-update", 1)
		} else {
			t.c.Count("op:set-new", 1)
		}
	case opRemove:
		e, had := t.m.working[string(o.key)]
		t.guard("Remove", func() {
			val, rem, err := tr.Remove(append([]byte{}, o.key...))
			switch {
			case err != nil:
				t.failf("remove:error", map[string]any{"err": err.Error()}, "Remove failed: %v", err)
			case rem != had:
				t.failf("remove:removed-flag", map[string]any{"got": rem, "want": had}, "Remove(%x) removed=%v, model had key=%v", o.key, rem, had)
			case had && !bytes.Equal(val, e.val):
				t.failf("remove:value", map[string]any{"got": vf.Hex(val), "want": vf.Hex(e.val)}, "Remove(%x) returned value %x, model %x", o.key, val, e.val)
			case !had && val != nil:
				t.failf("remove:value", map[string]any{"got": vf.Hex(val)}, "Remove of an absent key returned value %x", val)
			}
		})
		if had {
			t.c.Count("op:remove-present", 1)
		} else {
			t.c.Count("op:remove-absent", 1)
		}
	case opSave:
		wantV := t.m.workingVersion()
		dirty := t.m.touched
		var wh []byte
		if t.cfg.whash {
			t.guard("WorkingHash", func() { wh = append([]byte{}, tr.WorkingHash()...) })
		}
		t.guard("SaveVersion", func() {
			h, v, err := tr.SaveVersion()
			if err != nil {
				t.failf("save:error", map[string]any{"err": err.Error()}, "SaveVersion failed: %v", err)
				return
			}
			if v != wantV {
				t.failf("save:version", map[string]any{"got": v, "want": wantV}, "SaveVersion returned version %d, model %d", v, wantV)
				return
			}
			if wh != nil && !bytes.Equal(h, wh) {
				t.failf("save:hash-vs-workinghash", map[string]any{"saved": vf.Hex(h), "working": vf.Hex(wh)}, "SaveVersion hash %x differs from WorkingHash %x taken just before", h, wh)
				return
			}
			t.hashes[v] = append([]byte{}, h...)
			t.saves = append(t.saves, saveEvent{t.step, v, t.hashes[v]})
		})
		switch {
		case len(t.m.working) == 0:
			t.c.Count("op:save-empty-tree", 1)
		case !dirty:
			t.c.Count("op:save-nochange", 1)
		default:
			t.c.Count("op:save", 1)
		}
	case opRollback:
		if t.cfg.reopen != "never" && t.r.IntN(2) == 0 {
			t.reopenTree(true)
			t.c.Count("op:rollback-by-reopen", 1)
		} else {
			t.guard("Rollback", func() { tr.Rollback() })
			t.c.Count("op:rollback", 1)
		}
	case opPrune:
		if t.cfg.archive {
			return
		}
		for v := range t.handles {
			if v <= o.ver {
				delete(t.handles, v)
			}
		}
		t.pruneFailed = false
		t.guard("DeleteVersionsTo", func() {
			err := tr.DeleteVersionsTo(o.ver)
			if err == nil {
				return
			}
			if errors.Is(err, iavl.ErrVersionDoesNotExist) {
				// Not judged (the property promises correct retained versions, not that a deletion call
				// succeeds): after a reopen the first version is rediscovered by probing for root nodes; the
				// root of a pruned single-leaf version survives as a shared leaf, is taken for the first
				// version, and DeleteVersionsTo fails on the gap behind it. What IS judged: every version
				// that is still loadable afterwards must read exactly like the model.
				t.c.Count("observed:prune-failed-version-does-not-exist", 1)
				t.pruneFailed = true
				return
			}
			t.failf("prune:error", map[string]any{"err": err.Error(), "to": o.ver}, "DeleteVersionsTo(%d) failed: %v", o.ver, err)
		})
		if t.pruneFailed {
			return
		}
		if o.ver < t.m.first() {
			t.c.Count("op:prune-noop", 1)
		} else {
			t.c.Count("op:prune", 1)
		}
	case opOverwrite:
		// the way a node uses it: on a freshly opened tree; the twins that never
		// reopen roll the LIVE tree back (warm node cache, loaded versions)
		if t.cfg.reopen != "never" {
			t.reopenTree(false)
			if t.failed() {
				return
			}
		} else {
			t.c.Count("op:overwrite-on-live-tree", 1)
		}
		t.guard("LoadVersionForOverwriting", func() {
			if err := t.tree.LoadVersionForOverwriting(o.ver); err != nil {
				t.failf("overwrite:error", map[string]any{"err": err.Error(), "to": o.ver}, "LoadVersionForOverwriting(%d) failed: %v", o.ver, err)
			}
		})
		for v := range t.hashes {
			if v > o.ver {
				delete(t.hashes, v)
			}
		}
		// handles to the dropped versions refer to deleted nodes; the version numbers are reused
		for v := range t.handles {
			if v > o.ver {
				delete(t.handles, v)
			}
		}
		t.c.Count("op:overwrite", 1)
	case opBadSet:
		t.guard("Set(nil)", func() {
			if _, err := tr.Set(append([]byte{}, o.key...), nil); err == nil {
				t.failf("set:nil-value-accepted", nil, "Set(%x, nil) returned no error (nil values are documented as invalid)", o.key)
			}
		})
		t.c.Count("op:badset-rejected", 1)
	case opBadPrune:
		if t.cfg.archive {
			return
		}
		t.guard("DeleteVersionsTo(latest)", func() {
			if err := tr.DeleteVersionsTo(o.ver); err == nil {
				t.failf("prune:latest-accepted", map[string]any{"to": o.ver}, "DeleteVersionsTo(%d) with latest %d returned no error", o.ver, t.m.latest)
			}
		})
		t.c.Count("op:badprune-rejected", 1)
	case opWHash:
		if !t.cfg.whash {
			return
		}
		t.guard("WorkingHash", func() {
			h1 := append([]byte{}, tr.WorkingHash()...)
			h2 := tr.WorkingHash()
			if !bytes.Equal(h1, h2) {
				t.failf("workinghash:unstable", nil, "two consecutive WorkingHash() calls differ")
			}
			if !t.m.touched && t.m.latest != 0 && !bytes.Equal(h1, t.hashes[t.m.latest]) {
				t.failf("workinghash:clean-differs", map[string]any{"working": vf.Hex(h1), "saved": vf.Hex(t.hashes[t.m.latest])}, "WorkingHash of an unmodified tree differs from the last saved hash")
			}
		})
		t.c.Count("op:whash", 1)
	}
}

// run executes the whole history. It returns the save events for cross-twin comparison.
func (t *twin) run() {
	defer t.close()
	t.start()
	for i, o := range t.ops {
		if t.failed() {
			return
		}
		t.step = i
		t.exec(o)
		if t.failed() {
			return
		}
		if o.kind == opPrune && t.pruneFailed {
			t.applyFailedPrune(o)
		} else {
			t.m.apply(o)
		}
		// reopen pattern (only in a clean state, so the logical history is unchanged)
		if o.kind == opSave || (!t.m.touched && (o.kind == opPrune || o.kind == opRollback)) {
			switch t.cfg.reopen {
			case "aftersave":
				if o.kind == opSave {
					t.reopenTree(true)
				}
			case "random":
				if t.r.IntN(3) == 0 {
					t.reopenTree(true)
				}
			}
			if t.failed() {
				return
			}
		}
		if o.kind == opSave {
			// keep a long-lived handle to the fresh version (half of the time), as a query server would
			if t.r.IntN(2) == 0 {
				t.guard("GetImmutable", func() {
					it, err := t.tree.GetImmutable(t.m.latest)
					if err == nil {
						t.handles[t.m.latest] = it
					}
				})
			}
		}
		structural := o.kind == opSave || o.kind == opPrune || o.kind == opOverwrite || o.kind == opRollback
		full := structural || t.cfg.lightEvery <= 1 || i%t.cfg.lightEvery == 0 || i == len(t.ops)-1
		t.checkAll(full, structural)
		t.c.Eval(1)
	}
}

func (t *twin) witness() map[string]any {
	w := map[string]any{
		"history_id": t.hid, "profile": t.prof.name, "initial_version": t.m.iv, "twin": t.cfg.String(),
		"failed_at_step": t.step, "ops": opsStrings(t.ops[:min(t.step+1, len(t.ops))]), "reopens_before_failure": t.reopens,
	}
	if t.step < len(t.ops) {
		w["failing_op"] = t.ops[t.step].String()
	}
	for k, v := range t.fail.extra {
		w[k] = v
	}
	return w
}

// applyFailedPrune mirrors a DeleteVersionsTo that returned an error: versions above the target must all
// still be there (checked by the regular monitors); a version at or below the target stays in the model
// as retained if it is still loadable (and is then checked like every retained version), otherwise it is
// treated as deleted.
func (t *twin) applyFailedPrune(o op) {
	for _, v := range t.m.versions() {
		if v > o.ver {
			continue
		}
		var ok bool
		t.guard("GetImmutable", func() {
			it, err := t.tree.GetImmutable(v)
			ok = err == nil && it != nil
		})
		if !ok {
			t.m.graveyard[v] = t.m.saved[v]
			delete(t.m.saved, v)
			delete(t.handles, v)
		}
	}
}
