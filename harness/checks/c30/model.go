package c30

import (
	"bytes"
	"encoding/hex"
	"fmt"
	"math/rand/v2"
	"sort"
)

// entry is one key of a version: its value and the version at which the leaf
// holding it was created (IAVL hashes the leaf's creation version, so the root
// hash is a function of contents *and* history).
type entry struct {
	val []byte
	ver int64
}

// content is the ordered-map model of one tree version.
type content map[string]entry

func (c content) clone() content {
	o := make(content, len(c))
	for k, e := range c {
		o[k] = e
	}
	return o
}

func (c content) keys() []string {
	ks := make([]string, 0, len(c))
	for k := range c {
		ks = append(ks, k)
	}
	sort.Strings(ks)
	return ks
}

func (c content) sameKV(o content) bool {
	if len(c) != len(o) {
		return false
	}
	for k, e := range c {
		f, ok := o[k]
		if !ok || !bytes.Equal(e.val, f.val) {
			return false
		}
	}
	return true
}

// inRange reports membership of k in [start,end) with the tree's conventions:
// nil bound = open; an empty non-nil start is below every key; an empty
// non-nil end is below every key as well (nothing is < "").
func inRange(k string, start, end []byte) bool {
	if start != nil && k < string(start) {
		return false
	}
	if end != nil && k >= string(end) {
		return false
	}
	return true
}

func inRangeInclusive(k string, start, end []byte) bool {
	if start != nil && k < string(start) {
		return false
	}
	if end != nil && k > string(end) {
		return false
	}
	return true
}

// ---------------------------------------------------------------- logical history

type opKind uint8

const (
	opSet opKind = iota
	opRemove
	opSave
	opRollback  // discard unsaved changes (Rollback(), or close + reopen + Load())
	opPrune     // DeleteVersionsTo(ver) - skipped by archive twins
	opOverwrite // fresh tree + LoadVersionForOverwriting(ver): versions > ver are dropped
	opBadSet    // Set(key, nil): documented error, no effect
	opBadPrune  // DeleteVersionsTo(ver >= latest): documented error, no effect
	opWHash     // WorkingHash() (a read that caches hashes on unsaved nodes); only some twins run it
	nOpKinds
)

var opNames = [...]string{"set", "remove", "save", "rollback", "prune", "overwrite", "badset", "badprune", "whash"}

type op struct {
	kind opKind
	key  []byte
	val  []byte
	ver  int64
}

func (o op) String() string {
	switch o.kind {
	case opSet:
		return fmt.Sprintf("set %s=%s", hex.EncodeToString(o.key), hex.EncodeToString(o.val))
	case opRemove, opBadSet:
		return fmt.Sprintf("%s %s", opNames[o.kind], hex.EncodeToString(o.key))
	case opPrune, opOverwrite, opBadPrune:
		return fmt.Sprintf("%s %d", opNames[o.kind], o.ver)
	}
	return opNames[o.kind]
}

func opsStrings(ops []op) []string {
	s := make([]string, len(ops))
	for i, o := range ops {
		s[i] = o.String()
	}
	return s
}

// model is the per-twin reference state.
type model struct {
	iv      int64 // initial version (first SaveVersion produces it)
	working content
	saved   map[int64]content
	latest  int64 // 0 = nothing saved yet
	archive bool  // this twin never prunes
	touched bool  // the working tree was modified since the last save / rollback / overwrite (even if the contents are equal again)
	// graveyard remembers the contents of pruned versions: if the tree still answers for one
	// of them (its root node can survive as a shared subtree), the answer must be the old content.
	graveyard map[int64]content
}

func newModel(iv int64, archive bool) *model {
	return &model{iv: iv, working: content{}, saved: map[int64]content{}, archive: archive, graveyard: map[int64]content{}}
}

func (m *model) workingVersion() int64 {
	if m.latest == 0 {
		return m.iv
	}
	return m.latest + 1
}

func (m *model) first() int64 {
	f := int64(0)
	for v := range m.saved {
		if f == 0 || v < f {
			f = v
		}
	}
	return f
}

func (m *model) versions() []int64 {
	vs := make([]int64, 0, len(m.saved))
	for v := range m.saved {
		vs = append(vs, v)
	}
	sort.Slice(vs, func(i, j int) bool { return vs[i] < vs[j] })
	return vs
}

func (m *model) lastSaved() content {
	if m.latest == 0 {
		return content{}
	}
	return m.saved[m.latest]
}

// apply advances the model by one logical op (the expected effect).
func (m *model) apply(o op) {
	switch o.kind {
	case opSet:
		m.working[string(o.key)] = entry{val: o.val, ver: m.workingVersion()}
		m.touched = true
	case opRemove:
		if _, ok := m.working[string(o.key)]; ok {
			m.touched = true
		}
		delete(m.working, string(o.key))
	case opSave:
		v := m.workingVersion()
		m.saved[v] = m.working.clone()
		m.latest = v
		m.touched = false
	case opRollback:
		m.working = m.lastSaved().clone()
		m.touched = false
	case opPrune:
		if m.archive {
			return
		}
		for v := range m.saved {
			if v <= o.ver {
				m.graveyard[v] = m.saved[v]
				delete(m.saved, v)
			}
		}
	case opOverwrite:
		for v := range m.saved {
			if v > o.ver {
				delete(m.saved, v)
			}
		}
		for v := range m.graveyard {
			if v > o.ver {
				delete(m.graveyard, v)
			}
		}
		m.latest = o.ver
		m.working = m.saved[o.ver].clone()
		m.touched = false
	}
}

// ---------------------------------------------------------------- generator

type profile struct {
	name      string
	steps     int
	universe  [][]byte
	iv        int64
	overwrite bool // history may contain opOverwrite (then no store twin)
	maxKeep   int  // prune when more than this many versions are retained
	saveW     int
}

// universes
func smallUniverse(r *rand.Rand, n int) [][]byte {
	alpha := []byte{0x00, 0x01, 'a', 'b', 'c', 0x7f, 0x80, 0xff}
	set := map[string]bool{}
	for len(set) < n {
		l := 1 + r.IntN(3)
		k := make([]byte, l)
		for i := range k {
			k[i] = alpha[r.IntN(len(alpha))]
		}
		set[string(k)] = true
		// prefix relations: often add an extension / a prefix too
		if r.IntN(3) == 0 && len(set) < n {
			set[string(append(append([]byte{}, k...), alpha[r.IntN(len(alpha))]))] = true
		}
	}
	return sortedKeys(set)
}

func wideUniverse(r *rand.Rand, n int) [][]byte {
	set := map[string]bool{}
	for len(set) < n {
		l := 1 + r.IntN(6)
		k := make([]byte, l)
		for i := range k {
			k[i] = byte(r.UintN(256))
		}
		set[string(k)] = true
	}
	return sortedKeys(set)
}

func sortedKeys(set map[string]bool) [][]byte {
	ks := make([]string, 0, len(set))
	for k := range set {
		ks = append(ks, k)
	}
	sort.Strings(ks)
	out := make([][]byte, len(ks))
	for i, k := range ks {
		out[i] = []byte(k)
	}
	return out
}

func randVal(r *rand.Rand) []byte {
	switch r.IntN(12) {
	case 0:
		return []byte{} // empty (non-nil) value is legal
	case 1:
		v := make([]byte, 40+r.IntN(60))
		for i := range v {
			v[i] = byte(r.UintN(256))
		}
		return v
	}
	v := make([]byte, 1+r.IntN(6))
	for i := range v {
		v[i] = byte(r.UintN(256))
	}
	return v
}

// genHistory produces a logical history valid for a pruning (non-archive) twin;
// an archive twin retains a superset of versions, so every argument is valid there too.
func genHistory(r *rand.Rand, p profile) []op {
	m := newModel(p.iv, false)
	var ops []op
	emit := func(o op) {
		ops = append(ops, o)
		m.apply(o)
	}
	pickPresent := func() []byte {
		ks := m.working.keys()
		if len(ks) == 0 {
			return nil
		}
		return []byte(ks[r.IntN(len(ks))])
	}
	pickAbsent := func() []byte {
		for try := 0; try < 8; try++ {
			k := p.universe[r.IntN(len(p.universe))]
			if _, ok := m.working[string(k)]; !ok {
				return k
			}
		}
		return nil
	}
	// mode phases make the tree grow, shrink, and sometimes become empty
	mode := 0 // 0 grow, 1 mixed, 2 shrink
	for len(ops) < p.steps {
		if r.IntN(25) == 0 {
			mode = r.IntN(3)
		}
		x := r.IntN(100)
		switch {
		case x < 46: // set
			var k []byte
			newKey := r.IntN(100) < []int{75, 50, 20}[mode]
			if newKey {
				k = pickAbsent()
			}
			if k == nil {
				k = pickPresent()
			}
			if k == nil {
				k = p.universe[r.IntN(len(p.universe))]
			}
			v := randVal(r)
			if e, ok := m.working[string(k)]; ok && r.IntN(6) == 0 {
				v = e.val // rewrite the identical value: contents unchanged, history (leaf version) changes
			}
			emit(op{kind: opSet, key: k, val: v})
		case x < 68: // remove
			var k []byte
			if r.IntN(100) < 82 {
				k = pickPresent()
			}
			if k == nil {
				k = pickAbsent()
			}
			if k == nil {
				continue
			}
			if mode == 0 && r.IntN(2) == 0 {
				continue
			}
			emit(op{kind: opRemove, key: k})
		case x < 68+p.saveW: // save (also no-op saves and saves of an empty tree)
			emit(op{kind: opSave})
			if r.IntN(8) == 0 {
				emit(op{kind: opSave}) // immediate second save: reference root
			}
			// keep the number of retained versions bounded
			if vs := m.versions(); len(vs) > p.maxKeep {
				to := vs[r.IntN(len(vs)-1)] // < latest
				emit(op{kind: opPrune, ver: to})
			}
		case x < 71+p.saveW: // rollback
			emit(op{kind: opRollback})
		case x < 75+p.saveW: // prune
			vs := m.versions()
			if len(vs) < 2 {
				continue
			}
			to := vs[r.IntN(len(vs)-1)]
			if r.IntN(10) == 0 {
				to = vs[0] - 1 // below the first version: no-op
			}
			emit(op{kind: opPrune, ver: to})
		case x < 77+p.saveW: // overwrite
			vs := m.versions()
			if !p.overwrite || len(vs) == 0 {
				continue
			}
			emit(op{kind: opOverwrite, ver: vs[r.IntN(len(vs))]})
		case x < 78+p.saveW:
			emit(op{kind: opBadSet, key: p.universe[r.IntN(len(p.universe))]})
		case x < 79+p.saveW:
			if m.latest == 0 {
				continue
			}
			emit(op{kind: opBadPrune, ver: m.latest + int64(r.IntN(3))})
		case x < 84+p.saveW:
			emit(op{kind: opWHash})
		case x < 86+p.saveW: // clear the tree completely
			ks := m.working.keys()
			if len(ks) == 0 || len(ks) > 40 {
				continue
			}
			r.Shuffle(len(ks), func(i, j int) { ks[i], ks[j] = ks[j], ks[i] })
			for _, k := range ks {
				emit(op{kind: opRemove, key: []byte(k)})
			}
		default: // ordered burst: ascending or descending inserts force repeated single rotations
			n := 3 + r.IntN(10)
			start := r.IntN(len(p.universe))
			dir := 1
			if r.IntN(2) == 0 {
				dir = -1
			}
			for i := 0; i < n; i++ {
				j := start + dir*i
				if j < 0 || j >= len(p.universe) {
					break
				}
				emit(op{kind: opSet, key: p.universe[j], val: randVal(r)})
			}
		}
	}
	// always end with a save so the last edits are observed as a version
	emit(op{kind: opSave})
	return ops
}

// singleLeafHistory: histories around a version whose root is a single leaf that later versions
// keep as a shared child (empty saves referring to it, then growth), pruned in several separate
// DeleteVersionsTo calls with more saves in between. Twins with a cold node cache (cache 0,
// reopen after every save) reload the re-keyed nodes from disk.
func singleLeafHistory(r *rand.Rand, p profile) []op {
	m := newModel(p.iv, false)
	var ops []op
	emit := func(o op) {
		ops = append(ops, o)
		m.apply(o)
	}
	key := func(i int) []byte { return []byte{byte('a' + i)} }
	val := func() []byte { return []byte{byte(1 + r.IntN(250)), byte(r.IntN(256))} }
	emit(op{kind: opSet, key: key(0), val: val()})
	emit(op{kind: opSave})
	for k := r.IntN(3); k > 0; k-- { // empty versions referring to the single leaf
		emit(op{kind: opSave})
	}
	nkeys := 1
	grow := func() {
		emit(op{kind: opSet, key: key(nkeys), val: val()})
		nkeys++
		emit(op{kind: opSave})
	}
	grow()
	for k := r.IntN(3); k > 0; k-- {
		if r.IntN(2) == 0 {
			emit(op{kind: opSave})
		} else {
			grow()
		}
	}
	first := p.iv
	// two or three prunes, each of a prefix, with activity in between
	for round := 0; round < 2+r.IntN(2); round++ {
		if m.latest-first < 1 {
			break
		}
		to := first + int64(r.IntN(int(m.latest-first)))
		emit(op{kind: opPrune, ver: to})
		first = to + 1
		switch r.IntN(3) {
		case 0:
			emit(op{kind: opSave})
		case 1:
			grow()
		default:
			emit(op{kind: opSet, key: key(r.IntN(nkeys)), val: val()})
			emit(op{kind: opSave})
		}
	}
	return ops
}
