// Package c30: the IAVL tree is a correct versioned, provable map.
//
// Oracle: a per-version ordered-map model (Go map + sorted keys, with the
// creation version of every leaf) driven by a seeded logical history of
// Set / Remove / SaveVersion / Rollback / DeleteVersionsTo /
// LoadVersionForOverwriting (plus rejected calls). The same history is executed
// by several "twins" that differ only in things that must not matter: node-cache
// size, reopen pattern (never / after every save / random, memdb or an on-disk
// goleveldb that is closed too), fast storage on or off (fixed per DB), whether old
// versions are pruned at all, whether WorkingHash is read in between, and the
// production Store wrapper. After every step every read API and ordered
// iteration of the working tree and of every retained version is compared with
// the model; root hashes recorded at save time must never change, must be equal
// across twins, and ics23 proofs (checked with the ics23 library and with an
// independent sha256 recomputation) must verify exactly for the true
// (key, value, root).
package c30

import (
	"bytes"
	"fmt"
	"math/rand/v2"
	"runtime"
	"time"

	"verifharness/internal/vf"
)

func init() {
	vf.Register(&vf.Check{
		ID:    "C30",
		Level: "exploration",
		Rule: "cases = (logical history, twin configuration, step); histories are seeded op sequences (set new/update/same-value, remove present/absent, save incl. no-change and empty-tree saves, " +
			"rollback, DeleteVersionsTo, LoadVersionForOverwriting, rejected Set(nil)/DeleteVersionsTo(latest), ordered insert bursts, clear-all) over small byte-string universes with prefix-related keys " +
			"(and wider random universes for taller trees), initial version 1 or >1; each history runs on 3-5 twins (cache 0..10000, reopen never/after-save/random, fast storage on or off (fixed per DB), " +
			"pruning vs archive, memdb vs goleveldb, Store wrapper); an evaluation is one executed step followed by the comparison of the working tree and all retained versions with the model; " +
			"non-trivial = the step changed the tree or the version set (everything except rejected calls and WorkingHash reads) while at least 2 versions were retained or the tree had >= 8 keys; " +
			"distinct by (history id, twin, step, op)",
		Run: run,
	})
}

func profiles(c *vf.Ctx, r *rand.Rand, i, nh int) profile {
	iv := int64(1)
	switch r.IntN(6) {
	case 0:
		iv = int64(2 + r.IntN(8))
	case 1:
		iv = int64(100 + r.IntN(100000))
	}
	kind := i % 4
	if i < nh/5 {
		kind = 4 // the long histories are scheduled first so they do not form the tail
	} else if kind == 3 {
		kind = 5
	}
	switch kind {
	case 0, 1: // tiny universe: many updates, removes down to empty, heavy version churn
		return profile{name: "small", steps: c.N(90, 160), universe: smallUniverse(r, 10+r.IntN(14)), iv: iv, overwrite: i%2 == 0, maxKeep: 4 + r.IntN(4), saveW: 16}
	case 2: // medium
		return profile{name: "medium", steps: c.N(130, 260), universe: smallUniverse(r, 40+r.IntN(40)), iv: iv, overwrite: r.IntN(2) == 0, maxKeep: 3 + r.IntN(5), saveW: 12}
	case 4: // wide keys, taller trees
		return profile{name: "wide", steps: c.N(160, 500), universe: wideUniverse(r, 120+r.IntN(180)), iv: iv, overwrite: false, maxKeep: 3 + r.IntN(3), saveW: 8}
	default: // store-compatible medium
		return profile{name: "store", steps: c.N(110, 220), universe: smallUniverse(r, 20+r.IntN(40)), iv: iv, overwrite: false, maxKeep: 3 + r.IntN(4), saveW: 14}
	}
}

func twinsFor(r *rand.Rand, p profile, quick bool) []cfg {
	light := 1
	if p.name == "wide" {
		light = 5
	} else if p.name == "medium" {
		light = 2
	}
	base := cfg{name: "base", cache: 10000, skipFast: false, reopen: "never", whash: false, lightEvery: light}
	prod := cfg{name: "prod", cache: 0, skipFast: true, reopen: "aftersave", whash: true, lightEvery: light}
	arch := cfg{name: "archive", cache: 1 + r.IntN(5), skipFast: r.IntN(2) == 0, reopen: "random", archive: true, whash: r.IntN(2) == 0, lightEvery: light + 1}
	out := []cfg{base, prod, arch}
	switch r.IntN(4) {
	case 0:
		out = append(out, cfg{name: "fast-random", cache: 50, skipFast: false, reopen: "random", whash: true, lightEvery: light})
	case 1:
		out = append(out, cfg{name: "fast-reopen", cache: 3, skipFast: false, reopen: "aftersave", whash: true, lightEvery: light})
	case 2:
		out = append(out, cfg{name: "nofast", cache: 100, skipFast: true, reopen: "never", whash: false, lightEvery: light})
	}
	if r.IntN(8) == 0 {
		out = append(out, cfg{name: "leveldb", cache: 20, skipFast: r.IntN(2) == 0, reopen: "random", leveldb: true, whash: true, lightEvery: light + 2})
	}
	return out
}

func nontrivial(o op, m *model) bool {
	switch o.kind {
	case opBadSet, opBadPrune, opWHash:
		return false
	}
	return len(m.saved) >= 2 || len(m.working) >= 8
}

func run(c *vf.Ctx) {
	nh := c.N(60, 450)
	c.Set("histories", nh)
	workers := runtime.NumCPU()
	c.Parallel(nh, workers, 5000, func(i int, r *rand.Rand) {
		if c.Violations() > 12 {
			return
		}
		t0 := time.Now()
		defer func() {
			if d := time.Since(t0); d > 20*time.Second {
				c.Logf("history %d took %.1fs", i, d.Seconds())
			}
		}()
		prof := profiles(c, r, i, nh)
		ops := genHistory(r, prof)
		if i%10 == 7 && !prof.overwrite {
			ops = singleLeafHistory(r, prof)
			c.Count("histories:single-leaf-root-shared", 1)
		}
		hid := fmt.Sprintf("h%d", i)
		cfgs := twinsFor(r, prof, c.Quick())
		c.Count("histories:"+prof.name, 1)
		if prof.iv != 1 {
			c.Count("histories:initial-version>1", 1)
		}
		type result struct {
			name  string
			saves []saveEvent
		}
		var results []result
		for ti, cf := range cfgs {
			tw := &twin{c: c, cfg: cf, hid: hid, ops: ops, m: newModel(prof.iv, cf.archive), r: rand.New(rand.NewPCG(uint64(c.Seed)*1000003+uint64(i), uint64(ti)+17)), prof: prof}
			tw.run()
			c.Count("twin-runs:"+cf.name, 1)
			if tw.fail != nil {
				c.Violation(tw.fail.key, tw.witness(), "[%s %s step %d %q] %s", hid, cf.name, tw.step, ops[min(tw.step, len(ops)-1)].String(), tw.fail.msg)
				return
			}
			results = append(results, result{cf.name, tw.saves})
			// distinct cases of this twin (recomputed on a scratch model)
			sm := newModel(prof.iv, cf.archive)
			for si, o := range ops {
				sm.apply(o)
				if nontrivial(o, sm) {
					c.Distinct(fmt.Sprintf("%d/%s/%s/%d/%s", c.Seed, hid, cf.name, si, o.String()))
				}
			}
		}
		if !prof.overwrite && (prof.name == "store" || r.IntN(4) == 0) {
			st := &storeTwin{c: c, hid: hid, ops: ops, m: newModel(prof.iv, false), r: rand.New(rand.NewPCG(uint64(c.Seed)*7919+uint64(i), 99)), prof: prof,
				keepRecent: int64(r.IntN(4)), keepEvery: int64(r.IntN(3) / 2), reopen: r.IntN(2) == 0}
			st.run()
			c.Count("twin-runs:store", 1)
			if st.fail != nil {
				c.Violation(st.fail.key, st.witness(), "[%s store step %d] %s", hid, st.step, st.fail.msg)
				return
			}
			results = append(results, result{"store", st.saves})
		}
		// the root hash of every saved version is the same under every reopen pattern / cache size / pruning policy
		ref := results[0]
		for _, o := range results[1:] {
			if len(o.saves) != len(ref.saves) {
				c.Violation("twin:save-count", map[string]any{"history_id": hid, "ops": opsStrings(ops), "a": ref.name, "b": o.name}, "[%s] twins %s and %s saved %d vs %d versions", hid, ref.name, o.name, len(ref.saves), len(o.saves))
				return
			}
			for k := range ref.saves {
				a, b := ref.saves[k], o.saves[k]
				if a.version != b.version || !bytes.Equal(a.hash, b.hash) {
					c.Violation("twin:root-hash-differs", map[string]any{"history_id": hid, "profile": prof.name, "initial_version": prof.iv, "ops": opsStrings(ops[:a.step+1]), "twin_a": ref.name, "twin_b": o.name,
						"version": a.version, "hash_a": vf.Hex(a.hash), "hash_b": vf.Hex(b.hash)},
						"[%s] the same logical history gives version %d root %x under %s but version %d root %x under %s", hid, a.version, a.hash, ref.name, b.version, b.hash, o.name)
					return
				}
				c.Count("twin-hash-comparisons", 1)
			}
		}
		if i < 4 {
			c.Sample(map[string]any{"history_id": hid, "profile": prof.name, "initial_version": prof.iv, "steps": len(ops), "twins": len(results), "versions_saved": len(ref.saves), "first_ops": opsStrings(ops[:min(12, len(ops))])})
		}
	})

	c.Assume("crypto/sha256 and the cosmos/ics23 verifier (IavlSpec) are trusted; proofs are additionally recomputed with sha256 only")
	c.Assume("the twins run the same code, so root-hash equality shows independence from cache size / reopen pattern / pruning, not the absolute hash value; the leaf part of the hash (height 0, size 1, creation version, key, sha256(value)) is checked against the model through the proofs")
	c.Assume("AVL balance of every exported node and the height bound are checked as the structural invariant behind 'AVL rebalancing'")
	for _, k := range []string{"op:set-new", "op:set-update", "op:remove-present", "op:remove-absent", "op:save", "op:save-nochange", "op:save-empty-tree", "op:rollback", "op:prune", "op:overwrite", "op:badset-rejected", "op:badprune-rejected", "op:whash", "reopens"} {
		c.RequireCounter(k, 5)
	}
	c.RequireCounter("version-checks", 2000)
	c.RequireCounter("handle-checks", 200)
	c.RequireCounter("read:range-asc", 2000)
	c.RequireCounter("read:range-desc", 2000)
	c.RequireCounter("read:range-proper-subset", 500)
	c.RequireCounter("read:range-inclusive", 500)
	c.RequireCounter("read:point-absent", 2000)
	c.RequireCounter("read:deleted-version-probes", 500)
	c.RequireCounter("structure-walks", 300)
	c.RequireCounter("proof:membership-verified", 1000)
	c.RequireCounter("proof:nonmembership-verified", 1000)
	c.RequireCounter("proof:negative-checks", 10000)
	for _, cl := range []string{"below-min", "above-max", "between", "prefix-of-successor", "extension-of-predecessor"} {
		c.RequireCounter("proof:absent-class:"+cl, 20)
	}
	c.RequireCounter("twin-hash-comparisons", 1000)
	c.RequireCounter("twin-runs:store", 10)
	c.RequireCounter("store:query-proofs-verified", 50)
	c.RequireCounter("twin-runs:leveldb", 3)
}
