// Package c37: proposer selection is fair and validator-set updates are well-behaved.
//
// Oracles
//
//  1. Counting (fairness): for a set built by NewValidatorSet and never changed,
//     the proposer of every height is recorded while IncrementProposerPriority(1)
//     is called 3·T times (T = total power); in every window of T consecutive
//     heights validator i must be proposer exactly power(i) times.
//  2. Exact arithmetic: each IncrementProposerPriority(times) call is re-computed
//     from the priorities observed before the call with math/big, following the
//     algorithm the function documents (rescale to a 2·T window by integer
//     division, centre by the floor average, then `times` rounds of "add power,
//     pick the highest priority — ties to the lower address —, subtract T").
//     Any clipping, overflow or wrap-around of the int64 implementation, a wrong
//     tie-break or a dropped centring step shows up as a difference.
//  3. Update model: a map address→power. A change list must be rejected when it
//     contains a duplicate address, a negative power, a power above
//     MaxTotalVotingPower, a removal of an unknown validator, a malformed entry
//     (zero address, nil key, address≠key) or when the result would be empty or
//     exceed MaxTotalVotingPower; it must be accepted when no intermediate total
//     can exceed the maximum; in between (order-dependent intermediate overflow,
//     which the code documents as "total before removals") either answer is
//     allowed. Accepted ⇒ membership/powers equal the model, validators strictly
//     ascending by address (hence duplicate-free), cached total = Σ power,
//     max−min priority ≤ 3·T. Rejected ⇒ the set is deep-equal to a snapshot
//     taken before the call (validators, priorities, proposer, cached total, hash).
package c37

import (
	"bytes"
	"fmt"
	"math/big"
	"math/rand/v2"
	"reflect"
	"sort"
	"strings"

	abci "github.com/gnolang/gno/tm2/pkg/bft/abci/types"
	"github.com/gnolang/gno/tm2/pkg/bft/types"
	"github.com/gnolang/gno/tm2/pkg/crypto"
	"github.com/gnolang/gno/tm2/pkg/crypto/ed25519"

	"verifharness/internal/vf"
)

func init() {
	vf.Register(&vf.Check{
		ID:    "C37",
		Level: "exploration",
		Rule: "cases: (a) fairness — every power vector in {1..6}^1, {1..6}^2, {1..5}^3, {1..5}^4, {1..3}^5, {1..2}^6 (thorough also {1..4}^5, {1..3}^6) plus seeded random vectors for 5 and 6 validators, 3·T heights each, every sliding window of T heights counted; " +
			"(b) exact-arithmetic replay of every IncrementProposerPriority call (times 1..5, sometimes 50..300) on those sets, on sets with powers near MaxTotalVotingPower (equal, one dominant, random), on sets whose priorities were set directly to any state with max-min <= 3T (forces the rescale branch) and inside update histories; " +
			"(c) seeded random update histories of 12..40 ops over a 9-key universe (sets of 0..7 validators, small/medium/huge powers): add/change/remove lists of 1..4 entries via UpdateWithChangeSet or UpdateWithABCIValidatorUpdates, " +
			"rejected-by-construction lists (duplicate, negative, above max, total overflow, unknown removal, remove all, zero address, nil key, address/key mismatch), interleaved increments. " +
			"non-trivial = fairness case with >= 2 validators and unequal powers or ties; increment case that rescales, has a priority tie or powers above 2^40; update history with >= 1 accepted and >= 1 rejected update; distinct by power vector / op sequence",
		Run: run,
	})
}

var keyPool = func() []ed25519.PrivKeyEd25519 {
	ks := make([]ed25519.PrivKeyEd25519, 10)
	for i := range ks {
		ks[i] = ed25519.GenPrivKeyFromSecret([]byte(fmt.Sprintf("verif-c37-key-%d", i)))
	}
	sort.Slice(ks, func(i, j int) bool {
		a, b := ks[i].PubKey().Address(), ks[j].PubKey().Address()
		return bytes.Compare(a[:], b[:]) < 0
	})
	return ks
}()

func pub(i int) crypto.PubKey     { return keyPool[i].PubKey() }
func addrOf(i int) crypto.Address { return keyPool[i].PubKey().Address() }

var poolIndex = func() map[crypto.Address]int {
	m := map[crypto.Address]int{}
	for i := range keyPool {
		m[addrOf(i)] = i
	}
	return m
}()

var maxTotal = types.MaxTotalVotingPower

type tally map[string]int

func (t tally) flush(c *vf.Ctx) {
	for k, v := range t {
		c.Count(k, v)
		delete(t, k)
	}
}

// ---------------------------------------------------------------- exact-arithmetic step oracle

type stepInfo struct {
	rescaled, tie, clippedWouldBe bool
}

// idealIncrement recomputes IncrementProposerPriority(times) with math/big from the observed state.
// addrs/power/prio are in validator order. Returns the new priorities and the proposer position.
func idealIncrement(addrs []crypto.Address, power, prio []int64, times int) ([]*big.Int, int, stepInfo) {
	n := len(power)
	info := stepInfo{}
	p := make([]*big.Int, n)
	T := new(big.Int)
	for i := range p {
		p[i] = big.NewInt(prio[i])
		T.Add(T, big.NewInt(power[i]))
	}
	diffMax := new(big.Int).Mul(T, big.NewInt(2))
	mx, mn := new(big.Int).Set(p[0]), new(big.Int).Set(p[0])
	for _, x := range p {
		if x.Cmp(mx) > 0 {
			mx.Set(x)
		}
		if x.Cmp(mn) < 0 {
			mn.Set(x)
		}
	}
	diff := new(big.Int).Sub(mx, mn)
	if diffMax.Sign() > 0 && diff.Cmp(diffMax) > 0 {
		info.rescaled = true
		ratio := new(big.Int).Add(diff, diffMax)
		ratio.Sub(ratio, big.NewInt(1))
		ratio.Quo(ratio, diffMax)
		for _, x := range p {
			x.Quo(x, ratio) // truncated, as Go's integer division
		}
	}
	sum := new(big.Int)
	for _, x := range p {
		sum.Add(sum, x)
	}
	avg := new(big.Int).Div(sum, big.NewInt(int64(n))) // Euclidean == floor for a positive divisor
	for _, x := range p {
		x.Sub(x, avg)
	}
	best := -1
	for t := 0; t < times; t++ {
		for i, x := range p {
			x.Add(x, big.NewInt(power[i]))
		}
		best = 0
		for i := 1; i < n; i++ {
			switch c := p[i].Cmp(p[best]); {
			case c > 0:
				best = i
			case c == 0:
				info.tie = true
				if bytes.Compare(addrs[i][:], addrs[best][:]) < 0 {
					best = i
				}
			}
		}
		p[best].Sub(p[best], T)
	}
	return p, best, info
}

type vsView struct {
	addrs []crypto.Address
	power []int64
	prio  []int64
}

func view(vs *types.ValidatorSet) vsView {
	v := vsView{}
	for _, x := range vs.Validators {
		v.addrs = append(v.addrs, x.Address)
		v.power = append(v.power, x.VotingPower)
		v.prio = append(v.prio, x.ProposerPriority)
	}
	return v
}

func (v vsView) String() string {
	var sb strings.Builder
	for i := range v.addrs {
		fmt.Fprintf(&sb, "[%d:%x.. pow=%d prio=%d]", poolIndex[v.addrs[i]], v.addrs[i][:3], v.power[i], v.prio[i])
	}
	return sb.String()
}

func spreadOK(v vsView) (bool, *big.Int, *big.Int) {
	if len(v.prio) == 0 {
		return true, new(big.Int), new(big.Int)
	}
	mx, mn := v.prio[0], v.prio[0]
	T := new(big.Int)
	for i, x := range v.prio {
		if x > mx {
			mx = x
		}
		if x < mn {
			mn = x
		}
		T.Add(T, big.NewInt(v.power[i]))
	}
	d := new(big.Int).Sub(big.NewInt(mx), big.NewInt(mn))
	lim := new(big.Int).Mul(T, big.NewInt(3))
	return d.Cmp(lim) <= 0, d, lim
}

// increment calls the real IncrementProposerPriority(times) and checks it against the exact replay.
// Returns false after a violation.
func increment(c *vf.Ctx, tl tally, vs *types.ValidatorSet, times int, witness func() any) bool {
	before := view(vs)
	want, wantProp, info := idealIncrement(before.addrs, before.power, before.prio, times)
	if pv := vf.Try(func() { vs.IncrementProposerPriority(times) }); pv != nil {
		c.Violation("increment-panic", witness(), "IncrementProposerPriority(%d) panicked: %v; state before %v", times, pv, before)
		return false
	}
	tl["increment_calls"]++
	tl["increment_rounds"] += times
	if info.rescaled {
		tl["increment_rescaled"]++
	}
	if info.tie {
		tl["increment_with_tie"]++
	}
	after := view(vs)
	if len(after.prio) != len(before.prio) {
		c.Violation("increment-changed-membership", witness(), "IncrementProposerPriority changed the number of validators")
		return false
	}
	for i := range after.prio {
		if after.addrs[i] != before.addrs[i] || after.power[i] != before.power[i] {
			c.Violation("increment-changed-membership", witness(), "IncrementProposerPriority changed validator %d", i)
			return false
		}
		if !want[i].IsInt64() || want[i].Int64() != after.prio[i] {
			c.Violation("increment-not-exact", witness(), "IncrementProposerPriority(%d): validator %d priority %d, exact arithmetic gives %s (clipping/overflow or a deviation from the documented algorithm); before %v after %v", times, i, after.prio[i], want[i], before, after)
			return false
		}
	}
	prop := vs.GetProposer()
	if prop == nil || prop.Address != before.addrs[wantProp] {
		c.Violation("increment-wrong-proposer", witness(), "proposer after IncrementProposerPriority(%d) is %v, exact arithmetic selects validator %d; before %v", times, prop, wantProp, before)
		return false
	}
	if ok, d, lim := spreadOK(after); !ok {
		c.Violation("priority-spread-after-increment", witness(), "max-min priority %s exceeds 3x total power %s after IncrementProposerPriority(%d); before %v after %v", d, lim, times, before, after)
		return false
	}
	return true
}

// ---------------------------------------------------------------- (a) fairness

func mkSet(members []int, power []int64) *types.ValidatorSet {
	vals := make([]*types.Validator, len(members))
	for i, m := range members {
		vals[len(vals)-1-i] = types.NewValidator(pub(m), power[i])
	}
	return types.NewValidatorSet(vals)
}

func fairness(c *vf.Ctx, tl tally, power []int64) {
	n := len(power)
	members := make([]int, n)
	var T int64
	unequal := false
	for i := range members {
		members[i] = i
		T += power[i]
		unequal = unequal || power[i] != power[0]
	}
	witness := func() any { return map[string]any{"workload": "fairness", "powers": power} }
	var vs *types.ValidatorSet
	if pv := vf.Try(func() { vs = mkSet(members, power) }); pv != nil {
		c.Violation("newvalidatorset-panic", witness(), "NewValidatorSet panicked: %v", pv)
		return
	}
	c.Case(fmt.Sprintf("fair:%v", power), n >= 2)
	steps := int(3 * T)
	seq := make([]int, 0, steps+1)
	pos := func() int {
		p := vs.GetProposer()
		for i, v := range vs.Validators {
			if p != nil && v.Address == p.Address {
				return i
			}
		}
		return -1
	}
	seq = append(seq, pos())
	orig := snapshot(vs)
	// "every increment count": a copy advanced by k rounds at once must name the k-th proposer
	jumps := map[int]int{}
	for _, k := range []int{1, 2, int(T), int(T) + 1, steps} {
		var cp *types.ValidatorSet
		if pv := vf.Try(func() { cp = vs.CopyIncrementProposerPriority(k) }); pv != nil {
			c.Violation("increment-panic", witness(), "CopyIncrementProposerPriority(%d) panicked: %v", k, pv)
			return
		}
		p := cp.GetProposer()
		jumps[k] = -1
		for i, v := range vs.Validators {
			if v.Address == p.Address {
				jumps[k] = i
			}
		}
	}
	if !reflect.DeepEqual(orig, vs) {
		c.Violation("copy-increment-modified-receiver", witness(), "CopyIncrementProposerPriority modified the set it was called on")
		return
	}
	// the counting oracle observes plain single increments; the exact-arithmetic replay runs on a twin set so that
	// each oracle reports on its own
	twin := mkSet(members, power)
	for s, twinOK := 0, true; s < steps; s++ {
		if pv := vf.Try(func() { vs.IncrementProposerPriority(1) }); pv != nil {
			c.Violation("increment-panic", witness(), "IncrementProposerPriority(1) panicked at height %d: %v", s, pv)
			return
		}
		seq = append(seq, pos())
		if twinOK {
			twinOK = increment(c, tl, twin, 1, witness)
		}
	}
	for k, got := range jumps {
		tl["increment_jump_checks"]++
		if got != seq[k] {
			c.Violation("increment-count-inconsistent", witness(), "CopyIncrementProposerPriority(%d) selects validator %d, %d single increments select %d", k, got, k, seq[k])
			return
		}
	}
	// every window of T consecutive heights
	cnt := make([]int64, n)
	for i := 0; i < len(seq); i++ {
		if seq[i] < 0 {
			c.Violation("proposer-not-in-set", witness(), "height %d: proposer is not a member of the set", i)
			return
		}
		cnt[seq[i]]++
		if i >= int(T) {
			cnt[seq[i-int(T)]]--
		}
		if i >= int(T)-1 {
			tl["fairness_windows"]++
			for v := 0; v < n; v++ {
				if cnt[v] != power[v] {
					c.Violation("unfair-window", map[string]any{"workload": "fairness", "powers": power, "window_start": i - int(T) + 1, "proposers": seq},
						"window of %d heights starting at %d: validator %d (power %d) proposed %d times; proposer sequence %v", T, i-int(T)+1, v, power[v], cnt[v], seq)
					return
				}
			}
		}
	}
	tl["fairness_sets"]++
	if unequal {
		tl["fairness_sets_unequal"]++
	}
}

func vectors(n int, maxP int64, f func([]int64)) {
	p := make([]int64, n)
	var rec func(i int)
	rec = func(i int) {
		if i == n {
			f(append([]int64(nil), p...))
			return
		}
		for v := int64(1); v <= maxP; v++ {
			p[i] = v
			rec(i + 1)
		}
	}
	rec(0)
}

// ---------------------------------------------------------------- (b) huge powers

func hugeRun(c *vf.Ctx, tl tally, i int, r *rand.Rand) {
	n := 1 + r.IntN(6)
	power := make([]int64, n)
	kind := r.IntN(4)
	switch kind {
	case 0: // equal shares of the maximum
		for k := range power {
			power[k] = maxTotal / int64(n)
		}
	case 1: // one dominant
		for k := range power {
			power[k] = 1 + r.Int64N(5)
		}
		var rest int64
		for _, x := range power[1:] {
			rest += x
		}
		power[0] = maxTotal - rest
		r.Shuffle(n, func(a, b int) { power[a], power[b] = power[b], power[a] })
	case 2: // random split of the maximum
		left := maxTotal
		for k := range power {
			if k == n-1 {
				power[k] = left
			} else {
				power[k] = 1 + r.Int64N(left-int64(n-k))
				left -= power[k]
			}
		}
	default: // large but not maximal
		for k := range power {
			power[k] = (int64(1) << (40 + r.IntN(17))) + r.Int64N(1000)
		}
	}
	members := r.Perm(len(keyPool))[:n]
	sort.Ints(members)
	var hist []int
	witness := func() any {
		return map[string]any{"workload": "huge", "members": members, "powers": power, "increment_times": hist}
	}
	var vs *types.ValidatorSet
	if pv := vf.Try(func() { vs = mkSet(members, power) }); pv != nil {
		c.Violation("newvalidatorset-panic", witness(), "NewValidatorSet panicked for a total <= MaxTotalVotingPower: %v", pv)
		return
	}
	c.Case(fmt.Sprintf("huge:%v:%v", members, power), true)
	tl["huge_sets"]++
	rounds := 60
	for s := 0; s < rounds; s++ {
		times := 1 + r.IntN(5)
		if r.IntN(12) == 0 {
			times = 50 + r.IntN(250)
		}
		hist = append(hist, times)
		if !increment(c, tl, vs, times, witness) {
			return
		}
	}
	if i < 1 {
		c.Sample(witness())
	}
}

// injectedRun: priorities are set directly (a ValidatorSet is persisted and reloaded with its priorities) to any
// state the property allows — spread at most 3·T — so that the rescale branch (spread > 2·T) is exercised.
func injectedRun(c *vf.Ctx, tl tally, i int, r *rand.Rand) {
	n := 1 + r.IntN(6)
	power := make([]int64, n)
	scale := r.IntN(3)
	var T int64
	for k := range power {
		switch scale {
		case 0:
			power[k] = 1 + r.Int64N(9)
		case 1:
			power[k] = 1 + r.Int64N(1<<40)
		default:
			power[k] = maxTotal/int64(n) - r.Int64N(1<<20)
		}
		T += power[k]
	}
	members := r.Perm(len(keyPool))[:n]
	sort.Ints(members)
	vs := mkSet(members, power)
	// spread in (0, 3T], window placed within [-2T, 2T]
	spread := new(big.Int).Mul(big.NewInt(T), big.NewInt(3))
	if r.IntN(3) == 0 {
		spread.Mul(big.NewInt(T), big.NewInt(2))
	}
	if r.IntN(4) == 0 {
		spread.Sub(spread, big.NewInt(r.Int64N(T+1)))
	}
	lo := new(big.Int).Neg(new(big.Int).Mul(big.NewInt(T), big.NewInt(2)))
	room := new(big.Int).Sub(new(big.Int).Mul(big.NewInt(T), big.NewInt(4)), spread) // >= T
	lo.Add(lo, randBig(r, new(big.Int).Add(room, big.NewInt(1))))
	prio := make([]int64, n)
	for k := range prio {
		off := randBig(r, new(big.Int).Add(spread, big.NewInt(1)))
		switch {
		case k == 0:
			off.SetInt64(0)
		case k == 1:
			off.Set(spread)
		case r.IntN(4) == 0 && k > 1: // provoke ties
			off.SetInt64(prio[k-1])
			off.Sub(off, lo)
		}
		prio[k] = new(big.Int).Add(lo, off).Int64()
	}
	r.Shuffle(n, func(a, b int) { prio[a], prio[b] = prio[b], prio[a] })
	for k, v := range vs.Validators {
		v.ProposerPriority = prio[k]
	}
	var hist []int
	witness := func() any {
		return map[string]any{"workload": "injected-priorities", "members": members, "powers": power, "priorities": prio, "increment_times": hist}
	}
	c.Case(fmt.Sprintf("inj:%v:%v:%v", members, power, prio), true)
	tl["injected_sets"]++
	for s := 0; s < 4; s++ {
		times := 1 + r.IntN(4)
		hist = append(hist, times)
		if !increment(c, tl, vs, times, witness) {
			return
		}
	}
	if i < 1 {
		c.Sample(witness())
	}
}

// randBig draws a value in [0, max) from 128 random bits.
func randBig(r *rand.Rand, max *big.Int) *big.Int {
	x := new(big.Int).SetUint64(r.Uint64())
	x.Lsh(x, 64).Or(x, new(big.Int).SetUint64(r.Uint64()))
	return x.Mod(x, max)
}

// ---------------------------------------------------------------- (c) update histories

type change struct {
	Key    int    `json:"key"` // pool index
	Power  int64  `json:"power"`
	Defect string `json:"defect,omitempty"` // zero-address | nil-key | mismatch
}

type uop struct {
	Kind    string   `json:"kind"` // update | abci-update | increment
	Changes []change `json:"changes,omitempty"`
	Times   int      `json:"times,omitempty"`
	Intent  string   `json:"intent,omitempty"`
}

func snapshot(vs *types.ValidatorSet) *types.ValidatorSet {
	cp := *vs // copies the cached total as well
	cp.Validators = nil
	if vs.Validators != nil {
		cp.Validators = make([]*types.Validator, len(vs.Validators))
		for i, v := range vs.Validators {
			x := *v
			cp.Validators[i] = &x
		}
	}
	if vs.Proposer != nil {
		x := *vs.Proposer
		cp.Proposer = &x
	}
	return &cp
}

// classify decides a change list against the model: "reject", "accept" or "grey".
func classify(model map[int]int64, chs []change) (string, string) {
	seen := map[int]bool{}
	T := new(big.Int)
	for _, p := range model {
		T.Add(T, big.NewInt(p))
	}
	mx := big.NewInt(maxTotal)
	for _, ch := range chs {
		if ch.Defect != "" {
			return "reject", "malformed"
		}
	}
	for _, ch := range chs {
		if seen[ch.Key] {
			return "reject", "duplicate"
		}
		seen[ch.Key] = true
	}
	for _, ch := range chs {
		if ch.Power < 0 {
			return "reject", "negative"
		}
		if ch.Power > maxTotal {
			return "reject", "above-max"
		}
	}
	final := new(big.Int).Set(T)
	worst := new(big.Int).Set(T)
	remaining := len(model)
	for _, ch := range chs {
		old, known := model[ch.Key]
		if ch.Power == 0 {
			if !known {
				return "reject", "unknown-removal"
			}
			final.Sub(final, big.NewInt(old))
			remaining--
			continue
		}
		d := big.NewInt(ch.Power - old) // both within [0, 2^60]
		final.Add(final, d)
		if d.Sign() > 0 {
			worst.Add(worst, d)
		}
		if !known {
			remaining++
		}
	}
	if len(chs) > 0 && remaining == 0 {
		return "reject", "empty-result"
	}
	if final.Cmp(mx) > 0 {
		return "reject", "total-overflow"
	}
	if worst.Cmp(mx) > 0 {
		return "grey", "intermediate-overflow"
	}
	return "accept", ""
}

func genPower(r *rand.Rand, scale int) int64 {
	switch scale {
	case 0:
		return 1 + r.Int64N(10)
	case 1:
		return 1 + r.Int64N(1<<30)
	default:
		return maxTotal/8 + r.Int64N(maxTotal/8)
	}
}

func updateHistory(c *vf.Ctx, i int, r *rand.Rand) {
	tl := tally{}
	defer tl.flush(c)
	scale := r.IntN(3)
	model := map[int]int64{}
	var hist []uop
	var start []change
	witness := func() any { return map[string]any{"workload": "updates", "initial": start, "ops": hist} }
	n0 := r.IntN(7)
	var members []int
	var power []int64
	for _, m := range r.Perm(len(keyPool) - 1)[:n0] {
		members = append(members, m)
	}
	sort.Ints(members)
	var t0 int64
	for k, m := range members {
		p := genPower(r, scale)
		if t0+p > maxTotal { // keep the initial set constructible
			members = members[:k]
			break
		}
		t0 += p
		power = append(power, p)
		model[m] = p
		start = append(start, change{Key: m, Power: p})
	}
	var vs *types.ValidatorSet
	if pv := vf.Try(func() { vs = mkSet(members, power) }); pv != nil {
		c.Violation("newvalidatorset-panic", witness(), "NewValidatorSet panicked: %v", pv)
		return
	}
	accepted, rejected := 0, 0
	var key strings.Builder
	fmt.Fprintf(&key, "upd:%v:%v", members, power)
	nops := 12 + r.IntN(29)
	for j := 0; j < nops; j++ {
		present := make([]int, 0, len(model))
		for m := range model {
			present = append(present, m)
		}
		sort.Ints(present)
		var absent []int
		for m := 0; m < len(keyPool)-1; m++ {
			if _, ok := model[m]; !ok {
				absent = append(absent, m)
			}
		}
		if len(model) > 0 && r.IntN(100) < 30 {
			times := 1 + r.IntN(5)
			if r.IntN(15) == 0 {
				times = 50 + r.IntN(200)
			}
			hist = append(hist, uop{Kind: "increment", Times: times})
			fmt.Fprintf(&key, "/I%d", times)
			if !increment(c, tl, vs, times, witness) {
				return
			}
			continue
		}
		// ---- build a change list
		var chs []change
		intent := "valid"
		pickPresent := func() int { return present[r.IntN(len(present))] }
		used := map[int]bool{}
		add := func(k int, p int64) {
			if !used[k] {
				used[k] = true
				chs = append(chs, change{Key: k, Power: p})
			}
		}
		for k := 1 + r.IntN(4); k > 0; k-- {
			switch x := r.IntN(10); {
			case x < 4 && len(absent) > 0 && len(model)+len(chs) < 7:
				add(absent[r.IntN(len(absent))], genPower(r, scale))
			case x < 7 && len(present) > 0:
				add(pickPresent(), genPower(r, scale))
			case len(present) > 1:
				add(pickPresent(), 0)
			}
		}
		if x := r.IntN(100); x < 42 {
			switch x % 14 {
			case 0, 1:
				if len(chs) > 0 {
					intent = "duplicate"
					d := chs[r.IntN(len(chs))]
					if r.IntN(2) == 0 {
						d.Power = genPower(r, scale)
					}
					chs = append(chs, d)
				}
			case 2, 3:
				intent = "negative"
				k := r.IntN(len(keyPool) - 1)
				chs = append(chs, change{Key: k, Power: -1 - r.Int64N(5)})
				if used[k] {
					intent = "negative+duplicate"
				}
			case 4:
				intent = "above-max"
				k := r.IntN(len(keyPool) - 1)
				chs = append(chs, change{Key: k, Power: maxTotal + 1 + r.Int64N(3)})
			case 5, 6:
				intent = "total-overflow"
				k := r.IntN(len(keyPool) - 1)
				chs = append(chs, change{Key: k, Power: maxTotal - r.Int64N(3)})
			case 7, 8:
				if len(absent) > 0 {
					intent = "unknown-removal"
					chs = append(chs, change{Key: absent[r.IntN(len(absent))], Power: 0})
				}
			case 9, 10:
				if len(present) > 0 {
					intent = "remove-all"
					chs = nil
					for _, m := range present {
						chs = append(chs, change{Key: m, Power: 0})
					}
				}
			case 11:
				intent = "zero-address"
				chs = append(chs, change{Key: len(keyPool) - 1, Power: genPower(r, scale), Defect: "zero-address"})
			case 12:
				intent = "nil-key"
				chs = append(chs, change{Key: len(keyPool) - 1, Power: genPower(r, scale), Defect: "nil-key"})
			default:
				intent = "mismatch"
				chs = append(chs, change{Key: len(keyPool) - 1, Power: genPower(r, scale), Defect: "mismatch"})
			}
			r.Shuffle(len(chs), func(a, b int) { chs[a], chs[b] = chs[b], chs[a] })
		}
		useABCI := r.IntN(3) == 0
		for _, ch := range chs { // the ABCI conversion fills a zero address from the key and dereferences a nil key: keep those for the direct API
			if ch.Defect == "zero-address" || ch.Defect == "nil-key" {
				useABCI = false
			}
		}
		op := uop{Kind: "update", Changes: chs, Intent: intent}
		if useABCI {
			op.Kind = "abci-update"
		}
		hist = append(hist, op)
		fmt.Fprintf(&key, "/%s%v", op.Kind[:1], chs)
		want, why := classify(model, chs)
		// materialise
		mkVal := func(ch change) *types.Validator {
			v := &types.Validator{Address: addrOf(ch.Key), PubKey: pub(ch.Key), VotingPower: ch.Power}
			switch ch.Defect {
			case "zero-address":
				v.Address = crypto.Address{}
			case "nil-key":
				v.PubKey = nil
			case "mismatch":
				v.Address = addrOf((ch.Key + 1) % len(keyPool))
			}
			return v
		}
		snap := snapshot(vs)
		hashBefore := vs.Hash()
		var err error
		var pv any
		if useABCI {
			ups := make([]abci.ValidatorUpdate, len(chs))
			for k, ch := range chs {
				v := mkVal(ch)
				ups[k] = abci.ValidatorUpdate{Address: v.Address, PubKey: v.PubKey, Power: v.VotingPower}
				if ch.Defect == "" && r.IntN(2) == 0 {
					ups[k].Address = crypto.Address{} // documented: filled from the key
				}
			}
			pv = vf.Try(func() { err = vs.UpdateWithABCIValidatorUpdates(ups) })
		} else {
			vals := make([]*types.Validator, len(chs))
			for k, ch := range chs {
				vals[k] = mkVal(ch)
			}
			pv = vf.Try(func() { err = vs.UpdateWithChangeSet(vals) })
		}
		tl["update_calls"]++
		tl["update_intent_"+intent]++
		if pv != nil {
			c.Violation("update-panic:"+want+":"+why, witness(), "update %v panicked: %v", chs, pv)
			return
		}
		gotAccept := err == nil
		switch {
		case want == "reject" && gotAccept:
			c.Violation("update-accepted:"+why, witness(), "update %v was accepted; it must be rejected (%s); set now %v", chs, why, view(vs))
			return
		case want == "accept" && !gotAccept:
			c.Violation("update-rejected-valid", witness(), "valid update %v was rejected: %v", chs, err)
			return
		}
		if want == "grey" {
			tl["update_grey_intermediate_overflow"]++
		}
		if !gotAccept {
			rejected++
			tl["update_rejected"]++
			tl["update_rejected_"+why]++
			if !reflect.DeepEqual(snap, vs) || !bytes.Equal(hashBefore, vs.Hash()) {
				c.Violation("rejected-update-changed-set:"+why, witness(), "rejected update %v (%v) changed the set: before %v after %v", chs, err, view(snap), view(vs))
				return
			}
			continue
		}
		accepted++
		tl["update_accepted"]++
		for _, ch := range chs {
			if ch.Power == 0 {
				delete(model, ch.Key)
				tl["update_removals"]++
			} else {
				if _, ok := model[ch.Key]; ok {
					tl["update_power_changes"]++
				} else {
					tl["update_additions"]++
				}
				model[ch.Key] = ch.Power
			}
		}
		// ---- post-conditions of an accepted update
		after := view(vs)
		if len(after.addrs) != len(model) {
			c.Violation("update-wrong-membership", witness(), "after %v the set has %d validators, the model %d: %v", chs, len(after.addrs), len(model), after)
			return
		}
		sumP := new(big.Int)
		for k, a := range after.addrs {
			m, ok := poolIndex[a]
			if !ok || model[m] != after.power[k] || after.power[k] <= 0 {
				c.Violation("update-wrong-membership", witness(), "after %v validator %x has power %d, model says %d (member=%v): %v", chs, a[:4], after.power[k], model[m], ok, after)
				return
			}
			if vs.Validators[k].PubKey == nil || vs.Validators[k].PubKey.Address() != a {
				c.Violation("update-address-key-mismatch", witness(), "validator %d address does not match its key", k)
				return
			}
			if k > 0 && bytes.Compare(after.addrs[k-1][:], a[:]) >= 0 {
				c.Violation("update-not-sorted", witness(), "after %v validators %d and %d are not strictly ascending by address (duplicate or unsorted): %v", chs, k-1, k, after)
				return
			}
			sumP.Add(sumP, big.NewInt(after.power[k]))
		}
		var total int64
		if pv := vf.Try(func() { total = vs.TotalVotingPower() }); pv != nil {
			c.Violation("total-power-panic", witness(), "TotalVotingPower panicked after an accepted update: %v", pv)
			return
		}
		if big.NewInt(total).Cmp(sumP) != 0 || sumP.Cmp(big.NewInt(maxTotal)) > 0 {
			c.Violation("update-wrong-total", witness(), "TotalVotingPower=%d, sum of powers %s (max %d)", total, sumP, maxTotal)
			return
		}
		if ok, d, lim := spreadOK(after); !ok {
			c.Violation("priority-spread-after-update", witness(), "max-min priority %s exceeds 3x total power %s after %v: %v", d, lim, chs, after)
			return
		}
		for k := range after.addrs { // lookups agree with the order
			if idx, v := vs.GetByAddress(after.addrs[k]); idx != k || v == nil || !vs.HasAddress(after.addrs[k]) {
				c.Violation("update-lookup-broken", witness(), "GetByAddress/HasAddress do not find validator %d after %v", k, chs)
				return
			}
		}
	}
	c.Case(key.String(), accepted > 0 && rejected > 0)
	tl["update_histories"]++
	if i < 2 {
		c.Sample(witness())
	}
}

func run(c *vf.Ctx) {
	// (a) fairness windows
	var vecs [][]int64
	collect := func(p []int64) { vecs = append(vecs, p) }
	vectors(1, 6, collect)
	vectors(2, 6, collect)
	vectors(3, 5, collect)
	vectors(4, 5, collect)
	vectors(5, 3, collect)
	if !c.Quick() {
		vectors(5, 4, collect)
		vectors(6, 3, collect)
	} else {
		vectors(6, 2, collect)
	}
	r := c.Rng(7)
	for k := c.N(150, 3000); k > 0; k-- {
		n := 5 + r.IntN(2)
		p := make([]int64, n)
		for i := range p {
			p[i] = 1 + r.Int64N(int64(c.N(5, 9)))
		}
		vecs = append(vecs, p)
	}
	c.Parallel(len(vecs), 16, 100, func(i int, _ *rand.Rand) {
		tl := tally{}
		defer tl.flush(c)
		fairness(c, tl, vecs[i])
	})
	c.Logf("fairness: %d power vectors", len(vecs))
	// documented panics
	{
		vs := mkSet([]int{0, 1}, []int64{1, 2})
		if vf.Try(func() { vs.IncrementProposerPriority(0) }) == nil {
			c.Violation("increment-nonpositive-no-panic", nil, "IncrementProposerPriority(0) did not panic although the function documents that times must be positive")
		}
		c.Count("documented_panics_checked", 1)
	}
	// an ABCI removal entry that names neither an address nor a key is an unknown removal: it must be rejected, not crash
	{
		vs := mkSet([]int{0, 1, 2}, []int64{1, 2, 3})
		snap := snapshot(vs)
		ups := []abci.ValidatorUpdate{{Power: 0}}
		var err error
		pv := vf.Try(func() { err = vs.UpdateWithABCIValidatorUpdates(ups) })
		c.Count("abci_anonymous_removal_probe", 1)
		w := map[string]any{"workload": "abci-probe", "initial_powers": []int64{1, 2, 3}, "updates": []map[string]any{{"address": "", "pub_key": nil, "power": 0}}}
		if pv != nil {
			c.Violation("update-panic:abci-removal-without-address-and-key", w, "UpdateWithABCIValidatorUpdates([{Power:0}]) panicked instead of rejecting the update: %v", pv)
		} else if err == nil || !reflect.DeepEqual(snap, vs) {
			c.Violation("update-accepted:abci-removal-without-address-and-key", w, "UpdateWithABCIValidatorUpdates([{Power:0}]) err=%v, set changed=%v", err, !reflect.DeepEqual(snap, vs))
		}
	}
	// (b) huge powers
	c.Parallel(c.N(4000, 40000), 16, 1<<20, func(i int, r *rand.Rand) {
		tl := tally{}
		defer tl.flush(c)
		hugeRun(c, tl, i, r)
	})
	c.Parallel(c.N(12000, 100000), 16, 1<<25, func(i int, r *rand.Rand) {
		tl := tally{}
		defer tl.flush(c)
		injectedRun(c, tl, i, r)
	})
	c.Logf("huge powers and injected priorities done")
	// (c) update histories
	c.Parallel(c.N(15000, 200000), 16, 1<<30, func(i int, r *rand.Rand) { updateHistory(c, i, r) })

	c.Assume("math/big is the arithmetic reference; the documented algorithm of IncrementProposerPriority (rescale, centre, add power, highest priority with ties to the lower address, subtract total) is the specification of 'no overflow'")
	c.Assume("fairness windows are asserted for sets created by NewValidatorSet (all priorities start at zero); after an update the transient towards the fair cycle is not constrained by the property")
	c.RequireCounter("fairness_sets_unequal", 300)
	c.RequireCounter("fairness_windows", 10000)
	c.RequireCounter("increment_with_tie", 100)
	c.RequireCounter("increment_rescaled", 20)
	c.RequireCounter("huge_sets", 1000)
	c.RequireCounter("update_accepted", 5000)
	c.RequireCounter("update_additions", 500)
	c.RequireCounter("update_removals", 500)
	c.RequireCounter("update_power_changes", 500)
	for _, why := range []string{"malformed", "duplicate", "negative", "above-max", "unknown-removal", "empty-result", "total-overflow"} {
		c.RequireCounter("update_rejected_"+why, 20)
	}
}
