package c21

import (
	"math/rand/v2"
	"strings"
)

// nestForm is one production that can be nested arbitrarily deep. The part
// inside « » is repeated; a second « » pair inside the first marks the base
// (so «(«1»)» expands to (((…1…)))). mult = how many parser nesting levels one
// repetition costs (so the limit is reached near maxNestLev/mult); scope marks
// forms that also open resolver scopes (limit maxScopeDepth/smult when object
// resolution is on). The list mirrors the productions of the upstream
// depth-limit tests plus a few more.
type nestForm struct {
	name   string
	format string
	mult   int
	scope  bool
	smult  int
}

var nestForms = []nestForm{
	{"array", "package main; var x «[1]»int", 1, false, 1},
	{"slice", "package main; var x «[]»int", 1, false, 1},
	{"struct", "package main; var x «struct { X «int» }»", 1, true, 1},
	{"pointer", "package main; var x «*»int", 1, false, 1},
	{"func", "package main; var x «func()»int", 1, true, 1},
	{"chan", "package main; var x «chan »int", 1, false, 1},
	{"chan2", "package main; var x «<-chan »int", 1, false, 1},
	{"interface", "package main; var x «interface { M() «int» }»", 1, true, 2},
	{"map", "package main; var x «map[int]»int", 1, false, 1},
	{"slicelit", "package main; var x = []any{«[]any{«»}»}", 3, false, 1},
	{"arraylit", "package main; var x = «[1]any{«nil»}»", 3, false, 1},
	{"structlit", "package main; var x = «struct{x any}{«nil»}»", 3, false, 1},
	{"maplit", "package main; var x = «map[int]any{1:«nil»}»", 3, false, 1},
	{"element", "package main; var x = struct{x any}{x: «{«»}»}", 1, false, 1},
	{"dot", "package main; var x = «x.»x", 1, false, 1},
	{"index", "package main; var x = x«[1]»", 1, false, 1},
	{"sliceexpr", "package main; var x = x«[1:2]»", 1, false, 1},
	{"slice3", "package main; var x = x«[1:2:3]»", 1, false, 1},
	{"dottype", "package main; var x = x«.(any)»", 1, false, 1},
	{"callseq", "package main; var x = x«()»", 1, false, 1},
	{"methseq", "package main; var x = x«.m()»", 2, false, 1},
	{"binary", "package main; var x = «1+»1", 1, false, 1},
	{"binaryparen", "package main; var x = «1+(«1»)»", 2, false, 1},
	{"unary", "package main; var x = «^»1", 1, false, 1},
	{"addr", "package main; var x = «& »x", 1, false, 1},
	{"star", "package main; var x = «*»x", 1, false, 1},
	{"recv", "package main; var x = «<-»x", 1, false, 1},
	{"call", "package main; var x = «f(«1»)»", 2, false, 1},
	{"conv", "package main; var x = «(*T)(«1»)»", 2, false, 1},
	{"paren", "package main; var x = «(«1»)»", 1, false, 1},
	{"parentype", "package main; var x «(«int»)»", 1, false, 1},
	{"generic", "package main; var x «T[«int»]»", 1, false, 1},
	{"label", "package main; func main() { «Label:» }", 1, false, 1},
	{"if", "package main; func main() { «if true { «» }»}", 2, true, 2},
	{"ifelse", "package main; func main() { «if true {} else » {} }", 1, true, 1},
	{"switch", "package main; func main() { «switch { default: «» }»}", 1, true, 2},
	{"typeswitch", "package main; func main() { «switch x.(type) { default: «» }» }", 1, true, 2},
	{"select", "package main; func main() { «select { default: «» }» }", 1, true, 2},
	{"for0", "package main; func main() { «for { «» }» }", 1, true, 2},
	{"for1", "package main; func main() { «for x { «» }» }", 1, true, 2},
	{"for3", "package main; func main() { «for f(); g(); h() { «» }» }", 1, true, 2},
	{"forrange0", "package main; func main() { «for range x { «» }» }", 1, true, 2},
	{"forrange1", "package main; func main() { «for x = range z { «» }» }", 1, true, 2},
	{"forrange2", "package main; func main() { «for x, y = range z { «» }» }", 1, true, 2},
	{"block", "package main; func main() { «{ «» }» }", 1, true, 1},
	{"go", "package main; func main() { «go func() { «» }()» }", 2, true, 1},
	{"defer", "package main; func main() { «defer func() { «» }()» }", 2, true, 1},
	{"funclit", "package main; var x = «func() { _ = «1» }»", 2, true, 1},
}

func splitGuillemets(s string) (pre, mid, post string) {
	start, end := strings.Index(s, "«"), strings.LastIndex(s, "»")
	if start < 0 || end < 0 {
		return s, "", ""
	}
	return s[:start], s[start+len("«") : end], s[end+len("»"):]
}

func (f nestForm) expand(n int) string {
	pre, mid, post := splitGuillemets(f.format)
	if strings.Contains(mid, "«") {
		left, base, right := splitGuillemets(mid)
		mid = strings.Repeat(left, n) + base + strings.Repeat(right, n)
	} else {
		mid = strings.Repeat(mid, n)
	}
	return pre + mid + post
}

// tokenSoup returns a random token sequence.
func tokenSoup(r *rand.Rand) []byte {
	var b strings.Builder
	if r.IntN(3) > 0 {
		b.WriteString("package p\n")
	}
	starts := []string{"", "func f() {", "var x = ", "type T ", "func f[", "import ", "const (", "type T[P ", "func (r ", "var _ = []T{", "func f() { switch ", "func f() { for ", "func f() { if ", "func f() { select {", "type I interface {", "type S struct {"}
	b.WriteString(starts[r.IntN(len(starts))])
	n := r.IntN(120)
	for i := 0; i < n; i++ {
		b.WriteString(vocab[r.IntN(len(vocab))])
		switch r.IntN(6) {
		case 0:
			b.WriteByte('\n')
		case 1:
		default:
			b.WriteByte(' ')
		}
	}
	return []byte(b.String())
}

// randomBytes returns raw random bytes, optionally after a valid package clause.
func randomBytes(r *rand.Rand) []byte {
	n := r.IntN(300)
	out := make([]byte, 0, n+16)
	if r.IntN(2) == 0 {
		out = append(out, "package p\n"...)
	}
	ascii := r.IntN(2) == 0
	for i := 0; i < n; i++ {
		if ascii {
			out = append(out, byte(9+r.IntN(118)))
		} else {
			out = append(out, byte(r.UintN(256)))
		}
	}
	return out
}

// manyErrors builds a file with k erroneous lines (distinct lines, or all on one
// line): exercises the "more than 10 errors" bailout and same-line suppression.
func manyErrors(r *rand.Rand) []byte {
	var b strings.Builder
	b.WriteString("package p\n")
	bad := []string{"var = 1", "func (", "type T struct { x, }", "x := ", "var x int = )", "const c", "import 5", "func f() { if }", "var x = [", "type", "func f() { a b }", "var x = 1 +", "func f() { for ;; ; {} }", "}", "var x = T{1 2}"}
	k := 1 + r.IntN(30)
	sep := "\n"
	if r.IntN(4) == 0 {
		sep = "; "
	}
	for i := 0; i < k; i++ {
		b.WriteString(bad[r.IntN(len(bad))])
		b.WriteString(sep)
		if r.IntN(3) == 0 {
			b.WriteString("var ok int" + sep)
		}
	}
	return []byte(b.String())
}

// redeclarations builds a file with duplicate declarations, unresolved and
// shadowed identifiers, labels: exercises resolver.go and DeclarationErrors.
func redeclarations(r *rand.Rand) []byte {
	var b strings.Builder
	b.WriteString("package p\n")
	names := []string{"a", "b", "T", "f", "_", "init", "x"}
	for i, k := 0, 1+r.IntN(12); i < k; i++ {
		n := names[r.IntN(len(names))]
		switch r.IntN(9) {
		case 0:
			b.WriteString("var " + n + " int\n")
		case 1:
			b.WriteString("const " + n + " = iota\n")
		case 2:
			b.WriteString("type " + n + " struct{ " + n + " int; " + names[r.IntN(len(names))] + " int }\n")
		case 3:
			b.WriteString("func " + n + "(" + n + ", " + names[r.IntN(len(names))] + " int) (" + names[r.IntN(len(names))] + " int) { " + n + " := 1; _ = " + n + "; L: for { break L }; L: goto L }\n")
		case 4:
			b.WriteString("func " + n + "[" + n + " any, " + names[r.IntN(len(names))] + " any]() {}\n")
		case 5:
			b.WriteString("import " + n + " \"p/" + n + "\"\n")
		case 6:
			b.WriteString("func (" + n + " T) " + n + "() { var " + n + ", " + n + " int; " + n + ", " + n + " := 1, 2 }\n")
		case 7:
			b.WriteString("func g" + n + "() { switch " + n + " := y.(type) { case int: _ = " + n + " }; for " + n + ", " + n + " := range z {}; select { case " + n + " := <-c: } }\n")
		case 8:
			b.WriteString("type " + n + "[" + n + " interface{ ~int | " + n + " }] struct{ f " + n + " }\n")
		}
	}
	return []byte(b.String())
}
