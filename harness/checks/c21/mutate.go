package c21

import (
	"bytes"
	"fmt"
	"go/scanner"
	"go/token"
	"math/rand/v2"
	"strings"
)

// span is one source token as delimited by go/scanner (toolchain scanner, used
// only to pick mutation points and as the independent token-stream oracle).
type span struct {
	tok      token.Token
	beg, end int
}

// scanAll tokenises src. toks is the complete token sequence including
// comments, automatically inserted semicolons and the final EOF (what a parser
// that scans with ScanComments sees); spans are the tokens that have a source
// extent (no implicit semicolons, no EOF).
func scanAll(src []byte) (toks []token.Token, spans []span) {
	fset := token.NewFileSet()
	f := fset.AddFile("", -1, len(src))
	var s scanner.Scanner
	s.Init(f, src, nil, scanner.ScanComments)
	toks = make([]token.Token, 0, len(src)/3+16)
	spans = make([]span, 0, len(src)/3+16)
	for {
		pos, tok, lit := s.Scan()
		toks = append(toks, tok)
		if tok == token.EOF {
			break
		}
		if tok == token.SEMICOLON && lit == "\n" {
			continue
		}
		off := f.Offset(pos)
		n := len(lit)
		if n == 0 {
			n = len(tok.String())
		}
		if tok == token.ILLEGAL && n == 0 {
			n = 1
		}
		end := off + n
		if end > len(src) {
			end = len(src)
		}
		spans = append(spans, span{tok, off, end})
	}
	// literals of ILLEGAL tokens can be longer than their source extent
	// (U+FFFD for an invalid byte): never let a span run into the next one.
	for i := 0; i+1 < len(spans); i++ {
		if spans[i].end > spans[i+1].beg {
			spans[i].end = spans[i+1].beg
		}
		if spans[i].end < spans[i].beg {
			spans[i].end = spans[i].beg
		}
	}
	return
}

var vocab = func() []string {
	v := []string{}
	for t := token.ADD; t <= token.COLON; t++ {
		v = append(v, t.String())
	}
	for t := token.BREAK; t <= token.VAR; t++ {
		v = append(v, t.String())
	}
	v = append(v, "~", "x", "y", "T", "_", "int", "any", "nil", "iota", "0", "1", "0x1p-2", "1.5e3", "'a'", `"s"`, "`r`", "1i",
		"/* c */", "// c\n", "\n", ";", "...", "[]", "{}", "()", "<-chan", "chan<-", "func()", "struct{}", "interface{}", "map[T]T", "[...]T", "*T", "x.y", "x[i]", "f(x)", "T{}", "x.(T)", "x.(type)")
	return v
}()

var brackets = []string{"(", ")", "[", "]", "{", "}"}

var hostileBytes = [][]byte{
	{0}, {0xff}, {0xef, 0xbb, 0xbf}, {'\r'}, {'\r', '\n'}, {'"'}, {'`'}, {'\''}, {'\\'}, []byte("/*"), []byte("*/"), []byte("//"), {'\n'},
	{0xc0, 0x80}, {0xed, 0xa0, 0x80}, []byte(" "), []byte("·"), []byte("é"), []byte("0x"), []byte("1e"), []byte("'\\"), {0x7f}, {0x1b},
}

type mutOp struct {
	name string
	// f returns the mutated source; other is a second corpus file for splices.
	f func(r *rand.Rand, src []byte, sp []span, other []byte) []byte
}

func pick(r *rand.Rand, n int) int {
	if n <= 0 {
		return 0
	}
	return r.IntN(n)
}

func cat(parts ...[]byte) []byte {
	n := 0
	for _, p := range parts {
		n += len(p)
	}
	out := make([]byte, 0, n)
	for _, p := range parts {
		out = append(out, p...)
	}
	return out
}

var sp1 = []byte(" ")

var mutOps = []mutOp{
	{"tok-delete", func(r *rand.Rand, src []byte, sp []span, _ []byte) []byte {
		if len(sp) == 0 {
			return src
		}
		s := sp[pick(r, len(sp))]
		return cat(src[:s.beg], src[s.end:])
	}},
	{"tok-duplicate", func(r *rand.Rand, src []byte, sp []span, _ []byte) []byte {
		if len(sp) == 0 {
			return src
		}
		s := sp[pick(r, len(sp))]
		return cat(src[:s.end], sp1, src[s.beg:s.end], src[s.end:])
	}},
	{"tok-swap-adjacent", func(r *rand.Rand, src []byte, sp []span, _ []byte) []byte {
		if len(sp) < 2 {
			return src
		}
		i := pick(r, len(sp)-1)
		a, b := sp[i], sp[i+1]
		return cat(src[:a.beg], src[b.beg:b.end], src[a.end:b.beg], src[a.beg:a.end], src[b.end:])
	}},
	{"tok-swap-random", func(r *rand.Rand, src []byte, sp []span, _ []byte) []byte {
		if len(sp) < 2 {
			return src
		}
		i, j := pick(r, len(sp)), pick(r, len(sp))
		if i == j {
			return src
		}
		if i > j {
			i, j = j, i
		}
		a, b := sp[i], sp[j]
		return cat(src[:a.beg], src[b.beg:b.end], src[a.end:b.beg], src[a.beg:a.end], src[b.end:])
	}},
	{"tok-replace", func(r *rand.Rand, src []byte, sp []span, _ []byte) []byte {
		if len(sp) == 0 {
			return src
		}
		s := sp[pick(r, len(sp))]
		return cat(src[:s.beg], []byte(vocab[pick(r, len(vocab))]), src[s.end:])
	}},
	{"tok-insert", func(r *rand.Rand, src []byte, sp []span, _ []byte) []byte {
		if len(sp) == 0 {
			return src
		}
		s := sp[pick(r, len(sp))]
		return cat(src[:s.beg], []byte(vocab[pick(r, len(vocab))]), sp1, src[s.beg:])
	}},
	{"tok-delete-range", func(r *rand.Rand, src []byte, sp []span, _ []byte) []byte {
		if len(sp) < 3 {
			return src
		}
		i := pick(r, len(sp)-2)
		j := i + 1 + pick(r, min(20, len(sp)-i-1))
		return cat(src[:sp[i].beg], src[sp[j].beg:])
	}},
	{"tok-duplicate-range", func(r *rand.Rand, src []byte, sp []span, _ []byte) []byte {
		if len(sp) < 3 {
			return src
		}
		i := pick(r, len(sp)-2)
		j := i + 1 + pick(r, min(20, len(sp)-i-1))
		return cat(src[:sp[j].beg], src[sp[i].beg:sp[j].beg], src[sp[j].beg:])
	}},
	{"tok-delete-many", func(r *rand.Rand, src []byte, sp []span, _ []byte) []byte {
		// many independent deletions across the file: > 10 errors on different lines (bailout path)
		if len(sp) < 30 {
			return src
		}
		n := 12 + pick(r, 40)
		del := map[int]bool{}
		for k := 0; k < n; k++ {
			del[pick(r, len(sp))] = true
		}
		var out []byte
		last := 0
		for i, s := range sp {
			if del[i] {
				out = append(out, src[last:s.beg]...)
				last = s.end
			}
		}
		return append(out, src[last:]...)
	}},
	{"bracket-delete", func(r *rand.Rand, src []byte, sp []span, _ []byte) []byte {
		var idx []int
		for i, s := range sp {
			switch s.tok {
			case token.LPAREN, token.RPAREN, token.LBRACK, token.RBRACK, token.LBRACE, token.RBRACE:
				idx = append(idx, i)
			}
		}
		if len(idx) == 0 {
			return src
		}
		s := sp[idx[pick(r, len(idx))]]
		return cat(src[:s.beg], src[s.end:])
	}},
	{"bracket-insert", func(r *rand.Rand, src []byte, sp []span, _ []byte) []byte {
		if len(sp) == 0 {
			return src
		}
		s := sp[pick(r, len(sp))]
		return cat(src[:s.beg], []byte(brackets[pick(r, len(brackets))]), src[s.beg:])
	}},
	{"truncate-token", func(r *rand.Rand, src []byte, sp []span, _ []byte) []byte {
		if len(sp) == 0 {
			return src
		}
		return append([]byte(nil), src[:sp[pick(r, len(sp))].beg]...)
	}},
	{"truncate-byte", func(r *rand.Rand, src []byte, _ []span, _ []byte) []byte {
		return append([]byte(nil), src[:pick(r, len(src)+1)]...)
	}},
	{"byte-flip", func(r *rand.Rand, src []byte, _ []span, _ []byte) []byte {
		out := append([]byte(nil), src...)
		for k := 1 + pick(r, 4); k > 0 && len(out) > 0; k-- {
			out[pick(r, len(out))] = byte(r.UintN(256))
		}
		return out
	}},
	{"byte-insert-hostile", func(r *rand.Rand, src []byte, _ []span, _ []byte) []byte {
		i := pick(r, len(src)+1)
		return cat(src[:i], hostileBytes[pick(r, len(hostileBytes))], src[i:])
	}},
	{"byte-delete-range", func(r *rand.Rand, src []byte, _ []span, _ []byte) []byte {
		if len(src) == 0 {
			return src
		}
		i := pick(r, len(src))
		j := min(len(src), i+1+pick(r, 40))
		return cat(src[:i], src[j:])
	}},
	{"splice", func(r *rand.Rand, src []byte, sp []span, other []byte) []byte {
		_, osp := scanAll(other)
		if len(sp) == 0 || len(osp) == 0 {
			return src
		}
		return cat(src[:sp[pick(r, len(sp))].beg], other[osp[pick(r, len(osp))].beg:])
	}},
	{"newline-edit", func(r *rand.Rand, src []byte, _ []span, _ []byte) []byte {
		var nl []int
		for i, b := range src {
			if b == '\n' {
				nl = append(nl, i)
			}
		}
		if len(nl) == 0 {
			return src
		}
		i := nl[pick(r, len(nl))]
		rep := [][]byte{{' '}, {';'}, {}, {'\r', '\n'}, {'\n', '\n', '\n'}}[pick(r, 5)]
		return cat(src[:i], rep, src[i+1:])
	}},
	{"line-directive", func(r *rand.Rand, src []byte, sp []span, _ []byte) []byte {
		dirs := []string{"//line other.go:%d\n", "//line :%d\n", "/*line q.go:%d:3*/", "//line other.go:%d:7\n", "//line :0\n", "//line x.go:99999999999999999999\n", "/*line :%d*/"}
		d := dirs[pick(r, len(dirs))]
		if strings.Contains(d, "%d") {
			d = fmt.Sprintf(d, 1+pick(r, 500))
		}
		at := 0
		if len(sp) > 0 {
			at = sp[pick(r, len(sp))].beg
			if strings.HasPrefix(d, "//") {
				// line comments are only directives at the start of a line
				for at > 0 && src[at-1] != '\n' {
					at--
				}
			}
		}
		return cat(src[:at], []byte(d), src[at:])
	}},
	{"build-comment", func(r *rand.Rand, src []byte, _ []span, _ []byte) []byte {
		cs := []string{"//go:build go1.%d\n\n", "//go:build go1.%d && linux\n", "//go:build !go1.%d || (a && go1.21)\n", "//go:build go1.%d.3\n", "//go:build (\n", "// +build go1.%d\n\n"}
		d := cs[pick(r, len(cs))]
		if strings.Contains(d, "%d") {
			d = fmt.Sprintf(d, 1+pick(r, 30))
		}
		return cat([]byte(d), src)
	}},
	{"wrap-deep", func(r *rand.Rand, src []byte, sp []span, _ []byte) []byte {
		var idx []int
		for i, s := range sp {
			if s.tok == token.IDENT || s.tok == token.INT || s.tok == token.STRING {
				idx = append(idx, i)
			}
		}
		if len(idx) == 0 {
			return src
		}
		s := sp[idx[pick(r, len(idx))]]
		depth := 1 + pick(r, 60)
		if r.IntN(8) == 0 {
			depth = 200 + pick(r, 3000)
		}
		forms := [][2]string{{"(", ")"}, {"f(", ")"}, {"[]T{", "}"}, {"-", ""}, {"*", ""}, {"!", ""}, {"&", ""}, {"<-", ""}, {"func() T { return ", " }()"}, {"", "[0]"}, {"", ".f"}, {"", "()"}, {"1+", ""}, {"", ".(T)"}, {"[]", ""}, {"map[k]", ""}, {"chan ", ""}}
		fm := forms[pick(r, len(forms))]
		return cat(src[:s.beg], bytes.Repeat([]byte(fm[0]), depth), src[s.beg:s.end], bytes.Repeat([]byte(fm[1]), depth), src[s.end:])
	}},
}

// mutate applies 1..k operators to src (re-tokenising between operators) and
// returns the mutant and the operator names applied.
func mutate(r *rand.Rand, src []byte, other []byte) ([]byte, []string) {
	n := 1
	switch x := r.IntN(10); {
	case x >= 9:
		n = 3 + r.IntN(4)
	case x >= 7:
		n = 2
	}
	var names []string
	cur := src
	for k := 0; k < n; k++ {
		_, sp := scanAll(cur)
		op := mutOps[pick(r, len(mutOps))]
		cur = op.f(r, cur, sp, other)
		names = append(names, op.name)
	}
	return cur, names
}
