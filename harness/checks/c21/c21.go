// Package c21: the forked Go parser (gnovm/pkg/parser) parses exactly like the
// go/parser it was forked from, reports the same errors, drives its extra
// callback consistently and never panics.
//
// Oracle (differential twin + independent scanner):
//   - reference = verifharness/ref/goparser124: the fork with gno.patch
//     reversed (Go 1.24's go/parser), checked in as source (ref/regen.sh). The
//     toolchain's own go/parser (1.25) is NOT the reference.
//   - for every (input, mode): canonical dump of the returned *ast.File (all
//     fields, all positions, comments, scopes/objects with maps in sorted key
//     order, pointer sharing) equal; error value equal entry by entry
//     (scanner.ErrorList: filename, offset, line, column, message); the line
//     table / //line-adjusted positions recorded in the token.File equal.
//   - ParseFile (no callback) and ParseFile2 (callback) give the same result:
//     the callback has no influence on the tree.
//   - callback: the (token, nestedLevel) sequence the fork reports equals the
//     sequence upstream's own next0 sees (observation hook added to the
//     reference by ref/verif_hook.patch: token and p.nestLev after each Scan);
//     independently, the token sequence must be a prefix of what go/scanner
//     yields for the same bytes (comments and auto-semicolons included, then
//     EOF forever) — i.e. exactly once per scanned token, in order — and the
//     complete stream when the parse ran to the end without error; levels are
//     0 at the first token and within [0, maxNestLev]; a panic raised by the
//     callback (how the GnoVM gas meter aborts parsing) propagates unchanged.
//   - no panic escapes any entry point (bailouts are recovered like upstream).
package c21

import (
	"bytes"
	"encoding/base64"
	"encoding/json"
	"fmt"
	"go/ast"
	"go/parser"
	"go/token"
	"math/rand/v2"
	"os"
	"path/filepath"
	"reflect"
	"runtime/debug"
	"sort"
	"strconv"
	"strings"
	"sync"
	"unicode/utf8"

	gp "github.com/gnolang/gno/gnovm/pkg/parser"

	"verifharness/internal/vf"
	ref "verifharness/ref/goparser124"
)

func init() {
	vf.Register(&vf.Check{
		ID:    "C21",
		Level: "exploration",
		Rule: "case = (entry point, source bytes, Mode); entry points ParseFile2+ParseFile, ParseExprFrom2, ParseExpr2. Inputs: every .gno/.go file under gnovm/tests/files, examples, gnovm/stdlibs and gnovm/pkg/parser (+testdata) " +
			"and every string literal of the parser's own tests, each under the GnoVM mode (ParseComments|DeclarationErrors) or a seeded random subset of {PackageClauseOnly, ImportsOnly, ParseComments, DeclarationErrors, AllErrors, SkipObjectResolution}; " +
			"seeded mutants of those files (21 operators: token delete/duplicate/swap/replace/insert/range, bracket unbalance, truncation, byte flip/insert/delete, splice, newline edits, //line and //go:build directives, local deep nesting; 1–6 operators per mutant); " +
			"generated token soup, random bytes, many-error files, redeclaration files; nested productions at the scope-depth limit (1e3) and at the parser nesting limit (1e5) swept across the boundary; expression snippets cut from the corpus. " +
			"non-trivial = the reference reports at least one error or the callback saw at least 20 tokens; distinct by (entry, mode, bytes)",
		Run:    run,
		Replay: replay,
	})
}

const (
	gnoVMMode = uint(gp.ParseComments | gp.DeclarationErrors)
	maxLevel  = ref.MaxNestLev
)

var modeFlags = []struct {
	name string
	bit  uint
	pct  int
}{
	{"PackageClauseOnly", uint(gp.PackageClauseOnly), 4},
	{"ImportsOnly", uint(gp.ImportsOnly), 8},
	{"ParseComments", uint(gp.ParseComments), 60},
	{"DeclarationErrors", uint(gp.DeclarationErrors), 45},
	{"AllErrors", uint(gp.AllErrors), 45},
	{"SkipObjectResolution", uint(gp.SkipObjectResolution), 40},
}

func modeNames(m uint) []string {
	out := []string{}
	for _, f := range modeFlags {
		if m&f.bit != 0 {
			out = append(out, f.name)
		}
	}
	return out
}

func randMode(r *rand.Rand) uint {
	if r.IntN(4) == 0 {
		return gnoVMMode
	}
	var m uint
	for _, f := range modeFlags {
		if r.IntN(100) < f.pct {
			m |= f.bit
		}
	}
	return m
}

type caseSpec struct {
	entry  string // file | expr | expr2
	name   string
	src    []byte
	mode   uint
	origin string
	nest   *nestWitness
	idx    int // case index in its phase (selects sub-checks deterministically)
}

type nestWitness struct {
	Form  string `json:"form"`
	Depth int    `json:"depth"`
}

type tl struct {
	tok token.Token
	lev int
}

var dumpers = sync.Pool{New: func() any { return newDumper() }}

type outcome struct {
	ast, errs, lines []byte
	seq              []tl
	pv               any
	nerr             int
	err              error
}

func (o *outcome) fill(d *dumper, node any, fset *token.FileSet, err error) {
	d.reset()
	d.val(reflect.ValueOf(node))
	o.ast = append([]byte(nil), d.buf.Bytes()...)
	var b bytes.Buffer
	dumpErr(&b, err)
	o.errs = append([]byte(nil), b.Bytes()...)
	b.Reset()
	dumpLines(&b, fset)
	o.lines = b.Bytes()
	o.err = err
}

func runFork(cs *caseSpec, withCB bool, cb func(token.Token, int)) (o outcome) {
	d := dumpers.Get().(*dumper)
	defer dumpers.Put(d)
	fset := token.NewFileSet()
	var node any
	var err error
	if withCB && cb == nil {
		o.seq = make([]tl, 0, len(cs.src)/3+16)
		cb = func(t token.Token, l int) { o.seq = append(o.seq, tl{t, l}) }
	}
	o.pv = vf.Try(func() {
		switch cs.entry {
		case "file":
			var f *ast.File
			if withCB {
				f, err = gp.ParseFile2(fset, cs.name, cs.src, gp.Mode(cs.mode), cb)
			} else {
				f, err = gp.ParseFile(fset, cs.name, cs.src, gp.Mode(cs.mode))
			}
			node = f
		case "expr":
			var x ast.Expr
			if withCB {
				x, err = gp.ParseExprFrom2(fset, cs.name, cs.src, gp.Mode(cs.mode), cb)
			} else {
				x, err = gp.ParseExprFrom(fset, cs.name, cs.src, gp.Mode(cs.mode))
			}
			node = &x
		case "expr2":
			var x ast.Expr
			if withCB {
				x, err = gp.ParseExpr2(string(cs.src), cb)
			} else {
				x, err = gp.ParseExpr(string(cs.src))
			}
			node = &x
		}
	})
	if o.pv == nil {
		o.fill(d, node, fset, err)
		if cs.entry == "expr2" {
			o.lines = nil // ParseExpr2 uses a private FileSet
		}
	}
	return
}

func runRef(cs *caseSpec) (o outcome) {
	d := dumpers.Get().(*dumper)
	defer dumpers.Put(d)
	fset := token.NewFileSet()
	var node any
	var err error
	o.seq = make([]tl, 0, len(cs.src)/3+16)
	hook := func(t token.Token, l int) { o.seq = append(o.seq, tl{t, l}) }
	o.pv = vf.Try(func() {
		switch cs.entry {
		case "file":
			var f *ast.File
			f, err = ref.ParseFileHook(fset, cs.name, cs.src, ref.Mode(cs.mode), hook)
			node = f
		case "expr":
			var x ast.Expr
			x, err = ref.ParseExprFromHook(fset, cs.name, cs.src, ref.Mode(cs.mode), hook)
			node = &x
		case "expr2":
			var x ast.Expr
			// ParseExpr(x) == ParseExprFrom(token.NewFileSet(), "", []byte(x), 0)
			x, err = ref.ParseExprFromHook(fset, "", cs.src, 0, hook)
			node = &x
		}
	})
	if o.pv == nil {
		o.fill(d, node, fset, err)
		if cs.entry == "expr2" {
			o.lines = nil // ParseExpr2 uses a private FileSet
		}
	}
	return
}

func (cs *caseSpec) witness(extra map[string]any) map[string]any {
	w := map[string]any{"entry": cs.entry, "filename": cs.name, "mode": cs.mode, "mode_flags": modeNames(cs.mode), "origin": cs.origin, "len": len(cs.src)}
	switch {
	case cs.nest != nil:
		w["nest"] = cs.nest
	case len(cs.src) <= 400000:
		w["src_b64"] = base64.StdEncoding.EncodeToString(cs.src)
		if utf8.Valid(cs.src) && len(cs.src) <= 1500 {
			w["src"] = string(cs.src)
		}
	}
	for k, v := range extra {
		w[k] = v
	}
	return w
}

type sentinel struct{ n int }

// evaluate runs one case through all monitors.
func evaluate(c *vf.Ctx, cs *caseSpec) {
	R := runRef(cs)
	F := runFork(cs, true, nil)
	entryName := map[string]string{"file": "ParseFile2", "expr": "ParseExprFrom2", "expr2": "ParseExpr2"}[cs.entry]

	if R.pv == nil {
		R.nerr = bytes.Count(R.errs, []byte("\n")) - 1
	}
	nontrivial := R.pv != nil || R.nerr > 0 || len(R.seq) >= 20
	var kb strings.Builder
	fmt.Fprintf(&kb, "%s/%d/", cs.entry, cs.mode)
	kb.Write(cs.src)
	c.Case(kb.String(), nontrivial)

	c.Count("entry_"+entryName, 1)
	c.Count("callback_tokens", len(F.seq))
	for _, f := range modeFlags {
		if cs.mode&f.bit != 0 {
			c.Count("mode_"+f.name, 1)
		}
	}
	if cs.mode == gnoVMMode && cs.entry == "file" {
		c.Count("mode_exactly_gnovm", 1)
	}

	if F.pv != nil {
		c.Violation("panic:"+entryName, cs.witness(map[string]any{"panic": fmt.Sprint(F.pv), "reference_panicked": R.pv != nil}),
			"%s panicked on %s (mode %v): %v (reference panicked: %v)", entryName, cs.origin, modeNames(cs.mode), F.pv, R.pv != nil)
		return
	}
	if R.pv != nil {
		// upstream itself panicked and the fork did not: cannot compare.
		c.Count("reference_panics", 1)
		c.Violation("reference-panic-only:"+entryName, cs.witness(map[string]any{"panic": fmt.Sprint(R.pv)}), "reference parser panicked (%v) but the fork did not on %s", R.pv, cs.origin)
		return
	}

	// classification counters (from the reference's result)
	if R.nerr > 0 {
		c.Count("cases_with_errors", 1)
		c.Count("errors_total", R.nerr)
		if bytes.Contains(R.errs, []byte("exceeded max nesting depth")) {
			c.Count("nesting_limit_hit", 1)
		}
		if bytes.Contains(R.errs, []byte("exceeded max scope depth")) {
			c.Count("scope_limit_hit", 1)
		}
		if R.nerr == 11 && cs.mode&uint(gp.AllErrors) == 0 {
			c.Count("bailout_after_10_errors", 1)
		}
		if R.nerr > 11 {
			c.Count("more_than_11_errors_allerrors", 1)
		}
	} else {
		c.Count("cases_clean", 1)
	}
	if cs.entry == "file" && cs.mode&uint(gp.SkipObjectResolution) == 0 && bytes.Contains(R.ast, []byte("Object{")) {
		c.Count("cases_with_resolved_objects", 1)
	}
	if bytes.Contains(R.ast, []byte("BadExpr{")) || bytes.Contains(R.ast, []byte("BadStmt{")) || bytes.Contains(R.ast, []byte("BadDecl{")) {
		c.Count("cases_with_bad_nodes", 1)
	}

	// 1. tree, errors, line table
	if !bytes.Equal(F.ast, R.ast) {
		c.Violation("ast-mismatch:"+entryName, cs.witness(map[string]any{"diff": firstDiff(F.ast, R.ast)}),
			"%s AST differs from upstream on %s (mode %v): %s", entryName, cs.origin, modeNames(cs.mode), firstDiff(F.ast, R.ast))
	}
	if !bytes.Equal(F.errs, R.errs) {
		c.Violation("errors-mismatch:"+entryName, cs.witness(map[string]any{"fork_errors": string(F.errs), "reference_errors": string(R.errs)}),
			"%s errors differ from upstream on %s (mode %v): fork %q reference %q", entryName, cs.origin, modeNames(cs.mode), clip(F.errs), clip(R.errs))
	}
	if !bytes.Equal(F.lines, R.lines) {
		c.Violation("linetable-mismatch:"+entryName, cs.witness(map[string]any{"diff": firstDiff(F.lines, R.lines)}),
			"%s recorded different line information than upstream on %s", entryName, cs.origin)
	}

	// 2. callback vs upstream's own (token, level) sequence
	if len(F.seq) != len(R.seq) {
		c.Violation("callback-seq-mismatch:count", cs.witness(map[string]any{"fork_calls": len(F.seq), "reference_tokens": len(R.seq)}),
			"%s invoked the callback %d times, upstream scanned %d tokens, on %s", entryName, len(F.seq), len(R.seq), cs.origin)
	} else {
		for i := range F.seq {
			if F.seq[i] != R.seq[i] {
				kind := "level"
				if F.seq[i].tok != R.seq[i].tok {
					kind = "token"
				}
				c.Violation("callback-seq-mismatch:"+kind, cs.witness(map[string]any{"index": i, "fork": fmt.Sprint(F.seq[i]), "reference": fmt.Sprint(R.seq[i])}),
					"%s callback #%d = (%v, level %d), upstream has (%v, level %d), on %s", entryName, i, F.seq[i].tok, F.seq[i].lev, R.seq[i].tok, R.seq[i].lev, cs.origin)
				break
			}
		}
	}
	// 3. callback vs the independent scanner stream. The callback is installed
	// after parser.init has scanned up to the first non-comment token, so the
	// stream it can see starts right after that token (skip = leading comments+1).
	toks, _ := scanAll(cs.src)
	skip := 0
	for skip < len(toks) && toks[skip] == token.COMMENT {
		skip++
	}
	skip++
	visible := len(toks) - skip
	if visible < 0 {
		visible = 0
	}
	maxLev := 0
	for i, s := range F.seq {
		want := token.EOF
		if i+skip < len(toks) {
			want = toks[i+skip]
		}
		if s.tok != want {
			c.Violation("callback-not-scanner-stream", cs.witness(map[string]any{"index": i, "callback_token": s.tok.String(), "scanner_token": want.String()}),
				"%s callback #%d reported %v but go/scanner yields %v at that index (+%d tokens consumed before the callback is installed), on %s", entryName, i, s.tok, want, skip, cs.origin)
			break
		}
		if s.lev < 0 || s.lev > maxLevel || (i == 0 && cs.entry == "file" && s.lev != 0) {
			c.Violation("callback-level-range", cs.witness(map[string]any{"index": i, "level": s.lev}), "%s callback #%d reported nesting level %d (a file's first reported token is at level 0; range [0,%d]) on %s", entryName, i, s.lev, maxLevel, cs.origin)
			break
		}
		if s.lev > maxLev {
			maxLev = s.lev
		}
	}
	if F.err == nil && cs.mode&uint(gp.PackageClauseOnly|gp.ImportsOnly) == 0 && len(F.seq) < visible {
		c.Violation("callback-missed-tokens", cs.witness(map[string]any{"calls": len(F.seq), "scanner_tokens_after_init": visible}),
			"%s parsed %s to the end without error but reported only %d of the %d tokens scanned after the callback was installed", entryName, cs.origin, len(F.seq), visible)
	}
	if skip > 1 {
		c.Count("cases_with_leading_comments_unreported", 1)
	}
	if F.err == nil && len(F.seq) >= visible && visible > 0 {
		c.Count("callback_full_stream_cases", 1)
	}
	if maxLev >= 8 {
		c.Count("callback_level_ge8_cases", 1)
	}

	// 4. the callback does not influence the result: plain entry point
	if cs.idx%2 == 0 || cs.nest != nil {
		P := runFork(cs, false, nil)
		c.Count("plain_entry_cases", 1)
		plainName := map[string]string{"file": "ParseFile", "expr": "ParseExprFrom", "expr2": "ParseExpr"}[cs.entry]
		if P.pv != nil {
			c.Violation("panic:"+plainName, cs.witness(map[string]any{"panic": fmt.Sprint(P.pv)}), "%s panicked on %s: %v", plainName, cs.origin, P.pv)
		} else if !bytes.Equal(P.ast, R.ast) || !bytes.Equal(P.errs, R.errs) || !bytes.Equal(P.lines, R.lines) {
			d := firstDiff(P.ast, R.ast)
			if d == "" {
				d = "errors: fork " + clip(P.errs) + " reference " + clip(R.errs)
			}
			c.Violation("plain-mismatch:"+plainName, cs.witness(map[string]any{"diff": d}), "%s (no callback) differs from upstream on %s: %s", plainName, cs.origin, d)
		}
	}

	// 5. a panic raised by the callback reaches the caller unchanged
	if cs.idx%8 == 3 && len(R.seq) > 1 && cs.nest == nil {
		k := int(uint(cs.idx*2654435761) % uint(len(R.seq)))
		n := 0
		var seen []tl
		A := runFork(cs, true, func(t token.Token, l int) {
			seen = append(seen, tl{t, l})
			if n == k {
				panic(sentinel{k})
			}
			n++
		})
		c.Count("callback_abort_cases", 1)
		if s, ok := A.pv.(sentinel); !ok || s.n != k {
			c.Violation("callback-panic-not-propagated", cs.witness(map[string]any{"abort_at": k, "got": fmt.Sprint(A.pv)}),
				"%s: callback panicked at token #%d but the caller observed %v", entryName, k, A.pv)
		} else if len(seen) != k+1 || !reflect.DeepEqual(seen, R.seq[:k+1]) {
			c.Violation("callback-abort-prefix", cs.witness(map[string]any{"abort_at": k, "seen": len(seen)}),
				"%s: callback aborted at token #%d saw %d calls / a different prefix", entryName, k, len(seen))
		}
	}
}

func clip(b []byte) string {
	if len(b) > 600 {
		return string(b[:600]) + "…"
	}
	return string(b)
}

// ---------------------------------------------------------------- corpus

type cfile struct {
	path string
	src  []byte
}

func loadCorpus(c *vf.Ctx) (files []cfile, snippets []string) {
	root := vf.RepoRoot()
	dirs := []string{"gnovm/tests/files", "examples", "gnovm/stdlibs", "gnovm/pkg/parser"}
	for _, d := range dirs {
		n := 0
		filepath.WalkDir(filepath.Join(root, d), func(p string, e os.DirEntry, err error) error {
			if err != nil || e.IsDir() {
				return nil
			}
			switch filepath.Ext(p) {
			case ".gno", ".go", ".go2", ".src":
			default:
				return nil
			}
			b, err := os.ReadFile(p)
			if err != nil {
				return nil
			}
			rel, _ := filepath.Rel(root, p)
			files = append(files, cfile{rel, b})
			n++
			return nil
		})
		c.Count("corpus_files:"+d, n)
	}
	sort.Slice(files, func(i, j int) bool { return files[i].path < files[j].path })
	// string literals of the parser's own tests (valids/invalids lists etc.)
	seen := map[string]bool{}
	for _, f := range files {
		if !strings.HasPrefix(f.path, "gnovm/pkg/parser/") || !strings.HasSuffix(f.path, "_test.go") {
			continue
		}
		af, err := parser.ParseFile(token.NewFileSet(), f.path, f.src, parser.SkipObjectResolution)
		if err != nil {
			continue
		}
		ast.Inspect(af, func(n ast.Node) bool {
			if bl, ok := n.(*ast.BasicLit); ok && bl.Kind == token.STRING {
				s, err := strconv.Unquote(bl.Value)
				if err == nil && len(s) >= 6 && !seen[s] {
					seen[s] = true
					snippets = append(snippets, s)
				}
			}
			return true
		})
	}
	sort.Strings(snippets)
	return
}

// ---------------------------------------------------------------- run

func run(c *vf.Ctx) {
	if uint(gp.PackageClauseOnly) != uint(ref.PackageClauseOnly) || uint(gp.ImportsOnly) != uint(ref.ImportsOnly) || uint(gp.ParseComments) != uint(ref.ParseComments) ||
		uint(gp.DeclarationErrors) != uint(ref.DeclarationErrors) || uint(gp.AllErrors) != uint(ref.AllErrors) || uint(gp.SkipObjectResolution) != uint(ref.SkipObjectResolution) || uint(gp.Trace) != uint(ref.Trace) {
		c.Violation("mode-constants-differ", nil, "the fork's Mode constants differ from upstream's")
		return
	}
	checkProvenance(c)
	files, snippets := loadCorpus(c)
	c.Set("corpus_files", len(files))
	c.Set("test_snippets", len(snippets))
	c.Require("corpus_files", int64(len(files)), 3000)
	const W = 16

	// Phase A: every corpus file
	perFile := c.N(1, 6)
	c.Logf("phase A: %d files x %d modes", len(files), perFile)
	c.Parallel(len(files)*perFile, W, 1<<32, func(i int, r *rand.Rand) {
		f := files[i/perFile]
		m := randMode(r)
		if i%perFile == 0 && (i/perFile+int(c.Seed))%3 == 0 {
			m = gnoVMMode
		}
		evaluate(c, &caseSpec{entry: "file", name: f.path, src: f.src, mode: m, origin: "corpus:" + f.path, idx: i})
		if i < 2 {
			c.Sample(map[string]any{"entry": "ParseFile2", "input": "corpus:" + f.path, "mode": modeNames(m)})
		}
	})
	c.Count("phase_corpus_cases", len(files)*perFile)

	// Phase B: snippets of the parser's own tests
	perSnip := c.N(1, 4)
	c.Parallel(len(snippets)*perSnip, W, 2<<32, func(i int, r *rand.Rand) {
		s := snippets[i/perSnip]
		src := []byte(s)
		if !strings.Contains(s, "package") && r.IntN(2) == 0 {
			src = []byte("package p; " + s)
		}
		evaluate(c, &caseSpec{entry: "file", name: "snippet.go", src: src, mode: randMode(r), origin: "parser-test-literal", idx: i})
		if r.IntN(3) == 0 {
			evaluate(c, &caseSpec{entry: "expr", name: "snippet.go", src: []byte(s), mode: randMode(r) &^ uint(gp.PackageClauseOnly|gp.ImportsOnly), origin: "parser-test-literal", idx: i})
		}
	})

	// Phase C: mutants
	nmut := c.N(5200, 270000)
	c.Logf("phase C: %d mutants", nmut)
	c.Parallel(nmut, W, 3<<32, func(i int, r *rand.Rand) {
		var base cfile
		for try := 0; try < 4; try++ {
			base = files[r.IntN(len(files))]
			if len(base.src) <= 40000 {
				break
			}
		}
		other := files[r.IntN(len(files))]
		src, ops := mutate(r, base.src, other.src)
		for _, o := range ops {
			c.Count("mutop_"+o, 1)
		}
		m := randMode(r)
		origin := "mutant:" + base.path + ":" + strings.Join(ops, "+")
		evaluate(c, &caseSpec{entry: "file", name: base.path, src: src, mode: m, origin: origin, idx: i})
		if i < 3 {
			c.Sample(map[string]any{"entry": "ParseFile2", "input": origin, "mode": modeNames(m), "bytes": len(src)})
		}
	})
	c.Count("phase_mutant_cases", nmut)

	// Phase D: generated pathological inputs
	ngen := c.N(1600, 40000)
	gens := []struct {
		name string
		f    func(*rand.Rand) []byte
	}{{"token-soup", tokenSoup}, {"random-bytes", randomBytes}, {"many-errors", manyErrors}, {"redeclarations", redeclarations}}
	c.Parallel(ngen, W, 4<<32, func(i int, r *rand.Rand) {
		g := gens[i%len(gens)]
		src := g.f(r)
		c.Count("gen_"+g.name, 1)
		evaluate(c, &caseSpec{entry: "file", name: "gen.gno", src: src, mode: randMode(r), origin: "generated:" + g.name, idx: i})
	})

	// Phase E: expression entry points
	nexpr := c.N(900, 30000)
	c.Parallel(nexpr, W, 5<<32, func(i int, r *rand.Rand) {
		base := files[r.IntN(len(files))]
		_, sp := scanAll(base.src)
		var src []byte
		if len(sp) > 0 {
			a := r.IntN(len(sp))
			b := min(len(sp)-1, a+r.IntN(40))
			src = append([]byte(nil), base.src[sp[a].beg:sp[b].end]...)
		}
		origin := "expr-slice:" + base.path
		switch r.IntN(4) {
		case 0:
			src, _ = mutate(r, src, base.src)
			origin += ":mutated"
		case 1:
			src = tokenSoup(r)
			origin = "expr-token-soup"
		}
		entry := "expr"
		m := randMode(r) &^ uint(gp.PackageClauseOnly|gp.ImportsOnly)
		if r.IntN(3) == 0 {
			entry, m = "expr2", 0
		}
		evaluate(c, &caseSpec{entry: entry, name: "x.gno", src: src, mode: m, origin: origin, idx: i})
	})

	// Phase F: scope-depth limit (object resolution on), swept across the boundary
	var scopeCases []caseSpec
	for _, f := range nestForms {
		if !f.scope {
			continue
		}
		for d := -3; d <= 3; d++ {
			n := 1001/f.smult + d
			scopeCases = append(scopeCases, caseSpec{entry: "file", name: "nest.gno", mode: uint(gp.ParseComments | gp.DeclarationErrors), origin: fmt.Sprintf("scope-nest:%s:%d", f.name, n), nest: &nestWitness{f.name, n}})
		}
	}
	c.Parallel(len(scopeCases), W, 6<<32, func(i int, r *rand.Rand) {
		cs := scopeCases[i]
		cs.src = []byte(formByName(cs.nest.Form).expand(cs.nest.Depth))
		cs.idx = i
		evaluate(c, &cs)
	})
	c.Count("phase_scope_depth_cases", len(scopeCases))

	// Phase G: parser nesting limit (1e5), swept across the boundary. Heavy
	// inputs (≈100 k tokens, 100 k deep trees): a seeded subset of the forms in
	// quick, all of them in thorough; few workers (deep stacks).
	var deep []caseSpec
	forms := nestForms
	var sweep []int
	if c.Quick() {
		r := c.Rng(7)
		perm := r.Perm(len(nestForms))
		forms = nil
		for _, k := range perm[:3] {
			forms = append(forms, nestForms[k])
		}
		sweep = []int{-12, -3, -1, 1}
	} else {
		for d := -14; d <= 4; d++ {
			sweep = append(sweep, d)
		}
	}
	for _, f := range forms {
		for _, d := range sweep {
			n := (maxLevel+1)/f.mult + d
			deep = append(deep, caseSpec{entry: "file", name: "nest.gno", mode: uint(gp.ParseComments | gp.SkipObjectResolution), origin: fmt.Sprintf("deep-nest:%s:%d", f.name, n), nest: &nestWitness{f.name, n}})
		}
	}
	c.Logf("phase G: %d deep-nesting cases", len(deep))
	// every GC cycle has to scan the 1e5-frame parser stacks and shrinks them
	// afterwards (regrowing is slow): collect only when the heap gets large.
	oldGC := debug.SetGCPercent(-1)
	oldLimit := debug.SetMemoryLimit(5 << 30)
	defer func() { debug.SetGCPercent(oldGC); debug.SetMemoryLimit(oldLimit) }()
	c.Parallel(len(deep), c.N(4, 6), 7<<32, func(i int, r *rand.Rand) {
		cs := deep[i]
		cs.src = []byte(formByName(cs.nest.Form).expand(cs.nest.Depth))
		cs.idx = i
		evaluate(c, &cs)
	})
	c.Count("phase_deep_nesting_cases", len(deep))
	c.Count("deep_nesting_within_limit", len(deep)-int(c.Counter("nesting_limit_hit")))

	c.Assume("reference = verifharness/ref/goparser124: /repo's fork with gnovm/pkg/parser/gno.patch reversed at generation time (Go 1.24 go/parser) + a nil-by-default observation hook; if gno.patch or the upstream base of the fork changes, regenerate with ref/regen.sh (evidence key fork_inputs_unchanged_since_reference_generation tells)")
	c.Assume("Mode flag Trace is not exercised (it only prints productions to stdout); fork and reference share the toolchain's go/scanner, go/ast and go/token")
	c.Assume("the callback's nesting level has no specification besides upstream's own p.nestLev at the time of each Scan; the independent part of the callback oracle is the go/scanner token stream and the level range")

	c.RequireCounter("cases_with_errors", int64(c.N(3000, 150000)))
	c.RequireCounter("cases_clean", int64(c.N(3000, 20000)))
	c.RequireCounter("cases_with_bad_nodes", 500)
	c.RequireCounter("cases_with_resolved_objects", 1000)
	c.RequireCounter("bailout_after_10_errors", 20)
	c.RequireCounter("more_than_11_errors_allerrors", 20)
	c.RequireCounter("nesting_limit_hit", int64(c.N(3, 100)))
	c.RequireCounter("deep_nesting_within_limit", int64(c.N(3, 100)))
	c.RequireCounter("scope_limit_hit", 20)
	c.RequireCounter("mode_exactly_gnovm", 1000)
	c.RequireCounter("callback_full_stream_cases", 2000)
	c.RequireCounter("callback_level_ge8_cases", 1000)
	c.RequireCounter("callback_abort_cases", 500)
	c.RequireCounter("plain_entry_cases", 2000)
	c.RequireCounter("entry_ParseExprFrom2", 300)
	c.RequireCounter("entry_ParseExpr2", 100)
	for _, f := range modeFlags {
		c.RequireCounter("mode_"+f.name, 100)
	}
	for _, o := range mutOps {
		c.RequireCounter("mutop_"+o.name, 50)
	}
}

func formByName(n string) nestForm {
	for _, f := range nestForms {
		if f.name == n {
			return f
		}
	}
	panic("unknown nest form " + n)
}

func replay(c *vf.Ctx, w json.RawMessage) {
	var rec struct {
		Entry    string       `json:"entry"`
		Filename string       `json:"filename"`
		Mode     uint         `json:"mode"`
		Origin   string       `json:"origin"`
		SrcB64   string       `json:"src_b64"`
		Nest     *nestWitness `json:"nest"`
	}
	if err := json.Unmarshal(w, &rec); err != nil {
		panic(err)
	}
	cs := &caseSpec{entry: rec.Entry, name: rec.Filename, mode: rec.Mode, origin: "replay:" + rec.Origin, nest: rec.Nest}
	if rec.Nest != nil {
		cs.src = []byte(formByName(rec.Nest.Form).expand(rec.Nest.Depth))
	} else {
		b, err := base64.StdEncoding.DecodeString(rec.SrcB64)
		if err != nil {
			panic(err)
		}
		cs.src = b
	}
	for idx := 0; idx < 8; idx++ { // all sub-check selectors
		cs.idx = idx
		evaluate(c, cs)
	}
}
