package c21

import (
	"crypto/sha256"
	"encoding/hex"
	"encoding/json"
	"os"
	"path/filepath"

	"verifharness/internal/vf"
	ref "verifharness/ref/goparser124"
)

// checkProvenance records (informationally, never a verdict) whether the fork
// files under test are byte-identical to the ones the checked-in reference was
// generated from. A changed parser.go/interface.go/resolver.go is exactly what
// the differential run judges; a changed gno.patch means the intended fork
// delta itself changed and the reference may need regenerating.
func checkProvenance(c *vf.Ctx) {
	var rec map[string]string
	if err := json.Unmarshal(ref.SourceJSON, &rec); err != nil {
		c.Set("fork_inputs_unchanged_since_reference_generation", "unknown: "+err.Error())
		return
	}
	changed := []string{}
	for _, f := range []string{"gno.patch", "parser.go", "interface.go", "resolver.go"} {
		b, err := os.ReadFile(filepath.Join(vf.RepoRoot(), "gnovm/pkg/parser", f))
		h := sha256.Sum256(b)
		if err != nil || hex.EncodeToString(h[:]) != rec["sha256_"+f] {
			changed = append(changed, f)
		}
	}
	c.Set("fork_inputs_unchanged_since_reference_generation", len(changed) == 0)
	c.Set("reference_generated_from_commit", rec["repo_head"])
	if len(changed) > 0 {
		c.Set("fork_files_changed_since_reference_generation", changed)
		c.Logf("note: fork files changed since the reference was generated: %v", changed)
		for _, f := range changed {
			if f == "gno.patch" {
				c.Assume("gno.patch differs from the one the reference was generated from: differences reported are relative to the ORIGINAL upstream base (Go 1.24); regenerate the reference if the fork was rebased")
			}
		}
	}
}
