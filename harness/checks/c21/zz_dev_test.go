package c21

import (
	"fmt"
	"go/token"
	"reflect"
	"runtime/debug"
	"testing"
	"time"

	gp "github.com/gnolang/gno/gnovm/pkg/parser"
)

func TestDeepTiming(t *testing.T) {
	debug.SetGCPercent(-1)
	debug.SetMemoryLimit(6 << 30)
	for _, name := range []string{"if", "paren", "block"} {
		f := formByName(name)
		src := []byte(f.expand(100001/f.mult - 12))
		t0 := time.Now()
		fs := token.NewFileSet()
		af, err := gp.ParseFile(fs, "x", src, gp.ParseComments|gp.SkipObjectResolution)
		t1 := time.Now()
		d := newDumper()
		d.val(reflect.ValueOf(af))
		t2 := time.Now()
		fmt.Println(name, len(src), err, "parse", t1.Sub(t0), "dump", t2.Sub(t1), d.buf.Len())
	}
}
