package c21

import (
	"bytes"
	"fmt"
	"go/scanner"
	"go/token"
	"reflect"
	"sort"
	"strconv"
)

// dumper writes a canonical, complete textual form of a go/ast value:
// every exported field including all token.Pos values (raw offsets), nil vs.
// empty slices distinguished, maps in sorted key order (ast.Fprint prints
// Scope.Objects in Go map order, which is not canonical), pointer identity
// rendered as "first occurrence gets the next id, later occurrences print
// @id" so shared nodes and the Object.Decl back-references (cycles) are part
// of the comparison.
type dumper struct {
	buf   bytes.Buffer
	ptrs  map[uintptr]int
	tmp   []byte
	stack []frame
}

func newDumper() *dumper { return &dumper{ptrs: map[uintptr]int{}} }

func (d *dumper) reset() {
	d.buf.Reset()
	for k := range d.ptrs {
		delete(d.ptrs, k)
	}
}

func (d *dumper) str(s string) { d.buf.WriteString(s) }

func (d *dumper) int(i int64) {
	d.tmp = strconv.AppendInt(d.tmp[:0], i, 10)
	d.buf.Write(d.tmp)
}

type frame struct {
	v    reflect.Value
	i    int
	keys []reflect.Value // maps only (sorted)
}

// open emits v up to (and including) the opening of its first container, and
// pushes a frame for that container; scalars, nils and back-references are
// emitted completely.
func (d *dumper) open(v reflect.Value) {
	for {
		switch v.Kind() {
		case reflect.Invalid:
			d.str("<invalid>")
			return
		case reflect.Interface:
			if v.IsNil() {
				d.str("nil")
				return
			}
			v = v.Elem()
		case reflect.Pointer:
			if v.IsNil() {
				d.str("nil")
				return
			}
			p := v.Pointer()
			if id, ok := d.ptrs[p]; ok {
				d.str("@")
				d.int(int64(id))
				return
			}
			id := len(d.ptrs)
			d.ptrs[p] = id
			d.str("#")
			d.int(int64(id))
			d.str("*")
			v = v.Elem()
		case reflect.Map:
			if v.IsNil() {
				d.str("nilmap")
				return
			}
			keys := v.MapKeys()
			sort.Slice(keys, func(i, j int) bool { return fmt.Sprint(keys[i].Interface()) < fmt.Sprint(keys[j].Interface()) })
			d.str("map{")
			d.stack = append(d.stack, frame{v: v, keys: keys})
			return
		case reflect.Slice, reflect.Array:
			if v.Kind() == reflect.Slice && v.IsNil() {
				d.str("nilslice")
				return
			}
			d.str("[")
			d.stack = append(d.stack, frame{v: v})
			return
		case reflect.Struct:
			d.str(v.Type().Name())
			d.str("{")
			d.stack = append(d.stack, frame{v: v})
			return
		case reflect.String:
			d.str(strconv.Quote(v.String()))
			return
		case reflect.Bool:
			if v.Bool() {
				d.str("true")
			} else {
				d.str("false")
			}
			return
		case reflect.Int, reflect.Int8, reflect.Int16, reflect.Int32, reflect.Int64:
			d.int(v.Int())
			return
		case reflect.Uint, reflect.Uint8, reflect.Uint16, reflect.Uint32, reflect.Uint64, reflect.Uintptr:
			d.tmp = strconv.AppendUint(d.tmp[:0], v.Uint(), 10)
			d.buf.Write(d.tmp)
			return
		default:
			d.str(fmt.Sprintf("%v", v.Interface()))
			return
		}
	}
}

// val dumps v. Iterative (one explicit frame per open container): the trees of
// the nesting-limit workload are 1e5 levels deep.
func (d *dumper) val(root reflect.Value) {
	d.stack = d.stack[:0]
	d.open(root)
	for len(d.stack) > 0 {
		f := &d.stack[len(d.stack)-1]
		v := f.v
		switch v.Kind() {
		case reflect.Struct:
			t := v.Type()
			for f.i < t.NumField() && !t.Field(f.i).IsExported() {
				f.i++
			}
			if f.i >= t.NumField() {
				d.str("}\n")
				d.stack = d.stack[:len(d.stack)-1]
				continue
			}
			d.str(";")
			d.str(t.Field(f.i).Name)
			d.str("=")
			f.i++
			d.open(v.Field(f.i - 1))
		case reflect.Map:
			if f.i >= len(f.keys) {
				d.str("}")
				d.stack = d.stack[:len(d.stack)-1]
				continue
			}
			k := f.keys[f.i]
			d.str(",")
			d.str(strconv.Quote(fmt.Sprint(k.Interface())))
			d.str(":")
			f.i++
			d.open(v.MapIndex(k))
		default: // slice, array
			if f.i >= v.Len() {
				d.str("]")
				d.stack = d.stack[:len(d.stack)-1]
				continue
			}
			d.str(",")
			f.i++
			d.open(v.Index(f.i - 1))
		}
	}
}

// dumpErr renders an error canonically: nil, a scanner.ErrorList entry by
// entry (filename, offset, line, column, message), or dynamic type + text.
func dumpErr(b *bytes.Buffer, err error) {
	if err == nil {
		b.WriteString("ERR nil\n")
		return
	}
	if el, ok := err.(scanner.ErrorList); ok {
		fmt.Fprintf(b, "ERRLIST %d\n", len(el))
		for _, e := range el {
			if e == nil {
				b.WriteString(" nil\n")
				continue
			}
			fmt.Fprintf(b, " %q off=%d %d:%d %q\n", e.Pos.Filename, e.Pos.Offset, e.Pos.Line, e.Pos.Column, e.Msg)
		}
		return
	}
	fmt.Fprintf(b, "ERR %T %q\n", err, err.Error())
}

// dumpLines renders the line table and //line-adjusted position info that the
// parser (through its scanner) recorded in the token.File.
func dumpLines(b *bytes.Buffer, fset *token.FileSet) {
	fset.Iterate(func(f *token.File) bool {
		fmt.Fprintf(b, "FILE %q base=%d size=%d lines=%v\n", f.Name(), f.Base(), f.Size(), f.Lines())
		// //line directives: sample the adjusted position of every line start
		n := f.LineCount()
		step := 1
		if n > 64 {
			step = n / 64
		}
		for l := 1; l <= n; l += step {
			p := f.Position(f.LineStart(l))
			fmt.Fprintf(b, " %d->%s:%d:%d", l, p.Filename, p.Line, p.Column)
		}
		b.WriteString("\n")
		return true
	})
}

// firstDiff returns a short description of where two dumps diverge.
func firstDiff(a, b []byte) string {
	n := len(a)
	if len(b) < n {
		n = len(b)
	}
	i := 0
	for i < n && a[i] == b[i] {
		i++
	}
	if i == len(a) && i == len(b) {
		return ""
	}
	lo := i - 160
	if lo < 0 {
		lo = 0
	}
	cut := func(x []byte) string {
		hi := i + 160
		if hi > len(x) {
			hi = len(x)
		}
		if lo > len(x) {
			return ""
		}
		return string(x[lo:hi])
	}
	return fmt.Sprintf("dumps diverge at byte %d: fork …%q… reference …%q…", i, cut(a), cut(b))
}
