// Package c19: overflow-checked integer arithmetic is exact.
//
// Oracle: math/big. For every operand pair the exact result is computed in
// big.Int; the helper must report ok exactly when that result is representable
// in the operand type (division: divisor non-zero and quotient representable),
// and on ok return it; the panicking variant must panic exactly otherwise.
package c19

import (
	"fmt"
	"math"
	"math/big"
	"math/rand/v2"
	"reflect"

	"github.com/gnolang/gno/tm2/pkg/overflow"

	"verifharness/internal/vf"
)

func init() {
	vf.Register(&vf.Check{
		ID:    "C19",
		Level: "exploration",
		Rule: "cases = (type, op, a, b); exhaustive over all pairs for 8-bit types (and 16-bit in thorough), all pairs of a boundary set " +
			"(0, ±1, ±2, min, max, min+1, max-1, ±2^k, ±2^k±1, sqrt boundaries) for 16/32/64-bit and int/uint, plus seeded random pairs; " +
			"non-trivial = the exact result is within 2 of a representability boundary, overflows, or divides by zero; distinct by (type,op,a,b)",
		Run: run,
	})
}

type opkind int

const (
	opAdd opkind = iota
	opSub
	opMul
	opDiv
)

var opNames = []string{"Add", "Sub", "Mul", "Div"}

type number interface {
	~int | ~int8 | ~int16 | ~int32 | ~int64 | ~uint | ~uint8 | ~uint16 | ~uint32 | ~uint64
}

func toBig[N number](v N) *big.Int {
	rv := reflect.ValueOf(v)
	if rv.CanInt() {
		return big.NewInt(rv.Int())
	}
	return new(big.Int).SetUint64(rv.Uint())
}

func bounds[N number]() (lo, hi *big.Int) {
	var z N
	bits := uint(reflect.TypeOf(z).Bits())
	if reflect.ValueOf(z).CanInt() {
		hi = new(big.Int).Lsh(big.NewInt(1), bits-1)
		lo = new(big.Int).Neg(hi)
		hi.Sub(hi, big.NewInt(1))
		return
	}
	hi = new(big.Int).Lsh(big.NewInt(1), bits)
	hi.Sub(hi, big.NewInt(1))
	return big.NewInt(0), hi
}

type tester[N number] struct {
	c      *vf.Ctx
	name   string
	lo, hi *big.Int
}

func (t *tester[N]) one(op opkind, a, b N) {
	A, B := toBig(a), toBig(b)
	exact := new(big.Int)
	defined := true
	switch op {
	case opAdd:
		exact.Add(A, B)
	case opSub:
		exact.Sub(A, B)
	case opMul:
		exact.Mul(A, B)
	case opDiv:
		if B.Sign() == 0 {
			defined = false
		} else {
			exact.Quo(A, B) // truncated division, as Go
		}
	}
	wantOK := defined && exact.Cmp(t.lo) >= 0 && exact.Cmp(t.hi) <= 0
	var got N
	var ok bool
	var gotp N
	var pv any
	switch op {
	case opAdd:
		got, ok = overflow.Add(a, b)
		pv = vf.Try(func() { gotp = overflow.Addp(a, b) })
	case opSub:
		got, ok = overflow.Sub(a, b)
		pv = vf.Try(func() { gotp = overflow.Subp(a, b) })
	case opMul:
		got, ok = overflow.Mul(a, b)
		pv = vf.Try(func() { gotp = overflow.Mulp(a, b) })
	case opDiv:
		if p := vf.Try(func() { got, ok = overflow.Div(a, b) }); p != nil {
			t.c.Violation("panic:"+opNames[op], map[string]any{"type": t.name, "op": opNames[op], "a": A.String(), "b": B.String()},
				"%s[%s](%s,%s) panicked: %v", opNames[op], t.name, A, B, p)
			return
		}
		pv = vf.Try(func() { gotp = overflow.Divp(a, b) })
	}
	// non-triviality: near a boundary, overflowing or undefined
	nt := !wantOK
	if !nt {
		d1 := new(big.Int).Sub(t.hi, exact)
		d2 := new(big.Int).Sub(exact, t.lo)
		nt = d1.Cmp(big.NewInt(2)) <= 0 || d2.Cmp(big.NewInt(2)) <= 0
	}
	t.c.Case(fmt.Sprintf("%s/%d/%s/%s", t.name, op, A, B), nt)
	w := map[string]any{"type": t.name, "op": opNames[op], "a": A.String(), "b": B.String(), "exact": exact.String(), "want_ok": wantOK}
	if ok != wantOK {
		t.c.Violation("ok-mismatch:"+opNames[op], w, "%s[%s](%s,%s): ok=%v, exact result %s representable=%v", opNames[op], t.name, A, B, ok, exact, wantOK)
		return
	}
	if wantOK && toBig(got).Cmp(exact) != 0 {
		t.c.Violation("wrong-result:"+opNames[op], w, "%s[%s](%s,%s) = %s, want %s", opNames[op], t.name, A, B, toBig(got), exact)
	}
	if (pv != nil) != !wantOK {
		t.c.Violation("panic-mismatch:"+opNames[op], w, "%sp[%s](%s,%s): panicked=%v want panic=%v", opNames[op], t.name, A, B, pv != nil, !wantOK)
	} else if wantOK && toBig(gotp).Cmp(exact) != 0 {
		t.c.Violation("wrong-result-p:"+opNames[op], w, "%sp[%s](%s,%s) = %s, want %s", opNames[op], t.name, A, B, toBig(gotp), exact)
	}
}

func (t *tester[N]) all(a, b N) {
	for op := opAdd; op <= opDiv; op++ {
		t.one(op, a, b)
	}
}

// boundary returns the boundary operand set for N.
func boundary[N number]() []N {
	var z N
	bits := uint(reflect.TypeOf(z).Bits())
	signed := reflect.ValueOf(z).CanInt()
	set := map[N]struct{}{}
	add := func(v *big.Int) {
		lo, hi := bounds[N]()
		if v.Cmp(lo) < 0 || v.Cmp(hi) > 0 {
			return
		}
		if signed {
			set[N(v.Int64())] = struct{}{}
		} else {
			set[N(v.Uint64())] = struct{}{}
		}
	}
	lo, hi := bounds[N]()
	for d := int64(-2); d <= 2; d++ {
		add(big.NewInt(d))
		add(new(big.Int).Add(lo, big.NewInt(d)))
		add(new(big.Int).Add(hi, big.NewInt(d)))
	}
	for k := uint(1); k < bits; k++ {
		p := new(big.Int).Lsh(big.NewInt(1), k)
		for d := int64(-1); d <= 1; d++ {
			v := new(big.Int).Add(p, big.NewInt(d))
			add(v)
			add(new(big.Int).Neg(v))
		}
	}
	// sqrt boundaries: products right at the edge
	s := new(big.Int).Sqrt(hi)
	for d := int64(-1); d <= 1; d++ {
		v := new(big.Int).Add(s, big.NewInt(d))
		add(v)
		add(new(big.Int).Neg(v))
	}
	out := make([]N, 0, len(set))
	for v := range set {
		out = append(out, v)
	}
	// deterministic order
	for i := 1; i < len(out); i++ {
		for j := i; j > 0 && toBig(out[j]).Cmp(toBig(out[j-1])) < 0; j-- {
			out[j], out[j-1] = out[j-1], out[j]
		}
	}
	return out
}

func randN[N number](r *rand.Rand) N {
	var z N
	bits := uint(reflect.TypeOf(z).Bits())
	v := r.Uint64()
	// bias: half the time shrink magnitude so products sometimes fit
	if r.IntN(2) == 0 {
		v >>= r.UintN(64)
		if r.IntN(2) == 0 {
			v = -v
		}
	}
	_ = bits
	return N(v)
}

func runType[N number](c *vf.Ctx, name string, exhaustive bool, nrand int, stream uint64) {
	lo, hi := bounds[N]()
	t := &tester[N]{c: c, name: name, lo: lo, hi: hi}
	if exhaustive {
		var z N
		bits := uint(reflect.TypeOf(z).Bits())
		n := uint64(1) << bits
		for i := uint64(0); i < n; i++ {
			for j := uint64(0); j < n; j++ {
				t.all(N(i), N(j))
			}
		}
		c.Count("exhaustive_types", 1)
		return
	}
	bs := boundary[N]()
	for _, a := range bs {
		for _, b := range bs {
			t.all(a, b)
		}
	}
	r := c.Rng(stream)
	for i := 0; i < nrand; i++ {
		a, b := randN[N](r), randN[N](r)
		if i%4 == 0 { // pair a random with a boundary value
			b = bs[r.IntN(len(bs))]
		}
		t.all(a, b)
	}
}

type myInt int32 // a named type: the helpers accept ~int32

func run(c *vf.Ctx) {
	nr := c.N(20000, 2000000)
	c.Set("types", []string{"int8", "uint8", "int16", "uint16", "int32", "uint32", "int64", "uint64", "int", "uint", "named int32"})
	runType[int8](c, "int8", true, 0, 1)
	runType[uint8](c, "uint8", true, 0, 2)
	if !c.Quick() {
		runType[int16](c, "int16/exh", true, 0, 3)
		runType[uint16](c, "uint16/exh", true, 0, 4)
	}
	runType[int16](c, "int16", false, nr, 5)
	runType[uint16](c, "uint16", false, nr, 6)
	runType[int32](c, "int32", false, nr, 7)
	runType[uint32](c, "uint32", false, nr, 8)
	runType[int64](c, "int64", false, nr, 9)
	runType[uint64](c, "uint64", false, nr, 10)
	runType[int](c, "int", false, nr, 11)
	runType[uint](c, "uint", false, nr, 12)
	runType[myInt](c, "myInt(int32)", false, nr/4, 13)
	c.Sample(map[string]any{"type": "int64", "op": "Mul", "a": fmt.Sprint(math.MinInt64), "b": "-1", "want_ok": false})
	c.Sample(map[string]any{"type": "int8", "op": "Div", "a": "-128", "b": "-1", "want_ok": false})
	c.Assume("math/big is the arithmetic reference")
	c.Require("evaluations", int64(c.Counter("exhaustive_types")), 2)
}
