// Package c31: honest nodes never commit conflicting blocks; bounded progress
// once delivery is timely.
//
// The network is simnet (real ConsensusState machines stepped synchronously,
// harness = network + clock + byzantine signers). Each case is one schedule.
// Monitors over everything observed:
//   agreement        no two honest nodes commit different block hashes at one height;
//   commit validity  every committed block carries precommits for it, with valid signatures,
//                    from validators holding > 2/3 of the power (own tally);
//   no equivocation  an honest validator never signs two different votes for one (height, round, type);
//   lock rule        an honest validator that precommitted block B at round r signs a prevote or precommit
//                    for another block B' (non-nil) at a later round r' of the same height only if a +2/3
//                    prevote set at some round r'' (r < r'' <= r') for a value other than B had been delivered to it;
//   bounded progress after the scheduler turns synchronous (every deliverable message delivered, timeouts
//                    fired only when nothing is deliverable, byzantine validators silent), every honest node
//                    commits a further height within K scheduler rounds.
package c31

import (
	"bytes"
	"fmt"
	"math/rand/v2"
	"os"
	"time"
	"sort"

	cstypes "github.com/gnolang/gno/tm2/pkg/bft/consensus/types"
	"github.com/gnolang/gno/tm2/pkg/bft/types"

	"verifharness/internal/simnet"
	"verifharness/internal/vf"
)

func init() {
	vf.Register(&vf.Check{
		ID:    "C31",
		Level: "exploration",
		Rule: "case = one network schedule: validator set (4, 5 or 7 validators, unequal powers), byzantine set (< 1/3 power: silent, equivocating proposer, equivocating votes with split audiences), " +
			"scheduler parameters (timeout rate, partition windows, duplication, loss) and seed; 3-5 heights then a synchronous phase; non-trivial = some honest node reached round >= 1 or a byzantine message was delivered; " +
			"distinct by the schedule signature (hash of the delivery/timeout sequence)",
		Run: run,
	})
}

var debug bool

const progressBound = 40 // synchronous scheduler rounds allowed per further height

type sched struct {
	powers   []int64
	byz      []int
	byzMode  string // none | silent | equivocate
	pTimeout float64
	partition bool
	pDup     float64
	heights  int64
}

func genSched(rng *rand.Rand) sched {
	var s sched
	switch rng.IntN(3) {
	case 0:
		s.powers = []int64{10, 11, 12, 13}
	case 1:
		s.powers = []int64{5, 9, 10, 11, 12}
	default:
		s.powers = []int64{3, 5, 6, 7, 8, 9, 10}
	}
	var total int64
	for _, p := range s.powers {
		total += p
	}
	s.byzMode = []string{"none", "silent", "equivocate", "equivocate"}[rng.IntN(4)]
	if s.byzMode != "none" {
		// choose byzantine validators with strictly less than 1/3 of the power
		perm := rng.Perm(len(s.powers))
		var bp int64
		for _, i := range perm {
			if 3*(bp+s.powers[i]) < total {
				s.byz = append(s.byz, i)
				bp += s.powers[i]
			}
			if len(s.byz) >= 2 {
				break
			}
		}
		sort.Ints(s.byz)
	}
	s.pTimeout = []float64{0.02, 0.08, 0.25}[rng.IntN(3)]
	s.partition = rng.IntN(2) == 0
	s.pDup = []float64{0, 0.05}[rng.IntN(2)]
	s.heights = int64(3 + rng.IntN(3))
	return s
}

func run(c *vf.Ctx) {
	n := c.N(400, 12000)
	if only := os.Getenv("C31_ONLY"); only != "" {
		var k int
		fmt.Sscan(only, &k)
		debug = true
		if os.Getenv("C31_TRACE") != "" {
			simnet.Trace = func(l string) { fmt.Println("TRACE", l) }
		}
		runSchedule(c, k, c.Rng(5000+uint64(k)))
		return
	}
	c.Parallel(n, 16, 5000, func(i int, rng *rand.Rand) {
		runSchedule(c, i, rng)
	})
	c.Assume("message signatures are the only authentication: the scheduler may deliver any produced message to any node at any time (gossip relays), so origin-based link faults are subsumed")
	c.Assume("honest clocks are correct and a height lasts at least the block time iota (any sane timeout_commit): the scheduler fires timeouts at once, so each node is held until the wall clock has passed its last block's time + iota before it acts at the next height")
	c.Assume("liveness is checked as bounded progress (40 synchronous scheduler rounds per height) with byzantine validators silent; an unbounded 'eventually' cannot be decided by a finite run")
	c.Assume("byzantine validators are pure signers: equivocating proposals/votes and silence; bogus +2/3 claims (VoteSetMaj23) live in the reactor, which simnet replaces")
	c.RequireCounter("schedules", int64(n))
	c.RequireCounter("schedules_reaching_round>=1", 10)
	c.RequireCounter("schedules_with_byz_messages_delivered", 10)
	c.RequireCounter("commits_checked", int64(n*3))
	c.RequireCounter("locks_observed", 5)
}

type monitor struct {
	c       *vf.Ctx
	id      int
	s       sched
	net     *simnet.Net
	sig     []byte
	commits map[int64]map[int][]byte
	lastH   map[int]int64
	reported map[string]bool
}

func (m *monitor) viol(key string, format string, a ...any) {
	if m.reported[key] {
		return
	}
	m.reported[key] = true
	m.c.Violation(key, map[string]any{"schedule_index": m.id, "seed": m.c.Seed, "powers": m.s.powers, "byzantine": m.s.byz, "byz_mode": m.s.byzMode,
		"p_timeout": m.s.pTimeout, "partition": m.s.partition, "heights": m.s.heights}, "schedule %d: "+format, append([]any{m.id}, a...)...)
}

func runSchedule(c *vf.Ctx, id int, rng *rand.Rand) {
	s := genSched(rng)
	net := simnet.New(rng, s.powers, s.byz)
	m := &monitor{c: c, id: id, s: s, net: net, commits: map[int64]map[int][]byte{}, lastH: map[int]int64{}, reported: map[string]bool{}}
	honest := net.Honest()
	target := s.heights
	randAud := func() map[int]bool {
		a := map[int]bool{}
		for _, nd := range honest {
			if rng.IntN(2) == 0 {
				a[nd.Index] = true
			}
		}
		return a
	}
	// partition windows: alternate between "split" and "healed"
	group := map[int]int{}
	for _, nd := range honest {
		group[nd.Index] = rng.IntN(2)
	}
	split := false
	byzDelivered := 0
	// ---------- asynchronous phase
	maxSteps := 15000
	for it := 0; it < maxSteps; it++ {
		net.Drain()
		m.observe()
		done := true
		for _, nd := range honest {
			if nd.BS.Height() < target {
				done = false
			}
		}
		if done {
			break
		}
		if it%200 == 0 && !split {
			net.ShareMaj23()
		}
		if s.partition && it%400 == 0 {
			split = !split && rng.IntN(3) != 0
		}
		if s.byzMode == "equivocate" {
			for _, nd := range honest {
				h, r, _ := nd.HRS()
				a := randAud()
				b := map[int]bool{}
				for _, x := range honest {
					if !a[x.Index] {
						b[x.Index] = true
					}
				}
				net.ByzPropose(h, r, a, b)
				net.ByzVotesFor(h, r, randAud)
			}
		}
		// laggards are served committed heights
		minH, maxH := int64(1<<62), int64(0)
		for _, nd := range honest {
			h, _, _ := nd.HRS()
			if h < minH {
				minH = h
			}
			if h > maxH {
				maxH = h
			}
		}
		for h := minH; h < maxH; h++ {
			net.ServeCommitted(h)
		}
		pn, pm, ok := 0, (*simnet.Msg)(nil), false
		if rng.Float64() >= s.pTimeout {
			pn, pm, ok = net.Pick(func(ni int, msg *simnet.Msg) bool {
				if s.byzMode == "silent" && msg.FromByz {
					return false
				}
				if split && msg.Vote != nil && !msg.FromByz {
					// during a split honest votes only travel inside a group
					return group[ni] == int(msg.Vote.ValidatorIndex)%2
				}
				return true
			}, 0.05)
		}
		if ok {
			if pm.FromByz {
				byzDelivered++
			}
			net.Deliver(pn, pm)
			m.sig = append(m.sig, byte(pn), pm.Kind, byte(pm.Round))
			if s.pDup > 0 && rng.Float64() < s.pDup {
				net.Deliver(pn, pm)
			}
		} else {
			ni := honest[rng.IntN(len(honest))].Index
			if net.FireTimeout(ni) {
				m.sig = append(m.sig, byte(ni), 'T')
			}
		}
	}
	net.Drain()
	m.observe()
	// ---------- synchronous phase: bounded progress
	start := map[int]int64{}
	for _, nd := range honest {
		start[nd.Index] = nd.BS.Height()
	}
	rounds := 0
	progressed := false
	net.RelayAll = true // byzantine validators produce nothing new; what honest nodes already hold is gossiped to everyone
	for rounds = 0; rounds < progressBound*2; rounds++ {
		// deliver everything deliverable (honest messages only: byzantine validators are silent now)
		net.ShareMaj23()
		for guard := 0; guard < 20000; guard++ {
			net.Drain()
			if guard%64 == 63 {
				net.ShareMaj23()
			}
			minH, maxH := int64(1<<62), int64(0)
			for _, nd := range honest {
				h, _, _ := nd.HRS()
				if h < minH {
					minH = h
				}
				if h > maxH {
					maxH = h
				}
			}
			for h := minH; h < maxH; h++ {
				net.ServeCommitted(h)
			}
			pn, pm, ok := net.Pick(func(ni int, msg *simnet.Msg) bool { return !msg.FromByz || msg.Relayed }, 0)
			if !ok {
				break
			}
			net.Deliver(pn, pm)
		}
		m.observe()
		if debug {
			for _, nd := range honest {
				h, r, st := nd.HRS()
				rs := nd.CS.GetRoundState()
				pv, pc := "", ""
				if rs.Votes != nil {
					for rr := 0; rr <= r; rr++ {
						if x := rs.Votes.Prevotes(rr); x != nil {
							pv += fmt.Sprintf(" r%d:%s", rr, x.BitArray())
						}
						if x := rs.Votes.Precommits(rr); x != nil {
							pc += fmt.Sprintf(" r%d:%s", rr, x.BitArray())
						}
					}
				}
				if rs.Votes != nil && r >= 1 && r <= 6 {
					for _, vs := range []interface{ GetByIndex(int) *types.Vote }{rs.Votes.Prevotes(r), rs.Votes.Precommits(r)} {
						for vi := 0; vi < 4; vi++ {
							if v := vs.GetByIndex(vi); v != nil {
								pc += fmt.Sprintf(" [%d:%v r%d %X]", vi, v.Type, v.Round, v.BlockID.Hash)
							}
						}
					}
					if rs.ProposalBlock != nil && r == 2 {
						for _, v := range rs.ProposalBlock.LastCommit.Precommits {
							if v != nil {
								pc += fmt.Sprintf("\n   lastcommit[%d] r%d %X ts=%v", v.ValidatorIndex, v.Round, v.BlockID.Hash, v.Timestamp)
							}
						}
						pc += fmt.Sprintf("\n   now=%v lastBlockTime=%v gen=%v", time.Now().UTC(), nd.CS.GetState().LastBlockTime, net.GenTime)
					}
					if rs.ProposalBlock != nil {
						pc += fmt.Sprintf(" PB=%X t=%v validate=%v", rs.ProposalBlock.Hash(), rs.ProposalBlock.Time, nd.CS.GetState().ValidateBlock(rs.ProposalBlock))
					}
				}
				if rounds == 5 && rs.Votes != nil {
					for rr := 0; rr <= r; rr++ {
						if x := rs.Votes.Precommits(rr); x != nil {
							for vi := 0; vi < x.Size(); vi++ {
								if v := x.GetByIndex(vi); v != nil {
									pc += fmt.Sprintf("\n     pc r%d [%d] %X", rr, vi, v.BlockID.Hash)
								}
							}
							m23, ok23 := x.TwoThirdsMajority()
							pc += fmt.Sprintf("\n     pc r%d maj23=%v %X", rr, ok23, m23.Hash)
						}
					}
					if sc := nd.BS.LoadSeenCommit(h - 1); sc != nil {
						pc += fmt.Sprintf("\n     seencommit(%d) round=%d block=%X", h-1, sc.Round(), sc.BlockID.Hash)
						for _, v := range sc.Precommits {
							if v != nil {
								pc += fmt.Sprintf(" [%d:%X]", v.ValidatorIndex, v.BlockID.Hash[:min(4, len(v.BlockID.Hash))])
							}
						}
					}
				}
				if rs.LockedBlock != nil {
					pc += fmt.Sprintf(" LOCK r%d %X", rs.LockedRound, rs.LockedBlock.Hash()[:4])
				}
				if rs.ValidBlock != nil {
					pc += fmt.Sprintf(" VALID r%d %X", rs.ValidRound, rs.ValidBlock.Hash()[:4])
				}
				if rs.Proposal != nil {
					pc += fmt.Sprintf(" PROP pol=%d %X", rs.Proposal.POLRound, rs.Proposal.BlockID.Hash[:4])
				}
				if rs.Votes != nil {
					if x := rs.Votes.Prevotes(r); x != nil {
						for vi := 0; vi < x.Size(); vi++ {
							if v := x.GetByIndex(vi); v != nil {
								pc += fmt.Sprintf(" pv%d:%X", vi, v.BlockID.Hash[:min(4, len(v.BlockID.Hash))])
							}
						}
					}
				}
				th, tr, ts, tok := nd.CS.VerifTickerPending()
				fmt.Printf("sync round %d node %d store=%d hrs=%d/%d/%v prop=%v locked=%v timeout=%v(%d/%d/%v) prevotes[%s] precommits[%s]\n", rounds, nd.Index, nd.BS.Height(), h, r, st, rs.Proposal != nil, rs.LockedBlock != nil, tok, th, tr, ts, pv, pc)
			}
		}
		all := true
		for _, nd := range honest {
			if nd.BS.Height() < start[nd.Index]+1 || nd.BS.Height() < target {
				all = false
			}
		}
		if all {
			progressed = true
			break
		}
		for _, nd := range honest {
			net.FireTimeout(nd.Index)
		}
	}
	if !progressed || rounds > progressBound {
		hs := []int64{}
		for _, nd := range honest {
			hs = append(hs, nd.BS.Height())
		}
		// diagnosis of the stall: an honest node that holds +2/3 precommits for a block at its own
		// height but is not in the commit step can only have been pulled out of that step
		key, why := "no-bounded-progress", ""
		for _, nd := range honest {
			rs := nd.CS.GetRoundState()
			if rs.Votes == nil || rs.Step >= cstypes.RoundStepCommit {
				continue
			}
			for r := 0; r <= rs.Round; r++ {
				if pcs := rs.Votes.Precommits(r); pcs != nil {
					if bid, ok := pcs.TwoThirdsMajority(); ok && len(bid.Hash) != 0 {
						key = "no-bounded-progress:decided-node-left-commit-step"
						why = fmt.Sprintf("; node %d is at %d/%d/%v although it holds +2/3 precommits of round %d for block %X", nd.Index, rs.Height, rs.Round, rs.Step, r, bid.Hash)
					}
				}
			}
		}
		if key == "no-bounded-progress" {
			// second diagnosis: an honest node still locked on a block of round L although its own vote
			// sets hold +2/3 prevotes for another block at a round P with L < P <= its round
			for _, nd := range honest {
				rs := nd.CS.GetRoundState()
				if rs.Votes == nil || rs.LockedBlock == nil {
					continue
				}
				for r := rs.LockedRound + 1; r <= rs.Round; r++ {
					if pvs := rs.Votes.Prevotes(r); pvs != nil {
						if bid, ok := pvs.TwoThirdsMajority(); ok && len(bid.Hash) != 0 && !rs.LockedBlock.HashesTo(bid.Hash) {
							key = "no-bounded-progress:lock-kept-despite-later-polka"
							why = fmt.Sprintf("; node %d at %d/%d is locked on %X since round %d although it holds +2/3 prevotes of round %d for block %X", nd.Index, rs.Height, rs.Round, rs.LockedBlock.Hash()[:4], rs.LockedRound, r, bid.Hash[:4])
						}
					}
				}
			}
		}
		m.viol(key, "after switching to timely delivery honest nodes did not all commit a further height within %d scheduler rounds (used %d; store heights %v, target %d)%s", progressBound, rounds, hs, target, why)
	}
	m.observe()
	m.finalChecks()
	// ---------- bookkeeping
	nt := net.MaxRound >= 1 || byzDelivered > 0
	c.Case(fmt.Sprintf("%x", m.sig), nt)
	c.Count("schedules", 1)
	c.Count("wall_clock_paced_ms", int(net.Paced.Milliseconds()))
	c.Count("steps", net.Steps)
	c.Count("timeouts_fired", net.Timeouts)
	c.Count("sync_rounds_used", rounds)
	if net.MaxRound >= 1 {
		c.Count("schedules_reaching_round>=1", 1)
	}
	if net.MaxRound >= 2 {
		c.Count("schedules_reaching_round>=2", 1)
	}
	if byzDelivered > 0 {
		c.Count("schedules_with_byz_messages_delivered", 1)
	}
	c.Count("byz_proposals_made", net.ByzProposals)
	c.Count("byz_votes_made", net.ByzVotes)
	c.Count("duplicate_deliveries", net.Duplicates)
	c.Count("maj23_claims_between_honest_nodes", net.Maj23Claims)
	c.Count("deliveries_not_taken_in_and_retried_later", net.Rejected)
	if id < 3 {
		c.Sample(map[string]any{"powers": s.powers, "byzantine": s.byz, "byz_mode": s.byzMode, "p_timeout": s.pTimeout, "partition": s.partition, "heights": s.heights,
			"steps": net.Steps, "timeouts": net.Timeouts, "max_round": net.MaxRound, "first_events": fmt.Sprintf("%x", head(m.sig, 60))})
	}
}

func head(b []byte, n int) []byte {
	if len(b) > n {
		return b[:n]
	}
	return b
}

// observe records commits and checks agreement.
func (m *monitor) observe() {
	for _, nd := range m.net.Honest() {
		if nd.BS.Height() == m.lastH[nd.Index] {
			continue
		}
		from := m.lastH[nd.Index] + 1
		m.lastH[nd.Index] = nd.BS.Height()
		for h := from; h <= nd.BS.Height(); h++ {
			if m.commits[h] == nil {
				m.commits[h] = map[int][]byte{}
			}
			if _, ok := m.commits[h][nd.Index]; ok {
				continue
			}
			meta := nd.BS.LoadBlockMeta(h)
			if meta == nil {
				continue
			}
			hash := meta.BlockID.Hash
			m.commits[h][nd.Index] = hash
			for other, oh := range m.commits[h] {
				if !bytes.Equal(oh, hash) {
					m.viol("agreement-violated", "height %d: node %d committed %X but node %d committed %X", h, nd.Index, hash, other, oh)
				}
			}
			m.checkCommit(nd, h, meta.BlockID)
		}
	}
}

// checkCommit re-tallies the seen commit independently.
func (m *monitor) checkCommit(nd *simnet.Node, h int64, bid types.BlockID) {
	m.c.Count("commits_checked", 1)
	sc := nd.BS.LoadSeenCommit(h)
	if sc == nil {
		m.viol("commit-missing", "node %d stored block %d without a seen commit", nd.Index, h)
		return
	}
	var total, power int64
	for _, p := range m.s.powers {
		total += p
	}
	vals := nd.CS.GetState().Validators // validator set is static in these schedules
	for i, pc := range sc.Precommits {
		if pc == nil {
			continue
		}
		_, val := vals.GetByIndex(i)
		if val == nil {
			continue
		}
		if !pc.BlockID.Equals(bid) {
			continue
		}
		v := sc.GetVote(i)
		if v.Height != h || v.Type != types.PrecommitType {
			continue
		}
		if !val.PubKey.VerifyBytes(v.SignBytes(simnet.ChainID), v.Signature) {
			continue
		}
		power += val.VotingPower
	}
	if 3*power <= 2*total {
		m.viol("commit-without-two-thirds", "node %d committed block %d with valid precommits of only %d / %d power", nd.Index, h, power, total)
	}
}

// finalChecks: equivocation and lock rule over every honest validator's signed votes.
func (m *monitor) finalChecks() {
	honestIdx := map[int]bool{}
	ref := m.net.Honest()[0]
	vals := ref.CS.GetState().Validators
	addrIdx := map[string]int{} // validator-set index -> original index
	for i, pv := range m.net.PVs {
		idx, _ := vals.GetByAddress(pv.PubKey().Address())
		addrIdx[fmt.Sprint(idx)] = i
		if !m.net.Byz[i] {
			honestIdx[idx] = true
		}
	}
	var total int64
	for _, p := range m.s.powers {
		total += p
	}
	powerOf := func(valIdx int) int64 { _, v := vals.GetByIndex(valIdx); return v.VotingPower }
	// all votes signed by honest validators (from the pool)
	type hrt struct {
		h int64
		r int
		t types.SignedMsgType
	}
	signed := map[int]map[hrt]*types.Vote{}
	for _, msg := range m.net.Pool {
		v := msg.Vote
		if v == nil || !honestIdx[v.ValidatorIndex] || msg.FromByz {
			continue
		}
		if signed[v.ValidatorIndex] == nil {
			signed[v.ValidatorIndex] = map[hrt]*types.Vote{}
		}
		k := hrt{v.Height, v.Round, v.Type}
		if old := signed[v.ValidatorIndex][k]; old != nil && !old.BlockID.Equals(v.BlockID) {
			m.viol("honest-equivocation", "honest validator (set index %d) signed two different votes at height %d round %d type %d: %X and %X", v.ValidatorIndex, v.Height, v.Round, v.Type, old.BlockID.Hash, v.BlockID.Hash)
		}
		signed[v.ValidatorIndex][k] = v
	}
	m.c.Count("honest_votes_examined", func() int { n := 0; for _, s := range signed { n += len(s) }; return n }())
	// lock rule, per honest node using its delivery log
	for _, nd := range m.net.Honest() {
		myIdx, _ := vals.GetByAddress(m.net.PVs[nd.Index].PubKey().Address())
		mine := signed[myIdx]
		// position in the delivery log at which each own vote appears
		pos := map[hrt]int{}
		for i, v := range nd.Votes {
			if v.ValidatorIndex == myIdx {
				k := hrt{v.Height, v.Round, v.Type}
				if _, ok := pos[k]; !ok {
					pos[k] = i
				}
			}
		}
		for k, pc := range mine {
			if k.t != types.PrecommitType || len(pc.BlockID.Hash) == 0 {
				continue
			}
			m.c.Count("locks_observed", 1)
			for k2, v2 := range mine {
				if k2.h != k.h || k2.r <= k.r || len(v2.BlockID.Hash) == 0 || v2.BlockID.Equals(pc.BlockID) {
					continue
				}
				m.c.Count("lock_changes_examined", 1)
				// need: a +2/3 prevote set for one value != locked block at some round r'' in (k.r, k2.r], delivered before v2 was signed
				limit, ok := pos[k2]
				if !ok {
					limit = len(nd.Votes)
				}
				justified := false
				tally := map[int]map[string]int64{}
				seenVal := map[string]bool{}
				for _, dv := range nd.Votes[:limit] {
					if dv.Height != k.h || dv.Type != types.PrevoteType || dv.Round <= k.r || dv.Round > k2.r {
						continue
					}
					if dv.BlockID.Equals(pc.BlockID) {
						continue
					}
					// an equivocating validator counts once for each value it voted for, as the vote set's per-block tally does
					vk := fmt.Sprintf("%d/%d/%x", dv.Round, dv.ValidatorIndex, dv.BlockID.Hash)
					if seenVal[vk] {
						continue
					}
					seenVal[vk] = true
					if tally[dv.Round] == nil {
						tally[dv.Round] = map[string]int64{}
					}
					tally[dv.Round][string(dv.BlockID.Hash)] += powerOf(dv.ValidatorIndex)
					if 3*tally[dv.Round][string(dv.BlockID.Hash)] > 2*total {
						justified = true
					}
				}
				if !justified {
					m.viol("lock-rule-violated", "honest node %d precommitted %X at height %d round %d and later signed a %d-vote for %X at round %d without having received a +2/3 prevote set for another value in between",
						nd.Index, pc.BlockID.Hash, k.h, k.r, k2.t, v2.BlockID.Hash, k2.r)
				}
			}
		}
	}
}
