// Package c03: realm behaviour is independent of persistence boundaries.
//
// Oracle: three executions of the same op sequence on the same realm code agree
// on every returned value and on the final Dump():
//
//	(A) one MsgCall per op, one tx per block, with app restarts in between
//	    (objects are persisted and re-loaded from bytes, caches cold);
//	(B) the whole sequence inside ONE MsgRun script (objects stay in memory,
//	    only realm-boundary finalization happens);
//	(C) the same source compiled as an ordinary non-realm main package and run
//	    by the GnoVM purely in memory (no realm, no persistence at all).
package c03

import (
	"fmt"
	"math/rand/v2"
	"strconv"
	"strings"

	"github.com/gnolang/gno/tm2/pkg/std"

	"verifharness/checks/c50/gnodrv"
	"verifharness/internal/chainsim"
	"verifharness/internal/hist"
	"verifharness/internal/vf"
)

func init() {
	vf.Register(&vf.Check{
		ID:    "C03",
		Level: "exploration",
		Rule: "case = one generated op sequence over the store realm (pointers into one array, slices sharing a backing array incl. append within/over capacity and re-slicing, closures over heap items, maps of structs, " +
			"interface-held declared types, linked structs; attach/detach/share/delete) executed in three modes (per-tx with restarts / single MsgRun / pure in-memory main package); " +
			"non-trivial = the sequence contains >= 3 distinct op kinds and >= 1 aliasing op (Alias, BumpAlias, Window, Grow, Reslice, Share, AddFunc, CallFuncs, GrowSq, SlotSwap, SlotRehome); distinct by the op list. " +
			"Value-copy phase: case = one round Init / copy operation (22 kinds) / mutations of 1-3 sides / Read on one of 7 array/struct value shapes, same three modes; always non-trivial",
		Run: run,
	})
}

// pureSource turns the realm source into a plain main package: crossing
// parameters are dropped, nothing else changes.
func pureSource(ops []hist.MsgSpec) string {
	src := hist.StoreSrc
	src = strings.Replace(src, "package store", "package main", 1)
	src = strings.ReplaceAll(src, "(cur realm, ", "(")
	src = strings.ReplaceAll(src, "(cur realm)", "()")
	src = strings.ReplaceAll(src, "Push(cur, tag)", "Push(tag)")
	var b strings.Builder
	b.WriteString(src)
	b.WriteString("\nfunc main() {\n")
	for _, o := range ops {
		fmt.Fprintf(&b, "\tprintln(%s(%s))\n", o.Func, gnoArgs(o))
	}
	b.WriteString("\tprintln(Dump())\n}\n")
	return b.String()
}

var stringArgs = map[string][]int{"Push": {0}, "PoolAdd": {0}, "Share": {0}, "Unshare": {0}, "MetaSet": {0}, "MetaDel": {0}, "Rename": {0}, "SlotPut": {1}}

func gnoArgs(o hist.MsgSpec) string {
	var out []string
	isStr := map[int]bool{}
	for _, i := range stringArgs[o.Func] {
		isStr[i] = true
	}
	for i, a := range o.Args {
		if isStr[i] {
			out = append(out, strconv.Quote(a))
		} else {
			out = append(out, a)
		}
	}
	return strings.Join(out, ", ")
}

func runScript(ops []hist.MsgSpec) string {
	var b strings.Builder
	b.WriteString("package main\n\nimport \"gno.land/r/verif/store\"\n\nfunc main(cur realm) {\n")
	for _, o := range ops {
		args := gnoArgs(o)
		if args != "" {
			args = ", " + args
		}
		fmt.Fprintf(&b, "\tprintln(store.%s(cross(cur)%s))\n", o.Func, args)
	}
	b.WriteString("\tprintln(store.Dump())\n}\n")
	return b.String()
}

// normCall turns "(5 int)" / ("x" string) into the println rendering.
func normCall(data string) string {
	s := strings.TrimSpace(data)
	if !strings.HasPrefix(s, "(") || !strings.HasSuffix(s, ")") {
		return s
	}
	s = s[1 : len(s)-1]
	i := strings.LastIndexByte(s, ' ')
	if i < 0 {
		return s
	}
	v := s[:i]
	if strings.HasPrefix(v, "\"") {
		if u, err := strconv.Unquote(v); err == nil {
			return u
		}
	}
	return v
}

var aliasing = map[string]bool{"Alias": true, "BumpAlias": true, "Window": true, "Grow": true, "Reslice": true, "Share": true, "AddFunc": true, "CallFuncs": true, "GrowSq": true, "SlotSwap": true, "SlotRehome": true, "SlotAdopt": true}

func run(c *vf.Ctx) {
	n := c.N(24, 400)
	nOps := c.N(14, 30)
	workers := 6
	perChain := (n + workers - 1) / workers
	c.Parallel(workers, workers, 2000, func(wi int, rng *rand.Rand) {
		env, err := gnodrv.New(vf.RepoRoot(), fmt.Sprintf("%s/w%d", c.WorkDir, wi))
		if err != nil {
			panic(err)
		}
		for k := 0; k < perChain; k++ {
			seqID := wi*perChain + k
			var ops []hist.MsgSpec
			kinds := map[string]bool{}
			al := 0
			for len(ops) < nOps {
				o := hist.StoreOp(rng)
				ops = append(ops, o)
				kinds[o.Func] = true
				if aliasing[o.Func] {
					al++
				}
			}
			key := ""
			for _, o := range ops {
				key += o.Func + "(" + strings.Join(o.Args, ",") + ");"
			}
			c.Case(key, len(kinds) >= 3 && al >= 1)
			for f := range kinds {
				c.Count("op:"+f, 1)
			}
			w := map[string]any{"ops": ops}
			// ---- mode C: pure in-memory
			outC, err := env.Run("main", "main", "main.gno", pureSource(ops), 500_000_000)
			if err != nil {
				if strings.Contains(err.Error(), "division by zero") {
					// the store realm's own Reslice/Window take an index modulo a length that an earlier
					// op of this sequence made zero: the program panics by itself, on a chain that tx
					// would fail and the rest continue, so the sequence has no in-memory counterpart
					c.Count("sequences_discarded_program_panics_by_itself", 1)
					continue
				}
				c.Violation("pure-run-error", w, "sequence %d: pure in-memory run failed: %v", seqID, err)
				continue
			}
			want := strings.Split(strings.TrimRight(outC, "\n"), "\n")
			// ---- modes A and B on fresh chains
			a, b, errAB := runAB(c, ops, rng)
			if errAB != nil {
				c.Violation("chain-run-error", w, "sequence %d: %v", seqID, errAB)
				continue
			}
			if seqID == 0 {
				c.Sample(map[string]any{"ops": ops, "results": want})
			}
			cmp := func(mode string, got []string) {
				if len(got) != len(want) {
					c.Violation("result-count-differs:"+mode, w, "sequence %d mode %s: %d result lines, pure in-memory run has %d\n got: %v\nwant: %v", seqID, mode, len(got), len(want), got, want)
					return
				}
				for i := range want {
					if got[i] != want[i] {
						what := "final-dump"
						if i < len(ops) {
							what = "op:" + ops[i].Func
						}
						c.Violation("differs-from-in-memory:"+mode+":"+what, w, "sequence %d mode %s: result %d (%s) = %q, pure in-memory execution gives %q", seqID, mode, i, what, got[i], want[i])
						return
					}
				}
				c.Count("sequences_agreeing:"+mode, 1)
			}
			cmp("per-tx-with-restarts", a)
			cmp("single-msgrun", b)
		}
	})
	c.Assume("mode C is the same realm source with the crossing parameters removed (package main): it shares the interpreter but no realm finalization, persistence or reloading")
	c.Assume("single-realm sequences only (the pure in-memory mode has no second realm); cross-realm persistence is observed by C06/C09 monitors")
	c.RequireCounter("sequences_agreeing:per-tx-with-restarts", int64(n*9/10))
	c.RequireCounter("sequences_agreeing:single-msgrun", int64(n*9/10))
	c.RequireCounter("restarts", 4)
	runValueCopies(c)
	c.Assume("value-copy phase: 22 copy operations x 7 value shapes (plain array/struct, and arrays/structs nested in arrays/structs, which persist as separate lazily-loaded objects); every step of a round is its own transaction in the per-tx mode, so the copy always reads re-loaded state")
}

func runAB(c *vf.Ctx, ops []hist.MsgSpec, rng *rand.Rand) (a, b []string, err error) {
	newChain := func() (*chainsim.Chain, error) {
		ch, err := chainsim.New(chainsim.Options{})
		if err != nil {
			return nil, err
		}
		r := ch.InitChain(hist.Genesis(ch))
		if r.Error != nil {
			return nil, fmt.Errorf("initchain: %s", r.Error.Error())
		}
		ch.RunBlock()
		return ch, nil
	}
	// A
	chA, err := newChain()
	if err != nil {
		return nil, nil, err
	}
	defer func() { chA.Close() }()
	u := chA.Acc("alice")
	for i, o := range ops {
		if i > 0 && rng.IntN(5) == 0 {
			if err := chA.Restart(); err != nil {
				return nil, nil, err
			}
			c.Count("restarts", 1)
		}
		tr := chA.OneTx([]std.Msg{hist.Resolve(chA, u, o)}, chainsim.Fee(100_000_000, 1_000_000), u)
		if !tr.OK {
			return nil, nil, fmt.Errorf("mode A op %d %s failed: %s", i, o.Func, tr.ErrString)
		}
		a = append(a, normCall(string(tr.Res.Data)))
	}
	if err := chA.Restart(); err != nil {
		return nil, nil, err
	}
	c.Count("restarts", 1)
	d, err := chA.Eval(hist.StorePath, "Dump()")
	if err != nil {
		return nil, nil, fmt.Errorf("mode A dump: %v", err)
	}
	a = append(a, normCall(d))
	// B
	chB, err := newChain()
	if err != nil {
		return nil, nil, err
	}
	defer chB.Close()
	ub := chB.Acc("alice")
	tr := chB.OneTx([]std.Msg{chainsim.MsgRun(ub, runScript(ops))}, chainsim.Fee(1_000_000_000, 1_000_000), ub)
	if !tr.OK {
		return nil, nil, fmt.Errorf("mode B script failed: %s", tr.ErrString)
	}
	b = strings.Split(strings.TrimRight(string(tr.Res.Data), "\n"), "\n")
	return a, b, nil
}
