package c03

// Value-copy phase: Gno arrays and structs are values. Every way of copying
// one (assignment, argument, result, append, copy, range, map/interface/field
// stores, ...) must yield an independent value, no matter whether the source
// was just built in memory or has to be re-loaded from persisted bytes in a
// later transaction (where nested arrays/structs are separate lazily-loaded
// objects). One round = Init (fresh literals) / one copy operation / mutations
// on one or more sides / Read. Mode A runs every op in its own transaction
// (with restarts), mode B runs the round in one MsgRun, mode C runs the whole
// sequence as a plain in-memory main package and provides the expected values.

import (
	"fmt"
	"math/rand/v2"
	"strings"

	"github.com/gnolang/gno/tm2/pkg/std"

	"verifharness/checks/c50/gnodrv"
	"verifharness/internal/chainsim"
	"verifharness/internal/hist"
	"verifharness/internal/vf"
)

const nestPath = "gno.land/r/verif/nest"

type vshape struct {
	name string
	typ  string // type expression
	lit  string // literal with %d placeholders x, y
	leaf string // accessor appended to a value expression
	deep bool   // contains a nested array/struct value (a separate persisted object)
}

var vshapes = []vshape{
	{"arr", "[2]int", "[2]int{%d, %d}", "[0]", false},
	{"flat", "Flat", "Flat{%d, %d}", ".n", false},
	{"struct-of-array", "SA", "SA{[2]int{%d, %d}, \"t\"}", ".xy[0]", true},
	{"struct-of-struct", "SS", "SS{Flat{%d, %d}, \"t\"}", ".in.n", true},
	{"array-of-struct", "[2]Flat", "[2]Flat{{%d, 1}, {%d, 2}}", "[0].n", true},
	{"array-of-array", "[2][2]int", "[2][2]int{{%d, 1}, {%d, 2}}", "[0][0]", true},
	{"struct-of-array-of-struct", "SAS", "SAS{[2]Flat{{%d, 1}, {%d, 2}}}", ".arr[0].n", true},
}

type vkind struct {
	name string
	body string // statements; placeholders: T = type, P = var prefix
}

var vkinds = []vkind{
	{"assign", "Pdst = Psrc"},
	{"via-local", "t := Psrc; Pdst = t"},
	{"func-arg", "PsetDst(Psrc)"},
	{"func-result", "Pdst = PgetSrc()"},
	{"pointer-deref", "p := &Psrc; Pdst = *p"},
	{"append-spread", "PdstSl = append([]T(nil), PsrcSl...)"},
	{"append-one", "PdstSl = append([]T(nil), Psrc, Psrc)"},
	{"copy-builtin", "copy(PdstSl, PsrcSl)"},
	{"range-value", "i := 0; for _, v := range PsrcSl { PdstSl[i] = v; i++ }"},
	{"slice-index-assign", "PdstSl[0] = PsrcSl[0]; PdstSl[1] = PsrcSl[1]"},
	{"slice-elem-to-var", "Pdst = PsrcSl[1]"},
	{"append-grow-split", "PdstSl = PsrcSl[:len(PsrcSl):len(PsrcSl)]; PsrcSl = append(PsrcSl, Psrc)"},
	{"map-put", "Pmp[\"k\"] = Psrc"},
	{"map-get", "Pdst = Pmp[\"k\"]"},
	{"iface-put", "Pif = Psrc"},
	{"iface-get", "Pdst = Pif.(T)"},
	{"lit-field", "Pholder = PHolder{v: Psrc}"},
	{"field-set", "Pholder.v = Psrc"},
	{"field-get", "Pdst = Pholder.v"},
	{"array-elem-set", "ParrOf[1] = Psrc"},
	{"array-elem-get", "Pdst = ParrOf[1]"},
	{"range-array", "for _, v := range ParrOf { Pdst = v }"},
}

// nestSource generates the realm: one family of variables and functions per shape.
func nestSource(pkg string, realm bool) string {
	var b strings.Builder
	fmt.Fprintf(&b, "package %s\n\nimport \"strconv\"\n\n", pkg)
	b.WriteString("type Flat struct{ n, m int }\ntype SA struct { xy [2]int; t string }\ntype SS struct { in Flat; t string }\ntype SAS struct{ arr [2]Flat }\n\n")
	cur, cur1 := "", ""
	if realm {
		cur, cur1 = "cur realm, ", "cur realm"
	}
	for si, s := range vshapes {
		P := fmt.Sprintf("s%d", si)
		r := strings.NewReplacer("T", s.typ, "P", P, "LEAF", s.leaf)
		lit := func(x, y string) string {
			return strings.Replace(strings.Replace(s.lit, "%d", x, 1), "%d", y, 1)
		}
		b.WriteString(r.Replace("type PHolder struct{ v T }\nvar (\n\tPsrc, Pdst T\n\tPsrcSl, PdstSl []T\n\tPmp map[string]T\n\tPif interface{}\n\tPholder PHolder\n\tParrOf [2]T\n)\n"))
		b.WriteString(r.Replace("func PsetDst(v T) { Pdst = v }\nfunc PgetSrc() T { return Psrc }\n"))
		// Init: everything from fresh, pairwise independent literals.
		fmt.Fprintf(&b, "func %sInit(%sx, y int) string {\n", strings.ToUpper(P), cur)
		fmt.Fprintf(&b, "\t%ssrc = %s\n\t%sdst = %s\n", P, lit("x", "y"), P, lit("x+100", "y+100"))
		fmt.Fprintf(&b, "\t%ssrcSl = []%s{%s, %s}\n", P, s.typ, lit("x+1", "y+1"), lit("x+2", "y+2"))
		fmt.Fprintf(&b, "\t%sdstSl = []%s{%s, %s}\n", P, s.typ, lit("x+101", "y+101"), lit("x+102", "y+102"))
		fmt.Fprintf(&b, "\t%smp = map[string]%s{\"k\": %s}\n", P, s.typ, lit("x+3", "y+3"))
		fmt.Fprintf(&b, "\t%sif = %s\n", P, lit("x+4", "y+4"))
		fmt.Fprintf(&b, "\t%sholder = %sHolder{v: %s}\n", P, P, lit("x+5", "y+5"))
		fmt.Fprintf(&b, "\t%sarrOf = [2]%s{%s, %s}\n", P, s.typ, lit("x+6", "y+6"), lit("x+7", "y+7"))
		fmt.Fprintf(&b, "\treturn %sread()\n}\n", P)
		// Mut: side 0 = sources, 1 = destinations, 2 = holders.
		fmt.Fprintf(&b, "func %sMut(%sside, d int) string {\n\tswitch side {\n", strings.ToUpper(P), cur)
		b.WriteString(r.Replace("\tcase 0:\n\t\tPsrcLEAF += d\n\t\tfor i := range PsrcSl { PsrcSl[i]LEAF += d + i }\n"))
		b.WriteString(r.Replace("\tcase 1:\n\t\tPdstLEAF += 10 * d\n\t\tfor i := range PdstSl { PdstSl[i]LEAF += 10*d + i }\n"))
		b.WriteString(r.Replace("\tcase 2:\n\t\tPholder.vLEAF += 100 * d\n\t\tParrOf[0]LEAF += 100*d + 1\n\t\tParrOf[1]LEAF += 100*d + 2\n"))
		fmt.Fprintf(&b, "\t}\n\treturn %sread()\n}\n", P)
		// read
		b.WriteString(r.Replace("func Pread() string {\n\ts := \"src=\" + strconv.Itoa(PsrcLEAF) + \" dst=\" + strconv.Itoa(PdstLEAF) + \" srcSl=\"\n" +
			"\tfor _, v := range PsrcSl { s += strconv.Itoa(vLEAF) + \",\" }\n\ts += \" dstSl=\"\n\tfor _, v := range PdstSl { s += strconv.Itoa(vLEAF) + \",\" }\n" +
			"\tif v, ok := Pmp[\"k\"]; ok { s += \" mp=\" + strconv.Itoa(vLEAF) }\n" +
			"\tif v, ok := Pif.(T); ok { s += \" if=\" + strconv.Itoa(vLEAF) }\n" +
			"\ts += \" holder=\" + strconv.Itoa(Pholder.vLEAF) + \" arrOf=\" + strconv.Itoa(ParrOf[0]LEAF) + \",\" + strconv.Itoa(ParrOf[1]LEAF)\n\treturn s\n}\n"))
		fmt.Fprintf(&b, "func %sRead(%s) string { return %sread() }\n", strings.ToUpper(P), cur1, P)
		for ki, k := range vkinds {
			fmt.Fprintf(&b, "func %sCopy%d(%s) string {\n\t%s\n\treturn %sread()\n}\n", strings.ToUpper(P), ki, cur1, r.Replace(k.body), P)
		}
		b.WriteString("\n")
	}
	// maps: insertion-ordered; entries are added and deleted at every position
	fmt.Fprintf(&b, "var mm map[int]int\nvar ms map[string]*Flat\n\nfunc mdump() string {\n\ts := strconv.Itoa(len(mm)) + \":\"\n\tfor k, v := range mm {\n\t\ts += strconv.Itoa(k) + \"=\" + strconv.Itoa(v) + \",\"\n\t}\n\ts += \" \" + strconv.Itoa(len(ms)) + \":\"\n\tfor k, v := range ms {\n\t\ts += k + \"=\" + strconv.Itoa(v.n) + \",\"\n\t}\n\treturn s\n}\n")
	fmt.Fprintf(&b, "func MReset(%s) string { mm = map[int]int{}; ms = map[string]*Flat{}; return mdump() }\n", cur1)
	fmt.Fprintf(&b, "func MPut(%sk, v int) string { mm[k] = v; ms[strconv.Itoa(k)] = &Flat{v, k}; return mdump() }\n", cur)
	fmt.Fprintf(&b, "func MDel(%sk, unused int) string { delete(mm, k); delete(ms, strconv.Itoa(k)); return mdump() }\n", cur)
	fmt.Fprintf(&b, "func MRead(%s) string { return mdump() }\n", cur1)
	return b.String()
}

type vop struct {
	fn   string
	args []int
}

type vround struct {
	shape, kind int
	ops         []vop
}

func (o vop) callPure() string {
	return fmt.Sprintf("%s(%s)", o.fn, joinInts(o.args))
}

func joinInts(xs []int) string {
	var s []string
	for _, x := range xs {
		s = append(s, fmt.Sprint(x))
	}
	return strings.Join(s, ", ")
}

func genRound(rng *rand.Rand, si, ki int) vround {
	P := fmt.Sprintf("S%d", si)
	r := vround{shape: si, kind: ki}
	r.ops = append(r.ops, vop{P + "Init", []int{rng.IntN(50), rng.IntN(50)}})
	r.ops = append(r.ops, vop{fmt.Sprintf("%sCopy%d", P, ki), nil})
	// mutate all three sides, in random order: every copy kind is then decisive
	sides := rng.Perm(3)
	for _, s := range sides {
		r.ops = append(r.ops, vop{P + "Mut", []int{s, 1 + rng.IntN(9)}})
	}
	r.ops = append(r.ops, vop{P + "Read", nil})
	return r
}

func runValueCopies(c *vf.Ctx) {
	reps := c.N(1, 6) // every (kind, shape) combination this many times
	workers := 6
	type job struct{ si, ki int }
	var jobs []job
	for rep := 0; rep < reps; rep++ {
		for si := range vshapes {
			for ki := range vkinds {
				jobs = append(jobs, job{si, ki})
			}
		}
	}
	c.Parallel(workers, workers, 3000, func(wi int, rng *rand.Rand) {
		var rounds []vround
		for j := wi; j < len(jobs); j += workers {
			rounds = append(rounds, genRound(rng, jobs[j].si, jobs[j].ki))
		}
		if len(rounds) == 0 {
			return
		}
		// map rounds: n insertions, deletions at chosen insertion positions, more insertions
		for mr := 0; mr < c.N(4, 16); mr++ {
			r := vround{shape: -1}
			r.ops = append(r.ops, vop{"MReset", nil})
			n := 3 + rng.IntN(5)
			keys := rng.Perm(40)[:n+2]
			for i := 0; i < n; i++ {
				r.ops = append(r.ops, vop{"MPut", []int{keys[i], 1 + rng.IntN(90)}})
			}
			pos := 2 + rng.IntN(n-2) // third or later entry first
			r.kind = pos
			r.ops = append(r.ops, vop{"MDel", []int{keys[pos], 0}})
			r.ops = append(r.ops, vop{"MPut", []int{keys[n], 7}})
			if rng.IntN(2) == 0 {
				r.ops = append(r.ops, vop{"MDel", []int{keys[rng.IntN(n)], 0}})
			}
			r.ops = append(r.ops, vop{"MPut", []int{keys[n+1], 8}}, vop{"MRead", nil})
			rounds = append(rounds, r)
		}
		rng.Shuffle(len(rounds), func(i, j int) { rounds[i], rounds[j] = rounds[j], rounds[i] })
		// ---- mode C: one in-memory main package for the worker's whole sequence
		env, err := gnodrv.New(vf.RepoRoot(), fmt.Sprintf("%s/vc%d", c.WorkDir, wi))
		if err != nil {
			panic(err)
		}
		var mb strings.Builder
		mb.WriteString(nestSource("main", false))
		mb.WriteString("\nfunc main() {\n")
		for _, r := range rounds {
			for _, o := range r.ops {
				fmt.Fprintf(&mb, "\tprintln(%s)\n", o.callPure())
			}
		}
		mb.WriteString("}\n")
		outC, err := env.Run("main", "main", "main.gno", mb.String(), 2_000_000_000)
		if err != nil {
			c.Violation("valcopy-pure-run-error", map[string]any{"worker": wi}, "value-copy phase: pure in-memory run failed: %v", err)
			return
		}
		want := strings.Split(strings.TrimRight(outC, "\n"), "\n")
		// ---- chains for modes A and B with the realm deployed at genesis
		newChain := func() (*chainsim.Chain, error) {
			ch, err := chainsim.New(chainsim.Options{})
			if err != nil {
				return nil, err
			}
			st := ch.DefaultGenState(hist.Users...)
			st.Txs = append(st.Txs, chainsim.GenesisAddPkgTxGas(ch.Acc("alice"), nestPath, map[string]string{"nest.gno": nestSource("nest", true)}, 2_000_000_000))
			if r := ch.InitChain(st); r.Error != nil {
				return nil, fmt.Errorf("initchain: %s", r.Error.Error())
			}
			for _, tr := range ch.InitResp.TxResponses {
				if tr.Error != nil {
					return nil, fmt.Errorf("genesis deploy of the nest realm failed: %s", tr.Error.Error())
				}
			}
			ch.RunBlock()
			return ch, nil
		}
		chA, err := newChain()
		if err != nil {
			c.Violation("valcopy-chain-error", nil, "value-copy phase: %v", err)
			return
		}
		defer func() { chA.Close() }()
		chB, err := newChain()
		if err != nil {
			c.Violation("valcopy-chain-error", nil, "value-copy phase: %v", err)
			return
		}
		defer func() { chB.Close() }()
		ua, ub := chA.Acc("alice"), chB.Acc("alice")
		wi0 := 0
		for ri, r := range rounds {
			var s vshape
			var k vkind
			if r.shape < 0 {
				s = vshape{name: "map", typ: "map[int]int and map[string]*Flat"}
				k = vkind{name: fmt.Sprintf("delete-entry-at-insertion-position-%d", min(r.kind, 3)), body: "delete(m, k)"}
			} else {
				s, k = vshapes[r.shape], vkinds[r.kind]
			}
			combo := s.name + ":" + k.name
			c.Case(fmt.Sprintf("valcopy/%s/%v", combo, r.ops), true)
			c.Distinct("valcopy-combo:" + combo)
			w := map[string]any{"shape": s.name, "type": s.typ, "copy": k.body, "ops": fmt.Sprint(r.ops), "realm_source": "generated by checks/c03/valcopy.go nestSource"}
			exp := want[wi0 : wi0+len(r.ops)]
			wi0 += len(r.ops)
			// mode A: one tx per op, restarts at random boundaries
			okA := true
			for oi, o := range r.ops {
				if rng.IntN(7) == 0 {
					if err := chA.Restart(); err != nil {
						c.Violation("valcopy-chain-error", w, "restart: %v", err)
						return
					}
					c.Count("restarts", 1)
				}
				args := make([]string, len(o.args))
				for i, a := range o.args {
					args[i] = fmt.Sprint(a)
				}
				tr := chA.OneTx([]std.Msg{chainsim.MsgCall(ua, nestPath, o.fn, args...)}, chainsim.Fee(200_000_000, 1_000_000), ua)
				if !tr.OK {
					c.Violation("valcopy-tx-failed:"+combo, w, "round %d (%s) mode per-tx op %s failed: %s", ri, combo, o.fn, tr.ErrString)
					okA = false
					break
				}
				got := normCall(string(tr.Res.Data))
				if got != exp[oi] {
					c.Violation("value-copy-not-independent:per-tx:"+combo, w, "round %d, %s of a %s (%s) with every step in its own transaction: after %s the realm reads\n  %s\nthe pure in-memory execution of the same steps reads\n  %s", ri, k.name, s.name, s.typ, o.callPure(), got, exp[oi])
					okA = false
					break
				}
			}
			if r.shape < 0 {
				c.Count("valcopy_map_rounds", 1)
			}
			if okA {
				c.Count("valcopy_rounds_agreeing:per-tx", 1)
			} else {
				// re-initialise so that the next round of this shape starts clean (Init does)
				c.Count("valcopy_rounds_diverging:per-tx", 1)
			}
			// mode B: the round in one MsgRun
			var sb strings.Builder
			sb.WriteString("package main\n\nimport \"" + nestPath + "\"\n\nfunc main(cur realm) {\n")
			for _, o := range r.ops {
				a := joinInts(o.args)
				if a != "" {
					a = ", " + a
				}
				fmt.Fprintf(&sb, "\tprintln(nest.%s(cross(cur)%s))\n", o.fn, a)
			}
			sb.WriteString("}\n")
			tr := chB.OneTx([]std.Msg{chainsim.MsgRun(ub, sb.String())}, chainsim.Fee(1_000_000_000, 1_000_000), ub)
			if !tr.OK {
				c.Violation("valcopy-tx-failed:"+combo, w, "round %d (%s) mode single-msgrun failed: %s", ri, combo, tr.ErrString)
				continue
			}
			gotB := strings.Split(strings.TrimRight(string(tr.Res.Data), "\n"), "\n")
			okB := len(gotB) == len(exp)
			for i := 0; okB && i < len(exp); i++ {
				if gotB[i] != exp[i] {
					okB = false
					c.Violation("value-copy-not-independent:single-msgrun:"+combo, w, "round %d, %s of a %s (%s) with the round in one MsgRun: after %s the realm reads\n  %s\nthe pure in-memory execution reads\n  %s", ri, k.name, s.name, s.typ, r.ops[i].callPure(), gotB[i], exp[i])
				}
			}
			if okB {
				c.Count("valcopy_rounds_agreeing:single-msgrun", 1)
			}
		}
	})
	c.RequireCounter("valcopy_rounds_agreeing:single-msgrun", int64(len(jobs)*9/10))
	c.RequireCounter("valcopy_map_rounds", 12)
	shallow := 0
	for _, j := range jobs {
		if !vshapes[j.si].deep {
			shallow++
		}
	}
	c.RequireCounter("valcopy_rounds_agreeing:per-tx", int64(shallow*9/10))
}
