// Package c46: key encryption, mnemonics and HD derivation are faithful.
//
// Code under test: tm2/pkg/crypto/keys/armor, keys (dbKeybase), bip39, hd,
// bcrypt, xsalsa20symmetric.
//
// Oracles
//   - armor / keybase: decrypt(encrypt(key, P), P) == key; every other
//     passphrase and every modification of the ciphertext bytes, of the salt or
//     of the armor text must make decryption fail; a format twin re-derives the
//     symmetric key (bcrypt → SHA-256) and opens the secretbox itself;
//   - bip39: independent bit packing (ref.go) for entropy → word indices and
//     back, validity of a mutated mnemonic decided by the reference checksum;
//     PBKDF2-HMAC-SHA512 written out; the four TREZOR vectors;
//   - hd: independent BIP-32 CKDpriv (HMAC-SHA512 + math/big secp256k1) and the
//     published BIP-32 test vectors 1–3 (xprv strings decoded with the
//     harness's own base58check).
//
// bcrypt runs at cost 2^12 (~0.2 s per derivation), so the armor/keybase case
// counts are small in the quick tier; see the "bcrypt_*" coverage keys.
package c46

import (
	"bytes"
	"crypto/sha256"
	"encoding/base64"
	"encoding/hex"
	"fmt"
	"math/big"
	"math/rand/v2"
	"os"
	"path/filepath"
	"regexp"
	"strconv"
	"strings"
	"sync"

	"golang.org/x/crypto/nacl/secretbox"

	"github.com/gnolang/gno/tm2/pkg/crypto"
	tmarmor "github.com/gnolang/gno/tm2/pkg/crypto/armor"
	"github.com/gnolang/gno/tm2/pkg/crypto/bcrypt"
	"github.com/gnolang/gno/tm2/pkg/crypto/bip39"
	"github.com/gnolang/gno/tm2/pkg/crypto/ed25519"
	"github.com/gnolang/gno/tm2/pkg/crypto/hd"
	"github.com/gnolang/gno/tm2/pkg/crypto/keys"
	"github.com/gnolang/gno/tm2/pkg/crypto/keys/armor"
	"github.com/gnolang/gno/tm2/pkg/crypto/secp256k1"
	"github.com/gnolang/gno/tm2/pkg/db/memdb"

	"verifharness/internal/vf"
)

func init() {
	vf.Register(&vf.Check{
		ID:    "C46",
		Level: "exploration",
		Rule: "cases = (armor|keybase, key type, key, passphrase, action) with action ∈ {right passphrase, wrong-passphrase variant, ciphertext byte mutation (sampled positions quick / every byte thorough), " +
			"salt mutation, armor-text character mutation, stored-record mutation, rotate, delete}; (entropy length ∈ {16,20,24,28,32}, entropy incl. leading-zero/all-0/all-ff, word substitution incl. all 2048 words at the last position); " +
			"(seed, BIP-32 path of depth 1..8 over boundary indices 0,1,2^31-1,2^31,2^31+1,2^32-2,2^32-1 and random indices), BIP-44 parameter sets, published vectors, non-canonical path elements; " +
			"non-trivial = the case must be rejected (wrong passphrase, any mutation, invalid mnemonic), or is a substituted mnemonic that stays valid, or derives through a hardened or boundary index, " +
			"or decrypts a stored/armored key; trivial = round trips of random entropy and paths with only small non-hardened indices; distinct by the full case text",
		Run: run,
	})
}

var (
	violMu   sync.Mutex
	violSeen = map[string]int{}
)

// viol: per key only the first 3 witnesses go to vf (which stops printing after
// 25 violations); the full per-key count is in counter "violation_key:<key>".
func viol(c *vf.Ctx, key string, witness any, format string, args ...any) {
	c.Count("violation_key:"+key, 1)
	violMu.Lock()
	violSeen[key]++
	n := violSeen[key]
	violMu.Unlock()
	if n > 3 {
		return
	}
	c.Violation(key, witness, format, args...)
}

func randBytes(r *rand.Rand, n int) []byte {
	b := make([]byte, n)
	for i := range b {
		b[i] = byte(r.UintN(256))
	}
	return b
}

func clone(b []byte) []byte { return append([]byte{}, b...) }

func shortID(s string) string {
	h := sha256.Sum256([]byte(s))
	return vf.Hex(h[:16])
}

// ---------------------------------------------------------------- passphrases

const passAlphabet = "abcdefghijklmnopqrstuvwxyzABCDEFGHIJKLMNOPQRSTUVWXYZ0123456789 !#$%&()*+,-./:;<=>?@[]^_{|}~éß漢"

// randPass: 1..60 bytes, no NUL, shorter than bcrypt's 72-byte key window, so
// that distinct passphrases are distinct bcrypt keys.
func randPass(r *rand.Rand) string {
	rs := []rune(passAlphabet)
	n := 1 + r.IntN(20)
	if r.IntN(4) == 0 {
		n = 1 + r.IntN(3)
	}
	var sb strings.Builder
	for i := 0; i < n && sb.Len() < 56; i++ {
		sb.WriteRune(rs[r.IntN(len(rs))])
	}
	return sb.String()
}

type wrongPass struct{ kind, pass string }

func wrongVariants(r *rand.Rand, p string, n int) []wrongPass {
	rs := []rune(p)
	all := []wrongPass{
		{"append-char", p + "x"},
		{"prepend-space", " " + p},
		{"empty", ""},
		{"unrelated", "correct horse battery staple"},
		{"doubled", p + p},
	}
	if len(rs) > 1 {
		all = append(all, wrongPass{"drop-last", string(rs[:len(rs)-1])}, wrongPass{"drop-first", string(rs[1:])})
	}
	i := r.IntN(len(rs))
	m := append([]rune{}, rs...)
	if m[i] == 'q' {
		m[i] = 'Q'
	} else {
		m[i] = 'q'
	}
	all = append(all, wrongPass{"one-char-changed", string(m)})
	if sw := strings.ToUpper(p); sw != p {
		all = append(all, wrongPass{"upper-cased", sw})
	}
	r.Shuffle(len(all), func(a, b int) { all[a], all[b] = all[b], all[a] })
	var out []wrongPass
	for _, w := range all {
		if w.pass != p && len(out) < n {
			out = append(out, w)
		}
	}
	return out
}

func newPriv(r *rand.Rand, typ string) crypto.PrivKey {
	if typ == "ed25519" {
		return ed25519.GenPrivKeyFromSecret(randBytes(r, 24))
	}
	return secp256k1.GenPrivKeySecp256k1(randBytes(r, 24))
}

// ---------------------------------------------------------------- armor

const privBlock = "TENDERMINT PRIVATE KEY"

type armorT struct {
	c    *vf.Ctx
	id   string
	typ  string
	priv crypto.PrivKey
	pass string
	arm  string
}

func (t *armorT) w(extra map[string]any) map[string]any {
	m := map[string]any{"part": "armor", "key_type": t.typ, "privkey_amino": vf.Hex(t.priv.Bytes()), "passphrase": t.pass, "armor": t.arm}
	for k, v := range extra {
		m[k] = v
	}
	return m
}

// decrypt runs UnarmorDecryptPrivKey under a panic guard and counts bcrypt work.
func decrypt(c *vf.Ctx, arm, pass string) (k crypto.PrivKey, err error, pv any) {
	pv = vf.Try(func() { k, err = armor.UnarmorDecryptPrivKey(arm, pass) })
	return
}

func (t *armorT) mustFail(kind string, pos int, arm, pass string, extra map[string]any) {
	c := t.c
	// the case text is (base case, action, position, tried passphrase, variant) — not the armor text, which
	// contains CSPRNG output of the code under test
	c.Case(fmt.Sprintf("%s/%s/%d/%q/%v", t.id, kind, pos, pass, extra["variant"]), true)
	c.Count("armor_"+kind, 1)
	k, err, pv := decrypt(c, arm, pass)
	ex := map[string]any{"action": kind, "pos": pos, "tried_passphrase": pass, "tried_armor": arm}
	for a, b := range extra {
		ex[a] = b
	}
	if pv != nil {
		ex["panic"] = fmt.Sprint(pv)
		viol(c, "panic:armor:"+kind, t.w(ex), "UnarmorDecryptPrivKey panicked (%s @%d): %v", kind, pos, pv)
		return
	}
	if err == nil {
		same := k != nil && k.Equals(t.priv)
		ex["returned_original_key"] = same
		viol(c, "armor-accepts:"+kind, t.w(ex), "decryption succeeded although it must fail (%s @%d); returned the original key: %v", kind, pos, same)
		return
	}
	c.Count("armor_rejected", 1)
}

var b64alpha = "ABCDEFGHIJKLMNOPQRSTUVWXYZabcdefghijklmnopqrstuvwxyz0123456789+/"

// armorBodyRange locates the base64 body and CRC line of an armor text and
// decodes the body independently (encoding/base64).
func armorBody(arm string) (bodyStart, bodyEnd, crcStart int, data []byte, ok bool) {
	i := strings.Index(arm, "\n\n")
	if i < 0 {
		return
	}
	bodyStart = i + 2
	j := strings.Index(arm[bodyStart:], "\n=")
	if j < 0 {
		return
	}
	bodyEnd = bodyStart + j
	crcStart = bodyEnd + 2
	d, err := base64.StdEncoding.DecodeString(strings.ReplaceAll(arm[bodyStart:bodyEnd], "\n", ""))
	if err != nil {
		return
	}
	return bodyStart, bodyEnd, crcStart, d, true
}

func armorCase(c *vf.Ctx, i int, r *rand.Rand, nMut int, allBytes bool) {
	typ := []string{"secp256k1", "ed25519"}[i%2]
	t := &armorT{c: c, typ: typ, priv: newPriv(r, typ), pass: randPass(r)}
	t.id = shortID(fmt.Sprintf("armor/%s/%x/%s", typ, t.priv.Bytes(), t.pass))
	if pv := vf.Try(func() { t.arm = armor.EncryptArmorPrivKey(t.priv, t.pass) }); pv != nil {
		viol(c, "panic:armor:encrypt", t.w(map[string]any{"panic": fmt.Sprint(pv)}), "EncryptArmorPrivKey panicked: %v", pv)
		return
	}
	c.Count("bcrypt_derivations_encrypt", 1)
	if i < 2 {
		c.Sample(t.w(map[string]any{"note": "salt and nonce come from the OS CSPRNG, the armor text is not seed-reproducible"}))
	}
	// right passphrase
	k, err, pv := decrypt(c, t.arm, t.pass)
	c.Case(t.id+"/right", true)
	c.Count("armor_right_passphrase", 1)
	if pv != nil || err != nil || k == nil || !k.Equals(t.priv) || !bytes.Equal(k.Bytes(), t.priv.Bytes()) {
		viol(c, "armor-roundtrip", t.w(map[string]any{"err": fmt.Sprint(err), "panic": fmt.Sprint(pv)}), "decrypting with the right passphrase failed or returned another key: err=%v panic=%v", err, pv)
		return
	}
	// decode with the library's armor codec (tool) and cross-check with the independent body decoder
	bt, hdr, data, err := tmarmor.DecodeArmor(t.arm)
	bs, be, crc, data2, ok := armorBody(t.arm)
	if err != nil || bt != privBlock || hdr["kdf"] != "bcrypt" || !ok || !bytes.Equal(data, data2) {
		viol(c, "armor-format", t.w(nil), "armor text has unexpected structure: type=%q header=%v err=%v", bt, hdr, err)
		return
	}
	salt, err := hex.DecodeString(hdr["salt"])
	if err != nil || len(salt) != 16 {
		viol(c, "armor-format:salt", t.w(nil), "salt header is not 16 hex-encoded bytes")
		return
	}
	// format twin: key = SHA-256(bcrypt(salt, passphrase, cost)); data = nonce ‖ secretbox(privkey amino bytes)
	if hash, err := bcrypt.GenerateFromPassword(salt, []byte(t.pass), bcryptCost); err == nil && len(data) > 40 {
		key := sha256.Sum256(hash)
		var nonce [24]byte
		copy(nonce[:], data[:24])
		pt, ok := secretbox.Open(nil, data[24:], &nonce, &key)
		c.Case(t.id+"/twin", true)
		c.Count("armor_format_twin", 1)
		if !ok || !bytes.Equal(pt, t.priv.Bytes()) {
			viol(c, "armor-twin-mismatch", t.w(nil), "ciphertext is not secretbox(privkey bytes) under SHA-256(bcrypt(salt, passphrase, cost %d))", bcryptCost)
		}
	}
	// wrong passphrases
	for _, wp := range wrongVariants(r, t.pass, 4) {
		t.mustFail("wrong-passphrase:"+wp.kind, 0, t.arm, wp.pass, nil)
		c.Count("wrong_passphrase_tried", 1)
	}
	// ciphertext mutations (re-armored, so the CRC matches and the AEAD is what must reject)
	rearm := func(d []byte, salt string) string {
		return tmarmor.EncodeArmor(privBlock, map[string]string{"kdf": "bcrypt", "salt": salt}, d)
	}
	var positions []int
	if allBytes {
		for p := range data {
			positions = append(positions, p)
		}
	} else {
		// nonce, tag, body regions each get samples; first and last byte always
		positions = []int{0, len(data) - 1, r.IntN(24), 24 + r.IntN(16), 40 + r.IntN(len(data)-40)}
		for len(positions) < nMut {
			positions = append(positions, r.IntN(len(data)))
		}
	}
	for _, p := range positions {
		d := clone(data)
		mask := byte(1) << uint(r.IntN(8))
		if r.IntN(2) == 0 {
			mask = byte(1 + r.IntN(255))
		}
		d[p] ^= mask
		region := "body"
		if p < 24 {
			region = "nonce"
		} else if p < 40 {
			region = "tag"
		}
		t.mustFail("ciphertext-byte:"+region, p, rearm(d, hdr["salt"]), t.pass, map[string]any{"variant": mask})
		c.Count("ciphertext_mutations", 1)
	}
	t.mustFail("ciphertext-truncated", len(data)-1, rearm(data[:len(data)-1], hdr["salt"]), t.pass, nil)
	t.mustFail("ciphertext-extended", len(data), rearm(append(clone(data), 0), hdr["salt"]), t.pass, nil)
	// salt mutations
	nsalt := 2
	if allBytes {
		nsalt = 16
	}
	for j := 0; j < nsalt; j++ {
		p := j
		if !allBytes {
			p = r.IntN(16)
		}
		s2 := clone(salt)
		sm := byte(1) << uint(r.IntN(8))
		s2[p] ^= sm
		t.mustFail("salt-byte", p, rearm(data, fmt.Sprintf("%X", s2)), t.pass, map[string]any{"variant": sm})
	}
	// armor text mutations: one base64 character of the body / CRC replaced. The armor text depends on the
	// CSPRNG salt/nonce, so positions are picked by index into the list of base64 characters (whose length is
	// fixed by the key type) and a replacement equal to the original is bumped, keeping the case count seed-determined.
	var bodyPos []int
	for p := bs; p < be; p++ {
		if t.arm[p] != '\n' && t.arm[p] != '=' {
			bodyPos = append(bodyPos, p)
		}
	}
	other := func(p int) (byte, int) {
		x := r.IntN(64)
		ch := b64alpha[x]
		if ch == t.arm[p] {
			ch = b64alpha[(x+1)%64]
		}
		return ch, x
	}
	ntext := 24
	if allBytes {
		ntext = len(bodyPos)
	}
	for j := 0; j < ntext; j++ {
		p := bodyPos[j%len(bodyPos)]
		if !allBytes {
			p = bodyPos[r.IntN(len(bodyPos))]
		}
		ch, x := other(p)
		m := t.arm[:p] + string(ch) + t.arm[p+1:]
		_, _, _, d3, ok3 := armorBody(m)
		if ok3 && bytes.Equal(d3, data) {
			// only unused trailing bits of the last base64 quantum changed: the ciphertext BYTES are unmodified.
			// Whether such a text must be accepted or rejected is not asserted; only "no panic, and if it
			// succeeds it returns the original key".
			k, err, pv := decrypt(c, m, t.pass)
			c.Case(fmt.Sprintf("%s/armor-text-char/%d/%q/%v", t.id, p, t.pass, x), true)
			c.Count("armor_text_mutation_same_bytes_unasserted", 1)
			if pv != nil {
				viol(c, "panic:armor:text-same-bytes", t.w(map[string]any{"tried_armor": m, "panic": fmt.Sprint(pv)}), "UnarmorDecryptPrivKey panicked: %v", pv)
			} else if err == nil && !k.Equals(t.priv) {
				viol(c, "armor-returns-other-key", t.w(map[string]any{"tried_armor": m}), "decryption succeeded with a different key")
			}
			continue
		}
		t.mustFail("armor-text-char", p, m, t.pass, map[string]any{"variant": x})
	}
	for j := 0; j < 4 && crc+j < len(t.arm); j++ {
		p := crc + j
		ch, x := other(p)
		t.mustFail("armor-crc-char", p, t.arm[:p]+string(ch)+t.arm[p+1:], t.pass, map[string]any{"variant": x})
	}
	t.mustFail("header-kdf-changed", 0, strings.Replace(t.arm, "kdf: bcrypt", "kdf: bcrypT", 1), t.pass, nil)
}

// unencrypted armor (empty passphrase is documented as "store unencrypted")
func plainArmorCase(c *vf.Ctx, i int, r *rand.Rand) {
	typ := []string{"secp256k1", "ed25519"}[i%2]
	t := &armorT{c: c, typ: typ, priv: newPriv(r, typ), pass: ""}
	t.id = shortID(fmt.Sprintf("plain/%s/%x", typ, t.priv.Bytes()))
	t.arm = armor.EncryptArmorPrivKey(t.priv, "")
	k, err, pv := decrypt(c, t.arm, "")
	c.Case(t.id+"/right", true)
	c.Count("plain_armor_roundtrip", 1)
	if pv != nil || err != nil || !k.Equals(t.priv) {
		viol(c, "armor-roundtrip:unencrypted", t.w(nil), "unencrypted armor does not round trip: %v %v", err, pv)
		return
	}
	k2, err2 := armor.UnarmorPrivateKey(t.arm)
	if err2 != nil || !k2.Equals(t.priv) {
		viol(c, "armor-roundtrip:unencrypted", t.w(nil), "UnarmorPrivateKey failed: %v", err2)
	}
	t.mustFail("wrong-passphrase:nonempty-on-unencrypted", 0, t.arm, randPass(r), nil)
}

// bcrypt key-window equivalences: passphrases that differ only after byte 72,
// and P vs P‖NUL‖P, are "other passphrases" and must not decrypt.
func bcryptWindowCase(c *vf.Ctx, i int, r *rand.Rand) {
	t := &armorT{c: c, typ: "secp256k1", priv: newPriv(r, "secp256k1")}
	if i%2 == 0 {
		const ascii = "abcdefghijklmnopqrstuvwxyzABCDEFGHIJKLMNOPQRSTUVWXYZ0123456789 !$%&()*+,-./"
		bb := make([]byte, 72)
		for j := range bb {
			bb[j] = ascii[r.IntN(len(ascii))]
		}
		base := string(bb)
		t.pass = base + "tail-A"
		t.id = shortID("win72/" + t.pass)
		t.arm = armor.EncryptArmorPrivKey(t.priv, t.pass)
		c.Count("bcrypt_derivations_encrypt", 1)
		t.mustFail("wrong-passphrase:differs-after-72-bytes", 72, t.arm, base+"tail-B", nil)
		t.mustFail("wrong-passphrase:long-one-char-changed-inside-72", 10, t.arm, base[:10]+"#"+base[11:]+"tail-A", nil) // '#' is not in the alphabet above
	} else {
		t.pass = randPass(r)
		t.id = shortID("nul/" + t.pass)
		t.arm = armor.EncryptArmorPrivKey(t.priv, t.pass)
		c.Count("bcrypt_derivations_encrypt", 1)
		t.mustFail("wrong-passphrase:nul-repetition", 0, t.arm, t.pass+"\x00"+t.pass, nil)
		t.mustFail("wrong-passphrase:nul-appended-other", 0, t.arm, t.pass+"\x00x", nil)
	}
}

// ---------------------------------------------------------------- keybase

func keybaseCase(c *vf.Ctx, i int, r *rand.Rand, wl []string) {
	db := memdb.NewMemDB()
	kb := keys.NewDBKeybase(db)
	name := fmt.Sprintf("key%d", i)
	pass := randPass(r)
	bipPass := ""
	if r.IntN(2) == 0 {
		bipPass = randPass(r)
	}
	entropy := randBytes(r, []int{16, 20, 24, 28, 32}[r.IntN(5)])
	var words []string
	for _, ix := range refMnemonicIndices(entropy) {
		words = append(words, wl[ix])
	}
	mnemonic := strings.Join(words, " ")
	account, index := uint32(r.IntN(4)), uint32(r.IntN(1000))
	if r.IntN(4) == 0 {
		account, index = uint32(1<<31-1), uint32(1<<31-1)
	}
	id := shortID(fmt.Sprintf("kb/%s/%q/%q/%d/%d", mnemonic, bipPass, pass, account, index))
	w := func(extra map[string]any) map[string]any {
		m := map[string]any{"part": "keybase", "mnemonic": mnemonic, "bip39_passphrase": bipPass, "encrypt_passphrase": pass, "account": account, "index": index}
		for k, v := range extra {
			m[k] = v
		}
		return m
	}
	if i == 0 {
		c.Sample(w(nil))
	}
	// reference: PBKDF2 seed → BIP-32 m/44'/118'/account'/0/index
	seed := pbkdf2SHA512([]byte(mnemonic), []byte("mnemonic"+bipPass), 2048, 64)
	want, err := refDerive(refMaster(seed), []uint32{44 | 1<<31, 118 | 1<<31, account | 1<<31, 0, index})
	if err != nil {
		c.Count("reference_degenerate_skipped", 1)
		return
	}
	var info keys.Info
	if pv := vf.Try(func() { info, err = kb.CreateAccount(name, mnemonic, bipPass, pass, account, index) }); pv != nil || err != nil {
		viol(c, "keybase-create-failed", w(map[string]any{"err": fmt.Sprint(err), "panic": fmt.Sprint(pv)}), "CreateAccount failed on a valid mnemonic: %v %v", err, pv)
		return
	}
	c.Count("bcrypt_derivations_encrypt", 1)
	wantPub := serP(want.k)
	gotPub, _ := info.GetPubKey().(secp256k1.PubKeySecp256k1)
	c.Case(id+"/create", true)
	c.Count("keybase_created", 1)
	if !bytes.Equal(gotPub[:], wantPub) {
		viol(c, "keybase-derivation-mismatch", w(map[string]any{"got_pub": vf.Hex(gotPub[:]), "want_pub": vf.Hex(wantPub)}), "CreateAccount public key differs from the BIP-39/32/44 reference")
		return
	}
	export := func(pass string) (k crypto.PrivKey, err error, pv any) {
		pv = vf.Try(func() { k, err = kb.ExportPrivKey(name, pass) })
		return
	}
	k, err, pv := export(pass)
	c.Case(id+"/export-right", true)
	c.Count("keybase_export_right", 1)
	if pv != nil || err != nil {
		viol(c, "keybase-roundtrip", w(map[string]any{"err": fmt.Sprint(err), "panic": fmt.Sprint(pv)}), "ExportPrivKey with the right passphrase failed: %v %v", err, pv)
		return
	}
	if sk, ok := k.(secp256k1.PrivKeySecp256k1); !ok || !bytes.Equal(sk[:], want.k) {
		viol(c, "keybase-derivation-mismatch", w(map[string]any{"want_priv": vf.Hex(want.k)}), "exported private key differs from the BIP-32 reference key")
		return
	}
	mustFail := func(kind string, f func() error) {
		var err error
		pv := vf.Try(func() { err = f() })
		c.Case(id+"/"+kind, true)
		c.Count("keybase_"+kind, 1)
		if pv != nil {
			viol(c, "panic:keybase:"+kind, w(map[string]any{"action": kind, "panic": fmt.Sprint(pv)}), "keybase operation panicked (%s): %v", kind, pv)
		} else if err == nil {
			viol(c, "keybase-accepts:"+kind, w(map[string]any{"action": kind}), "keybase operation succeeded although it must fail (%s)", kind)
		} else {
			c.Count("keybase_rejected", 1)
		}
	}
	msg := randBytes(r, 32)
	for _, wp := range wrongVariants(r, pass, 2) {
		wp := wp
		mustFail("export-wrong-passphrase:"+wp.kind, func() error { _, err := kb.ExportPrivKey(name, wp.pass); return err })
		c.Count("wrong_passphrase_tried", 1)
	}
	wp := wrongVariants(r, pass, 1)[0].pass
	mustFail("sign-wrong-passphrase", func() error { _, _, err := kb.Sign(name, wp, msg); return err })
	mustFail("delete-wrong-passphrase", func() error { return kb.Delete(name, wp, false) })
	if ok, _ := kb.HasByName(name); !ok {
		viol(c, "keybase-deleted-with-wrong-passphrase", w(nil), "key vanished after a Delete with the wrong passphrase")
		return
	}
	// sign with the right passphrase: signature must verify under the reference public key
	sig, pub, err := kb.Sign(name, pass, msg)
	c.Case(id+"/sign-right", true)
	if err != nil || !bytes.Equal(pubKeyBytes(pub), wantPub) || !pub.VerifyBytes(msg, sig) {
		viol(c, "keybase-sign", w(map[string]any{"err": fmt.Sprint(err)}), "Sign with the right passphrase failed or used another key: %v", err)
	}
	// rotate: old passphrase stops working, new one works
	newPass := pass + "-rotated"
	if err := kb.Rotate(name, pass, func() (string, error) { return newPass, nil }); err != nil {
		viol(c, "keybase-rotate-failed", w(map[string]any{"err": fmt.Sprint(err)}), "Rotate with the right old passphrase failed: %v", err)
		return
	}
	c.Count("keybase_rotated", 1)
	mustFail("export-old-passphrase-after-rotate", func() error { _, err := kb.ExportPrivKey(name, pass); return err })
	mustFail("rotate-wrong-old-passphrase", func() error { return kb.Rotate(name, pass, func() (string, error) { return "x", nil }) })
	k, err, pv = export(newPass)
	c.Case(id+"/export-new", true)
	if pv != nil || err != nil || !bytes.Equal(k.Bytes(), secp256k1.PrivKeySecp256k1(want.k).Bytes()) {
		viol(c, "keybase-roundtrip:after-rotate", w(map[string]any{"err": fmt.Sprint(err), "panic": fmt.Sprint(pv)}), "export with the new passphrase after Rotate failed: %v %v", err, pv)
		return
	}
	// modify the stored ciphertext inside the keybase record
	ikey := []byte(name + ".info")
	rec, _ := db.Get(ikey)
	b := bytes.Index(rec, []byte("-----BEGIN "+privBlock))
	endMark := []byte("-----END " + privBlock + "-----")
	e := bytes.Index(rec, endMark)
	if b < 0 || e < 0 {
		viol(c, "keybase-record-format", w(nil), "stored record does not contain the armored private key")
		return
	}
	e += len(endMark)
	if e < len(rec) && rec[e] == '\n' {
		e++
	}
	stored := string(rec[b:e])
	_, hdr, data, err := tmarmor.DecodeArmor(stored)
	if err != nil {
		viol(c, "keybase-record-format", w(nil), "stored armor does not decode: %v", err)
		return
	}
	for j := 0; j < 3; j++ {
		d := clone(data)
		p := []int{r.IntN(24), 24 + r.IntN(16), 40 + r.IntN(len(d)-40)}[j]
		d[p] ^= byte(1) << uint(r.IntN(8))
		var m string
		for tries := 0; tries < 50; tries++ { // header order is a map iteration; retry until the text has the same length
			m = tmarmor.EncodeArmor(privBlock, hdr, d)
			if len(m) == len(stored) {
				break
			}
		}
		if len(m) != len(stored) {
			c.Count("keybase_record_mutation_skipped", 1)
			continue
		}
		rec2 := append(append(clone(rec[:b]), m...), rec[e:]...)
		db.SetSync(ikey, rec2)
		mustFail(fmt.Sprintf("export-after-stored-ciphertext-mutation:%s", []string{"nonce", "tag", "body"}[j]), func() error { _, err := kb.ExportPrivKey(name, newPass); return err })
		c.Count("ciphertext_mutations", 1)
		if j == 2 {
			mustFail("sign-after-stored-ciphertext-mutation", func() error { _, _, err := kb.Sign(name, newPass, msg); return err })
			c.Count("ciphertext_mutations", 1)
		}
	}
	db.SetSync(ikey, rec)
	// import an ed25519 key, export it again
	ek := newPriv(r, "ed25519")
	if err := kb.ImportPrivKey(name+"-ed", ek, pass); err != nil {
		viol(c, "keybase-import-failed", w(nil), "ImportPrivKey failed: %v", err)
		return
	}
	k2, err := kb.ExportPrivKey(name+"-ed", pass)
	c.Case(id+"/import-export", true)
	if err != nil || !k2.Equals(ek) {
		viol(c, "keybase-roundtrip:imported", w(nil), "imported ed25519 key does not export unchanged: %v", err)
	}
	mustFail("export-imported-wrong-passphrase", func() error { _, err := kb.ExportPrivKey(name+"-ed", newPass); return err })
	// delete with the right passphrase works
	if err := kb.Delete(name, newPass, false); err != nil {
		viol(c, "keybase-delete-failed", w(nil), "Delete with the right passphrase failed: %v", err)
	}
}

func pubKeyBytes(p crypto.PubKey) []byte {
	if v, ok := p.(secp256k1.PubKeySecp256k1); ok {
		return v[:]
	}
	return nil
}

// ---------------------------------------------------------------- bip39

var trezor = []struct{ entropy, mnemonic, seed string }{
	{"00000000000000000000000000000000", "abandon abandon abandon abandon abandon abandon abandon abandon abandon abandon abandon about",
		"c55257c360c07c72029aebc1b53c05ed0362ada38ead3e3e9efa3708e53495531f09a6987599d18264c1e1c92f2cf141630c7a3c4ab7c81b2f001698e7463b04"},
	{"7f7f7f7f7f7f7f7f7f7f7f7f7f7f7f7f", "legal winner thank year wave sausage worth useful legal winner thank yellow",
		"2e8905819b8723fe2c1d161860e5ee1830318dbf49a83bd451cfb8440c28bd6fa457fe1296106559a3c80937a1c1069be3a3a5bd381ee6260e8d9739fce1f607"},
	{"80808080808080808080808080808080", "letter advice cage absurd amount doctor acoustic avoid letter advice cage above",
		"d71de856f81a8acc65e6fc851a38d4d7ec216fd0796d0a6827a3ad6ed5511a30fa280f12eb2e47ed2ac03b5c462a0358d18d69fe4f985ec81778c1b370b652a8"},
	{"ffffffffffffffffffffffffffffffff", "zoo zoo zoo zoo zoo zoo zoo zoo zoo zoo zoo wrong",
		"ac27495480225222079d7be181583751e86f571027b0497b5b5d11218e0a8a13332572917f0f8e5a589620c6f15b11c61dee327651a14c34e18231052e48c069"},
}

func entropyFor(r *rand.Rand, n, variant int) []byte {
	e := randBytes(r, n)
	switch variant % 8 {
	case 0:
		e = make([]byte, n)
	case 1:
		e = bytes.Repeat([]byte{0xff}, n)
	case 2:
		copy(e, make([]byte, 1+r.IntN(4))) // leading zero bytes
	case 3:
		copy(e[n-1-r.IntN(3):], make([]byte, 4)) // trailing zero bytes
	case 4:
		e[0] = 0
		e[1] &= 0x0f
	}
	return e
}

func mnemonicCase(c *vf.Ctx, i int, r *rand.Rand, wl []string, rev map[string]int, fullLast bool, seedCheck bool) {
	n := []int{16, 20, 24, 28, 32}[i%5]
	variant := i / 5
	entropy := entropyFor(r, n, variant)
	e0 := clone(entropy)
	id := shortID(fmt.Sprintf("bip39/%x", entropy))
	w := func(extra map[string]any) map[string]any {
		m := map[string]any{"part": "bip39", "entropy": vf.Hex(e0)}
		for k, v := range extra {
			m[k] = v
		}
		return m
	}
	var mn string
	var err error
	if pv := vf.Try(func() { mn, err = bip39.NewMnemonic(entropy) }); pv != nil || err != nil {
		viol(c, "bip39-newmnemonic-failed", w(map[string]any{"err": fmt.Sprint(err), "panic": fmt.Sprint(pv)}), "NewMnemonic failed on %d-byte entropy: %v %v", n, err, pv)
		return
	}
	if !bytes.Equal(entropy, e0) {
		viol(c, "bip39-entropy-modified", w(nil), "NewMnemonic modified its argument")
	}
	idx := refMnemonicIndices(e0)
	want := make([]string, len(idx))
	for j, ix := range idx {
		want[j] = wl[ix]
	}
	c.Case(id+"/encode", variant%8 <= 4)
	c.Count(fmt.Sprintf("bip39_roundtrip_%dbit", n*8), 1)
	if mn != strings.Join(want, " ") {
		viol(c, "bip39-mnemonic-mismatch", w(map[string]any{"got": mn, "want": strings.Join(want, " ")}), "NewMnemonic differs from the reference bit packing")
		return
	}
	if i < 5 {
		c.Sample(w(map[string]any{"mnemonic": mn}))
	}
	var back []byte
	if pv := vf.Try(func() { back, err = bip39.MnemonicToByteArray(mn) }); pv != nil || err != nil {
		viol(c, "bip39-roundtrip", w(map[string]any{"mnemonic": mn, "err": fmt.Sprint(err), "panic": fmt.Sprint(pv)}), "MnemonicToByteArray rejects a mnemonic NewMnemonic produced: %v %v", err, pv)
		return
	}
	// documented return value: entropy with the checksum bits appended (one byte longer); the entropy is its top ENT bits
	cs := uint(n * 8 / 32)
	rec := new(big.Int).Rsh(new(big.Int).SetBytes(back), cs)
	if len(back) != n+1 || !bytes.Equal(back, packedWithChecksum(e0)) || rec.BitLen() > n*8 || !bytes.Equal(rec.FillBytes(make([]byte, n)), e0) {
		viol(c, "bip39-roundtrip", w(map[string]any{"mnemonic": mn, "got": vf.Hex(back), "want": vf.Hex(packedWithChecksum(e0))}), "mnemonic → bytes does not return the original entropy (with checksum)")
		return
	}
	c.Count("bip39_roundtrip_ok", 1)
	if !bip39.IsMnemonicValid(mn) {
		viol(c, "bip39-roundtrip:IsMnemonicValid", w(map[string]any{"mnemonic": mn}), "IsMnemonicValid false for a generated mnemonic")
	}
	if seedCheck {
		pw := randPass(r)
		seed, err := bip39.NewSeedWithErrorChecking(mn, pw)
		c.Case(id+"/seed", true)
		c.Count("bip39_seed_compared", 1)
		if err != nil || !bytes.Equal(seed, pbkdf2SHA512([]byte(mn), []byte("mnemonic"+pw), 2048, 64)) {
			viol(c, "bip39-seed-mismatch", w(map[string]any{"mnemonic": mn, "password": pw}), "NewSeedWithErrorChecking differs from PBKDF2-HMAC-SHA512(mnemonic, \"mnemonic\"+password, 2048): %v", err)
		}
	}
	// substitutions: validity decided by the reference checksum
	trySub := func(kind string, words []string) {
		m := strings.Join(words, " ")
		ix := make([]int, len(words))
		known := true
		for j, wd := range words {
			v, ok := rev[wd]
			if !ok {
				known = false
			}
			ix[j] = v
		}
		refEnt, valid := []byte(nil), false
		if known {
			refEnt, valid = refDecodeIndices(ix)
		}
		var got []byte
		var err error
		pv := vf.Try(func() { got, err = bip39.MnemonicToByteArray(m) })
		c.Case(id+"/"+kind+"/"+shortID(m), true)
		if pv != nil {
			viol(c, "panic:bip39:"+kind, w(map[string]any{"tried": m, "panic": fmt.Sprint(pv)}), "MnemonicToByteArray panicked: %v", pv)
			return
		}
		_, err2 := bip39.NewSeedWithErrorChecking(m, "")
		if (err == nil) != (err2 == nil) {
			viol(c, "bip39-inconsistent-validation", w(map[string]any{"tried": m}), "MnemonicToByteArray err=%v but NewSeedWithErrorChecking err=%v", err, err2)
		}
		if valid {
			c.Count("bip39_substituted_still_valid", 1)
			if err != nil || !bytes.Equal(got, packedWithChecksum(refEnt)) {
				viol(c, "bip39-rejects-valid", w(map[string]any{"tried": m, "err": fmt.Sprint(err)}), "mnemonic with a correct checksum rejected or decoded wrongly (%s)", kind)
			}
			return
		}
		c.Count("bip39_invalid_"+kind, 1)
		if err == nil {
			viol(c, "bip39-accepts-invalid:"+kind, w(map[string]any{"tried": m, "got": vf.Hex(got)}), "mnemonic that violates the checksum / format accepted (%s)", kind)
			return
		}
		c.Count("bip39_rejected", 1)
	}
	words := strings.Split(mn, " ")
	sub := func(pos int, wd string) []string {
		o := append([]string{}, words...)
		o[pos] = wd
		return o
	}
	last := len(words) - 1
	if fullLast {
		for _, wd := range wl {
			if wd != words[last] {
				trySub("checksum:last-word", sub(last, wd))
			}
		}
	} else {
		for j := 0; j < 40; j++ {
			if wd := wl[r.IntN(2048)]; wd != words[last] {
				trySub("checksum:last-word", sub(last, wd))
			}
		}
	}
	for pos := 0; pos < last; pos++ {
		for j := 0; j < 6; j++ {
			if wd := wl[r.IntN(2048)]; wd != words[pos] {
				trySub("checksum:word-replaced", sub(pos, wd))
			}
		}
		// neighbouring word in the list: a single low-bit change
		if nb := wl[rev[words[pos]]^1]; true {
			trySub("checksum:word-neighbour", sub(pos, nb))
		}
	}
	for pos := 0; pos+1 < len(words); pos += 3 {
		if words[pos] != words[pos+1] {
			o := append([]string{}, words...)
			o[pos], o[pos+1] = o[pos+1], o[pos]
			trySub("checksum:adjacent-swap", o)
		}
	}
	trySub("format:word-count-minus-1", words[:last])
	trySub("format:word-count-plus-1", append(append([]string{}, words...), words[0]))
	trySub("format:word-count-minus-3", words[:last-2])
	trySub("format:unknown-word", sub(r.IntN(len(words)), "abandonx"))
	trySub("format:upper-case-word", sub(0, strings.ToUpper(words[0])))
	trySub("format:empty", []string{""})
}

func bip39Fixed(c *vf.Ctx, wl []string) {
	for _, v := range trezor {
		ent, _ := hex.DecodeString(v.entropy)
		mn, err := bip39.NewMnemonic(ent)
		c.Case("bip39/trezor/"+v.entropy, true)
		c.Count("bip39_published_vectors", 1)
		if err != nil || mn != v.mnemonic {
			viol(c, "bip39-published-vector:mnemonic", map[string]any{"entropy": v.entropy, "got": mn, "want": v.mnemonic}, "NewMnemonic differs from the published vector")
		}
		seed, err := bip39.NewSeedWithErrorChecking(v.mnemonic, "TREZOR")
		if err != nil || hex.EncodeToString(seed) != v.seed {
			viol(c, "bip39-published-vector:seed", map[string]any{"mnemonic": v.mnemonic, "got": vf.Hex(seed), "want": v.seed}, "seed differs from the published vector: %v", err)
		}
		if hex.EncodeToString(pbkdf2SHA512([]byte(v.mnemonic), []byte("mnemonicTREZOR"), 2048, 64)) != v.seed {
			panic("reference PBKDF2 disagrees with the published vector")
		}
	}
	for _, n := range []int{0, 1, 4, 12, 15, 17, 31, 33, 36, 64} {
		var err error
		pv := vf.Try(func() { _, err = bip39.NewMnemonic(make([]byte, n)) })
		c.Case(fmt.Sprintf("bip39/badlen/%d", n), true)
		c.Count("bip39_bad_entropy_length", 1)
		if pv != nil || err == nil {
			viol(c, "bip39-accepts-bad-entropy-length", map[string]any{"entropy_len": n, "panic": fmt.Sprint(pv)}, "NewMnemonic accepted or panicked on %d-byte entropy (allowed: 16,20,24,28,32): %v", n, pv)
		}
	}
	// word list sanity: 2048 distinct, sorted words
	seen := map[string]bool{}
	sorted := true
	for j, wd := range wl {
		seen[wd] = true
		if j > 0 && wl[j-1] >= wd {
			sorted = false
		}
	}
	if len(wl) != 2048 || len(seen) != 2048 || !sorted {
		viol(c, "bip39-wordlist", map[string]any{"len": len(wl), "distinct": len(seen), "sorted": sorted}, "word list is not 2048 distinct sorted words")
	}
	h := sha256.Sum256([]byte(strings.Join(wl, "\n") + "\n"))
	c.Set("wordlist_sha256", vf.Hex(h[:]))
	c.Set("wordlist_is_bip39_english", vf.Hex(h[:]) == "2f5eed53a4727b4bf8880d8f3f199efc90e58503646d9ff8eff3a2ed3b24dbda")
}

// ---------------------------------------------------------------- hd

var bip32Vectors = []struct {
	seed string
	path []uint32
	xprv string
}{
	{"000102030405060708090a0b0c0d0e0f", nil, "xprv9s21ZrQH143K3QTDL4LXw2F7HEK3wJUD2nW2nRk4stbPy6cq3jPPqjiChkVvvNKmPGJxWUtg6LnF5kejMRNNU3TGtRBeJgk33yuGBxrMPHi"},
	{"000102030405060708090a0b0c0d0e0f", []uint32{H}, "xprv9uHRZZhk6KAJC1avXpDAp4MDc3sQKNxDiPvvkX8Br5ngLNv1TxvUxt4cV1rGL5hj6KCesnDYUhd7oWgT11eZG7XnxHrnYeSvkzY7d2bhkJ7"},
	{"000102030405060708090a0b0c0d0e0f", []uint32{H, 1}, "xprv9wTYmMFdV23N2TdNG573QoEsfRrWKQgWeibmLntzniatZvR9BmLnvSxqu53Kw1UmYPxLgboyZQaXwTCg8MSY3H2EU4pWcQDnRnrVA1xe8fs"},
	{"000102030405060708090a0b0c0d0e0f", []uint32{H, 1, H + 2}, "xprv9z4pot5VBttmtdRTWfWQmoH1taj2axGVzFqSb8C9xaxKymcFzXBDptWmT7FwuEzG3ryjH4ktypQSAewRiNMjANTtpgP4mLTj34bhnZX7UiM"},
	{"000102030405060708090a0b0c0d0e0f", []uint32{H, 1, H + 2, 2}, "xprvA2JDeKCSNNZky6uBCviVfJSKyQ1mDYahRjijr5idH2WwLsEd4Hsb2Tyh8RfQMuPh7f7RtyzTtdrbdqqsunu5Mm3wDvUAKRHSC34sJ7in334"},
	{"000102030405060708090a0b0c0d0e0f", []uint32{H, 1, H + 2, 2, 1000000000}, "xprvA41z7zogVVwxVSgdKUHDy1SKmdb533PjDz7J6N6mV6uS3ze1ai8FHa8kmHScGpWmj4WggLyQjgPie1rFSruoUihUZREPSL39UNdE3BBDu76"},
	{vec2seed, nil, "xprv9s21ZrQH143K31xYSDQpPDxsXRTUcvj2iNHm5NUtrGiGG5e2DtALGdso3pGz6ssrdK4PFmM8NSpSBHNqPqm55Qn3LqFtT2emdEXVYsCzC2U"},
	{vec2seed, []uint32{0}, "xprv9vHkqa6EV4sPZHYqZznhT2NPtPCjKuDKGY38FBWLvgaDx45zo9WQRUT3dKYnjwih2yJD9mkrocEZXo1ex8G81dwSM1fwqWpWkeS3v86pgKt"},
	{vec2seed, []uint32{0, H + 2147483647}, "xprv9wSp6B7kry3Vj9m1zSnLvN3xH8RdsPP1Mh7fAaR7aRLcQMKTR2vidYEeEg2mUCTAwCd6vnxVrcjfy2kRgVsFawNzmjuHc2YmYRmagcEPdU9"},
	{vec2seed, []uint32{0, H + 2147483647, 1}, "xprv9zFnWC6h2cLgpmSA46vutJzBcfJ8yaJGg8cX1e5StJh45BBciYTRXSd25UEPVuesF9yog62tGAQtHjXajPPdbRCHuWS6T8XA2ECKADdw4Ef"},
	{vec2seed, []uint32{0, H + 2147483647, 1, H + 2147483646}, "xprvA1RpRA33e1JQ7ifknakTFpgNXPmW2YvmhqLQYMmrj4xJXXWYpDPS3xz7iAxn8L39njGVyuoseXzU6rcxFLJ8HFsTjSyQbLYnMpCqE2VbFWc"},
	{vec2seed, []uint32{0, H + 2147483647, 1, H + 2147483646, 2}, "xprvA2nrNbFZABcdryreWet9Ea4LvTJcGsqrMzxHx98MMrotbir7yrKCEXw7nadnHM8Dq38EGfSh6dqA9QWTyefMLEcBYJUuekgW4BYPJcr9E7j"},
	{vec3seed, nil, "xprv9s21ZrQH143K25QhxbucbDDuQ4naNntJRi4KUfWT7xo4EKsHt2QJDu7KXp1A3u7Bi1j8ph3EGsZ9Xvz9dGuVrtHHs7pXeTzjuxBrCmmhgC6"},
	{vec3seed, []uint32{H}, "xprv9uPDJpEQgRQfDcW7BkF7eTya6RPxXeJCqCJGHuCJ4GiRVLzkTXBAJMu2qaMWPrS7AANYqdq6vcBcBUdJCVVFceUvJFjaPdGZ2y9WACViL4L"},
}

const (
	H        = uint32(0x80000000)
	vec2seed = "fffcf9f6f3f0edeae7e4e1dedbd8d5d2cfccc9c6c3c0bdbab7b4b1aeaba8a5a29f9c999693908d8a8784817e7b7875726f6c696663605d5a5754514e4b484542"
	vec3seed = "4b381541583be4423346c643850da4b320e46a87ae3d2a4e6da11eba819cd4acba45d239319ac14f863b8d5ab5a0d0c64d2e8a1e7d1457df2e5a3c51c73235be"
)

func pathString(path []uint32) string {
	parts := make([]string, len(path))
	for i, v := range path {
		if v >= H {
			parts[i] = strconv.FormatUint(uint64(v-H), 10) + "'"
		} else {
			parts[i] = strconv.FormatUint(uint64(v), 10)
		}
	}
	return strings.Join(parts, "/")
}

func arr32(b []byte) (a [32]byte) { copy(a[:], b); return }

func derive(master xkey, path string) (k [32]byte, err error, pv any) {
	pv = vf.Try(func() { k, err = hd.DerivePrivateKeyForPath(arr32(master.k), arr32(master.c), path) })
	return
}

func hdVectors(c *vf.Ctx) {
	for _, v := range bip32Vectors {
		seed, _ := hex.DecodeString(v.seed)
		depth, child, want, err := parseXprv(v.xprv)
		if err != nil || depth != len(v.path) || (depth > 0 && child != v.path[depth-1]) {
			panic(fmt.Sprintf("published vector does not parse: %v", err))
		}
		ref, err := refDerive(refMaster(seed), v.path)
		if err != nil || !bytes.Equal(ref.k, want.k) || !bytes.Equal(ref.c, want.c) {
			panic("BIP-32 reference implementation disagrees with the published vector " + v.xprv)
		}
		ms, mc := hd.ComputeMastersFromSeed(seed)
		c.Case("hd/vector/"+v.xprv, true)
		c.Count("hd_published_vectors", 1)
		w := map[string]any{"part": "hd-published-vector", "seed": v.seed, "path": pathString(v.path), "xprv": v.xprv}
		if len(v.path) == 0 {
			if !bytes.Equal(ms[:], want.k) || !bytes.Equal(mc[:], want.c) {
				viol(c, "hd-master-mismatch:published-vector", w, "ComputeMastersFromSeed differs from the published master key")
			}
			continue
		}
		k, err, pv := derive(xkey{ms[:], mc[:]}, pathString(v.path))
		if pv != nil || err != nil || !bytes.Equal(k[:], want.k) {
			w["got"] = vf.Hex(k[:])
			viol(c, "hd-derive-mismatch:published-vector", w, "DerivePrivateKeyForPath(%s) differs from the published vector: err=%v panic=%v", pathString(v.path), err, pv)
		}
	}
}

var boundaryIdx = []uint32{0, 1, 2, 1<<31 - 2, 1<<31 - 1, 1 << 31, 1<<31 + 1, 1<<32 - 2, 1<<32 - 1, H + 44, H + 118, 1000000000, H + 1000000000}

func hdCase(c *vf.Ctx, i int, r *rand.Rand) {
	seed := randBytes(r, 16+r.IntN(49))
	master := refMaster(seed)
	ms, mc := hd.ComputeMastersFromSeed(seed)
	w := map[string]any{"part": "hd", "seed": vf.Hex(seed)}
	c.Case("hd/master/"+vf.Hex(seed), false)
	if !bytes.Equal(ms[:], master.k) || !bytes.Equal(mc[:], master.c) {
		viol(c, "hd-master-mismatch", w, "ComputeMastersFromSeed differs from HMAC-SHA512(\"Bitcoin seed\", seed)")
		return
	}
	if i%3 == 0 { // start from an arbitrary extended key instead of a seed-derived one
		k := new(big.Int).SetBytes(randBytes(r, 32))
		k.Mod(k, new(big.Int).Sub(curveN, big.NewInt(1))).Add(k, big.NewInt(1))
		master = xkey{k.FillBytes(make([]byte, 32)), randBytes(r, 32)}
		if i%9 == 0 { // small key: leading zero bytes
			master.k = big.NewInt(int64(1 + r.IntN(1000))).FillBytes(make([]byte, 32))
		}
		w = map[string]any{"part": "hd", "parent_key": vf.Hex(master.k), "parent_chain_code": vf.Hex(master.c)}
	}
	depth := 1 + r.IntN(8)
	path := make([]uint32, depth)
	nt := false
	for j := range path {
		switch r.IntN(4) {
		case 0:
			path[j] = boundaryIdx[r.IntN(len(boundaryIdx))]
			nt = true
		case 1:
			path[j] = r.Uint32()
		case 2:
			path[j] = H + uint32(r.IntN(200))
		default:
			path[j] = uint32(r.IntN(200))
		}
		if path[j] >= H {
			nt = true
			c.Count("hd_hardened_steps", 1)
		} else {
			c.Count("hd_normal_steps", 1)
		}
		for _, b := range boundaryIdx[:9] {
			if path[j] == b {
				c.Count(fmt.Sprintf("hd_boundary_index_%d", b), 1)
			}
		}
	}
	ps := pathString(path)
	w["path"], w["path_indices"] = ps, path
	want, err := refDerive(master, path)
	if err != nil {
		c.Count("reference_degenerate_skipped", 1)
		return
	}
	k, err, pv := derive(master, ps)
	c.Case(fmt.Sprintf("hd/%x/%x/%s", master.k, master.c, ps), nt)
	c.Count("hd_paths_compared", 1)
	if i < 3 {
		c.Sample(map[string]any{"part": "hd", "parent_key": vf.Hex(master.k), "parent_chain_code": vf.Hex(master.c), "path": ps, "reference_key": vf.Hex(want.k)})
	}
	if pv != nil || err != nil {
		w["err"], w["panic"] = fmt.Sprint(err), fmt.Sprint(pv)
		viol(c, "hd-derive-failed", w, "DerivePrivateKeyForPath(%s) failed: %v %v", ps, err, pv)
		return
	}
	if !bytes.Equal(k[:], want.k) {
		// localise the first diverging step
		step := -1
		for d := 1; d <= depth; d++ {
			wk, _ := refDerive(master, path[:d])
			gk, _, _ := derive(master, pathString(path[:d]))
			if !bytes.Equal(gk[:], wk.k) {
				step = d - 1
				break
			}
		}
		kind := "normal"
		if step >= 0 && path[step] >= H {
			kind = "hardened"
		}
		w["got"], w["want"], w["first_diverging_step"] = vf.Hex(k[:]), vf.Hex(want.k), step
		viol(c, "hd-derive-mismatch:"+kind, w, "DerivePrivateKeyForPath(%s) differs from the BIP-32 reference (first diverging step %d, %s)", ps, step, kind)
	}
}

func bip44Case(c *vf.Ctx, i int, r *rand.Rand) {
	pick := func() uint32 {
		switch r.IntN(4) {
		case 0:
			return []uint32{0, 1, 118, 1<<31 - 1, 1<<31 - 2}[r.IntN(5)]
		case 1:
			return uint32(r.IntN(1 << 31))
		}
		return uint32(r.IntN(300))
	}
	coin, account, idx := pick(), pick(), pick()
	change := r.IntN(2) == 1
	p := hd.NewParams(44, coin, account, change, idx)
	ps := p.String()
	seed := randBytes(r, 32)
	master := refMaster(seed)
	ch := uint32(0)
	if change {
		ch = 1
	}
	path := []uint32{H + 44, H + coin, H + account, ch, idx}
	w := map[string]any{"part": "bip44", "seed": vf.Hex(seed), "coin_type": coin, "account": account, "change": change, "address_index": idx, "path": ps}
	c.Case("bip44/"+vf.Hex(seed)+"/"+ps, true)
	c.Count("bip44_cases", 1)
	if ps != pathString(path) {
		viol(c, "bip44-path-string", w, "BIP44Params.String() = %q, want %q", ps, pathString(path))
		return
	}
	if dp := p.DerivationPath(); len(dp) != 5 || dp[0] != 44 || dp[1] != coin || dp[2] != account || dp[3] != ch || dp[4] != idx {
		viol(c, "bip44-derivation-path", w, "DerivationPath() = %v", dp)
	}
	back, err := hd.NewParamsFromPath(ps)
	if err != nil || *back != *p {
		viol(c, "bip44-parse-roundtrip", w, "NewParamsFromPath(String()) != params: %v", err)
	}
	if i%2 == 0 {
		fp := hd.NewFundraiserParams(account, coin, idx)
		if fp.String() != pathString([]uint32{H + 44, H + coin, H + account, 0, idx}) {
			viol(c, "bip44-path-string", w, "NewFundraiserParams(...).String() = %q", fp.String())
		}
	}
	want, err := refDerive(master, path)
	if err != nil {
		c.Count("reference_degenerate_skipped", 1)
		return
	}
	k, err, pv := derive(master, ps)
	if pv != nil || err != nil || !bytes.Equal(k[:], want.k) {
		w["got"], w["want"] = vf.Hex(k[:]), vf.Hex(want.k)
		viol(c, "hd-derive-mismatch:bip44", w, "BIP-44 derivation differs from the reference: err=%v panic=%v", err, pv)
	}
}

// path elements outside the canonical "i" / "i'" (i < 2^31) notation
func hdNonCanonical(c *vf.Ctx, i int, r *rand.Rand) {
	seed := randBytes(r, 32)
	master := refMaster(seed)
	prefix := []uint32{H + 44, uint32(r.IntN(100))}
	w := func(path string) map[string]any {
		return map[string]any{"part": "hd-noncanonical", "seed": vf.Hex(seed), "path": path}
	}
	// (a) a plain element v with 2^31 <= v < 2^32 is child index v, which BIP-32 defines as hardened
	v := []uint32{1 << 31, 1<<31 + 1, 1<<32 - 1, H + uint32(r.IntN(1<<31))}[i%4]
	ps := pathString(prefix) + "/" + strconv.FormatUint(uint64(v), 10)
	want, err := refDerive(master, append(append([]uint32{}, prefix...), v))
	if err == nil {
		k, derr, pv := derive(master, ps)
		c.Case("hd/noncanon/plain/"+vf.Hex(seed)+ps, true)
		c.Count("hd_plain_index_ge_2^31", 1)
		switch {
		case pv != nil:
			viol(c, "panic:hd:plain-index-ge-2^31", w(ps), "DerivePrivateKeyForPath(%s) panicked: %v", ps, pv)
		case derr != nil:
			c.Count("hd_plain_index_ge_2^31_rejected", 1) // rejecting the notation is not a wrong key
		case !bytes.Equal(k[:], want.k):
			ww := w(ps)
			ww["got"], ww["bip32_child_key"], ww["index"] = vf.Hex(k[:]), vf.Hex(want.k), v
			viol(c, "hd-derive-mismatch:plain-index-ge-2^31", ww, "path element %d (>= 2^31, no apostrophe) is accepted but the key is not BIP-32 child %d (which is hardened child %d)", v, v, v-H)
		}
	}
	// (b) elements that denote no BIP-32 index at all: must not silently yield a key
	for _, el := range []string{
		strconv.FormatUint(1<<32+uint64(r.IntN(1000)), 10),
		strconv.FormatUint(1<<31+uint64(r.IntN(1000)), 10) + "'",
		strconv.FormatUint(1<<32+uint64(r.IntN(1000)), 10) + "'",
	} {
		ps := pathString(prefix) + "/" + el
		k, derr, pv := derive(master, ps)
		c.Case("hd/noncanon/range/"+vf.Hex(seed)+ps, true)
		c.Count("hd_index_out_of_range", 1)
		if pv != nil {
			viol(c, "panic:hd:index-out-of-range", w(ps), "DerivePrivateKeyForPath(%s) panicked: %v", ps, pv)
		} else if derr == nil {
			ww := w(ps)
			ww["got"] = vf.Hex(k[:])
			viol(c, "hd-accepts:index-out-of-range", ww, "path element %q denotes no BIP-32 child index (index >= 2^32, or hardened offset >= 2^31) but a key was returned", el)
		} else {
			c.Count("hd_index_out_of_range_rejected", 1)
		}
	}
	// (c) documented rejections
	for _, el := range []string{"-1", "x", "1.5", "0x10", "''"} {
		ps := pathString(prefix) + "/" + el
		_, derr, pv := derive(master, ps)
		c.Case("hd/noncanon/invalid/"+ps, true)
		c.Count("hd_invalid_element", 1)
		if pv != nil {
			viol(c, "panic:hd:invalid-element", w(ps), "DerivePrivateKeyForPath(%s) panicked: %v", ps, pv)
		} else if derr == nil {
			viol(c, "hd-accepts:invalid-element", w(ps), "invalid path element %q accepted", el)
		}
	}
}

// ---------------------------------------------------------------- run

var bcryptCost = 12

func readCost(c *vf.Ctx) {
	src, err := os.ReadFile(filepath.Join(vf.RepoRoot(), "tm2/pkg/crypto/keys/armor/armor.go"))
	if err != nil {
		c.Inconclusive("cannot read armor.go to learn the bcrypt cost: " + err.Error())
		return
	}
	m := regexp.MustCompile(`bcryptSecurityParameter\s*=\s*(\d+)`).FindSubmatch(src)
	if m == nil {
		c.Inconclusive("bcryptSecurityParameter not found in armor.go")
		return
	}
	bcryptCost, _ = strconv.Atoi(string(m[1]))
	c.Set("bcrypt_cost", bcryptCost)
}

func run(c *vf.Ctx) {
	workers := 14
	readCost(c)
	wl := bip39.WordList
	rev := map[string]int{}
	for i, wd := range wl {
		rev[wd] = i
	}

	// hd + bip39 first (cheap)
	hdVectors(c)
	nHD := c.N(1200, 40000)
	c.Parallel(nHD, workers, 1000, func(i int, r *rand.Rand) { hdCase(c, i, r) })
	nB44 := c.N(300, 8000)
	c.Parallel(nB44, workers, 100000, func(i int, r *rand.Rand) { bip44Case(c, i, r) })
	nNC := c.N(40, 400)
	c.Parallel(nNC, workers, 200000, func(i int, r *rand.Rand) { hdNonCanonical(c, i, r) })
	c.Logf("hd done")

	bip39Fixed(c, wl)
	nMn := c.N(200, 6000)
	c.Parallel(nMn, workers, 300000, func(i int, r *rand.Rand) {
		mnemonicCase(c, i, r, wl, rev, i < c.N(10, 200), i%c.N(4, 8) == 0)
	})
	c.Logf("bip39 done")

	// bcrypt-bound parts
	nArm := c.N(20, 100)
	nMut := c.N(8, 0)
	c.Parallel(nArm, workers, 400000, func(i int, r *rand.Rand) { armorCase(c, i, r, nMut, !c.Quick()) })
	c.Logf("armor done")
	nKb := c.N(10, 100)
	c.Parallel(nKb, workers, 500000, func(i int, r *rand.Rand) { keybaseCase(c, i, r, wl) })
	nWin := c.N(4, 16)
	c.Parallel(nWin, workers, 600000, func(i int, r *rand.Rand) { bcryptWindowCase(c, i, r) })
	c.Parallel(c.N(20, 200), workers, 700000, func(i int, r *rand.Rand) { plainArmorCase(c, i, r) })

	c.Set("bcrypt_note", fmt.Sprintf("bcrypt cost 2^%d ≈ 0.2 s per key derivation: quick tier runs %d armor cases (%d sampled ciphertext positions each) and %d keybase cases; thorough mutates every ciphertext byte of %d armor cases", bcryptCost, nArm, nMut, nKb, 100))
	c.Assume("salt and secretbox nonce are drawn from the OS CSPRNG by the code under test; armor texts are not seed-reproducible, oracle outcomes do not depend on them")
	c.Assume("tm2/pkg/crypto/armor (OpenPGP armor codec) is used as a tool to re-armor mutated ciphertext; golang.org/x/crypto secretbox and tm2 bcrypt are used by the format twin")
	c.Assume("BIP-32 degenerate steps (IL ≥ n or zero child key, probability ≈ 2^-127) are skipped if the reference meets one")
	c.Assume("generic wrong passphrases are shorter than bcrypt's 72-byte key window and NUL-free; the window equivalences are tested as their own classes")

	c.RequireCounter("hd_published_vectors", int64(len(bip32Vectors)))
	c.RequireCounter("hd_paths_compared", int64(nHD)*9/10)
	c.RequireCounter("hd_hardened_steps", int64(nHD))
	c.RequireCounter("hd_normal_steps", int64(nHD))
	for _, b := range boundaryIdx[:9] {
		c.RequireCounter(fmt.Sprintf("hd_boundary_index_%d", b), 10)
	}
	c.RequireCounter("bip44_cases", int64(nB44))
	for _, n := range []int{128, 160, 192, 224, 256} {
		c.RequireCounter(fmt.Sprintf("bip39_roundtrip_%dbit", n), int64(nMn/5))
	}
	c.RequireCounter("bip39_roundtrip_ok", int64(nMn))
	c.RequireCounter("bip39_rejected", int64(nMn)*50)
	c.RequireCounter("bip39_substituted_still_valid", int64(nMn))
	c.RequireCounter("bip39_published_vectors", 4)
	c.RequireCounter("armor_right_passphrase", int64(nArm))
	c.RequireCounter("armor_format_twin", int64(nArm))
	c.RequireCounter("wrong_passphrase_tried", int64(nArm)*3)
	c.RequireCounter("ciphertext_mutations", int64(nArm)*5)
	c.RequireCounter("armor_ciphertext-byte:nonce", int64(nArm))
	c.RequireCounter("armor_ciphertext-byte:tag", int64(nArm))
	c.RequireCounter("armor_ciphertext-byte:body", int64(nArm))
	c.RequireCounter("armor_armor-text-char", int64(nArm)*10)
	c.RequireCounter("keybase_created", int64(nKb))
	c.RequireCounter("keybase_rotated", int64(nKb))
	c.RequireCounter("keybase_rejected", int64(nKb)*8)
}
