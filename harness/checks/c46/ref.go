package c46

// Independent references: BIP-32 private derivation (HMAC-SHA512 + math/big
// secp256k1 arithmetic), PBKDF2-HMAC-SHA512, base58check, BIP-39 bit packing.
// None of this uses btcec/dcrec, x/crypto/pbkdf2 or tm2 code.

import (
	"crypto/hmac"
	"crypto/sha256"
	"crypto/sha512"
	"encoding/binary"
	"errors"
	"math/big"
)

func hexInt(s string) *big.Int {
	v, ok := new(big.Int).SetString(s, 16)
	if !ok {
		panic("bad hex " + s)
	}
	return v
}

var (
	curveP  = hexInt("FFFFFFFFFFFFFFFFFFFFFFFFFFFFFFFFFFFFFFFFFFFFFFFFFFFFFFFEFFFFFC2F")
	curveN  = hexInt("FFFFFFFFFFFFFFFFFFFFFFFFFFFFFFFEBAAEDCE6AF48A03BBFD25E8CD0364141")
	curveGx = hexInt("79BE667EF9DCBBAC55A06295CE870B07029BFCDB2DCE28D959F2815B16F81798")
	curveGy = hexInt("483ADA7726A3C4655DA4FBFC0E1108A8FD17B448A68554199C47D08FFB10D4B8")
)

type point struct{ x, y *big.Int } // x == nil: infinity

func padd(a, b point) point {
	if a.x == nil {
		return b
	}
	if b.x == nil {
		return a
	}
	var num, den *big.Int
	if a.x.Cmp(b.x) == 0 {
		if new(big.Int).Mod(new(big.Int).Add(a.y, b.y), curveP).Sign() == 0 {
			return point{}
		}
		num = new(big.Int).Mul(a.x, a.x)
		num.Mul(num, big.NewInt(3))
		den = new(big.Int).Lsh(a.y, 1)
	} else {
		num = new(big.Int).Sub(b.y, a.y)
		den = new(big.Int).Sub(b.x, a.x)
	}
	den.Mod(den, curveP)
	den.ModInverse(den, curveP)
	l := num.Mul(num, den)
	l.Mod(l, curveP)
	x := new(big.Int).Mul(l, l)
	x.Sub(x, a.x).Sub(x, b.x).Mod(x, curveP)
	y := new(big.Int).Sub(a.x, x)
	y.Mul(y, l).Sub(y, a.y).Mod(y, curveP)
	return point{x, y}
}

func pmulG(k *big.Int) point {
	r, g := point{}, point{curveGx, curveGy}
	for i := k.BitLen() - 1; i >= 0; i-- {
		r = padd(r, r)
		if k.Bit(i) == 1 {
			r = padd(r, g)
		}
	}
	return r
}

// serP: compressed SEC1 encoding of k·G.
func serP(k []byte) []byte {
	p := pmulG(new(big.Int).SetBytes(k))
	out := make([]byte, 33)
	out[0] = 2 + byte(p.y.Bit(0))
	p.x.FillBytes(out[1:])
	return out
}

func hmac512(key, data []byte) []byte {
	m := hmac.New(sha512.New, key)
	m.Write(data)
	return m.Sum(nil)
}

// xkey is a BIP-32 extended private key (key, chain code).
type xkey struct{ k, c []byte }

var errDegenerate = errors.New("BIP-32: IL >= n or child key zero (skip this index)")

func refMaster(seed []byte) xkey {
	I := hmac512([]byte("Bitcoin seed"), seed)
	return xkey{I[:32], I[32:]}
}

// refCKD is CKDpriv of BIP-32: hardened iff i >= 2^31.
func refCKD(par xkey, i uint32) (xkey, error) {
	var data []byte
	if i >= 0x80000000 {
		data = append([]byte{0}, par.k...)
	} else {
		data = serP(par.k)
	}
	data = binary.BigEndian.AppendUint32(data, i)
	I := hmac512(par.c, data)
	il := new(big.Int).SetBytes(I[:32])
	if il.Cmp(curveN) >= 0 {
		return xkey{}, errDegenerate
	}
	il.Add(il, new(big.Int).SetBytes(par.k)).Mod(il, curveN)
	if il.Sign() == 0 {
		return xkey{}, errDegenerate
	}
	return xkey{il.FillBytes(make([]byte, 32)), I[32:]}, nil
}

func refDerive(m xkey, path []uint32) (xkey, error) {
	var err error
	for _, i := range path {
		if m, err = refCKD(m, i); err != nil {
			return xkey{}, err
		}
	}
	return m, nil
}

// pbkdf2SHA512 (RFC 8018) written out.
func pbkdf2SHA512(password, salt []byte, iter, keyLen int) []byte {
	var out []byte
	for block := uint32(1); len(out) < keyLen; block++ {
		u := hmac512(password, binary.BigEndian.AppendUint32(append([]byte{}, salt...), block))
		t := append([]byte{}, u...)
		for n := 1; n < iter; n++ {
			u = hmac512(password, u)
			for j := range t {
				t[j] ^= u[j]
			}
		}
		out = append(out, t...)
	}
	return out[:keyLen]
}

const b58 = "123456789ABCDEFGHJKLMNPQRSTUVWXYZabcdefghijkmnopqrstuvwxyz"

// base58CheckDecode returns the payload (without the 4 checksum bytes).
func base58CheckDecode(s string) ([]byte, error) {
	v := new(big.Int)
	zeros := 0
	lead := true
	for _, ch := range s {
		idx := -1
		for j, a := range b58 {
			if a == ch {
				idx = j
			}
		}
		if idx < 0 {
			return nil, errors.New("bad base58 character")
		}
		if lead && idx == 0 {
			zeros++
		} else {
			lead = false
		}
		v.Mul(v, big.NewInt(58)).Add(v, big.NewInt(int64(idx)))
	}
	raw := append(make([]byte, zeros), v.Bytes()...)
	if len(raw) < 4 {
		return nil, errors.New("too short")
	}
	h1 := sha256.Sum256(raw[:len(raw)-4])
	h2 := sha256.Sum256(h1[:])
	for i := 0; i < 4; i++ {
		if h2[i] != raw[len(raw)-4+i] {
			return nil, errors.New("base58check checksum mismatch")
		}
	}
	return raw[:len(raw)-4], nil
}

// parseXprv decodes a serialized BIP-32 extended private key.
func parseXprv(s string) (depth int, child uint32, x xkey, err error) {
	p, err := base58CheckDecode(s)
	if err != nil {
		return 0, 0, xkey{}, err
	}
	if len(p) != 78 || binary.BigEndian.Uint32(p[:4]) != 0x0488ADE4 || p[45] != 0 {
		return 0, 0, xkey{}, errors.New("not a mainnet xprv")
	}
	return int(p[4]), binary.BigEndian.Uint32(p[9:13]), xkey{k: p[46:78], c: p[13:45]}, nil
}

// ---- BIP-39 bit packing

// refMnemonicIndices: entropy ‖ first ENT/32 bits of SHA-256(entropy), in 11-bit groups.
func refMnemonicIndices(entropy []byte) []int {
	h := sha256.Sum256(entropy)
	cs := len(entropy) * 8 / 32
	bits := make([]byte, 0, len(entropy)*8+cs)
	for _, b := range entropy {
		for i := 7; i >= 0; i-- {
			bits = append(bits, b>>uint(i)&1)
		}
	}
	for i := 0; i < cs; i++ {
		bits = append(bits, h[i/8]>>uint(7-i%8)&1)
	}
	out := make([]int, len(bits)/11)
	for w := range out {
		v := 0
		for j := 0; j < 11; j++ {
			v = v<<1 | int(bits[w*11+j])
		}
		out[w] = v
	}
	return out
}

// refDecodeIndices: inverse; ok=false if the word count or the checksum is wrong.
func refDecodeIndices(idx []int) (entropy []byte, ok bool) {
	switch len(idx) {
	case 12, 15, 18, 21, 24:
	default:
		return nil, false
	}
	total := len(idx) * 11
	ent := total * 32 / 33
	bits := make([]byte, 0, total)
	for _, v := range idx {
		for j := 10; j >= 0; j-- {
			bits = append(bits, byte(v>>uint(j)&1))
		}
	}
	entropy = make([]byte, ent/8)
	for i := 0; i < ent; i++ {
		entropy[i/8] |= bits[i] << uint(7-i%8)
	}
	h := sha256.Sum256(entropy)
	for i := 0; i < total-ent; i++ {
		if bits[ent+i] != h[i/8]>>uint(7-i%8)&1 {
			return entropy, false
		}
	}
	return entropy, true
}

// packedWithChecksum is what bip39.MnemonicToByteArray documents to return:
// the (entropy ‖ checksum) bit string as a big-endian number in len(entropy)+1 bytes.
func packedWithChecksum(entropy []byte) []byte {
	h := sha256.Sum256(entropy)
	cs := uint(len(entropy) * 8 / 32)
	v := new(big.Int).SetBytes(entropy)
	v.Lsh(v, cs)
	v.Or(v, big.NewInt(int64(h[0]>>(8-cs))))
	return v.FillBytes(make([]byte, len(entropy)+1))
}
