// Package c50: the Gno avl tree (examples/gno.land/p/nt/avl/v0) is a balanced
// ordered map.
//
// The code under test is Gno source and is executed in the GnoVM, in-process:
// a generated driver (package main importing gno.land/p/nt/avl/v0 from the
// tree under test) applies op tables and prints one line per observation.
// Oracle 1: a sorted-slice ordered map written here in Go predicts every line
// (Set/Get/Has/Remove/Size/GetByIndex/Iterate/ReverseIterate/IterateByOffset/
// ReverseIterateByOffset, with the documented bound semantics: ascending
// [start,end), descending [start,end], "" = unbounded; callbacks may stop the
// iteration early). Oracle 2: after every Set/Remove a walker (in the driver,
// through add-only accessors placed in a scratch copy of the package) checks
// |height(left)-height(right)| <= 1 at every node, that the recorded
// height/size fields equal the real ones, and returns the leaves in structural
// left-to-right order, which must equal the model's content.
package c50

import (
	"encoding/hex"
	"fmt"
	"math"
	"math/rand/v2"
	"runtime"
	"sort"
	"strconv"
	"strings"
	"sync/atomic"

	"verifharness/checks/c50/gnodrv"
	"verifharness/internal/vf"
)

const avlPath = "gno.land/p/nt/avl/v0"

func init() {
	vf.Register(&vf.Check{
		ID:    "C50",
		Level: "exploration",
		Rule: "case = one op sequence (quick 200 x 40 ops, thorough 5000 x 80) applied to a fresh avl.Tree in the GnoVM; five key profiles " +
			"(colliding small pool; adjacent keys such as \"\", \"a\", \"a\\x00\", \"aa\", \"a\\xff\"; ascending and descending growth; large random pool), " +
			"op kinds Set/Get/Has/Remove/Size/GetByIndex/Iterate/ReverseIterate/IterateByOffset/ReverseIterateByOffset with boundary indexes, offsets, counts and " +
			"range bounds taken from the key pool, its \\x00-successors and \"\"; non-trivial = the sequence overwrote a key, removed a present key, " +
			"reached >= 6 keys and ran a range iteration that returned a non-empty strict subset; distinct by the op table text",
		Run: run,
	})
}

// ---------------------------------------------------------------- op table

const (
	kSet = iota
	kGet
	kHas
	kRemove
	kSize
	kGetByIndex
	kIterate
	kRevIterate
	kIterOffset
	kRevIterOffset
	nKinds
)

var kindNames = [nKinds]string{"Set", "Get", "Has", "Remove", "Size", "GetByIndex", "Iterate", "ReverseIterate", "IterateByOffset", "ReverseIterateByOffset"}

type op struct {
	K    int    // kind
	A, B string // key | start, end
	I, J int    // value | index | offset, count
	S    int    // callback stops at the S-th element (0 never)
	N    bool   // Set stores nil
}

// text is the canonical (and human readable) form of an op.
func (o op) text() string {
	switch o.K {
	case kSet:
		if o.N {
			return fmt.Sprintf("Set(%q,nil)", o.A)
		}
		return fmt.Sprintf("Set(%q,%d)", o.A, o.I)
	case kGet, kHas, kRemove:
		return fmt.Sprintf("%s(%q)", kindNames[o.K], o.A)
	case kSize:
		return "Size()"
	case kGetByIndex:
		return fmt.Sprintf("GetByIndex(%d)", o.I)
	case kIterate, kRevIterate:
		return fmt.Sprintf("%s(%q,%q,stop@%d)", kindNames[o.K], o.A, o.B, o.S)
	default:
		return fmt.Sprintf("%s(%d,%d,stop@%d)", kindNames[o.K], o.I, o.J, o.S)
	}
}

func gnoStr(s string) string {
	var sb strings.Builder
	sb.WriteByte('"')
	for i := 0; i < len(s); i++ {
		fmt.Fprintf(&sb, `\x%02x`, s[i])
	}
	sb.WriteByte('"')
	return sb.String()
}

// ---------------------------------------------------------------- model

type entry struct {
	k   string
	v   int
	nil bool
}

// omap is the reference ordered map: a slice sorted by key (byte order).
type omap struct{ es []entry }

func (m *omap) find(k string) (int, bool) {
	i := sort.Search(len(m.es), func(i int) bool { return m.es[i].k >= k })
	return i, i < len(m.es) && m.es[i].k == k
}

func (m *omap) set(k string, v int, isNil bool) (updated bool) {
	i, ok := m.find(k)
	if ok {
		m.es[i] = entry{k, v, isNil}
		return true
	}
	m.es = append(m.es, entry{})
	copy(m.es[i+1:], m.es[i:])
	m.es[i] = entry{k, v, isNil}
	return false
}

func (m *omap) remove(k string) (entry, bool) {
	i, ok := m.find(k)
	if !ok {
		return entry{}, false
	}
	e := m.es[i]
	m.es = append(m.es[:i], m.es[i+1:]...)
	return e, true
}

func hx(s string) string { return "k" + hex.EncodeToString([]byte(s)) }

func (e entry) val() string {
	if e.nil {
		return "nil"
	}
	return strconv.Itoa(e.v)
}

func pairs(es []entry) string {
	parts := make([]string, len(es))
	for i, e := range es {
		parts[i] = hx(e.k) + "=" + e.val()
	}
	return strings.Join(parts, ",")
}

func bs(b bool) string {
	if b {
		return "t"
	}
	return "f"
}

// stopAt applies the callback's "stop at the s-th element" rule.
func stopAt(es []entry, s int) ([]entry, bool) {
	if s > 0 && len(es) >= s {
		return es[:s], true
	}
	return es, false
}

func reversed(es []entry) []entry {
	out := make([]entry, len(es))
	for i, e := range es {
		out[len(es)-1-i] = e
	}
	return out
}

// inRange: ascending is [start,end), descending is [start,end]; "" is unbounded.
func (m *omap) inRange(start, end string, ascending bool) []entry {
	var out []entry
	for _, e := range m.es {
		if start != "" && e.k < start {
			continue
		}
		if end != "" {
			if ascending && e.k >= end {
				continue
			}
			if !ascending && e.k > end {
				continue
			}
		}
		out = append(out, e)
	}
	return out
}

func window(es []entry, offset, count int) []entry {
	if offset < 0 {
		offset = 0
	}
	if count <= 0 || offset >= len(es) {
		return nil
	}
	es = es[offset:]
	if count < len(es) {
		es = es[:count]
	}
	return es
}

// stats of one sequence, for non-triviality and coverage counters.
type seqStats struct {
	overwrote, removed, partialRange bool
	peak                             int
}

// apply executes o on the model and returns the expected observation line.
func (m *omap) apply(o op, st *seqStats, cnt map[string]int) string {
	switch o.K {
	case kSet:
		u := m.set(o.A, o.I, o.N)
		if u {
			st.overwrote = true
			cnt["set_overwrite"]++
		} else {
			cnt["set_insert"]++
		}
		if o.A == "" {
			cnt["empty_key_set"]++
		}
		if len(m.es) > st.peak {
			st.peak = len(m.es)
		}
		return "S " + bs(u)
	case kGet:
		if i, ok := m.find(o.A); ok {
			cnt["get_hit"]++
			return "G " + m.es[i].val()
		}
		cnt["get_miss"]++
		return "G nil"
	case kHas:
		_, ok := m.find(o.A)
		if ok {
			cnt["has_true"]++
		} else {
			cnt["has_false"]++
		}
		return "H " + bs(ok)
	case kRemove:
		e, ok := m.remove(o.A)
		if !ok {
			cnt["remove_absent"]++
			return "R nil f"
		}
		st.removed = true
		cnt["remove_present"]++
		return "R " + e.val() + " t"
	case kSize:
		return "Z " + strconv.Itoa(len(m.es))
	case kGetByIndex:
		if o.I < 0 || o.I >= len(m.es) {
			cnt["getbyindex_out_of_range"]++
			return "!panic"
		}
		cnt["getbyindex_in_range"]++
		e := m.es[o.I]
		return "X " + hx(e.k) + "=" + e.val()
	case kIterate, kRevIterate:
		asc := o.K == kIterate
		es := m.inRange(o.A, o.B, asc)
		if len(es) > 0 && len(es) < len(m.es) {
			st.partialRange = true
			cnt["range_partial_nonempty"]++
		} else if len(es) == 0 {
			cnt["range_empty"]++
		} else {
			cnt["range_full"]++
		}
		if !asc {
			es = reversed(es)
			// the inclusive upper bound matters: an entry equal to end was returned
			if o.B != "" && len(es) > 0 && es[0].k == o.B {
				cnt["reverse_end_inclusive_hit"]++
			}
		} else if o.B != "" {
			if _, ok := m.find(o.B); ok {
				cnt["forward_end_exclusive_hit"]++
			}
		}
		es, stopped := stopAt(es, o.S)
		if stopped {
			cnt["iteration_stopped_by_callback"]++
		}
		tag := "I"
		if !asc {
			tag = "J"
		}
		return tag + " [" + pairs(es) + "] " + bs(stopped)
	case kIterOffset, kRevIterOffset:
		es := m.es
		tag := "O"
		if o.K == kRevIterOffset {
			es = reversed(es)
			tag = "P"
		}
		es = window(es, o.I, o.J)
		if len(es) > 0 && len(es) < len(m.es) {
			cnt["offset_window_partial"]++
		}
		es, stopped := stopAt(es, o.S)
		if stopped {
			cnt["iteration_stopped_by_callback"]++
		}
		return tag + " [" + pairs(es) + "]"
	}
	panic("bad op kind")
}

// ---------------------------------------------------------------- generator

var adversarial = []string{
	"", "a", "a\x00", "aa", "a\x00\x00", "a\xff", "ab", "b", "\x00", "\x00\x00", "\xff", "\xff\xff",
	"aa\x00", "aaa", "A", "a ", "b\x00", "ba", "z", "a\x01",
}

func randKey(r *rand.Rand) string {
	const alpha = "ab\x00\xff"
	n := r.IntN(4)
	b := make([]byte, n)
	for i := range b {
		b[i] = alpha[r.IntN(len(alpha))]
	}
	return string(b)
}

type seqCase struct {
	profile string
	ops     []op
	want    []string // expected lines, including the "B" line after each mutation
	opOf    []int    // index into ops for every expected line
	stats   seqStats
}

func (s *seqCase) key() string {
	var sb strings.Builder
	for _, o := range s.ops {
		sb.WriteString(o.text())
		sb.WriteByte(';')
	}
	return sb.String()
}

func genSeq(r *rand.Rand, nops int, cnt map[string]int) *seqCase {
	s := &seqCase{}
	var pool []string
	grow := 0 // number of leading ordered inserts
	switch p := r.IntN(10); {
	case p < 2:
		s.profile = "collide"
		perm := r.Perm(len(adversarial))
		for _, i := range perm[:4+r.IntN(5)] {
			pool = append(pool, adversarial[i])
		}
	case p < 5:
		s.profile = "adjacent"
		pool = append(pool, adversarial...)
		for i := 0; i < 8; i++ {
			pool = append(pool, randKey(r))
		}
	case p < 6:
		s.profile = "ascending"
		for i := 0; i < nops; i++ {
			pool = append(pool, fmt.Sprintf("k%03d", i))
		}
		grow = nops/2 + r.IntN(nops/4)
	case p < 7:
		s.profile = "descending"
		for i := nops - 1; i >= 0; i-- {
			pool = append(pool, fmt.Sprintf("k%03d", i))
		}
		grow = nops/2 + r.IntN(nops/4)
	default:
		s.profile = "random-large"
		pool = append(pool, "", "a", "a\x00", "aa")
		for i := 0; i < 60; i++ {
			pool = append(pool, fmt.Sprintf("%c%c", 'a'+byte(r.IntN(6)), 'a'+byte(r.IntN(6))))
		}
	}
	cnt["profile_"+s.profile]++
	m := &omap{}
	nextVal := 1
	pick := func() string { return pool[r.IntN(len(pool))] }
	bound := func() string {
		switch r.IntN(8) {
		case 0, 1:
			return ""
		case 2:
			return pick() + "\x00"
		case 3:
			if len(m.es) > 0 {
				return m.es[r.IntN(len(m.es))].k
			}
			return pick()
		case 4:
			k := pick()
			if len(k) > 0 {
				return k[:len(k)-1]
			}
			return k
		default:
			return pick()
		}
	}
	index := func() int {
		n := len(m.es)
		switch r.IntN(10) {
		case 0:
			return -1
		case 1:
			return n
		case 2:
			return n + 1
		case 3:
			return n - 1
		case 4:
			return 0
		case 5:
			if r.IntN(2) == 0 {
				return math.MaxInt64
			}
			return math.MinInt64
		default:
			if n == 0 {
				return 0
			}
			return r.IntN(n)
		}
	}
	stop := func() int {
		if r.IntN(3) == 0 {
			return 1 + r.IntN(4)
		}
		return 0
	}
	// weights: mutation-heavy so trees grow and shrink through rebalancing
	weights := [nKinds]int{kSet: 30, kGet: 7, kHas: 7, kRemove: 16, kSize: 3, kGetByIndex: 8, kIterate: 9, kRevIterate: 9, kIterOffset: 5, kRevIterOffset: 6}
	if s.profile == "collide" {
		weights[kSet], weights[kRemove] = 24, 22
	}
	total := 0
	for _, w := range weights {
		total += w
	}
	for i := 0; i < nops; i++ {
		var o op
		if i < grow {
			o = op{K: kSet, A: pool[i], I: nextVal}
			nextVal++
		} else {
			x := r.IntN(total)
			k := 0
			for ; x >= weights[k]; k++ {
				x -= weights[k]
			}
			o.K = k
			switch k {
			case kSet:
				o.A = pick()
				if r.IntN(12) == 0 {
					o.N = true
				} else {
					o.I = nextVal
					nextVal++
				}
			case kGet, kHas:
				o.A = pick()
			case kRemove:
				// prefer present keys, so that trees really shrink
				if len(m.es) > 0 && r.IntN(3) > 0 {
					o.A = m.es[r.IntN(len(m.es))].k
				} else {
					o.A = pick()
				}
			case kGetByIndex:
				o.I = index()
			case kIterate, kRevIterate:
				o.A, o.B, o.S = bound(), bound(), stop()
			case kIterOffset, kRevIterOffset:
				o.I = index()
				switch r.IntN(6) {
				case 0:
					o.J = 0
				case 1:
					o.J = -1
				case 2:
					o.J = math.MaxInt64
				case 3:
					o.J = len(m.es) - o.I // exactly to the end (when positive)
				default:
					o.J = 1 + r.IntN(len(m.es)+2)
				}
				o.S = stop()
			}
		}
		s.ops = append(s.ops, o)
		cnt["op_"+kindNames[o.K]]++
		s.want = append(s.want, m.apply(o, &s.stats, cnt))
		s.opOf = append(s.opOf, i)
		if o.K == kSet || o.K == kRemove {
			s.want = append(s.want, fmt.Sprintf("B ok %d [%s]", len(m.es), pairs(m.es)))
			s.opOf = append(s.opOf, i)
		}
	}
	return s
}

// ---------------------------------------------------------------- run

func driverSource(batch []*seqCase) string {
	var ks, as, bs, is, js, ss, ns, lens []string
	for _, s := range batch {
		lens = append(lens, strconv.Itoa(len(s.ops)))
		for _, o := range s.ops {
			n := "0"
			if o.N {
				n = "1"
			}
			ks = append(ks, strconv.Itoa(o.K))
			as = append(as, gnoStr(o.A))
			bs = append(bs, gnoStr(o.B))
			is = append(is, strconv.Itoa(o.I))
			js = append(js, strconv.Itoa(o.J))
			ss = append(ss, strconv.Itoa(o.S))
			ns = append(ns, n)
		}
	}
	j := func(x []string) string { return strings.Join(x, ",") }
	return fmt.Sprintf(mainGno, j(ks), j(as), j(bs), j(is), j(js), j(ss), j(ns), j(lens))
}

// splitB parses "B <status> <n> h<h> [<pairs>]" into the comparable part
// ("B <status> <n> [<pairs>]"), the status and the height.
func splitB(line string) (cmp, status string, h int, ok bool) {
	f := strings.SplitN(line, " ", 5)
	if len(f) != 5 || f[0] != "B" || !strings.HasPrefix(f[3], "h") {
		return "", "", 0, false
	}
	h, err := strconv.Atoi(f[3][1:])
	if err != nil {
		return "", "", 0, false
	}
	return "B " + f[1] + " " + f[2] + " " + f[4], f[1], h, true
}

func witness(s *seqCase, upto int, want, got string) map[string]any {
	ops := make([]string, 0, upto+1)
	for _, o := range s.ops[:upto+1] {
		ops = append(ops, o.text())
	}
	return map[string]any{"profile": s.profile, "ops": ops, "failing_op_index": upto, "expected_line": want, "got_line": got,
		"line_format": "S/G/H/R/Z/X/I/J/O/P = result of the op; B = balance walker (status, leaves, leaves in structural order); keys are k+hex"}
}

// compare checks the lines printed for one sequence against the model.
func compare(c *vf.Ctx, s *seqCase, got []string, maxH *int) {
	for li, want := range s.want {
		oi := s.opOf[li]
		o := s.ops[oi]
		if li >= len(got) {
			c.Violation("driver-output-truncated:"+kindNames[o.K], witness(s, oi, want, "<missing>"),
				"driver printed %d lines for a sequence expecting %d; first missing line belongs to %s", len(got), len(s.want), o.text())
			return
		}
		g := got[li]
		if strings.HasPrefix(want, "B ") {
			cmp, status, h, ok := splitB(g)
			if !ok {
				c.Violation("result-mismatch:"+kindNames[o.K], witness(s, oi, want, g), "after %s: expected a balance line, got %q", o.text(), g)
				return
			}
			if status != "ok" {
				c.Violation("balance:"+status, witness(s, oi, want, g), "after %s the tree structure is defective (%s): %s", o.text(), status, g)
				return
			}
			if cmp != want {
				c.Violation("structure-content-mismatch:after-"+kindNames[o.K], witness(s, oi, want, g),
					"after %s the leaves in structural order differ from the ordered map: got %q want %q", o.text(), cmp, want)
				return
			}
			if h > *maxH {
				*maxH = h
			}
			continue
		}
		if g != want {
			key := "result-mismatch:" + kindNames[o.K]
			if g == "!panic" {
				key = "unexpected-panic:" + kindNames[o.K]
			} else if want == "!panic" {
				key = "missing-panic:" + kindNames[o.K]
			}
			c.Violation(key, witness(s, oi, want, g), "%s (op %d, profile %s): got %q, ordered-map model says %q", o.text(), oi, s.profile, g, want)
			return
		}
	}
	if len(got) != len(s.want) {
		c.Violation("driver-output-extra", witness(s, len(s.ops)-1, "<end>", got[len(s.want)]), "driver printed %d lines, expected %d", len(got), len(s.want))
	}
}

func run(c *vf.Ctx) {
	nseq := c.N(200, 5000)
	nops := c.N(40, 80)
	batch := c.N(13, 25)
	workers := runtime.NumCPU()
	if workers > 16 {
		workers = 16
	}
	nb := (nseq + batch - 1) / batch
	if workers > nb {
		workers = nb
	}
	// one GnoVM store per worker (a gno store is not goroutine-safe)
	envs := make(chan *gnodrv.Env, workers)
	for w := 0; w < workers; w++ {
		envs <- nil
	}
	var made atomic.Int64
	getEnv := func() *gnodrv.Env {
		e := <-envs
		if e != nil {
			return e
		}
		e, err := gnodrv.New(vf.RepoRoot(), fmt.Sprintf("%s/env%d", c.WorkDir, made.Add(1)),
			gnodrv.Overlay{PkgPath: avlPath, Extra: map[string]string{"zz_verif_walker.gno": walkerGno}},
			gnodrv.Overlay{PkgPath: drvPath, Synthetic: true, Extra: map[string]string{"gnomod.toml": drvMod, "driver.gno": driverGno}})
		if err != nil {
			panic(fmt.Sprintf("gnodrv.New: %v", err))
		}
		if err := e.Preload(drvPath); err != nil {
			panic(err.Error())
		}
		return e
	}
	type tally struct {
		cnt  map[string]int
		maxH int
		maxN int
	}
	tallies := make([]tally, nb)
	c.Parallel(nb, workers, 500000, func(bi int, _ *rand.Rand) {
		t := tally{cnt: map[string]int{}}
		var seqs []*seqCase
		for si := bi * batch; si < (bi+1)*batch && si < nseq; si++ {
			seqs = append(seqs, genSeq(c.Rng(uint64(1000+si)), nops, t.cnt))
		}
		env := getEnv()
		out, err := env.Run("main", "main", "main.gno", driverSource(seqs), 2_000_000_000)
		envs <- env
		lines := strings.Split(strings.TrimRight(out, "\n"), "\n")
		// split per sequence on "= <i>" markers
		per := make([][]string, len(seqs))
		cur := -1
		for _, l := range lines {
			if strings.HasPrefix(l, "= ") {
				cur++
				if cur >= len(seqs) || l != "= "+strconv.Itoa(cur) {
					cur = len(seqs)
				}
				continue
			}
			if cur >= 0 && cur < len(seqs) {
				per[cur] = append(per[cur], l)
			}
		}
		if err != nil {
			// the driver recovers panics per op, so an abort is a harness or VM level failure
			si := cur
			if si < 0 || si >= len(seqs) {
				si = 0
			}
			c.Violation("vm-abort", witness(seqs[si], len(seqs[si].ops)-1, "<driver completes>", truncate(err.Error(), 1500)),
				"the driver aborted in batch %d (sequence %d of the batch): %s", bi, si, truncate(err.Error(), 600))
		}
		for i, s := range seqs {
			compare(c, s, per[i], &t.maxH)
			nt := s.stats.overwrote && s.stats.removed && s.stats.peak >= 6 && s.stats.partialRange
			c.Case(s.key(), nt)
			if nt {
				t.cnt["sequences_nontrivial"]++
			}
			if s.stats.peak > t.maxN {
				t.maxN = s.stats.peak
			}
			if bi == 0 && i < 2 {
				ops := make([]string, 0, 12)
				for _, o := range s.ops[:12] {
					ops = append(ops, o.text())
				}
				c.Sample(map[string]any{"profile": s.profile, "first_ops": ops, "first_expected_lines": s.want[:12]})
			}
		}
		t.cnt["observation_lines_compared"] += len(lines) - len(seqs)
		tallies[bi] = t
	})
	maxH, maxN := 0, 0
	for _, t := range tallies {
		for k, v := range t.cnt {
			c.Count(k, v)
		}
		if t.maxH > maxH {
			maxH = t.maxH
		}
		if t.maxN > maxN {
			maxN = t.maxN
		}
	}
	c.Set("max_tree_height_seen_by_walker", maxH)
	c.Set("max_tree_keys", maxN)
	c.Set("sequences", nseq)
	c.Set("ops_per_sequence", nops)
	c.Assume("the GnoVM executes the driver and the walker faithfully (the walker itself is Gno code run by the VM under test)")
	c.Assume("add-only accessors (VerifHeight/VerifSize/VerifLeft/VerifRight/VerifRoot) are compiled into a scratch copy of the avl package; original files are copied verbatim from the tree under test")
	c.Assume("values are ints or nil; ReverseIterate's end bound is inclusive as documented at Node.TraverseInRange; the bool result of the *ByOffset iterations is not compared (undocumented)")

	for k := 0; k < nKinds; k++ {
		c.RequireCounter("op_"+kindNames[k], int64(nseq/4))
	}
	c.RequireCounter("set_overwrite", int64(nseq))
	c.RequireCounter("remove_present", int64(nseq))
	c.RequireCounter("remove_absent", int64(nseq/10))
	c.RequireCounter("getbyindex_out_of_range", int64(nseq/10))
	c.RequireCounter("getbyindex_in_range", int64(nseq/10))
	c.RequireCounter("range_partial_nonempty", int64(nseq/2))
	c.RequireCounter("range_empty", int64(nseq/10))
	c.RequireCounter("reverse_end_inclusive_hit", int64(nseq/40))
	c.RequireCounter("forward_end_exclusive_hit", int64(nseq/40))
	c.RequireCounter("iteration_stopped_by_callback", int64(nseq/10))
	c.RequireCounter("offset_window_partial", int64(nseq/10))
	c.RequireCounter("empty_key_set", int64(nseq/20))
	c.RequireCounter("sequences_nontrivial", int64(nseq/4))
	c.Require("max_tree_height", int64(maxH), 5)
	c.Require("max_tree_keys", int64(maxN), 20)
}

func truncate(s string, n int) string {
	if len(s) <= n {
		return s
	}
	return s[:n] + "..."
}
