// Package gnodrv runs generated Gno driver programs in-process in the GnoVM,
// against the packages under <repo>/examples (loaded at run time, so the tree
// selected by VERIF_REPO/GNOROOT is the code under test).
//
// One Env owns one gno store (not goroutine-safe: use one Env per worker).
// Imported packages are loaded once into the Env's base store; every Run
// executes its driver in a throw-away transaction store on top of it.
package gnodrv

import (
	"bytes"
	"fmt"
	"os"
	"path/filepath"
	"strings"

	gno "github.com/gnolang/gno/gnovm/pkg/gnolang"
	"github.com/gnolang/gno/gnovm/pkg/packages"
	"github.com/gnolang/gno/gnovm/pkg/test"
	"github.com/gnolang/gno/tm2/pkg/std"
	storetypes "github.com/gnolang/gno/tm2/pkg/store/types"
)

// Env is a loaded GnoVM store plus an output buffer.
type Env struct {
	root  string
	base  storetypes.CommitStore
	store gno.Store
	out   *bytes.Buffer
}

// Overlay describes a package of <repo>/examples that is loaded from a scratch
// copy with extra files added (add-only: the original files are copied
// verbatim from the tree under test).
type Overlay struct {
	PkgPath   string            // e.g. gno.land/p/nt/avl/v0
	Extra     map[string]string // file name -> body
	Synthetic bool              // the package does not exist in the tree: Extra is all of it
}

// New builds an Env rooted at the given gno tree. workDir is a scratch
// directory used for overlay copies.
func New(root, workDir string, overlays ...Overlay) (*Env, error) {
	var pl packages.PkgList
	for _, ov := range overlays {
		src := filepath.Join(root, "examples", filepath.FromSlash(ov.PkgPath))
		dst := filepath.Join(workDir, "overlay", filepath.FromSlash(ov.PkgPath))
		if err := os.MkdirAll(dst, 0o755); err != nil {
			return nil, err
		}
		var des []os.DirEntry
		if !ov.Synthetic {
			var err error
			if des, err = os.ReadDir(src); err != nil {
				return nil, err
			}
		}
		for _, de := range des {
			n := de.Name()
			if de.IsDir() || strings.HasSuffix(n, "_test.gno") || strings.HasSuffix(n, "_filetest.gno") {
				continue
			}
			if !(strings.HasSuffix(n, ".gno") || n == "gnomod.toml") {
				continue
			}
			b, err := os.ReadFile(filepath.Join(src, n))
			if err != nil {
				return nil, err
			}
			if err := os.WriteFile(filepath.Join(dst, n), b, 0o644); err != nil {
				return nil, err
			}
		}
		for n, body := range ov.Extra {
			if _, err := os.Stat(filepath.Join(dst, n)); err == nil {
				return nil, fmt.Errorf("overlay file %s already exists in %s", n, ov.PkgPath)
			}
			if err := os.WriteFile(filepath.Join(dst, n), []byte(body), 0o644); err != nil {
				return nil, err
			}
		}
		pl = append(pl, &packages.Package{Dir: dst, ImportPath: ov.PkgPath})
	}
	e := &Env{root: root, out: &bytes.Buffer{}}
	e.base, e.store = test.TestStore(root, e.out, pl)
	return e, nil
}

// Preload loads the given packages (and their imports) into the base store.
func (e *Env) Preload(pkgPaths ...string) (err error) {
	defer func() {
		if r := recover(); r != nil {
			err = fmt.Errorf("preload: %v", fmtPanic(nil, r))
		}
	}()
	for _, p := range pkgPaths {
		if pv := e.store.GetPackage(p, true); pv == nil {
			return fmt.Errorf("preload: package %s not found under %s", p, e.root)
		}
	}
	return nil
}

func fmtPanic(m *gno.Machine, r any) string {
	switch v := r.(type) {
	case *gno.TypedValue:
		if m != nil {
			return v.Sprint(m)
		}
		return v.String()
	case *gno.PreprocessError:
		return v.Unwrap().Error()
	case gno.UnhandledPanicError:
		return v.Error()
	default:
		return fmt.Sprint(v)
	}
}

// Run executes main() of a single-file driver package and returns everything
// it printed. pkgPath decides the flavour: a /r/ path is run like a realm
// filetest (package saved, then main(cur realm) crossed into), anything else
// as a plain main package. A Gno panic that escapes main (or a preprocess
// error) is returned as err together with the output produced so far.
func (e *Env) Run(pkgPath, pkgName, fname, src string, maxAlloc int64) (out string, err error) {
	e.out.Reset()
	// Writes of this run (a realm driver is saved like a deployed package) go
	// to a cache layer over the base store that is never flushed, so runs do
	// not see each other.
	cw := e.base.CacheWrap()
	txs := e.store.BeginTransaction(cw, cw, nil, nil)
	ctx := test.Context("", pkgPath, nil)
	m := gno.NewMachineWithOptions(gno.MachineOptions{
		Output:        e.out,
		Store:         txs,
		Context:       ctx,
		MaxAllocBytes: maxAlloc,
		ReviveEnabled: true,
	})
	defer m.Release()
	defer func() {
		if r := recover(); r != nil {
			out = e.out.String()
			err = fmt.Errorf("%s", fmtPanic(m, r))
		}
	}()
	ctx.OriginCaller = test.DefaultCaller
	if !gno.IsRealmPath(pkgPath) {
		fn := m.MustParseFile(fname, src)
		pn := gno.NewPackageNode(gno.Name(pkgName), pkgPath, &gno.FileSet{})
		pv := pn.NewPackage(m.Alloc)
		m.Store.SetBlockNode(pn)
		m.Store.SetCachePackage(pv)
		m.SetActivePackage(pv)
		m.RunFiles(fn)
		m.RunMain()
		return e.out.String(), nil
	}
	mpkg := &std.MemPackage{
		Type: gno.MPUserProd,
		Name: pkgName,
		Path: pkgPath,
		Files: []*std.MemFile{
			{Name: "gnomod.toml", Body: gno.GenGnoModLatest(pkgPath)},
			{Name: fname, Body: src},
		},
	}
	m.RunMemPackage(mpkg, true)
	pv2 := m.Store.GetPackage(pkgPath, false)
	m.SetActivePackage(pv2)
	m.RunMainMaybeCrossing()
	return e.out.String(), nil
}
