package c50

// walkerGno is added (add-only, in a scratch copy made at run time) to the
// avl package of the tree under test: read-only accessors for the unexported
// node fields so the balance walker in the driver can see the recorded height
// and the child pointers. It changes no existing declaration.
const walkerGno = `package avl

func (node *Node) VerifHeight() int  { return int(node.height) }
func (node *Node) VerifSize() int    { return node.size }
func (node *Node) VerifLeft() *Node  { return node.leftNode }
func (node *Node) VerifRight() *Node { return node.rightNode }
func (tree *Tree) VerifRoot() *Node  { return tree.node }
`

// drvPath is the synthetic pure package holding the fixed part of the driver.
// It is loaded (preprocessed) once per store; the generated main package only
// carries the op table and calls Run. (Preprocessing a table written as Gno
// composite literals costs a VM instantiation per element, so the table
// travels as one string constant and is decoded by the driver.)
const drvPath = "gno.land/p/verif/c50drv"

const drvMod = `module = "gno.land/p/verif/c50drv"
gno = "0.9"
`

// mainGno is the generated main package: the op table as parallel slices of
// basic literals (one entry per op; lens = ops per sequence).
const mainGno = `package main

import "gno.land/p/verif/c50drv"

var (
	ks   = []int{%s}
	as   = []string{%s}
	bs   = []string{%s}
	is   = []int{%s}
	js   = []int{%s}
	ss   = []int{%s}
	ns   = []int{%s}
	lens = []int{%s}
)

func main() { c50drv.Run(ks, as, bs, is, js, ss, ns, lens) }
`

// driverGno is the fixed part of the driver: an interpreter for the op table
// that prints one line per observation. Line formats are mirrored by the model
// in c50.go. It imports nothing but the package under test.
const driverGno = `package c50drv

import "gno.land/p/nt/avl/v0"

type op struct {
	k    int    // op kind
	a, b string // key | start, end
	i, j int    // value | index | offset, count
	s    int    // stop the iteration callback at the s-th element (0: never)
	n    bool   // Set: store a nil value
}

const hexd = "0123456789abcdef"

func hx(s string) string {
	b := make([]byte, 0, 1+2*len(s))
	b = append(b, 'k')
	for i := 0; i < len(s); i++ {
		c := s[i]
		b = append(b, hexd[c>>4], hexd[c&15])
	}
	return string(b)
}

func vs(v any) string {
	if v == nil {
		return "nil"
	}
	if x, ok := v.(int); ok {
		return itoa(x)
	}
	return "?"
}

func bs(b bool) string {
	if b {
		return "t"
	}
	return "f"
}

// collector is the iteration callback: records pairs, stops at the s-th.
type collector struct {
	out  string
	n, s int
}

func (c *collector) cb(k string, v any) bool {
	if c.n > 0 {
		c.out += ","
	}
	c.out += hx(k) + "=" + vs(v)
	c.n++
	return c.s > 0 && c.n >= c.s
}

// walk checks the structure below n: returns the real height, the real number
// of leaves, the first defect found ("" if none) and appends the leaves in
// left-to-right order to *leaves.
func walk(n *avl.Node, leaves *string, cnt *int) (h int, sz int, bad string) {
	l, r := n.VerifLeft(), n.VerifRight()
	if l == nil && r == nil {
		if n.VerifHeight() != 0 {
			bad = "leaf-height-field"
		} else if n.VerifSize() != 1 || n.Size() != 1 {
			bad = "leaf-size-field"
		} else if !n.IsLeaf() {
			bad = "isleaf"
		}
		if *cnt > 0 {
			*leaves += ","
		}
		*leaves += hx(n.Key()) + "=" + vs(n.Value())
		*cnt++
		return 0, 1, bad
	}
	if l == nil || r == nil {
		return 0, 0, "one-child-node"
	}
	lh, ls, lb := walk(l, leaves, cnt)
	rh, rs, rb := walk(r, leaves, cnt)
	h = lh + 1
	if rh > lh {
		h = rh + 1
	}
	sz = ls + rs
	switch {
	case lb != "":
		bad = lb
	case rb != "":
		bad = rb
	case lh-rh > 1 || rh-lh > 1:
		bad = "unbalanced"
	case n.VerifHeight() != h:
		bad = "height-field"
	case n.VerifSize() != sz || n.Size() != sz:
		bad = "size-field"
	case n.IsLeaf():
		bad = "isleaf"
	}
	return h, sz, bad
}

func balanceLine(t *avl.Tree) string {
	root := t.VerifRoot()
	if root == nil {
		return "B ok 0 h-1 []"
	}
	leaves, cnt := "", 0
	h, sz, bad := walk(root, &leaves, &cnt)
	if bad == "" {
		bad = "ok"
	}
	return "B " + bad + " " + itoa(sz) + " h" + itoa(h) + " [" + leaves + "]"
}

func exec(t *avl.Tree, o op) (line string) {
	defer func() {
		if r := recover(); r != nil {
			line = "!panic"
		}
	}()
	switch o.k {
	case 0:
		var v any
		if !o.n {
			v = o.i
		}
		return "S " + bs(t.Set(o.a, v))
	case 1:
		return "G " + vs(t.Get(o.a))
	case 2:
		return "H " + bs(t.Has(o.a))
	case 3:
		v, ok := t.Remove(o.a)
		return "R " + vs(v) + " " + bs(ok)
	case 4:
		return "Z " + itoa(t.Size())
	case 5:
		k, v := t.GetByIndex(o.i)
		return "X " + hx(k) + "=" + vs(v)
	case 6:
		c := &collector{s: o.s}
		ret := t.Iterate(o.a, o.b, c.cb)
		return "I [" + c.out + "] " + bs(ret)
	case 7:
		c := &collector{s: o.s}
		ret := t.ReverseIterate(o.a, o.b, c.cb)
		return "J [" + c.out + "] " + bs(ret)
	case 8:
		c := &collector{s: o.s}
		t.IterateByOffset(o.i, o.j, c.cb)
		return "O [" + c.out + "]"
	case 9:
		c := &collector{s: o.s}
		t.ReverseIterateByOffset(o.i, o.j, c.cb)
		return "P [" + c.out + "]"
	}
	return "?"
}

func safeBalance(t *avl.Tree) (line string) {
	defer func() {
		if r := recover(); r != nil {
			line = "B walker-panic 0 h0 []"
		}
	}()
	return balanceLine(t)
}

func itoa(n int) string {
	if n == 0 {
		return "0"
	}
	neg := n < 0
	var b [24]byte
	i := len(b)
	for n != 0 {
		d := n % 10
		if d < 0 {
			d = -d
		}
		i--
		b[i] = byte('0' + d)
		n /= 10
	}
	if neg {
		i--
		b[i] = '-'
	}
	return string(b[i:])
}

func Run(ks []int, as, bs []string, is, js, ss, ns, lens []int) {
	p := 0
	for si, n := range lens {
		println("= " + itoa(si))
		var t *avl.Tree
		if si%2 == 0 {
			t = avl.NewTree()
		} else {
			t = &avl.Tree{} // "The zero struct can be used as an empty tree."
		}
		for e := p + n; p < e; p++ {
			o := op{k: ks[p], a: as[p], b: bs[p], i: is[p], j: js[p], s: ss[p], n: ns[p] != 0}
			println(exec(t, o))
			if o.k == 0 || o.k == 3 {
				println(safeBalance(t))
			}
		}
	}
}
`
